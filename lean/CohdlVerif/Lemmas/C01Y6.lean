import CohdlVerif.Lemmas.C01Y5

/-! C01 - whole grammar: when the block of an `if` is still pending afterwards, both branches were plain -/
namespace CohdlVerif.C01

theorem compile_ite_one (c : Nat) (t1 e1 k : Stmt) (x : Nat) (s : CSt) :
    compile (.ite c t1 e1 k) [x] s =
      if retAlways t1 && retAlways e1 then
        (mergeAcc [] x s.next (s.next + 1) (iR4 t1 c x s).1 (iR5 t1 e1 c x s).1, (iR5 t1 e1 c x s).2)
      else compile k (mergeAcc [] x s.next (s.next + 1) (iR4 t1 c x s).1 (iR5 t1 e1 c x s).1) (iR5 t1 e1 c x s).2 := by
  rw [compile_ite, iteLoop_consR]
  simp [iteLoop]

theorem ite_pend (c : Nat) (t1 e1 k : Stmt) (l cf : Bool) (ht : CSpec (compile t1) l cf) (he : CSpec (compile e1) l cf)
    (hk : CSpec (compile k) l cf) (x : Nat) (s : CSt) (hi : Inv s [x]) (hsi : SInv s)
    (hn : x ∈ Outs s (compile (.ite c t1 e1 k) [x] s).1 (compile (.ite c t1 e1 k) [x] s).2) :
    IterCtx t1 e1 c x s ∧ anyTrans s.next (iR4 t1 c x s).1 = false ∧ anyTrans (s.next + 1) (iR5 t1 e1 c x s).1 = false ∧
    compile (.ite c t1 e1 k) [x] s = compile k [x] (iR5 t1 e1 c x s).2 ∧
    Step (iR5 t1 e1 c x s).2 [x] (compile k [x] (iR5 t1 e1 c x s).2).2 (compile k [x] (iR5 t1 e1 c x s).2).1 ∧
    Inv (iR5 t1 e1 c x s).2 [x] ∧ Step s [x] (iR5 t1 e1 c x s).2 [x] := by
  have hx : x < s.next := hi.hlt.1 x (by simp)
  have hsx : s.atStart = true → x = 0 := fun h => by simpa using hi.start h
  have X := iterCtxG t1 e1 l cf ht he c x s hx hi.hlt.2 hsx hsi
  obtain ⟨T0, _⟩ := iteIter_step c (compile t1) (compile e1) ht.br he.br x s hx hi.hlt.2 hsx
  have T : Step s [x] (iR5 t1 e1 c x s).2 (s.next :: (s.next + 1) :: x :: ((iR4 t1 c x s).1 ++ (iR5 t1 e1 c x s).1)) := T0
  have n4 := X.n4
  have n5 := X.n5
  have hxot : x ∉ (iR4 t1 c x s).1 := fun h => by have := X.ot_r x h; omega
  have hxoe : x ∉ (iR5 t1 e1 c x s).1 := fun h => by have := X.oe_r x h; omega
  have hlacc : Hlt (iR5 t1 e1 c x s).2 (mergeAcc [] x s.next (s.next + 1) (iR4 t1 c x s).1 (iR5 t1 e1 c x s).1) :=
    ⟨fun o ho => (mergeAcc_nil_range X hx ho).2, by omega⟩
  have hnotlist : ∀ {P : Prop}, (x ∈ dB s (iR5 t1 e1 c x s).2 ∨ x ∈ dC s (iR5 t1 e1 c x s).2 ∨ x ∈ dR s (iR5 t1 e1 c x s).2) → P := by
    intro P h
    obtain ⟨lB, lC, lR⟩ := X.lists
    rw [lB, lC, lR] at h
    simp only [List.mem_append] at h
    have h1 := X.outs_t x
    have h2 := X.outs_e x
    rcases h with (h | h) | (h | h) | (h | h)
    · have := h1 (mem_Outs.mpr (Or.inr (Or.inl h))); omega
    · have := h2 (mem_Outs.mpr (Or.inr (Or.inl h))); omega
    · have := h1 (mem_Outs.mpr (Or.inr (Or.inr (Or.inl h)))); omega
    · have := h2 (mem_Outs.mpr (Or.inr (Or.inr (Or.inl h)))); omega
    · have := h1 (mem_Outs.mpr (Or.inr (Or.inr (Or.inr h)))); omega
    · have := h2 (mem_Outs.mpr (Or.inr (Or.inr (Or.inr h)))); omega
  have hxacc : x ∈ mergeAcc [] x s.next (s.next + 1) (iR4 t1 c x s).1 (iR5 t1 e1 c x s).1 := by
    rw [compile_ite_one] at hn
    split at hn
    · rcases mem_Outs.mp hn with h | h
      · exact h
      · exact hnotlist h
    · have Tk := (hk _ _ hlacc (fun h => by rw [X.hA5] at h; cases h) (fun _ => X.hA5)).1
      obtain ⟨tB, tC, tR⟩ := dX_trans' T Tk
      rw [mem_Outs, tB, tC, tR] at hn
      simp only [List.mem_append] at hn
      have hin : ∀ {P : Prop}, InR (iR5 t1 e1 c x s).2 (mergeAcc [] x s.next (s.next + 1) (iR4 t1 c x s).1 (iR5 t1 e1 c x s).1)
          (compile k (mergeAcc [] x s.next (s.next + 1) (iR4 t1 c x s).1 (iR5 t1 e1 c x s).1) (iR5 t1 e1 c x s).2).2 x →
          (x ∈ mergeAcc [] x s.next (s.next + 1) (iR4 t1 c x s).1 (iR5 t1 e1 c x s).1 → P) → P := by
        intro P h hc
        rcases h.1 with h | h
        · exact hc h
        · omega
      rcases hn with h | (h | h) | (h | h) | (h | h)
      · exact hin (Tk.open_r x h) id
      · exact hnotlist (Or.inl h)
      · exact hin (Tk.dB_spec.2 x h) id
      · exact hnotlist (Or.inr (Or.inl h))
      · exact hin (Tk.dC_spec.2 x h) id
      · exact hnotlist (Or.inr (Or.inr h))
      · exact hin (Tk.dR_spec.2 x h) id
  obtain ⟨hat, hae, hacc⟩ := mergeAcc_parent x s.next (s.next + 1) _ _ (by omega) (by omega) hxot hxoe hxacc
  have hra : (retAlways t1 && retAlways e1) = false := by
    cases hr : retAlways t1
    · rfl
    · exfalso
      have hnil := retAlways_open_nil t1 hr [s.next] (itePre c x s)
      have := ((anyTrans_false_iff _ _).mp hat).1
      exact this hnil
  have heq : compile (.ite c t1 e1 k) [x] s = compile k [x] (iR5 t1 e1 c x s).2 := by
    rw [compile_ite_one, hacc]; simp [hra]
  have hfx5 : ((iR5 t1 e1 c x s).2.heap x).front = [] := by
    rw [X.Te.frame x (by omega) (by simp; omega), X.Tt.frame x (by simp [itePre_next]; omega) (by simp; omega),
      itePre_front_parent c x s hx]
    exact hi.front x (by simp)
  have hi5 : Inv (iR5 t1 e1 c x s).2 [x] := Inv.single (by omega) (by omega) X.hA5 hfx5
  exact ⟨X, hat, hae, heq, (hk _ _ hi5.hlt hi5.start (fun _ => X.hA5)).1, hi5,
    T.weaken (fun _ h => h) (fun o ho => T.open_r o (by simp at ho; simp [ho]))⟩


/-- shape of the outputs when the block of a statement is still pending afterwards -/
def PendS (t : Stmt) : Prop :=
  ∀ x s, Inv s [x] → SInv s → s.atStart = false →
    (x ∈ (compile t [x] s).1 → (compile t [x] s).1 = [x] ∧ SameLists s (compile t [x] s).2) ∧
    (x ∈ dR s (compile t [x] s).2 → (compile t [x] s).1 = [] ∧ dR s (compile t [x] s).2 = [x] ∧
      (compile t [x] s).2.brk = s.brk ∧ (compile t [x] s).2.cont = s.cont)

theorem pendS : ∀ (t : Stmt) (l c : Bool), wf t l c = true → PendS t := by
  intro t
  induction t with
  | skip =>
    intro l c _ x s _ _ _
    simp only [compile]
    exact ⟨fun _ => ⟨trivial, SameLists.refl s⟩, fun h => by simp [dR] at h⟩
  | act a k ih =>
    intro l c h x s hi hsi hA
    have hk : wf k l c = true := by simpa [wf] using h
    rw [compile_act_single]
    have hx := HeapExt.append s [x] x (by simp) (.act a)
    have hA1 := (hx.step hi.hlt.1).atStart_false hi.hlt.2 hA
    obtain ⟨i1, i2⟩ := ih l c hk x _ (hi.single_append _) (hsi.step (hx.step hi.hlt.1) hi.hlt.2) hA1
    obtain ⟨_, _, eR⟩ := dX_congr hx.sameLists (compile k [x] (s.append x (.act a))).2
    rw [← eR]
    exact ⟨fun h => ⟨(i1 h).1, hx.sameLists.trans (i1 h).2⟩,
      fun h => ⟨(i2 h).1, (i2 h).2.1, (i2 h).2.2.1.trans hx.brk_eq, (i2 h).2.2.2.trans hx.cont_eq⟩⟩
  | await cc k _ =>
    intro l c h x s hi _ hA
    have hk : wf k l c = true := by simpa [wf] using h
    have hnp := await_not_pending cc k l c hk x s hi hA
    exact ⟨fun h => (hnp (mem_Outs.mpr (Or.inl h))).elim, fun h => (hnp (mem_Outs.mpr (Or.inr (Or.inr (Or.inr h))))).elim⟩
  | awaitF =>
    intro l c _ x s _ _ _
    have e : compile .awaitF [x] s = ([], (enterState [x] s).2.2) := by simp [compile]
    rw [e]
    refine ⟨fun h => by simp at h, fun h => ?_⟩
    rw [(dX_same (enterState_sameLists [x] s)).2.2] at h; simp at h
  | ite cc t e k iht ihe ihk =>
    intro l c h x s hi hsi hA
    simp only [wf, Bool.and_eq_true] at h
    have key : x ∈ Outs s (compile (.ite cc t e k) [x] s).1 (compile (.ite cc t e k) [x] s).2 →
        ((x ∈ (compile (.ite cc t e k) [x] s).1 → (compile (.ite cc t e k) [x] s).1 = [x] ∧
            SameLists s (compile (.ite cc t e k) [x] s).2) ∧
         (x ∈ dR s (compile (.ite cc t e k) [x] s).2 → (compile (.ite cc t e k) [x] s).1 = [] ∧
            dR s (compile (.ite cc t e k) [x] s).2 = [x] ∧ (compile (.ite cc t e k) [x] s).2.brk = s.brk ∧
            (compile (.ite cc t e k) [x] s).2.cont = s.cont)) := by
      intro hn
      obtain ⟨X, hat, hae, heq, _, hi5, _⟩ := ite_pend cc t e k l c (compile_spec t l c h.1.1) (compile_spec e l c h.1.2)
        (compile_spec k l c h.2) x s hi hsi hn
      rw [heq]
      have s1 := ((iht l c h.1.1 s.next (itePre cc x s) X.hi3 X.hsi3 X.hA3).1 ((anyTrans_false_iff _ _).mp hat).mem).2
      have s2 := ((ihe l c h.1.2 (s.next + 1) (iR4 t cc x s).2 X.hi4 X.hsi4 X.hA4).1 ((anyTrans_false_iff _ _).mp hae).mem).2
      have s5 : SameLists s (iR5 t e cc x s).2 := ((itePre_sameLists cc x s).trans s1).trans s2
      obtain ⟨i1, i2⟩ := ihk l c h.2 x (iR5 t e cc x s).2 hi5 X.hsi5 X.hA5
      obtain ⟨_, _, eR⟩ := dX_congr s5 (compile k [x] (iR5 t e cc x s).2).2
      rw [← eR]
      exact ⟨fun h => ⟨(i1 h).1, s5.trans (i1 h).2⟩,
        fun h => ⟨(i2 h).1, (i2 h).2.1, (i2 h).2.2.1.trans s5.1, (i2 h).2.2.2.trans s5.2.1⟩⟩
    exact ⟨fun h => (key (mem_Outs.mpr (Or.inl h))).1 h, fun h => (key (mem_Outs.mpr (Or.inr (Or.inr (Or.inr h))))).2 h⟩
  | while_ cc b k _ _ =>
    intro l c h x s hi hsi hA
    simp only [wf, Bool.and_eq_true] at h
    have hnp := while_not_pending cc b k l c h.1 h.2 x s hi hsi hA
    exact ⟨fun h => (hnp (mem_Outs.mpr (Or.inl h))).elim, fun h => (hnp (mem_Outs.mpr (Or.inr (Or.inr (Or.inr h))))).elim⟩
  | brk => intro l c _ x s _ _ _; simp [compile, dR]
  | cont => intro l c _ x s _ _ _; simp [compile, dR]
  | ret => intro l c _ x s _ _ _; simp [compile, dR]
  | call b k ihb ihk =>
    intro l c h x s hi hsi hA
    simp only [wf, Bool.and_eq_true] at h
    rw [compile_callG b k [x] s (by simp)]
    have C := cctx b (compile_spec b false true h.1) (fwdW b false true h.1) [x] s hi
    have hsiIn : SInv (cIn s) := ⟨hsi.states_lt, hsi.root0, hsi.states0⟩
    obtain ⟨b1, b2⟩ := ihb false true h.1 x (cIn s) C.hiIn hsiIn hA
    have hA2 : (cOut b [x] s).atStart = false := C.BW.atStart_false hi.hlt.2 hA
    have hsi2 := hsi.step C.BW hi.hlt.2
    have Tk := (compile_spec k l c h.2).step C.hi2 (fun _ => hA2)
    -- whenever x is pending at the end it was pending after the body, and then the body was plain
    have hres : x ∈ cRes b [x] s → cRes b [x] s = [x] ∧ (cOut b [x] s).brk = s.brk ∧ (cOut b [x] s).cont = s.cont := by
      intro hm
      simp only [cRes, List.mem_append] at hm
      rcases hm with hm | hm
      · obtain ⟨e1, e2⟩ := b1 hm
        have e3 : (compile b [x] (cIn s)).2.ret = [] := e2.2.2
        exact ⟨by simp [cRes, e1, e3], e2.1, e2.2.1⟩
      · obtain ⟨e1, e2, e3, e4⟩ := b2 (C.dRb ▸ hm)
        rw [C.dRb] at e2
        exact ⟨by simp [cRes, e1, e2], e3, e4⟩
    have hback : x ∈ Outs (cOut b [x] s) (compile k (cRes b [x] s) (cOut b [x] s)).1 (compile k (cRes b [x] s) (cOut b [x] s)).2 →
        x ∈ cRes b [x] s := by
      intro hm
      rcases (Tk.outs_r x hm).1 with h' | h'
      · exact h'
      · have := C.BW.next_le; have := hi.hlt.1 x (by simp); omega
    have hdR : dR s (compile k (cRes b [x] s) (cOut b [x] s)).2 = dR (cOut b [x] s) (compile k (cRes b [x] s) (cOut b [x] s)).2 := by
      simp [dR, cOut]
    rw [hdR]
    have key : x ∈ cRes b [x] s →
        ((x ∈ (compile k (cRes b [x] s) (cOut b [x] s)).1 → (compile k (cRes b [x] s) (cOut b [x] s)).1 = [x] ∧
            SameLists s (compile k (cRes b [x] s) (cOut b [x] s)).2) ∧
         (x ∈ dR (cOut b [x] s) (compile k (cRes b [x] s) (cOut b [x] s)).2 →
            (compile k (cRes b [x] s) (cOut b [x] s)).1 = [] ∧
            dR (cOut b [x] s) (compile k (cRes b [x] s) (cOut b [x] s)).2 = [x] ∧
            (compile k (cRes b [x] s) (cOut b [x] s)).2.brk = s.brk ∧ (compile k (cRes b [x] s) (cOut b [x] s)).2.cont = s.cont)) := by
      intro hm
      obtain ⟨er, eb, ec⟩ := hres hm
      have hi2 := C.hi2
      rw [er] at hi2 ⊢
      obtain ⟨k1, k2⟩ := ihk l c h.2 x (cOut b [x] s) hi2 hsi2 hA2
      have s2 : SameLists s (cOut b [x] s) := ⟨eb, ec, rfl⟩
      exact ⟨fun h => ⟨(k1 h).1, s2.trans (k1 h).2⟩,
        fun h => ⟨(k2 h).1, (k2 h).2.1, (k2 h).2.2.1.trans eb, (k2 h).2.2.2.trans ec⟩⟩
    exact ⟨fun h => (key (hback (mem_Outs.mpr (Or.inl h)))).1 h,
      fun h => (key (hback (mem_Outs.mpr (Or.inr (Or.inr (Or.inr h)))))).2 h⟩

end CohdlVerif.C01
