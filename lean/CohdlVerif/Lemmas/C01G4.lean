import CohdlVerif.Lemmas.C01G3
import CohdlVerif.Lemmas.C01Frag1f

/-! C01 - general grammar: forward invariant through one iteration of the `If` loop -/
namespace CohdlVerif.C01

theorem iteIter_fpost (c : Nat) (t1 e1 : Stmt) (l cf : Bool) (ht : CSpec (compile t1) l cf) (he : CSpec (compile e1) l cf)
    (ft : FwdG (compile t1) l) (fe : FwdG (compile e1) l) (b : Nat) (X : List Nat) (s : CSt)
    (hb : b < s.next) (h0 : 0 < s.next) (hs : s.atStart = true → b = 0) (hbf : (s.heap b).front = [])
    (hXn : (b :: X).Nodup) (hX : ∀ x ∈ X, x < s.next ∧ (s.heap x).front = []) :
    FPost s ((iR5 t1 e1 c b s).1 ++ ((iR4 t1 c b s).1 ++ (b :: X))) (iR5 t1 e1 c b s).2 ∧
    Step s (b :: X) (iR5 t1 e1 c b s).2 ((iR5 t1 e1 c b s).1 ++ ((iR4 t1 c b s).1 ++ (b :: X))) := by
  have hbX : b ∉ X := (List.nodup_cons.mp hXn).1
  have hXnd : X.Nodup := (List.nodup_cons.mp hXn).2
  have hlt : ∀ o ∈ b :: X, o < s.next := by
    intro o ho; rcases List.mem_cons.mp ho with h | h
    · exact h ▸ hb
    · exact (hX o h).1
  have T1 := itePre_step c b s hb
  have hA3 := itePre_atStart c b s hb h0 hs
  have hn3 : (itePre c b s).next = s.next + 2 := rfl
  -- (a) the If is appended
  have Sa : Step s (b :: X) (itePre c b s) ([s.next] ++ ((s.next + 1) :: b :: X)) := by
    refine T1.weaken (by simp) ?_
    intro o ho
    simp only [List.singleton_append, List.mem_cons] at ho
    rcases ho with h | h | h | h
    · exact InR.weakenO (by simp) (T1.open_r o (by simp [h]))
    · exact InR.weakenO (by simp) (T1.open_r o (by simp [h]))
    · exact InR.weakenO (by simp) (T1.open_r o (by simp [h]))
    · exact InR.ofMem T1 hlt (by simp [h])
  have hfX3 : ∀ x ∈ X, ((itePre c b s).heap x).front = [] := by
    intro x hx
    rw [T1.frame x (hX x hx).1 (by simp; intro e; subst e; exact hbX hx)]
    exact (hX x hx).2
  have Pa : FPost s ([s.next] ++ ((s.next + 1) :: b :: X)) (itePre c b s) := by
    refine FPost.of_same (itePre_sameLists c b s) ?_ ?_
    · simp only [List.singleton_append, List.nodup_cons, List.mem_cons, not_or]
      refine ⟨⟨by omega, by omega, fun h => by have := (hX _ h).1; omega⟩,
        ⟨by omega, fun h => by have := (hX _ h).1; omega⟩, hbX, hXnd⟩
    · intro o ho
      simp only [List.singleton_append, List.mem_cons] at ho
      rcases ho with h | h | h | h
      · subst h; exact itePre_child_front c b s
      · subst h; exact itePre_child2_front c b s
      · subst h; rw [itePre_front_parent c o s hb]; exact hbf
      · exact hfX3 o h
  -- (b) the body
  have hi3 : Inv (itePre c b s) [s.next] := Inv.single (by omega) (by omega) hA3 (itePre_child_front c b s)
  have Tt : Step (itePre c b s) [s.next] (iR4 t1 c b s).2 (iR4 t1 c b s).1 := ht.step hi3 (fun _ => hA3)
  have Ft : FPost (itePre c b s) (iR4 t1 c b s).1 (iR4 t1 c b s).2 := ft _ _ hi3 (fun _ => hA3)
  have hXb : ∀ x ∈ ((s.next + 1) :: b :: X), x < (itePre c b s).next ∧ x ∉ [s.next] ∧ ((itePre c b s).heap x).front = [] := by
    intro x hx
    have := Pa.2 x (mem_Outs.mpr (Or.inl (by simp at hx ⊢; right; exact hx)))
    simp only [List.mem_cons] at hx
    rcases hx with h | h | h
    · exact ⟨by omega, by simp; omega, this⟩
    · exact ⟨by omega, by simp; omega, this⟩
    · have := (hX x h).1; exact ⟨by omega, by simp; omega, by assumption⟩
  have hXbn : ((s.next + 1) :: b :: X).Nodup := by
    have := Pa.1
    simp only [Outs, (dX_same (itePre_sameLists c b s)).1, (dX_same (itePre_sameLists c b s)).2.1,
      (dX_same (itePre_sameLists c b s)).2.2, List.append_nil, List.singleton_append] at this
    exact (List.nodup_cons.mp this).2
  have Pb := FPost.comp hlt Sa (Tt.framed (fun x hx => (hXb x hx).1) (by simp [hn3]))
    Pa (FPost.frame Tt Ft hXbn hXb)
  have Sb := Sa.trans hlt (Tt.framed (X := (s.next + 1) :: b :: X) (fun x hx => (hXb x hx).1) (by simp [hn3]))
  -- (c) the else branch: reorder so that its block comes first
  have hlb := Sb.hlt ⟨hlt, h0⟩
  have hn4 := Tt.next_le
  have hnd4 : ((iR4 t1 c b s).1 ++ ((s.next + 1) :: b :: X)).Nodup := by
    have := Pb.1
    simp only [Outs] at this
    exact (List.nodup_append.mp (List.nodup_append.mp (List.nodup_append.mp this).1).1).1
  have hperm : ([s.next + 1] ++ ((iR4 t1 c b s).1 ++ (b :: X))).Perm ((iR4 t1 c b s).1 ++ ((s.next + 1) :: b :: X)) := by
    simpa using (List.perm_middle (a := s.next + 1) (l₁ := (iR4 t1 c b s).1) (l₂ := b :: X)).symm
  have hnd4' : ([s.next + 1] ++ ((iR4 t1 c b s).1 ++ (b :: X))).Nodup := hperm.nodup_iff.mpr hnd4
  have hsub : ∀ y ∈ [s.next + 1] ++ ((iR4 t1 c b s).1 ++ (b :: X)), y ∈ (iR4 t1 c b s).1 ++ ((s.next + 1) :: b :: X) :=
    fun y hy => hperm.mem_iff.mp hy
  have Pc0 := Pb.restrict hnd4' hsub
  have Sc0 : Step s (b :: X) (iR4 t1 c b s).2 ([s.next + 1] ++ ((iR4 t1 c b s).1 ++ (b :: X))) :=
    Sb.weaken (fun _ h => h) (fun o ho => Sb.open_r o (hsub o ho))
  have hA4 := Tt.atStart_false (by omega) hA3
  have hfe4 : ((iR4 t1 c b s).2.heap (s.next + 1)).front = [] :=
    Pc0.2 _ (mem_Outs.mpr (Or.inl (by simp)))
  have hi4 : Inv (iR4 t1 c b s).2 [s.next + 1] := Inv.single (by omega) (by omega) hA4 hfe4
  have Te : Step (iR4 t1 c b s).2 [s.next + 1] (iR5 t1 e1 c b s).2 (iR5 t1 e1 c b s).1 := he.step hi4 (fun _ => hA4)
  have Fe : FPost (iR4 t1 c b s).2 (iR5 t1 e1 c b s).1 (iR5 t1 e1 c b s).2 := fe _ _ hi4 (fun _ => hA4)
  have hYn : ((iR4 t1 c b s).1 ++ (b :: X)).Nodup := by
    have := hnd4'
    simp only [List.singleton_append] at this
    exact (List.nodup_cons.mp this).2
  have hY : ∀ x ∈ (iR4 t1 c b s).1 ++ (b :: X),
      x < (iR4 t1 c b s).2.next ∧ x ∉ [s.next + 1] ∧ ((iR4 t1 c b s).2.heap x).front = [] := by
    intro x hx
    have hx' : x ∈ [s.next + 1] ++ ((iR4 t1 c b s).1 ++ (b :: X)) := List.mem_append_right _ hx
    refine ⟨hlb.1 x (hsub x hx'), ?_, Pc0.2 x (mem_Outs.mpr (Or.inl hx'))⟩
    intro hm
    simp only [List.mem_singleton] at hm
    subst hm
    have := hnd4'
    simp only [List.singleton_append] at this
    exact (List.nodup_cons.mp this).1 hx
  have hlY : ∀ x ∈ (iR4 t1 c b s).1 ++ (b :: X), x < (iR4 t1 c b s).2.next := fun x hx => (hY x hx).1
  exact ⟨FPost.comp hlt Sc0 (Te.framed hlY (by simp; omega)) Pc0 (FPost.frame Te Fe hYn hY),
    Sc0.trans hlt (Te.framed hlY (by simp; omega))⟩

end CohdlVerif.C01
