import CohdlVerif.Model.C11

/-!
  C11 - helper lemmas: the frame invariant `Inv F g` ("every observable scratch stack holds exactly one entry
  per open frame of its kind") is preserved by every event of a compilation on the repaired tree, on the normal
  and on the exception path.
-/
namespace CohdlVerif.C11

/-- every observable scratch piece is at its rest value, no stale instantiation, no registered info -/
def Clean (g : G) : Prop :=
  (∀ k, masked k = false → g.s k = []) ∧ g.inst = [] ∧ g.reg = []

structure Inv (F : List Kind) (g : G) : Prop where
  len : ∀ k, masked k = false → k ≠ .ctx → (g.s k).length = F.count k
  ctx : F.count .ctx = 0 → g.s .ctx = []
  inst : ∀ e ∈ g.inst, e ∈ g.reg ∨ ∃ p ∈ g.s .arch, p.getD 2 0 = e
  reg : F.count .conv = 0 → g.reg = []
  archOk : ∀ F', F' <:+ F → F'.count .conv = 0 → F'.count .arch = 0

@[simp] theorem upd_same (s k v) : upd s k v k = v := by simp [upd]
theorem upd_other (s k v j) (h : j ≠ k) : upd s k v j = s j := by simp [upd, h]

@[simp] theorem push_s (k p g) : (push k p g).s = upd g.s k (p :: g.s k) := rfl
@[simp] theorem push_inst (k p g) : (push k p g).inst = g.inst := rfl
@[simp] theorem push_reg (k p g) : (push k p g).reg = g.reg := rfl
@[simp] theorem pop_s (k g) : (pop k g).s = upd g.s k (g.s k).tail := rfl
@[simp] theorem pop_inst (k g) : (pop k g).inst = g.inst := rfl
@[simp] theorem pop_reg (k g) : (pop k g).reg = g.reg := rfl

theorem clean_of_inv {g : G} (h : Inv [] g) : Clean g := by
  refine ⟨?_, ?_, ?_⟩
  · intro k hk
    by_cases hc : k = .ctx
    · subst hc; exact h.ctx (by simp)
    · have := h.len k hk hc
      simpa using this
  · have hr := h.reg (by simp)
    have ha : g.s .arch = [] := by simpa using h.len .arch rfl (by decide)
    cases hi : g.inst with
    | nil => rfl
    | cons e es =>
      have := h.inst e (by simp [hi])
      simp [hr, ha] at this
  · exact h.reg (by simp)

theorem archOk_tail {k : Kind} {F : List Kind}
    (h : ∀ F', F' <:+ (k :: F) → F'.count .conv = 0 → F'.count .arch = 0) :
    ∀ F', F' <:+ F → F'.count .conv = 0 → F'.count .arch = 0 :=
  fun F' hs => h F' (List.suffix_cons_iff.mpr (Or.inr hs))

theorem archOk_cons {k : Kind} {F : List Kind} (hk : k = .arch → F.count .conv ≠ 0)
    (h : ∀ F', F' <:+ F → F'.count .conv = 0 → F'.count .arch = 0) :
    ∀ F', F' <:+ (k :: F) → F'.count .conv = 0 → F'.count .arch = 0 := by
  intro F' hs hc
  rcases List.suffix_cons_iff.mp hs with e | hs'
  · subst e
    by_cases ka : k = .arch
    · subst ka
      rw [List.count_cons_of_ne (by decide)] at hc
      exact absurd hc (hk rfl)
    · by_cases kc : k = .conv
      · subst kc; simp at hc
      · rw [List.count_cons_of_ne kc] at hc
        rw [List.count_cons_of_ne ka]
        exact h F (List.suffix_refl F) hc
  · exact h F' hs' hc

theorem inv_of_clean {g : G} (h : Clean g) : Inv [] g := by
  obtain ⟨hs, hi, hr⟩ := h
  refine ⟨?_, ?_, ?_, ?_, ?_⟩
  · intro k hk _; simp [hs k hk]
  · intro _; exact hs .ctx rfl
  · intro e he; simp [hi] at he
  · intro _; exact hr
  · intro F' hs' _
    have : F' = [] := by simpa using hs'
    simp [this]

/-- generic region: enter pushes one entry -/
theorem inv_push {F : List Kind} {g : G} (k : Kind) (p : List Nat)
    (h1 : k ≠ .ctx) (h2 : k ≠ .arch) (h3 : k ≠ .conv) (h : Inv F g) : Inv (k :: F) (push k p g) := by
  refine ⟨?_, ?_, ?_, ?_, ?_⟩
  · intro j hj hjc
    by_cases e : j = k
    · subst e; simp [h.len j hj hjc]
    · have e' : k ≠ j := fun x => e x.symm
      simp [upd_other _ _ _ _ e, List.count_cons_of_ne e', h.len j hj hjc]
  · intro hc
    have e' : k ≠ Kind.ctx := h1
    rw [List.count_cons_of_ne e'] at hc
    simp [upd_other _ _ _ _ (Ne.symm h1), h.ctx hc]
  · intro e he
    have := h.inst e (by simpa using he)
    simpa [upd_other _ _ _ _ (Ne.symm h2)] using this
  · intro hc
    rw [List.count_cons_of_ne h3] at hc
    exact h.reg hc
  · exact archOk_cons (fun e => absurd e h2) h.archOk

/-- generic region: exit pops one entry -/
theorem inv_pop {F : List Kind} {g : G} (k : Kind)
    (h1 : k ≠ .ctx) (h2 : k ≠ .arch) (h3 : k ≠ .conv) (h : Inv (k :: F) g) : Inv F (pop k g) := by
  refine ⟨?_, ?_, ?_, ?_, ?_⟩
  · intro j hj hjc
    by_cases e : j = k
    · subst e
      have := h.len j hj hjc
      simp at this
      simp [this]
    · have e' : k ≠ j := fun x => e x.symm
      have := h.len j hj hjc
      rw [List.count_cons_of_ne e'] at this
      simp [upd_other _ _ _ _ e, this]
  · intro hc
    have := h.ctx (by rw [List.count_cons_of_ne h1]; exact hc)
    simp [upd_other _ _ _ _ (Ne.symm h1), this]
  · intro e he
    have := h.inst e (by simpa using he)
    simpa [upd_other _ _ _ _ (Ne.symm h2)] using this
  · intro hc
    exact h.reg (by rw [List.count_cons_of_ne h3]; exact hc)
  · exact archOk_tail h.archOk

/-- a masked region whose state is left behind: the observable invariant does not see it -/
theorem inv_drop_masked {F : List Kind} {g : G} (k : Kind) (hm : masked k = true)
    (h : Inv (k :: F) g) : Inv F g := by
  have h1 : k ≠ .ctx := by intro e; subst e; simp [masked] at hm
  have h2 : k ≠ .arch := by intro e; subst e; simp [masked] at hm
  have h3 : k ≠ .conv := by intro e; subst e; simp [masked] at hm
  refine ⟨?_, ?_, h.inst, ?_, archOk_tail h.archOk⟩
  · intro j hj hjc
    have e' : k ≠ j := by intro e; subst e; simp [hm] at hj
    have := h.len j hj hjc
    rwa [List.count_cons_of_ne e'] at this
  · intro hc
    exact h.ctx (by rw [List.count_cons_of_ne h1]; exact hc)
  · intro hc
    exact h.reg (by rw [List.count_cons_of_ne h3]; exact hc)

theorem inv_exit_ctx {F : List Kind} {g : G} (h : Inv (.ctx :: F) g) :
    Inv F { g with s := upd g.s .ctx [] } := by
  refine ⟨?_, ?_, ?_, ?_, archOk_tail h.archOk⟩
  · intro j hj hjc
    have e' : Kind.ctx ≠ j := fun x => hjc x.symm
    have := h.len j hj hjc
    rw [List.count_cons_of_ne e'] at this
    simp [upd_other _ _ _ _ hjc, this]
  · intro _; simp
  · intro e he
    have := h.inst e he
    simpa [upd_other _ _ _ _ (show Kind.arch ≠ Kind.ctx by decide)] using this
  · intro hc
    exact h.reg (by rw [List.count_cons_of_ne (by decide)]; exact hc)

theorem inv_enter_ctx {F : List Kind} {g : G} (a : List Nat) (h : Inv F g) :
    Inv (.ctx :: F) { g with s := upd g.s .ctx [a] } := by
  refine ⟨?_, ?_, ?_, ?_, archOk_cons (fun e => absurd e (by decide)) h.archOk⟩
  · intro j hj hjc
    have e' : Kind.ctx ≠ j := fun x => hjc x.symm
    simp [upd_other _ _ _ _ hjc, List.count_cons_of_ne e', h.len j hj hjc]
  · intro hc; simp at hc
  · intro e he
    have := h.inst e he
    simpa [upd_other _ _ _ _ (show Kind.arch ≠ Kind.ctx by decide)] using this
  · intro hc
    rw [List.count_cons_of_ne (by decide)] at hc
    exact h.reg hc

theorem inv_exit_conv {F : List Kind} {g : G} (h : Inv (.conv :: F) g) : Inv F (exitOk .conv g) := by
  have hl := h.len .conv rfl (by decide)
  simp at hl
  refine ⟨?_, ?_, ?_, ?_, archOk_tail h.archOk⟩
  · intro j hj hjc
    by_cases e : j = .conv
    · subst e; simp [exitOk, hl]
    · have e' : Kind.conv ≠ j := fun x => e x.symm
      have := h.len j hj hjc
      rw [List.count_cons_of_ne e'] at this
      simp [exitOk, upd_other _ _ _ _ e, this]
  · intro hc
    have := h.ctx (by rw [List.count_cons_of_ne (by decide)]; exact hc)
    simp [exitOk, upd_other _ _ _ _ (show Kind.ctx ≠ Kind.conv by decide), this]
  · intro e he
    simp only [exitOk, pop_inst, pop_reg, List.mem_filter] at he
    obtain ⟨he1, he2⟩ := he
    have := h.inst e he1
    rcases this with hr | hp
    · simp [hr] at he2
    · right
      simpa [exitOk, upd_other _ _ _ _ (show Kind.arch ≠ Kind.conv by decide)] using hp
  · intro _; simp [exitOk]


theorem inv_congr {F : List Kind} {g g1 : G} (hs : g1.s = g.s) (hi : g1.inst = g.inst) (hr : g1.reg = g.reg)
    (h : Inv F g) : Inv F g1 :=
  ⟨by rw [hs]; exact h.len, by rw [hs]; exact h.ctx, by rw [hs, hi, hr]; exact h.inst, by rw [hr]; exact h.reg, h.archOk⟩

theorem mkPrefix_frame {p : Nat} {g g1 : G} {str : List Nat} (h : mkPrefix p g = some (g1, str)) :
    g1.s = g.s ∧ g1.inst = g.inst ∧ g1.reg = g.reg := by
  unfold mkPrefix at h
  split at h
  · simp at h
  · simp only [Option.some.injEq, Prod.mk.injEq] at h
    obtain ⟨h1, _⟩ := h
    subst h1
    split <;> simp

theorem inv_enter_conv {F : List Kind} {g : G} (n : Nat) (hc : g.s .conv = []) (h : Inv F g) :
    Inv (.conv :: F) { push .conv [0, n] g with reg := [] } := by
  have hcnt : F.count .conv = 0 := by
    have := h.len .conv rfl (by decide)
    simpa [hc] using this.symm
  have hr := h.reg hcnt
  have ha := h.archOk F (List.suffix_refl F) hcnt
  have hsa : g.s .arch = [] := by
    have := h.len .arch rfl (by decide)
    simpa [ha] using this
  refine ⟨?_, ?_, ?_, ?_, archOk_cons (fun e => absurd e (by decide)) h.archOk⟩
  · intro j hj hjc
    by_cases e : j = .conv
    · subst e; simp [h.len _ hj hjc]
    · have e' : Kind.conv ≠ j := fun x => e x.symm
      simp [upd_other _ _ _ _ e, List.count_cons_of_ne e', h.len j hj hjc]
  · intro hc2
    rw [List.count_cons_of_ne (by decide)] at hc2
    simp [upd_other _ _ _ _ (show Kind.ctx ≠ Kind.conv by decide), h.ctx hc2]
  · intro e he
    have := h.inst e he
    simp [hr, hsa] at this
  · intro hc2; simp at hc2

theorem inv_enter_arch {F : List Kind} {g : G} (n e : Nat) (hc : g.s .conv ≠ []) (h : Inv F g) :
    Inv (.arch :: F) { push .arch [0, n, e] g with inst := e :: g.inst } := by
  have hcnt : F.count .conv ≠ 0 := by
    have := h.len .conv rfl (by decide)
    intro h0
    rw [h0] at this
    exact hc (List.length_eq_zero_iff.mp this)
  refine ⟨?_, ?_, ?_, ?_, archOk_cons (fun _ => hcnt) h.archOk⟩
  · intro j hj hjc
    by_cases e : j = .arch
    · subst e; simp [h.len _ hj hjc]
    · have e' : Kind.arch ≠ j := fun x => e x.symm
      simp [upd_other _ _ _ _ e, List.count_cons_of_ne e', h.len j hj hjc]
  · intro hc2
    rw [List.count_cons_of_ne (by decide)] at hc2
    simp [upd_other _ _ _ _ (show Kind.ctx ≠ Kind.arch by decide), h.ctx hc2]
  · intro e' he
    simp only [List.mem_cons] at he
    rcases he with rfl | he
    · right; simp
    · rcases h.inst e' he with hr | ⟨p, hp, hpe⟩
      · left; exact hr
      · right; exact ⟨p, by simp [hp], hpe⟩
  · intro hc2
    rw [List.count_cons_of_ne (by decide)] at hc2
    exact absurd hc2 hcnt

theorem inv_exitOk_arch {F : List Kind} {g : G} (h : Inv (.arch :: F) g) : Inv F (exitOk .arch g) := by
  have hl := h.len .arch rfl (by decide)
  simp at hl
  unfold exitOk
  cases hs : g.s .arch with
  | nil => simp [hs] at hl
  | cons p ps =>
    simp only
    refine ⟨?_, ?_, ?_, ?_, archOk_tail h.archOk⟩
    · intro j hj hjc
      by_cases e : j = .arch
      · subst e; simp [hs] at hl ⊢; omega
      · have e' : Kind.arch ≠ j := fun x => e x.symm
        have := h.len j hj hjc
        rw [List.count_cons_of_ne e'] at this
        simp [upd_other _ _ _ _ e, this]
    · intro hc
      have := h.ctx (by rw [List.count_cons_of_ne (by decide)]; exact hc)
      simp [upd_other _ _ _ _ (show Kind.ctx ≠ Kind.arch by decide), this]
    · intro e he
      rcases h.inst e (by simpa using he) with hr | ⟨q, hq, hqe⟩
      · left; simp [hr]
      · rw [hs] at hq
        simp only [List.mem_cons] at hq
        rcases hq with rfl | hq
        · left; simp [← hqe]
        · right; exact ⟨q, by simp [hs, hq], hqe⟩
    · intro hc
      have := h.archOk (.arch :: F) (List.suffix_refl _) (by rw [List.count_cons_of_ne (by decide)]; exact hc)
      simp at this

theorem inv_exitExc_arch {F : List Kind} {g : G} (h : Inv (.arch :: F) g) : Inv F (exitExc Cfg.fixed .arch g) := by
  have hl := h.len .arch rfl (by decide)
  simp at hl
  unfold exitExc
  cases hs : g.s .arch with
  | nil => simp [hs] at hl
  | cons p ps =>
    simp only [Cfg.fixed, if_true]
    refine ⟨?_, ?_, ?_, ?_, archOk_tail h.archOk⟩
    · intro j hj hjc
      by_cases e : j = .arch
      · subst e; simp [hs] at hl ⊢; omega
      · have e' : Kind.arch ≠ j := fun x => e x.symm
        have := h.len j hj hjc
        rw [List.count_cons_of_ne e'] at this
        simp [upd_other _ _ _ _ e, this]
    · intro hc
      have := h.ctx (by rw [List.count_cons_of_ne (by decide)]; exact hc)
      simp [upd_other _ _ _ _ (show Kind.ctx ≠ Kind.arch by decide), this]
    · intro e he
      simp only [pop_inst, List.mem_filter, bne_iff_ne, ne_eq] at he
      obtain ⟨he1, he2⟩ := he
      rcases h.inst e he1 with hr | ⟨q, hq, hqe⟩
      · left; simpa using hr
      · rw [hs] at hq
        simp only [List.mem_cons] at hq
        rcases hq with rfl | hq
        · exact absurd hqe.symm he2
        · right; exact ⟨q, by simp [hs, hq], hqe⟩
    · intro hc
      have := h.reg (by rw [List.count_cons_of_ne (by decide)]; exact hc)
      simpa using this

/-- normal exit of any region keeps the invariant -/
theorem inv_exitOk {F : List Kind} {g : G} (k : Kind) (h : Inv (k :: F) g) : Inv F (exitOk k g) := by
  cases k with
  | conv => exact inv_exit_conv h
  | arch => exact inv_exitOk_arch h
  | ctx => exact inv_exit_ctx h
  | archReuse => exact inv_pop _ (by decide) (by decide) (by decide) h
  | blk => exact inv_pop _ (by decide) (by decide) (by decide) h
  | pfx => exact inv_pop _ (by decide) (by decide) (by decide) h
  | hdl => exact inv_pop _ (by decide) (by decide) (by decide) h
  | apply => exact inv_pop _ (by decide) (by decide) (by decide) h
  | ret => exact inv_pop _ (by decide) (by decide) (by decide) h
  | always => exact inv_pop _ (by decide) (by decide) (by decide) h
  | ircall => exact inv_pop _ (by decide) (by decide) (by decide) h
  | irapply => exact inv_pop _ (by decide) (by decide) (by decide) h
  | sm => exact inv_pop _ (by decide) (by decide) (by decide) h
  | loop => exact inv_pop _ (by decide) (by decide) (by decide) h
  | scope => exact inv_pop _ (by decide) (by decide) (by decide) h

/-- exception exit of any region keeps the invariant ON THE REPAIRED TREE -/
theorem inv_exitExc {F : List Kind} {g : G} (k : Kind) (h : Inv (k :: F) g) : Inv F (exitExc Cfg.fixed k g) := by
  cases k with
  | arch => exact inv_exitExc_arch h
  | ircall => exact inv_drop_masked _ rfl h
  | irapply => exact inv_drop_masked _ rfl h
  | conv => exact inv_exitOk _ h
  | ctx => exact inv_exitOk _ h
  | archReuse => exact inv_exitOk _ h
  | blk => exact inv_exitOk _ h
  | pfx => exact inv_exitOk _ h
  | hdl => exact inv_exitOk _ h
  | apply => exact inv_exitOk _ h
  | ret => exact inv_exitOk _ h
  | always => exact inv_exitOk _ h
  | sm => exact inv_exitOk _ h
  | loop => exact inv_exitOk _ h
  | scope => exact inv_exitOk _ h

theorem inv_enter {F : List Kind} {g g1 : G} {k k1 : Kind} {a : List Nat} {n : Nat} {t : List Tok}
    (he : enter k a n g = .ok (g1, t, k1)) (h : Inv F g) : Inv (k1 :: F) g1 := by
  have generic : ∀ k : Kind, k ≠ .ctx → k ≠ .arch → k ≠ .conv →
      (Except.ok (push k a g, ([] : List Tok), k) : Except Err (G × List Tok × Kind)) = .ok (g1, t, k1) → Inv (k1 :: F) g1 := by
    intro k h1 h2 h3 e
    simp only [Except.ok.injEq, Prod.mk.injEq] at e
    obtain ⟨rfl, _, rfl⟩ := e
    exact inv_push _ _ h1 h2 h3 h
  have archCase : (let e := a.headD 0
      if g.s .conv = [] then (.error .noConv : Except Err (G × List Tok × Kind))
      else if g.inst.contains e then .ok (push .archReuse [e] g, [[3, e]], .archReuse)
      else .ok ({ push .arch [0, n, e] g with inst := e :: g.inst, dyn := g.dyn.filter (fun q => q.1 != e) }, [], .arch)) = .ok (g1, t, k1) → Inv (k1 :: F) g1 := by
    intro e
    simp only at e
    split at e
    · simp at e
    · rename_i hc
      split at e
      · simp only [Except.ok.injEq, Prod.mk.injEq] at e
        obtain ⟨rfl, _, rfl⟩ := e
        exact inv_push _ _ (by decide) (by decide) (by decide) h
      · simp only [Except.ok.injEq, Prod.mk.injEq] at e
        obtain ⟨rfl, _, rfl⟩ := e
        exact inv_congr (g := { push .arch [0, n, a.headD 0] g with inst := a.headD 0 :: g.inst }) rfl rfl rfl
          (inv_enter_arch _ _ hc h)
  cases k with
  | conv =>
    simp only [enter] at he
    split at he
    · simp at he
    · rename_i hc
      simp only [Except.ok.injEq, Prod.mk.injEq] at he
      obtain ⟨rfl, _, rfl⟩ := he
      exact inv_enter_conv _ (by simpa using hc) h
  | arch => exact archCase (by simpa only [enter] using he)
  | archReuse => exact archCase (by simpa only [enter] using he)
  | blk =>
    simp only [enter, Except.ok.injEq, Prod.mk.injEq] at he
    obtain ⟨rfl, _, rfl⟩ := he
    exact inv_push _ _ (by decide) (by decide) (by decide) h
  | ctx =>
    simp only [enter, Except.ok.injEq, Prod.mk.injEq] at he
    obtain ⟨rfl, _, rfl⟩ := he
    exact inv_enter_ctx _ h
  | pfx =>
    simp only [enter] at he
    split at he
    · simp at he
    · rename_i g2 str hm
      simp only [Except.ok.injEq, Prod.mk.injEq] at he
      obtain ⟨rfl, _, rfl⟩ := he
      obtain ⟨e1, e2, e3⟩ := mkPrefix_frame hm
      exact inv_push _ _ (by decide) (by decide) (by decide) (inv_congr e1 e2 e3 h)
  | sm =>
    simp only [enter] at he
    split at he
    · simp at he
    · exact generic .sm (by decide) (by decide) (by decide) he
  | hdl => exact generic .hdl (by decide) (by decide) (by decide) (by simpa only [enter] using he)
  | apply => exact generic .apply (by decide) (by decide) (by decide) (by simpa only [enter] using he)
  | ret => exact generic .ret (by decide) (by decide) (by decide) (by simpa only [enter] using he)
  | always => exact generic .always (by decide) (by decide) (by decide) (by simpa only [enter] using he)
  | ircall => exact generic .ircall (by decide) (by decide) (by decide) (by simpa only [enter] using he)
  | irapply => exact generic .irapply (by decide) (by decide) (by decide) (by simpa only [enter] using he)
  | loop => exact generic .loop (by decide) (by decide) (by decide) (by simpa only [enter] using he)
  | scope =>
    simp only [enter, Except.ok.injEq, Prod.mk.injEq] at he
    obtain ⟨rfl, _, rfl⟩ := he
    exact inv_push _ _ (by decide) (by decide) (by decide) h

theorem act_frame {cfg : Cfg} {perm : List Nat → List Nat} {a : Act} {g g1 : G} {t : List Tok}
    (h : act cfg perm a g = .ok (g1, t)) : g1.s = g.s ∧ g1.inst = g.inst ∧ g1.reg = g.reg := by
  cases a <;> simp only [act] at h
  case name n => split at h <;> (simp only [Except.ok.injEq, Prod.mk.injEq] at h; obtain ⟨rfl, _⟩ := h; simp)
  case useCtx =>
    split at h
    · simp only [Except.ok.injEq, Prod.mk.injEq] at h; obtain ⟨rfl, _⟩ := h; simp
    · simp at h
  case addPort p =>
    split at h
    · split at h
      · simp at h
      · simp only [Except.ok.injEq, Prod.mk.injEq] at h; obtain ⟨rfl, _⟩ := h; simp
    · simp at h
  case declare n =>
    split at h
    · simp only [Except.ok.injEq, Prod.mk.injEq] at h; obtain ⟨rfl, _⟩ := h; simp
    · simp at h
  all_goals (simp only [Except.ok.injEq, Prod.mk.injEq] at h; obtain ⟨rfl, _⟩ := h; simp)

theorem inv_unwind {F : List Kind} {g : G} (h : Inv F g) : Inv [] (unwind Cfg.fixed F g) := by
  induction F generalizing g with
  | nil => exact h
  | cons k F ih => exact ih (inv_exitExc k h)

theorem inv_closeAll {F : List Kind} {g : G} (h : Inv F g) : Inv [] (closeAll F g) := by
  induction F generalizing g with
  | nil => exact h
  | cons k F ih => exact ih (inv_exitOk k h)

theorem clean_age {g : G} (h : Clean g) : Clean (age g) := by
  obtain ⟨hs, hi, hr⟩ := h
  refine ⟨?_, hi, hr⟩
  intro k hk
  simp only [age]
  split <;> simp [hs k hk]

/-- main invariant theorem: from any state satisfying the frame invariant, whatever the rest of the event list
    does (including a crash at any position), the state left behind is clean -/
theorem clean_run (perm : List Nat → List Nat) (evs : List Ev) :
    ∀ (F : List Kind) (n : Nat) (g : G) (out : List Tok), Inv F g → Clean (run Cfg.fixed perm evs F n g out).2 := by
  induction evs with
  | nil => intro F n g out h; exact clean_age (clean_of_inv (inv_closeAll h))
  | cons ev evs ih =>
    intro F n g out h
    cases ev with
    | fail => exact clean_age (clean_of_inv (inv_unwind h))
    | exit =>
      cases F with
      | nil => exact ih [] _ g out h
      | cons k F => exact ih F _ _ out (inv_exitOk k h)
    | enter k a =>
      simp only [run]
      cases he : enter k a n g with
      | error e => exact clean_age (clean_of_inv (inv_unwind h))
      | ok r =>
        obtain ⟨g1, t, k1⟩ := r
        exact ih _ _ _ _ (inv_enter he h)
    | act a =>
      simp only [run]
      cases he : act Cfg.fixed perm a g with
      | error e => exact clean_age (clean_of_inv (inv_unwind h))
      | ok r =>
        obtain ⟨g1, t⟩ := r
        obtain ⟨e1, e2, e3⟩ := act_frame he
        exact ih _ _ _ _ (inv_congr e1 e2 e3 h)

end CohdlVerif.C11

namespace CohdlVerif.C11

theorem insertSorted_perm (x : Nat) (l : List Nat) : (insertSorted x l).Perm (x :: l) := by
  induction l with
  | nil => simp [insertSorted]
  | cons y ys ih =>
    simp only [insertSorted]
    split
    · exact List.Perm.refl _
    · exact (List.Perm.cons y ih).trans (List.Perm.swap x y ys)

theorem isort_perm (l : List Nat) : (isort l).Perm l := by
  induction l with
  | nil => simp [isort]
  | cons x xs ih => exact (insertSorted_perm x _).trans (List.Perm.cons x ih)

theorem insertSorted_sorted (x : Nat) (l : List Nat) (h : l.Pairwise (· ≤ ·)) :
    (insertSorted x l).Pairwise (· ≤ ·) := by
  induction l with
  | nil => simp [insertSorted]
  | cons y ys ih =>
    simp only [insertSorted]
    rw [List.pairwise_cons] at h
    split
    · rename_i hxy
      refine List.pairwise_cons.mpr ⟨?_, List.pairwise_cons.mpr h⟩
      intro z hz
      rcases List.mem_cons.mp hz with rfl | hz
      · exact hxy
      · exact Nat.le_trans hxy (h.1 z hz)
    · rename_i hxy
      refine List.pairwise_cons.mpr ⟨?_, ih h.2⟩
      intro z hz
      have := (insertSorted_perm x ys).mem_iff.mp hz
      rcases List.mem_cons.mp this with rfl | hz
      · omega
      · exact h.1 z hz

theorem isort_sorted (l : List Nat) : (isort l).Pairwise (· ≤ ·) := by
  induction l with
  | nil => simp [isort]
  | cons x xs ih => exact insertSorted_sorted x _ ih

/-- sorting removes the dependence on the iteration order of the set -/
theorem isort_eq_of_perm {l₁ l₂ : List Nat} (h : l₁.Perm l₂) : isort l₁ = isort l₂ :=
  List.Perm.eq_of_pairwise (fun _ _ _ _ h1 h2 => Nat.le_antisymm h1 h2) (isort_sorted l₁) (isort_sorted l₂)
    ((isort_perm l₁).trans (h.trans (isort_perm l₂).symm))

/-- a cache is sound when every entry holds the value computed from its key -/
def CacheSound (c : List (Nat × Nat)) : Prop := ∀ e ∈ c, e.2 = defOf e.1

theorem cacheGet_sound {c : List (Nat × Nat)} (k : Nat) (h : CacheSound c) :
    (cacheGet c k).1 = defOf k ∧ CacheSound (cacheGet c k).2 := by
  unfold cacheGet
  split
  · rename_i e he
    have hm := List.mem_of_find?_eq_some he
    have hk := List.find?_some he
    simp only [beq_iff_eq] at hk
    exact ⟨by rw [h e hm, hk], h⟩
  · refine ⟨rfl, ?_⟩
    intro e he
    rcases List.mem_cons.mp he with rfl | he
    · rfl
    · exact h e he

end CohdlVerif.C11
