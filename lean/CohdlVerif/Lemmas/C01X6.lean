import CohdlVerif.Lemmas.C01X5
import CohdlVerif.Lemmas.C01Top5

/-! C01 - fragment 2: the final heap and the start of the program -/
namespace CohdlVerif.C01

theorem rejected_false (p : Stmt) (h : rejected p = false) :
    (compileSt p).2.bad = false ∧ (compileSt p).2.brk = [] ∧ (compileSt p).2.cont = [] ∧ (compileSt p).2.ret = [] := by
  simp only [rejected, Bool.or_eq_false_iff, Bool.not_eq_false', List.isEmpty_iff] at h
  exact ⟨h.1.1.1, h.1.1.2, h.1.2, h.2⟩

theorem final_ctx2 (p : Stmt) (hp : frag2 p false = true) :
    Step CSt.init [0] (compileSt p).2 (compileSt p).1 ∧
    (∀ x, (((compileSt p).2.addfrontAll (compileSt p).1 0).heap x).items = ((compileSt p).2.heap x).items) ∧
    (∀ x, x ∉ (compileSt p).1 → ((compileSt p).2.addfrontAll (compileSt p).1 0).heap x = (compileSt p).2.heap x) ∧
    (∀ o ∈ (compileSt p).1, lastT (((compileSt p).2.addfrontAll (compileSt p).1 0).heap o).front = some 0) ∧
    (∀ x, (compileSt p).2.next ≤ x → ((compileSt p).2.addfrontAll (compileSt p).1 0).heap x = {}) ∧
    TOK ((compileSt p).2.addfrontAll (compileSt p).1 0) ∧ SInv (compileSt p).2 ∧ 0 < (compileSt p).2.next := by
  have T : Step CSt.init [0] (compileSt p).2 (compileSt p).1 :=
    (frag2_spec p false hp).step Inv.init (fun h => by cases h)
  have hl := T.hlt Inv.init.hlt
  have F : FPost CSt.init (compileSt p).1 (compileSt p).2 := fwd2 p false hp [0] CSt.init Inv.init (fun h => by cases h)
  have hn := F.nodup_open
  have hf : ∀ o' ∈ (compileSt p).1, ((compileSt p).2.heap o').front = [] := fun o ho => F.2 o (mem_Outs.mpr (Or.inl ho))
  have hsi := SInv.init.step T (by simp [CSt.init])
  have hfresh := T.fresh (fun x _ => rfl)
  have htok := T.tgt TOK.init
  have hx := HeapExt.addfrontAll (compileSt p).1 0 (compileSt p).1 (compileSt p).2 (fun _ h => h) (fun h => h)
  refine ⟨T, fun x => addfrontAll_items 0 x _ _, fun x hx' => addfrontAll_heap_notin 0 x _ _ hx', ?_, ?_, hx.tgt htok, hsi, hl.2⟩
  · intro o ho
    rw [addfrontAll_heap_nodup 0 o _ _ hn ho]
    simp only [hf o ho]; rfl
  · intro x hx'
    rw [addfrontAll_heap_notin 0 x _ _ (fun hm => by have := hl.1 x hm; omega)]
    exact hfresh x hx'

section
variable {σ : Type} (act : Nat → σ → σ) (cond : Nat → σ → Bool)

/-- the start of a fragment-2 program and state 0 of its final heap simulate each other -/
theorem start_sim2 (p : Stmt) (hp : frag2 p false = true) (hrej : rejected p = false) (Hf : Nat → Blk)
    (E : Nat → σ → σ × Option Nat) (hE : ∀ b s, E b s = execB act cond E (Hf b) s)
    (H1 : ∀ x, (Hf x).items = ((compileSt p).2.heap x).items)
    (H2 : ∀ x, x ∉ (compileSt p).1 → Hf x = (compileSt p).2.heap x)
    (H3 : ∀ o ∈ (compileSt p).1, lastT (Hf o).front = some 0) :
    SimAll act cond p E (compileSt p).2.states .start 0 := by
  obtain ⟨T, _, _, _, _, _, hsi', h0⟩ := final_ctx2 p hp
  obtain ⟨hbad, hb, hc, hr⟩ := rejected_false p hrej
  have hF : Fut Hf (compileSt p).2.root (compileSt p).2.states (compileSt p).2 (fun y => y ∈ (compileSt p).1) :=
    ⟨fun x _ => by rw [H1]; exact List.prefix_refl _, fun x _ hx => H2 x hx, fun _ _ => rfl, List.prefix_refl _⟩
  obtain ⟨hc0, hS0⟩ := cur_zero Hf (compileSt p).2.root (compileSt p).2.states hsi' h0 hF
  have hdB : dB CSt.init (compileSt p).2 = [] := by simp [dB, hb]
  have hdC : dC CSt.init (compileSt p).2 = [] := by simp [dC, hc]
  have hdR : dR CSt.init (compileSt p).2 = [] := by simp [dR, hr]
  intro m
  induction m with
  | zero => trivial
  | succ m ih =>
    have hprem : Prems act cond p Hf E (compileSt p).2.root (compileSt p).2.states (m+1) [0] [] CSt.init
        (compile p [0] CSt.init) := by
      refine ⟨?_, ?_, ?_, ?_⟩
      · intro o' ho' suf hsuf s0
        have ho'' : o' ∈ (compileSt p).1 := ho'
        have hsuf' : (Hf o').items = ((compileSt p).2.heap o').items ++ suf := hsuf
        rw [H1] at hsuf'
        have : suf = [] := by simpa using hsuf'.symm
        subst this
        by_cases hz : lvl (compileSt p).2.root [0] (m+1) o' = 0
        · exact Or.inl hz
        right
        refine ⟨1, .start, by simp [run, tailF, execI], ?_, fun _ => by simp [tailF, execI, H3 o' ho'', por]⟩
        simp only [tailF, execI, H3 o' ho'', por, Option.getD_some]
        exact SimN_mono_le act cond p E _ _ _ (by have := lvl_le (compileSt p).2.root [0] (m+1) o'; omega) _ _ ih
      · intro o' ho'; rw [show dB CSt.init (compile p [0] CSt.init).2 = [] from hdB] at ho'; cases ho'
      · intro o' ho'; rw [show dC CSt.init (compile p [0] CSt.init).2 = [] from hdC] at ho'; cases ho'
      · intro o' ho'; rw [show dR CSt.init (compile p [0] CSt.init).2 = [] from hdR] at ho'; cases ho'
    have hs := sim2 act cond p Hf E (compileSt p).2.root (compileSt p).2.states hE p false hp [] [0] CSt.init (m+1) [0]
      (fun y => y ∈ (compileSt p).1) Inv.init SInv.init (fun h => by cases h) hbad hF
      (fun y hy _ _ => mem_Outs.mpr (Or.inl hy)) hprem 0 (by simp)
    have hlv : lvl (compileSt p).2.root [0] (m+1) 0 = m + 1 := by simp [lvl, hsi'.root0]
    rw [hlv] at hs
    intro s0
    have h1 := hs (Hf 0).items (by simp [CSt.init]) s0
    rw [← E_tailF act cond Hf E hE 0, hc0] at h1
    rcases h1 with h1 | ⟨f, r, h1, h2, _⟩
    · omega
    · rw [mStep_some E _ 0 0 hS0]
      have e : CSt.init.atStart = true := rfl
      rw [e] at h1
      exact ⟨f, r, by simpa [refStep] using h1, h2⟩

end
end CohdlVerif.C01
