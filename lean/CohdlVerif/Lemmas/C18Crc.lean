import CohdlVerif.Lemmas.C18Repeat
/-!
  C18 helper lemmas, part 6: the CRC register after any bit sequence = remainder of the bitwise polynomial
  long division of the whole message.
-/
namespace CohdlVerif.C18

theorem xorPre_falses (r : List Bool) : xorPre r (List.replicate r.length false) = r := by
  induction r with
  | nil => rfl
  | cons a r ih => simp [List.replicate_succ, xorPre, ih]

theorem xorPre_snoc_false (r : List Bool) : ∀ d : List Bool, xorPre (r ++ [false]) d = xorPre r d := by
  induction r with
  | nil => intro d; cases d <;> simp [xorPre]
  | cons a r ih => intro d; cases d <;> simp [xorPre, ih]

theorem bxor_comm (a b : List Bool) : bxor a b = bxor b a := by
  unfold bxor
  rw [List.zipWith_comm]
  congr 1; funext x y; exact Bool.xor_comm y x

theorem crcStep_length (poly reg : Bits) (d : Bool) (h : reg.length = poly.length) (hw : 1 ≤ reg.length) :
    (crcStep poly reg d).length = poly.length := by
  unfold crcStep
  simp only []
  split <;> simp [bxor, List.length_dropLast] <;> omega

theorem crc_division (poly : Bits) (hw : 1 ≤ poly.length) : ∀ (msg : List Bool) (reg : Bits), reg.length = poly.length →
    polyRem poly.reverse msg.length (xorPre reg.reverse (msg ++ List.replicate poly.length false))
      = (crcIter poly reg msg).reverse := by
  intro msg
  induction msg with
  | nil =>
    intro reg h
    simp only [List.length_nil, polyRem, List.nil_append, crcIter, List.foldl_nil]
    rw [← h, ← List.length_reverse, xorPre_falses]
  | cons d m ih =>
    intro reg h
    -- split the register at its most significant bit
    have hne : reg.reverse ≠ [] := by
      intro h0
      have h1 : reg = [] := by simpa using h0
      rw [h1] at h; simp at h; omega
    cases hR : reg.reverse with
    | nil => exact absurd hR hne
    | cons r0 R' =>
      have hreg : reg = R'.reverse ++ [r0] := by
        have := congrArg List.reverse hR; simpa using this
      have hlast : reg.getLastD false = r0 := by rw [hreg]; simp
      have hdrop : reg.dropLast = R'.reverse := by rw [hreg]; simp
      have hR'len : R'.length + 1 = poly.length := by
        have := congrArg List.length hR; simp at this; omega
      simp only [List.length_cons, List.cons_append, xorPre, polyRem, crcIter, List.foldl_cons]
      have hstep : (crcStep poly reg d).reverse =
          if xor r0 d then bxor poly.reverse (R' ++ [false]) else R' ++ [false] := by
        unfold crcStep
        simp only [hlast, hdrop]
        split
        · unfold bxor
          rw [List.reverse_zipWith (by simp; omega)]
          simp only [List.reverse_cons, List.reverse_reverse]
          exact bxor_comm _ _
        · simp
      have hlen' := crcStep_length poly reg d h (by omega)
      have := ih (crcStep poly reg d) hlen'
      simp only [crcIter] at this
      rw [← this, hstep]
      congr 1
      split
      · rw [← xorPre_snoc_false R', xorPre_xorPre _ _ (by simp; omega)]
      · rw [xorPre_snoc_false]

/-- `BitwiseCrc` (register = `init`) after the bits `msg` holds the remainder of (init·x^n + msg)·x^w divided by the generator -/
theorem crcIter_eq_spec (poly init : Bits) (msg : List Bool) (hw : 1 ≤ poly.length) (h : init.length = poly.length) :
    crcIter poly init msg = crcSpec poly init msg := by
  unfold crcSpec
  rw [crc_division poly hw msg init h, List.reverse_reverse]

end CohdlVerif.C18
