import CohdlVerif.Lemmas.C01Y3

/-! C01 - whole grammar: `if` whose branches both always return -/
namespace CohdlVerif.C01

section
variable {σ : Type} (act : Nat → σ → σ) (cond : Nat → σ → Bool)
variable (prog : Stmt) (Hf : Nat → Blk) (E : Nat → σ → σ × Option Nat) (Rf : Nat → Nat) (Sf : List Nat)

theorem simG_iteR (hE : ∀ b s, E b s = execB act cond E (Hf b) s) (cc : Nat) (t e k : Stmt) (l c : Bool)
    (hr : (retAlways t && retAlways e) = true)
    (ht : CSpec (compile t) l c) (he : CSpec (compile e) l c)
    (bt : BadMono (compile t)) (be : BadMono (compile e))
    (iht : SimG act cond prog Hf E Rf Sf t l) (ihe : SimG act cond prog Hf E Rf Sf e l)
    (pt : PlainG act cond Hf E Rf Sf t) (pe : PlainG act cond Hf E Rf Sf e) (nt : NoTrLists t) (ne : NoTrLists e) :
    SimG act cond prog Hf E Rf Sf (.ite cc t e k) l := by
  intro st O s m R0 P' hi hsi hL hbad hF hP' hp o ho
  have hO : O ≠ [] := fun h => by subst h; simp at ho
  have hc : compile (.ite cc t e k) O s = iteLoop cc (compile t) (compile e) O s [] := by
    rw [compile_ite]; simp [hr]
  rw [hc] at hF hP' hp hbad
  simp only [Bool.and_eq_true] at hr
  have hnil : (iteLoop cc (compile t) (compile e) O s []).1 = [] :=
    iteLoop_open_nil cc _ _ (retAlways_open_nil t hr.1) (retAlways_open_nil e hr.2) O s []
  obtain ⟨_, _, hA⟩ := iteLoop_step cc (compile t) (compile e) ht.br he.br O s [] hi.hlt hi.start
  have hAe := hA hO
  have := iteLoop_simG act cond prog Hf E Rf Sf hE cc t e k l c ht he bt be iht ihe pt pe nt ne st m R0 P' O s []
    hi.hlt hi.start hi.nodup hi.front hsi (by simp) hbad hF hP'
    (by rw [hnil]; simp)
    (by intro o' ho'; have := hp.br o' ho'; rwa [hAe] at this)
    (by intro o' ho'; have := hp.co o' ho'; rwa [hAe] at this)
    (by intro o' ho'; have := hp.re o' ho'; rwa [hAe] at this)
  exact this o ho

end
end CohdlVerif.C01
