import CohdlVerif.Lemmas.C01W3

/-! C01 - general grammar: `While`, the end of the translation: what is still pending -/
namespace CohdlVerif.C01

/-- facts about the state after the whole loop statement has been translated -/
structure WEnd (cc : Option Nat) (b k : Stmt) (O : List Nat) (s : CSt) (Hf : Nat → Blk) (P' : Nat → Prop) : Prop where
  Tk : Step (wSX cc b O s) (wOk cc b O s) (compile k (wOk cc b O s) (wSX cc b O s)).2 (compile k (wOk cc b O s) (wSX cc b O s)).1
  AX : (wSX cc b O s).atStart = false
  hix : Inv (wSX cc b O s) (wOk cc b O s)
  LX : SameLists (wS4 b O s) (wSX cc b O s)
  n5 : (wS4 b O s).next ≤ (wCl cc b O s).2.next
  nX : (wCl cc b O s).2.next ≤ (wSX cc b O s).next
  /-- a block that exists when the continuation is translated is closed unless it is open there or was returned
      inside the body -/
  closed : ∀ y, y < (wSX cc b O s).next → (y ∈ O ∨ s.next ≤ y) → y ∉ wOk cc b O s → y ∉ dR s (wS4 b O s) →
    Hf y = (wSX cc b O s).heap y
  dRk : dR s (compile k (wOk cc b O s) (wSX cc b O s)).2 =
    dR s (wS4 b O s) ++ dR (wSX cc b O s) (compile k (wOk cc b O s) (wSX cc b O s)).2
  dBk : dB s (compile k (wOk cc b O s) (wSX cc b O s)).2 = dB (wSX cc b O s) (compile k (wOk cc b O s) (wSX cc b O s)).2
  dCk : dC s (compile k (wOk cc b O s) (wSX cc b O s)).2 = dC (wSX cc b O s) (compile k (wOk cc b O s) (wSX cc b O s)).2

theorem wend (cc : Option Nat) (b k : Stmt) (l c : Bool) (hk : CSpec (compile k) l c) (O : List Nat) (s : CSt)
    (X : WCtx cc b O s) (hi : Inv s O) (Hf : Nat → Blk) (Rf : Nat → Nat) (Sf : List Nat) (P' : Nat → Prop)
    (hF : Fut Hf Rf Sf (compile k (wOk cc b O s) (wSX cc b O s)).2 P')
    (hP' : ∀ y, P' y → y < (compile k (wOk cc b O s) (wSX cc b O s)).2.next → (y ∈ O ∨ s.next ≤ y) →
      y ∈ Outs s (compile k (wOk cc b O s) (wSX cc b O s)).1 (compile k (wOk cc b O s) (wSX cc b O s)).2) :
    WEnd cc b k O s Hf P' := by
  have hlw := X.W.hlt hi.hlt
  obtain ⟨XF, LXF, AX, n1, n2, fr1, fr2, okc⟩ := wSX_facts cc b O s hlw X.A5
  have hlx := XF.hlt hlw
  have hnR : (wRb cc b O s).Nodup := (List.nodup_cons.mp X.PCl.nodup_open).2
  have hix : Inv (wSX cc b O s) (wOk cc b O s) := by
    refine ⟨hlx, fun h => (by rw [AX] at h; cases h), ?_, ?_⟩
    · cases cc with
      | none => exact hnR
      | some c' =>
        refine List.nodup_cons.mpr ⟨fun h => ?_, hnR⟩
        have := hlw.1 _ (List.mem_cons_of_mem _ h); omega
    · intro o ho
      rcases okc o ho with h | ⟨_, h, _⟩
      · have hne : o ≠ wHb O s := fun e => (List.nodup_cons.mp X.PCl.nodup_open).1 (e ▸ h)
        rw [fr1 o hne (hlw.1 o (List.mem_cons_of_mem _ h))]
        exact X.PCl.2 o (mem_Outs.mpr (Or.inl (List.mem_cons_of_mem _ h)))
      · rw [h]
  have Tk := hk.step hix (fun _ => AX)
  have LX : SameLists (wS4 b O s) (wSX cc b O s) := X.L5.trans LXF
  have hBX : dB s (wSX cc b O s) = [] := by simp [dB, LX.1, X.L4.1]
  have hCX : dC s (wSX cc b O s) = [] := by simp [dC, LX.2.1, X.L4.2]
  have hRX : dR s (wSX cc b O s) = dR s (wS4 b O s) := by simp [dR, LX.2.2]
  have hsplit : ∀ (s' : CSt) (O1 O2 : List Nat), Step (wSX cc b O s) O1 s' O2 →
      dB s s' = dB s (wSX cc b O s) ++ dB (wSX cc b O s) s' ∧ dC s s' = dC s (wSX cc b O s) ++ dC (wSX cc b O s) s' ∧
      dR s s' = dR s (wSX cc b O s) ++ dR (wSX cc b O s) s' := fun s' O1 O2 h => dX_trans' (X.W.trans hi.hlt.1 XF) h
  obtain ⟨tB, tC, tR⟩ := hsplit _ _ _ Tk
  rw [hBX, List.nil_append] at tB
  rw [hCX, List.nil_append] at tC
  rw [hRX] at tR
  refine ⟨Tk, AX, hix, LX, X.CL.next_le, n1, ?_, tR, tB, tC⟩
  intro y hy hr hyo hyr
  have hnp : ¬ P' y := fun hp' => by
    have := hP' y hp' (by have := Tk.next_le; omega) hr
    rw [mem_Outs, tB, tC, tR] at this
    simp only [List.mem_append] at this
    have hin : ∀ {P : Prop}, InR (wSX cc b O s) (wOk cc b O s) (compile k (wOk cc b O s) (wSX cc b O s)).2 y → P := by
      intro P h
      rcases h.1 with h | h
      · exact absurd h hyo
      · omega
    rcases this with h | h | h | h | h
    · exact hin (Tk.open_r y h)
    · exact hin (Tk.dB_spec.2 y h)
    · exact hin (Tk.dC_spec.2 y h)
    · exact hyr h
    · exact hin (Tk.dR_spec.2 y h)
  rw [hF.closed y (by have := Tk.next_le; omega) hnp, Tk.frame y hy hyo]

end CohdlVerif.C01
