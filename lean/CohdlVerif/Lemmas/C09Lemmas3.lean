import CohdlVerif.Lemmas.C09Lemmas2

/-! C09 - per-constructor case lemmas (Python int vs cohdl.Integer operands are handled by the same code
    paths; the proofs are instantiated once per constructor) used by the property theorems in Props/C09.lean -/
namespace CohdlVerif.C09

theorem sAdd_intlike (w n : Nat) (b : Val) (r : Int) (hb : b = .int r ∨ b = .integer r) (hw : 1 ≤ w)
    (hr : inRange .sgn w r = true) : sAdd w n b = .ok (wrap .sgn w (toInt w n + r)) := by
  rcases hb with rfl | rfl <;>
  simp only [sAdd, (sFromIntWidth_le w r hw).mpr hr, if_true, ripple_pat, pat_absorb_r, pat_absorb_l, wrap]

theorem sSub_intlike (w n : Nat) (b : Val) (r : Int) (hb : b = .int r ∨ b = .integer r) :
    sSub w n b = .ok (wrap .sgn w (toInt w n - r)) := by
  rcases hb with rfl | rfl <;>
  simp only [sSub, sAdd, ripple_pat, pat_absorb_r, pat_absorb_l, wrap, Int.sub_eq_add_neg]
/-- `__rsub__`: `lhs + -self` -/
theorem pat_rsub (w : Nat) (i l : Int) (hw : 1 ≤ w) :
    pat w (toInt w (pat w (-i)) + l) = pat w (l - i) := by
  rw [Int.add_comm, pat_toInt_absorb w _ l hw (pat_lt _ _), pat_absorb_r, Int.sub_eq_add_neg]

theorem uAdd_intlike (w n : Nat) (b : Val) (r : Int) (hb : b = .int r ∨ b = .integer r) (hw : 1 ≤ w) :
    uAdd w n b = .ok (.vec .uns w (pat w ((n : Int) + r))) := by
  rcases hb with rfl | rfl
  · exact uAdd_int w n r hw
  · exact uAdd_integer w n r hw

theorem uSub_intlike (w n : Nat) (b : Val) (r : Int) (hb : b = .int r ∨ b = .integer r) (hw : 1 ≤ w) :
    uSub w n b = .ok (.vec .uns w (pat w ((n : Int) - r))) := by
  have h := uSub_int w n r hw
  rcases hb with rfl | rfl
  · exact h
  · simpa only [uSub] using h

theorem si_aux_int (op : BinOp) (w n : Nat) (r : Int) (hw : 1 ≤ w) (hn : n < 2 ^ w) (v : Val)
    (hop : ¬ (op = .shl ∨ op = .shr))
    (hs : specBin op (.vec .sgn w n) (.int r) = some v) : pyBin op (.vec .sgn w n) (.int r) = .ok v := by
  have ra := inRange_toInt w n hw hn
  have hr : inRange .sgn w r = true := by
    cases op <;> simp_all [specBin, isNumeric]
  cases op
  case add =>
    simp only [specBin, specArith, isNumeric, hr, Bool.and_self, valOf, if_true, Nat.max_self, Option.some.injEq] at hs
    subst hs
    simp only [pyBin, lhsMethod, sAdd_intlike w n (.int r) r (Or.inl rfl) hw hr]
  case sub =>
    simp only [specBin, specArith, isNumeric, hr, Bool.and_self, valOf, if_true, Nat.max_self, Option.some.injEq] at hs
    subst hs
    simp only [pyBin, lhsMethod, sSub_intlike w n (.int r) r (Or.inl rfl)]
  case mul =>
    simp only [specBin, specArith, isNumeric, hr, Bool.and_self, valOf, if_true, Option.some.injEq] at hs
    subst hs
    simp only [pyBin, lhsMethod, sMul, Nat.two_mul, mkS_ok _ _ (inRange_mul w w _ _ hw hw ra hr)]
  case tdiv =>
    simp only [specBin, specArith, isNumeric, hr, Bool.and_self, valOf, if_true] at hs
    by_cases hz : r = 0
    · simp [hz] at hs
    · simp only [hz, ↓reduceIte, Option.some.injEq] at hs
      subst hs
      simp only [pyBin, opTruncdiv, sTruncdiv, hz, if_false, resToExcept, truncDiv_eq, wrap]
  case mod =>
    simp only [specBin, specArith, isNumeric, hr, Bool.and_self, valOf, if_true] at hs
    by_cases hz : r = 0
    · simp [hz] at hs
    · simp only [hz, ↓reduceIte, Option.some.injEq] at hs
      subst hs
      simp only [pyBin, lhsMethod, sMod, hz, if_false, mkS_ok _ _ (inRange_fmod w _ _ hr hz)]
  case rem =>
    simp only [specBin, specArith, isNumeric, hr, Bool.and_self, valOf, if_true] at hs
    by_cases hz : r = 0
    · simp [hz] at hs
    · simp only [hz, ↓reduceIte, Option.some.injEq] at hs
      subst hs
      simp only [pyBin, opRem, sRem, hz, if_false, resToExcept, truncRem_eq, mkS_ok _ _ (inRange_tmod w _ _ hr hz)]
  case shl => exact absurd (Or.inl rfl) hop
  case shr => exact absurd (Or.inr rfl) hop
  case fdiv => simp [specBin] at hs
  case and => simp [specBin] at hs
  case or => simp [specBin] at hs
  case xor => simp [specBin] at hs
  case cat => simp [specBin] at hs
  all_goals
    simp only [specBin, specArith, isNumeric, hr, Bool.and_self, valOf, if_true, Option.some.injEq] at hs
    subst hs
    simp only [pyBin, lhsMethod, sCmp, sCmpOperand]

theorem si_aux_integer (op : BinOp) (w n : Nat) (r : Int) (hw : 1 ≤ w) (hn : n < 2 ^ w) (v : Val)
    (hop : ¬ (op = .shl ∨ op = .shr))
    (hs : specBin op (.vec .sgn w n) (.integer r) = some v) : pyBin op (.vec .sgn w n) (.integer r) = .ok v := by
  have ra := inRange_toInt w n hw hn
  have hr : inRange .sgn w r = true := by
    cases op <;> simp_all [specBin, isNumeric]
  cases op
  case add =>
    simp only [specBin, specArith, isNumeric, hr, Bool.and_self, valOf, if_true, Nat.max_self, Option.some.injEq] at hs
    subst hs
    simp only [pyBin, lhsMethod, sAdd_intlike w n (.integer r) r (Or.inr rfl) hw hr]
  case sub =>
    simp only [specBin, specArith, isNumeric, hr, Bool.and_self, valOf, if_true, Nat.max_self, Option.some.injEq] at hs
    subst hs
    simp only [pyBin, lhsMethod, sSub_intlike w n (.integer r) r (Or.inr rfl)]
  case mul =>
    simp only [specBin, specArith, isNumeric, hr, Bool.and_self, valOf, if_true, Option.some.injEq] at hs
    subst hs
    simp only [pyBin, lhsMethod, sMul, Nat.two_mul, mkS_ok _ _ (inRange_mul w w _ _ hw hw ra hr)]
  case tdiv =>
    simp only [specBin, specArith, isNumeric, hr, Bool.and_self, valOf, if_true] at hs
    by_cases hz : r = 0
    · simp [hz] at hs
    · simp only [hz, ↓reduceIte, Option.some.injEq] at hs
      subst hs
      simp only [pyBin, opTruncdiv, sTruncdiv, hz, if_false, resToExcept, truncDiv_eq, wrap]
  case mod =>
    simp only [specBin, specArith, isNumeric, hr, Bool.and_self, valOf, if_true] at hs
    by_cases hz : r = 0
    · simp [hz] at hs
    · simp only [hz, ↓reduceIte, Option.some.injEq] at hs
      subst hs
      simp only [pyBin, lhsMethod, sMod, hz, if_false, mkS_ok _ _ (inRange_fmod w _ _ hr hz)]
  case rem =>
    simp only [specBin, specArith, isNumeric, hr, Bool.and_self, valOf, if_true] at hs
    by_cases hz : r = 0
    · simp [hz] at hs
    · simp only [hz, ↓reduceIte, Option.some.injEq] at hs
      subst hs
      simp only [pyBin, opRem, sRem, hz, if_false, resToExcept, truncRem_eq, mkS_ok _ _ (inRange_tmod w _ _ hr hz)]
  case shl => exact absurd (Or.inl rfl) hop
  case shr => exact absurd (Or.inr rfl) hop
  case fdiv => simp [specBin] at hs
  case and => simp [specBin] at hs
  case or => simp [specBin] at hs
  case xor => simp [specBin] at hs
  case cat => simp [specBin] at hs
  all_goals
    simp only [specBin, specArith, isNumeric, hr, Bool.and_self, valOf, if_true, Option.some.injEq] at hs
    subst hs
    simp only [pyBin, lhsMethod, sCmp, sCmpOperand]

theorem is_aux_int (op : BinOp) (w n : Nat) (l : Int) (hw : 1 ≤ w) (hn : n < 2 ^ w) (v : Val)
    (hs : specBin op (.int l) (.vec .sgn w n) = some v) : pyBin op (.int l) (.vec .sgn w n) = .ok v := by
  have ra := inRange_toInt w n hw hn
  have hz0 := toInt_eq_zero w n hw hn
  have hr : inRange .sgn w l = true := by
    cases op <;> simp_all [specBin, isNumeric]
  cases op
  case add =>
    simp only [specBin, specArith, isNumeric, hr, Bool.and_self, valOf, if_true, Nat.max_self, Option.some.injEq] at hs
    subst hs
    simp only [pyBin, lhsMethod, iArith, isIntLike, rhsMethod, sAdd_intlike w n (.int l) l (Or.inl rfl) hw hr, Int.add_comm]
  case sub =>
    simp only [specBin, specArith, isNumeric, hr, Bool.and_self, valOf, if_true, Nat.max_self, Option.some.injEq] at hs
    subst hs
    simp only [pyBin, lhsMethod, iArith, isIntLike, rhsMethod, sNeg_eq w n hw hn, wrap]
    rw [sAdd_intlike w _ (.int l) l (Or.inl rfl) hw hr]
    simp only [wrap, pat_rsub w _ l hw]
  case mul =>
    simp only [specBin, specArith, isNumeric, hr, Bool.and_self, valOf, if_true, Option.some.injEq] at hs
    subst hs
    simp only [pyBin, lhsMethod, iArith, isIntLike, rhsMethod, sRmul, Nat.two_mul, mkS_ok _ _ (inRange_mul w w _ _ hw hw hr ra)]
  case tdiv =>
    simp only [specBin, specArith, isNumeric, hr, Bool.and_self, valOf, if_true] at hs
    by_cases hz : toInt w n = 0
    · simp [hz] at hs
    · simp only [hz, ↓reduceIte, Option.some.injEq] at hs
      subst hs
      have hz' : n ≠ 0 := fun h => hz (hz0.mpr h)
      simp only [pyBin, opTruncdiv, isIntLike, sRtruncdiv, hz', if_false, resToExcept, truncDiv_eq, wrap]
  case mod =>
    simp only [specBin, specArith, isNumeric, hr, Bool.and_self, valOf, if_true] at hs
    by_cases hz : toInt w n = 0
    · simp [hz] at hs
    · simp only [hz, ↓reduceIte, Option.some.injEq] at hs
      subst hs
      have hz' : n ≠ 0 := fun h => hz (hz0.mpr h)
      simp only [pyBin, lhsMethod, iArith, isIntLike, rhsMethod, sRmod, hz', if_false, mkS_ok _ _ (inRange_fmod w _ _ ra hz)]
  case rem =>
    simp only [specBin, specArith, isNumeric, hr, Bool.and_self, valOf, if_true] at hs
    by_cases hz : toInt w n = 0
    · simp [hz] at hs
    · simp only [hz, ↓reduceIte, Option.some.injEq] at hs
      subst hs
      have hz' : n ≠ 0 := fun h => hz (hz0.mpr h)
      simp only [pyBin, opRem, isIntLike, sRrem, hz', if_false, resToExcept, truncRem_eq, mkS_ok _ _ (inRange_tmod w _ _ ra hz)]
  case shl => simp [specBin] at hs
  case shr => simp [specBin] at hs
  case fdiv => simp [specBin] at hs
  case and => simp [specBin] at hs
  case or => simp [specBin] at hs
  case xor => simp [specBin] at hs
  case cat => simp [specBin] at hs
  all_goals
    simp only [specBin, specArith, isNumeric, hr, Bool.and_self, valOf, if_true, Option.some.injEq] at hs
    subst hs
    simp only [pyBin, lhsMethod, iArith, isIntLike, rhsMethod, sCmp, sCmpOperand, cmpInt_swap]

theorem is_aux_integer (op : BinOp) (w n : Nat) (l : Int) (hw : 1 ≤ w) (hn : n < 2 ^ w) (v : Val)
    (hs : specBin op (.integer l) (.vec .sgn w n) = some v) : pyBin op (.integer l) (.vec .sgn w n) = .ok v := by
  have ra := inRange_toInt w n hw hn
  have hz0 := toInt_eq_zero w n hw hn
  have hr : inRange .sgn w l = true := by
    cases op <;> simp_all [specBin, isNumeric]
  cases op
  case add =>
    simp only [specBin, specArith, isNumeric, hr, Bool.and_self, valOf, if_true, Nat.max_self, Option.some.injEq] at hs
    subst hs
    simp only [pyBin, lhsMethod, iArith, isIntLike, rhsMethod, sAdd_intlike w n (.integer l) l (Or.inr rfl) hw hr, Int.add_comm]
  case sub =>
    simp only [specBin, specArith, isNumeric, hr, Bool.and_self, valOf, if_true, Nat.max_self, Option.some.injEq] at hs
    subst hs
    simp only [pyBin, lhsMethod, iArith, isIntLike, rhsMethod, sNeg_eq w n hw hn, wrap]
    rw [sAdd_intlike w _ (.integer l) l (Or.inr rfl) hw hr]
    simp only [wrap, pat_rsub w _ l hw]
  case mul =>
    simp only [specBin, specArith, isNumeric, hr, Bool.and_self, valOf, if_true, Option.some.injEq] at hs
    subst hs
    simp only [pyBin, lhsMethod, iArith, isIntLike, rhsMethod, sRmul, Nat.two_mul, mkS_ok _ _ (inRange_mul w w _ _ hw hw hr ra)]
  case tdiv =>
    simp only [specBin, specArith, isNumeric, hr, Bool.and_self, valOf, if_true] at hs
    by_cases hz : toInt w n = 0
    · simp [hz] at hs
    · simp only [hz, ↓reduceIte, Option.some.injEq] at hs
      subst hs
      have hz' : n ≠ 0 := fun h => hz (hz0.mpr h)
      simp only [pyBin, opTruncdiv, isIntLike, sRtruncdiv, hz', if_false, resToExcept, truncDiv_eq, wrap]
  case mod =>
    simp only [specBin, specArith, isNumeric, hr, Bool.and_self, valOf, if_true] at hs
    by_cases hz : toInt w n = 0
    · simp [hz] at hs
    · simp only [hz, ↓reduceIte, Option.some.injEq] at hs
      subst hs
      have hz' : n ≠ 0 := fun h => hz (hz0.mpr h)
      simp only [pyBin, lhsMethod, iArith, isIntLike, rhsMethod, sRmod, hz', if_false, mkS_ok _ _ (inRange_fmod w _ _ ra hz)]
  case rem =>
    simp only [specBin, specArith, isNumeric, hr, Bool.and_self, valOf, if_true] at hs
    by_cases hz : toInt w n = 0
    · simp [hz] at hs
    · simp only [hz, ↓reduceIte, Option.some.injEq] at hs
      subst hs
      have hz' : n ≠ 0 := fun h => hz (hz0.mpr h)
      simp only [pyBin, opRem, isIntLike, sRrem, hz', if_false, resToExcept, truncRem_eq, mkS_ok _ _ (inRange_tmod w _ _ ra hz)]
  case shl => simp [specBin] at hs
  case shr => simp [specBin] at hs
  case fdiv => simp [specBin] at hs
  case and => simp [specBin] at hs
  case or => simp [specBin] at hs
  case xor => simp [specBin] at hs
  case cat => simp [specBin] at hs
  all_goals
    simp only [specBin, specArith, isNumeric, hr, Bool.and_self, valOf, if_true, Option.some.injEq] at hs
    subst hs
    simp only [pyBin, lhsMethod, iArith, isIntLike, rhsMethod, sCmp, sCmpOperand, cmpInt_swap]

theorem ui_aux_int (op : BinOp) (w n : Nat) (r : Int) (hw : 1 ≤ w) (hn : n < 2 ^ w) (v : Val)
    (hop : ¬ (op = .shl ∨ op = .shr))
    (hs : specBin op (.vec .uns w n) (.int r) = some v) : pyBin op (.vec .uns w n) (.int r) = .ok v := by
  have hr : inRange .uns w r = true := by
    cases op <;> simp_all [specBin, isNumeric]
  obtain ⟨m, rfl⟩ := Int.eq_ofNat_of_zero_le ((inRange_uns_iff w r).mp hr).1
  have hm : m < 2 ^ w := by have := ((inRange_uns_iff w _).mp hr).2; omega
  cases op
  case add =>
    simp only [specBin, specArith, isNumeric, hr, Bool.and_self, valOf, if_true, Nat.max_self, Option.some.injEq] at hs
    subst hs
    simp only [pyBin, lhsMethod, uAdd_intlike w n (.int m) m (Or.inl rfl) hw, wrap]
  case sub =>
    simp only [specBin, specArith, isNumeric, hr, Bool.and_self, valOf, if_true, Nat.max_self, Option.some.injEq] at hs
    subst hs
    simp only [pyBin, lhsMethod, uSub_intlike w n (.int m) m (Or.inl rfl) hw, wrap]
  case mul =>
    simp only [specBin, specArith, isNumeric, hr, Bool.and_self, valOf, if_true, Option.some.injEq] at hs
    subst hs
    have hlt : n * m < 2 ^ (w + w) := by rw [Nat.pow_add]; exact Nat.mul_lt_mul'' hn hm
    have e : (n : Int) * (m : Int) = ((n * m : Nat) : Int) := by push_cast; rfl
    simp only [pyBin, lhsMethod, uMul, Nat.two_mul, e, mkU_nat _ _ hlt, wrap_uns_nat _ _ hlt]
  case tdiv =>
    simp only [specBin, specArith, isNumeric, hr, Bool.and_self, valOf, if_true] at hs
    by_cases hz : (m : Int) = 0
    · simp [hz] at hs
    · simp only [hz, ↓reduceIte, Option.some.injEq] at hs
      subst hs
      have hlt : n / m < 2 ^ w := Nat.lt_of_le_of_lt (Nat.div_le_self _ _) hn
      simp only [pyBin, opTruncdiv, uTruncdiv, hz, if_false, resToExcept, nat_fdiv, nat_tdiv,
        mkU_nat _ _ hlt, wrap_uns_nat _ _ hlt]
  case mod =>
    simp only [specBin, specArith, isNumeric, hr, Bool.and_self, valOf, if_true] at hs
    by_cases hz : (m : Int) = 0
    · simp [hz] at hs
    · simp only [hz, ↓reduceIte, Option.some.injEq] at hs
      subst hs
      have hlt : n % m < 2 ^ w := Nat.lt_trans (Nat.mod_lt _ (by omega)) hm
      simp only [pyBin, lhsMethod, uMod, hz, if_false, nat_fmod, mkU_nat _ _ hlt, wrap_uns_nat _ _ hlt]
  case rem =>
    simp only [specBin, specArith, isNumeric, hr, Bool.and_self, valOf, if_true] at hs
    by_cases hz : (m : Int) = 0
    · simp [hz] at hs
    · simp only [hz, ↓reduceIte, Option.some.injEq] at hs
      subst hs
      have hlt : n % m < 2 ^ w := Nat.lt_trans (Nat.mod_lt _ (by omega)) hm
      simp only [pyBin, opRem, uRem, hz, if_false, resToExcept, truncRem_eq, nat_tmod,
        mkU_nat _ _ hlt, wrap_uns_nat _ _ hlt]
  case shl => exact absurd (Or.inl rfl) hop
  case shr => exact absurd (Or.inr rfl) hop
  case fdiv => simp [specBin] at hs
  case and => simp [specBin] at hs
  case or => simp [specBin] at hs
  case xor => simp [specBin] at hs
  case cat => simp [specBin] at hs
  all_goals
    simp only [specBin, specArith, isNumeric, hr, Bool.and_self, valOf, if_true, Option.some.injEq] at hs
    subst hs
    simp only [pyBin, lhsMethod, uCmp, uCmpOperand]

theorem iu_aux_int (op : BinOp) (w n : Nat) (l : Int) (hw : 1 ≤ w) (hn : n < 2 ^ w) (v : Val)
    (hs : specBin op (.int l) (.vec .uns w n) = some v) : pyBin op (.int l) (.vec .uns w n) = .ok v := by
  have hr : inRange .uns w l = true := by
    cases op <;> simp_all [specBin, isNumeric]
  obtain ⟨m, rfl⟩ := Int.eq_ofNat_of_zero_le ((inRange_uns_iff w l).mp hr).1
  have hm : m < 2 ^ w := by have := ((inRange_uns_iff w _).mp hr).2; omega
  cases op
  case add =>
    simp only [specBin, specArith, isNumeric, hr, Bool.and_self, valOf, if_true, Nat.max_self, Option.some.injEq] at hs
    subst hs
    simp only [pyBin, lhsMethod, iArith, isIntLike, rhsMethod, uAdd_intlike w n (.int m) m (Or.inl rfl) hw, wrap, Int.add_comm]
  case sub =>
    simp only [specBin, specArith, isNumeric, hr, Bool.and_self, valOf, if_true, Nat.max_self, Option.some.injEq] at hs
    subst hs
    simp only [pyBin, lhsMethod, iArith, isIntLike, rhsMethod, uNeg_eq w n hw hn]
    rw [uAdd_intlike w _ (.int m) m (Or.inl rfl) hw]
    simp only [wrap, pat_absorb_l]
    congr 3; omega
  case mul =>
    simp only [specBin, specArith, isNumeric, hr, Bool.and_self, valOf, if_true, Option.some.injEq] at hs
    subst hs
    have hlt : m * n < 2 ^ (w + w) := by rw [Nat.pow_add]; exact Nat.mul_lt_mul'' hm hn
    have e : (m : Int) * (n : Int) = ((m * n : Nat) : Int) := by push_cast; rfl
    simp only [pyBin, lhsMethod, iArith, isIntLike, rhsMethod, uRmul, Nat.two_mul, e, mkU_nat _ _ hlt, wrap_uns_nat _ _ hlt]
  case tdiv =>
    simp only [specBin, specArith, isNumeric, hr, Bool.and_self, valOf, if_true] at hs
    by_cases hz : (n : Int) = 0
    · simp [hz] at hs
    · simp only [hz, ↓reduceIte, Option.some.injEq] at hs
      subst hs
      have hz' : n ≠ 0 := by omega
      have hlt : m / n < 2 ^ w := Nat.lt_of_le_of_lt (Nat.div_le_self _ _) hm
      simp only [pyBin, opTruncdiv, isIntLike, uRtruncdiv, hz', if_false, resToExcept, nat_fdiv, nat_tdiv,
        mkU_nat _ _ hlt, wrap_uns_nat _ _ hlt]
  case mod =>
    simp only [specBin, specArith, isNumeric, hr, Bool.and_self, valOf, if_true] at hs
    by_cases hz : (n : Int) = 0
    · simp [hz] at hs
    · simp only [hz, ↓reduceIte, Option.some.injEq] at hs
      subst hs
      have hz' : n ≠ 0 := by omega
      have hlt : m % n < 2 ^ w := Nat.lt_trans (Nat.mod_lt _ (by omega)) hn
      simp only [pyBin, lhsMethod, iArith, isIntLike, rhsMethod, uRmod, hz', if_false, nat_fmod, mkU_nat _ _ hlt, wrap_uns_nat _ _ hlt]
  case rem =>
    simp only [specBin, specArith, isNumeric, hr, Bool.and_self, valOf, if_true] at hs
    by_cases hz : (n : Int) = 0
    · simp [hz] at hs
    · simp only [hz, ↓reduceIte, Option.some.injEq] at hs
      subst hs
      have hz' : n ≠ 0 := by omega
      have hlt : m % n < 2 ^ w := Nat.lt_trans (Nat.mod_lt _ (by omega)) hn
      simp only [pyBin, opRem, isIntLike, uRrem, hz', if_false, resToExcept, truncRem_eq, nat_tmod,
        mkU_nat _ _ hlt, wrap_uns_nat _ _ hlt]
  case shl => simp [specBin] at hs
  case shr => simp [specBin] at hs
  case fdiv => simp [specBin] at hs
  case and => simp [specBin] at hs
  case or => simp [specBin] at hs
  case xor => simp [specBin] at hs
  case cat => simp [specBin] at hs
  all_goals
    simp only [specBin, specArith, isNumeric, hr, Bool.and_self, valOf, if_true, Option.some.injEq] at hs
    subst hs
    simp only [pyBin, lhsMethod, iArith, isIntLike, rhsMethod, uCmp, uCmpOperand, cmpInt_swap]

theorem ui_aux_integer (op : BinOp) (w n : Nat) (r : Int) (hw : 1 ≤ w) (hn : n < 2 ^ w) (v : Val)
    (hop : ¬ (op = .shl ∨ op = .shr))
    (hs : specBin op (.vec .uns w n) (.integer r) = some v) : pyBin op (.vec .uns w n) (.integer r) = .ok v := by
  have hr : inRange .uns w r = true := by
    cases op <;> simp_all [specBin, isNumeric]
  obtain ⟨m, rfl⟩ := Int.eq_ofNat_of_zero_le ((inRange_uns_iff w r).mp hr).1
  have hm : m < 2 ^ w := by have := ((inRange_uns_iff w _).mp hr).2; omega
  cases op
  case add =>
    simp only [specBin, specArith, isNumeric, hr, Bool.and_self, valOf, if_true, Nat.max_self, Option.some.injEq] at hs
    subst hs
    simp only [pyBin, lhsMethod, uAdd_intlike w n (.integer m) m (Or.inr rfl) hw, wrap]
  case sub =>
    simp only [specBin, specArith, isNumeric, hr, Bool.and_self, valOf, if_true, Nat.max_self, Option.some.injEq] at hs
    subst hs
    simp only [pyBin, lhsMethod, uSub_intlike w n (.integer m) m (Or.inr rfl) hw, wrap]
  case mul =>
    simp only [specBin, specArith, isNumeric, hr, Bool.and_self, valOf, if_true, Option.some.injEq] at hs
    subst hs
    have hlt : n * m < 2 ^ (w + w) := by rw [Nat.pow_add]; exact Nat.mul_lt_mul'' hn hm
    have e : (n : Int) * (m : Int) = ((n * m : Nat) : Int) := by push_cast; rfl
    simp only [pyBin, lhsMethod, uMul, Nat.two_mul, e, mkU_nat _ _ hlt, wrap_uns_nat _ _ hlt]
  case tdiv =>
    simp only [specBin, specArith, isNumeric, hr, Bool.and_self, valOf, if_true] at hs
    by_cases hz : (m : Int) = 0
    · simp [hz] at hs
    · simp only [hz, ↓reduceIte, Option.some.injEq] at hs
      subst hs
      have hlt : n / m < 2 ^ w := Nat.lt_of_le_of_lt (Nat.div_le_self _ _) hn
      simp only [pyBin, opTruncdiv, uTruncdiv, hz, if_false, resToExcept, nat_fdiv, nat_tdiv,
        mkU_nat _ _ hlt, wrap_uns_nat _ _ hlt]
  case mod =>
    simp only [specBin, specArith, isNumeric, hr, Bool.and_self, valOf, if_true] at hs
    by_cases hz : (m : Int) = 0
    · simp [hz] at hs
    · simp only [hz, ↓reduceIte, Option.some.injEq] at hs
      subst hs
      have hlt : n % m < 2 ^ w := Nat.lt_trans (Nat.mod_lt _ (by omega)) hm
      simp only [pyBin, lhsMethod, uMod, hz, if_false, nat_fmod, mkU_nat _ _ hlt, wrap_uns_nat _ _ hlt]
  case rem =>
    simp only [specBin, specArith, isNumeric, hr, Bool.and_self, valOf, if_true] at hs
    by_cases hz : (m : Int) = 0
    · simp [hz] at hs
    · simp only [hz, ↓reduceIte, Option.some.injEq] at hs
      subst hs
      have hlt : n % m < 2 ^ w := Nat.lt_trans (Nat.mod_lt _ (by omega)) hm
      simp only [pyBin, opRem, uRem, hz, if_false, resToExcept, truncRem_eq, nat_tmod,
        mkU_nat _ _ hlt, wrap_uns_nat _ _ hlt]
  case shl => exact absurd (Or.inl rfl) hop
  case shr => exact absurd (Or.inr rfl) hop
  case fdiv => simp [specBin] at hs
  case and => simp [specBin] at hs
  case or => simp [specBin] at hs
  case xor => simp [specBin] at hs
  case cat => simp [specBin] at hs
  all_goals
    simp only [specBin, specArith, isNumeric, hr, Bool.and_self, valOf, if_true, Option.some.injEq] at hs
    subst hs
    simp only [pyBin, lhsMethod, uCmp, uCmpOperand]

theorem iu_aux_integer (op : BinOp) (w n : Nat) (l : Int) (hw : 1 ≤ w) (hn : n < 2 ^ w) (v : Val)
    (hs : specBin op (.integer l) (.vec .uns w n) = some v) : pyBin op (.integer l) (.vec .uns w n) = .ok v := by
  have hr : inRange .uns w l = true := by
    cases op <;> simp_all [specBin, isNumeric]
  obtain ⟨m, rfl⟩ := Int.eq_ofNat_of_zero_le ((inRange_uns_iff w l).mp hr).1
  have hm : m < 2 ^ w := by have := ((inRange_uns_iff w _).mp hr).2; omega
  cases op
  case add =>
    simp only [specBin, specArith, isNumeric, hr, Bool.and_self, valOf, if_true, Nat.max_self, Option.some.injEq] at hs
    subst hs
    simp only [pyBin, lhsMethod, iArith, isIntLike, rhsMethod, uAdd_intlike w n (.integer m) m (Or.inr rfl) hw, wrap, Int.add_comm]
  case sub =>
    simp only [specBin, specArith, isNumeric, hr, Bool.and_self, valOf, if_true, Nat.max_self, Option.some.injEq] at hs
    subst hs
    simp only [pyBin, lhsMethod, iArith, isIntLike, rhsMethod, uNeg_eq w n hw hn]
    rw [uAdd_intlike w _ (.integer m) m (Or.inr rfl) hw]
    simp only [wrap, pat_absorb_l]
    congr 3; omega
  case mul =>
    simp only [specBin, specArith, isNumeric, hr, Bool.and_self, valOf, if_true, Option.some.injEq] at hs
    subst hs
    have hlt : m * n < 2 ^ (w + w) := by rw [Nat.pow_add]; exact Nat.mul_lt_mul'' hm hn
    have e : (m : Int) * (n : Int) = ((m * n : Nat) : Int) := by push_cast; rfl
    simp only [pyBin, lhsMethod, iArith, isIntLike, rhsMethod, uRmul, Nat.two_mul, e, mkU_nat _ _ hlt, wrap_uns_nat _ _ hlt]
  case tdiv =>
    simp only [specBin, specArith, isNumeric, hr, Bool.and_self, valOf, if_true] at hs
    by_cases hz : (n : Int) = 0
    · simp [hz] at hs
    · simp only [hz, ↓reduceIte, Option.some.injEq] at hs
      subst hs
      have hz' : n ≠ 0 := by omega
      have hlt : m / n < 2 ^ w := Nat.lt_of_le_of_lt (Nat.div_le_self _ _) hm
      simp only [pyBin, opTruncdiv, isIntLike, uRtruncdiv, hz', if_false, resToExcept, nat_fdiv, nat_tdiv,
        mkU_nat _ _ hlt, wrap_uns_nat _ _ hlt]
  case mod =>
    simp only [specBin, specArith, isNumeric, hr, Bool.and_self, valOf, if_true] at hs
    by_cases hz : (n : Int) = 0
    · simp [hz] at hs
    · simp only [hz, ↓reduceIte, Option.some.injEq] at hs
      subst hs
      have hz' : n ≠ 0 := by omega
      have hlt : m % n < 2 ^ w := Nat.lt_trans (Nat.mod_lt _ (by omega)) hn
      simp only [pyBin, lhsMethod, iArith, isIntLike, rhsMethod, uRmod, hz', if_false, nat_fmod, mkU_nat _ _ hlt, wrap_uns_nat _ _ hlt]
  case rem =>
    simp only [specBin, specArith, isNumeric, hr, Bool.and_self, valOf, if_true] at hs
    by_cases hz : (n : Int) = 0
    · simp [hz] at hs
    · simp only [hz, ↓reduceIte, Option.some.injEq] at hs
      subst hs
      have hz' : n ≠ 0 := by omega
      have hlt : m % n < 2 ^ w := Nat.lt_trans (Nat.mod_lt _ (by omega)) hn
      simp only [pyBin, opRem, isIntLike, uRrem, hz', if_false, resToExcept, truncRem_eq, nat_tmod,
        mkU_nat _ _ hlt, wrap_uns_nat _ _ hlt]
  case shl => simp [specBin] at hs
  case shr => simp [specBin] at hs
  case fdiv => simp [specBin] at hs
  case and => simp [specBin] at hs
  case or => simp [specBin] at hs
  case xor => simp [specBin] at hs
  case cat => simp [specBin] at hs
  all_goals
    simp only [specBin, specArith, isNumeric, hr, Bool.and_self, valOf, if_true, Option.some.injEq] at hs
    subst hs
    simp only [pyBin, lhsMethod, iArith, isIntLike, rhsMethod, uCmp, uCmpOperand, cmpInt_swap]

end CohdlVerif.C09
