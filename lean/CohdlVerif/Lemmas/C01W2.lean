import CohdlVerif.Lemmas.C01W1

/-! C01 - general grammar: what the `continue` loop does to the heap -/
namespace CohdlVerif.C01

/-- the item appended to a `continue` block -/
def ContItem (c : Option Nat) (body : Nat) (news old : List Nat) (it : Item) : Prop :=
  match c with
  | none => it = .sub body
  | some c' => ∃ bb, bb ∈ news ∧ bb ∉ old ∧ it = .ite c' body bb

theorem contLoop_acc_sub (c : Option Nat) (body : Nat) : ∀ (cbs : List Nat) (s : CSt) (acc : List Nat) (y : Nat),
    y ∈ acc → y ∈ (contLoop c body cbs s acc).1 := by
  intro cbs
  induction cbs with
  | nil => intro s acc y h; exact h
  | cons cb cbs ih =>
    intro s acc y h
    by_cases hr : s.root cb = s.root body
    · rw [contLoop_cons_bad c body cb cbs s acc hr]; exact ih _ _ y h
    · cases c with
      | none => rw [contLoop_cons_none body cb cbs s acc hr]; exact ih _ _ y h
      | some c' => rw [contLoop_cons_some c' body cb cbs s acc hr]; exact ih _ _ y (by simp [h])

theorem contLoop_effect (c : Option Nat) (body : Nat) :
    ∀ (cbs : List Nat) (s : CSt) (acc : List Nat), cbs.Nodup → (∀ cb ∈ cbs, cb < s.next) → (∀ a ∈ acc, a < s.next) →
      body < s.next → (contLoop c body cbs s acc).2.bad = false →
      s.bad = false ∧
      (∀ o ∈ (contLoop c body cbs s acc).1, o ∈ acc ∨ (s.next ≤ o ∧ (contLoop c body cbs s acc).2.heap o = {})) ∧
      (∀ y, y < s.next → y ∉ cbs → (contLoop c body cbs s acc).2.heap y = s.heap y) ∧
      (∀ cb ∈ cbs, s.root cb ≠ s.root body ∧ ∃ it, (contLoop c body cbs s acc).2.heap cb =
          { s.heap cb with items := (s.heap cb).items ++ [it] } ∧
          ContItem c body (contLoop c body cbs s acc).1 acc it) := by
  intro cbs
  induction cbs with
  | nil =>
    intro s acc _ _ _ _ hb
    simp only [contLoop] at hb ⊢
    exact ⟨hb, fun o ho => Or.inl ho, fun _ _ _ => trivial, by simp⟩
  | cons cb cbs ih =>
    intro s acc hnd hlt hacc hbody hb
    have hnd' := List.nodup_cons.mp hnd
    have hcb : cb < s.next := hlt cb (by simp)
    by_cases hr : s.root cb = s.root body
    · exfalso
      rw [contLoop_cons_bad c body cb cbs s acc hr] at hb
      have := (ih { s with bad := true } acc hnd'.2 (fun x hx => hlt x (by simp [hx])) hacc hbody hb).1
      simp at this
    · cases c with
      | none =>
        rw [contLoop_cons_none body cb cbs s acc hr] at hb ⊢
        obtain ⟨i1, i2, i3, i4⟩ := ih (s.append cb (.sub body)) acc hnd'.2 (fun x hx => hlt x (by simp [hx])) hacc hbody hb
        refine ⟨i1, i2, ?_, ?_⟩
        · intro y hy hyn
          simp only [List.mem_cons, not_or] at hyn
          rw [i3 y hy hyn.2]; simp [CSt.append, hyn.1]
        · intro x hx
          rcases List.mem_cons.mp hx with h | h
          · subst h
            refine ⟨hr, .sub body, ?_, rfl⟩
            rw [i3 x hcb hnd'.1]; simp [CSt.append]
          · obtain ⟨r1, it, r2, r3⟩ := i4 x h
            have hne : x ≠ cb := fun e => hnd'.1 (e ▸ h)
            refine ⟨r1, it, ?_, r3⟩
            rw [r2]; simp [CSt.append, hne]
      | some c' =>
        rw [contLoop_cons_some c' body cb cbs s acc hr] at hb ⊢
        have hne : s.next ≠ cb := by omega
        have hn1 : ((s.newBlock (some cb)).2.append cb (.ite c' body s.next)).next = s.next + 1 := rfl
        obtain ⟨i1, i2, i3, i4⟩ := ih ((s.newBlock (some cb)).2.append cb (.ite c' body s.next)) (acc ++ [s.next])
          hnd'.2 (fun x hx => by have := hlt x (by simp [hx]); rw [hn1]; omega)
          (fun a ha => by
            rw [hn1]
            rcases List.mem_append.mp ha with h | h
            · have := hacc a h; omega
            · simp at h; omega) (by rw [hn1]; omega) hb
        have hheap : ∀ y, y ≠ cb → y ≠ s.next →
            ((s.newBlock (some cb)).2.append cb (.ite c' body s.next)).heap y = s.heap y := by
          intro y h1 h2; simp [CSt.append, CSt.newBlock, h1, h2]
        have hroot : ∀ y, y < s.next → ((s.newBlock (some cb)).2.append cb (.ite c' body s.next)).root y = s.root y := by
          intro y h1
          have : y ≠ s.next := by omega
          simp [CSt.append, CSt.newBlock, this]
        have hsn : s.next ∉ cbs := fun hm => by have := hlt _ (List.mem_cons_of_mem _ hm); omega
        refine ⟨i1, ?_, ?_, ?_⟩
        · intro o ho
          rcases i2 o ho with h | ⟨h1, h2⟩
          · rcases List.mem_append.mp h with h | h
            · exact Or.inl h
            · simp only [List.mem_singleton] at h
              subst h
              right
              refine ⟨Nat.le_refl _, ?_⟩
              rw [i3 s.next (by rw [hn1]; omega) hsn]
              simp [CSt.append, CSt.newBlock, hne]
          · exact Or.inr ⟨by rw [hn1] at h1; omega, h2⟩
        · intro y hy hyn
          simp only [List.mem_cons, not_or] at hyn
          rw [i3 y (by rw [hn1]; omega) hyn.2, hheap y hyn.1 (by omega)]
        · intro x hx
          rcases List.mem_cons.mp hx with h | h
          · subst h
            refine ⟨hr, .ite c' body s.next, ?_, s.next, contLoop_acc_sub _ _ _ _ _ _ (by simp),
              fun hm => by have := hacc _ hm; omega, rfl⟩
            rw [i3 x (by rw [hn1]; omega) hnd'.1]; simp [CSt.append, CSt.newBlock, hne.symm]
          · obtain ⟨r1, it, r2, r3⟩ := i4 x h
            have hne' : x ≠ cb := fun e => hnd'.1 (e ▸ h)
            have hxl : x < s.next := hlt x (List.mem_cons_of_mem _ h)
            refine ⟨by rwa [hroot x hxl, hroot body hbody] at r1, it, ?_, ?_⟩
            · rw [r2, hheap x hne' (by omega)]
            · obtain ⟨bb, hb1, hb2, hb3⟩ := r3
              exact ⟨bb, hb1, fun hm => hb2 (by simp [hm]), hb3⟩

end CohdlVerif.C01
