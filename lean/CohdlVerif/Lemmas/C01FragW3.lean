import CohdlVerif.Lemmas.C01FragW2

/-! C01 - fragment 1: `while` as the first statement (the first state is the loop head) -/
namespace CohdlVerif.C01

section
variable {σ : Type} (act : Nat → σ → σ) (cond : Nat → σ → Bool)
variable (prog : Stmt) (Hf : Nat → Blk) (E : Nat → σ → σ × Option Nat) (Rf : Nat → Nat) (Sf : List Nat)

theorem E_nop_ite (hE : ∀ b s, E b s = execB act cond E (Hf b) s) (b c t e : Nat)
    (h : Hf b = { front := [], items := [.nop, .ite c t e] }) (s0 : σ) :
    E b s0 = if cond c s0 then E t s0 else E e s0 := by
  rw [hE b, h]
  simp only [execB, execI, lastT, por_none_right, por_none_left]

/-- facts about the states of a loop at the start -/
theorem while_start_facts (b : Stmt) (hb : frag1 b = true) (s : CSt) (hi : Inv s [0]) (hsi : SInv s)
    (hst : s.atStart = true) :
    wIdx [0] s = 0 ∧ wHb [0] s = 0 ∧ wBody [0] s = s.next ∧ (wS1 [0] s).next = s.next + 1 ∧
    (wS1 [0] s).states = s.states ∧ (wS1 [0] s).heap 0 = { front := [], items := [.nop] } ∧
    (wS1 [0] s).root s.next = 0 ∧
    Step (wS1 [0] s) [s.next] (wS4 b [0] s) (wR b [0] s).1 ∧ (wS4 b [0] s).atStart = false := by
  have hw0 : wS0 [0] s = s.append 0 .nop := by simp [wS0, wHb, hst, enterState_start [0] s hst]
  have hbody : wBody [0] s = s.next := by rw [wBody, hw0]; rfl
  have h0 : 0 < s.next := hi.hlt.2
  obtain ⟨S, _, _, hA4⟩ := wS4_step b false (compile_spec b true false (frag1_wf b hb true)) [0] s hi.hlt hi.start
  rw [hbody] at S
  have hne : (0 : Nat) ≠ s.next := by omega
  refine ⟨by simp [wIdx, enterState_start [0] s hst], by simp [wHb, enterState_start [0] s hst], hbody, ?_, ?_, ?_, ?_, S, hA4⟩
  · simp [wS1, CSt.newBlock, hw0, CSt.append]
  · simp [wS1, CSt.newBlock, hw0, CSt.append]
  · simp [wS1, CSt.newBlock, hw0, CSt.append, hne, atStart_heap0 hst]
  · simp [wS1, CSt.newBlock, hw0, CSt.append, wHb, enterState_start [0] s hst, hsi.root0]

theorem sim_while_start_some (hE : ∀ b s, E b s = execB act cond E (Hf b) s) (c' : Nat) (b k : Stmt)
    (hb : frag1 b = true) (hk : frag1 k = true)
    (ihb : SimIH act cond prog Hf E Rf Sf b) (ihk : SimIH act cond prog Hf E Rf Sf k)
    (st : List Frame) (s : CSt) (m : Nat) (P' : Nat → Prop)
    (hi : Inv s [0]) (hsi : SInv s) (hst : s.atStart = true)
    (hF : Fut Hf Rf Sf (compile (.while_ (some c') b k) [0] s).2 P')
    (hP' : ∀ y, P' y → y < (compile (.while_ (some c') b k) [0] s).2.next → (y ∈ [0] ∨ s.next ≤ y) →
      y ∈ (compile (.while_ (some c') b k) [0] s).1)
    (hprem : ∀ o' ∈ (compile (.while_ (some c') b k) [0] s).1, TailSim act cond prog Hf E Rf Sf m o'
      ((compile (.while_ (some c') b k) [0] s).2.heap o').items .skip st
      (compile (.while_ (some c') b k) [0] s).2.atStart) :
    TailSim act cond prog Hf E Rf Sf m 0 (s.heap 0).items (.while_ (some c') b k) st true := by
  rw [compile_while_frag_some c' b k hb] at hF hP' hprem
  obtain ⟨f1, f2, f3, f4, f5, f6, f7, S, hA4⟩ := while_start_facts b hb s hi hsi hst
  obtain ⟨W, _⟩ := wS4_frag_step (some c') b hb [0] s hi.hlt hi.start
  rw [f2] at W hF hP' hprem
  rw [f3] at hF hP' hprem
  have h0 : 0 < s.next := hi.hlt.2
  have hlw := W.hlt hi.hlt
  have hn4 : s.next + 1 ≤ (wS4 b [0] s).next := by have := S.next_le; omega
  have N := Step.newBlock (wS4 b [0] s) [0] hlw.1 (some 0) (by simp)
  have hln := N.hlt hlw
  have X := (HeapExt.append ((wS4 b [0] s).newBlock (some 0)).2 [(wS4 b [0] s).next, 0] 0
    (by simp) (.ite c' s.next (wS4 b [0] s).next)).step hln.1
  have hlx := X.hlt hln
  have NX := N.trans hlw.1 X
  have hAx := X.atStart_false hln.2 (N.atStart_false hlw.2 hA4)
  have hnx : (((wS4 b [0] s).newBlock (some 0)).2.append 0 (.ite c' s.next (wS4 b [0] s).next)).next =
      (wS4 b [0] s).next + 1 := rfl
  have hne4 : (wS4 b [0] s).next ≠ 0 := by omega
  have hix : Inv (((wS4 b [0] s).newBlock (some 0)).2.append 0 (.ite c' s.next (wS4 b [0] s).next))
      [(wS4 b [0] s).next] :=
    Inv.single (hlx.1 _ (by simp)) hlx.2 hAx (by simp [CSt.append, CSt.newBlock, hne4])
  have hsix := (hsi.step W h0).step NX hlw.2
  have Tk := frag1_step k hk _ _ hix
  have hnk := Tk.next_le
  have hnP : ∀ y, y < (wS4 b [0] s).next + 1 → (y ∈ [0] ∨ s.next ≤ y) → y ≠ (wS4 b [0] s).next → ¬ P' y :=
    fun y hy hr hne hp => by
      have := hP' y hp (by omega) hr
      rcases (Tk.open_r y this).1 with h | h
      · simp at h; omega
      · omega
  have hH0 : Hf 0 = { front := [], items := [.nop, .ite c' s.next (wS4 b [0] s).next] } := by
    rw [hF.closed 0 (by omega) (hnP 0 (by omega) (Or.inl (by simp)) (by omega)),
      Tk.frame 0 (by omega) (by simp; omega)]
    have h4 : (wS4 b [0] s).heap 0 = { front := [], items := [.nop] } := by
      rw [S.frame 0 (by omega) (by simp; omega), f6]
    simp [CSt.append, CSt.newBlock, hne4.symm, h4]
  have FX : Fut Hf Rf Sf _ (fun y => y = (wS4 b [0] s).next ∨ P' y) :=
    Fut.back Tk (by simp) (fun y hy => Or.inl (Or.inr hy)) hF
  have F4 : Fut Hf Rf Sf (wS4 b [0] s) (fun y => y = 0 ∨ (y = (wS4 b [0] s).next ∨ P' y)) :=
    Fut.back NX (by simp) (fun y hy => Or.inl (Or.inr hy)) FX
  have hP4 : ∀ y, (y = 0 ∨ (y = (wS4 b [0] s).next ∨ P' y)) → y < (wS4 b [0] s).next → wBody [0] s ≤ y → False := by
    intro y hy hlt hge
    rw [f3] at hge
    rcases hy with hy | hy | hy
    · omega
    · omega
    · exact hnP y (by omega) (Or.inr hge) (by omega) hy
  obtain ⟨hc0, hS0⟩ := cur_zero Hf Rf Sf hsi h0 (Fut.back (P := fun _ => True) (W.trans (by simpa using h0)
    (NX.trans hlw.1 (Tk.weaken (O := [(wS4 b [0] s).next, 0]) (by simp)
      (fun o ho => InR.weakenO (by simp) (Tk.open_r o ho))))) (by simp) (fun _ _ => Or.inl trivial) hF)
  have hR0 : Rf 0 = 0 := by
    rw [hF.root 0 (by omega), Tk.root_stable 0 (by omega), NX.root_stable 0 (by omega), W.root_stable 0 h0, hsi.root0]
  have hcb : cur Rf Sf (wBody [0] s) = wIdx [0] s := by
    have hR : Rf s.next = 0 := by
      rw [hF.root s.next (by omega), Tk.root_stable _ (by omega), NX.root_stable _ (by omega),
        S.root_stable _ (by omega), f7]
    rw [f3, f1]
    have := hc0
    rw [cur, hR0] at this
    rw [cur, hR]; exact this
  have hcx : cur Rf Sf (wS4 b [0] s).next = wIdx [0] s := by
    have hrx : (((wS4 b [0] s).newBlock (some 0)).2.append 0 (.ite c' s.next (wS4 b [0] s).next)).root
        (wS4 b [0] s).next = 0 := by
      simp only [CSt.append, CSt.newBlock, if_true]
      rw [W.root_stable 0 h0, hsi.root0]
    have hR : Rf (wS4 b [0] s).next = 0 := by
      rw [hF.root _ (by omega), Tk.root_stable _ (by omega), hrx]
    rw [f1]
    have := hc0
    rw [cur, hR0] at this
    rw [cur, hR]; exact this
  have hks : ∀ j, j ≤ m → TailSim act cond prog Hf E Rf Sf j (wS4 b [0] s).next [] k st false := by
    intro j hj
    have := ihk st [(wS4 b [0] s).next] _ j P' hix hsix hF
      (fun y hy hlt hr => hP' y hy hlt (by
        rcases hr with h | h
        · simp at h; right; omega
        · right; omega))
      (prem_mono act cond prog Hf E Rf Sf hj hprem) (wS4 b [0] s).next (by simp)
    have h0' : (((wS4 b [0] s).newBlock (some 0)).2.append 0 (.ite c' s.next (wS4 b [0] s).next)).heap
        (wS4 b [0] s).next = {} := by simp [CSt.append, CSt.newBlock, hne4]
    rwa [h0', hAx] at this
  have hEh : ∀ s1, E 0 s1 = if evalC cond (some c') s1 then E (wBody [0] s) s1 else E (wS4 b [0] s).next s1 := by
    intro s1
    rw [E_nop_ite act cond Hf E hE 0 c' s.next (wS4 b [0] s).next hH0, f3]; rfl
  have hhead := head_state_sim act cond prog Hf E Rf Sf (some c') b k st (wIdx [0] s) 0 (wBody [0] s)
    (wS4 b [0] s).next (by rw [f1]; exact hS0) hEh
    (E_tailF act cond Hf E hE _) (E_tailF act cond Hf E hE _) hcb hcx (m - 1)
    (fun j _ hH => while_body_sim act cond prog Hf E Rf Sf (some c') b k hb ihb st [0] s hi hsi _ F4 hP4 j hH)
    (fun j hj _ => hks j (by omega))
  intro suf hsuf s0
  rw [hH0, atStart_heap0 hst] at hsuf
  have : suf = [.nop, .ite c' s.next (wS4 b [0] s).next] := by simpa using hsuf.symm
  subst this
  have htl : tailF act cond Hf E 0 [.nop, .ite c' s.next (wS4 b [0] s).next] s0 = E 0 s0 := by
    rw [E_tailF act cond Hf E hE 0, hH0]
  rw [htl, hEh, hc0]
  cases hcc : evalC cond (some c') s0 with
  | true =>
    simp only [if_true]
    have hH : SimN act cond prog E Sf (m - 1) (.atHead (some c') b k st) (wIdx [0] s) := hhead (m - 1) (Nat.le_refl _)
    have h1 := while_body_sim act cond prog Hf E Rf Sf (some c') b k hb ihb st [0] s hi hsi _ F4 hP4 m hH
      (Hf (wBody [0] s)).items (by simp) s0
    rw [← E_tailF act cond Hf E hE _, hcb, f1] at h1
    exact SimPt_pull act cond prog E Sf (RunTo.while_fresh_true act cond (some c') b k st s0 hcc) h1
  | false =>
    simp only [Bool.false_eq_true, if_false]
    have h1 := hks m (Nat.le_refl _) (Hf (wS4 b [0] s).next).items (by simp) s0
    rw [← E_tailF act cond Hf E hE _, hcx, f1] at h1
    exact SimPt_pull act cond prog E Sf (RunTo.while_fresh_false act cond (some c') b k st s0 hcc) h1

theorem sim_while_start_none (hE : ∀ b s, E b s = execB act cond E (Hf b) s) (b k : Stmt)
    (hb : frag1 b = true) (hk : frag1 k = true) (ihb : SimIH act cond prog Hf E Rf Sf b)
    (st : List Frame) (s : CSt) (m : Nat) (P' : Nat → Prop)
    (hi : Inv s [0]) (hsi : SInv s) (hst : s.atStart = true)
    (hF : Fut Hf Rf Sf (compile (.while_ none b k) [0] s).2 P')
    (hP' : ∀ y, P' y → y < (compile (.while_ none b k) [0] s).2.next → (y ∈ [0] ∨ s.next ≤ y) →
      y ∈ (compile (.while_ none b k) [0] s).1) :
    TailSim act cond prog Hf E Rf Sf m 0 (s.heap 0).items (.while_ none b k) st true := by
  rw [compile_while_frag_none b k hb] at hF hP'
  obtain ⟨f1, f2, f3, f4, f5, f6, f7, S, hA4⟩ := while_start_facts b hb s hi hsi hst
  obtain ⟨W, _⟩ := wS4_frag_step none b hb [0] s hi.hlt hi.start
  rw [f2] at W hF hP'
  rw [f3] at hF hP'
  have h0 : 0 < s.next := hi.hlt.2
  have hlw := W.hlt hi.hlt
  have hn4 : s.next + 1 ≤ (wS4 b [0] s).next := by have := S.next_le; omega
  have X := (HeapExt.append (wS4 b [0] s) [0] 0 (by simp) (.sub s.next)).step hlw.1
  have hlx := X.hlt hlw
  have hAx := X.atStart_false hlw.2 hA4
  have hnx : ((wS4 b [0] s).append 0 (.sub s.next)).next = (wS4 b [0] s).next := rfl
  have Tk := frag1_step' k hk [] _ ⟨by simp, hlx.2⟩ (fun h => by rw [hAx] at h; cases h)
  have hnk := Tk.next_le
  have hnP : ∀ y, y < (wS4 b [0] s).next → (y ∈ [0] ∨ s.next ≤ y) → ¬ P' y :=
    fun y hy hr hp => by
      have := hP' y hp (by omega) hr
      rcases (Tk.open_r y this).1 with h | h
      · simp at h
      · omega
  have hH0 : Hf 0 = { front := [], items := [.nop, .sub s.next] } := by
    rw [hF.closed 0 (by omega) (hnP 0 (by omega) (Or.inl (by simp))), Tk.frame 0 (by omega) (by simp)]
    have h4 : (wS4 b [0] s).heap 0 = { front := [], items := [.nop] } := by
      rw [S.frame 0 (by omega) (by simp; omega), f6]
    simp [CSt.append, h4]
  have FX : Fut Hf Rf Sf _ P' := Fut.back Tk (by simp) (fun y hy => Or.inl hy) hF
  have F4 : Fut Hf Rf Sf (wS4 b [0] s) (fun y => y = 0 ∨ P' y) :=
    Fut.back X (by simp) (fun y hy => Or.inl (Or.inr hy)) FX
  have hP4 : ∀ y, (y = 0 ∨ P' y) → y < (wS4 b [0] s).next → wBody [0] s ≤ y → False := by
    intro y hy hlt hge
    rw [f3] at hge
    rcases hy with hy | hy
    · omega
    · exact hnP y hlt (Or.inr hge) hy
  obtain ⟨hc0, hS0⟩ := cur_zero Hf Rf Sf hsi h0 (Fut.back (P := fun _ => True) (W.trans (by simpa using h0)
    (X.trans hlw.1 (Tk.weaken (O := [0]) (by simp) (fun o ho => InR.weakenO (by simp) (Tk.open_r o ho)))))
    (by simp) (fun _ _ => Or.inl trivial) hF)
  have hR0 : Rf 0 = 0 := by
    rw [hF.root 0 (by omega), Tk.root_stable 0 (by omega), X.root_stable 0 (by omega), W.root_stable 0 h0, hsi.root0]
  have hcb : cur Rf Sf (wBody [0] s) = wIdx [0] s := by
    have hR : Rf s.next = 0 := by
      rw [hF.root s.next (by omega), Tk.root_stable _ (by omega), X.root_stable _ (by omega),
        S.root_stable _ (by omega), f7]
    rw [f3, f1]
    have := hc0
    rw [cur, hR0] at this
    rw [cur, hR]; exact this
  have hEh : ∀ s1, E 0 s1 = if evalC cond none s1 then E (wBody [0] s) s1 else E (wBody [0] s) s1 := by
    intro s1
    rw [E_single_sub act cond Hf E hE 0 s.next (Or.inr hH0), f3]; simp
  have hhead := head_state_sim act cond prog Hf E Rf Sf none b k st (wIdx [0] s) 0 (wBody [0] s) (wBody [0] s)
    (by rw [f1]; exact hS0) hEh
    (E_tailF act cond Hf E hE _) (E_tailF act cond Hf E hE _) hcb hcb (m - 1)
    (fun j _ hH => while_body_sim act cond prog Hf E Rf Sf none b k hb ihb st [0] s hi hsi _ F4 hP4 j hH)
    (fun j _ ⟨s0, h0'⟩ => by simp [evalC] at h0')
  intro suf hsuf s0
  rw [hH0, atStart_heap0 hst] at hsuf
  have : suf = [.nop, .sub s.next] := by simpa using hsuf.symm
  subst this
  have htl : tailF act cond Hf E 0 [.nop, .sub s.next] s0 = E 0 s0 := by
    rw [E_tailF act cond Hf E hE 0, hH0]
  rw [htl, hEh, hc0]
  simp only [ite_self]
  have hH : SimN act cond prog E Sf (m - 1) (.atHead none b k st) (wIdx [0] s) := hhead (m - 1) (Nat.le_refl _)
  have h1 := while_body_sim act cond prog Hf E Rf Sf none b k hb ihb st [0] s hi hsi _ F4 hP4 m hH
    (Hf (wBody [0] s)).items (by simp) s0
  rw [← E_tailF act cond Hf E hE _, hcb, f1] at h1
  exact SimPt_pull act cond prog E Sf (RunTo.while_fresh_true act cond none b k st s0 (by simp [evalC])) h1

/-- `while` (both kinds, at the start or later), without break / continue in its body -/
theorem sim_while (hE : ∀ b s, E b s = execB act cond E (Hf b) s) (cc : Option Nat) (b k : Stmt)
    (hb : frag1 b = true) (hk : frag1 k = true)
    (ihb : SimIH act cond prog Hf E Rf Sf b) (ihk : SimIH act cond prog Hf E Rf Sf k) :
    SimIH act cond prog Hf E Rf Sf (.while_ cc b k) := by
  intro st O s m P' hi hsi hF hP' hprem o ho
  cases hst : s.atStart with
  | false =>
    cases cc with
    | none => exact sim_while_ns_none act cond prog Hf E Rf Sf hE b k hb hk ihb st O s m P' hi hsi hst hF hP' o ho
    | some c' =>
      exact sim_while_ns_some act cond prog Hf E Rf Sf hE c' b k hb hk ihb ihk st O s m P' hi hsi hst hF hP' hprem o ho
  | true =>
    have hO := hi.start hst
    subst hO
    have ho0 : o = 0 := by simpa using ho
    subst ho0
    cases cc with
    | none => exact sim_while_start_none act cond prog Hf E Rf Sf hE b k hb hk ihb st s m P' hi hsi hst hF hP'
    | some c' =>
      exact sim_while_start_some act cond prog Hf E Rf Sf hE c' b k hb hk ihb ihk st s m P' hi hsi hst hF hP' hprem

end
end CohdlVerif.C01
