import CohdlVerif.Lemmas.C01G5

/-! C01 - general grammar: forward invariant through the `continue` loop of `While` -/
namespace CohdlVerif.C01

theorem contLoop_cons_bad (c : Option Nat) (body cb : Nat) (cbs : List Nat) (s : CSt) (acc : List Nat)
    (h : s.root cb = s.root body) :
    contLoop c body (cb :: cbs) s acc = contLoop c body cbs { s with bad := true } acc := by
  simp [contLoop, h]

theorem contLoop_cons_none (body cb : Nat) (cbs : List Nat) (s : CSt) (acc : List Nat)
    (h : s.root cb ≠ s.root body) :
    contLoop none body (cb :: cbs) s acc = contLoop none body cbs (s.append cb (.sub body)) acc := by
  simp [contLoop, h]

theorem contLoop_cons_some (c' body cb : Nat) (cbs : List Nat) (s : CSt) (acc : List Nat)
    (h : s.root cb ≠ s.root body) :
    contLoop (some c') body (cb :: cbs) s acc =
      contLoop (some c') body cbs ((s.newBlock (some cb)).2.append cb (.ite c' body s.next)) (acc ++ [s.next]) := by
  simp only [contLoop, h, if_false]
  rfl

/-- one iteration of the `continue` loop as a step on `[cb]`: the new open blocks are `nb` (empty or the new break
    block) -/
theorem contIter (c : Option Nat) (body cb : Nat) (s : CSt) (hcb : cb < s.next) :
    ∃ (s1 : CSt) (nb : List Nat), (∀ cbs acc, contLoop c body (cb :: cbs) s acc = contLoop c body cbs s1 (acc ++ nb)) ∧
      Step s [cb] s1 nb ∧ SameLists s s1 ∧ nb.Nodup ∧ (∀ y ∈ nb, (s1.heap y).front = []) ∧
      (s.atStart = false → s1.atStart = false) := by
  by_cases h : s.root cb = s.root body
  · refine ⟨{ s with bad := true }, [], fun cbs acc => by rw [contLoop_cons_bad c body cb cbs s acc h]; simp,
      (Step.setBad s [cb]).weaken (fun _ h => h) (by simp), ⟨rfl, rfl, rfl⟩, by simp, by simp, fun h => h⟩
  · cases c with
    | none =>
      have hx := HeapExt.append s [cb] cb (by simp) (.sub body)
      have hs := hx.step (by simpa using hcb)
      exact ⟨_, [], fun cbs acc => by rw [contLoop_cons_none body cb cbs s acc h]; simp,
        hs.weaken (fun _ h => h) (by simp), hx.sameLists, by simp, by simp,
        fun h' => hs.atStart_false (by omega) h'⟩
    | some c' =>
      have h1 : Step s [cb] (s.newBlock (some cb)).2 [s.next, cb] :=
        Step.newBlock s [cb] (by simpa using hcb) (some cb) (by simp)
      have hl1 : ∀ o ∈ [s.next, cb], o < (s.newBlock (some cb)).2.next := by
        intro o ho; simp only [List.mem_cons, List.not_mem_nil, or_false] at ho
        rcases ho with h | h <;> simp [CSt.newBlock, h] <;> omega
      have hx := HeapExt.append (s.newBlock (some cb)).2 [s.next, cb] cb (by simp) (.ite c' body s.next)
      have h2 := hx.step hl1
      have h12 := h1.trans (by simpa using hcb) h2
      have hne : s.next ≠ cb := by omega
      refine ⟨_, [s.next], fun cbs acc => contLoop_cons_some c' body cb cbs s acc h,
        h12.weaken (fun _ h => h) (fun o ho => h12.open_r o (by simp at ho; simp [ho])),
        (show SameLists s (s.newBlock (some cb)).2 from ⟨rfl, rfl, rfl⟩).trans hx.sameLists, by simp, ?_,
        fun h' => h12.atStart_false (by omega) h'⟩
      intro y hy
      simp only [List.mem_singleton] at hy
      subst hy
      simp [CSt.append, CSt.newBlock, hne]


theorem contLoop_fpost (c : Option Nat) (body : Nat) (s0 : CSt) (O0 : List Nat) (hlt0 : ∀ o ∈ O0, o < s0.next)
    (h00 : 0 < s0.next) (Z : List Nat) :
    ∀ (cbs : List Nat) (s : CSt) (acc : List Nat), Step s0 O0 s (cbs ++ (acc ++ Z)) → FPost s0 (cbs ++ (acc ++ Z)) s →
      FPost s0 ((contLoop c body cbs s acc).1 ++ Z) (contLoop c body cbs s acc).2 ∧
      Step s0 O0 (contLoop c body cbs s acc).2 ((contLoop c body cbs s acc).1 ++ Z) := by
  intro cbs
  induction cbs with
  | nil => intro s acc hS hP; simpa [contLoop] using And.intro hP hS
  | cons cb cbs ih =>
    intro s acc hS hP
    have hl := hS.hlt ⟨hlt0, h00⟩
    have hcb : cb < s.next := hl.1 cb (by simp)
    obtain ⟨s1, nb, he, T, hsl, hnn, hnf, _⟩ := contIter c body cb s hcb
    rw [he]
    have hnd : (cb :: (cbs ++ (acc ++ Z))).Nodup := by simpa using hP.nodup_open
    have hX : ∀ x ∈ cbs ++ (acc ++ Z), x < s.next ∧ x ∉ [cb] ∧ (s.heap x).front = [] := by
      intro x hx
      refine ⟨hl.1 x (List.mem_cons_of_mem _ hx), ?_, hP.2 x (mem_Outs.mpr (Or.inl (List.mem_cons_of_mem _ hx)))⟩
      intro hm
      simp only [List.mem_singleton] at hm
      subst hm
      exact (List.nodup_cons.mp hnd).1 hx
    have P1 := FPost.frame T (FPost.of_same hsl hnn hnf) (List.nodup_cons.mp hnd).2 hX
    have S1 : Step s ([cb] ++ (cbs ++ (acc ++ Z))) s1 (nb ++ (cbs ++ (acc ++ Z))) :=
      T.framed (fun x hx => (hX x hx).1) (by simpa using hcb)
    have hS' : Step s0 O0 s ([cb] ++ (cbs ++ (acc ++ Z))) := by simpa using hS
    have hP' : FPost s0 ([cb] ++ (cbs ++ (acc ++ Z))) s := by simpa using hP
    have P2 := FPost.comp hlt0 hS' S1 hP' P1
    have S2 := hS'.trans hlt0 S1
    have hperm : (cbs ++ ((acc ++ nb) ++ Z)).Perm (nb ++ (cbs ++ (acc ++ Z))) := by
      have h1 : (cbs ++ ((acc ++ nb) ++ Z)).Perm (cbs ++ (nb ++ (acc ++ Z))) := by
        refine List.Perm.append_left _ ?_
        rw [List.append_assoc]
        exact (List.perm_append_comm_assoc acc nb Z)
      exact h1.trans (List.perm_append_comm_assoc cbs nb (acc ++ Z))
    have P3 := P2.restrict (hperm.nodup_iff.mpr P2.nodup_open) (fun y hy => hperm.mem_iff.mp hy)
    have S3 : Step s0 O0 s1 (cbs ++ ((acc ++ nb) ++ Z)) :=
      S2.weaken (fun _ h => h) (fun o ho => S2.open_r o (hperm.mem_iff.mp ho))
    exact ih s1 (acc ++ nb) S3 P3

end CohdlVerif.C01
