import CohdlVerif.Lemmas.C01X4

/-! C01 - fragment 2: the simulation claim for every statement -/
namespace CohdlVerif.C01

section
variable {σ : Type} (act : Nat → σ → σ) (cond : Nat → σ → Bool)
variable (prog : Stmt) (Hf : Nat → Blk) (E : Nat → σ → σ × Option Nat) (Rf : Nat → Nat) (Sf : List Nat)

theorem sim2 (hE : ∀ b s, E b s = execB act cond E (Hf b) s) :
    ∀ (t : Stmt) (l : Bool), frag2 t l = true → SimG act cond prog Hf E Rf Sf t l := by
  intro t
  induction t with
  | skip => intro l _; exact simG_skip act cond prog Hf E Rf Sf l
  | act a k ih =>
    intro l h
    have hk : frag2 k l = true := by simpa [frag2] using h
    exact simG_act act cond prog Hf E Rf Sf a k l false (frag2_spec k l hk) (ih l hk)
  | await cc k ih =>
    intro l h
    have hk : frag2 k l = true := by simpa [frag2] using h
    exact simG_await act cond prog Hf E Rf Sf hE cc k l false (frag2_spec k l hk) (ih l hk)
  | awaitF => intro l _; exact simG_awaitF act cond prog Hf E Rf Sf hE l
  | ite c t e k iht ihe ihk =>
    intro l h
    have h' := h
    simp only [frag2, Bool.and_eq_true] at h
    exact simG_ite act cond prog Hf E Rf Sf hE c t e k l false (by simp [frag2_retAlways t l h.1.1])
      (frag2_spec t l h.1.1) (frag2_spec e l h.1.2) (frag2_spec k l h.2) (fwd2 t l h.1.1) (fwd2 e l h.1.2)
      (compile_badMono t) (compile_badMono e) (compile_badMono k) (iht l h.1.1) (ihe l h.1.2) (ihk l h.2)
      (plain2 act cond Hf E Rf Sf hE t l h.1.1) (plain2 act cond Hf E Rf Sf hE e l h.1.2)
      (notrL2 t l h.1.1) (notrL2 e l h.1.2)
  | while_ cc b k ihb ihk =>
    intro l h
    simp only [frag2, Bool.and_eq_true] at h
    exact simG_while act cond prog Hf E Rf Sf hE cc b k l false (frag2_spec b true h.1) (frag2_spec k l h.2)
      (fwd2 b true h.1) (compile_badMono k) (ihb true h.1) (ihk l h.2)
  | brk => intro l _; exact simG_brk act cond prog Hf E Rf Sf l
  | cont => intro l _; exact simG_cont act cond prog Hf E Rf Sf l
  | ret => intro l h; simp [frag2] at h
  | call b k _ _ => intro l h; simp [frag2] at h

end
end CohdlVerif.C01
