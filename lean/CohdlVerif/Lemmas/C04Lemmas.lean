import CohdlVerif.Model.C04

/-!
  C04 - helper lemmas about write lists (`applyWrites`: last write wins), the mirrored `resettable` set and
  the reset branch of the wrappers.  Property theorems are in Props/C04.lean.
-/
namespace CohdlVerif.C04

variable {ι : Type}

theorem setObj_same (s : State) (r : Nat) (v : Val) : setObj s r v r = v := by simp [setObj]

theorem setObj_other (s : State) (r j : Nat) (v : Val) (h : j ≠ r) : setObj s r v j = s j := by
  simp [setObj, h]

theorem applyWrites_append (s : State) (a b : Writes) :
    applyWrites s (a ++ b) = applyWrites (applyWrites s a) b := by
  induction a generalizing s with
  | nil => rfl
  | cons w ws ih => simp [applyWrites, ih]

/-- an object no write names keeps its value -/
theorem applyWrites_not_mem (s : State) (ws : Writes) (r : Nat) (h : ∀ w ∈ ws, w.1 ≠ r) :
    applyWrites s ws r = s r := by
  induction ws generalizing s with
  | nil => rfl
  | cons w ws ih =>
    simp only [applyWrites]
    rw [ih _ (fun w' hw' => h w' (List.mem_cons_of_mem _ hw'))]
    exact setObj_other s w.1 r w.2 (fun e => h w (List.mem_cons_self) e.symm)

/-- if at least one write names `r` and all writes naming `r` carry `v`, the result holds `v` -/
theorem applyWrites_all_eq (s : State) (ws : Writes) (r : Nat) (v : Val)
    (h1 : ∀ w ∈ ws, w.1 = r → w.2 = v) (h2 : ∃ w ∈ ws, w.1 = r) : applyWrites s ws r = v := by
  induction ws generalizing s with
  | nil => obtain ⟨w, hw, _⟩ := h2; cases hw
  | cons w ws ih =>
    simp only [applyWrites]
    by_cases hex : ∃ w' ∈ ws, w'.1 = r
    · exact ih _ (fun w' hw' => h1 w' (List.mem_cons_of_mem _ hw')) hex
    · have hnone : ∀ w' ∈ ws, w'.1 ≠ r := fun w' hw' e => hex ⟨w', hw', e⟩
      rw [applyWrites_not_mem _ ws r hnone]
      obtain ⟨w0, hw0, e0⟩ := h2
      have hw : w.1 = r := by
        rcases List.mem_cons.mp hw0 with rfl | hin
        · exact e0
        · exact absurd e0 (hnone w0 hin)
      rw [← hw, setObj_same]
      exact h1 w List.mem_cons_self hw

/-- two states that agree on a set of objects still agree on it after the same writes -/
theorem applyWrites_agree (F : Nat → Bool) (s s' : State) (ws : Writes)
    (h : ∀ r, F r = true → s r = s' r) : ∀ r, F r = true → applyWrites s ws r = applyWrites s' ws r := by
  induction ws generalizing s s' with
  | nil => exact h
  | cons w ws ih =>
    simp only [applyWrites]
    apply ih
    intro r hr
    by_cases e : r = w.1
    · simp [setObj, e]
    · simp [setObj, e, h r hr]

theorem mem_resettableL (objs : List Obj) (r : Nat) : r ∈ resettableL objs ↔ isResettable objs r = true := by
  simp only [resettableL, List.mem_filter, List.mem_range]
  constructor
  · exact fun h => h.2
  · intro h
    refine ⟨?_, h⟩
    unfold isResettable objAt at h
    by_cases hlt : r < objs.length
    · exact hlt
    · have : objs[r]? = none := by simp; omega
      rw [this] at h; cases h

/-- `cohdl.reset_context()` assigns the default to every resettable object ... -/
theorem defaultWrites_resettable (objs : List Obj) (s : State) (r : Nat) (h : r ∈ resettableL objs) :
    applyWrites s (defaultWritesL objs) r = defaultL objs r := by
  apply applyWrites_all_eq
  · intro w hw e
    simp only [defaultWritesL, List.mem_map] at hw
    obtain ⟨r', _, rfl⟩ := hw
    simp only at e; subst e; rfl
  · exact ⟨(r, defaultL objs r), by simp only [defaultWritesL, List.mem_map]; exact ⟨r, h, rfl⟩, rfl⟩

/-- ... and touches nothing else -/
theorem defaultWrites_other (objs : List Obj) (s : State) (r : Nat) (h : r ∉ resettableL objs) :
    applyWrites s (defaultWritesL objs) r = s r := by
  apply applyWrites_not_mem
  intro w hw e
  simp only [defaultWritesL, List.mem_map] at hw
  obtain ⟨r', hr', rfl⟩ := hw
  simp only at e; subst e; exact h hr'

theorem resetBranch_default (p : Ctx ι) (s : State) (d : ι) (r : Nat) (h : r ∈ resettable p)
    (hon : ∀ w ∈ p.onReset s d, w.1 ≠ r) : resetBranch p s d r = defaultOf p r := by
  unfold resetBranch
  rw [applyWrites_append, applyWrites_not_mem _ _ r hon]
  exact defaultWrites_resettable p.objs s r h

theorem resetBranch_keep (p : Ctx ι) (s : State) (d : ι) (r : Nat) (h : r ∉ resettable p)
    (hon : ∀ w ∈ p.onReset s d, w.1 ≠ r) : resetBranch p s d r = s r := by
  unfold resetBranch
  rw [applyWrites_append, applyWrites_not_mem _ _ r hon]
  exact defaultWrites_other p.objs s r h

theorem resetBranch_onReset (p : Ctx ι) (s : State) (d : ι) (r : Nat) (v : Val)
    (h1 : ∀ w ∈ p.onReset s d, w.1 = r → w.2 = v) (h2 : ∃ w ∈ p.onReset s d, w.1 = r) :
    resetBranch p s d r = v := by
  unfold resetBranch
  rw [applyWrites_append]
  exact applyWrites_all_eq _ _ r v h1 h2

/-- when the wrapper takes the reset branch the activation is exactly the reset code -/
theorem stepR_reset (p : Ctx ι) (s : State) (e : Ev ι) (h : resetTaken p.cfg e = true) :
    stepR p s e = resetBranch p s e.data := by
  unfold resetTaken at h
  unfold stepR
  cases hk : p.cfg.kind with
  | none => rw [hk] at h; cases h
  | sync =>
    rw [hk] at h
    simp only [Bool.and_eq_true] at h
    simp [h.1, h.2]
  | async =>
    rw [hk] at h
    simp [h]

/-- the reset code does not mention the body -/
theorem resetBranch_body_irrelevant (p : Ctx ι) (b : State → ι → Writes) (s : State) (d : ι) :
    resetBranch { p with body := b } s d = resetBranch p s d := rfl

/-- agreement on `F` is all `restrict F` sees -/
theorem restrict_eq_of_agree (F : Nat → Bool) (s s' : State) (h : ∀ r, F r = true → s r = s' r) :
    restrict F s = restrict F s' := by
  funext r
  unfold restrict
  by_cases hr : F r = true
  · simp [hr, h r hr]
  · simp [hr]

/-- position of the state register of `withSM` -/
theorem stateReg_resettable (p : Ctx ι) (codes : List (State → ι → Writes)) :
    p.objs.length ∈ resettable (withSM p codes) := by
  unfold resettable
  rw [mem_resettableL]
  simp [withSM, isResettable, objAt, stateObj, Obj.resettable]

theorem stateReg_default (p : Ctx ι) (codes : List (State → ι → Writes)) :
    defaultOf (withSM p codes) p.objs.length = some 0 := by
  simp [defaultOf, defaultL, withSM, objAt, stateObj]

end CohdlVerif.C04
