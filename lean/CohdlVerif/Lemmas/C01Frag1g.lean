import CohdlVerif.Lemmas.C01Frag1f

/-! C01 - fragment 1: one iteration of the `If` loop, the case with transitions in a branch -/
namespace CohdlVerif.C01

section
variable {σ : Type} (act : Nat → σ → σ) (cond : Nat → σ → Bool)
variable (prog : Stmt) (Hf : Nat → Blk) (E : Nat → σ → σ × Option Nat) (Rf : Nat → Nat) (Sf : List Nat)

/-- what follows a branch is the continuation of the `If` -/
theorem TailSim_skip_seq {m x : Nat} {pre : List Item} {k : Stmt} {st : List Frame}
    (h : TailSim act cond prog Hf E Rf Sf m x pre k st false) :
    TailSim act cond prog Hf E Rf Sf m x pre .skip (.seq k :: st) false :=
  fun suf hs s0 => SimPt_pull act cond prog E Sf (RunTo.skip_seq act cond k st false s0) (h suf hs s0)

theorem iteIter_sim_other (hE : ∀ b s, E b s = execB act cond E (Hf b) s) (c : Nat) (t1 e1 k : Stmt)
    (iht : SimIH act cond prog Hf E Rf Sf t1) (ihe : SimIH act cond prog Hf E Rf Sf e1)
    (st : List Frame) (m b : Nat) (s : CSt) (hb : b < s.next) (hbf : (s.heap b).front = [])
    (X : IterCtx t1 e1 c b s) (P5 : Nat → Prop) (hF5 : Fut Hf Rf Sf (iR5 t1 e1 c b s).2 P5)
    (hP5 : ∀ y, P5 y → y < (iR5 t1 e1 c b s).2.next → (y = b ∨ s.next ≤ y) →
      y ∈ mergeAcc [] b s.next (s.next + 1) (iR4 t1 c b s).1 (iR5 t1 e1 c b s).1)
    (CK : ∀ o ∈ mergeAcc [] b s.next (s.next + 1) (iR4 t1 c b s).1 (iR5 t1 e1 c b s).1,
      TailSim act cond prog Hf E Rf Sf m o ((iR5 t1 e1 c b s).2.heap o).items k st false)
    (hno : ¬ (anyTrans s.next (iR4 t1 c b s).1 = false ∧ anyTrans (s.next + 1) (iR5 t1 e1 c b s).1 = false)) :
    TailSim act cond prog Hf E Rf Sf m b (s.heap b).items (.ite c t1 e1 k) st s.atStart := by
  obtain ⟨T1, hA3, hi3, hsi3, Tt, hA4, n4, hi4, hsi4, Te, hA5, n5, hsi5, ot_r, oe_r⟩ := X
  have hA := mergeAcc_other b s.next (s.next + 1) (iR4 t1 c b s).1 (iR5 t1 e1 c b s).1 hno
  -- the parent block is closed
  have hbA : ¬ P5 b := fun hp => by
    rcases (hA b).mp (hP5 b hp (by omega) (Or.inl rfl)) with h | h
    · have := ot_r b h; omega
    · have := oe_r b h; omega
  have hHb : Hf b = { s.heap b with items := (s.heap b).items ++ [.ite c s.next (s.next + 1)] } := by
    rw [hF5.closed b (by omega) hbA, Te.frame b (by omega) (by simp; omega), Tt.frame b (by simp [itePre_next]; omega)
      (by simp; omega), itePre_parent_heap c b s hb]
  -- futures
  have F4 : Fut Hf Rf Sf (iR4 t1 c b s).2 (fun y => y = s.next + 1 ∨ P5 y) :=
    Fut.back Te (by simp) (fun y hy => Or.inl (Or.inr hy)) hF5
  -- the two branches
  have Ct := iht (.seq k :: st) [s.next] (itePre c b s) m _ hi3 hsi3 F4
    (by
      intro y hy hlt hr
      have hlt' : y < (iR4 t1 c b s).2.next := hlt
      have hy3 : s.next ≤ y := by
        rcases hr with h | h
        · simp at h; omega
        · simp [itePre_next] at h; omega
      rcases hy with hy | hy
      · rcases hr with h | h
        · simp at h; omega
        · simp [itePre_next] at h; omega
      · rcases (hA y).mp (hP5 y hy (by omega) (Or.inr hy3)) with h | h
        · exact h
        · have := oe_r y h
          rcases hr with h' | h'
          · simp at h'; omega
          · simp [itePre_next] at h'; omega)
    (by
      intro o' ho'
      have h1 := CK o' ((hA o').mpr (Or.inl ho'))
      have := ot_r o' ho'
      rw [Te.frame o' this.2 (by simp; omega)] at h1
      show TailSim act cond prog Hf E Rf Sf m o' ((iR4 t1 c b s).2.heap o').items .skip _ (iR4 t1 c b s).2.atStart
      rw [hA4]
      exact TailSim_skip_seq act cond prog Hf E Rf Sf h1)
    s.next (by simp)
  have Ce := ihe (.seq k :: st) [s.next + 1] (iR4 t1 c b s).2 m _ hi4 hsi4 hF5
    (by
      intro y hy hlt hr
      have hlt' : y < (iR5 t1 e1 c b s).2.next := hlt
      have hy3 : s.next ≤ y := by
        rcases hr with h | h
        · simp at h; omega
        · omega
      rcases (hA y).mp (hP5 y hy hlt' (Or.inr hy3)) with h | h
      · have := ot_r y h
        rcases hr with h' | h'
        · simp at h'; omega
        · omega
      · exact h)
    (by
      intro o' ho'
      have h1 := CK o' ((hA o').mpr (Or.inr ho'))
      show TailSim act cond prog Hf E Rf Sf m o' ((iR5 t1 e1 c b s).2.heap o').items .skip _ (iR5 t1 e1 c b s).2.atStart
      rw [hA5]
      exact TailSim_skip_seq act cond prog Hf E Rf Sf h1)
    (s.next + 1) (by simp)
  rw [itePre_child_heap c b s hb, hA3] at Ct
  have hch : ((iR4 t1 c b s).2.heap (s.next + 1)) = {} := by
    rw [Tt.frame (s.next + 1) (by simp [itePre_next]) (by simp), itePre_child2_heap c b s hb]
  rw [hch, hA4] at Ce
  -- state indices of the branch blocks
  have hcur1 : cur Rf Sf s.next = cur Rf Sf b := by
    simp only [cur]
    rw [hF5.root s.next (by omega), hF5.root b (by omega), Te.root_stable s.next (by omega), Te.root_stable b (by omega),
      Tt.root_stable s.next (by simp [itePre_next]), Tt.root_stable b (by simp [itePre_next]; omega),
      itePre_child_root c b s hb, T1.root_stable b hb]
  have hcur2 : cur Rf Sf (s.next + 1) = cur Rf Sf b := by
    simp only [cur]
    have hr2 : (itePre c b s).root (s.next + 1) = s.root b := by
      have h : b ≠ s.next + 1 := by omega
      simp [itePre, CSt.append, CSt.newBlock]
    rw [hF5.root (s.next + 1) (by omega), hF5.root b (by omega), Te.root_stable (s.next + 1) (by omega),
      Te.root_stable b (by omega), Tt.root_stable (s.next + 1) (by simp [itePre_next]),
      Tt.root_stable b (by simp [itePre_next]; omega), hr2, T1.root_stable b hb]
  intro suf hsuf s0
  rw [hHb] at hsuf
  have : suf = [.ite c s.next (s.next + 1)] := by simpa using hsuf.symm
  subst this
  have htl : tailF act cond Hf E b [.ite c s.next (s.next + 1)] s0 =
      if cond c s0 then E s.next s0 else E (s.next + 1) s0 := by
    simp only [tailF, execI, hHb, hbf, lastT, por_none_right, por_none_left]
  rw [htl]
  cases hc : cond c s0 with
  | true =>
    simp only [if_true]
    have h1 := Ct (Hf s.next).items (by simp) s0
    rw [← E_tailF act cond Hf E hE s.next, hcur1] at h1
    exact SimPt_pull act cond prog E Sf (RunTo.ite_true act cond c t1 e1 k st _ s0 hc) h1
  | false =>
    simp only [Bool.false_eq_true, if_false]
    have h1 := Ce (Hf (s.next + 1)).items (by simp) s0
    rw [← E_tailF act cond Hf E hE (s.next + 1), hcur2] at h1
    exact SimPt_pull act cond prog E Sf (RunTo.ite_false act cond c t1 e1 k st _ s0 hc) h1

end
end CohdlVerif.C01
