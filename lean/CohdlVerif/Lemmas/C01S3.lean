import CohdlVerif.Lemmas.C01S2

/-! C01 - general grammar: `await false`, the state of an `await` -/
namespace CohdlVerif.C01

theorem Outs_same {s s1 : CSt} (h : SameLists s s1) (O' : List Nat) : Outs s O' s1 = O' := by
  obtain ⟨a, b, c⟩ := dX_same h
  simp [Outs, a, b, c]

section
variable {σ : Type} (act : Nat → σ → σ) (cond : Nat → σ → Bool)
variable (prog : Stmt) (Hf : Nat → Blk) (E : Nat → σ → σ × Option Nat) (Rf : Nat → Nat) (Sf : List Nat)

theorem simG_awaitF (hE : ∀ b s, E b s = execB act cond E (Hf b) s) (l : Bool) :
    SimG act cond prog Hf E Rf Sf .awaitF l := by
  intro st O s m R0 P' hi hsi _ _ hF hP' _ o ho
  have hO : O.isEmpty = false := by cases O <;> simp at ho ⊢
  have hc : compile .awaitF O s = ([], (enterState O s).2.2) := by simp [compile, hO]
  rw [hc] at hF hP'
  simp only at hF hP'
  rw [Outs_same (enterState_sameLists O s)] at hP'
  have T0 := enterState_step O s hi.hlt (fun h => by simp [hi.start h])
  have hol : o < s.next := hi.hlt.1 o ho
  have hnP : ∀ y, y < (enterState O s).2.2.next → (y ∈ O ∨ s.next ≤ y) → ¬ P' y :=
    fun y hy hr hp => by simpa using hP' y hp hy hr
  intro suf hsuf s0
  by_cases hm : lvl Rf R0 m o = 0
  · exact Or.inl hm
  right
  refine ⟨1, .stopped, ?_⟩
  cases hst : s.atStart with
  | true =>
    have ho0 : o = 0 := by simpa [hi.start hst] using ho
    subst ho0
    rw [enterState_start O s hst] at hF hnP
    have hH0 : Hf 0 = {} := by rw [hF.closed 0 hol (hnP 0 hol (Or.inl ho)), atStart_heap0 hst]
    rw [hH0, atStart_heap0 hst] at hsuf
    have : suf = [] := by simpa using hsuf.symm
    subst this
    obtain ⟨hc0, hS0⟩ := cur_zero Hf Rf Sf hsi hol hF
    refine ⟨by simp [run, tailF, execI], ?_, fun h => by cases h⟩
    simp only [tailF, execI, hH0, lastT, por, hc0, Option.getD_none]
    apply SimN_stopped
    intro s1
    rw [mStep_some E Sf 0 0 hS0, E_empty act cond Hf E hE 0 hH0]
    rfl
  | false =>
    obtain ⟨_, _, e3, e4, _, e6, e7, _⟩ := enter_nostart_facts hi hst
    have hHo : Hf o = { s.heap o with front := [s.states.length] } := by
      rw [hF.closed o (by omega) (hnP o (by omega) (Or.inl ho)), e7 o ho]
    rw [hHo] at hsuf
    have : suf = [] := by simpa using hsuf.symm
    subst this
    have hHn : Hf s.next = {} := by rw [hF.closed s.next (by omega) (hnP s.next (by omega) (Or.inr (Nat.le_refl _))), e4]
    have hS : Sf[s.states.length]? = some s.next := by
      rw [prefix_getElem? hF.states _ (by rw [e6]; simp), e6]; simp
    refine ⟨by simp [run, tailF, execI], ?_, fun _ => by simp [tailF, execI, hHo, lastT, por]⟩
    simp only [tailF, execI, hHo, lastT, por, Option.getD_some]
    apply SimN_stopped
    intro s1
    rw [mStep_some E Sf _ _ hS, E_empty act cond Hf E hE _ hHn]
    rfl

/-- the state created for `await cc; k` simulates the suspension at that await -/
theorem await_state_sim2 (cc : Option Nat) (k : Stmt) (st : List Frame) (idx nb ib : Nat) (hS : Sf[idx]? = some nb)
    (hEn : ∀ s0, E nb s0 = if evalC cond cc s0 then E ib s0 else (s0, none))
    (hib : ∀ s0, E ib s0 = tailF act cond Hf E ib (Hf ib).items s0) (hcur : cur Rf Sf ib = idx) :
    ∀ m, (∀ j, j ≤ m → TailSim2 act cond prog Hf E Rf Sf j ib [] k st false) →
      SimN act cond prog E Sf m (.atAwait cc k st) idx := by
  intro m
  induction m with
  | zero => intro _; trivial
  | succ m ih =>
    intro hk s0
    rw [mStep_some E Sf idx nb hS, hEn]
    cases hc : evalC cond cc s0 with
    | true =>
      simp only [if_true]
      have h1 := hk (m+1) (Nat.le_refl _) (Hf ib).items (by simp) s0
      rcases h1 with h1 | ⟨f, r, h1, h2, _⟩
      · omega
      · refine ⟨f, r, ?_, ?_⟩
        · simp only [refStep, hc, if_true]; rw [hib]; exact h1
        · rw [hib]; rw [hcur] at h2; exact h2
    | false =>
      simp only [Bool.false_eq_true, if_false]
      refine ⟨1, .atAwait cc k st, by simp [refStep, hc], ?_⟩
      simp only [Option.getD_none]
      exact ih (fun j hj => hk j (by omega))

end
end CohdlVerif.C01
