import CohdlVerif.Lemmas.C01Y8

/-! C01 - whole grammar: the general plain-statement lemma -/
namespace CohdlVerif.C01

section
variable {σ : Type} (act : Nat → σ → σ) (cond : Nat → σ → Bool)
variable (Hf : Nat → Blk) (E : Nat → σ → σ × Option Nat) (Rf : Nat → Nat) (Sf : List Nat)

theorem plainX_ite (hE : ∀ b s, E b s = execB act cond E (Hf b) s) (cc : Nat) (t e k : Stmt) (l c : Bool)
    (ht : wf t l c = true) (he : wf e l c = true) (hk : wf k l c = true)
    (iht : PlainX act cond Hf E Rf Sf t) (ihe : PlainX act cond Hf E Rf Sf e) (ihk : PlainX act cond Hf E Rf Sf k) :
    PlainX act cond Hf E Rf Sf (.ite cc t e k) := by
  intro x s P' hi hsi hA hF hP'
  have key : x ∈ Outs s (compile (.ite cc t e k) [x] s).1 (compile (.ite cc t e k) [x] s).2 →
      (x ∈ (compile (.ite cc t e k) [x] s).1 → PlainResQ act cond E .skip (.ite cc t e k) x s (compile (.ite cc t e k) [x] s).2) ∧
      (x ∈ dR s (compile (.ite cc t e k) [x] s).2 → PlainResQ act cond E .ret (.ite cc t e k) x s (compile (.ite cc t e k) [x] s).2) := by
    intro hn
    obtain ⟨X, hat, hae, heq, Tk, hi5, _⟩ := ite_pend cc t e k l c (compile_spec t l c ht) (compile_spec e l c he)
      (compile_spec k l c hk) x s hi hsi hn
    rw [heq] at hF hP' ⊢
    have n4 := X.n4
    have n5 := X.n5
    obtain ⟨eff1, p1, p2, p3, p4⟩ := plain_ite_piece act cond Hf E Rf Sf hE cc t e k iht ihe x s P' hi X hat hae Tk hF hP'
    have s1 := ((pendS t l c ht s.next (itePre cc x s) X.hi3 X.hsi3 X.hA3).1 ((anyTrans_false_iff _ _).mp hat).mem).2
    have s2 := ((pendS e l c he (s.next + 1) (iR4 t cc x s).2 X.hi4 X.hsi4 X.hA4).1 ((anyTrans_false_iff _ _).mp hae).mem).2
    have s5 : SameLists s (iR5 t e cc x s).2 := ((itePre_sameLists cc x s).trans s1).trans s2
    obtain ⟨_, _, eR⟩ := dX_congr s5 (compile k [x] (iR5 t e cc x s).2).2
    rw [← eR]
    obtain ⟨k1, k2⟩ := ihk x (iR5 t e cc x s).2 P' hi5 X.hsi5 X.hA5 hF
      (fun y hy hlt hr => hP' y hy hlt (hr.imp id (fun h => by omega)))
    exact ⟨fun h => plainQ_seq act cond E .skip _ k x s _ _ _ eff1 p1 p2 p3 p4 (k1 h),
      fun h => plainQ_seq act cond E .ret _ k x s _ _ _ eff1 p1 p2 p3 p4 (k2 h)⟩
  exact ⟨fun h => (key (mem_Outs.mpr (Or.inl h))).1 h, fun h => (key (mem_Outs.mpr (Or.inr (Or.inr (Or.inr h))))).2 h⟩

theorem plainX_call (b k : Stmt) (l c : Bool) (hb : wf b false true = true) (hk : wf k l c = true)
    (ihb : PlainX act cond Hf E Rf Sf b) (ihk : PlainX act cond Hf E Rf Sf k) :
    PlainX act cond Hf E Rf Sf (.call b k) := by
  intro x s P' hi hsi hA hF hP'
  rw [compile_callG b k [x] s (by simp)] at hF hP' ⊢
  have hx : x < s.next := hi.hlt.1 x (by simp)
  have C := cctx b (compile_spec b false true hb) (fwdW b false true hb) [x] s hi
  have hsiIn : SInv (cIn s) := ⟨hsi.states_lt, hsi.root0, hsi.states0⟩
  obtain ⟨b1, b2⟩ := pendS b false true hb x (cIn s) C.hiIn hsiIn hA
  have hA2 : (cOut b [x] s).atStart = false := C.BW.atStart_false hi.hlt.2 hA
  have hsi2 := hsi.step C.BW hi.hlt.2
  have Tk0 := (compile_spec k l c hk).step C.hi2 (fun _ => hA2)
  have hback : x ∈ Outs (cOut b [x] s) (compile k (cRes b [x] s) (cOut b [x] s)).1 (compile k (cRes b [x] s) (cOut b [x] s)).2 →
      x ∈ cRes b [x] s := by
    intro hm
    rcases (Tk0.outs_r x hm).1 with h' | h'
    · exact h'
    · have := C.BW.next_le; omega
  have hdR : dR s (compile k (cRes b [x] s) (cOut b [x] s)).2 = dR (cOut b [x] s) (compile k (cRes b [x] s) (cOut b [x] s)).2 := by
    simp [dR, cOut]
  rw [hdR]
  have key : x ∈ cRes b [x] s →
      (x ∈ (compile k (cRes b [x] s) (cOut b [x] s)).1 →
        PlainResQ act cond E .skip (.call b k) x s (compile k (cRes b [x] s) (cOut b [x] s)).2) ∧
      (x ∈ dR (cOut b [x] s) (compile k (cRes b [x] s) (cOut b [x] s)).2 →
        PlainResQ act cond E .ret (.call b k) x s (compile k (cRes b [x] s) (cOut b [x] s)).2) := by
    intro hm
    have hres : cRes b [x] s = [x] := by
      have hm' := hm
      simp only [cRes, List.mem_append] at hm'
      rcases hm' with h | h
      · obtain ⟨e1, e2⟩ := b1 h
        have e3 : (compile b [x] (cIn s)).2.ret = [] := e2.2.2
        simp [cRes, e1, e3]
      · obtain ⟨e1, e2, _, _⟩ := b2 (C.dRb ▸ h)
        rw [C.dRb] at e2
        simp [cRes, e1, e2]
    have hi2 := C.hi2
    rw [hres] at hi2 hF hP' Tk0 ⊢
    have F2 : Fut Hf Rf Sf (cOut b [x] s) (fun y => y = x ∨ P' y) :=
      Fut.back Tk0 (by simp) (fun y hy => Or.inl (Or.inr hy)) hF
    have FB2 : Fut Hf Rf Sf (compile b [x] (cIn s)).2 (fun y => y = x ∨ P' y) := ⟨F2.items, F2.closed, F2.root, F2.states⟩
    have hnk := Tk0.next_le
    obtain ⟨q1, q2⟩ := ihb x (cIn s) _ C.hiIn hsiIn hA FB2 (by
      intro y hy hlt hr
      have hlt' : y < (cOut b [x] s).next := hlt
      rcases hy with hy | hy
      · exact hy
      · exact hP' y hy (by omega) hr)
    -- the body as the first plain piece
    have piece : ∃ (added1 : List Item) (eff1 : σ → σ),
        ((cOut b [x] s).heap x).front = (s.heap x).front ∧ ((cOut b [x] s).heap x).items = (s.heap x).items ++ added1 ∧
        (∀ σ0, execI act cond E added1 σ0 = (eff1 σ0, none)) ∧
        (∀ st σ0, RunTo act cond (.call b k) st s.atStart σ0 k st (cOut b [x] s).atStart (eff1 σ0)) := by
      have hm' := hm
      simp only [cRes, List.mem_append] at hm'
      rcases hm' with h | h
      · obtain ⟨hf, added, eff, h1, h2, h3⟩ := q1 h
        refine ⟨added, eff, hf, h1, h2, ?_⟩
        intro st σ0
        exact (RunTo.call_ act cond b k st _ σ0).trans act cond
          ((h3 (.callF k :: st) σ0).trans act cond (RunTo.skip_call act cond k st _ _))
      · obtain ⟨hf, added, eff, h1, h2, h3⟩ := q2 (C.dRb ▸ h)
        refine ⟨added, eff, hf, h1, h2, ?_⟩
        intro st σ0
        exact (RunTo.call_ act cond b k st _ σ0).trans act cond
          ((h3 (.callF k :: st) σ0).trans act cond (RunTo.ret_call act cond k st _ _))
    obtain ⟨added1, eff1, p1, p2, p3, p4⟩ := piece
    obtain ⟨k1, k2⟩ := ihk x (cOut b [x] s) P' hi2 hsi2 hA2 hF
      (fun y hy hlt hr => hP' y hy hlt (hr.imp id (fun h => by have := C.BW.next_le; omega)))
    exact ⟨fun h => plainQ_seq act cond E .skip _ k x s _ _ added1 eff1 p1 p2 p3 p4 (k1 h),
      fun h => plainQ_seq act cond E .ret _ k x s _ _ added1 eff1 p1 p2 p3 p4 (k2 h)⟩
  exact ⟨fun h => (key (hback (mem_Outs.mpr (Or.inl h)))).1 h,
    fun h => (key (hback (mem_Outs.mpr (Or.inr (Or.inr (Or.inr h)))))).2 h⟩

/-- the general plain-statement lemma for every well-formed statement -/
theorem plainX (hE : ∀ b s, E b s = execB act cond E (Hf b) s) :
    ∀ (t : Stmt) (l c : Bool), wf t l c = true → PlainX act cond Hf E Rf Sf t := by
  intro t
  induction t with
  | skip =>
    intro l c _ x s P' _ _ _ _ _
    simp only [compile]
    exact ⟨fun _ => ⟨rfl, [], id, by simp, fun _ => rfl, fun st σ0 => RunTo.refl act cond _ _ _ _⟩,
      fun h => by simp [dR] at h⟩
  | act a k ih =>
    intro l c h x s P' hi hsi hA hF hP'
    have hk : wf k l c = true := by simpa [wf] using h
    rw [compile_act_single] at hF hP' ⊢
    have hx := HeapExt.append s [x] x (by simp) (.act a)
    have hA1 := (hx.step hi.hlt.1).atStart_false hi.hlt.2 hA
    obtain ⟨i1, i2⟩ := ih l c hk x _ P' (hi.single_append _) (hsi.step (hx.step hi.hlt.1) hi.hlt.2) hA1 hF hP'
    obtain ⟨_, _, eR⟩ := dX_congr hx.sameLists (compile k [x] (s.append x (.act a))).2
    rw [← eR]
    exact ⟨fun h => plainQ_act act cond E .skip a k x s _ hA (i1 h), fun h => plainQ_act act cond E .ret a k x s _ hA (i2 h)⟩
  | await cc k _ =>
    intro l c h x s P' hi _ hA _ _
    have hk : wf k l c = true := by simpa [wf] using h
    have hnp := await_not_pending cc k l c hk x s hi hA
    exact ⟨fun h => (hnp (mem_Outs.mpr (Or.inl h))).elim, fun h => (hnp (mem_Outs.mpr (Or.inr (Or.inr (Or.inr h))))).elim⟩
  | awaitF =>
    intro l c _ x s P' _ _ _ _ _
    have e : compile .awaitF [x] s = ([], (enterState [x] s).2.2) := by simp [compile]
    rw [e]
    refine ⟨fun h => by simp at h, fun h => ?_⟩
    rw [(dX_same (enterState_sameLists [x] s)).2.2] at h; simp at h
  | ite cc t e k iht ihe ihk =>
    intro l c h
    simp only [wf, Bool.and_eq_true] at h
    exact plainX_ite act cond Hf E Rf Sf hE cc t e k l c h.1.1 h.1.2 h.2 (iht l c h.1.1) (ihe l c h.1.2) (ihk l c h.2)
  | while_ cc b k _ _ =>
    intro l c h x s P' hi hsi hA _ _
    simp only [wf, Bool.and_eq_true] at h
    have hnp := while_not_pending cc b k l c h.1 h.2 x s hi hsi hA
    exact ⟨fun h => (hnp (mem_Outs.mpr (Or.inl h))).elim, fun h => (hnp (mem_Outs.mpr (Or.inr (Or.inr (Or.inr h))))).elim⟩
  | brk => intro l c _ x s P' _ _ _ _ _; simp [compile, dR]
  | cont => intro l c _ x s P' _ _ _ _ _; simp [compile, dR]
  | ret =>
    intro l c _ x s P' _ _ _ _ _
    simp only [compile]
    exact ⟨fun h => by simp at h,
      fun _ => ⟨rfl, [], id, by simp, fun _ => rfl, fun st σ0 => RunTo.refl act cond _ _ _ _⟩⟩
  | call b k ihb ihk =>
    intro l c h
    simp only [wf, Bool.and_eq_true] at h
    exact plainX_call act cond Hf E Rf Sf b k l c h.1 h.2 (ihb false true h.1) (ihk l c h.2)

/-- what the `if` lemmas need, for every well-formed statement -/
theorem plainG_of_wf (hE : ∀ b s, E b s = execB act cond E (Hf b) s) (t : Stmt) (l c : Bool) (h : wf t l c = true) :
    PlainG act cond Hf E Rf Sf t := by
  intro x s P' hi hsi hA hn hF hP'
  exact ((plainX act cond Hf E Rf Sf hE t l c h x s P' hi hsi hA hF hP').1 hn.mem).toPlain

theorem notrLists_of_wf (t : Stmt) (l c : Bool) (h : wf t l c = true) : NoTrLists t :=
  fun x s hi hsi hA hn => ((pendS t l c h x s hi hsi hA).1 hn.mem).2

end
end CohdlVerif.C01
