import CohdlVerif.Model.C14ExtFifo
import CohdlVerif.Lemmas.FifoLemmas

/-! C14 extension - helper lemmas: the delayed Fifo refines the queue.
  Proof idea: ghost (unwrapped) counters `SW BW W SR BR RD` for the six index registers
  (`set_wr buf_wr wr set_rd buf_rd rd`): every register holds its counter mod N, and
  `RD ≤ BR ≤ SR ≤ W ≤ BW ≤ SW ≤ RD + N - 1` is preserved by every interleaving (each copy only moves a
  counter up to a counter that is ahead of it). -/
namespace CohdlVerif.C14

theorem fifoNext_mod (N X : Nat) (hN : 2 ≤ N) : fifoNext N (X % N) = (X + 1) % N := by
  have hlt : X % N < N := Nat.mod_lt _ (by omega)
  rw [fifoNext_eq N (X % N) hN hlt, Nat.add_mod]
  have h1 : 1 % N = 1 := Nat.mod_eq_of_lt (by omega)
  rw [h1]
  by_cases h : X % N + 1 < N
  · simp [h, Nat.mod_eq_of_lt h]
  · have : X % N + 1 = N := by omega
    simp [this]

theorem mod_ne_of_lt (N a b : Nat) (h1 : a < b) (h2 : b - a < N) : a % N ≠ b % N := by
  intro h
  have h3 := Nat.sub_mod_eq_zero_of_mod_eq h.symm
  rw [Nat.mod_eq_of_lt h2] at h3
  omega

structure Ghost where
  SW : Nat
  BW : Nat
  W : Nat
  SR : Nat
  BR : Nat
  RD : Nat

def b2n (b : Bool) : Nat := if b then 1 else 0

def Ghost.step (g : Ghost) (push pop psync csync : Bool) : Ghost :=
  ⟨g.SW + b2n push, if psync then g.SW else g.BW, if csync then g.BW else g.W,
   g.SR + b2n pop, if csync then g.SR else g.BR, if psync then g.BR else g.RD⟩

structure DRel (N : Nat) (s : DFifo) (a : Queue) (g : Ghost) : Prop where
  o1 : g.RD ≤ g.BR
  o2 : g.BR ≤ g.SR
  o3 : g.SR ≤ g.W
  o4 : g.W ≤ g.BW
  o5 : g.BW ≤ g.SW
  o6 : g.SW + 1 ≤ g.RD + N
  i1 : s.setWr = g.SW % N
  i2 : s.bufWr = g.BW % N
  i3 : s.wr = g.W % N
  i4 : s.setRd = g.SR % N
  i5 : s.bufRd = g.BR % N
  i6 : s.rd = g.RD % N
  len : s.mem.length = N
  qlen : a.q.length + g.SR = g.SW
  elems : ∀ i, i < a.q.length → s.mem[(g.SR + i) % N]? = some a.q[i]?
  out : s.dout = a.out

/-- the abstract operation that a step executes -/
def DFifo.opOf (N : Nat) (s : DFifo) (i : DIn) : FOp :=
  match s.effPush N i, s.effPop i with
  | none, false => .idle
  | some v, false => .push v
  | none, true => .pop
  | some v, true => .both v

theorem drel_init (N txd rxd : Nat) (hN : 2 ≤ N) :
    DRel N (DFifo.init N txd rxd) ⟨[], none⟩ ⟨0, 0, 0, 0, 0, 0⟩ := by
  refine ⟨by simp, by simp, by simp, by simp, by simp, by simp; omega, ?_, ?_, ?_, ?_, ?_, ?_, by simp [DFifo.init],
    by simp, by intro i hi; simp at hi, rfl⟩ <;> simp [DFifo.init]

/-- a push is executed only if there is room, a pop only if there is an element (conservative views) -/
theorem drel_room (N : Nat) (hN : 2 ≤ N) (s : DFifo) (a : Queue) (g : Ghost) (h : DRel N s a g) (i : DIn) :
    ((s.effPush N i).isSome = true → a.q.length + 1 < N ∧ g.SW + 2 ≤ g.RD + N) ∧
    (s.effPop i = true → a.q ≠ [] ∧ g.SR < g.W) := by
  constructor
  · intro hp
    have hf : s.fullS N = false := by
      unfold DFifo.effPush at hp
      cases hfs : s.fullS N <;> simp_all
    by_cases hfull : g.SW + 1 = g.RD + N
    · exfalso
      have : s.fullS N = true := by
        simp only [DFifo.fullS, h.i1, h.i6, fifoNext_mod N g.SW hN, hfull, Nat.add_mod_right, beq_self_eq_true]
      rw [hf] at this; exact Bool.noConfusion this
    · have := h.o1; have := h.o2; have := h.o6; have := h.qlen; exact ⟨by omega, by omega⟩
  · intro hp
    have he : s.emptyR = false := by
      unfold DFifo.effPop at hp
      cases hes : s.emptyR <;> simp_all
    by_cases hem : g.W = g.SR
    · exfalso
      have : s.emptyR = true := by simp [DFifo.emptyR, h.i3, h.i4, hem]
      rw [he] at this; exact Bool.noConfusion this
    · have := h.o3; have := h.o4; have := h.o5; have := h.qlen
      refine ⟨?_, by omega⟩
      intro hq
      have : a.q.length = 0 := by simp [hq]
      omega

theorem drel_step (N : Nat) (hN : 2 ≤ N) (s : DFifo) (a : Queue) (g : Ghost) (h : DRel N s a g) (i : DIn) :
    DRel N (s.step N i) (a.step (s.opOf N i))
      (g.step (s.effPush N i).isSome (s.effPop i) (i.tp && !s.flag.pSet) (i.tc && s.flag.cSet)) := by
  obtain ⟨hroom, hne⟩ := drel_room N hN s a g h i
  obtain ⟨o1, o2, o3, o4, o5, o6, i1, i2, i3, i4, i5, i6, hlen, hqlen, hel, hout⟩ := h
  rw [show s.step N i = (⟨s.flag.step i.tp (i.tp && !s.flag.pSet) i.tc (i.tc && s.flag.cSet),
      (match s.effPush N i with | some _ => fifoNext N s.setWr | none => s.setWr),
      (if (i.tp && !s.flag.pSet) = true then s.setWr else s.bufWr),
      (if (i.tc && s.flag.cSet) = true then s.bufWr else s.wr),
      (if s.effPop i = true then fifoNext N s.setRd else s.setRd),
      (if (i.tc && s.flag.cSet) = true then s.setRd else s.bufRd),
      (if (i.tp && !s.flag.pSet) = true then s.bufRd else s.rd),
      (match s.effPush N i with | some v => s.mem.set s.setWr (some v) | none => s.mem),
      (if s.effPop i = true then s.mem.getD s.setRd none else s.dout)⟩ : DFifo) from rfl]
  generalize (i.tp && !s.flag.pSet) = ps
  generalize (i.tc && s.flag.cSet) = cs
  generalize s.flag.step i.tp ps i.tc cs = fl
  have hSWlt : g.SW % N < N := Nat.mod_lt _ (by omega)
  have hhead : a.q ≠ [] → s.mem[g.SR % N]? = some a.q[0]? := by
    intro hq
    have := hel 0 (List.length_pos_iff.mpr hq)
    simpa using this
  cases hpu : s.effPush N i with
  | none =>
    cases hpo : s.effPop i with
    | false =>
      simp only [hpu, hpo, Option.isSome_none] at hroom hne ⊢
      constructor
      case elems => simp only [DFifo.opOf, hpu, hpo, Queue.step]; exact hel
      case out => simp only [DFifo.opOf, hpu, hpo, Queue.step]; simpa using hout
      case qlen => simp [DFifo.opOf, hpu, hpo, Queue.step, Ghost.step, b2n]; omega
      all_goals (first
        | (cases ps <;> cases cs <;> simp [Ghost.step, b2n] <;> omega)
        | (cases ps <;> cases cs <;> simp [DFifo.opOf, Queue.step, Ghost.step, b2n, hpu, hpo, *]))
    | true =>
      have hq : a.q ≠ [] := (hne (by simp [hpo])).1
      have hSRW : g.SR < g.W := (hne (by simp [hpo])).2
      have hpos : 0 < a.q.length := List.length_pos_iff.mpr hq
      have hnx := fifoNext_mod N g.SR hN
      constructor
      case elems =>
        intro j hj
        simp only [DFifo.opOf, hpu, hpo, Queue.step, List.length_tail] at hj
        simp only [DFifo.opOf, hpu, hpo, Queue.step, Ghost.step, b2n, if_true, List.getElem?_tail]
        have e : g.SR + 1 + j = g.SR + (j + 1) := by omega
        rw [e]; exact hel (j + 1) (by omega)
      case out =>
        simp [DFifo.opOf, hpu, hpo, Queue.step, List.getD_eq_getElem?_getD, i4, hhead hq,
          List.head?_eq_getElem?]
      case qlen =>
        simp [DFifo.opOf, hpu, hpo, Queue.step, Ghost.step, b2n]; omega
      all_goals (first
        | (cases ps <;> cases cs <;> simp [Ghost.step, b2n] <;> omega)
        | (cases ps <;> cases cs <;> simp [DFifo.opOf, Queue.step, Ghost.step, b2n, hpu, hpo, hnx, *]))
  | some v =>
    have hcap : a.q.length + 1 < N := (hroom (by simp [hpu])).1
    have hSW2 : g.SW + 2 ≤ g.RD + N := (hroom (by simp [hpu])).2
    have hnw := fifoNext_mod N g.SW hN
    have hwr : ∀ j, j < a.q.length → g.SW % N ≠ (g.SR + j) % N := by
      intro j hj
      exact (mod_ne_of_lt N (g.SR + j) g.SW (by omega) (by omega)).symm
    have hset : (s.mem.set (g.SW % N) (some v))[(g.SR + a.q.length) % N]? = some (some v) := by
      have : g.SR + a.q.length = g.SW := by omega
      rw [this]; simp [hlen, hSWlt]
    cases hpo : s.effPop i with
    | false =>
      constructor
      case elems =>
        intro j hj
        simp only [DFifo.opOf, hpu, hpo, Queue.step, List.length_append, List.length_singleton] at hj
        simp only [DFifo.opOf, hpu, hpo, Queue.step, Ghost.step, b2n, i1, List.getElem?_append,
          Bool.false_eq_true, if_false, Nat.add_zero]
        by_cases hlt : j < a.q.length
        · simp [List.getElem?_set, hwr j hlt, hlt, hel j hlt]
        · have : j = a.q.length := by omega
          subst this
          simp [hset]
      case qlen =>
        simp [DFifo.opOf, hpu, hpo, Queue.step, Ghost.step, b2n]; omega
      case len => simp [hpu, hlen]
      all_goals (first
        | (cases ps <;> cases cs <;> simp [Ghost.step, b2n] <;> omega)
        | (cases ps <;> cases cs <;> simp [DFifo.opOf, Queue.step, Ghost.step, b2n, hpu, hpo, hnw, *]))
    | true =>
      have hq : a.q ≠ [] := (hne (by simp [hpo])).1
      have hSRW : g.SR < g.W := (hne (by simp [hpo])).2
      have hpos : 0 < a.q.length := List.length_pos_iff.mpr hq
      have hnx := fifoNext_mod N g.SR hN
      constructor
      case elems =>
        intro j hj
        simp only [DFifo.opOf, hpu, hpo, Queue.step, List.length_append, List.length_tail,
          List.length_singleton] at hj
        simp only [DFifo.opOf, hpu, hpo, Queue.step, Ghost.step, b2n, i1, List.getElem?_append,
          List.length_tail, List.getElem?_tail, if_true]
        have e : g.SR + 1 + j = g.SR + (j + 1) := by omega
        rw [e]
        by_cases hlt : j < a.q.length - 1
        · simp [List.getElem?_set, hwr (j + 1) (by omega), hlt, hel (j + 1) (by omega)]
        · have hj2 : j + 1 = a.q.length := by omega
          have hj3 : j - (a.q.length - 1) = 0 := by omega
          rw [hj2]
          simp [hset, hlt, hj3]
      case out =>
        simp [DFifo.opOf, hpu, hpo, Queue.step, List.getD_eq_getElem?_getD, i4, hhead hq,
          List.head?_eq_getElem?]
      case qlen =>
        simp [DFifo.opOf, hpu, hpo, Queue.step, Ghost.step, b2n]; omega
      case len => simp [hpu, hlen]
      all_goals (first
        | (cases ps <;> cases cs <;> simp [Ghost.step, b2n] <;> omega)
        | (cases ps <;> cases cs <;> simp [DFifo.opOf, Queue.step, Ghost.step, b2n, hpu, hpo, hnw, hnx, *]))

/-- the abstract queue driven by the operations the delayed Fifo really executes -/
def DFifo.runQ (N : Nat) : DFifo → Queue → List DIn → Queue
  | _, a, [] => a
  | s, a, i :: ins => DFifo.runQ N (s.step N i) (a.step (s.opOf N i)) ins

/-- every executed operation respects the preconditions of the abstract queue: no push to a queue holding
    N-1 elements (overflow), no pop from an empty queue (underflow) -/
def DFifo.legalRun (N : Nat) : DFifo → Queue → List DIn → Prop
  | _, _, [] => True
  | s, a, i :: ins => a.legal N (s.opOf N i) = true ∧ DFifo.legalRun N (s.step N i) (a.step (s.opOf N i)) ins

theorem drel_legal (N : Nat) (hN : 2 ≤ N) (s : DFifo) (a : Queue) (g : Ghost) (h : DRel N s a g) (i : DIn) :
    a.legal N (s.opOf N i) = true := by
  obtain ⟨hroom, hne⟩ := drel_room N hN s a g h i
  unfold DFifo.opOf
  cases hpu : s.effPush N i <;> cases hpo : s.effPop i <;>
    simp [Queue.legal, hpu, hpo] at hroom hne ⊢ <;> simp [*]

theorem drel_run (N : Nat) (hN : 2 ≤ N) (ins : List DIn) :
    ∀ (s : DFifo) (a : Queue) (g : Ghost), DRel N s a g →
      (∃ g', DRel N (DFifo.run N s ins) (DFifo.runQ N s a ins) g') ∧ DFifo.legalRun N s a ins := by
  induction ins with
  | nil => intro s a g h; exact ⟨⟨g, h⟩, trivial⟩
  | cons i ins ih =>
    intro s a g h
    have h' := drel_step N hN s a g h i
    obtain ⟨hr, hl⟩ := ih _ _ _ h'
    exact ⟨hr, drel_legal N hN s a g h i, hl⟩

/-- what the relation says about the observables -/
theorem drel_flags (N : Nat) (hN : 2 ≤ N) (s : DFifo) (a : Queue) (g : Ghost) (h : DRel N s a g) :
    a.q.length < N ∧ s.dout = a.out ∧ (a.q ≠ [] → s.front = a.q.head?) ∧
    (s.fullS N = false → a.q.length + 1 < N) ∧ (s.emptyR = false → a.q ≠ []) := by
  have hr := drel_room N hN s a g h ⟨true, some 0, true, true⟩
  refine ⟨?_, h.out, ?_, ?_, ?_⟩
  · have := h.o1; have := h.o2; have := h.o6; have := h.qlen; omega
  · intro hq
    have h0 := h.elems 0 (List.length_pos_iff.mpr hq)
    simp only [Nat.add_zero] at h0
    simp [DFifo.front, h.i4, List.getD_eq_getElem?_getD, h0, List.head?_eq_getElem?]
  · intro hf; exact (hr.1 (by simp [DFifo.effPush, hf])).1
  · intro he; exact (hr.2 (by simp [DFifo.effPop, he])).1

end CohdlVerif.C14
