import CohdlVerif.Lemmas.C01Frag1h
import CohdlVerif.Lemmas.C01FragW3

/-! C01 - fragment 1: `if` and the simulation claim `sim1` for all statements of the fragment -/
namespace CohdlVerif.C01

section
variable {σ : Type} (act : Nat → σ → σ) (cond : Nat → σ → Bool)
variable (prog : Stmt) (Hf : Nat → Blk) (E : Nat → σ → σ × Option Nat) (Rf : Nat → Nat) (Sf : List Nat)

theorem sim_ite (hE : ∀ b s, E b s = execB act cond E (Hf b) s) (c : Nat) (t1 e1 k : Stmt)
    (h1 : frag1 t1 = true) (h2 : frag1 e1 = true) (h3 : frag1 k = true)
    (iht : SimIH act cond prog Hf E Rf Sf t1) (ihe : SimIH act cond prog Hf E Rf Sf e1)
    (ihk : SimIH act cond prog Hf E Rf Sf k) : SimIH act cond prog Hf E Rf Sf (.ite c t1 e1 k) := by
  intro st O s m P' hi hsi hF hP' hprem o ho
  have hO : O ≠ [] := fun h => by subst h; simp at ho
  have hc : compile (.ite c t1 e1 k) O s =
      compile k (iteLoop c (compile t1) (compile e1) O s []).1 (iteLoop c (compile t1) (compile e1) O s []).2 := by
    rw [compile_ite]; simp [frag1_retAlways t1 h1]
  rw [hc] at hF hP' hprem
  obtain ⟨T, hmem, hA⟩ := iteLoop_step c (compile t1) (compile e1) (frag1_br t1 h1) (frag1_br e1 h2) O s [] hi.hlt hi.start
  obtain ⟨hn, hf⟩ := iteLoop_fwd c (compile t1) (compile e1) (frag1_br t1 h1) (frag1_br e1 h2)
    (fwd1 t1 h1).fspec (fwd1 e1 h2).fspec O s [] hi.hlt hi.start hi.nodup hi.front (by simp) (by simp)
  generalize hret : (iteLoop c (compile t1) (compile e1) O s []).1 = ret at *
  generalize hse : (iteLoop c (compile t1) (compile e1) O s []).2 = se at *
  have hAe : se.atStart = false := hA hO
  have hmem' : ∀ y ∈ ret, InR s O se y := fun y hy => (hmem y hy).resolve_left (by simp)
  have TW : Step s O se ret := T.weaken (fun _ h => h) hmem'
  have hie : Inv se ret := ⟨TW.hlt hi.hlt, fun h => (by rw [hAe] at h; cases h), hn, hf⟩
  have hsie := hsi.step TW hi.hlt.2
  have Tk := frag1_step k h3 ret se hie
  have CKk := ihk st ret se m P' hie hsie hF
    (fun y hy hlt hr => hP' y hy hlt (by
      rcases hr with h | h
      · exact (hmem' y h).1.imp id (fun h => h.1)
      · right; have := TW.next_le; omega))
    hprem
  rw [hAe] at CKk
  have FE : Fut Hf Rf Sf se (fun y => y ∈ ret ∨ P' y) :=
    Fut.back Tk (fun o ho => Or.inl ho) (fun y hy => Or.inl (Or.inr hy)) hF
  have := iteLoop_sim act cond prog Hf E Rf Sf hE c t1 e1 k h1 h2 iht ihe st m (fun y => y ∈ ret ∨ P' y) O s []
    hi.hlt hi.start hi.nodup hi.front hsi (by simp) (by rw [hse]; exact FE)
    (by
      rw [hse, hret]
      intro y hy hlt hr
      rcases hy with hy | hy
      · exact hy
      · have h1 := hP' y hy (by have := Tk.next_le; omega) hr
        rcases (Tk.open_r y h1).1 with h | h
        · exact h
        · omega)
    (by rw [hse, hret]; exact CKk)
  exact this o ho

/-- the simulation claim for every statement of fragment 1 -/
theorem sim1 (hE : ∀ b s, E b s = execB act cond E (Hf b) s) :
    ∀ (t : Stmt), frag1 t = true → SimIH act cond prog Hf E Rf Sf t := by
  intro t
  induction t with
  | skip => intro _; exact sim_skip act cond prog Hf E Rf Sf
  | act a k ih =>
    intro h
    have hk : frag1 k = true := by simpa [frag1] using h
    exact sim_act act cond prog Hf E Rf Sf a k hk (ih hk)
  | await cc k ih =>
    intro h
    have hk : frag1 k = true := by simpa [frag1] using h
    exact sim_await act cond prog Hf E Rf Sf hE cc k hk (ih hk)
  | awaitF => intro _; exact sim_awaitF act cond prog Hf E Rf Sf hE
  | ite c t e k iht ihe ihk =>
    intro h
    simp only [frag1, Bool.and_eq_true] at h
    exact sim_ite act cond prog Hf E Rf Sf hE c t e k h.1.1 h.1.2 h.2 (iht h.1.1) (ihe h.1.2) (ihk h.2)
  | while_ cc b k ihb ihk =>
    intro h
    simp only [frag1, Bool.and_eq_true] at h
    exact sim_while act cond prog Hf E Rf Sf hE cc b k h.1 h.2 (ihb h.1) (ihk h.2)
  | brk => intro h; simp [frag1] at h
  | cont => intro h; simp [frag1] at h
  | ret => intro h; simp [frag1] at h
  | call b k _ _ => intro h; simp [frag1] at h

end
end CohdlVerif.C01
