import CohdlVerif.Lemmas.C01S6

/-! C01 - general grammar: one iteration of the `If` loop, a branch with transitions -/
namespace CohdlVerif.C01

theorem iterCtxG (t1 e1 : Stmt) (l cf : Bool) (ht : CSpec (compile t1) l cf) (he : CSpec (compile e1) l cf)
    (c b : Nat) (s : CSt) (hb : b < s.next)
    (h0 : 0 < s.next) (hs : s.atStart = true → b = 0) (hsi : SInv s) : IterCtx t1 e1 c b s := by
  have T1 := itePre_step c b s hb
  have hA3 := itePre_atStart c b s hb h0 hs
  have hl3 := T1.hlt ⟨by simpa using hb, h0⟩
  have hn3 : (itePre c b s).next = s.next + 2 := rfl
  have hi3 : Inv (itePre c b s) [s.next] := Inv.single (by omega) hl3.2 hA3 (itePre_child_front c b s)
  have hsi3 := hsi.step T1 h0
  have Tt : Step (itePre c b s) [s.next] (compile t1 [s.next] (itePre c b s)).2 (compile t1 [s.next] (itePre c b s)).1 :=
    ht.step hi3 (fun _ => hA3)
  have hA4 := Tt.atStart_false hl3.2 hA3
  have hn4 := Tt.next_le
  have hfe : ((compile t1 [s.next] (itePre c b s)).2.heap (s.next + 1)).front = [] := by
    rw [Tt.frame (s.next + 1) (by omega) (by simp)]; exact itePre_child2_front c b s
  have hi4 : Inv (compile t1 [s.next] (itePre c b s)).2 [s.next + 1] :=
    Inv.single (by omega) (by omega) hA4 hfe
  have hsi4 := hsi3.step Tt hl3.2
  have Te := he.step hi4 (fun _ => hA4)
  refine ⟨T1, hA3, hi3, hsi3, Tt, hA4, by simpa [iR4, hn3] using hn4, hi4, hsi4, Te, Te.atStart_false hi4.hlt.2 hA4,
    Te.next_le, hsi4.step Te hi4.hlt.2, ?_, ?_⟩
  · intro y hy
    have hr := (Tt.open_r y hy).1
    constructor
    · rcases hr with h | h
      · simp at h; exact Or.inl h
      · exact Or.inr (by omega)
    · rcases hr with h | h
      · simp at h; simp only [iR4]; omega
      · exact h.2
  · intro y hy
    have hr := (Te.open_r y hy).1
    constructor
    · rcases hr with h | h
      · simp at h; exact Or.inl h
      · exact Or.inr h.1
    · rcases hr with h | h
      · simp at h; have := Te.next_le; simp only [iR5, iR4] at *; omega
      · exact h.2

/-- ranges of all outputs of the two branches -/
theorem IterCtx.outs_t {t1 e1 : Stmt} {c b : Nat} {s : CSt} (X : IterCtx t1 e1 c b s) :
    ∀ y ∈ Outs (itePre c b s) (iR4 t1 c b s).1 (iR4 t1 c b s).2, (y = s.next ∨ s.next + 2 ≤ y) ∧ y < (iR4 t1 c b s).2.next := by
  intro y hy
  have hr := (X.Tt.outs_r y hy).1
  have := X.n4
  constructor
  · rcases hr with h | h
    · simp at h; exact Or.inl h
    · exact Or.inr (by simpa [itePre_next] using h.1)
  · rcases hr with h | h
    · simp at h; omega
    · exact h.2

theorem IterCtx.outs_e {t1 e1 : Stmt} {c b : Nat} {s : CSt} (X : IterCtx t1 e1 c b s) :
    ∀ y ∈ Outs (iR4 t1 c b s).2 (iR5 t1 e1 c b s).1 (iR5 t1 e1 c b s).2,
      (y = s.next + 1 ∨ (iR4 t1 c b s).2.next ≤ y) ∧ y < (iR5 t1 e1 c b s).2.next := by
  intro y hy
  have hr := (X.Te.outs_r y hy).1
  have := X.n4
  have := X.n5
  constructor
  · rcases hr with h | h
    · simp at h; exact Or.inl h
    · exact Or.inr h.1
  · rcases hr with h | h
    · simp at h; omega
    · exact h.2

theorem dX_trans' {s s1 s' : CSt} {O O1 O1' O' : List Nat} (h1 : Step s O s1 O1) (h2 : Step s1 O1' s' O') :
    dB s s' = dB s s1 ++ dB s1 s' ∧ dC s s' = dC s s1 ++ dC s1 s' ∧ dR s s' = dR s s1 ++ dR s1 s' := by
  have a1 := h1.dB_spec.1; have a2 := h2.dB_spec.1
  have b1 := h1.dC_spec.1; have b2 := h2.dC_spec.1
  have c1 := h1.dR_spec.1; have c2 := h2.dR_spec.1
  simp only [dB, dC, dR] at *
  rw [a2, a1, b2, b1, c2, c1]; simp

/-- the lists of one iteration -/
theorem IterCtx.lists {t1 e1 : Stmt} {c b : Nat} {s : CSt} (X : IterCtx t1 e1 c b s) :
    dB s (iR5 t1 e1 c b s).2 = dB (itePre c b s) (iR4 t1 c b s).2 ++ dB (iR4 t1 c b s).2 (iR5 t1 e1 c b s).2 ∧
    dC s (iR5 t1 e1 c b s).2 = dC (itePre c b s) (iR4 t1 c b s).2 ++ dC (iR4 t1 c b s).2 (iR5 t1 e1 c b s).2 ∧
    dR s (iR5 t1 e1 c b s).2 = dR (itePre c b s) (iR4 t1 c b s).2 ++ dR (iR4 t1 c b s).2 (iR5 t1 e1 c b s).2 := by
  obtain ⟨a, b', c'⟩ := dX_congr (itePre_sameLists c b s) (iR5 t1 e1 c b s).2
  rw [← a, ← b', ← c']
  exact dX_trans' X.Tt X.Te

end CohdlVerif.C01
