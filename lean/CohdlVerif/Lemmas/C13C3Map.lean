import CohdlVerif.Model.C13Types
/-! C3 merge commutes with a renaming that is injective on the elements involved -/
namespace CohdlVerif.C13

variable {α β : Type} [DecidableEq α] [DecidableEq β]

def InjOn (f : α → β) (S : α → Prop) : Prop := ∀ a b, S a → S b → f a = f b → a = b

theorem contains_map (f : α → β) (S : α → Prop) (hinj : InjOn f S) (x : α) (l : List α) (hx : S x) (hl : ∀ y ∈ l, S y) :
    (l.map f).contains (f x) = l.contains x := by
  rw [Bool.eq_iff_iff]
  simp only [List.contains_iff_mem, List.mem_map]
  constructor
  · rintro ⟨y, hy, he⟩
    rw [← hinj y x (hl y hy) hx he]; exact hy
  · intro h; exact ⟨x, h, rfl⟩

theorem inTail_map (f : α → β) (S : α → Prop) (hinj : InjOn f S) (x : α) (l : List α) (hx : S x) (hl : ∀ y ∈ l, S y) :
    inTail (f x) (l.map f) = inTail x l := by
  cases l with
  | nil => rfl
  | cons h t => simp only [List.map_cons, inTail]; exact contains_map f S hinj x t hx (fun y hy => hl y (by simp [hy]))

theorem any_inTail_map (f : α → β) (S : α → Prop) (hinj : InjOn f S) (x : α) (ls : List (List α)) (hx : S x)
    (hl : ∀ l ∈ ls, ∀ y ∈ l, S y) : (ls.map (List.map f)).any (inTail (f x)) = ls.any (inTail x) := by
  induction ls with
  | nil => rfl
  | cons l ls ih =>
    simp only [List.map_cons, List.any_cons]
    rw [inTail_map f S hinj x l hx (hl l (by simp)), ih (fun l' hl' => hl l' (by simp [hl']))]

theorem pickHead_map (f : α → β) (S : α → Prop) (hinj : InjOn f S) (ls : List (List α)) (hl : ∀ l ∈ ls, ∀ y ∈ l, S y) :
    ∀ (rs : List (List α)), (∀ l ∈ rs, ∀ y ∈ l, S y) →
      pickHead (ls.map (List.map f)) (rs.map (List.map f)) = (pickHead ls rs).map f := by
  intro rs
  induction rs with
  | nil => intro _; rfl
  | cons r rs ih =>
    intro hr
    have ih' := ih (fun l hl' => hr l (by simp [hl']))
    cases r with
    | nil => simpa [pickHead] using ih'
    | cons h t =>
      simp only [List.map_cons, pickHead]
      rw [any_inTail_map f S hinj h ls (hr (h :: t) (by simp) h (by simp)) hl]
      split
      · exact ih'
      · rfl

theorem dropHead_map (f : α → β) (S : α → Prop) (hinj : InjOn f S) (h : α) (l : List α) (hh : S h) (hl : ∀ y ∈ l, S y) :
    dropHead (f h) (l.map f) = (dropHead h l).map f := by
  cases l with
  | nil => rfl
  | cons x t =>
    simp only [List.map_cons, dropHead]
    by_cases hx : x = h
    · simp [hx]
    · have : f x ≠ f h := fun he => hx (hinj x h (hl x (by simp)) hh he)
      simp [hx, this]

theorem mem_dropHead (h : α) (l : List α) (y : α) (hy : y ∈ dropHead h l) : y ∈ l := by
  cases l with
  | nil => simp [dropHead] at hy
  | cons x t =>
    simp only [dropHead] at hy
    split at hy
    · simp [hy]
    · exact hy

theorem pickHead_mem (ls : List (List α)) : ∀ (rs : List (List α)) (h : α), pickHead ls rs = some h → ∃ l ∈ rs, h ∈ l := by
  intro rs
  induction rs with
  | nil => intro h hp; simp [pickHead] at hp
  | cons r rs ih =>
    intro h hp
    cases r with
    | nil =>
      simp only [pickHead] at hp
      obtain ⟨l, hl, hm⟩ := ih h hp
      exact ⟨l, by simp [hl], hm⟩
    | cons x t =>
      simp only [pickHead] at hp
      split at hp
      · obtain ⟨l, hl, hm⟩ := ih h hp
        exact ⟨l, by simp [hl], hm⟩
      · simp at hp; subst hp; exact ⟨x :: t, by simp, by simp⟩

theorem filter_ne_nil_map (f : α → β) (ls : List (List α)) :
    (ls.map (List.map f)).filter (· ≠ []) = (ls.filter (· ≠ [])).map (List.map f) := by
  induction ls with
  | nil => rfl
  | cons l ls ih =>
    cases l with
    | nil => simpa using ih
    | cons x t =>
      simp only [List.map_cons, List.filter_cons, ne_eq, reduceCtorEq, not_false_eq_true, decide_true, if_true]
      rw [← ih]

theorem c3merge_map (f : α → β) (S : α → Prop) (hinj : InjOn f S) :
    ∀ (n : Nat) (ls : List (List α)), (∀ l ∈ ls, ∀ y ∈ l, S y) →
      c3merge n (ls.map (List.map f)) = (c3merge n ls).map (List.map f) := by
  intro n
  induction n with
  | zero => intro ls _; rfl
  | succ n ih =>
    intro ls hl
    simp only [c3merge]
    rw [filter_ne_nil_map]
    have hl' : ∀ l ∈ ls.filter (· ≠ []), ∀ y ∈ l, S y := fun l hm => hl l (List.mem_filter.mp hm).1
    generalize ls.filter (· ≠ []) = fs at hl'
    by_cases he : fs.isEmpty
    · simp [he]
    · have he' : (fs.map (List.map f)).isEmpty = false := by
        cases fs with
        | nil => simp at he
        | cons a b => rfl
      simp only [he', Bool.false_eq_true, if_false, he]
      rw [pickHead_map f S hinj fs hl' fs hl']
      cases hp : pickHead fs fs with
      | none => rfl
      | some h =>
        obtain ⟨l0, hl0, hm0⟩ := pickHead_mem fs fs h hp
        have hh : S h := hl' l0 hl0 h hm0
        simp only [Option.map_some]
        have hmap : (fs.map (List.map f)).map (dropHead (f h)) = (fs.map (dropHead h)).map (List.map f) := by
          simp only [List.map_map]
          apply List.map_congr_left
          intro l hlm
          exact dropHead_map f S hinj h l hh (hl' l hlm)
        rw [hmap, ih (fs.map (dropHead h)) (by
          intro l hlm y hy
          obtain ⟨l1, hl1, rfl⟩ := List.mem_map.mp hlm
          exact hl' l1 hl1 y (mem_dropHead h l1 y hy))]
        cases c3merge n (fs.map (dropHead h)) <;> rfl

/-- every element of a merge result comes from one of the merged lists -/
theorem c3merge_sub : ∀ (n : Nat) (ls : List (List α)) (r : List α), c3merge n ls = some r →
    ∀ x ∈ r, ∃ l ∈ ls, x ∈ l := by
  intro n
  induction n with
  | zero => intro ls r h; simp [c3merge] at h
  | succ n ih =>
    intro ls r h x hx
    have hsub : ∀ l ∈ ls.filter (· ≠ []), l ∈ ls := fun l hl => (List.mem_filter.mp hl).1
    simp only [c3merge] at h
    generalize ls.filter (· ≠ []) = fs at h hsub
    by_cases he : fs.isEmpty
    · simp [he] at h; subst h; simp at hx
    · simp only [he, Bool.false_eq_true, if_false] at h
      cases hp : pickHead fs fs with
      | none => rw [hp] at h; simp at h
      | some hd =>
        rw [hp] at h
        simp only at h
        cases hr : c3merge n (fs.map (dropHead hd)) with
        | none => rw [hr] at h; simp at h
        | some r' =>
          rw [hr] at h
          simp only [Option.some.injEq] at h
          subst h
          rcases List.mem_cons.mp hx with rfl | hx'
          · obtain ⟨l, hl, hm⟩ := pickHead_mem _ _ _ hp
            exact ⟨l, hsub l hl, hm⟩
          · obtain ⟨l, hl, hm⟩ := ih _ r' hr x hx'
            obtain ⟨l1, hl1, rfl⟩ := List.mem_map.mp hl
            exact ⟨l1, hsub l1 hl1, mem_dropHead hd l1 x hm⟩

end CohdlVerif.C13
