import CohdlVerif.Lemmas.C01FragW

/-! C01 - fragment 1: `while c` entered after the start (a new head state) -/
namespace CohdlVerif.C01

section
variable {σ : Type} (act : Nat → σ → σ) (cond : Nat → σ → Bool)
variable (prog : Stmt) (Hf : Nat → Blk) (E : Nat → σ → σ × Option Nat) (Rf : Nat → Nat) (Sf : List Nat)

/-- facts about the states of a loop entered after the start -/
theorem while_ns_facts (b : Stmt) (hb : frag1 b = true) (O : List Nat) (s : CSt) (hi : Inv s O)
    (hst : s.atStart = false) :
    wIdx O s = s.states.length ∧ wHb O s = s.next ∧ wBody O s = s.next + 1 ∧
    (wS1 O s).next = s.next + 2 ∧ (wS1 O s).states = s.states ++ [s.next] ∧
    (wS1 O s).heap s.next = {} ∧ (wS1 O s).root s.next = s.next ∧
    (∀ o ∈ O, (wS1 O s).heap o = { s.heap o with front := [s.states.length] }) ∧
    Step (wS1 O s) [s.next + 1] (wS4 b O s) (wR b O s).1 ∧ (wS4 b O s).atStart = false := by
  obtain ⟨e1, e2, e3, e4, e5, e6, e7, e8⟩ := enter_nostart_facts hi hst
  have hw0 : wS0 O s = (enterState O s).2.2 := by simp [wS0, hst]
  have hbody : wBody O s = s.next + 1 := by rw [wBody, hw0, e3]
  obtain ⟨S, _, _, hA4⟩ := wS4_step b false (compile_spec b true false (frag1_wf b hb true)) O s hi.hlt hi.start
  rw [hbody] at S
  refine ⟨e1, e2, hbody, ?_, ?_, ?_, ?_, ?_, S, hA4⟩
  · simp [wS1, CSt.newBlock, hw0, e3]
  · simp [wS1, CSt.newBlock, hw0, e6]
  · have hne : s.next ≠ (enterState O s).2.2.next := by omega
    simp [wS1, CSt.newBlock, hw0, hne, e4]
  · have hne : s.next ≠ (enterState O s).2.2.next := by omega
    simp [wS1, CSt.newBlock, hw0, hne, e5]
  · intro o ho
    have hne : o ≠ (enterState O s).2.2.next := by have := hi.hlt.1 o ho; omega
    simp [wS1, CSt.newBlock, hw0, hne, e7 o ho]

theorem sim_while_ns_some (hE : ∀ b s, E b s = execB act cond E (Hf b) s) (c' : Nat) (b k : Stmt)
    (hb : frag1 b = true) (hk : frag1 k = true)
    (ihb : SimIH act cond prog Hf E Rf Sf b) (ihk : SimIH act cond prog Hf E Rf Sf k)
    (st : List Frame) (O : List Nat) (s : CSt) (m : Nat) (P' : Nat → Prop)
    (hi : Inv s O) (hsi : SInv s) (hst : s.atStart = false)
    (hF : Fut Hf Rf Sf (compile (.while_ (some c') b k) O s).2 P')
    (hP' : ∀ y, P' y → y < (compile (.while_ (some c') b k) O s).2.next → (y ∈ O ∨ s.next ≤ y) →
      y ∈ (compile (.while_ (some c') b k) O s).1)
    (hprem : ∀ o' ∈ (compile (.while_ (some c') b k) O s).1, TailSim act cond prog Hf E Rf Sf m o'
      ((compile (.while_ (some c') b k) O s).2.heap o').items .skip st (compile (.while_ (some c') b k) O s).2.atStart)
    (o : Nat) (ho : o ∈ O) :
    TailSim act cond prog Hf E Rf Sf m o (s.heap o).items (.while_ (some c') b k) st false := by
  rw [compile_while_frag_some c' b k hb] at hF hP' hprem
  obtain ⟨f1, f2, f3, f4, f5, f6, f7, f8, S, hA4⟩ := while_ns_facts b hb O s hi hst
  obtain ⟨W, _⟩ := wS4_frag_step (some c') b hb O s hi.hlt hi.start
  rw [f2] at W hF hP' hprem
  rw [f3] at hF hP' hprem
  have hlw := W.hlt hi.hlt
  have hn4 : s.next + 2 ≤ (wS4 b O s).next := by have := S.next_le; omega
  have N := Step.newBlock (wS4 b O s) [s.next] hlw.1 (some s.next) (by simp)
  have hln := N.hlt hlw
  have X := (HeapExt.append ((wS4 b O s).newBlock (some s.next)).2 [(wS4 b O s).next, s.next] s.next
    (by simp) (.ite c' (s.next + 1) (wS4 b O s).next)).step hln.1
  have hlx := X.hlt hln
  have NX := N.trans hlw.1 X
  have hAx := X.atStart_false hln.2 (N.atStart_false hlw.2 hA4)
  have hnx : (((wS4 b O s).newBlock (some s.next)).2.append s.next (.ite c' (s.next + 1) (wS4 b O s).next)).next =
      (wS4 b O s).next + 1 := rfl
  have hne4 : (wS4 b O s).next ≠ s.next := by omega
  have hix : Inv (((wS4 b O s).newBlock (some s.next)).2.append s.next (.ite c' (s.next + 1) (wS4 b O s).next))
      [(wS4 b O s).next] :=
    Inv.single (hlx.1 _ (by simp)) hlx.2 hAx (by simp [CSt.append, CSt.newBlock, hne4])
  have hsix := (hsi.step W hi.hlt.2).step NX hlw.2
  have Tk := frag1_step k hk _ _ hix
  have hnk := Tk.next_le
  have hol : o < s.next := hi.hlt.1 o ho
  -- nothing created so far is pending, except the exit block
  have hnP : ∀ y, y < (wS4 b O s).next + 1 → (y ∈ O ∨ s.next ≤ y) → y ≠ (wS4 b O s).next → ¬ P' y :=
    fun y hy hr hne hp => by
      have := hP' y hp (by omega) hr
      rcases (Tk.open_r y this).1 with h | h
      · simp at h; omega
      · omega
  have hHo : Hf o = { s.heap o with front := [s.states.length] } := by
    rw [hF.closed o (by omega) (hnP o (by omega) (Or.inl ho) (by omega)), Tk.frame o (by omega) (by simp; omega),
      NX.frame o (by omega) (by simp; omega), S.frame o (by omega) (by simp; omega), f8 o ho]
  have hHh : Hf s.next = { front := [], items := [.ite c' (s.next + 1) (wS4 b O s).next] } := by
    rw [hF.closed s.next (by omega) (hnP s.next (by omega) (Or.inr (Nat.le_refl _)) (by omega)),
      Tk.frame s.next (by omega) (by simp; omega)]
    have h4 : (wS4 b O s).heap s.next = {} := by rw [S.frame s.next (by omega) (by simp), f6]
    simp [CSt.append, CSt.newBlock, hne4.symm, h4]
  -- futures
  have FX : Fut Hf Rf Sf _ (fun y => y = (wS4 b O s).next ∨ P' y) :=
    Fut.back Tk (by simp) (fun y hy => Or.inl (Or.inr hy)) hF
  have F4 : Fut Hf Rf Sf (wS4 b O s) (fun y => y = s.next ∨ (y = (wS4 b O s).next ∨ P' y)) :=
    Fut.back NX (by simp) (fun y hy => Or.inl (Or.inr hy)) FX
  have hP4 : ∀ y, (y = s.next ∨ (y = (wS4 b O s).next ∨ P' y)) → y < (wS4 b O s).next → wBody O s ≤ y → False := by
    intro y hy hlt hge
    rw [f3] at hge
    rcases hy with hy | hy | hy
    · omega
    · omega
    · exact hnP y (by omega) (Or.inr (by omega)) (by omega) hy
  -- state indices
  have hSf := ((S.states_mono.trans NX.states_mono).trans Tk.states_mono).trans hF.states
  have hS : Sf[s.states.length]? = some s.next := by
    rw [prefix_getElem? hSf _ (by rw [f5]; simp), f5]; simp
  have hidx : Sf.idxOf s.next = s.states.length := by
    obtain ⟨t, ht⟩ := hSf
    rw [← ht, f5, List.append_assoc]
    exact idxOf_append_new _ _ _ (fun h => by have := hsi.states_lt _ h; omega)
  have hrb : (wS1 O s).root (s.next + 1) = s.next := by
    have := (wS1_body O s).2.2
    rw [f3, f2] at this
    rw [this]
    have hw0 : wS0 O s = (enterState O s).2.2 := by simp [wS0, hst]
    rw [hw0]; exact (enter_nostart_facts hi hst).2.2.2.2.1
  have hcb : cur Rf Sf (wBody O s) = wIdx O s := by
    rw [f3, f1, cur, hF.root (s.next + 1) (by omega), Tk.root_stable _ (by omega), NX.root_stable _ (by omega),
      S.root_stable _ (by omega), hrb, hidx]
  have hcx : cur Rf Sf (wS4 b O s).next = wIdx O s := by
    have hrx : (((wS4 b O s).newBlock (some s.next)).2.append s.next (.ite c' (s.next + 1) (wS4 b O s).next)).root
        (wS4 b O s).next = s.next := by
      simp only [CSt.append, CSt.newBlock, if_true]
      rw [S.root_stable s.next (by omega), f7]
    rw [f1, cur, hF.root _ (by omega), Tk.root_stable _ (by omega), hrx, hidx]
  -- the exit block simulates the continuation
  have hks : ∀ j, j ≤ m → TailSim act cond prog Hf E Rf Sf j (wS4 b O s).next [] k st false := by
    intro j hj
    have := ihk st [(wS4 b O s).next] _ j P' hix hsix hF
      (fun y hy hlt hr => hP' y hy hlt (by
        rcases hr with h | h
        · simp at h; right; omega
        · right; omega))
      (prem_mono act cond prog Hf E Rf Sf hj hprem) (wS4 b O s).next (by simp)
    have h0 : (((wS4 b O s).newBlock (some s.next)).2.append s.next (.ite c' (s.next + 1) (wS4 b O s).next)).heap
        (wS4 b O s).next = {} := by simp [CSt.append, CSt.newBlock, hne4]
    rwa [h0, hAx] at this
  have hhead := head_state_sim act cond prog Hf E Rf Sf (some c') b k st (wIdx O s) s.next (wBody O s)
    (wS4 b O s).next (by rw [f1]; exact hS)
    (fun s0 => by rw [E_single_ite act cond Hf E hE s.next c' (s.next + 1) (wS4 b O s).next hHh, f3]; rfl)
    (E_tailF act cond Hf E hE _) (E_tailF act cond Hf E hE _) hcb hcx (m - 1)
    (fun j _ hH => while_body_sim act cond prog Hf E Rf Sf (some c') b k hb ihb st O s hi hsi _ F4 hP4 j hH)
    (fun j hj _ => hks j (by omega))
  intro suf hsuf s0
  rw [hHo] at hsuf
  have : suf = [] := by simpa using hsuf.symm
  subst this
  by_cases hm : m = 0
  · exact Or.inl hm
  right
  refine ⟨1, .atHead (some c') b k st, ?_, ?_⟩
  · rw [run_while_susp]; simp [tailF, execI]
  · simp only [tailF, execI, hHo, lastT, por, Option.getD_some]
    have := hhead (m - 1) (Nat.le_refl _)
    rwa [f1] at this

/-- a block whose code is a nested block (optionally after the `Nop` marker) -/
theorem E_single_sub (hE : ∀ b s, E b s = execB act cond E (Hf b) s) (b body : Nat)
    (h : Hf b = { front := [], items := [.sub body] } ∨ Hf b = { front := [], items := [.nop, .sub body] }) (s0 : σ) :
    E b s0 = E body s0 := by
  rw [hE b]
  rcases h with h | h <;> rw [h] <;> simp only [execB, execI, lastT, por_none_right, por_none_left]

theorem sim_while_ns_none (hE : ∀ b s, E b s = execB act cond E (Hf b) s) (b k : Stmt)
    (hb : frag1 b = true) (hk : frag1 k = true)
    (ihb : SimIH act cond prog Hf E Rf Sf b)
    (st : List Frame) (O : List Nat) (s : CSt) (m : Nat) (P' : Nat → Prop)
    (hi : Inv s O) (hsi : SInv s) (hst : s.atStart = false)
    (hF : Fut Hf Rf Sf (compile (.while_ none b k) O s).2 P')
    (hP' : ∀ y, P' y → y < (compile (.while_ none b k) O s).2.next → (y ∈ O ∨ s.next ≤ y) →
      y ∈ (compile (.while_ none b k) O s).1)
    (o : Nat) (ho : o ∈ O) :
    TailSim act cond prog Hf E Rf Sf m o (s.heap o).items (.while_ none b k) st false := by
  rw [compile_while_frag_none b k hb] at hF hP'
  obtain ⟨f1, f2, f3, f4, f5, f6, f7, f8, S, hA4⟩ := while_ns_facts b hb O s hi hst
  obtain ⟨W, _⟩ := wS4_frag_step none b hb O s hi.hlt hi.start
  rw [f2] at W hF hP'
  rw [f3] at hF hP'
  have hlw := W.hlt hi.hlt
  have hn4 : s.next + 2 ≤ (wS4 b O s).next := by have := S.next_le; omega
  have X := (HeapExt.append (wS4 b O s) [s.next] s.next (by simp) (.sub (s.next + 1))).step hlw.1
  have hlx := X.hlt hlw
  have hAx := X.atStart_false hlw.2 hA4
  have hnx : ((wS4 b O s).append s.next (.sub (s.next + 1))).next = (wS4 b O s).next := rfl
  have Tk := frag1_step' k hk [] _ ⟨by simp, hlx.2⟩ (fun h => by rw [hAx] at h; cases h)
  have hnk := Tk.next_le
  have hol : o < s.next := hi.hlt.1 o ho
  have hnP : ∀ y, y < (wS4 b O s).next → (y ∈ O ∨ s.next ≤ y) → ¬ P' y :=
    fun y hy hr hp => by
      have := hP' y hp (by omega) hr
      rcases (Tk.open_r y this).1 with h | h
      · simp at h
      · omega
  have hHo : Hf o = { s.heap o with front := [s.states.length] } := by
    rw [hF.closed o (by omega) (hnP o (by omega) (Or.inl ho)), Tk.frame o (by omega) (by simp),
      X.frame o (by omega) (by simp; omega), S.frame o (by omega) (by simp; omega), f8 o ho]
  have hHh : Hf s.next = { front := [], items := [.sub (s.next + 1)] } := by
    rw [hF.closed s.next (by omega) (hnP s.next (by omega) (Or.inr (Nat.le_refl _))),
      Tk.frame s.next (by omega) (by simp)]
    have h4 : (wS4 b O s).heap s.next = {} := by rw [S.frame s.next (by omega) (by simp), f6]
    simp [CSt.append, h4]
  have FX : Fut Hf Rf Sf _ P' := Fut.back Tk (by simp) (fun y hy => Or.inl hy) hF
  have F4 : Fut Hf Rf Sf (wS4 b O s) (fun y => y = s.next ∨ P' y) :=
    Fut.back X (by simp) (fun y hy => Or.inl (Or.inr hy)) FX
  have hP4 : ∀ y, (y = s.next ∨ P' y) → y < (wS4 b O s).next → wBody O s ≤ y → False := by
    intro y hy hlt hge
    rw [f3] at hge
    rcases hy with hy | hy
    · omega
    · exact hnP y hlt (Or.inr (by omega)) hy
  have hSf := ((S.states_mono.trans X.states_mono).trans Tk.states_mono).trans hF.states
  have hS : Sf[s.states.length]? = some s.next := by
    rw [prefix_getElem? hSf _ (by rw [f5]; simp), f5]; simp
  have hidx : Sf.idxOf s.next = s.states.length := by
    obtain ⟨t, ht⟩ := hSf
    rw [← ht, f5, List.append_assoc]
    exact idxOf_append_new _ _ _ (fun h => by have := hsi.states_lt _ h; omega)
  have hrb : (wS1 O s).root (s.next + 1) = s.next := by
    have := (wS1_body O s).2.2
    rw [f3, f2] at this
    rw [this]
    have hw0 : wS0 O s = (enterState O s).2.2 := by simp [wS0, hst]
    rw [hw0]; exact (enter_nostart_facts hi hst).2.2.2.2.1
  have hcb : cur Rf Sf (wBody O s) = wIdx O s := by
    rw [f3, f1, cur, hF.root (s.next + 1) (by omega), Tk.root_stable _ (by omega), X.root_stable _ (by omega),
      S.root_stable _ (by omega), hrb, hidx]
  have hhead := head_state_sim act cond prog Hf E Rf Sf none b k st (wIdx O s) s.next (wBody O s) (wBody O s)
    (by rw [f1]; exact hS)
    (fun s0 => by rw [E_single_sub act cond Hf E hE s.next (s.next + 1) (Or.inl hHh), f3]; simp [evalC])
    (E_tailF act cond Hf E hE _) (E_tailF act cond Hf E hE _) hcb hcb (m - 1)
    (fun j _ hH => while_body_sim act cond prog Hf E Rf Sf none b k hb ihb st O s hi hsi _ F4 hP4 j hH)
    (fun j _ ⟨s0, h0⟩ => by simp [evalC] at h0)
  intro suf hsuf s0
  rw [hHo] at hsuf
  have : suf = [] := by simpa using hsuf.symm
  subst this
  by_cases hm : m = 0
  · exact Or.inl hm
  right
  refine ⟨1, .atHead none b k st, ?_, ?_⟩
  · rw [run_while_susp]; simp [tailF, execI]
  · simp only [tailF, execI, hHo, lastT, por, Option.getD_some]
    have := hhead (m - 1) (Nat.le_refl _)
    rwa [f1] at this

end
end CohdlVerif.C01
