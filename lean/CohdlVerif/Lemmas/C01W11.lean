import CohdlVerif.Lemmas.C01W10

/-! C01 - general grammar: `While` entered after the start -/
namespace CohdlVerif.C01

theorem wS1_ns (O : List Nat) (s : CSt) (hi : Inv s O) (hst : s.atStart = false) :
    wIdx O s = s.states.length ∧ wHb O s = s.next ∧ wBody O s = s.next + 1 ∧
    (wS1 O s).next = s.next + 2 ∧ (wS1 O s).states = s.states ++ [s.next] ∧
    (wS1 O s).heap s.next = {} ∧ (wS1 O s).root s.next = s.next ∧ (wS1 O s).root (s.next + 1) = s.next ∧
    (∀ o ∈ O, (wS1 O s).heap o = { s.heap o with front := [s.states.length] }) := by
  obtain ⟨e1, e2, e3, e4, e5, e6, e7, e8⟩ := enter_nostart_facts hi hst
  have hw0 : wS0 O s = (enterState O s).2.2 := by simp [wS0, hst]
  have hbody : wBody O s = s.next + 1 := by rw [wBody, hw0, e3]
  have hne : s.next ≠ (enterState O s).2.2.next := by omega
  refine ⟨e1, e2, hbody, ?_, ?_, ?_, ?_, ?_, ?_⟩
  · simp [wS1, CSt.newBlock, hw0, e3]
  · simp [wS1, CSt.newBlock, hw0, e6]
  · simp [wS1, CSt.newBlock, hw0, hne, e4]
  · simp [wS1, CSt.newBlock, hw0, hne, e5]
  · simp [wS1, CSt.newBlock, hw0, e3, wHb, e2, e5]
  · intro o ho
    have hne' : o ≠ (enterState O s).2.2.next := by have := hi.hlt.1 o ho; omega
    simp [wS1, CSt.newBlock, hw0, hne', e7 o ho]

section
variable {σ : Type} (act : Nat → σ → σ) (cond : Nat → σ → Bool)
variable (prog : Stmt) (Hf : Nat → Blk) (E : Nat → σ → σ × Option Nat) (Rf : Nat → Nat) (Sf : List Nat)

theorem simG_while_ns (hE : ∀ b s, E b s = execB act cond E (Hf b) s) (cc : Option Nat) (b k : Stmt) (l c : Bool)
    (hb : CSpec (compile b) true c) (hk : CSpec (compile k) l c) (fb : FwdG (compile b) true)
    (bk : BadMono (compile k))
    (ihb : SimG act cond prog Hf E Rf Sf b true) (ihk : SimG act cond prog Hf E Rf Sf k l)
    (st : List Frame) (O : List Nat) (s : CSt) (m : Nat) (R0 : List Nat) (P' : Nat → Prop)
    (hi : Inv s O) (hsi : SInv s) (hst : s.atStart = false)
    (hbad : (compile (.while_ cc b k) O s).2.bad = false)
    (hF : Fut Hf Rf Sf (compile (.while_ cc b k) O s).2 P')
    (hP' : ∀ y, P' y → y < (compile (.while_ cc b k) O s).2.next → (y ∈ O ∨ s.next ≤ y) →
      y ∈ Outs s (compile (.while_ cc b k) O s).1 (compile (.while_ cc b k) O s).2)
    (hp : Prems act cond prog Hf E Rf Sf m R0 st s (compile (.while_ cc b k) O s))
    (o : Nat) (ho : o ∈ O) :
    TailSim2 act cond prog Hf E Rf Sf (lvl Rf R0 m o) o (s.heap o).items (.while_ cc b k) st false := by
  rw [compile_while] at hbad hF hP' hp
  obtain ⟨f1, f2, f3, f4, f5, f6, f7, f7', f8⟩ := wS1_ns O s hi hst
  obtain ⟨X, Hhb, hclO, hBody, CKk, hroot1, hS1, hex⟩ := while_sem act cond prog Hf E Rf Sf hE cc b k l c hb hk fb bk
    ihb ihk st O s m R0 P' hi hsi hbad hF hP' hp (Or.inr (by rw [f2]; exact Nat.le_refl _))
  have hol : o < s.next := hi.hlt.1 o ho
  have hHo : Hf o = { s.heap o with front := [s.states.length] } := by
    rw [hclO o ho (by rw [f2]; omega), f8 o ho]
  have hS : Sf[wIdx O s]? = some (wHb O s) := by
    rw [f1, f2, prefix_getElem? hS1 _ (by rw [f5]; simp), f5]; simp
  have hidx : Sf.idxOf s.next = s.states.length := by
    obtain ⟨t, ht⟩ := hS1
    rw [← ht, f5, List.append_assoc]
    exact idxOf_append_new _ _ _ (fun h => by have := hsi.states_lt _ h; omega)
  have hRb : Rf (wBody O s) = s.next := by rw [f3, hroot1 _ (by omega), f7']
  have hRh : Rf (wHb O s) = s.next := by rw [f2, hroot1 _ (by omega), f7]
  have hcb : cur Rf Sf (wBody O s) = wIdx O s := by rw [cur, hRb, hidx, f1]
  have hpre : ((wS1 O s).heap (wHb O s)).items = [] := by rw [f2, f6]
  rw [hpre] at Hhb
  have hEh := E_head act cond Hf E hE cc b O s [] (Or.inl rfl) Hhb
  -- levels
  have hlvl : ∀ j, j ≤ lvl Rf R0 m o - 1 → ∀ R1 x, lvl Rf R1 j x ≤ lvl Rf R0 m x :=
    fun j hj R1 x => lvl_new_le Rf R0 R1 m o j hj x
  have hhead := head_state_sim2 act cond prog Hf E Rf Sf cc b k st (wIdx O s) (wHb O s) (wBody O s) (wEx cc b O s)
    hS hEh (E_tailF act cond Hf E hE _) (E_tailF act cond Hf E hE _) hcb (lvl Rf R0 m o - 1)
    (fun j hj hH => hBody j (hlvl j hj _) hH)
    (by
      intro j hj ⟨s0, h0⟩
      cases cc with
      | none => simp [evalC] at h0
      | some c' =>
        obtain ⟨_, hx0⟩ := hex c' rfl
        have h1 := CKk (wCl (some c') b O s).2.next (by simp [wOk])
        rw [hx0] at h1
        refine TailSim2_mono_le act cond prog Hf E Rf Sf _ _ _ ?_ _ _ _ _ h1
        have := lvl_le Rf R0 m o
        have := lvl_ge Rf R0 m (wCl (some c') b O s).2.next
        show j ≤ lvl Rf R0 m (wEx (some c') b O s)
        simp only [wEx]; omega)
  intro suf hsuf s0
  rw [hHo] at hsuf
  have : suf = [] := by simpa using hsuf.symm
  subst this
  by_cases hm : lvl Rf R0 m o = 0
  · exact Or.inl hm
  right
  refine ⟨1, .atHead cc b k st, ?_, ?_, fun _ => by simp [tailF, execI, hHo, lastT, por]⟩
  · rw [run_while_susp]; simp [tailF, execI]
  · simp only [tailF, execI, hHo, lastT, por, Option.getD_some]
    have := hhead (lvl Rf R0 m o - 1) (Nat.le_refl _)
    rwa [f1] at this

end
end CohdlVerif.C01
