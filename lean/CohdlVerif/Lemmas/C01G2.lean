import CohdlVerif.Lemmas.C01G1

/-! C01 - general grammar: the forward invariant `FPost`, simple statements -/
namespace CohdlVerif.C01

/-- forward specification of a translation function -/
def FwdG (f : List Nat → CSt → List Nat × CSt) (l : Bool) : Prop :=
  ∀ O s, Inv s O → (l = true → s.atStart = false) → FPost s (f O s).1 (f O s).2

theorem dX_same {s s1 : CSt} (h : SameLists s s1) : dB s s1 = [] ∧ dC s s1 = [] ∧ dR s s1 = [] := by
  simp [dB, dC, dR, h.1, h.2.1, h.2.2]

theorem FPost.of_same {s s1 : CSt} {O1 : List Nat} (h : SameLists s s1) (hn : O1.Nodup)
    (hf : ∀ o ∈ O1, (s1.heap o).front = []) : FPost s O1 s1 := by
  obtain ⟨a, b, c⟩ := dX_same h
  simp only [FPost, Outs, a, b, c, List.append_nil]
  exact ⟨hn, hf⟩

theorem CSpec.step {f : List Nat → CSt → List Nat × CSt} {l c : Bool} (h : CSpec f l c) {O : List Nat} {s : CSt}
    (hi : Inv s O) (hL : l = true → s.atStart = false) : Step s O (f O s).2 (f O s).1 :=
  (h O s hi.hlt hi.start hL).1

theorem fwd_skip (l : Bool) : FwdG (compile .skip) l :=
  fun O s hi _ => FPost.of_same (SameLists.refl s) hi.nodup hi.front

theorem fwd_act (a : Nat) (k : Stmt) (l c : Bool) (hk : CSpec (compile k) l c) (fk : FwdG (compile k) l) :
    FwdG (compile (.act a k)) l := by
  intro O s hi hL
  have hx := HeapExt.appendAll O (.act a) O s (fun _ h => h)
  have h1 := hx.step hi.hlt.1
  have hi1 := hi.appendAll (.act a)
  have hL1 : l = true → (s.appendAll O (.act a)).atStart = false := fun h => h1.atStart_false hi.hlt.2 (hL h)
  exact FPost.comp hi.hlt.1 h1 (hk.step hi1 hL1) (FPost.of_same hx.sameLists hi.nodup hi1.front) (fk O _ hi1 hL1)

theorem fwd_brk : FwdG (compile .brk) true := by
  intro O s hi _
  simp only [compile, FPost, Outs, dB, dC, dR, List.drop_left, List.drop_length, List.append_nil, List.nil_append]
  exact ⟨hi.nodup, hi.front⟩

theorem fwd_cont : FwdG (compile .cont) true := by
  intro O s hi _
  simp only [compile, FPost, Outs, dB, dC, dR, List.drop_left, List.drop_length, List.append_nil, List.nil_append]
  exact ⟨hi.nodup, hi.front⟩

theorem fwd_ret (l : Bool) : FwdG (compile .ret) l := by
  intro O s hi _
  simp only [compile, FPost, Outs, dB, dC, dR, List.drop_left, List.drop_length, List.append_nil, List.nil_append]
  exact ⟨hi.nodup, hi.front⟩

theorem fwd_awaitF (l : Bool) : FwdG (compile .awaitF) l := by
  intro O s _ _
  simp only [compile]
  split
  · exact FPost.of_same (SameLists.refl s) (by simp) (by simp)
  · exact FPost.of_same (enterState_sameLists O s) (by simp) (by simp)


theorem fwd_await (cc : Option Nat) (k : Stmt) (l c : Bool) (hk : CSpec (compile k) l c) (fk : FwdG (compile k) l) :
    FwdG (compile (.await cc k)) l := by
  intro O s hi hL
  by_cases hO : O = []
  · subst hO
    have e : compile (.await cc k) [] s = compile k [] s := by
      cases cc <;> simp [compile_await_none, compile_await_some]
    rw [e]; exact fk [] s hi hL
  · have hO' : O.isEmpty = false := by simpa using hO
    have T0 := enterState_step O s hi.hlt (fun h => by simp [hi.start h])
    have hi0 := hi.enter hO
    have hL0 : l = true → (enterState O s).2.2.atStart = false := fun h => T0.atStart_false hi.hlt.2 (hL h)
    have T0' : Step s O (enterState O s).2.2 [(enterState O s).2.1] :=
      T0.weaken (fun _ h => h) (fun o ho => T0.open_r o (by simp at ho; simp [ho]))
    cases cc with
    | none =>
      rw [compile_await_none]; simp only [hO', Bool.false_eq_true, if_false]
      exact FPost.comp hi.hlt.1 T0' (hk.step hi0 hL0)
        (FPost.of_same (enterState_sameLists O s) hi0.nodup hi0.front) (fk _ _ hi0 hL0)
    | some c' =>
      rw [compile_await_some]; simp only [hO', Bool.false_eq_true, if_false]
      have hnb := hi0.hlt.1 _ (List.mem_singleton.mpr rfl)
      have T1 := itePre_step c' _ _ hnb
      have hl1 := T1.hlt ⟨by simpa using hnb, hi0.hlt.2⟩
      have hA1 := itePre_atStart c' _ _ hnb hi0.hlt.2 (fun h' => by simpa using hi0.start h')
      have hi1 : Inv (itePre c' (enterState O s).2.1 (enterState O s).2.2) [(enterState O s).2.2.next] :=
        Inv.single (hl1.1 _ (by simp)) hl1.2 hA1 (itePre_child_front c' _ _)
      have T1' : Step (enterState O s).2.2 [(enterState O s).2.1] (itePre c' (enterState O s).2.1 (enterState O s).2.2)
          [(enterState O s).2.2.next] :=
        T1.weaken (fun _ h => h) (fun o ho => T1.open_r o (by simp at ho; simp [ho]))
      have T01 := T0'.trans hi.hlt.1 T1'
      exact FPost.comp hi.hlt.1 T01 (hk.step hi1 (fun _ => hA1))
        (FPost.of_same ((enterState_sameLists O s).trans (itePre_sameLists _ _ _)) hi1.nodup hi1.front)
        (fk _ _ hi1 (fun _ => hA1))

end CohdlVerif.C01
