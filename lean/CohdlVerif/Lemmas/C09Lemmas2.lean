import CohdlVerif.Lemmas.C09Lemmas

/-! C09 - helper lemmas, part 2: range of floor / truncating remainders and quotients, products, shifts,
    resize; comparison symmetry. -/
namespace CohdlVerif.C09

theorem inRange_sgn_iff (w : Nat) (i : Int) :
    inRange .sgn w i = true ↔ -((2 ^ (w - 1) : Nat) : Int) ≤ i ∧ i < ((2 ^ (w - 1) : Nat) : Int) := by
  simp only [inRange, Bool.and_eq_true, decide_eq_true_eq]

theorem inRange_uns_iff (w : Nat) (i : Int) :
    inRange .uns w i = true ↔ 0 ≤ i ∧ i < ((2 ^ w : Nat) : Int) := by
  simp only [inRange, Bool.and_eq_true, decide_eq_true_eq]

/-- Python `%` (floor remainder) by a representable non-zero divisor is representable at the divisor's width -/
theorem inRange_fmod (w : Nat) (a b : Int) (hb : inRange .sgn w b = true) (hb0 : b ≠ 0) :
    inRange .sgn w (a.fmod b) = true := by
  rw [inRange_sgn_iff] at hb ⊢
  generalize ((2 ^ (w - 1) : Nat) : Int) = P at *
  have h1 := Int.emod_nonneg a hb0
  have h2 := Int.emod_lt a hb0
  rw [Int.fmod_eq_emod]
  split
  · rename_i h
    rcases h with h | h
    · omega
    · have := Int.emod_eq_zero_of_dvd h; omega
  · omega

/-- truncating remainder by a representable non-zero divisor is representable at the divisor's width -/
theorem inRange_tmod (w : Nat) (a b : Int) (hb : inRange .sgn w b = true) (hb0 : b ≠ 0) :
    inRange .sgn w (a.tmod b) = true := by
  rw [inRange_sgn_iff] at hb ⊢
  generalize ((2 ^ (w - 1) : Nat) : Int) = P at *
  have h1 := Int.natAbs_tmod a b
  have h2 : a.natAbs % b.natAbs < b.natAbs := Nat.mod_lt _ (by omega)
  omega

/-- arithmetic shift right = floor division by 2^r keeps the value representable -/
theorem inRange_fdiv_pos (w : Nat) (i d : Int) (hi : inRange .sgn w i = true) (hd : 0 < d) :
    inRange .sgn w (i.fdiv d) = true := by
  rw [inRange_sgn_iff] at hi ⊢
  generalize ((2 ^ (w - 1) : Nat) : Int) = P at *
  rw [Int.fdiv_eq_ediv_of_nonneg _ (by omega)]
  have h1 := Int.ediv_mul_le i (by omega : d ≠ 0)
  have h2 := Int.lt_ediv_add_one_mul_self i hd
  constructor
  · by_contra hc
    have : i / d + 1 ≤ -P := by omega
    nlinarith
  · by_contra hc
    have : P ≤ i / d := by omega
    nlinarith

theorem two_pow_pred (w : Nat) (hw : 1 ≤ w) : 2 ^ w = 2 * 2 ^ (w - 1) := by
  obtain ⟨k, rfl⟩ : ∃ k, w = k + 1 := ⟨w - 1, by omega⟩
  simp [Nat.pow_succ, Nat.mul_comm]

/-- a product of representable values fits the sum of the widths -/
theorem inRange_mul (wa wb : Nat) (x y : Int) (hwa : 1 ≤ wa) (hwb : 1 ≤ wb)
    (hx : inRange .sgn wa x = true) (hy : inRange .sgn wb y = true) : inRange .sgn (wa + wb) (x * y) = true := by
  rw [inRange_sgn_iff] at hx hy ⊢
  have hp : 2 ^ (wa + wb - 1) = 2 * (2 ^ (wa - 1) * 2 ^ (wb - 1)) := by
    obtain ⟨a, rfl⟩ : ∃ a, wa = a + 1 := ⟨wa - 1, by omega⟩
    obtain ⟨b, rfl⟩ : ∃ b, wb = b + 1 := ⟨wb - 1, by omega⟩
    simp only [Nat.add_sub_cancel]
    rw [show a + 1 + (b + 1) - 1 = (a + b) + 1 by omega, Nat.pow_succ, Nat.pow_add]; ring
  rw [hp]
  generalize 2 ^ (wa - 1) = P at *
  generalize 2 ^ (wb - 1) = Q at *
  push_cast
  constructor <;> nlinarith [hx.1, hx.2, hy.1, hy.2]

/-- value * 2^z fits every width that holds w + z bits (resize with zeros=) -/
theorem inRange_mul_pow (w z t : Nat) (i : Int) (hw : 1 ≤ w) (ht : w + z ≤ t) (hi : inRange .sgn w i = true) :
    inRange .sgn t (i * ((2 ^ z : Nat) : Int)) = true := by
  have h1 : inRange .sgn (w + z) (i * ((2 ^ z : Nat) : Int)) = true := by
    rw [inRange_sgn_iff] at hi ⊢
    have hp : 2 ^ (w + z - 1) = 2 ^ (w - 1) * 2 ^ z := by
      rw [← Nat.pow_add]; congr 1; omega
    rw [hp]
    have hz := Nat.two_pow_pos z
    generalize 2 ^ (w - 1) = P at *
    generalize 2 ^ z = Z at *
    push_cast
    have hZ : (0 : Int) < Z := by exact_mod_cast hz
    constructor <;> nlinarith [hi.1, hi.2]
  exact inRange_mono _ _ _ ht h1

theorem toInt_eq_zero (w n : Nat) (hw : 1 ≤ w) (h : n < 2 ^ w) : toInt w n = 0 ↔ n = 0 := by
  have hp := two_pow_pred w hw
  have hP := Nat.two_pow_pos (w - 1)
  unfold toInt
  rw [hp] at h ⊢
  generalize 2 ^ (w - 1) = P at *
  split <;> omega

theorem cmpInt_swap (op : BinOp) (a b : Int) : cmpInt (swapCmp op) a b = cmpInt op b a := by
  cases op <;> simp only [cmpInt, swapCmp] <;> first | rfl | (simp only [beq_iff_eq, bne_iff_ne, ne_eq, decide_eq_decide, Bool.beq_comm]; try omega) | skip
  all_goals first | exact Bool.beq_comm .. | (simp [bne, Bool.beq_comm]) | (apply decide_eq_decide.mpr; omega)

end CohdlVerif.C09
