import CohdlVerif.Lemmas.C01S1

/-! C01 - general grammar: simple statements -/
namespace CohdlVerif.C01

theorem dX_congr {s s1 : CSt} (h : SameLists s s1) (s' : CSt) :
    dB s1 s' = dB s s' ∧ dC s1 s' = dC s s' ∧ dR s1 s' = dR s s' := by
  simp [dB, dC, dR, h.1, h.2.1, h.2.2]

theorem Outs_congr {s s1 : CSt} (h : SameLists s s1) (O' : List Nat) (s' : CSt) : Outs s1 O' s' = Outs s O' s' := by
  obtain ⟨a, b, c⟩ := dX_congr h s'
  simp [Outs, a, b, c]

section
variable {σ : Type} (act : Nat → σ → σ) (cond : Nat → σ → Bool)
variable (prog : Stmt) (Hf : Nat → Blk) (E : Nat → σ → σ × Option Nat) (Rf : Nat → Nat) (Sf : List Nat)

theorem Prems.congr {m : Nat} {R0 : List Nat} {st : List Frame} {s s1 : CSt} {r : List Nat × CSt}
    (h : SameLists s s1) (p : Prems act cond prog Hf E Rf Sf m R0 st s r) : Prems act cond prog Hf E Rf Sf m R0 st s1 r := by
  obtain ⟨a, b, c⟩ := dX_congr h r.2
  exact ⟨p.op, by rw [a]; exact p.br, by rw [b]; exact p.co, by rw [c]; exact p.re⟩

theorem simG_skip (l : Bool) : SimG act cond prog Hf E Rf Sf .skip l := by
  intro st O s m R0 P' _ _ _ _ _ _ hp o ho
  exact hp.op o ho

theorem simG_brk (l : Bool) : SimG act cond prog Hf E Rf Sf .brk l := by
  intro st O s m R0 P' _ _ _ _ _ _ hp o ho
  have := hp.br o (by simp [compile, dB, ho])
  exact this

theorem simG_cont (l : Bool) : SimG act cond prog Hf E Rf Sf .cont l := by
  intro st O s m R0 P' _ _ _ _ _ _ hp o ho
  have := hp.co o (by simp [compile, dC, ho])
  exact this

theorem simG_ret (l : Bool) : SimG act cond prog Hf E Rf Sf .ret l := by
  intro st O s m R0 P' _ _ _ _ _ _ hp o ho
  have := hp.re o (by simp [compile, dR, ho])
  exact this

theorem simG_act (a : Nat) (k : Stmt) (l c : Bool) (hk : CSpec (compile k) l c)
    (ih : SimG act cond prog Hf E Rf Sf k l) : SimG act cond prog Hf E Rf Sf (.act a k) l := by
  intro st O s m R0 P' hi hsi hL hbad hF hP' hp o ho
  have hO : O ≠ [] := fun h => by subst h; simp at ho
  have hi1 := hi.appendAll (.act a)
  have hx := HeapExt.appendAll O (.act a) O s (fun _ h => h)
  have hA1 := appendAll_atStart hi hO (.act a)
  have Tk := hk.step hi1 (fun _ => hA1)
  have hc : compile (.act a k) O s = compile k O (s.appendAll O (.act a)) := rfl
  rw [hc] at hF hP' hp hbad
  have hk' := ih st O _ m R0 P' hi1 (hsi.step (hx.step hi.hlt.1) hi.hlt.2) (fun _ => hA1) hbad hF
    (fun y hy hlt hr => by
      rw [Outs_congr hx.sameLists]
      exact hP' y hy hlt (by rw [hx.next_eq] at hr; exact hr))
    (hp.congr act cond prog Hf E Rf Sf hx.sameLists) o ho
  intro suf hsuf s0
  have hox : o < (s.appendAll O (.act a)).next := hi1.hlt.1 o ho
  have hpre : ((s.heap o).items ++ [.act a]) <+: (Hf o).items := by
    rw [← appendAll_items_nodup (.act a) o O s hi.nodup ho]
    exact (Tk.items_mono o hox).trans (hF.items o (by have := Tk.next_le; omega))
  obtain ⟨suf', rfl⟩ := tail_split hsuf hpre
  have h1 := hk' suf' (by rw [hsuf, appendAll_items_nodup (.act a) o O s hi.nodup ho]; simp) (act a s0)
  rw [hA1] at h1
  simp only [List.singleton_append, tailF_act]
  exact SimPt2_pull act cond prog E Sf (RunTo.act_ act cond a k st _ s0) (fun _ => rfl) h1

end
end CohdlVerif.C01
