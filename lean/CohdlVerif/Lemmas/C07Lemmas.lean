import CohdlVerif.Model.C07

/-! C07 - helper lemmas: the one-pass usage check (maps `written_in` / `used_in`) is characterised by a
    pairwise condition on the list of write / use events. -/
namespace CohdlVerif.C07

/-- one step of a single-owner map; instance outputs are strict (`if sig_root in written_in: raise`) -/
def ownStep (m : OMap) (e : Nat × Owner) : Option OMap :=
  match m.lookup e.1 with
  | some o => if o = e.2 ∧ e.2.isInst = false then some m else none
  | none => some (e :: m)

def ownFold : OMap → List (Nat × Owner) → Option OMap
  | m, [] => some m
  | m, e :: es =>
    match ownStep m e with
    | none => none
    | some m' => ownFold m' es

/-- the later event `b` does not conflict with the earlier event `a` -/
def NoConf (a b : Nat × Owner) : Prop := a.1 = b.1 → a.2 = b.2 ∧ b.2.isInst = false

def MapOk (m : OMap) (e : Nat × Owner) : Prop := ∀ o, m.lookup e.1 = some o → o = e.2 ∧ e.2.isInst = false

theorem ownFold_isSome (es : List (Nat × Owner)) : ∀ m : OMap,
    (ownFold m es).isSome = true ↔ (∀ e ∈ es, MapOk m e) ∧ es.Pairwise NoConf := by
  induction es with
  | nil => intro m; simp [ownFold]
  | cons e es ih =>
    intro m
    simp only [ownFold, ownStep]
    cases h : m.lookup e.1 with
    | none =>
      simp only [ih, List.pairwise_cons, List.mem_cons, forall_eq_or_imp]
      constructor
      · rintro ⟨h1, h2⟩
        refine ⟨⟨?_, ?_⟩, ?_, h2⟩
        · intro o ho; rw [h] at ho; cases ho
        · intro e' he' o ho
          have := h1 e' he'
          unfold MapOk at this
          by_cases hk : e'.1 = e.1
          · rw [hk, h] at ho; cases ho
          · apply this o
            rw [List.lookup_cons]
            have : (e'.1 == e.1) = false := by simpa using hk
            simp [this, ho]
        · intro e' he' hk
          have := h1 e' he' e.2
          apply this
          rw [List.lookup_cons]
          simp [hk]
      · rintro ⟨⟨_, h1⟩, h3, h2⟩
        refine ⟨?_, h2⟩
        intro e' he' o ho
        rw [List.lookup_cons] at ho
        by_cases hk : e'.1 = e.1
        · simp [hk] at ho
          subst ho
          exact h3 e' he' hk.symm
        · have : (e'.1 == e.1) = false := by simpa using hk
          simp [this] at ho
          exact h1 e' he' o ho
    | some o =>
      by_cases hc : o = e.2 ∧ e.2.isInst = false
      · simp only [hc, and_self, if_true, ih, List.pairwise_cons, List.mem_cons, forall_eq_or_imp]
        constructor
        · rintro ⟨h1, h2⟩
          refine ⟨⟨?_, h1⟩, ?_, h2⟩
          · intro o' ho'; rw [h] at ho'; cases ho'; exact hc
          · intro e' he' hk
            have := h1 e' he' o (by rw [← hk]; exact h)
            exact ⟨hc.1.symm.trans this.1, this.2⟩
        · rintro ⟨⟨_, h1⟩, _, h2⟩
          exact ⟨h1, h2⟩
      · simp only [hc, if_false, Option.isSome_none, Bool.false_eq_true, false_iff]
        rintro ⟨h1, _⟩
        exact hc (h1 e (List.mem_cons_self) o h)

theorem ownFold_append (a b : List (Nat × Owner)) : ∀ m, ownFold m (a ++ b) = (ownFold m a).bind (fun m' => ownFold m' b) := by
  induction a with
  | nil => intro m; simp [ownFold]
  | cons e es ih =>
    intro m
    simp only [List.cons_append, ownFold]
    cases ownStep m e with
    | none => simp
    | some m' => simp [ih]

theorem own_eq_ownStep (m : OMap) (r : Nat) (cur : Owner) (h : cur.isInst = false) :
    own m r cur = ownStep m (r, cur) := by
  unfold own ownStep
  cases m.lookup r with
  | none => rfl
  | some o => simp [h]

/-! ### events of the context pass -/

def wEv (evs : List (Owner × Access)) : List (Nat × Owner) :=
  evs.filterMap (fun e => if e.2.write then some (e.2.root, e.1) else none)

def uEv (kinds : List Kind) (evs : List (Owner × Access)) : List (Nat × Owner) :=
  evs.filterMap (fun e => if (kindOf kinds e.2.root).isVarLike then some (e.2.root, e.1) else none)

def inputBad (kinds : List Kind) (evs : List (Owner × Access)) : Bool :=
  evs.any (fun e => e.2.write && kindOf kinds e.2.root == .portIn)

theorem checkEvents_some (kinds : List Kind) (evs : List (Owner × Access)) :
    ∀ st st' : St, (∀ e ∈ evs, e.1.isInst = false) →
    (checkEvents kinds st evs = some st' ↔
      inputBad kinds evs = false ∧ ownFold st.written (wEv evs) = some st'.written
        ∧ ownFold st.used (uEv kinds evs) = some st'.used) := by
  induction evs with
  | nil =>
    intro st st' _
    simp only [checkEvents, inputBad, wEv, uEv, List.any_nil, List.filterMap_nil, ownFold, Option.some.injEq, true_and]
    constructor
    · intro h; subst h; exact ⟨rfl, rfl⟩
    · rintro ⟨h1, h2⟩; cases st; cases st'; simp_all
  | cons e es ih =>
    intro st st' hinst
    obtain ⟨o, a⟩ := e
    have ho : o.isInst = false := hinst (o, a) List.mem_cons_self
    have hrest : ∀ e ∈ es, e.1.isInst = false := fun e he => hinst e (List.mem_cons_of_mem _ he)
    simp only [checkEvents, checkAccess, inputBad, List.any_cons, wEv, uEv, List.filterMap_cons]
    by_cases hbad : (a.write && kindOf kinds a.root == .portIn) = true
    · simp [hbad]
    · have hbad' : (a.write && kindOf kinds a.root == .portIn) = false := by simpa using hbad
      simp only [hbad', Bool.false_eq_true, if_false, Bool.false_or]
      by_cases hw : a.write = true <;> by_cases hv : (kindOf kinds a.root).isVarLike = true
      all_goals simp only [hw, hv, if_true, if_false, Bool.false_eq_true, ownFold, own_eq_ownStep _ _ _ ho]
      · cases h1 : ownStep st.written (a.root, o) <;> cases h2 : ownStep st.used (a.root, o) <;>
          simp [ih _ st' hrest, inputBad, wEv, uEv]
      · cases h1 : ownStep st.written (a.root, o) <;>
          simp [ih _ st' hrest, inputBad, wEv, uEv]
      · cases h2 : ownStep st.used (a.root, o) <;>
          simp [ih _ st' hrest, inputBad, wEv, uEv]
      · simp [ih _ st' hrest, inputBad, wEv, uEv]

def instInputBad (kinds : List Kind) (outs : List (Owner × Nat)) : Bool :=
  outs.any (fun e => kindOf kinds e.2 == .portIn)

theorem checkInstOuts_eq (fixed : Bool) (kinds : List Kind) (outs : List (Owner × Nat)) :
    ∀ w : OMap, (∀ e ∈ outs, e.1.isInst = true) →
    checkInstOuts fixed kinds w outs =
      if (fixed && instInputBad kinds outs) = true then none else ownFold w (outs.map (fun e => (e.2, e.1))) := by
  induction outs with
  | nil => intro w _; simp [checkInstOuts, instInputBad, ownFold]
  | cons e es ih =>
    intro w hinst
    obtain ⟨o, r⟩ := e
    have ho : o.isInst = true := hinst (o, r) List.mem_cons_self
    have hrest : ∀ e ∈ es, e.1.isInst = true := fun e he => hinst e (List.mem_cons_of_mem _ he)
    simp only [checkInstOuts, instInputBad, List.any_cons, List.map_cons, ownFold, ownStep]
    by_cases hb : (fixed && kindOf kinds r == .portIn) = true
    · have : (fixed && (kindOf kinds r == .portIn || es.any fun e => kindOf kinds e.2 == .portIn)) = true := by
        simp only [Bool.and_eq_true, Bool.or_eq_true] at hb ⊢
        exact ⟨hb.1, Or.inl hb.2⟩
      simp [hb, this]
    · have hb' : (fixed && kindOf kinds r == .portIn) = false := by simpa using hb
      simp only [hb', Bool.false_eq_true, if_false]
      cases hl : w.lookup r with
      | some o' =>
        simp only [ho, Bool.true_eq_false, and_false, if_false]
        split <;> rfl
      | none =>
        rw [ih _ hrest]
        cases fixed
        · simp
        · have hr : (kindOf kinds r == Kind.portIn) = false := by simpa using hb'
          simp only [instInputBad, Bool.true_and, hr, Bool.false_or]

/-! ### owners of the generated events -/

theorem ctxsEvents_owner (fixed : Bool) (cs : List Ctx) : ∀ i, ∀ e ∈ ctxsEvents fixed i cs, e.1.isInst = false := by
  induction cs with
  | nil => intro i e he; simp [ctxsEvents] at he
  | cons c cs ih =>
    intro i e he
    simp only [ctxsEvents, ctxEvents, List.mem_append, List.mem_map] at he
    rcases he with (⟨a, _, rfl⟩ | ⟨a, _, rfl⟩) | he
    · cases fixed <;> rfl
    · rfl
    · exact ih _ e he

theorem instOuts_owner (bs : List Inst) : ∀ j, ∀ e ∈ instOuts j bs, e.1.isInst = true := by
  induction bs with
  | nil => intro j e he; simp [instOuts] at he
  | cons b bs ih =>
    intro j e he
    simp only [instOuts, List.mem_append, List.mem_map] at he
    rcases he with ⟨r, _, rfl⟩ | he
    · rfl
    · exact ih _ e he

end CohdlVerif.C07

namespace CohdlVerif.C07

/-! ### the emitted units -/

def Owner.idx : Owner → Nat
  | .ctx i => i
  | .always i => i
  | .inst j => j

theorem countP_le_one {α : Type} (p : α → Bool) (l : List α)
    (h : l.Pairwise (fun a b => ¬(p a = true ∧ p b = true))) : l.countP p ≤ 1 := by
  induction h with
  | nil => simp
  | @cons a l hx _ ih =>
    rw [List.countP_cons]
    by_cases ha : p a = true
    · have : l.countP p = 0 := by
        rw [List.countP_eq_zero]
        intro b hb hpb
        exact hx b hb ⟨ha, hpb⟩
      simp [ha, this]
    · simp [ha]; exact ih

theorem emitCtxs_idx (cs : List Ctx) : ∀ i, ∀ u ∈ emitCtxs i cs, u.owner.isInst = false ∧ i ≤ u.owner.idx := by
  induction cs with
  | nil => intro i u hu; simp [emitCtxs] at hu
  | cons c cs ih =>
    intro i u hu
    simp only [emitCtxs, emitCtx, List.mem_append] at hu
    rcases hu with (hu | hu) | hu
    · split at hu
      · simp at hu
      · simp at hu; subst hu; exact ⟨rfl, Nat.le_refl _⟩
    · simp at hu; subst hu; exact ⟨rfl, Nat.le_refl _⟩
    · have := ih (i + 1) u hu
      exact ⟨this.1, by omega⟩

theorem emitInsts_idx (bs : List Inst) : ∀ j, ∀ u ∈ emitInsts j bs, u.owner.isInst = true ∧ j ≤ u.owner.idx := by
  induction bs with
  | nil => intro j u hu; simp [emitInsts] at hu
  | cons b bs ih =>
    intro j u hu
    simp only [emitInsts, List.mem_cons] at hu
    rcases hu with hu | hu
    · subst hu; exact ⟨rfl, Nat.le_refl _⟩
    · have := ih (j + 1) u hu
      exact ⟨this.1, by omega⟩

theorem emitCtxs_pairwise (cs : List Ctx) : ∀ i, (emitCtxs i cs).Pairwise (fun u v => u.owner ≠ v.owner) := by
  induction cs with
  | nil => intro i; simp [emitCtxs]
  | cons c cs ih =>
    intro i
    simp only [emitCtxs]
    rw [List.pairwise_append]
    refine ⟨?_, ih (i + 1), ?_⟩
    · simp only [emitCtx]
      split
      · simp
      · simp
    · intro u hu v hv heq
      have hv' := (emitCtxs_idx cs (i + 1) v hv).2
      have : u.owner.idx = i := by
        simp only [emitCtx, List.mem_append] at hu
        rcases hu with hu | hu
        · split at hu
          · simp at hu
          · simp at hu; subst hu; rfl
        · simp at hu; subst hu; rfl
      rw [heq] at this
      omega

theorem emitInsts_pairwise (bs : List Inst) : ∀ j, (emitInsts j bs).Pairwise (fun u v => u.owner ≠ v.owner) := by
  induction bs with
  | nil => intro j; simp [emitInsts]
  | cons b bs ih =>
    intro j
    simp only [emitInsts, List.pairwise_cons]
    refine ⟨?_, ih (j + 1)⟩
    intro v hv heq
    have hv' := (emitInsts_idx bs (j + 1) v hv).2
    rw [← heq] at hv'
    simp only [Owner.idx] at hv'
    omega

theorem emit_pairwise (d : Design) : (emit d).Pairwise (fun u v => u.owner ≠ v.owner) := by
  unfold emit
  rw [List.pairwise_append]
  refine ⟨emitCtxs_pairwise _ _, emitInsts_pairwise _ _, ?_⟩
  intro u hu v hv heq
  have h1 := (emitCtxs_idx _ _ u hu).1
  have h2 := (emitInsts_idx _ _ v hv).1
  rw [heq, h2] at h1
  cases h1

theorem mem_writesOf {l : List Access} {r : Nat} : r ∈ writesOf l ↔ ∃ a ∈ l, a.write = true ∧ a.root = r := by
  simp [writesOf, and_assoc]

theorem emitCtxs_target (cs : List Ctx) : ∀ i, ∀ u ∈ emitCtxs i cs, ∀ r ∈ u.targets,
    (r, u.owner) ∈ wEv (ctxsEvents true i cs) := by
  induction cs with
  | nil => intro i u hu; simp [emitCtxs] at hu
  | cons c cs ih =>
    intro i u hu r hr
    simp only [emitCtxs, emitCtx, List.mem_append] at hu
    simp only [ctxsEvents, ctxEvents, wEv, List.filterMap_append, List.mem_append, List.mem_filterMap, List.mem_map]
    rcases hu with (hu | hu) | hu
    · split at hu
      · simp at hu
      · simp at hu; subst hu
        obtain ⟨a, ha, hw, hroot⟩ := mem_writesOf.1 hr
        exact Or.inl (Or.inl ⟨(Owner.always i, a), ⟨a, ha, rfl⟩, by simp [hw, hroot]⟩)
    · simp at hu; subst hu
      obtain ⟨a, ha, hw, hroot⟩ := mem_writesOf.1 hr
      exact Or.inl (Or.inr ⟨(Owner.ctx i, a), ⟨a, ha, rfl⟩, by simp [hw, hroot]⟩)
    · have := ih (i + 1) u hu r hr
      simp only [wEv, List.mem_filterMap] at this
      exact Or.inr this

theorem emitInsts_target (bs : List Inst) : ∀ j, ∀ u ∈ emitInsts j bs, ∀ r ∈ u.targets,
    (u.owner, r) ∈ instOuts j bs := by
  induction bs with
  | nil => intro j u hu; simp [emitInsts] at hu
  | cons b bs ih =>
    intro j u hu r hr
    simp only [emitInsts, List.mem_cons] at hu
    simp only [instOuts, List.mem_append, List.mem_map]
    rcases hu with hu | hu
    · subst hu; exact Or.inl ⟨r, hr, rfl⟩
    · exact Or.inr (ih (j + 1) u hu r hr)

end CohdlVerif.C07

namespace CohdlVerif.C07

theorem pairwise_same_owner {l : List (Nat × Owner)} (h : l.Pairwise (fun a b => a.1 = b.1 → a.2 = b.2)) :
    ∀ a ∈ l, ∀ b ∈ l, a.1 = b.1 → a.2 = b.2 := by
  induction h with
  | nil => intro a ha; simp at ha
  | @cons x l hx _ ih =>
    intro a ha b hb hk
    simp only [List.mem_cons] at ha hb
    rcases ha with rfl | ha <;> rcases hb with rfl | hb
    · rfl
    · exact hx b hb hk
    · exact (hx a ha hk.symm).symm
    · exact ih a ha b hb hk

theorem emitCtxs_ref (cs : List Ctx) : ∀ i, ∀ u ∈ emitCtxs i cs, ∀ r ∈ u.refs,
    ∃ a, (u.owner, a) ∈ ctxsEvents true i cs ∧ a.root = r := by
  induction cs with
  | nil => intro i u hu; simp [emitCtxs] at hu
  | cons c cs ih =>
    intro i u hu r hr
    simp only [emitCtxs, emitCtx, List.mem_append] at hu
    simp only [ctxsEvents, ctxEvents, List.mem_append, List.mem_map]
    rcases hu with (hu | hu) | hu
    · split at hu
      · simp at hu
      · simp at hu; subst hu
        simp only [List.mem_map] at hr
        obtain ⟨a, ha, hroot⟩ := hr
        exact ⟨a, Or.inl (Or.inl ⟨a, ha, rfl⟩), hroot⟩
    · simp at hu; subst hu
      simp only [List.mem_map] at hr
      obtain ⟨a, ha, hroot⟩ := hr
      exact ⟨a, Or.inl (Or.inr ⟨a, ha, rfl⟩), hroot⟩
    · obtain ⟨a, ha, hroot⟩ := ih (i + 1) u hu r hr
      exact ⟨a, Or.inr ha, hroot⟩

/-- shape of the units of the contexts: the always block or the body of some context -/
theorem emitCtxs_cases (cs : List Ctx) : ∀ i, ∀ u ∈ emitCtxs i cs, ∃ c ∈ cs, ∃ k,
    (u.owner = .always k ∧ u.refs = c.alwaysAccs.map (fun a => a.root)) ∨
    (u.owner = .ctx k ∧ u.refs = c.bodyAccs.map (fun a => a.root)) := by
  induction cs with
  | nil => intro i u hu; simp [emitCtxs] at hu
  | cons c cs ih =>
    intro i u hu
    simp only [emitCtxs, emitCtx, List.mem_append] at hu
    rcases hu with (hu | hu) | hu
    · split at hu
      · simp at hu
      · simp at hu; subst hu
        exact ⟨c, List.mem_cons_self, i, Or.inl ⟨rfl, rfl⟩⟩
    · simp at hu; subst hu
      exact ⟨c, List.mem_cons_self, i, Or.inr ⟨rfl, rfl⟩⟩
    · obtain ⟨c', hc', k, h⟩ := ih (i + 1) u hu
      exact ⟨c', List.mem_cons_of_mem _ hc', k, h⟩

theorem emitInsts_cases (bs : List Inst) : ∀ j, ∀ u ∈ emitInsts j bs, ∃ b ∈ bs, u.refs = b.ins ++ b.outs := by
  induction bs with
  | nil => intro j u hu; simp [emitInsts] at hu
  | cons b bs ih =>
    intro j u hu
    simp only [emitInsts, List.mem_cons] at hu
    rcases hu with hu | hu
    · subst hu; exact ⟨b, List.mem_cons_self, rfl⟩
    · obtain ⟨b', hb', h⟩ := ih (j + 1) u hu
      exact ⟨b', List.mem_cons_of_mem _ hb', h⟩

end CohdlVerif.C07
