import CohdlVerif.Lemmas.C18More
/-!
  C18 helper lemmas, part 5: repeat (binary decomposition of `times`), stretch, leftpad / rightpad / pad.
-/
namespace CohdlVerif.C18

/-- c copies of val -/
def rep (val : Bits) (c : Nat) : Bits := (List.replicate c val).flatten

theorem rep_add (val : Bits) (a b : Nat) : rep val a ++ rep val b = rep val (a + b) := by
  simp only [rep]; rw [← List.flatten_append, List.replicate_append_replicate]

theorem cat_rep (val : Bits) (a b : Nat) : cat (rep val a) (rep val b) = rep val (b + a) := by
  simp [cat, rep_add]

/-- value of the selected bits nr, nr+1, .. nr+n-1 of `t` -/
def binSum (t : Nat) : Nat → Nat → Nat
  | _, 0 => 0
  | nr, n + 1 => (t / 2 ^ nr) % 2 + 2 * binSum t (nr + 1) n

theorem binSum_eq (t : Nat) : ∀ (n nr : Nat), binSum t nr n = (t / 2 ^ nr) % 2 ^ n := by
  intro n
  induction n with
  | zero => intro nr; simp [binSum, Nat.mod_one]
  | succ n ih =>
    intro nr
    simp only [binSum, ih]
    have h1 : t / 2 ^ (nr + 1) = t / 2 ^ nr / 2 := by rw [Nat.pow_succ, Nat.div_div_eq_div_mul]
    rw [h1]
    generalize t / 2 ^ nr = x
    rw [Nat.pow_succ, Nat.mul_comm (2 ^ n) 2, Nat.mod_mul]

theorem filter_pow2 (val : Bits) (t : Nat) : ∀ (n c nr : Nat),
    concatSpec (filterByFactor t nr (pow2List (rep val c) n)) = rep val (c * binSum t nr n) := by
  intro n
  induction n with
  | zero => intro c nr; simp [pow2List, filterByFactor, concatSpec, binSum, rep]
  | succ n ih =>
    intro c nr
    simp only [pow2List, filterByFactor, cat_rep]
    have hrec := ih (c + c) (nr + 1)
    have hmod : (t / 2 ^ nr) % 2 = 0 ∨ (t / 2 ^ nr) % 2 = 1 := by omega
    rcases hmod with h | h
    · simp only [h, show ¬ (0 = 1) by omega, if_false, hrec, binSum]
      congr 1
      rw [Nat.zero_add, ← Nat.mul_assoc, Nat.mul_two]
    · simp only [h, if_true, binSum]
      simp only [concatSpec, List.reverse_cons, List.flatten_append, List.flatten_cons, List.flatten_nil,
        List.append_nil] at hrec ⊢
      rw [hrec, rep_add]
      congr 1
      rw [Nat.mul_add, Nat.mul_one, ← Nat.mul_assoc, Nat.mul_two]; omega

theorem filter_ne_nil (t : Nat) : ∀ (l : List Bits) (nr : Nat), binSum t nr l.length ≠ 0 → filterByFactor t nr l ≠ [] := by
  intro l
  induction l with
  | nil => intro nr h; simp [binSum] at h
  | cons s rest ih =>
    intro nr h
    simp only [filterByFactor]
    split
    · simp
    · rename_i hb
      apply ih (nr + 1)
      simp only [List.length_cons, binSum] at h
      have : (t / 2 ^ nr) % 2 = 0 := by omega
      omega

theorem pow2List_length (v : Bits) : ∀ n, (pow2List v n).length = n := by
  intro n
  induction n generalizing v with
  | zero => rfl
  | succ n ih => simp [pow2List, ih]

theorem repeatM_eq (val : Bits) (times : Nat) (ht : 1 ≤ times) : repeatM val times = some (repeatSpec val times) := by
  unfold repeatM repeatSpec
  have hv : val = rep val 1 := by simp [rep]
  have hlt : times < 2 ^ (max 1 (bitLen times)) :=
    Nat.lt_of_lt_of_le (lt_two_pow_bitLen times) (Nat.pow_le_pow_right (by omega) (by omega))
  have hsum : binSum times 0 (max 1 (bitLen times)) = times := by
    rw [binSum_eq]; simp [Nat.mod_eq_of_lt hlt]
  rw [concatM_eq]
  · conv => lhs; rw [hv]
    rw [filter_pow2, hsum, Nat.one_mul]; rfl
  · apply filter_ne_nil
    rw [pow2List_length, hsum]; omega

theorem stretchBit_eq (b : Bool) (f : Nat) (hf : 1 ≤ f) : stretchBit b f = some (List.replicate f b) := by
  unfold stretchBit
  simp only [show f ≠ 0 by omega, if_false, repeatM_eq [b] f hf, repeatSpec, Option.some.injEq]
  clear hf
  induction f with
  | zero => rfl
  | succ n ih => simp [List.replicate_succ, ih]

theorem mapM_id_some (l : List α) : (l.map some).mapM id = some l := by
  induction l with
  | nil => rfl
  | cons a r ih => simp [List.mapM_cons, ih]

theorem stretchM_eq (bits : Bits) (f : Nat) (hf : 1 ≤ f) (hb : bits ≠ []) :
    stretchM bits f = some (stretchSpec bits f) := by
  unfold stretchM stretchSpec
  simp only [show f ≠ 0 by omega, if_false]
  by_cases h1 : f = 1
  · subst h1
    simp only [if_true, Option.some.injEq]
    induction bits with
    | nil => rfl
    | cons a r ih =>
      cases r with
      | nil => rfl
      | cons b r' => simp [List.flatMap_cons] at ih ⊢; exact ih
  · simp only [h1, if_false]
    have : (bits.map fun b => stretchBit b f) = (bits.map fun b => List.replicate f b).map some := by
      simp only [List.map_map]; apply List.map_congr_left; intro b _; simp [stretchBit_eq b f hf]
    rw [this, mapM_id_some]
    simp only []
    rw [concatM_eq _ (by simpa using hb)]
    simp [concatSpec, List.flatMap]

theorem leftpadM_eq (inp : Bits) (rw' : Nat) (fill : Bool) (h : inp.length ≤ rw') :
    leftpadM inp rw' fill = some (padSpec inp (rw' - inp.length) 0 fill) := by
  unfold leftpadM padSpec
  simp only [show ¬ rw' < inp.length by omega, if_false]
  by_cases he : inp.length = rw'
  · simp [he]
  · simp [he, stretchBit_eq fill (rw' - inp.length) (by omega), cat]

theorem rightpadM_eq (inp : Bits) (rw' : Nat) (fill : Bool) (h : inp.length ≤ rw') :
    rightpadM inp rw' fill = some (padSpec inp 0 (rw' - inp.length) fill) := by
  unfold rightpadM padSpec
  simp only [show ¬ rw' < inp.length by omega, if_false]
  by_cases he : inp.length = rw'
  · simp [he]
  · simp [he, stretchBit_eq fill (rw' - inp.length) (by omega), cat]

theorem padM_eq (inp : Bits) (l r : Nat) (fill : Bool) : padM inp l r fill = some (padSpec inp l r fill) := by
  unfold padM padSpec
  by_cases hl : l = 0 <;> by_cases hr : r = 0
  · simp [hl, hr]
  · simp [hl, hr, stretchBit_eq fill r (by omega), cat]
  · simp [hl, hr, stretchBit_eq fill l (by omega), cat]
  · simp [hl, hr, stretchBit_eq fill l (by omega), stretchBit_eq fill r (by omega), cat]

end CohdlVerif.C18
