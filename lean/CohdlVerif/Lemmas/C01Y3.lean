import CohdlVerif.Lemmas.C01Y2

/-! C01 - whole grammar: `break` / `continue` do not depend on the freshness flag -/
namespace CohdlVerif.C01

section
variable {σ : Type} (act : Nat → σ → σ) (cond : Nat → σ → Bool)
variable (prog : Stmt) (Hf : Nat → Blk) (E : Nat → σ → σ × Option Nat) (Rf : Nat → Nat) (Sf : List Nat)

theorem run_brk_fr : ∀ (f : Nat) (st : List Frame) (fr fr' : Bool) (s : σ),
    run act cond f .brk st fr s = run act cond f .brk st fr' s := by
  intro f
  induction f with
  | zero => intro st fr fr' s; rfl
  | succ f ih =>
    intro st fr fr' s
    cases st with
    | nil => rfl
    | cons fr0 st =>
      cases fr0 with
      | seq k => simp only [run]; exact ih _ _ _ _
      | loop c b k => simp only [run]
      | callF k => simp only [run]; exact ih _ _ _ _

theorem run_cont_fr : ∀ (f : Nat) (st : List Frame) (fr fr' : Bool) (s : σ),
    run act cond f .cont st fr s = run act cond f .cont st fr' s := by
  intro f
  induction f with
  | zero => intro st fr fr' s; rfl
  | succ f ih =>
    intro st fr fr' s
    cases st with
    | nil => rfl
    | cons fr0 st =>
      cases fr0 with
      | seq k => simp only [run]; exact ih _ _ _ _
      | loop c b k => simp only [run]
      | callF k => simp only [run]; exact ih _ _ _ _

theorem RunTo.brk_call (k : Stmt) (st : List Frame) (fr fr' : Bool) (s : σ) :
    RunTo act cond .brk (.callF k :: st) fr s .brk st fr' s :=
  fun f y h => ⟨f+1, by simp only [run]; rw [run_brk_fr act cond f st fr fr']; exact h⟩

theorem RunTo.cont_call (k : Stmt) (st : List Frame) (fr fr' : Bool) (s : σ) :
    RunTo act cond .cont (.callF k :: st) fr s .cont st fr' s :=
  fun f y h => ⟨f+1, by simp only [run]; rw [run_cont_fr act cond f st fr fr']; exact h⟩

theorem simG_call (b k : Stmt) (l c : Bool) (hb : CSpec (compile b) false true) (hk : CSpec (compile k) l c)
    (fb : FwdG (compile b) false)
    (ihb : SimG act cond prog Hf E Rf Sf b false) (ihk : SimG act cond prog Hf E Rf Sf k l) :
    SimG act cond prog Hf E Rf Sf (.call b k) l := by
  intro st O s m R0 P' hi hsi hL hbad hF hP' hp o ho
  have hO : O ≠ [] := fun h => by subst h; simp at ho
  rw [compile_callG b k O s hO] at hbad hF hP' hp
  have C := cctx b hb fb O s hi
  have hL2 : l = true → (cOut b O s).atStart = false := fun h => C.BW.atStart_false hi.hlt.2 (hL h)
  have hsi2 := hsi.step C.BW hi.hlt.2
  have Tk := hk.step C.hi2 hL2
  obtain ⟨tB, tC, tR⟩ := dX_trans' C.BW Tk
  rw [C.dBo] at tB
  rw [C.dCo] at tC
  rw [C.dRo, List.nil_append] at tR
  obtain ⟨_, _, _, xB, xC, _⟩ := C.FB.lists
  have hnr : ∀ y, (y ∈ dB (cIn s) (compile b O (cIn s)).2 ∨ y ∈ dC (cIn s) (compile b O (cIn s)).2) →
      y < (cOut b O s).next ∧ y ∉ cRes b O s := by
    intro y hy
    constructor
    · have : InR (cIn s) O (compile b O (cIn s)).2 y := by
        rcases hy with h | h
        · exact C.B.dB_spec.2 y h
        · exact C.B.dC_spec.2 y h
      exact InR.lt C.hiIn.hlt.1 C.B.next_le this
    · intro hm
      simp only [cRes, List.mem_append] at hm
      rcases hy with h | h
      · rcases hm with h' | h'
        · exact (xB y h).1 h'
        · exact (xB y h).2.2 (C.dRb ▸ h')
      · rcases hm with h' | h'
        · exact (xC y h).1 h'
        · exact (xC y h).2.2 (C.dRb ▸ h')
  have CKk := ihk st (cRes b O s) (cOut b O s) m R0 P' C.hi2 hsi2 hL2 hbad hF
    (by
      intro y hy hlt hr
      have h1 := hP' y hy hlt (by
        rcases hr with h | h
        · exact (C.BW.open_r y h).1.imp id (fun h => h.1)
        · right; have := C.BW.next_le; omega)
      rw [mem_Outs, tB, tC, tR] at h1
      simp only [List.mem_append] at h1
      rw [mem_Outs]
      have hx : ∀ {P : Prop}, (y ∈ dB (cIn s) (compile b O (cIn s)).2 ∨ y ∈ dC (cIn s) (compile b O (cIn s)).2) → P := by
        intro P h
        have := hnr y h
        rcases hr with h' | h'
        · exact absurd h' this.2
        · omega
      rcases h1 with h | (h | h) | (h | h) | h
      · exact Or.inl h
      · exact hx (Or.inl h)
      · exact Or.inr (Or.inl h)
      · exact hx (Or.inr h)
      · exact Or.inr (Or.inr (Or.inl h))
      · exact Or.inr (Or.inr (Or.inr h)))
    ⟨hp.op, fun o' ho' => hp.br o' (by rw [tB]; simp [ho']), fun o' ho' => hp.co o' (by rw [tC]; simp [ho']),
      fun o' ho' => hp.re o' (by rw [tR]; exact ho')⟩
  -- the body
  have hbadb : (compile b O (cIn s)).2.bad = false := by
    have : (cOut b O s).bad = false := compile_badMono k _ _ hbad
    exact this
  have F2 : Fut Hf Rf Sf (cOut b O s) (fun y => y ∈ cRes b O s ∨ P' y) :=
    Fut.back Tk (fun o ho => Or.inl ho) (fun y hy => Or.inl (Or.inr hy)) hF
  have FB2 : Fut Hf Rf Sf (compile b O (cIn s)).2 (fun y => y ∈ cRes b O s ∨ P' y) :=
    ⟨F2.items, F2.closed, F2.root, F2.states⟩
  have hAr : (cOut b O s).atStart = false → (compile k (cRes b O s) (cOut b O s)).2.atStart = false :=
    fun h => Tk.atStart_false C.hi2.hlt.2 h
  have hsiIn : SInv (cIn s) := ⟨hsi.states_lt, hsi.root0, hsi.states0⟩
  have hbody := ihb (.callF k :: st) O (cIn s) m R0 _ C.hiIn hsiIn (fun h => by cases h) hbadb FB2
    (by
      intro y hy hlt hr
      rw [mem_Outs, C.dRb]
      rcases hy with hy | hy
      · simp only [cRes, List.mem_append] at hy
        rcases hy with h | h
        · exact Or.inl h
        · exact Or.inr (Or.inr (Or.inr h))
      · have h1 := hP' y hy (by have := Tk.next_le; have : (cOut b O s).next = (compile b O (cIn s)).2.next := rfl; omega) hr
        rw [mem_Outs, tB, tC, tR] at h1
        simp only [List.mem_append] at h1
        have hlt' : y < (cOut b O s).next := hlt
        have hin : ∀ {P : Prop}, InR (cOut b O s) (cRes b O s) (compile k (cRes b O s) (cOut b O s)).2 y →
            (y ∈ cRes b O s → P) → P := by
          intro P h hc
          rcases h.1 with h | h
          · exact hc h
          · omega
        have hres : y ∈ cRes b O s → y ∈ (compile b O (cIn s)).1 ∨ y ∈ dB (cIn s) (compile b O (cIn s)).2 ∨
            y ∈ dC (cIn s) (compile b O (cIn s)).2 ∨ y ∈ (compile b O (cIn s)).2.ret := by
          intro h
          simp only [cRes, List.mem_append] at h
          rcases h with h | h
          · exact Or.inl h
          · exact Or.inr (Or.inr (Or.inr h))
        rcases h1 with h | (h | h) | (h | h) | h
        · exact hin (Tk.open_r y h) hres
        · exact Or.inr (Or.inl h)
        · exact hin (Tk.dB_spec.2 y h) hres
        · exact Or.inr (Or.inr (Or.inl h))
        · exact hin (Tk.dC_spec.2 y h) hres
        · exact hin (Tk.dR_spec.2 y h) hres)
    ⟨?_, ?_, ?_, ?_⟩ o ho
  · intro suf hsuf s0
    exact SimPt2_pull act cond prog E Sf (RunTo.call_ act cond b k st _ s0) (fun h => h) (hbody suf hsuf s0)
  · intro o' ho'
    have h1 := CKk o' (by simp [cRes, ho'])
    exact h1.pull act cond prog Hf E Rf Sf (fun s0 => RunTo.skip_call act cond k st _ s0) (fun h => h)
  · intro o' ho'
    have hr := hnr o' (Or.inl ho')
    have h1 := hp.br o' (by rw [tB]; simp [ho'])
    rw [Tk.frame o' hr.1 hr.2] at h1
    exact h1.pull act cond prog Hf E Rf Sf (fun s0 => RunTo.brk_call act cond k st _ _ s0) (fun h => hAr h)
  · intro o' ho'
    have hr := hnr o' (Or.inr ho')
    have h1 := hp.co o' (by rw [tC]; simp [ho'])
    rw [Tk.frame o' hr.1 hr.2] at h1
    exact h1.pull act cond prog Hf E Rf Sf (fun s0 => RunTo.cont_call act cond k st _ _ s0) (fun h => hAr h)
  · intro o' ho'
    have h1 := CKk o' (by simp only [cRes, List.mem_append]; right; exact C.dRb ▸ ho')
    exact h1.pull act cond prog Hf E Rf Sf (fun s0 => RunTo.ret_call act cond k st _ s0) (fun h => h)

end
end CohdlVerif.C01
