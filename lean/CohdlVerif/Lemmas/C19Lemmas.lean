import CohdlVerif.Model.C19
import Mathlib.Tactic.Ring
import Mathlib.Tactic.Linarith

/-! C19 helper lemmas: powers of two, two's complement round trip, exactness of + and * on the mirror -/

namespace CohdlVerif.C19

theorem p2_pos (k : Int) : 0 < p2 k := by unfold p2; positivity

theorem p2_add (a b : Int) (ha : 0 ≤ a) (hb : 0 ≤ b) : p2 (a + b) = p2 a * p2 b := by
  unfold p2; rw [Int.toNat_add ha hb, pow_add]

theorem p2_succ (a : Int) (ha : 0 ≤ a) : p2 (a + 1) = 2 * p2 a := by
  rw [p2_add a 1 ha (by omega)]; simp [p2]; ring

theorem p2_zero : p2 0 = 1 := by simp [p2]

theorem p2_pred (w : Int) (hw : 1 ≤ w) : p2 w = 2 * p2 (w - 1) := by
  have := p2_succ (w - 1) (by omega); simpa using this

theorem p2_le (a b : Int) (ha : 0 ≤ a) (hab : a ≤ b) : p2 a ≤ p2 b := by
  have h := p2_add a (b - a) ha (by omega)
  have e : a + (b - a) = b := by omega
  rw [e] at h; rw [h]
  have := p2_pos (b - a); have := p2_pos a
  nlinarith

/-- `v % P` for `-P ≤ v < P` -/
theorem emod_cases (v P : Int) (_hP : 0 < P) (h1 : -P ≤ v) (h2 : v < P) :
    v % P = if 0 ≤ v then v else v + P := by
  split
  · exact Int.emod_eq_of_lt (by omega) h2
  · have : (v + P) % P = v + P := Int.emod_eq_of_lt (by omega) (by omega)
    rw [← this]; simp

theorem sInt_mk (w v : Int) (hw : 1 ≤ w) (h1 : -(p2 (w - 1)) ≤ v) (h2 : v < p2 (w - 1)) :
    BV.sInt ⟨w, v % p2 w⟩ = v := by
  have hp := p2_pred w hw
  have hpos := p2_pos (w - 1)
  unfold BV.sInt
  simp only
  rw [emod_cases v (p2 w) (by omega) (by omega) (by omega)]
  by_cases hv : 0 ≤ v
  · simp only [hv, ↓reduceIte]; rw [if_pos h2]
  · simp only [hv, ↓reduceIte]; rw [if_neg (by omega)]; omega

theorem mkS_ok (w v : Int) (hw : 1 ≤ w) (h1 : -(p2 (w - 1)) ≤ v) (h2 : v < p2 (w - 1)) :
    mkS w v = .ok ⟨w, v % p2 w⟩ := by
  unfold mkS; simp [h1, h2]; omega

theorem mkU_ok (w v : Int) (hw : 1 ≤ w) (h1 : 0 ≤ v) (h2 : v < p2 w) :
    mkU w v = .ok ⟨w, v⟩ := by
  unfold mkU; simp [h1, h2]; omega


theorem mul_rangeS (w1 w2 v1 v2 : Int) (hw1 : 1 ≤ w1) (hw2 : 1 ≤ w2)
    (h1 : inRangeS w1 v1) (h2 : inRangeS w2 v2) :
    -(p2 (w1 + w2 - 1)) ≤ v1 * v2 ∧ v1 * v2 < p2 (w1 + w2 - 1) := by
  obtain ⟨a1, a2⟩ := h1
  obtain ⟨b1, b2⟩ := h2
  have e : w1 + w2 - 1 = (w1 - 1) + (w2 - 1) + 1 := by omega
  rw [e, p2_succ _ (by omega), p2_add _ _ (by omega) (by omega)]
  have hA := p2_pos (w1 - 1)
  have hB := p2_pos (w2 - 1)
  constructor <;> nlinarith [mul_nonneg (sub_nonneg.mpr (le_of_lt a2)) (sub_nonneg.mpr (le_of_lt b2)),
    mul_nonneg (show (0:Int) ≤ p2 (w1 - 1) + v1 by linarith) (show (0:Int) ≤ p2 (w2 - 1) + v2 by linarith),
    mul_nonneg (sub_nonneg.mpr (le_of_lt a2)) (show (0:Int) ≤ p2 (w2 - 1) + v2 by linarith),
    mul_nonneg (show (0:Int) ≤ p2 (w1 - 1) + v1 by linarith) (sub_nonneg.mpr (le_of_lt b2)),
    mul_pos hA hB]

theorem mul_exactS (l1 r1 v1 l2 r2 v2 : Int) (h1 : r1 ≤ l1) (h2 : r2 ≤ l2)
    (hv1 : inRangeS (l1 - r1 + 1) v1) (hv2 : inRangeS (l2 - r2 + 1) v2) :
    arithS .mul l1 r1 v1 l2 r2 v2 = .ok ⟨l1 + l2 + 1, r1 + r2, v1 * v2⟩ := by
  have hm := mul_rangeS _ _ v1 v2 (by omega) (by omega) hv1 hv2
  unfold arithS
  rw [mkS_ok _ v1 (by omega) hv1.1 hv1.2, mkS_ok _ v2 (by omega) hv2.1 hv2.2]
  simp only [bind, Except.bind, pure, Except.pure]
  rw [sInt_mk _ v1 (by omega) hv1.1 hv1.2, sInt_mk _ v2 (by omega) hv2.1 hv2.2]
  rw [mkS_ok _ (v1 * v2) (by omega) hm.1 hm.2]
  simp only [resultRaw]
  rw [if_pos (by omega)]
  simp only []
  rw [sInt_mk _ (v1 * v2) (by omega) hm.1 hm.2]


theorem scaleS (w z v : Int) (hw : 1 ≤ w) (hz : 0 ≤ z) (h : inRangeS w v) : inRangeS (w + z) (v * p2 z) := by
  obtain ⟨a1, a2⟩ := h
  have e : w + z - 1 = (w - 1) + z := by omega
  unfold inRangeS
  rw [e, p2_add _ _ (by omega) hz]
  have hz' := p2_pos z
  constructor <;> nlinarith

theorem inRangeS_mono (w w' v : Int) (hw : 1 ≤ w) (hww : w ≤ w') (h : inRangeS w v) : inRangeS w' v := by
  have := p2_le (w - 1) (w' - 1) (by omega) (by omega)
  unfold inRangeS at *; omega

theorem scaleU (w z v : Int) (hw : 0 ≤ w) (hz : 0 ≤ z) (h : inRangeU w v) : inRangeU (w + z) (v * p2 z) := by
  obtain ⟨a1, a2⟩ := h
  unfold inRangeU
  rw [p2_add _ _ hw hz]
  have hz' := p2_pos z
  constructor <;> nlinarith

theorem inRangeU_mono (w w' v : Int) (hw : 0 ≤ w) (hww : w ≤ w') (h : inRangeU w v) : inRangeU w' v := by
  have := p2_le w w' hw hww
  unfold inRangeU at *; omega

theorem sResize_ok (w v tw z : Int) (hw : 1 ≤ w) (hz : 0 ≤ z) (hwz : w + z ≤ tw) (h : inRangeS w v) :
    sResize ⟨w, v % p2 w⟩ tw z = .ok ⟨tw, (v * p2 z) % p2 tw⟩ := by
  have hr := inRangeS_mono _ tw _ (by omega) hwz (scaleS w z v hw hz h)
  unfold sResize
  simp only [sInt_mk w v hw h.1 h.2]
  rw [if_neg (by omega), if_neg (by omega)]
  exact mkS_ok tw _ (by omega) hr.1 hr.2

theorem uResize_ok (w v tw z : Int) (hw : 1 ≤ w) (hz : 0 ≤ z) (hwz : w + z ≤ tw) (h : inRangeU w v) :
    uResize ⟨w, v⟩ tw z = .ok ⟨tw, v * p2 z⟩ := by
  have hr := inRangeU_mono _ tw _ (by omega) hwz (scaleU w z v (by omega) hz h)
  unfold uResize
  simp only
  rw [if_neg (by omega), if_neg (by omega)]
  exact mkU_ok tw _ (by omega) hr.1 hr.2

theorem add_exactS (l1 r1 v1 l2 r2 v2 : Int) (h1 : r1 ≤ l1) (h2 : r2 ≤ l2)
    (hv1 : inRangeS (l1 - r1 + 1) v1) (hv2 : inRangeS (l2 - r2 + 1) v2) :
    arithS .add l1 r1 v1 l2 r2 v2 =
      .ok ⟨max l1 l2 + 1, min r1 r2, v1 * p2 (r1 - min r1 r2) + v2 * p2 (r2 - min r1 r2)⟩ := by
  have hx := inRangeS_mono _ (max l1 l2 + 1 - min r1 r2) _ (by omega) (by omega)
    (scaleS _ (r1 - min r1 r2) v1 (by omega) (by omega) hv1)
  have hy := inRangeS_mono _ (max l1 l2 + 1 - min r1 r2) _ (by omega) (by omega)
    (scaleS _ (r2 - min r1 r2) v2 (by omega) (by omega) hv2)
  have hp := p2_pred (max l1 l2 + 1 - min r1 r2 + 1 - 1) (by omega)
  have hs : inRangeS (max l1 l2 + 1 - min r1 r2 + 1)
      (v1 * p2 (r1 - min r1 r2) + v2 * p2 (r2 - min r1 r2)) := by
    unfold inRangeS at *
    have e : max l1 l2 + 1 - min r1 r2 + 1 - 1 - 1 = max l1 l2 + 1 - min r1 r2 - 1 := by omega
    rw [e] at hp
    omega
  unfold arithS
  rw [mkS_ok _ v1 (by omega) hv1.1 hv1.2, mkS_ok _ v2 (by omega) hv2.1 hv2.2]
  simp only [bind, Except.bind, pure, Except.pure]
  rw [sResize_ok _ v1 _ _ (by omega) (by omega) (by omega) hv1, sResize_ok _ v2 _ _ (by omega) (by omega) (by omega) hv2]
  simp only [if_true, sAdd, max_self, resultRaw]
  rw [sInt_mk _ _ (by omega) (inRangeS_mono _ _ _ (by omega) (by omega) hx).1 (inRangeS_mono _ _ _ (by omega) (by omega) hx).2,
      sInt_mk _ _ (by omega) (inRangeS_mono _ _ _ (by omega) (by omega) hy).1 (inRangeS_mono _ _ _ (by omega) (by omega) hy).2]
  rw [sInt_mk _ _ (by omega) hs.1 hs.2]

end CohdlVerif.C19
