import CohdlVerif.Model.C17

/-!
  helper lemmas for C17 (serialisation layout, `std.BitField` ranges)
  * numbers <-> bits round trips (`natBits`/`bitsNat`, `intBits`/`bitsInt`)
  * mirror = spec (`countBits`/`specWidth`, `toBits`/`specBits`, `fromBits`/`specVal`): the offset
    accumulation of `_make_serializable` and the reversed `concat` are the plain concatenation layout
  * the round trips, well-typedness and the field/element-at-offset facts on the SPEC functions
  * `readPath` / `writePath` closed forms
  `STy` / `SVal` are nested inductives: the proofs are mutual structural recursions.
-/
namespace CohdlVerif.C17

theorem length_natBits : ∀ (w n : Nat), (natBits w n).length = w
  | 0, _ => rfl
  | w + 1, n => by simp [natBits, length_natBits w]

theorem bitsNat_lt : ∀ (b : Bits), bitsNat b < 2 ^ b.length
  | [] => by simp [bitsNat]
  | x :: xs => by
    have := bitsNat_lt xs
    simp only [bitsNat, List.length_cons, Nat.pow_succ]
    split <;> omega

theorem bitsNat_natBits : ∀ (w n : Nat), n < 2 ^ w → bitsNat (natBits w n) = n
  | 0, n, h => by simp at h; simp [natBits, bitsNat, h]
  | w + 1, n, h => by
    have ih := bitsNat_natBits w (n / 2) (by rw [Nat.pow_succ] at h; omega)
    simp only [natBits, bitsNat, ih]
    by_cases h2 : n % 2 = 1 <;> simp [h2] <;> omega

theorem natBits_bitsNat : ∀ (b : Bits), natBits b.length (bitsNat b) = b
  | [] => rfl
  | x :: xs => by
    have ih := natBits_bitsNat xs
    simp only [List.length_cons, natBits, bitsNat]
    cases x <;> simp
    · exact ih
    · rw [show (1 + 2 * bitsNat xs) / 2 = bitsNat xs by omega]; exact ih

theorem length_intBits (w : Nat) (i : Int) : (intBits w i).length = w := by
  simp [intBits, length_natBits]

theorem bitsInt_intBits (n : Nat) (v : Int) (h1 : -(2 ^ n : Int) ≤ 2 * v) (h2 : 2 * v < (2 ^ n : Int)) :
    bitsInt (intBits n v) = v := by
  have hp : (0 : Int) < 2 ^ n := Int.pow_pos (by omega)
  unfold bitsInt intBits
  rw [length_natBits]
  split
  · rename_i hneg
    have hlt : (v + 2 ^ n).toNat < 2 ^ n := by
      have : ((v + 2 ^ n).toNat : Int) < ((2 ^ n : Nat) : Int) := by
        rw [Int.toNat_of_nonneg (by omega)]; push_cast; omega
      exact_mod_cast this
    rw [bitsNat_natBits _ _ hlt]
    have hc : ((v + 2 ^ n).toNat : Int) = v + 2 ^ n := Int.toNat_of_nonneg (by omega)
    split
    · rename_i h; exfalso
      have : (2 * (v + 2 ^ n).toNat : Int) < 2 ^ n := by exact_mod_cast h
      omega
    · omega
  · rename_i hnn
    have hlt : v.toNat < 2 ^ n := by
      have : (v.toNat : Int) < ((2 ^ n : Nat) : Int) := by
        rw [Int.toNat_of_nonneg (by omega)]; push_cast; omega
      exact_mod_cast this
    rw [bitsNat_natBits _ _ hlt]
    have hc : (v.toNat : Int) = v := Int.toNat_of_nonneg (by omega)
    split
    · omega
    · rename_i h; exfalso
      apply h
      have : (2 * v.toNat : Int) < ((2 ^ n : Nat) : Int) := by push_cast; omega
      exact_mod_cast this

theorem bitsInt_range (b : Bits) :
    -(2 ^ b.length : Int) ≤ 2 * bitsInt b ∧ 2 * bitsInt b < (2 ^ b.length : Int) := by
  have h := bitsNat_lt b
  have hc : ((bitsNat b : Nat) : Int) < ((2 ^ b.length : Nat) : Int) := by exact_mod_cast h
  push_cast at hc
  unfold bitsInt
  split
  · rename_i h'
    have : (2 * bitsNat b : Int) < ((2 ^ b.length : Nat) : Int) := by exact_mod_cast h'
    push_cast at this
    omega
  · rename_i h'
    have : ¬ (2 * bitsNat b : Int) < ((2 ^ b.length : Nat) : Int) := by
      intro hh; apply h'; exact_mod_cast hh
    push_cast at this
    omega

theorem intBits_bitsInt (b : Bits) : intBits b.length (bitsInt b) = b := by
  have h := bitsNat_lt b
  have hc : ((bitsNat b : Nat) : Int) < ((2 ^ b.length : Nat) : Int) := by exact_mod_cast h
  push_cast at hc
  unfold intBits bitsInt
  split
  · rename_i h'
    have : ¬ ((bitsNat b : Int) < 0) := by omega
    simp only [this, if_false, Int.toNat_natCast]
    exact natBits_bitsNat b
  · rename_i h'
    have : ((bitsNat b : Int) - 2 ^ b.length < 0) := by omega
    simp only [this, if_true]
    have : ((bitsNat b : Int) - 2 ^ b.length + 2 ^ b.length).toNat = bitsNat b := by
      rw [show ((bitsNat b : Int) - 2 ^ b.length + 2 ^ b.length) = (bitsNat b : Int) by omega]
      exact Int.toNat_natCast _
    rw [this]
    exact natBits_bitsNat b

mutual
theorem countBits_eq_specWidth : (T : STy) → countBits T = specWidth T
  | .bit | .bool | .bv _ | .uns _ | .sgn _ | .sfix _ _ | .ufix _ _ => by simp [countBits, specWidth]
  | .arr e n | .sarr e n => by simp [countBits, specWidth, countBits_eq_specWidth e]
  | .enum u | .ser u => by simp [countBits, specWidth, countBits_eq_specWidth u]
  | .rcd fs => by simp [countBits, specWidth, countFields_eq fs 0]
theorem countFields_eq : (fs : List STy) → (off : Nat) → countFields fs off = off + specWidths fs
  | [], off => by simp [countFields, specWidths]
  | t :: ts, off => by
    simp [countFields, specWidths, countFields_eq ts, countBits_eq_specWidth t]; omega
end

theorem concatMsb_reverse (l : List Bits) : concatMsb l.reverse = l.flatten := by
  simp [concatMsb]

mutual
theorem toBits_eq_specBits : (x : SVal) → toBits x = specBits x
  | .bit _ | .bool _ | .bv _ | .uns _ _ | .sgn _ _ | .sfix _ _ | .ufix _ _ | .ser _ => by
    simp [toBits, specBits]
  | .enum v => by simp [toBits, specBits, toBits_eq_specBits v]
  | .arr xs | .sarr xs | .rcd xs => by
    simp [toBits, specBits, concatMsb_reverse, toBitsL_flatten xs]
theorem toBitsL_flatten : (xs : List SVal) → (toBitsL xs).flatten = specBitsL xs
  | [] => by simp [toBitsL, specBitsL]
  | x :: xs => by simp [toBitsL, specBitsL, toBits_eq_specBits x, toBitsL_flatten xs]
end

theorem slice_drop (b : Bits) (k lo w : Nat) : slice (b.drop k) lo w = slice b (k + lo) w := by
  simp [slice, List.drop_drop]

theorem chunksMap_eq_range {α : Type} (f : Bits → α) (w : Nat) :
    ∀ (n : Nat) (b : Bits), chunksMap f w n b = (List.range n).map (fun i => f (slice b (w * i) w))
  | 0, b => by simp [chunksMap]
  | n + 1, b => by
    rw [chunksMap, chunksMap_eq_range f w n, List.range_succ_eq_map]
    simp [slice, Nat.mul_succ, Function.comp_def, Nat.add_comm]

mutual
theorem fromBits_eq_specVal : (T : STy) → (b : Bits) → fromBits T b = specVal T b
  | .bit, b | .bool, b | .bv _, b | .uns _, b | .sgn _, b | .sfix _ _, b | .ufix _ _, b | .ser _, b => by
    simp [fromBits, specVal]
  | .enum u, b => by simp [fromBits, specVal, fromBits_eq_specVal u]
  | .arr e n, b | .sarr e n, b => by
    simp [fromBits, specVal, chunksMap_eq_range, countBits_eq_specWidth, fromBits_eq_specVal e]
  | .rcd fs, b => by
    simp [fromBits, specVal, fromFields_eq fs 0 b]
theorem fromFields_eq : (fs : List STy) → (off : Nat) → (b : Bits) →
    fromFields fs off b = specVals fs (b.drop off)
  | [], _, _ => by simp [fromFields, specVals]
  | t :: ts, off, b => by
    simp [fromFields, specVals, fromFields_eq ts, fromBits_eq_specVal t, countBits_eq_specWidth, slice,
      List.drop_drop]
end


/-! ## spec level: length -/

mutual
theorem length_specBits : (T : STy) → (x : SVal) → wt T x = true → (specBits x).length = specWidth T
  | T, .bit b, h => by
    cases T <;> try (simp [wt] at h; done)
    simp [specBits, specWidth]
  | T, .bool b, h => by
    cases T <;> try (simp [wt] at h; done)
    simp [specBits, specWidth]
  | T, .bv bs, h => by
    cases T <;> try (simp [wt] at h; done)
    simp [wt] at h; simp [specBits, specWidth, h]
  | T, .uns w v, h => by
    cases T <;> try (simp [wt] at h; done)
    simp [wt] at h; simp [specBits, specWidth, length_natBits, h.1]
  | T, .ufix w v, h => by
    cases T <;> try (simp [wt] at h; done)
    simp [wt] at h; simp [specBits, specWidth, length_natBits, h.1]
  | T, .sgn w v, h => by
    cases T <;> try (simp [wt] at h; done)
    simp [wt] at h; simp [specBits, specWidth, length_intBits, h.1.1]
  | T, .sfix w v, h => by
    cases T <;> try (simp [wt] at h; done)
    simp [wt] at h; simp [specBits, specWidth, length_intBits, h.1.1]
  | T, .ser raw, h => by
    cases T <;> try (simp [wt] at h; done)
    simp [wt] at h; simp [specBits, specWidth, h, countBits_eq_specWidth]
  | T, .enum v, h => by
    cases T <;> try (simp [wt] at h; done)
    rename_i u
    simp [wt] at h; simp [specBits, specWidth, length_specBits u v h]
  | T, .arr xs, h => by
    cases T <;> try (simp [wt] at h; done)
    rename_i e n
    simp [wt] at h; simp [specBits, specWidth, length_specBitsL_all e xs h.2, h.1]
  | T, .sarr xs, h => by
    cases T <;> try (simp [wt] at h; done)
    rename_i e n
    simp [wt] at h; simp [specBits, specWidth, length_specBitsL_all e xs h.2, h.1]
  | T, .rcd xs, h => by
    cases T <;> try (simp [wt] at h; done)
    rename_i fs
    simp [wt] at h; simp [specBits, specWidth, length_specBitsL_fields fs xs h]
theorem length_specBitsL_all : (e : STy) → (xs : List SVal) → wtAll e xs = true →
    (specBitsL xs).length = xs.length * specWidth e
  | e, [], _ => by simp [specBitsL]
  | e, x :: xs, h => by
    simp [wtAll] at h
    simp [specBitsL, length_specBits e x h.1, length_specBitsL_all e xs h.2, Nat.succ_mul]; omega
theorem length_specBitsL_fields : (fs : List STy) → (xs : List SVal) → wtFields fs xs = true →
    (specBitsL xs).length = specWidths fs
  | [], [], _ => by simp [specBitsL, specWidths]
  | t :: ts, x :: xs, h => by
    simp [wtFields] at h
    simp [specBitsL, specWidths, length_specBits t x h.1, length_specBitsL_fields ts xs h.2]
  | [], _ :: _, h => by simp [wtFields] at h
  | _ :: _, [], h => by simp [wtFields] at h
end

/-! ## spec level: round trips -/

theorem bits_len_one (b : Bits) (h : b.length = 1) : [b.getD 0 false] = b := by
  match b, h with
  | [x], _ => rfl

mutual
theorem specVal_specBits : (T : STy) → (x : SVal) → wt T x = true → specVal T (specBits x) = x
  | T, .bit b, h => by
    cases T <;> try (simp [wt] at h; done)
    simp [specBits, specVal]
  | T, .bool b, h => by
    cases T <;> try (simp [wt] at h; done)
    simp [specBits, specVal]
  | T, .bv bs, h => by
    cases T <;> try (simp [wt] at h; done)
    simp [specBits, specVal]
  | T, .uns w v, h => by
    cases T <;> try (simp [wt] at h; done)
    simp [wt] at h; obtain ⟨rfl, h⟩ := h
    simp [specBits, specVal, bitsNat_natBits _ _ h]
  | T, .ufix w v, h => by
    cases T <;> try (simp [wt] at h; done)
    simp [wt] at h; obtain ⟨rfl, h⟩ := h
    simp [specBits, specVal, bitsNat_natBits _ _ h]
  | T, .sgn w v, h => by
    cases T <;> try (simp [wt] at h; done)
    simp [wt] at h; obtain ⟨⟨rfl, h1⟩, h2⟩ := h
    simp [specBits, specVal, bitsInt_intBits _ _ h1 h2]
  | T, .sfix w v, h => by
    cases T <;> try (simp [wt] at h; done)
    simp [wt] at h; obtain ⟨⟨rfl, h1⟩, h2⟩ := h
    simp [specBits, specVal, bitsInt_intBits _ _ h1 h2]
  | T, .ser raw, h => by
    cases T <;> try (simp [wt] at h; done)
    simp [specBits, specVal]
  | T, .enum v, h => by
    cases T <;> try (simp [wt] at h; done)
    rename_i u
    simp [wt] at h; simp [specBits, specVal, specVal_specBits u v h]
  | T, .arr xs, h => by
    cases T <;> try (simp [wt] at h; done)
    rename_i e n
    simp [wt] at h; obtain ⟨rfl, h⟩ := h
    simp [specBits, specVal, specVal_specBitsL_all e xs h]
  | T, .sarr xs, h => by
    cases T <;> try (simp [wt] at h; done)
    rename_i e n
    simp [wt] at h; obtain ⟨rfl, h⟩ := h
    simp [specBits, specVal, specVal_specBitsL_all e xs h]
  | T, .rcd xs, h => by
    cases T <;> try (simp [wt] at h; done)
    rename_i fs
    simp [wt] at h; simp [specBits, specVal, specVals_specBitsL fs xs h]
theorem specVal_specBitsL_all : (e : STy) → (xs : List SVal) → wtAll e xs = true →
    chunksMap (specVal e) (specWidth e) xs.length (specBitsL xs) = xs
  | e, [], _ => by simp [chunksMap]
  | e, x :: xs, h => by
    simp [wtAll] at h
    have hl := length_specBits e x h.1
    simp only [List.length_cons, chunksMap, specBitsL]
    rw [List.take_left' hl, List.drop_left' hl, specVal_specBits e x h.1, specVal_specBitsL_all e xs h.2]
theorem specVals_specBitsL : (fs : List STy) → (xs : List SVal) → wtFields fs xs = true →
    specVals fs (specBitsL xs) = xs
  | [], [], _ => by simp [specVals]
  | t :: ts, x :: xs, h => by
    simp [wtFields] at h
    have hl := length_specBits t x h.1
    simp only [specVals, specBitsL]
    rw [List.take_left' hl, List.drop_left' hl, specVal_specBits t x h.1, specVals_specBitsL ts xs h.2]
  | [], _ :: _, h => by simp [wtFields] at h
  | _ :: _, [], h => by simp [wtFields] at h
end

/-- generic: re-encoding the decoded chunks -/
theorem specBitsL_chunksMap (f : Bits → SVal) (w : Nat) (hf : ∀ c : Bits, c.length = w → specBits (f c) = c) :
    ∀ (n : Nat) (b : Bits), b.length = n * w → specBitsL (chunksMap f w n b) = b
  | 0, b, h => by
    have : b = [] := List.eq_nil_of_length_eq_zero (by omega)
    simp [chunksMap, specBitsL, this]
  | n + 1, b, h => by
    have h1 : (b.take w).length = w := by
      rw [List.length_take, h, Nat.succ_mul]; omega
    have h2 : (b.drop w).length = n * w := by
      rw [List.length_drop, h, Nat.succ_mul]; omega
    simp only [chunksMap, specBitsL, hf _ h1, specBitsL_chunksMap f w hf n _ h2, List.take_append_drop]

theorem length_chunksMap {α : Type} (f : Bits → α) (w : Nat) : ∀ (n : Nat) (b : Bits), (chunksMap f w n b).length = n
  | 0, _ => rfl
  | n + 1, b => by simp [chunksMap, length_chunksMap f w n]

theorem wtAll_chunksMap (e : STy) (f : Bits → SVal) (w : Nat) (hf : ∀ c : Bits, c.length = w → wt e (f c) = true) :
    ∀ (n : Nat) (b : Bits), b.length = n * w → wtAll e (chunksMap f w n b) = true
  | 0, b, h => by simp [chunksMap, wtAll]
  | n + 1, b, h => by
    have h1 : (b.take w).length = w := by
      rw [List.length_take, h, Nat.succ_mul]; omega
    have h2 : (b.drop w).length = n * w := by
      rw [List.length_drop, h, Nat.succ_mul]; omega
    simp [chunksMap, wtAll, hf _ h1, wtAll_chunksMap e f w hf n _ h2]

mutual
theorem specBits_specVal : (T : STy) → (b : Bits) → b.length = specWidth T → specBits (specVal T b) = b
  | .bit, b, h | .bool, b, h => by
    simp [specWidth] at h; simp only [specBits, specVal]; exact bits_len_one b h
  | .bv _, b, h | .ser _, b, h => by simp [specBits, specVal]
  | .uns n, b, h | .ufix n _, b, h => by
    simp [specWidth] at h; subst h; simp [specBits, specVal, natBits_bitsNat]
  | .sgn n, b, h | .sfix n _, b, h => by
    simp [specWidth] at h; subst h; simp [specBits, specVal, intBits_bitsInt]
  | .enum u, b, h => by
    simp [specWidth] at h; simp [specBits, specVal, specBits_specVal u b h]
  | .arr e n, b, h | .sarr e n, b, h => by
    simp [specWidth] at h
    simp [specBits, specVal, specBitsL_chunksMap _ _ (fun c hc => specBits_specVal e c hc) n b h]
  | .rcd fs, b, h => by
    simp [specWidth] at h; simp [specBits, specVal, specBitsL_specVals fs b h]
theorem specBitsL_specVals : (fs : List STy) → (b : Bits) → b.length = specWidths fs →
    specBitsL (specVals fs b) = b
  | [], b, h => by
    have : b = [] := List.eq_nil_of_length_eq_zero (by simpa [specWidths] using h)
    simp [specVals, specBitsL, this]
  | t :: ts, b, h => by
    simp only [specWidths] at h
    have h1 : (b.take (specWidth t)).length = specWidth t := by
      rw [List.length_take, h]; omega
    have h2 : (b.drop (specWidth t)).length = specWidths ts := by
      rw [List.length_drop, h]; omega
    simp only [specVals, specBitsL, specBits_specVal t _ h1, specBitsL_specVals ts _ h2, List.take_append_drop]
end

mutual
theorem wt_specVal : (T : STy) → (b : Bits) → b.length = specWidth T → wt T (specVal T b) = true
  | .bit, b, h | .bool, b, h => by simp [specVal, wt]
  | .bv _, b, h => by simp [specWidth] at h; simp [specVal, wt, h]
  | .ser t, b, h => by simp [specWidth] at h; simp [specVal, wt, h, countBits_eq_specWidth]
  | .uns n, b, h | .ufix n _, b, h => by
    simp [specWidth] at h; subst h; simp [specVal, wt, bitsNat_lt]
  | .sgn n, b, h | .sfix n _, b, h => by
    simp [specWidth] at h; subst h
    have := bitsInt_range b
    simp [specVal, wt, this.1, this.2]
  | .enum u, b, h => by
    simp [specWidth] at h; simp [specVal, wt, wt_specVal u b h]
  | .arr e n, b, h | .sarr e n, b, h => by
    simp [specWidth] at h
    simp [specVal, wt, length_chunksMap, wtAll_chunksMap e _ _ (fun c hc => wt_specVal e c hc) n b h]
  | .rcd fs, b, h => by
    simp [specWidth] at h; simp [specVal, wt, wtFields_specVals fs b h]
theorem wtFields_specVals : (fs : List STy) → (b : Bits) → b.length = specWidths fs →
    wtFields fs (specVals fs b) = true
  | [], b, h => by simp [specVals, wtFields]
  | t :: ts, b, h => by
    simp only [specWidths] at h
    have h1 : (b.take (specWidth t)).length = specWidth t := by
      rw [List.length_take, h]; omega
    have h2 : (b.drop (specWidth t)).length = specWidths ts := by
      rw [List.length_drop, h]; omega
    simp [specVals, wtFields, wt_specVal t _ h1, wtFields_specVals ts _ h2]
end

/-! ## layout: field / element at its offset -/

theorem wtFields_length : ∀ (fs : List STy) (xs : List SVal), wtFields fs xs = true → xs.length = fs.length
  | [], [], _ => rfl
  | t :: ts, x :: xs, h => by
    simp [wtFields] at h; simp [wtFields_length ts xs h.2]
  | [], _ :: _, h => by simp [wtFields] at h
  | _ :: _, [], h => by simp [wtFields] at h

theorem slice_append_right (a l : Bits) (n k w : Nat) (h : a.length = n) :
    slice (a ++ l) (n + k) w = slice l k w := by
  subst h; rw [slice, slice, List.drop_append, List.drop_eq_nil_of_le (by omega), Nat.add_sub_cancel_left, List.nil_append]

theorem slice_append_left (a l : Bits) (w : Nat) (h : a.length = w) : slice (a ++ l) 0 w = a := by
  simp [slice, List.take_left' h]

theorem slice_specBitsL_field : ∀ (fs : List STy) (xs : List SVal), wtFields fs xs = true →
    ∀ (i : Nat) (h1 : i < fs.length) (h2 : i < xs.length),
      slice (specBitsL xs) (fieldOffset fs i) (specWidth fs[i]) = specBits xs[i]
  | [], _, _, i, h1, _ => by simp at h1
  | _ :: _, [], _, i, _, h2 => by simp at h2
  | t :: ts, x :: xs, h, 0, _, _ => by
    simp [wtFields] at h
    simp [fieldOffset, specWidths, specBitsL, slice_append_left _ _ _ (length_specBits t x h.1)]
  | t :: ts, x :: xs, h, i + 1, h1, h2 => by
    simp [wtFields] at h
    have ih := slice_specBitsL_field ts xs h.2 i (by simpa using h1) (by simpa using h2)
    simp only [fieldOffset] at ih
    simp only [fieldOffset, List.take_succ_cons, specWidths, specBitsL, List.getElem_cons_succ]
    rw [slice_append_right _ _ _ _ _ (length_specBits t x h.1), ih]

theorem slice_specBitsL_elem (e : STy) : ∀ (xs : List SVal), wtAll e xs = true →
    ∀ (i : Nat) (h2 : i < xs.length),
      slice (specBitsL xs) (i * specWidth e) (specWidth e) = specBits xs[i]
  | [], _, i, h2 => by simp at h2
  | x :: xs, h, 0, _ => by
    simp [wtAll] at h
    simp [specBitsL, slice_append_left _ _ _ (length_specBits e x h.1)]
  | x :: xs, h, i + 1, h2 => by
    simp [wtAll] at h
    have ih := slice_specBitsL_elem e xs h.2 i (by simpa using h2)
    simp only [specBitsL, List.getElem_cons_succ]
    rw [show (i + 1) * specWidth e = specWidth e + i * specWidth e by rw [Nat.succ_mul]; omega,
      slice_append_right _ _ _ _ _ (length_specBits e x h.1), ih]

/-- the mirror's offset table (driver request `offsets`) -/
theorem offsetsOf_go_getElem? : ∀ (fs : List STy) (off i : Nat),
    (offsetsOf.go fs off)[i]? = fs[i]?.map (fun t => (off + fieldOffset fs i, countBits t))
  | [], off, i => by simp [offsetsOf.go]
  | t :: ts, off, 0 => by simp [offsetsOf.go, fieldOffset, specWidths]
  | t :: ts, off, i + 1 => by
    simp only [offsetsOf.go, List.getElem?_cons_succ, offsetsOf_go_getElem? ts, fieldOffset,
      List.take_succ_cons, specWidths, countBits_eq_specWidth, Nat.add_assoc]

/-! ## BitField -/

theorem absLo_cons (off sw : Nat) (rest : List (Nat × Nat)) (lo : Nat) :
    absLo ((off, sw) :: rest) lo = off + absLo rest lo := by
  simp [absLo]; omega

theorem pathOk_absLo : ∀ (p : List (Nat × Nat)) (lo w W : Nat), pathOk p lo w W = true → absLo p lo + w ≤ W
  | [], lo, w, W, h => by simpa [pathOk, absLo] using h
  | (off, sw) :: rest, lo, w, W, h => by
    simp [pathOk] at h
    have := pathOk_absLo rest lo w sw h.2
    rw [absLo_cons]; omega

theorem slice_sub (b : Bits) (off sw a w : Nat) (h : a + w ≤ sw) :
    slice ((b.drop off).take sw) a w = slice b (off + a) w := by
  simp only [slice, List.drop_take, List.take_take, List.drop_drop]
  rw [Nat.min_eq_left (by omega)]

theorem readPath_eq_slice : ∀ (p : List (Nat × Nat)) (lo w W : Nat) (b : Bits),
    pathOk p lo w W = true → b.length = W → readPath p lo w b = slice b (absLo p lo) w
  | [], lo, w, W, b, _, _ => by simp [readPath, absLo]
  | (off, sw) :: rest, lo, w, W, b, h, hb => by
    simp [pathOk] at h
    have hl : ((b.drop off).take sw).length = sw := by
      rw [List.length_take, List.length_drop]; omega
    rw [readPath, readPath_eq_slice rest lo w sw _ h.2 hl, absLo_cons,
      slice_sub _ _ _ _ _ (pathOk_absLo rest lo w sw h.2)]

theorem writePath_closed : ∀ (p : List (Nat × Nat)) (lo W : Nat) (v b : Bits),
    pathOk p lo v.length W = true → b.length = W →
      writePath p lo v b = b.take (absLo p lo) ++ v ++ b.drop (absLo p lo + v.length)
  | [], lo, W, v, b, _, _ => by simp [writePath, writeSlice, absLo]
  | (off, sw) :: rest, lo, W, v, b, h, hb => by
    simp [pathOk] at h
    have hl : ((b.drop off).take sw).length = sw := by
      rw [List.length_take, List.length_drop]; omega
    have ha := pathOk_absLo rest lo v.length sw h.2
    rw [writePath, writePath_closed rest lo sw v _ h.2 hl, absLo_cons]
    generalize absLo rest lo = a at *
    have hlen : (List.take a (List.take sw (List.drop off b)) ++ v ++
        List.drop (a + v.length) (List.take sw (List.drop off b))).length = sw := by
      simp only [List.length_append, List.length_take, List.length_drop]; omega
    rw [writeSlice, hlen]
    apply List.ext_getElem?
    intro i
    simp only [List.getElem?_append, List.length_append, List.length_take, List.length_drop,
      List.getElem?_take, List.getElem?_drop]
    repeat' split
    all_goals first | omega | rfl | (congr 1; omega) | skip

end CohdlVerif.C17
