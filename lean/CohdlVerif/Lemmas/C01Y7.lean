import CohdlVerif.Lemmas.C01Y6

/-! C01 - whole grammar: plain statements with an exit (`skip` = falls through, `ret` = returns) -/
namespace CohdlVerif.C01

section
variable {σ : Type} (act : Nat → σ → σ) (cond : Nat → σ → Bool)
variable (Hf : Nat → Blk) (E : Nat → σ → σ × Option Nat) (Rf : Nat → Nat) (Sf : List Nat)

/-- a statement translated without any transition that ends like `q` -/
structure PlainResQ (q t : Stmt) (x : Nat) (s s' : CSt) : Prop where
  front : (s'.heap x).front = (s.heap x).front
  sem : ∃ (added : List Item) (eff : σ → σ), (s'.heap x).items = (s.heap x).items ++ added ∧
    (∀ σ0, execI act cond E added σ0 = (eff σ0, none)) ∧
    ∀ st σ0, RunTo act cond t st s.atStart σ0 q st s'.atStart (eff σ0)

theorem PlainResQ.toPlain {t : Stmt} {x : Nat} {s s' : CSt} (h : PlainResQ act cond E .skip t x s s') :
    PlainRes act cond E t x s s' := ⟨h.front, h.sem⟩

theorem PlainRes.toQ {t : Stmt} {x : Nat} {s s' : CSt} (h : PlainRes act cond E t x s s') :
    PlainResQ act cond E .skip t x s s' := ⟨h.front, h.sem⟩

/-- the general plain-statement claim -/
def PlainX (t : Stmt) : Prop :=
  ∀ (x : Nat) (s : CSt) (P' : Nat → Prop), Inv s [x] → SInv s → s.atStart = false →
    Fut Hf Rf Sf (compile t [x] s).2 P' →
    (∀ y, P' y → y < (compile t [x] s).2.next → (y = x ∨ s.next ≤ y) → y = x) →
    (x ∈ (compile t [x] s).1 → PlainResQ act cond E .skip t x s (compile t [x] s).2) ∧
    (x ∈ dR s (compile t [x] s).2 → PlainResQ act cond E .ret t x s (compile t [x] s).2)

theorem plainQ_act (q : Stmt) (a : Nat) (k : Stmt) (x : Nat) (s s' : CSt) (hA : s.atStart = false)
    (hk : PlainResQ act cond E q k x (s.append x (.act a)) s') : PlainResQ act cond E q (.act a k) x s s' := by
  obtain ⟨hf, added, eff, h1, h2, h3⟩ := hk
  refine ⟨by rw [hf, append_front], .act a :: added, fun σ0 => eff (act a σ0), ?_, ?_, ?_⟩
  · rw [h1, append_items]; simp
  · intro σ0; simp only [execI]; exact h2 _
  · intro st σ0
    refine RunTo.trans act cond (RunTo.act_ act cond a k st _ σ0) ?_
    have := h3 st (act a σ0)
    rwa [append_atStart s x _ (fun h => by rw [hA] at h; cases h)] at this

/-- a sequence of two plain pieces on the same block -/
theorem plainQ_seq (q t k : Stmt) (x : Nat) (s s1 s2 : CSt) (added1 : List Item) (eff1 : σ → σ)
    (hf1 : (s1.heap x).front = (s.heap x).front) (hi1 : (s1.heap x).items = (s.heap x).items ++ added1)
    (he1 : ∀ σ0, execI act cond E added1 σ0 = (eff1 σ0, none))
    (hr1 : ∀ st σ0, RunTo act cond t st s.atStart σ0 k st s1.atStart (eff1 σ0))
    (hk : PlainResQ act cond E q k x s1 s2) : PlainResQ act cond E q t x s s2 := by
  obtain ⟨hf, added, eff, h1, h2, h3⟩ := hk
  refine ⟨hf.trans hf1, added1 ++ added, fun σ0 => eff (eff1 σ0), ?_, ?_, ?_⟩
  · rw [h1, hi1, List.append_assoc]
  · intro σ0
    rw [execI_append, he1, h2]; rfl
  · intro st σ0
    exact (hr1 st σ0).trans act cond (h3 st _)

end
end CohdlVerif.C01
