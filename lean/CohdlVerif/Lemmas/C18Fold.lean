import CohdlVerif.Model.C18
/-!
  C18 helper lemmas, part 1: the tree folds.

  `FoldTree f l r`: r is the value of SOME bracketing of the non-empty list l (order of the leaves kept).
  `binaryFold` / `batchedFold` (any batch size, including the inner default-2 recursion) always return the
  value of such a bracketing - no associativity needed.  Everything else (fold = foldl for associative f,
  population count through widening adders, concat, min/max) is an induction over `FoldTree`.
-/
namespace CohdlVerif.C18

inductive FoldTree (f : α → α → α) : List α → α → Prop
  | leaf (a : α) : FoldTree f [a] a
  | node {l₁ l₂ : List α} {r₁ r₂ : α} : FoldTree f l₁ r₁ → FoldTree f l₂ r₂ → FoldTree f (l₁ ++ l₂) (f r₁ r₂)

theorem FoldTree.ne_nil {f : α → α → α} {l : List α} {r : α} (h : FoldTree f l r) : l ≠ [] := by
  induction h with
  | leaf a => simp
  | node h₁ _ ih₁ _ => simp [ih₁]

/-- `binaryFold` continues a bracketing of the prefix -/
theorem binaryFold_tree_aux (f : α → α → α) (rest : List α) :
    ∀ (l₀ : List α) (a : α), FoldTree f l₀ a → ∃ r, binaryFold f (a :: rest) = some r ∧ FoldTree f (l₀ ++ rest) r := by
  induction rest with
  | nil => intro l₀ a h; exact ⟨a, by simp [binaryFold], by simpa using h⟩
  | cons b rest ih =>
    intro l₀ a h
    obtain ⟨r, hr, ht⟩ := ih (l₀ ++ [b]) (f a b) (FoldTree.node h (FoldTree.leaf b))
    refine ⟨r, ?_, by simpa using ht⟩
    rw [binaryFold]; exact hr

theorem binaryFold_tree (f : α → α → α) (l : List α) (hl : l ≠ []) :
    ∃ r, binaryFold f l = some r ∧ FoldTree f l r := by
  cases l with
  | nil => exact absurd rfl hl
  | cons a rest => simpa using binaryFold_tree_aux f rest [a] a (FoldTree.leaf a)

/-! ### `_batch_args` -/

theorem batchArgsF_nil (bs fuel : Nat) : batchArgsF bs fuel ([] : List α) = [] := by
  cases fuel <;> simp [batchArgsF]

theorem batchArgsF_flatten (bs : Nat) (hbs : 1 ≤ bs) :
    ∀ (fuel : Nat) (l : List α), l.length ≤ fuel → (batchArgsF bs fuel l).flatten = l := by
  intro fuel
  induction fuel with
  | zero => intro l hl; cases l with
    | nil => simp [batchArgsF]
    | cons a r => simp at hl
  | succ fuel ih =>
    intro l hl
    cases l with
    | nil => simp [batchArgsF]
    | cons a r =>
      simp only [batchArgsF, List.flatten_cons]
      rw [ih]
      · exact List.take_append_drop bs (a :: r)
      · simp only [List.length_drop, List.length_cons] at *; omega

theorem batchArgsF_mem (bs : Nat) (hbs : 1 ≤ bs) :
    ∀ (fuel : Nat) (l : List α) (c : List α), c ∈ batchArgsF bs fuel l → c ≠ [] ∧ c.length ≤ bs := by
  intro fuel
  induction fuel with
  | zero => intro l c hc; simp [batchArgsF] at hc
  | succ fuel ih =>
    intro l c hc
    cases l with
    | nil => simp [batchArgsF] at hc
    | cons a r =>
      simp only [batchArgsF, List.mem_cons] at hc
      rcases hc with rfl | hc
      · constructor
        · cases bs with
          | zero => omega
          | succ n => simp
        · simp only [List.length_take]; omega
      · exact ih _ c hc

theorem batchArgsF_length_le (bs : Nat) (hbs : 1 ≤ bs) :
    ∀ (fuel : Nat) (l : List α), (batchArgsF bs fuel l).length ≤ l.length := by
  intro fuel
  induction fuel with
  | zero => intro l; simp [batchArgsF]
  | succ fuel ih =>
    intro l
    cases l with
    | nil => simp [batchArgsF]
    | cons a r =>
      have := ih ((a :: r).drop bs)
      simp only [batchArgsF, List.length_cons, List.length_drop] at *
      omega

theorem batchArgsF_length_half (bs : Nat) (hbs : 2 ≤ bs) :
    ∀ (fuel : Nat) (l : List α), 2 * (batchArgsF bs fuel l).length ≤ l.length + 1 := by
  intro fuel
  induction fuel with
  | zero => intro l; simp [batchArgsF]
  | succ fuel ih =>
    intro l
    cases l with
    | nil => simp [batchArgsF]
    | cons a r =>
      have := ih ((a :: r).drop bs)
      simp only [batchArgsF, List.length_cons, List.length_drop] at *
      omega

theorem batchArgsF_ne_nil (bs fuel : Nat) (l : List α) (hl : l ≠ []) (hf : 1 ≤ fuel) : batchArgsF bs fuel l ≠ [] := by
  cases fuel with
  | zero => omega
  | succ n => cases l with
    | nil => exact absurd rfl hl
    | cons a r => simp [batchArgsF]

/-! ### results of the batches -/

inductive Parts (f : α → α → α) : List (List α) → List α → Prop
  | nil : Parts f [] []
  | cons {c : List α} {r : α} {cs : List (List α)} {rs : List α} :
      FoldTree f c r → Parts f cs rs → Parts f (c :: cs) (r :: rs)

theorem Parts.length_eq {f : α → α → α} {cs : List (List α)} {rs : List α} (h : Parts f cs rs) : cs.length = rs.length := by
  induction h with
  | nil => rfl
  | cons _ _ ih => simp [ih]

theorem Parts.split {f : α → α → α} (l₁ : List α) :
    ∀ (l₂ : List α) (cs : List (List α)), Parts f cs (l₁ ++ l₂) →
      ∃ cs₁ cs₂, cs = cs₁ ++ cs₂ ∧ Parts f cs₁ l₁ ∧ Parts f cs₂ l₂ := by
  induction l₁ with
  | nil => intro l₂ cs h; exact ⟨[], cs, rfl, Parts.nil, by simpa using h⟩
  | cons a l₁ ih =>
    intro l₂ cs h
    cases h with
    | cons hc hrest =>
      obtain ⟨cs₁, cs₂, rfl, h₁, h₂⟩ := ih l₂ _ hrest
      exact ⟨_ :: cs₁, cs₂, rfl, Parts.cons hc h₁, h₂⟩

theorem FoldTree.flatten {f : α → α → α} {rs : List α} {r : α} (h : FoldTree f rs r) :
    ∀ cs, Parts f cs rs → FoldTree f cs.flatten r := by
  induction h with
  | leaf a =>
    intro cs hp
    cases hp with
    | cons hc hrest => cases hrest; simpa using hc
  | node _ _ ih₁ ih₂ =>
    intro cs hp
    obtain ⟨cs₁, cs₂, rfl, h₁, h₂⟩ := Parts.split _ _ _ hp
    rw [List.flatten_append]
    exact FoldTree.node (ih₁ _ h₁) (ih₂ _ h₂)

theorem mapM_parts (f : α → α → α) (g : List α → Option α) :
    ∀ (cs : List (List α)), (∀ c ∈ cs, ∃ r, g c = some r ∧ FoldTree f c r) →
      ∃ rs, cs.mapM g = some rs ∧ Parts f cs rs := by
  intro cs
  induction cs with
  | nil => intro _; exact ⟨[], by simp, Parts.nil⟩
  | cons c cs ih =>
    intro h
    obtain ⟨r, hr, ht⟩ := h c (by simp)
    obtain ⟨rs, hrs, hp⟩ := ih (fun c' hc' => h c' (by simp [hc']))
    exact ⟨r :: rs, by simp [List.mapM_cons, hr, hrs], Parts.cons ht hp⟩

/-! ### `batched_fold` -/

theorem batchedFoldF_tree (f : α → α → α) :
    ∀ (fuel bs : Nat) (l : List α), 1 ≤ bs → l ≠ [] → l.length + (if bs = 1 then 2 else 1) ≤ fuel →
      ∃ r, batchedFoldF f fuel bs l = some r ∧ FoldTree f l r := by
  intro fuel
  induction fuel with
  | zero => intro bs l _ _ h; split at h <;> omega
  | succ fuel ih =>
    intro bs l hbs hl hfuel
    have hbs0 : bs ≠ 0 := by omega
    simp only [batchedFoldF, hbs0, if_false]
    by_cases hle : l.length ≤ bs
    · simp only [hle, if_true]; exact binaryFold_tree f l hl
    · simp only [hle, if_false]
      have hlen : 0 < l.length := List.length_pos_iff.mpr hl
      -- the batches
      have hmem := batchArgsF_mem (α := α) bs hbs l.length l
      have hinner : ∀ c ∈ batchArgs bs l, ∃ r, batchedFoldF f fuel bs c = some r ∧ FoldTree f c r := by
        intro c hc
        obtain ⟨hne, hcl⟩ := hmem c hc
        apply ih bs c hbs hne
        split at hfuel <;> split <;> omega
      obtain ⟨rs, hrs, hp⟩ := mapM_parts f (batchedFoldF f fuel bs) (batchArgs bs l) hinner
      rw [hrs]
      have hrl : (batchArgs bs l).length = rs.length := hp.length_eq
      have hne : rs ≠ [] := by
        have := batchArgsF_ne_nil bs l.length l hl (by omega)
        intro h0; rw [h0] at hrl; simp at hrl; exact this hrl
      have hfu : rs.length + (if (2 : Nat) = 1 then 2 else 1) ≤ fuel := by
        simp only [show ¬ ((2 : Nat) = 1) by omega, if_false]
        by_cases h1 : bs = 1
        · have := batchArgsF_length_le (α := α) bs hbs l.length l
          simp only [h1, if_true] at hfuel
          unfold batchArgs at hrl; omega
        · have := batchArgsF_length_half (α := α) bs (by omega) l.length l
          simp only [h1, if_false] at hfuel
          unfold batchArgs at hrl; omega
      obtain ⟨r, hr, ht⟩ := ih 2 rs (by omega) hne hfu
      refine ⟨r, hr, ?_⟩
      have hfl := batchArgsF_flatten (α := α) bs hbs l.length l (Nat.le_refl _)
      have := ht.flatten _ hp
      unfold batchArgs at this
      rwa [hfl] at this

/-- `batched_fold` returns the value of a bracketing of its (non-empty) argument list, for every batch size ≥ 1 -/
theorem batchedFold_tree (f : α → α → α) (bs : Nat) (l : List α) (hbs : 1 ≤ bs) (hl : l ≠ []) :
    ∃ r, batchedFold f bs l = some r ∧ FoldTree f l r := by
  apply batchedFoldF_tree f _ bs l hbs hl
  split <;> omega

/-! ### associative operators: every bracketing is the left fold -/

theorem foldl_assoc (f : α → α → α) (hf : ∀ a b c, f (f a b) c = f a (f b c)) (t : List α) :
    ∀ (x b : α), t.foldl f (f x b) = f x (t.foldl f b) := by
  induction t with
  | nil => intro x b; rfl
  | cons c t ih => intro x b; simp only [List.foldl_cons]; rw [hf, ih]

theorem FoldTree.eq_foldl1 {f : α → α → α} (hf : ∀ a b c, f (f a b) c = f a (f b c))
    {l : List α} {r : α} (h : FoldTree f l r) : foldl1 f l = some r := by
  induction h with
  | leaf a => rfl
  | @node l₁ l₂ r₁ r₂ h₁ h₂ ih₁ ih₂ =>
    cases l₁ with
    | nil => exact absurd rfl h₁.ne_nil
    | cons a t₁ =>
      cases l₂ with
      | nil => exact absurd rfl h₂.ne_nil
      | cons b t₂ =>
        simp only [foldl1, Option.some.injEq] at ih₁ ih₂
        simp only [foldl1, List.cons_append, List.foldl_append, List.foldl_cons, Option.some.injEq]
        rw [ih₁, foldl_assoc f hf, ih₂]

/-- the right fold is a bracketing too -/
theorem binaryFoldR_tree (f : α → α → α) (l : List α) (hl : l ≠ []) :
    ∃ r, binaryFoldR f l = some r ∧ FoldTree f l r := by
  induction l with
  | nil => exact absurd rfl hl
  | cons a rest ih =>
    cases rest with
    | nil => exact ⟨a, rfl, FoldTree.leaf a⟩
    | cons b rest =>
      obtain ⟨r, hr, ht⟩ := ih (by simp)
      exact ⟨f a r, by simp [binaryFoldR, hr], FoldTree.node (FoldTree.leaf a) ht⟩

end CohdlVerif.C18
