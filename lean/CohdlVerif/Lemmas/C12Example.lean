import CohdlVerif.Lemmas.C12Subst

/-! C12 - a concrete design used for the non-vacuity examples of Props/C12.lean -/
namespace CohdlVerif.C12

/-- example design: a clocked leaf instantiated twice (the second time on element 1 of the ARRAY signal `u`, keyword arguments in
    an order different from the declaration) below a top entity -/
def leaf0 : Tmpl :=
  .mk "L" [⟨"a", .inp, ⟨.uns, 4⟩⟩, ⟨"q", .out, ⟨.uns, 4⟩⟩] [⟨"r", ⟨.uns, 4⟩, some 3, 1⟩]
    [.reg ⟨"r", 0, 4⟩ (.bin .add 4 (.ref ⟨"r", 0, 4⟩) (.ref ⟨"a", 0, 4⟩)), .comb ⟨"q", 0, 4⟩ (.ref ⟨"r", 0, 4⟩)] .nil

def top0 : Tmpl :=
  .mk "Top" [⟨"x", .inp, ⟨.uns, 8⟩⟩, ⟨"y", .out, ⟨.uns, 4⟩⟩] [⟨"t", ⟨.uns, 4⟩, some 5, 1⟩, ⟨"u", ⟨.slv, 4⟩, some 255, 2⟩]
    [.comb ⟨"y", 0, 4⟩ (.bin .xor 4 (.ref ⟨"t", 0, 4⟩) (.ref ⟨"u", 4, 4⟩))]
    (.cons leaf0 [("a", ⟨⟨"x", 0, 4⟩, false⟩), ("q", ⟨⟨"t", 0, 4⟩, true⟩)]
      (.cons leaf0 [("q", ⟨⟨"u", 4, 4⟩, false⟩), ("a", ⟨⟨"x", 4, 4⟩, false⟩)] .nil))

theorem top0_consistent : Consistent top0 := by
  intro s1 h1 s2 h2 hn
  simp only [top0, leaf0, subT, subIs, List.mem_cons, List.mem_append, List.not_mem_nil, or_false, List.append_nil] at h1 h2
  rcases h1 with rfl | rfl | rfl <;> rcases h2 with rfl | rfl | rfl <;> first | rfl | (simp [Tmpl.name] at hn)

theorem top0_wf : WfT top0 := by
  simp [top0, leaf0, WfT, WfIs, Tmpl.ports]

end CohdlVerif.C12
