import CohdlVerif.Model.C13Types
/-! C13 part A - helper lemmas: cache lookup, the class-table invariant, `ensure`, request histories, reachability -/
namespace CohdlVerif.C13

/-! ### `find` -/

theorem find_lt : ∀ (st : St) (k : Key) (i : Nat), find st k = some i → i < st.length := by
  intro st
  induction st with
  | nil => intro k i h; simp [find] at h
  | cons c cs ih =>
    intro k i h
    simp only [find] at h
    split at h
    · simp at h; subst h; simp
    · simp only [Option.map_eq_some_iff] at h
      obtain ⟨j, hj, rfl⟩ := h
      have := ih k j hj
      simp; omega

theorem find_key : ∀ (st : St) (k : Key) (i : Nat), find st k = some i → ∃ c, st[i]? = some c ∧ c.key = k := by
  intro st
  induction st with
  | nil => intro k i h; simp [find] at h
  | cons c cs ih =>
    intro k i h
    simp only [find] at h
    split at h
    · next hk => simp at h; subst h; exact ⟨c, by simp, hk⟩
    · simp only [Option.map_eq_some_iff] at h
      obtain ⟨j, hj, rfl⟩ := h
      obtain ⟨c', hc', hk'⟩ := ih k j hj
      exact ⟨c', by simpa using hc', hk'⟩

theorem find_none_iff : ∀ (st : St) (k : Key), find st k = none ↔ k ∉ st.map (·.key) := by
  intro st
  induction st with
  | nil => intro k; simp [find]
  | cons c cs ih =>
    intro k
    simp only [find, List.map_cons, List.mem_cons, not_or]
    split
    · next hk => simp [hk]
    · next hk => simp [ih, Ne.symm hk]

theorem find_append_some : ∀ (st e : St) (k : Key) (i : Nat), find st k = some i → find (st ++ e) k = some i := by
  intro st
  induction st with
  | nil => intro e k i h; simp [find] at h
  | cons c cs ih =>
    intro e k i h
    simp only [find, List.cons_append] at h ⊢
    split at h
    · next hk => simp [hk] at h ⊢; exact h
    · next hk =>
      simp only [hk, if_false]
      simp only [Option.map_eq_some_iff] at h ⊢
      obtain ⟨j, hj, rfl⟩ := h
      exact ⟨j, ih e k j hj, rfl⟩

theorem find_append_none : ∀ (st : St) (c : Cls) (k : Key), find st k = none →
    find (st ++ [c]) k = if c.key = k then some st.length else none := by
  intro st
  induction st with
  | nil => intro c k _; simp [find]
  | cons c0 cs ih =>
    intro c k h
    simp only [find] at h
    split at h
    · simp at h
    · next hk =>
      simp only [Option.map_eq_none_iff] at h
      simp only [List.cons_append, find, hk, if_false, ih c k h]
      split <;> simp

theorem find_of_get (st : St) (hnd : (st.map (·.key)).Nodup) : ∀ (i : Nat) (c : Cls), st[i]? = some c → find st c.key = some i := by
  induction st with
  | nil => intro i c h; simp at h
  | cons c0 cs ih =>
    intro i c h
    simp only [List.map_cons, List.nodup_cons] at hnd
    cases i with
    | zero => simp at h; subst h; simp [find]
    | succ i =>
      simp only [List.getElem?_cons_succ] at h
      have hmem : c.key ∈ cs.map (·.key) := List.mem_map.mpr ⟨c, List.mem_of_getElem? h, rfl⟩
      have hne : c0.key ≠ c.key := by intro he; exact hnd.1 (he ▸ hmem)
      simp [find, hne, ih hnd.2 i c h]

/-! ### the invariant of the class table -/

/-- keys that can occur in a table: the anonymous intermediate class exists only for Unsigned / Signed -/
def goodKey : Key → Bool
  | .anon _ _ k _ _ => k != .bv
  | _ => true

theorem baseKeys_good (k b : Key) (hb : b ∈ baseKeys k) : goodKey b = true := by
  cases k with
  | root r => cases r <;> simp [baseKeys, rootBases] at hb <;> subst hb <;> rfl
  | vec k o w => cases k <;> simp [baseKeys] at hb <;> rcases hb with rfl | rfl <;> rfl
  | arr e n => simp [baseKeys] at hb; subst hb; rfl
  | anon qk d k o w => simp [baseKeys] at hb; rcases hb with rfl | rfl <;> rfl
  | q qk d t =>
    cases qk <;> simp [baseKeys] at hb
    all_goals
      first
        | (rcases hb with rfl | rfl <;>
            (cases t with
              | root r => cases r <;> simp [goodKey, qParent]
              | vec k o w => cases k <;> simp [goodKey, qParent]
              | arr e n => simp [goodKey, qParent]
              | q a b c => simp [goodKey, qParent]
              | anon a b c d e => simp [goodKey, qParent]))
        | (subst hb
           cases t with
              | root r => cases r <;> simp [goodKey, qParent]
              | vec k o w => cases k <;> simp [goodKey, qParent]
              | arr e n => simp [goodKey, qParent]
              | q a b c => simp [goodKey, qParent]
              | anon a b c d e => simp [goodKey, qParent])

/-- parameter tuples are unique (one class per tuple) and every class has exactly the bases its tuple
    prescribes, all of them present in the table -/
structure Inv (st : St) : Prop where
  nodup : (st.map (·.key)).Nodup
  bases : ∀ c ∈ st, (baseKeys c.key).map (find st) = c.bases.map some
  /-- the bases of a class were created before it -/
  ordered : ∀ (i : Nat) (c : Cls), st[i]? = some c → ∀ j ∈ c.bases, j < i
  good : ∀ c ∈ st, goodKey c.key = true

theorem map_find_append (st e : St) (bs : List Key) (ids : List Nat)
    (h : bs.map (find st) = ids.map some) : bs.map (find (st ++ e)) = ids.map some := by
  rw [← h]
  apply List.map_congr_left
  intro b hb
  have : find st b ∈ ids.map some := h ▸ List.mem_map.mpr ⟨b, hb, rfl⟩
  obtain ⟨i, _, hi⟩ := List.mem_map.mp this
  rw [← hi, find_append_some st e b i hi.symm]

theorem rank_base_lt (k b : Key) (hb : b ∈ baseKeys k) : rank b < rank k := by
  cases k with
  | root r => cases r <;> simp [baseKeys, rootBases] at hb <;> subst hb <;> simp [rank]
  | vec k o w => cases k <;> simp [baseKeys] at hb <;> rcases hb with rfl | rfl <;> simp [rank]
  | arr e n => simp [baseKeys] at hb; subst hb; simp [rank]
  | anon qk d k o w =>
    simp [baseKeys] at hb
    rcases hb with rfl | rfl <;> cases qk <;> cases k <;> simp [rank, kroot]
  | q qk d t =>
    cases qk <;> simp [baseKeys] at hb
    all_goals
      first
        | (rcases hb with rfl | rfl <;>
            (cases t with
              | root r => cases r <;> simp [rank, qParent, qroot]
              | vec k o w => cases k <;> simp [rank, qParent, qroot]
              | arr e n => simp [rank, qParent, qroot]
              | q a b c => simp [rank, qParent, qroot]
              | anon a b c d e => simp [rank, qParent, qroot]))
        | (subst hb
           cases t with
              | root r => cases r <;> simp [rank, qParent, qroot]
              | vec k o w => cases k <;> simp [rank, qParent, qroot]
              | arr e n => simp [rank, qParent, qroot]
              | q a b c => simp [rank, qParent, qroot]
              | anon a b c d e => simp [rank, qParent, qroot])

theorem rank_lt_fuel (k : Key) : rank k < fuel := by
  cases k with
  | root r => cases r <;> simp [rank, fuel]
  | vec k o w => cases k <;> simp [rank, fuel]
  | arr e n => simp [rank, fuel]
  | anon qk d k o w => cases qk <;> simp [rank, fuel]
  | q qk d t =>
    cases qk <;>
      (cases t with
        | root r => cases r <;> simp [rank, fuel]
        | vec k o w => cases k <;> simp [rank, fuel]
        | arr e n => simp [rank, fuel]
        | q a b c => simp [rank, fuel]
        | anon a b c d e => simp [rank, fuel])

/-! ### `ensure` -/

def EnsSpec (ens : St → Key → Option (St × Nat)) (bound : Nat) : Prop :=
  ∀ st k, Inv st → rank k < bound → goodKey k = true →
    ∃ ext i, ens st k = some (st ++ ext, i) ∧ Inv (st ++ ext) ∧ find (st ++ ext) k = some i ∧
      ∀ c ∈ ext, rank c.key ≤ rank k

theorem ensureAll_spec (ens : St → Key → Option (St × Nat)) (bound : Nat) (he : EnsSpec ens bound) :
    ∀ (bs : List Key) (st : St), Inv st → (∀ b ∈ bs, rank b < bound) → (∀ b ∈ bs, goodKey b = true) →
      ∃ ext ids, ensureAll ens st bs = some (st ++ ext, ids) ∧ Inv (st ++ ext) ∧
        bs.map (find (st ++ ext)) = ids.map some ∧ ∀ c ∈ ext, ∃ b ∈ bs, rank c.key ≤ rank b := by
  intro bs
  induction bs with
  | nil => intro st hI _ _; exact ⟨[], [], by simp [ensureAll], by simpa using hI, by simp, by simp⟩
  | cons b bs ih =>
    intro st hI hr hg
    obtain ⟨e1, i, h1, hI1, hf1, hr1⟩ := he st b hI (hr b (by simp)) (hg b (by simp))
    obtain ⟨e2, ids, h2, hI2, hf2, hr2⟩ := ih (st ++ e1) hI1 (fun b' hb' => hr b' (by simp [hb'])) (fun b' hb' => hg b' (by simp [hb']))
    refine ⟨e1 ++ e2, i :: ids, ?_, ?_, ?_, ?_⟩
    · simp [ensureAll, h1, h2, List.append_assoc]
    · simpa [List.append_assoc] using hI2
    · simp only [List.map_cons, ← List.append_assoc, hf2, find_append_some _ e2 b i hf1]
    · intro c hc
      rcases List.mem_append.mp hc with hc | hc
      · exact ⟨b, by simp, hr1 c hc⟩
      · obtain ⟨b', hb', hle⟩ := hr2 c hc
        exact ⟨b', by simp [hb'], hle⟩

theorem ensure_spec : ∀ f, EnsSpec (ensure f) f := by
  intro f
  induction f with
  | zero => intro st k _ h; omega
  | succ f ih =>
    intro st k hI hr hgk
    simp only [ensure]
    cases hfind : find st k with
    | some i => exact ⟨[], i, by simp, by simpa using hI, by simpa using hfind, by simp⟩
    | none =>
      have hb : ∀ b ∈ baseKeys k, rank b < f := fun b hb => by have := rank_base_lt k b hb; omega
      obtain ⟨ext, ids, h1, hI1, hf1, hr1⟩ := ensureAll_spec (ensure f) f ih (baseKeys k) st hI hb (fun b hb' => baseKeys_good k b hb')
      simp only [h1]
      have hnotin : k ∉ (st ++ ext).map (·.key) := by
        simp only [List.map_append, List.mem_append, not_or]
        refine ⟨(find_none_iff st k).mp hfind, ?_⟩
        intro hk
        obtain ⟨c, hc, hck⟩ := List.mem_map.mp hk
        obtain ⟨b, hb', hle⟩ := hr1 c hc
        have := rank_base_lt k b hb'
        rw [hck] at hle; omega
      have hfn : find (st ++ ext) k = none := (find_none_iff _ k).mpr hnotin
      refine ⟨ext ++ [⟨k, ids⟩], (st ++ ext).length, by simp [List.append_assoc], ?_, ?_, ?_⟩
      · rw [← List.append_assoc]
        constructor
        · simp only [List.map_append, List.map_cons, List.map_nil]
          rw [List.nodup_append]
          refine ⟨by simpa using hI1.nodup, by simp, ?_⟩
          intro a ha b hb
          simp at hb; subst hb
          intro he; subst he
          exact hnotin (by simpa using ha)
        · intro c hc
          rcases List.mem_append.mp hc with hc | hc
          · exact map_find_append _ _ _ _ (hI1.bases c hc)
          · simp at hc; subst hc
            exact map_find_append _ _ _ _ hf1
        · intro i c hc j hj
          by_cases hi : i < (st ++ ext).length
          · rw [List.getElem?_append_left hi] at hc
            exact hI1.ordered i c hc j hj
          · have hlen : i = (st ++ ext).length := by
              have := (List.getElem?_eq_some_iff.mp hc).1
              simp at this hi ⊢; omega
            subst hlen
            simp at hc; subst hc
            have : some j ∈ (baseKeys k).map (find (st ++ ext)) := hf1 ▸ List.mem_map.mpr ⟨j, hj, rfl⟩
            obtain ⟨b, _, hfb⟩ := List.mem_map.mp this
            exact find_lt _ b j hfb
        · intro c hc
          rcases List.mem_append.mp hc with hc | hc
          · exact hI1.good c hc
          · simp at hc; subst hc; exact hgk
      · rw [← List.append_assoc, find_append_none _ _ _ hfn]; simp
      · intro c hc
        rcases List.mem_append.mp hc with hc | hc
        · obtain ⟨b, hb', hle⟩ := hr1 c hc
          have := rank_base_lt k b hb'
          omega
        · simp at hc; subst hc; simp

/-! ### requests and histories -/

theorem inv_nil : Inv [] := ⟨by simp, by simp, by simp, by simp⟩

theorem ens_spec (st : St) (k : Key) (hI : Inv st) (hg : goodKey k = true) :
    ∃ ext i, ens st k = (st ++ ext, some i) ∧ Inv (st ++ ext) ∧ find (st ++ ext) k = some i := by
  obtain ⟨ext, i, h, hI', hf, _⟩ := ensure_spec fuel st k hI (rank_lt_fuel k) hg
  exact ⟨ext, i, by simp [ens, h], hI', hf⟩

theorem evalReq_spec : ∀ (k : Key) (st : St), Inv st →
    ∃ ext, (evalReq st k).1 = st ++ ext ∧ Inv (st ++ ext) ∧
      ∀ i, (evalReq st k).2 = some i → find (st ++ ext) k = some i := by
  intro k
  induction k with
  | root r => intro st hI; exact ⟨[], by simp [evalReq], by simpa using hI, by simp [evalReq]⟩
  | vec k o w =>
    intro st hI
    simp only [evalReq]
    split
    · exact ⟨[], by simp, by simpa using hI, by simp⟩
    · obtain ⟨ext, i, h, hI', hf⟩ := ens_spec st (.vec k o w) hI rfl
      exact ⟨ext, by simp [h], hI', by simp [h, hf]⟩
  | anon a b c d e => intro st hI; exact ⟨[], by simp [evalReq], by simpa using hI, by simp [evalReq]⟩
  | arr e n ih =>
    intro st hI
    obtain ⟨e1, h1, hI1, _⟩ := ih st hI
    simp only [evalReq]
    cases hr : evalReq st e with
    | mk st1 r =>
      rw [hr] at h1; simp only at h1; subst h1
      cases r with
      | none => exact ⟨e1, by simp, hI1, by simp⟩
      | some j =>
        simp only
        split
        · obtain ⟨e2, i, h, hI', hf⟩ := ens_spec (st ++ e1) (.arr e n) hI1 rfl
          exact ⟨e1 ++ e2, by simp [h, List.append_assoc], by simpa [List.append_assoc] using hI', by
            intro i' hi'; simp [h] at hi'; subst hi'; simpa [List.append_assoc] using hf⟩
        · exact ⟨e1, by simp, hI1, by simp⟩
  | q qk d t ih =>
    intro st hI
    obtain ⟨e1, h1, hI1, _⟩ := ih st hI
    simp only [evalReq]
    cases hr : evalReq st t with
    | mk st1 r =>
      rw [hr] at h1; simp only at h1; subst h1
      cases r with
      | none => exact ⟨e1, by simp, hI1, by simp⟩
      | some j =>
        simp only
        split
        · obtain ⟨e2, i, h, hI', hf⟩ := ens_spec (st ++ e1) (.q qk d t) hI1 rfl
          exact ⟨e1 ++ e2, by simp [h, List.append_assoc], by simpa [List.append_assoc] using hI', by
            intro i' hi'; simp [h] at hi'; subst hi'; simpa [List.append_assoc] using hf⟩
        · exact ⟨e1, by simp, hI1, by simp⟩

/-- every result of a history is the position of its parameter tuple in the FINAL table -/
theorem runHist_spec : ∀ (h : List Key) (st : St), Inv st →
    ∃ ext, (runHist st h).1 = st ++ ext ∧ Inv (st ++ ext) ∧ (runHist st h).2.length = h.length ∧
      ∀ (n : Nat) (k : Key) (i : Nat), h[n]? = some k → (runHist st h).2[n]? = some (some i) → find (st ++ ext) k = some i := by
  intro h
  induction h with
  | nil => intro st hI; exact ⟨[], by simp [runHist], by simpa using hI, by simp [runHist], by simp⟩
  | cons k ks ih =>
    intro st hI
    obtain ⟨e1, h1, hI1, hf1⟩ := evalReq_spec k st hI
    obtain ⟨e2, h2, hI2, hl2, hf2⟩ := ih (st ++ e1) hI1
    simp only [runHist, h1]
    refine ⟨e1 ++ e2, by simp [h2, List.append_assoc], by simpa [List.append_assoc] using hI2, by simp [hl2], ?_⟩
    intro n k' i hk hi
    cases n with
    | zero =>
      simp at hk hi; subst hk
      rw [← List.append_assoc]
      exact find_append_some _ e2 _ _ (hf1 i hi)
    | succ n =>
      simp only [List.getElem?_cons_succ] at hk hi
      simpa [List.append_assoc] using hf2 n k' i hk hi

/-! ### reachability = key level closure -/

theorem basesOf_eq (st : St) (hI : Inv st) (k : Key) (a : Nat) (h : find st k = some a) :
    (baseKeys k).map (find st) = (basesOf st a).map some := by
  obtain ⟨c, hc, hk⟩ := find_key st k a h
  simp only [basesOf, hc]
  rw [← hk]
  exact hI.bases c (List.mem_of_getElem? hc)

theorem find_inj (st : St) (k1 k2 : Key) (i : Nat) (h1 : find st k1 = some i) (h2 : find st k2 = some i) : k1 = k2 := by
  obtain ⟨c1, hc1, hk1⟩ := find_key st k1 i h1
  obtain ⟨c2, hc2, hk2⟩ := find_key st k2 i h2
  rw [hc1] at hc2; simp at hc2; subst hc2; rw [← hk1, ← hk2]

theorem reach_iff (st : St) (hI : Inv st) (b : Nat) : ∀ (f : Nat) (k : Key) (a : Nat), find st k = some a →
    (reach f st a b = true ↔ ∃ k' ∈ anc f k, find st k' = some b) := by
  intro f
  induction f with
  | zero =>
    intro k a h
    simp only [reach, anc, beq_iff_eq, List.mem_singleton, exists_eq_left, h, Option.some.injEq]
  | succ f ih =>
    intro k a h
    have hb := basesOf_eq st hI k a h
    simp only [reach, anc, Bool.or_eq_true, beq_iff_eq, List.any_eq_true, List.mem_cons, List.mem_flatMap,
      exists_eq_or_imp, h, Option.some.injEq]
    constructor
    · rintro (h0 | ⟨c, hc, hr⟩)
      · exact Or.inl h0
      · have : some c ∈ (baseKeys k).map (find st) := hb ▸ List.mem_map.mpr ⟨c, hc, rfl⟩
        obtain ⟨bk, hbk, hfb⟩ := List.mem_map.mp this
        obtain ⟨k', hk', hf'⟩ := (ih bk c hfb).mp hr
        exact Or.inr ⟨k', ⟨bk, hbk, hk'⟩, hf'⟩
    · rintro (h0 | ⟨k', ⟨bk, hbk, hk'⟩, hf'⟩)
      · exact Or.inl h0
      · have : find st bk ∈ (basesOf st a).map some := hb ▸ List.mem_map.mpr ⟨bk, hbk, rfl⟩
        obtain ⟨c, hc, hfc⟩ := List.mem_map.mp this
        exact Or.inr ⟨c, hc, (ih bk c hfc.symm).mpr ⟨k', hk', hf'⟩⟩

theorem rank_zero_bases (k : Key) (h : rank k = 0) : baseKeys k = [] := by
  cases k with
  | root r => cases r <;> simp [rank] at h <;> simp [baseKeys, rootBases]
  | vec k o w => cases k <;> simp [rank] at h
  | arr e n => simp [rank] at h
  | anon qk d k o w => cases qk <;> simp [rank] at h
  | q qk d t =>
    exfalso
    cases qk <;>
      (cases t with
        | root r => cases r <;> simp [rank] at h
        | vec k o w => cases k <;> simp [rank] at h
        | arr e n => simp [rank] at h
        | q a b c => simp [rank] at h
        | anon a b c d e => simp [rank] at h)

theorem flatMap_congr' {α β : Type} (l : List α) (f g : α → List β) (h : ∀ x ∈ l, f x = g x) :
    l.flatMap f = l.flatMap g := by
  induction l with
  | nil => simp
  | cons x xs ih => simp [List.flatMap_cons, h x (by simp), ih (fun y hy => h y (by simp [hy]))]

/-- the closure is complete as soon as the depth bound reaches the rank of the key -/
theorem anc_stable : ∀ (f g : Nat) (k : Key), rank k ≤ f → rank k ≤ g → anc f k = anc g k := by
  intro f
  induction f with
  | zero =>
    intro g k hf _
    have hb := rank_zero_bases k (by omega)
    cases g <;> simp [anc, hb]
  | succ f ih =>
    intro g k hf hg
    cases g with
    | zero =>
      have hb := rank_zero_bases k (by omega)
      simp [anc, hb]
    | succ g =>
      simp only [anc]
      congr 1
      apply flatMap_congr'
      intro b hb
      have := rank_base_lt k b hb
      exact ih g b (by omega) (by omega)

/-- `issubclass` on the class table = membership in the key level closure -/
theorem issub_iff (st : St) (hI : Inv st) (hlen : fuel ≤ st.length) (k1 k2 : Key) (a b : Nat)
    (h1 : find st k1 = some a) (h2 : find st k2 = some b) :
    issub st a b = true ↔ k2 ∈ anc (rank k1) k1 := by
  unfold issub
  rw [reach_iff st hI b st.length k1 a h1]
  have hr := rank_lt_fuel k1
  rw [anc_stable st.length (rank k1) k1 (by omega) (Nat.le_refl _)]
  constructor
  · rintro ⟨k', hk', hf'⟩
    rwa [find_inj st k2 k' b h2 hf']
  · intro h; exact ⟨k2, h, h2⟩

end CohdlVerif.C13
