import CohdlVerif.Lemmas.C01S8

/-! C01 - general grammar: one iteration of the `If` loop, both branches free of transitions -/
namespace CohdlVerif.C01

section
variable {σ : Type} (act : Nat → σ → σ) (cond : Nat → σ → Bool)
variable (prog : Stmt) (Hf : Nat → Blk) (E : Nat → σ → σ × Option Nat) (Rf : Nat → Nat) (Sf : List Nat)

/-- plain-statement claim, used for branch blocks (never at the start) -/
def PlainG (t : Stmt) : Prop :=
  ∀ (x : Nat) (s : CSt) (P' : Nat → Prop), Inv s [x] → SInv s → s.atStart = false → NoTr x (compile t [x] s).1 →
    Fut Hf Rf Sf (compile t [x] s).2 P' →
    (∀ y, P' y → y < (compile t [x] s).2.next → (y = x ∨ s.next ≤ y) → y = x) →
    PlainRes act cond E t x s (compile t [x] s).2

theorem iteIter_simG_plain (hE : ∀ b s, E b s = execB act cond E (Hf b) s) (c : Nat) (t1 e1 k : Stmt)
    (pt : PlainG act cond Hf E Rf Sf t1) (pe : PlainG act cond Hf E Rf Sf e1)
    (st : List Frame) (m b : Nat) (s : CSt) (hb : b < s.next)
    (X : IterCtx t1 e1 c b s) (P5 : Nat → Prop) (hF5 : Fut Hf Rf Sf (iR5 t1 e1 c b s).2 P5)
    (hP5 : ∀ y, P5 y → y < (iR5 t1 e1 c b s).2.next → (y = b ∨ s.next ≤ y) → y = b)
    (CK : TailSim2 act cond prog Hf E Rf Sf m b ((iR5 t1 e1 c b s).2.heap b).items k st false)
    (hat : anyTrans s.next (iR4 t1 c b s).1 = false) (hae : anyTrans (s.next + 1) (iR5 t1 e1 c b s).1 = false) :
    TailSim2 act cond prog Hf E Rf Sf m b (s.heap b).items (.ite c t1 e1 k) st s.atStart := by
  obtain ⟨T1, hA3, hi3, hsi3, Tt, hA4, n4, hi4, hsi4, Te, hA5, n5, hsi5, ot_r, oe_r⟩ := X
  have F4 : Fut Hf Rf Sf (iR4 t1 c b s).2 (fun y => y = s.next + 1 ∨ P5 y) :=
    Fut.back Te (by simp) (fun y hy => Or.inl (Or.inr hy)) hF5
  have Pt := pt s.next (itePre c b s) _ hi3 hsi3 hA3 ((anyTrans_false_iff _ _).mp hat) F4
    (by
      intro y hy hlt hr
      have hlt' : y < (iR4 t1 c b s).2.next := hlt
      rcases hy with hy | hy
      · rcases hr with h | h
        · omega
        · simp [itePre_next] at h; omega
      · have := hP5 y hy (by omega) (Or.inr (by
          rcases hr with h | h
          · omega
          · simp [itePre_next] at h; omega))
        rcases hr with h | h
        · omega
        · simp [itePre_next] at h; omega)
  have Pe := pe (s.next + 1) (iR4 t1 c b s).2 _ hi4 hsi4 hA4 ((anyTrans_false_iff _ _).mp hae) hF5
    (by
      intro y hy hlt hr
      have hlt' : y < (iR5 t1 e1 c b s).2.next := hlt
      have := hP5 y hy hlt' (Or.inr (by
        rcases hr with h | h
        · omega
        · omega))
      rcases hr with h | h
      · omega
      · omega)
  have hct : Hf s.next = (iR4 t1 c b s).2.heap s.next := F4.closed _ (by omega) (by
    intro h; rcases h with h | h
    · omega
    · have := hP5 _ h (by omega) (Or.inr (Nat.le_refl _)); omega)
  have hce : Hf (s.next + 1) = (iR5 t1 e1 c b s).2.heap (s.next + 1) := hF5.closed _ (by omega) (by
    intro h
    have := hP5 _ h (by omega) (Or.inr (by omega)); omega)
  have hfe : ((iR4 t1 c b s).2.heap (s.next + 1)).front = [] := hi4.front _ (by simp)
  obtain ⟨efft, hEt, hRt⟩ := plain_closed act cond Hf E hE t1 s.next _ (iR4 t1 c b s).2 Pt (itePre_child_items c b s hb)
    (itePre_child_front c b s) hct
  obtain ⟨effe, hEe, hRe⟩ := plain_closed act cond Hf E hE e1 (s.next + 1) (iR4 t1 c b s).2 (iR5 t1 e1 c b s).2 Pe
    (by rw [Tt.frame (s.next + 1) (by simp [itePre_next]) (by simp)]; exact itePre_child2_items c b s hb) hfe hce
  have hix5 : ((iR5 t1 e1 c b s).2.heap b).items = (s.heap b).items ++ [.ite c s.next (s.next + 1)] := by
    rw [Te.frame b (by omega) (by simp; omega), Tt.frame b (by simp [itePre_next]; omega) (by simp; omega),
      itePre_items c b s hb]
  rw [hA3, hA4] at hRt
  rw [hA4, hA5] at hRe
  intro suf hsuf s0
  have hpre : ((s.heap b).items ++ [.ite c s.next (s.next + 1)]) <+: (Hf b).items := by
    rw [← hix5]; exact hF5.items b (by omega)
  obtain ⟨rest, rfl⟩ := tail_split hsuf hpre
  have h1' := CK rest (by rw [hsuf, hix5]; simp) (if cond c s0 then efft s0 else effe s0)
  have htl : tailF act cond Hf E b ([.ite c s.next (s.next + 1)] ++ rest) s0 =
      tailF act cond Hf E b rest (if cond c s0 then efft s0 else effe s0) := by
    simp only [tailF, List.singleton_append, execI]
    cases hc : cond c s0 <;> simp [hEt, hEe]
  rw [htl]
  refine SimPt2_pull act cond prog E Sf ?_ (fun _ => rfl) h1'
  cases hc : cond c s0 with
  | false =>
    simp only [Bool.false_eq_true, if_false]
    exact (RunTo.ite_false act cond c t1 e1 k st _ s0 hc).trans act cond
      ((hRe (.seq k :: st) s0).trans act cond (RunTo.skip_seq act cond k st false _))
  | true =>
    simp only [if_true]
    exact (RunTo.ite_true act cond c t1 e1 k st _ s0 hc).trans act cond
      ((hRt (.seq k :: st) s0).trans act cond (RunTo.skip_seq act cond k st false _))

end
end CohdlVerif.C01
