import CohdlVerif.Lemmas.C01Frag1b
import CohdlVerif.Lemmas.C01Fwd

/-! C01 - fragment 1: the simulation claim, simple cases -/
namespace CohdlVerif.C01

theorem tail_split {α : Type} {L pre suf xs : List α} (h1 : L = pre ++ suf) (h2 : (pre ++ xs) <+: L) :
    ∃ suf', suf = xs ++ suf' := by
  obtain ⟨t, ht⟩ := h2
  refine ⟨t, ?_⟩
  rw [h1, List.append_assoc] at ht
  exact (List.append_cancel_left ht).symm

theorem appendAll_heap_notin (it : Item) (x : Nat) : ∀ (bs : List Nat) (s : CSt), x ∉ bs →
    (s.appendAll bs it).heap x = s.heap x := by
  intro bs s h
  exact (HeapExt.appendAll bs it bs s (fun _ h => h)).frame x h

theorem appendAll_items_nodup (it : Item) (x : Nat) : ∀ (bs : List Nat) (s : CSt), bs.Nodup → x ∈ bs →
    ((s.appendAll bs it).heap x).items = (s.heap x).items ++ [it] := by
  intro bs
  induction bs with
  | nil => intro s _ h; simp at h
  | cons b bs ih =>
    intro s hn hx
    simp only [CSt.appendAll, List.foldl_cons]
    have hn' := List.nodup_cons.mp hn
    rcases List.mem_cons.mp hx with h | h
    · subst h
      have := appendAll_heap_notin it x bs (s.append x it) hn'.1
      simp only [CSt.appendAll] at this
      rw [this, append_items]
    · have hne : x ≠ b := fun e => hn'.1 (e ▸ h)
      have := ih (s.append b it) hn'.2 h
      simp only [CSt.appendAll] at this
      rw [this]
      simp [CSt.append, hne]

theorem addfrontAll_heap_notin (t : Nat) (x : Nat) : ∀ (bs : List Nat) (s : CSt), x ∉ bs →
    (s.addfrontAll bs t).heap x = s.heap x := by
  intro bs
  induction bs with
  | nil => intro s _; rfl
  | cons b bs ih =>
    intro s h
    simp only [CSt.addfrontAll, List.foldl_cons] at ih ⊢
    rw [ih _ (fun hm => h (by simp [hm]))]
    have : x ≠ b := fun e => h (by simp [e])
    simp [CSt.addfront, this]

theorem addfrontAll_heap_nodup (t : Nat) (x : Nat) : ∀ (bs : List Nat) (s : CSt), bs.Nodup → x ∈ bs →
    (s.addfrontAll bs t).heap x = { s.heap x with front := t :: (s.heap x).front } := by
  intro bs
  induction bs with
  | nil => intro s _ h; simp at h
  | cons b bs ih =>
    intro s hn hx
    simp only [CSt.addfrontAll, List.foldl_cons]
    have hn' := List.nodup_cons.mp hn
    rcases List.mem_cons.mp hx with h | h
    · subst h
      have := addfrontAll_heap_notin t x bs (s.addfront x t) hn'.1
      simp only [CSt.addfrontAll] at this
      rw [this]; simp [CSt.addfront]
    · have hne : x ≠ b := fun e => hn'.1 (e ▸ h)
      have := ih (s.addfront b t) hn'.2 h
      simp only [CSt.addfrontAll] at this
      rw [this]
      simp [CSt.addfront, hne]


theorem appendAll_atStart {s : CSt} {O : List Nat} (hi : Inv s O) (hO : O ≠ []) (it : Item) :
    (s.appendAll O it).atStart = false := by
  cases hst : s.atStart with
  | true =>
    have := hi.start hst; subst this
    exact atStart_false_of_items (appendAll_items_ne it 0 [0] s (by simp))
  | false =>
    exact ((HeapExt.appendAll O it O s (fun _ h => h)).step hi.hlt.1).atStart_false hi.hlt.2 hst

/-- invariant of the state list -/
structure SInv (s : CSt) : Prop where
  states_lt : ∀ r ∈ s.states, r < s.next
  root0 : s.root 0 = 0
  states0 : ∃ tl, s.states = 0 :: tl

theorem SInv.step {s s' : CSt} {O O' : List Nat} (h : Step s O s' O') (h0 : 0 < s.next) (hs : SInv s) : SInv s' := by
  refine ⟨h.states_lt hs.states_lt, by rw [h.root_stable 0 h0]; exact hs.root0, ?_⟩
  obtain ⟨tl, htl⟩ := hs.states0
  obtain ⟨t, ht⟩ := h.states_mono
  exact ⟨tl ++ t, by rw [← ht, htl]; rfl⟩

theorem SInv.init : SInv CSt.init := ⟨by simp [CSt.init], rfl, ⟨[], rfl⟩⟩

section
variable {σ : Type} (act : Nat → σ → σ) (cond : Nat → σ → Bool)
variable (prog : Stmt) (Hf : Nat → Blk) (E : Nat → σ → σ × Option Nat) (Rf : Nat → Nat) (Sf : List Nat)

/-- the simulation claim for one statement (induction hypothesis of `sim1`) -/
def SimIH (t : Stmt) : Prop :=
  ∀ (st : List Frame) (O : List Nat) (s : CSt) (m : Nat) (P' : Nat → Prop),
    Inv s O → SInv s → Fut Hf Rf Sf (compile t O s).2 P' →
    (∀ y, P' y → y < (compile t O s).2.next → (y ∈ O ∨ s.next ≤ y) → y ∈ (compile t O s).1) →
    (∀ o' ∈ (compile t O s).1, TailSim act cond prog Hf E Rf Sf m o' ((compile t O s).2.heap o').items .skip st
      (compile t O s).2.atStart) →
    ∀ o ∈ O, TailSim act cond prog Hf E Rf Sf m o (s.heap o).items t st s.atStart

theorem sim_skip : SimIH act cond prog Hf E Rf Sf .skip := by
  intro st O s m P' _ _ _ _ hprem o ho
  exact hprem o ho

theorem tailF_act (x a : Nat) (suf : List Item) (s0 : σ) :
    tailF act cond Hf E x (.act a :: suf) s0 = tailF act cond Hf E x suf (act a s0) := rfl

theorem sim_act (a : Nat) (k : Stmt) (hk : frag1 k = true) (ih : SimIH act cond prog Hf E Rf Sf k) :
    SimIH act cond prog Hf E Rf Sf (.act a k) := by
  intro st O s m P' hi hsi hF hP' hprem o ho
  have hO : O ≠ [] := fun h => by subst h; simp at ho
  have hi1 := hi.appendAll (.act a)
  have hx := HeapExt.appendAll O (.act a) O s (fun _ h => h)
  have hA1 := appendAll_atStart hi hO (.act a)
  have Tk := frag1_step k hk O _ hi1
  have hc : compile (.act a k) O s = compile k O (s.appendAll O (.act a)) := rfl
  rw [hc] at hF hP' hprem
  have hk' := ih st O _ m P' hi1 (hsi.step (hx.step hi.hlt.1) hi.hlt.2) hF (fun y hy hlt hr => hP' y hy hlt (by rw [hx.next_eq] at hr; exact hr)) hprem o ho
  intro suf hsuf s0
  have hox : o < (s.appendAll O (.act a)).next := hi1.hlt.1 o ho
  have hpre : ((s.heap o).items ++ [.act a]) <+: (Hf o).items := by
    rw [← appendAll_items_nodup (.act a) o O s hi.nodup ho]
    exact (Tk.items_mono o hox).trans (hF.items o (by have := Tk.next_le; omega))
  obtain ⟨suf', rfl⟩ := tail_split hsuf hpre
  have h1 := hk' suf' (by rw [hsuf, appendAll_items_nodup (.act a) o O s hi.nodup ho]; simp) (act a s0)
  rw [hA1] at h1
  simp only [List.singleton_append, tailF_act]
  exact SimPt_pull act cond prog E Sf (RunTo.act_ act cond a k st _ s0) h1

end
end CohdlVerif.C01
