import CohdlVerif.Lemmas.C01S4

/-! C01 - general grammar: `await` at the start, `await` in general -/
namespace CohdlVerif.C01

section
variable {σ : Type} (act : Nat → σ → σ) (cond : Nat → σ → Bool)
variable (prog : Stmt) (Hf : Nat → Blk) (E : Nat → σ → σ × Option Nat) (Rf : Nat → Nat) (Sf : List Nat)

theorem lvl_mono (R : List Nat) (j j' x : Nat) (h : j ≤ j') : lvl Rf R j x ≤ lvl Rf R j' x := by
  unfold lvl; split <;> omega

/-- levels up to the level of `o`, re-based at a block `o2` of the same state as `o` -/
theorem lvl_same_le (R0 : List Nat) (m o o2 j : Nat) (h2 : Rf o2 = Rf o) (hj : j ≤ lvl Rf R0 m o) (x : Nat) :
    lvl Rf [Rf o2] j x ≤ lvl Rf R0 m x := by
  rw [h2]
  exact Nat.le_trans (lvl_mono Rf _ _ _ x hj) (lvl_rebase Rf R0 m o x)

theorem simG_await_start_some (hE : ∀ b s, E b s = execB act cond E (Hf b) s) (c' : Nat) (k : Stmt) (l c : Bool)
    (hk : CSpec (compile k) l c) (ih : SimG act cond prog Hf E Rf Sf k l)
    (st : List Frame) (s : CSt) (m : Nat) (R0 : List Nat) (P' : Nat → Prop)
    (hi : Inv s [0]) (hsi : SInv s) (hst : s.atStart = true)
    (hbad : (compile (.await (some c') k) [0] s).2.bad = false)
    (hF : Fut Hf Rf Sf (compile (.await (some c') k) [0] s).2 P')
    (hP' : ∀ y, P' y → y < (compile (.await (some c') k) [0] s).2.next → (y ∈ [0] ∨ s.next ≤ y) →
      y ∈ Outs s (compile (.await (some c') k) [0] s).1 (compile (.await (some c') k) [0] s).2)
    (hp : Prems act cond prog Hf E Rf Sf m R0 st s (compile (.await (some c') k) [0] s)) :
    TailSim2 act cond prog Hf E Rf Sf (lvl Rf R0 m 0) 0 (s.heap 0).items (.await (some c') k) st true := by
  have hc : compile (.await (some c') k) [0] s = compile k [s.next] (itePre c' 0 s) := by
    rw [compile_await_some]; simp [enterState_start [0] s hst]
  rw [hc] at hF hP' hp hbad
  have hsl := itePre_sameLists c' 0 s
  have h0 : 0 < s.next := hi.hlt.2
  have T1 := itePre_step c' 0 s h0
  have hl1 := T1.hlt ⟨by simpa using h0, h0⟩
  have hA1 := itePre_atStart c' 0 s h0 h0 (fun _ => rfl)
  have hn1 : (itePre c' 0 s).next = s.next + 2 := rfl
  have hi1 : Inv (itePre c' 0 s) [s.next] := Inv.single (by omega) hl1.2 hA1 (itePre_child_front c' 0 s)
  have hsi1 := hsi.step T1 h0
  have Tk := hk.step hi1 (fun _ => hA1)
  have hn := Tk.next_le
  rw [← Outs_congr hsl] at hP'
  have hnP : ∀ y, y < s.next + 2 → (y ∈ [0] ∨ s.next ≤ y) → y ≠ s.next → ¬ P' y := fun y hy hr hne hp' => by
    have := hP' y hp' (by omega) hr
    rcases (Tk.outs_r y this).1 with h | h
    · simp at h; omega
    · omega
  have hH0 : Hf 0 = { front := [], items := [.ite c' s.next (s.next + 1)] } := by
    rw [hF.closed 0 (by omega) (hnP 0 (by omega) (Or.inl (by simp)) (by omega)), Tk.frame 0 (by omega) (by simp; omega),
      itePre_parent_heap c' 0 s h0, atStart_heap0 hst]
    rfl
  have hHe : Hf (s.next + 1) = {} := by
    rw [hF.closed (s.next + 1) (by omega) (hnP (s.next + 1) (by omega) (Or.inr (by omega)) (by omega)),
      Tk.frame (s.next + 1) (by omega) (by simp), itePre_child2_heap c' 0 s h0]
  obtain ⟨hc0, hS0⟩ := cur_zero Hf Rf Sf hsi h0 (Fut.back (P := fun _ => True) (T1.trans (by simpa using h0)
    (Tk.weaken (O := [s.next + 1, s.next, 0]) (by simp) (fun o ho => InR.weakenO (by simp) (Tk.open_r o ho))))
    (by simp) (fun _ _ => Or.inl trivial) hF)
  have hRf : Rf s.next = Rf 0 := by
    rw [hF.root s.next (by omega), hF.root 0 (by omega), Tk.root_stable s.next (by omega),
      Tk.root_stable 0 (by omega), itePre_child_root c' 0 s h0, T1.root_stable 0 h0]
  have hcur : cur Rf Sf s.next = 0 := by rw [cur, hRf]; exact hc0
  have hks : ∀ j, j ≤ lvl Rf R0 m 0 → TailSim2 act cond prog Hf E Rf Sf j s.next [] k st false := by
    intro j hj
    have := ih st [s.next] _ j [Rf s.next] P' hi1 hsi1 (fun _ => hA1) hbad hF
      (fun y hy hlt hr => hP' y hy hlt (by
        rcases hr with h | h
        · simp at h; right; omega
        · right; omega))
      ((hp.congr act cond prog Hf E Rf Sf hsl).mono act cond prog Hf E Rf Sf (lvl_same_le Rf R0 m 0 s.next j hRf hj))
      s.next (by simp)
    rwa [itePre_child_heap c' 0 s h0, hA1, lvl_self] at this
  have hEn : ∀ s1, E 0 s1 = if evalC cond (some c') s1 then E s.next s1 else (s1, none) := by
    intro s1
    rw [E_single_ite act cond Hf E hE 0 c' s.next (s.next + 1) hH0, E_empty act cond Hf E hE _ hHe]
    rfl
  intro suf hsuf s0
  rw [hH0, atStart_heap0 hst] at hsuf
  have : suf = [.ite c' s.next (s.next + 1)] := by simpa using hsuf.symm
  subst this
  have htl : tailF act cond Hf E 0 [.ite c' s.next (s.next + 1)] s0 = E 0 s0 := by
    rw [E_tailF act cond Hf E hE 0, hH0]
  rw [htl, hEn]
  cases hcc : cond c' s0 with
  | true =>
    simp only [evalC, hcc, if_true]
    have h1 := hks _ (Nat.le_refl _) (Hf s.next).items (by simp) s0
    rw [← E_tailF act cond Hf E hE s.next, hcur] at h1
    rw [hc0]
    exact SimPt2_pull act cond prog E Sf (RunTo.await_fresh_some act cond c' k st s0 hcc) (fun h => by cases h) h1
  | false =>
    simp only [evalC, hcc, Bool.false_eq_true, if_false]
    by_cases hm : lvl Rf R0 m 0 = 0
    · exact Or.inl hm
    right
    refine ⟨1, .atAwait (some c') k st, run_await_fresh_false act cond c' k st s0 hcc, ?_, fun h => by cases h⟩
    simp only [Option.getD_none, hc0]
    exact await_state_sim2 act cond prog Hf E Rf Sf (some c') k st 0 0 s.next hS0 hEn
      (E_tailF act cond Hf E hE s.next) hcur _ (fun j hj => hks j (by omega))

theorem simG_await (hE : ∀ b s, E b s = execB act cond E (Hf b) s) (cc : Option Nat) (k : Stmt) (l c : Bool)
    (hk : CSpec (compile k) l c) (ih : SimG act cond prog Hf E Rf Sf k l) :
    SimG act cond prog Hf E Rf Sf (.await cc k) l := by
  intro st O s m R0 P' hi hsi hL hbad hF hP' hp o ho
  cases hst : s.atStart with
  | false =>
    cases cc with
    | none => exact simG_await_ns_none act cond prog Hf E Rf Sf hE k l c hk ih st O s m R0 P' hi hsi hst hbad hF hP' hp o ho
    | some c' =>
      exact simG_await_ns_some act cond prog Hf E Rf Sf hE c' k l c hk ih st O s m R0 P' hi hsi hst hbad hF hP' hp o ho
  | true =>
    have hO := hi.start hst
    subst hO
    have ho0 : o = 0 := by simpa using ho
    subst ho0
    cases cc with
    | some c' =>
      exact simG_await_start_some act cond prog Hf E Rf Sf hE c' k l c hk ih st s m R0 P' hi hsi hst hbad hF hP' hp
    | none =>
      have hc : compile (.await none k) [0] s = compile k [0] s := by
        rw [compile_await_none]; simp [enterState_start [0] s hst]
      rw [hc] at hF hP' hp hbad
      have h1 := ih st [0] s m R0 P' hi hsi hL hbad hF hP' hp 0 (by simp)
      rw [hst] at h1
      intro suf hsuf s0
      exact SimPt2_pull act cond prog E Sf (RunTo.await_fresh_none act cond k st s0) (fun h => by cases h) (h1 suf hsuf s0)

end
end CohdlVerif.C01
