import CohdlVerif.Lemmas.C01G4

/-! C01 - general grammar: forward invariant through the `If` loop and `if` -/
namespace CohdlVerif.C01

theorem FPost.nodup_open {s s' : CSt} {O' : List Nat} (h : FPost s O' s') : O'.Nodup := by
  have := h.1
  simp only [Outs] at this
  exact (List.nodup_append.mp (List.nodup_append.mp (List.nodup_append.mp this).1).1).1

theorem iteLoop_consR (c : Nat) (t1 e1 : Stmt) (b : Nat) (bs : List Nat) (s : CSt) (acc : List Nat) :
    iteLoop c (compile t1) (compile e1) (b :: bs) s acc =
      iteLoop c (compile t1) (compile e1) bs (iR5 t1 e1 c b s).2
        (mergeAcc acc b s.next (s.next + 1) (iR4 t1 c b s).1 (iR5 t1 e1 c b s).1) := rfl

theorem iteLoop_fpost (c : Nat) (t1 e1 : Stmt) (l cf : Bool) (ht : CSpec (compile t1) l cf)
    (he : CSpec (compile e1) l cf) (ft : FwdG (compile t1) l) (fe : FwdG (compile e1) l)
    (s0 : CSt) (O0 : List Nat) (hlt0 : ∀ o ∈ O0, o < s0.next) (h00 : 0 < s0.next) :
    ∀ (bs : List Nat) (s : CSt) (acc : List Nat), Step s0 O0 s (bs ++ acc) → FPost s0 (bs ++ acc) s →
      (s.atStart = true → bs = [0]) →
      FPost s0 (iteLoop c (compile t1) (compile e1) bs s acc).1 (iteLoop c (compile t1) (compile e1) bs s acc).2 ∧
      Step s0 O0 (iteLoop c (compile t1) (compile e1) bs s acc).2 (iteLoop c (compile t1) (compile e1) bs s acc).1 := by
  intro bs
  induction bs with
  | nil => intro s acc hS hP _; simpa [iteLoop] using And.intro hP hS
  | cons b bs ih =>
    intro s acc hS hP hst
    rw [iteLoop_consR]
    have hl := hS.hlt ⟨hlt0, h00⟩
    have hnd : (b :: (bs ++ acc)).Nodup := by simpa using hP.nodup_open
    have hb : b < s.next := hl.1 b (by simp)
    have hX : ∀ x ∈ bs ++ acc, x < s.next ∧ (s.heap x).front = [] := fun x hx =>
      ⟨hl.1 x (by simp at hx ⊢; right; exact hx), hP.2 x (mem_Outs.mpr (Or.inl (by simp at hx ⊢; right; exact hx)))⟩
    obtain ⟨P5, S5⟩ := iteIter_fpost c t1 e1 l cf ht he ft fe b (bs ++ acc) s hb hl.2
      (fun h => by have := hst h; simp at this; exact this.1)
      (hP.2 b (mem_Outs.mpr (Or.inl (by simp)))) hnd hX
    have hbig := P5.nodup_open
    have hacc : acc.Nodup := (List.nodup_append.mp (List.nodup_cons.mp hnd).2).2.1
    -- the blocks kept
    have hsub : ∀ y ∈ bs ++ mergeAcc acc b s.next (s.next + 1) (iR4 t1 c b s).1 (iR5 t1 e1 c b s).1,
        y ∈ (iR5 t1 e1 c b s).1 ++ ((iR4 t1 c b s).1 ++ (b :: (bs ++ acc))) := by
      intro y hy
      rcases List.mem_append.mp hy with h | h
      · simp [h]
      · rcases mem_mergeAcc' h with h | h | h | h <;> simp [h]
    have hn1 : (bs ++ mergeAcc acc b s.next (s.next + 1) (iR4 t1 c b s).1 (iR5 t1 e1 c b s).1).Nodup := by
      rw [List.nodup_append]
      refine ⟨(List.nodup_append.mp (List.nodup_cons.mp hnd).2).1, nodup_mergeAcc _ _ _ _ _ _ hacc, ?_⟩
      intro a ha a' ha' e
      subst e
      have hbs : a ∉ (iR5 t1 e1 c b s).1 ∧ a ∉ (iR4 t1 c b s).1 ∧ a ≠ b ∧ a ∉ acc := by
        have h1 := List.nodup_append.mp hbig
        have h2 := List.nodup_append.mp h1.2.1
        have h3 := List.nodup_cons.mp h2.2.1
        have h4 := List.nodup_append.mp h3.2
        refine ⟨fun h => h1.2.2 a h a (by simp [ha]) rfl, fun h => h2.2.2 a h a (by simp [ha]) rfl,
          fun e => h3.1 (e ▸ by simp [ha]), fun h => h4.2.2 a ha a h rfl⟩
      rcases mem_mergeAcc' ha' with h | h | h | h
      · exact hbs.2.2.2 h
      · exact hbs.2.2.1 h
      · exact hbs.2.1 h
      · exact hbs.1 h
    have P5' := P5.restrict hn1 hsub
    have S5' : Step s (b :: (bs ++ acc)) (iR5 t1 e1 c b s).2
        (bs ++ mergeAcc acc b s.next (s.next + 1) (iR4 t1 c b s).1 (iR5 t1 e1 c b s).1) :=
      S5.weaken (fun _ h => h) (fun o ho => S5.open_r o (hsub o ho))
    have hS' : Step s0 O0 s (b :: (bs ++ acc)) := by simpa using hS
    have hP' : FPost s0 (b :: (bs ++ acc)) s := by simpa using hP
    have hA5 : (iR5 t1 e1 c b s).2.atStart = false :=
      (iteIter_step c (compile t1) (compile e1) ht.br he.br b s hb hl.2
        (fun h => by have := hst h; simp at this; exact this.1)).2
    exact ih _ _ (hS'.trans hlt0 S5') (FPost.comp hlt0 hS' S5' hP' P5') (fun h => by rw [hA5] at h; cases h)


theorem fwd_ite (cc : Nat) (t e k : Stmt) (l c : Bool) (ht : CSpec (compile t) l c) (he : CSpec (compile e) l c)
    (hk : CSpec (compile k) l c) (ft : FwdG (compile t) l) (fe : FwdG (compile e) l) (fk : FwdG (compile k) l) :
    FwdG (compile (.ite cc t e k)) l := by
  intro O s hi hL
  have hP0 : FPost s (O ++ []) s := FPost.of_same (SameLists.refl s) (by simpa using hi.nodup) (by simpa using hi.front)
  have hS0 : Step s O s (O ++ []) := by simpa using Step.refl s O
  obtain ⟨P, S⟩ := iteLoop_fpost cc t e l c ht he ft fe s O hi.hlt.1 hi.hlt.2 O s [] hS0 hP0 hi.start
  obtain ⟨_, _, hA⟩ := iteLoop_step cc (compile t) (compile e) ht.br he.br O s [] hi.hlt hi.start
  rw [compile_ite]
  split
  · exact P
  · have hAe : (iteLoop cc (compile t) (compile e) O s []).2.atStart = false := by
      by_cases hO : O = []
      · subst hO; simp only [iteLoop]; exact hi.nil_atStart
      · exact hA hO
    have hie : Inv (iteLoop cc (compile t) (compile e) O s []).2 (iteLoop cc (compile t) (compile e) O s []).1 :=
      ⟨S.hlt hi.hlt, fun h => (by rw [hAe] at h; cases h), P.nodup_open,
       fun o ho => P.2 o (mem_Outs.mpr (Or.inl ho))⟩
    exact FPost.comp hi.hlt.1 S (hk.step hie (fun _ => hAe)) P (fk _ _ hie (fun _ => hAe))

end CohdlVerif.C01
