import CohdlVerif.Lemmas.C11Lemmas

/-!
  C11 - helper lemmas for `output_independent_of_history`: two runs of the same event list from two states that
  agree on everything a compilation can observe produce the same result.
-/
namespace CohdlVerif.C11

/-- the owner of the prefix counters is an object of an earlier compilation (or none) -/
def Old (o : Option Id) : Prop := ∀ p, o = some p → p.1 ≠ 0

/-- every object on the entity / block stacks belongs to the running compilation -/
def AllNew (g : G) : Prop :=
  ∀ k, (k = Kind.arch ∨ k = Kind.blk) → ∀ p ∈ g.s k, ∀ i, idOf p = some i → i.1 = 0

structure Sim (g g' : G) : Prop where
  s : ∀ k, masked k = false → g.s k = g'.s k
  inst : g.inst = g'.inst
  reg : g.reg = g'.reg
  pfx : (g.owner = g'.owner ∧ g.existing = g'.existing) ∨ (Old g.owner ∧ Old g'.owner)
  fn : CacheSound g.fnCache ∧ CacheSound g'.fnCache
  ty : CacheSound g.tyCache ∧ CacheSound g'.tyCache
  /-- the dynamic ports of every entity whose architecture is running agree (they were discarded on both sides
      when the architecture was entered); those of other classes may differ arbitrarily -/
  dyn : ∀ fr ∈ g.s .arch, ∀ p, (fr.getD 2 0, p) ∈ g.dyn ↔ (fr.getD 2 0, p) ∈ g'.dyn
  /-- the class-level reserved-name sets of the back end have the same content -/
  res : g.reserved = g'.reserved

theorem cur_eq {g g' : G} (h : Sim g g') : cur g = cur g' := by
  unfold cur
  rw [h.s .arch rfl, h.s .blk rfl]

theorem cur_new {g : G} (hn : AllNew g) {c : Id} (hc : cur g = some c) : c.1 = 0 := by
  unfold cur at hc
  split at hc
  · rename_i p ps hs
    exact hn .arch (Or.inl rfl) p (by simp [hs]) c hc
  · rename_i hs
    cases hl : (g.s .blk).getLast? with
    | none => simp [hl] at hc
    | some p =>
      simp only [hl, Option.bind_some] at hc
      exact hn .blk (Or.inr rfl) p (List.mem_of_getLast? hl) c hc

theorem allNew_push {g : G} (k : Kind) (p : List Nat) (hp : ∀ i, idOf p = some i → i.1 = 0)
    (h : AllNew g) : AllNew (push k p g) := by
  intro j hj q hq i hi
  by_cases e : j = k
  · subst e
    simp only [push_s, upd_same, List.mem_cons] at hq
    rcases hq with rfl | hq
    · exact hp i hi
    · exact h j hj q hq i hi
  · simp only [push_s, upd_other _ _ _ _ e] at hq
    exact h j hj q hq i hi

theorem allNew_pop {g : G} (k : Kind) (h : AllNew g) : AllNew (pop k g) := by
  intro j hj q hq i hi
  by_cases e : j = k
  · subst e
    simp only [pop_s, upd_same] at hq
    exact h j hj q (List.mem_of_mem_tail hq) i hi
  · simp only [pop_s, upd_other _ _ _ _ e] at hq
    exact h j hj q hq i hi

theorem allNew_congr {g g1 : G} (hs : g1.s = g.s) (h : AllNew g) : AllNew g1 := by
  intro j hj q hq i hi
  rw [hs] at hq
  exact h j hj q hq i hi

theorem sim_push {g g' : G} (k : Kind) (p : List Nat) (hk : k ≠ .arch) (h : Sim g g') :
    Sim (push k p g) (push k p g') := by
  refine ⟨?_, h.inst, h.reg, h.pfx, h.fn, h.ty, ?_, h.res⟩
  · intro j hj
    by_cases e : j = k
    · subst e; simp [h.s j hj]
    · simp [upd_other _ _ _ _ e, h.s j hj]
  · intro fr hfr
    simp only [push_s, upd_other _ _ _ _ (Ne.symm hk)] at hfr
    exact h.dyn fr hfr

theorem sim_pop {g g' : G} (k : Kind) (h : Sim g g') : Sim (pop k g) (pop k g') := by
  refine ⟨?_, h.inst, h.reg, h.pfx, h.fn, h.ty, ?_, h.res⟩
  · intro j hj
    by_cases e : j = k
    · subst e; simp [h.s j hj]
    · simp [upd_other _ _ _ _ e, h.s j hj]
  · intro fr hfr
    refine h.dyn fr ?_
    by_cases e : Kind.arch = k
    · subst e
      simp only [pop_s, upd_same] at hfr
      exact List.mem_of_mem_tail hfr
    · simpa only [pop_s, upd_other _ _ _ _ e] using hfr

theorem sim_exitOk {g g' : G} (k : Kind) (h : Sim g g') : Sim (exitOk k g) (exitOk k g') := by
  cases k with
  | conv =>
    have hp := sim_pop .conv h
    simp only [exitOk]
    refine ⟨hp.s, ?_, rfl, hp.pfx, hp.fn, hp.ty, hp.dyn, hp.res⟩
    simp only [pop_inst, pop_reg, h.inst, h.reg]
  | arch =>
    simp only [exitOk]
    rw [← h.s .arch rfl]
    split
    · have hp := sim_pop .arch h
      exact ⟨hp.s, hp.inst, by simp [h.reg], hp.pfx, hp.fn, hp.ty, hp.dyn, hp.res⟩
    · exact h
  | ctx =>
    simp only [exitOk]
    refine ⟨?_, h.inst, h.reg, h.pfx, h.fn, h.ty, ?_, h.res⟩
    · intro j hj
      by_cases e : j = .ctx
      · subst e; simp
      · simp [upd_other _ _ _ _ e, h.s j hj]
    · intro fr hfr
      simp only [upd_other _ _ _ _ (show Kind.arch ≠ Kind.ctx by decide)] at hfr
      exact h.dyn fr hfr
  | archReuse => exact sim_pop _ h
  | blk => exact sim_pop _ h
  | pfx => exact sim_pop _ h
  | hdl => exact sim_pop _ h
  | apply => exact sim_pop _ h
  | ret => exact sim_pop _ h
  | always => exact sim_pop _ h
  | ircall => exact sim_pop _ h
  | irapply => exact sim_pop _ h
  | sm => exact sim_pop _ h
  | loop => exact sim_pop _ h
  | scope => exact sim_pop _ h

theorem allNew_exitOk {g : G} (k : Kind) (h : AllNew g) : AllNew (exitOk k g) := by
  cases k with
  | conv => exact allNew_congr (g := pop .conv g) rfl (allNew_pop _ h)
  | arch =>
    simp only [exitOk]
    split
    · exact allNew_congr (g := pop .arch g) rfl (allNew_pop _ h)
    · exact h
  | ctx =>
    intro j hj q hq i hi
    have e : j ≠ .ctx := by rcases hj with rfl | rfl <;> decide
    simp only [exitOk, upd_other _ _ _ _ e] at hq
    exact h j hj q hq i hi
  | archReuse => exact allNew_pop _ h
  | blk => exact allNew_pop _ h
  | pfx => exact allNew_pop _ h
  | hdl => exact allNew_pop _ h
  | apply => exact allNew_pop _ h
  | ret => exact allNew_pop _ h
  | always => exact allNew_pop _ h
  | ircall => exact allNew_pop _ h
  | irapply => exact allNew_pop _ h
  | sm => exact allNew_pop _ h
  | loop => exact allNew_pop _ h
  | scope => exact allNew_pop _ h

/-- `_Prefix.__init__` in two simulating states: same prefix string, states still simulate -/
theorem sim_mkPrefix {g g' : G} (p : Nat) (h : Sim g g') (hn : AllNew g) :
    (mkPrefix p g = none ∧ mkPrefix p g' = none) ∨
    ∃ g1 g1' str, mkPrefix p g = some (g1, str) ∧ mkPrefix p g' = some (g1', str) ∧ Sim g1 g1' ∧
      g1.s = g.s ∧ g1'.s = g'.s := by
  have hc := cur_eq h
  cases hcur : cur g with
  | none =>
    left
    have hcur' : cur g' = none := by rw [← hc]; exact hcur
    simp [mkPrefix, hcur, hcur']
  | some c =>
    right
    have hcur' : cur g' = some c := by rw [← hc]; exact hcur
    have c0 := cur_new hn hcur
    have hpfx : g'.s .pfx = g.s .pfx := (h.s .pfx rfl).symm
    rcases h.pfx with ⟨ho, he⟩ | ⟨o1, o2⟩
    · by_cases hoc : g.owner = some c
      · have hoc' : g'.owner = some c := by rw [← ho]; exact hoc
        simp only [mkPrefix, hcur, hcur', hoc, hoc', if_true, hpfx, ← he]
        exact ⟨_, _, _, rfl, rfl, ⟨h.s, h.inst, h.reg, Or.inl ⟨by simp [hoc, hoc'], rfl⟩, h.fn, h.ty, h.dyn, h.res⟩, rfl, rfl⟩
      · have hoc' : ¬ g'.owner = some c := by rw [← ho]; exact hoc
        simp only [mkPrefix, hcur, hcur', hoc, hoc', if_false, hpfx]
        exact ⟨_, _, _, rfl, rfl, ⟨h.s, h.inst, h.reg, Or.inl ⟨rfl, rfl⟩, h.fn, h.ty, h.dyn, h.res⟩, rfl, rfl⟩
    · have n1 : ¬ g.owner = some c := fun e => o1 c e c0
      have n2 : ¬ g'.owner = some c := fun e => o2 c e c0
      simp only [mkPrefix, hcur, hcur', n1, n2, if_false, hpfx]
      exact ⟨_, _, _, rfl, rfl, ⟨h.s, h.inst, h.reg, Or.inl ⟨rfl, rfl⟩, h.fn, h.ty, h.dyn, h.res⟩, rfl, rfl⟩

theorem allNew_push_other {g : G} (k : Kind) (p : List Nat) (h1 : k ≠ .arch) (h2 : k ≠ .blk)
    (h : AllNew g) : AllNew (push k p g) := by
  intro j hj q hq i hi
  have e : j ≠ k := by
    rcases hj with rfl | rfl
    · exact Ne.symm h1
    · exact Ne.symm h2
  simp only [push_s, upd_other _ _ _ _ e] at hq
  exact h j hj q hq i hi

/-- outcome of two runs agree (used for `enter` and `act`) -/
def Agree {α : Type} (x y : Except Err (G × α)) (P : G → G → Prop) : Prop :=
  (∃ e, x = .error e ∧ y = .error e) ∨ (∃ g1 g1' t, x = .ok (g1, t) ∧ y = .ok (g1', t) ∧ P g1 g1')

theorem sim_enter {g g' : G} (k : Kind) (a : List Nat) (n : Nat) (h : Sim g g') (hn : AllNew g) :
    Agree (enter k a n g) (enter k a n g') (fun g1 g1' => Sim g1 g1' ∧ AllNew g1) := by
  have generic : ∀ k : Kind, k ≠ .arch → k ≠ .blk →
      Agree (.ok (push k a g, ([] : List Tok), k)) (.ok (push k a g', ([] : List Tok), k))
        (fun g1 g1' => Sim g1 g1' ∧ AllNew g1) :=
    fun k h1 h2 => Or.inr ⟨_, _, _, rfl, rfl, sim_push k a h1 h, allNew_push_other k a h1 h2 hn⟩
  have archCase : Agree
      (let e := a.headD 0
       if g.s .conv = [] then (.error .noConv : Except Err (G × List Tok × Kind))
       else if g.inst.contains e then .ok (push .archReuse [e] g, [[3, e]], .archReuse)
       else .ok ({ push .arch [0, n, e] g with inst := e :: g.inst, dyn := g.dyn.filter (fun q => q.1 != e) }, [], .arch))
      (let e := a.headD 0
       if g'.s .conv = [] then (.error .noConv : Except Err (G × List Tok × Kind))
       else if g'.inst.contains e then .ok (push .archReuse [e] g', [[3, e]], .archReuse)
       else .ok ({ push .arch [0, n, e] g' with inst := e :: g'.inst, dyn := g'.dyn.filter (fun q => q.1 != e) }, [], .arch))
      (fun g1 g1' => Sim g1 g1' ∧ AllNew g1) := by
    simp only [← h.s .conv rfl, ← h.inst]
    by_cases hc : g.s .conv = []
    · left; exact ⟨.noConv, by simp [hc], by simp [hc]⟩
    · by_cases hi : g.inst.contains (a.headD 0) = true
      · right
        refine ⟨_, _, _, by simp only [hc, hi, if_true, if_false]; rfl, by simp only [hc, hi, if_true, if_false]; rfl, ?_, ?_⟩
        · exact sim_push _ _ (by decide) h
        · exact allNew_push_other _ _ (by decide) (by decide) hn
      · right
        refine ⟨_, _, _, by simp only [hc, hi, if_false]; rfl, by simp only [hc, hi, if_false]; rfl, ?_, ?_⟩
        · refine ⟨?_, by simp [h.inst], h.reg, h.pfx, h.fn, h.ty, ?_, h.res⟩
          · intro j hj
            by_cases e : j = .arch
            · subst e; simp [h.s _ hj]
            · simp [upd_other _ _ _ _ e, h.s j hj]
          · intro fr hfr p
            simp only [push_s, upd_same, List.mem_cons] at hfr
            simp only [List.mem_filter, bne_iff_ne, ne_eq]
            rcases hfr with rfl | hfr
            · simp
            · have := h.dyn fr hfr p
              simp only [this]
        · exact allNew_congr (g := push .arch [0, n, a.headD 0] g) rfl
            (allNew_push _ _ (by intro i hi; simp [idOf] at hi; rw [← hi]) hn)
  cases k with
  | conv =>
    simp only [enter, ← h.s .conv rfl]
    by_cases hc : g.s .conv = []
    · right
      refine ⟨_, _, _, by simp only [hc, ne_eq, not_true_eq_false, if_false]; rfl,
        by simp only [hc, ne_eq, not_true_eq_false, if_false]; rfl, ?_, ?_⟩
      · have hp := sim_push .conv [0, n] (by decide) h
        exact ⟨hp.s, hp.inst, rfl, hp.pfx, hp.fn, hp.ty, hp.dyn, hp.res⟩
      · exact allNew_congr (g := push .conv [0, n] g) rfl (allNew_push_other _ _ (by decide) (by decide) hn)
    · left; exact ⟨.convActive, by simp [hc], by simp [hc]⟩
  | arch => simpa only [enter] using archCase
  | archReuse => simpa only [enter] using archCase
  | blk =>
    right
    exact ⟨_, _, _, rfl, rfl, sim_push _ _ (by decide) h, allNew_push _ _ (by intro i hi; simp [idOf] at hi; rw [← hi]) hn⟩
  | ctx =>
    right
    refine ⟨_, _, _, rfl, rfl, ⟨?_, h.inst, h.reg, h.pfx, h.fn, h.ty, ?_, h.res⟩, ?_⟩
    · intro j hj
      by_cases e : j = .ctx
      · subst e; simp
      · simp [upd_other _ _ _ _ e, h.s j hj]
    · intro fr hfr
      simp only [upd_other _ _ _ _ (show Kind.arch ≠ Kind.ctx by decide)] at hfr
      exact h.dyn fr hfr
    · intro j hj q hq i hi
      have e : j ≠ .ctx := by rcases hj with rfl | rfl <;> decide
      simp only [upd_other _ _ _ _ e] at hq
      exact hn j hj q hq i hi
  | pfx =>
    simp only [enter]
    rcases sim_mkPrefix (a.headD 0) h hn with ⟨e1, e2⟩ | ⟨g1, g1', str, e1, e2, hs, hs1, _⟩
    · left; exact ⟨.noEntity, by rw [e1], by rw [e2]⟩
    · right
      refine ⟨_, _, _, by rw [e1], by rw [e2], sim_push _ _ (by decide) hs, ?_⟩
      exact allNew_push_other _ _ (by decide) (by decide) (allNew_congr hs1 hn)
  | sm =>
    simp only [enter, ← h.s .sm rfl]
    by_cases hc : g.s .sm = []
    · simpa [hc] using generic .sm (by decide) (by decide)
    · left; exact ⟨.nestedSM, by simp [hc], by simp [hc]⟩
  | hdl => simpa only [enter] using generic .hdl (by decide) (by decide)
  | apply => simpa only [enter] using generic .apply (by decide) (by decide)
  | ret => simpa only [enter] using generic .ret (by decide) (by decide)
  | always => simpa only [enter] using generic .always (by decide) (by decide)
  | ircall => simpa only [enter] using generic .ircall (by decide) (by decide)
  | irapply => simpa only [enter] using generic .irapply (by decide) (by decide)
  | loop => simpa only [enter] using generic .loop (by decide) (by decide)
  | scope =>
    right
    refine ⟨_, _, _, rfl, ?_, sim_push .scope (g.reserved ++ a) (by decide) h,
      allNew_push_other _ _ (by decide) (by decide) hn⟩
    simp only [enter, h.res]

theorem sim_act {g g' : G} (cfg : Cfg) (perm : List Nat → List Nat) (a : Act) (h : Sim g g') (hn : AllNew g) :
    Agree (act cfg perm a g) (act cfg perm a g') (fun g1 g1' => Sim g1 g1' ∧ AllNew g1) := by
  cases a with
  | name n =>
    simp only [act, ← h.s .pfx rfl]
    cases g.s .pfx with
    | nil => right; exact ⟨_, _, _, rfl, rfl, h, hn⟩
    | cons t ts => right; exact ⟨_, _, _, rfl, rfl, h, hn⟩
  | useCtx =>
    simp only [act, ← h.s .ctx rfl]
    cases g.s .ctx with
    | nil => left; exact ⟨_, rfl, rfl⟩
    | cons t ts => right; exact ⟨_, _, _, rfl, rfl, h, hn⟩
  | fn f =>
    right
    have s1 := cacheGet_sound f h.fn.1
    have s2 := cacheGet_sound f h.fn.2
    refine ⟨{ g with fnCache := (cacheGet g.fnCache f).2 }, { g' with fnCache := (cacheGet g'.fnCache f).2 },
      [[4, f, defOf f]], ?_, ?_, ⟨h.s, h.inst, h.reg, h.pfx, ⟨s1.2, s2.2⟩, h.ty, h.dyn, h.res⟩, allNew_congr rfl hn⟩
    · simp only [act, s1.1]
    · simp only [act, s2.1]
  | ty t =>
    right
    have s1 := cacheGet_sound t h.ty.1
    have s2 := cacheGet_sound t h.ty.2
    refine ⟨{ g with tyCache := (cacheGet g.tyCache t).2 }, { g' with tyCache := (cacheGet g'.tyCache t).2 },
      [[5, t, defOf t]], ?_, ?_, ⟨h.s, h.inst, h.reg, h.pfx, h.fn, ⟨s1.2, s2.2⟩, h.dyn, h.res⟩, allNew_congr rfl hn⟩
    · simp only [act, s1.1]
    · simp only [act, s2.1]
  | ifExpr => right; exact ⟨_, _, _, rfl, rfl, ⟨h.s, h.inst, h.reg, h.pfx, h.fn, h.ty, h.dyn, h.res⟩, allNew_congr rfl hn⟩
  | libs xs => right; exact ⟨_, _, _, rfl, rfl, h, hn⟩
  | mem x xs => right; exact ⟨_, _, _, rfl, rfl, h, hn⟩
  | emit t => right; exact ⟨_, _, _, rfl, rfl, h, hn⟩
  | declare n =>
    simp only [act, ← h.s .scope rfl]
    cases g.s .scope with
    | nil => left; exact ⟨_, rfl, rfl⟩
    | cons t ts => right; exact ⟨_, _, _, rfl, rfl, h, hn⟩
  | addPort p =>
    simp only [act, ← h.s .arch rfl]
    cases hs : g.s .arch with
    | nil => left; exact ⟨_, rfl, rfl⟩
    | cons fr frs =>
      simp only
      have hd := h.dyn fr (by simp [hs]) p
      by_cases hc : g.dyn.contains (fr.getD 2 0, p) = true
      · have hc' : g'.dyn.contains (fr.getD 2 0, p) = true := by
          simp only [List.contains_eq_mem, decide_eq_true_eq] at hc ⊢
          exact hd.mp hc
        left; exact ⟨.portExists, by simp only [hc, if_true], by simp only [hc', if_true]⟩
      · have hc' : ¬ g'.dyn.contains (fr.getD 2 0, p) = true := by
          simp only [List.contains_eq_mem, decide_eq_true_eq] at hc ⊢
          exact fun x => hc (hd.mpr x)
        right
        have hc1 : g.dyn.contains (fr.getD 2 0, p) = false := by simpa using hc
        have hc2 : g'.dyn.contains (fr.getD 2 0, p) = false := by simpa using hc'
        refine ⟨{ g with dyn := (fr.getD 2 0, p) :: g.dyn }, { g' with dyn := (fr.getD 2 0, p) :: g'.dyn },
          [[9, fr.getD 2 0, p]], by rw [hc1]; rfl, by rw [hc2]; rfl,
          ⟨h.s, h.inst, h.reg, h.pfx, h.fn, h.ty, ?_, h.res⟩, allNew_congr rfl hn⟩
        intro fr2 hfr2 q
        have := h.dyn fr2 hfr2 q
        simp only [List.mem_cons, this]

/-- two runs of the same events from simulating states give the same result -/
theorem run_result_eq (cfg : Cfg) (perm : List Nat → List Nat) (evs : List Ev) :
    ∀ (F : List Kind) (n : Nat) (g g' : G) (out : List Tok), Sim g g' → AllNew g →
      (run cfg perm evs F n g out).1 = (run cfg perm evs F n g' out).1 := by
  induction evs with
  | nil => intro F n g g' out _ _; rfl
  | cons ev evs ih =>
    intro F n g g' out h hn
    cases ev with
    | fail => rfl
    | exit =>
      cases F with
      | nil => exact ih [] _ g g' out h hn
      | cons k F => exact ih F _ _ _ out (sim_exitOk k h) (allNew_exitOk k hn)
    | enter k a =>
      simp only [run]
      rcases sim_enter k a n h hn with ⟨e, e1, e2⟩ | ⟨g1, g1', t, e1, e2, hs, hn1⟩
      · rw [e1, e2]
      · obtain ⟨t1, k1⟩ := t
        rw [e1, e2]
        exact ih _ _ _ _ _ hs hn1
    | act a =>
      simp only [run]
      rcases sim_act cfg perm a h hn with ⟨e, e1, e2⟩ | ⟨g1, g1', t, e1, e2, hs, hn1⟩
      · rw [e1, e2]
      · rw [e1, e2]
        exact ih _ _ _ _ _ hs hn1

end CohdlVerif.C11

namespace CohdlVerif.C11

/-- a clean state with an old prefix owner and sound caches simulates the initial state -/
theorem sim_init {g : G} (h : Clean g) (ho : Old g.owner) (hf : CacheSound g.fnCache) (ht : CacheSound g.tyCache)
    (hr : g.reserved = G.init.reserved) :
    Sim g G.init ∧ AllNew g := by
  refine ⟨⟨fun k hk => by rw [h.1 k hk]; rfl, h.2.1, h.2.2, Or.inr ⟨ho, fun p hp => by simp [G.init] at hp⟩,
    ⟨hf, fun e he => by simp [G.init] at he⟩, ⟨ht, fun e he => by simp [G.init] at he⟩,
    fun fr hfr => by rw [h.1 .arch rfl] at hfr; simp at hfr, hr⟩, ?_⟩
  intro k hk p hp
  rcases hk with rfl | rfl
  · rw [h.1 .arch rfl] at hp; simp at hp
  · rw [h.1 .blk rfl] at hp; simp at hp

theorem old_age (g : G) : Old (age g).owner := by
  intro p hp
  simp only [age, Option.map_eq_some_iff] at hp
  obtain ⟨q, _, rfl⟩ := hp
  simp

/-- after any compilation the prefix owner is an object of the past -/
theorem old_run (cfg : Cfg) (perm : List Nat → List Nat) (evs : List Ev) :
    ∀ (F : List Kind) (n : Nat) (g : G) (out : List Tok), Old (run cfg perm evs F n g out).2.owner := by
  induction evs with
  | nil => intro F n g out; exact old_age _
  | cons ev evs ih =>
    intro F n g out
    cases ev with
    | fail => exact old_age _
    | exit => cases F <;> exact ih _ _ _ _
    | enter k a =>
      simp only [run]
      cases enter k a n g with
      | error e => exact old_age _
      | ok r => exact ih _ _ _ _
    | act a =>
      simp only [run]
      cases act cfg perm a g with
      | error e => exact old_age _
      | ok r => exact ih _ _ _ _

end CohdlVerif.C11

namespace CohdlVerif.C11

def CachesSound (g : G) : Prop := CacheSound g.fnCache ∧ CacheSound g.tyCache

theorem cachesSound_congr {g g1 : G} (h1 : g1.fnCache = g.fnCache) (h2 : g1.tyCache = g.tyCache)
    (h : CachesSound g) : CachesSound g1 := by
  unfold CachesSound; rw [h1, h2]; exact h

theorem mkPrefix_caches {p : Nat} {g g1 : G} {str : List Nat} (h : mkPrefix p g = some (g1, str)) :
    g1.fnCache = g.fnCache ∧ g1.tyCache = g.tyCache := by
  unfold mkPrefix at h
  split at h
  · simp at h
  · simp only [Option.some.injEq, Prod.mk.injEq] at h
    obtain ⟨h1, _⟩ := h
    subst h1
    split <;> simp

theorem enter_caches {k k1 : Kind} {a : List Nat} {n : Nat} {g g1 : G} {t : List Tok}
    (h : enter k a n g = .ok (g1, t, k1)) : g1.fnCache = g.fnCache ∧ g1.tyCache = g.tyCache := by
  cases k
  case pfx =>
    simp only [enter] at h
    split at h
    · simp at h
    · rename_i g2 str hm
      simp only [Except.ok.injEq, Prod.mk.injEq] at h
      obtain ⟨rfl, _⟩ := h
      exact mkPrefix_caches (g1 := g2) hm
  all_goals
    simp only [enter] at h
    repeat' split at h
    all_goals first
      | (simp only [Except.ok.injEq, Prod.mk.injEq] at h; obtain ⟨rfl, _⟩ := h; exact ⟨rfl, rfl⟩)
      | (simp at h)

theorem exitOk_caches (k : Kind) (g : G) : (exitOk k g).fnCache = g.fnCache ∧ (exitOk k g).tyCache = g.tyCache := by
  cases k <;> simp only [exitOk] <;> (try split) <;> (first | exact ⟨rfl, rfl⟩ | simp [pop])

theorem exitExc_caches (cfg : Cfg) (k : Kind) (g : G) :
    (exitExc cfg k g).fnCache = g.fnCache ∧ (exitExc cfg k g).tyCache = g.tyCache := by
  cases k <;> simp only [exitExc] <;> repeat' split
  all_goals first
    | exact ⟨rfl, rfl⟩
    | exact exitOk_caches _ _

theorem unwind_caches (cfg : Cfg) (F : List Kind) (g : G) :
    (unwind cfg F g).fnCache = g.fnCache ∧ (unwind cfg F g).tyCache = g.tyCache := by
  induction F generalizing g with
  | nil => exact ⟨rfl, rfl⟩
  | cons k F ih =>
    have h1 := ih (exitExc cfg k g)
    have h2 := exitExc_caches cfg k g
    exact ⟨h1.1.trans h2.1, h1.2.trans h2.2⟩

theorem closeAll_caches (F : List Kind) (g : G) :
    (closeAll F g).fnCache = g.fnCache ∧ (closeAll F g).tyCache = g.tyCache := by
  induction F generalizing g with
  | nil => exact ⟨rfl, rfl⟩
  | cons k F ih =>
    have h1 := ih (exitOk k g)
    have h2 := exitOk_caches k g
    exact ⟨h1.1.trans h2.1, h1.2.trans h2.2⟩

theorem act_sound {cfg : Cfg} {perm : List Nat → List Nat} {a : Act} {g g1 : G} {t : List Tok}
    (h : act cfg perm a g = .ok (g1, t)) (hs : CachesSound g) : CachesSound g1 := by
  cases a <;> simp only [act] at h
  case name n => split at h <;> (simp only [Except.ok.injEq, Prod.mk.injEq] at h; obtain ⟨rfl, _⟩ := h; exact hs)
  case useCtx =>
    split at h
    · simp only [Except.ok.injEq, Prod.mk.injEq] at h; obtain ⟨rfl, _⟩ := h; exact hs
    · simp at h
  case fn f =>
    simp only [Except.ok.injEq, Prod.mk.injEq] at h; obtain ⟨rfl, _⟩ := h
    exact ⟨(cacheGet_sound f hs.1).2, hs.2⟩
  case ty f =>
    simp only [Except.ok.injEq, Prod.mk.injEq] at h; obtain ⟨rfl, _⟩ := h
    exact ⟨hs.1, (cacheGet_sound f hs.2).2⟩
  case addPort p =>
    split at h
    · split at h
      · simp at h
      · simp only [Except.ok.injEq, Prod.mk.injEq] at h; obtain ⟨rfl, _⟩ := h; exact hs
    · simp at h
  case declare n =>
    split at h
    · simp only [Except.ok.injEq, Prod.mk.injEq] at h; obtain ⟨rfl, _⟩ := h; exact hs
    · simp at h
  all_goals (simp only [Except.ok.injEq, Prod.mk.injEq] at h; obtain ⟨rfl, _⟩ := h; exact hs)

/-- the caches stay sound through a whole compilation, whatever happens in it -/
theorem sound_run (cfg : Cfg) (perm : List Nat → List Nat) (evs : List Ev) :
    ∀ (F : List Kind) (n : Nat) (g : G) (out : List Tok), CachesSound g →
      CachesSound (run cfg perm evs F n g out).2 := by
  have fin_exc : ∀ F g, CachesSound g → CachesSound (age (unwind cfg F g)) := fun F g h =>
    cachesSound_congr (g := g) (unwind_caches cfg F g).1 (unwind_caches cfg F g).2 h
  induction evs with
  | nil =>
    intro F n g out h
    exact cachesSound_congr (g := g) (closeAll_caches F g).1 (closeAll_caches F g).2 h
  | cons ev evs ih =>
    intro F n g out h
    cases ev with
    | fail => exact fin_exc F g h
    | exit =>
      cases F with
      | nil => exact ih [] _ g out h
      | cons k F => exact ih F _ _ out (cachesSound_congr (exitOk_caches k g).1 (exitOk_caches k g).2 h)
    | enter k a =>
      simp only [run]
      cases he : enter k a n g with
      | error e => exact fin_exc F g h
      | ok r =>
        obtain ⟨g1, t, k1⟩ := r
        exact ih _ _ _ _ (cachesSound_congr (enter_caches he).1 (enter_caches he).2 h)
    | act a =>
      simp only [run]
      cases he : act cfg perm a g with
      | error e => exact fin_exc F g h
      | ok r =>
        obtain ⟨g1, t⟩ := r
        exact ih _ _ _ _ (act_sound he h)

end CohdlVerif.C11

namespace CohdlVerif.C11

/-! the class-level reserved-name sets are never written by a compilation -/

theorem mkPrefix_reserved {p : Nat} {g g1 : G} {str : List Nat} (h : mkPrefix p g = some (g1, str)) :
    g1.reserved = g.reserved := by
  unfold mkPrefix at h
  split at h
  · simp at h
  · simp only [Option.some.injEq, Prod.mk.injEq] at h
    obtain ⟨h1, _⟩ := h
    subst h1
    split <;> simp

theorem enter_reserved {k k1 : Kind} {a : List Nat} {n : Nat} {g g1 : G} {t : List Tok}
    (h : enter k a n g = .ok (g1, t, k1)) : g1.reserved = g.reserved := by
  cases k
  case pfx =>
    simp only [enter] at h
    split at h
    · simp at h
    · rename_i g2 str hm
      simp only [Except.ok.injEq, Prod.mk.injEq] at h
      obtain ⟨rfl, _⟩ := h
      exact mkPrefix_reserved (g1 := g2) hm
  all_goals
    simp only [enter] at h
    repeat' split at h
    all_goals first
      | (simp only [Except.ok.injEq, Prod.mk.injEq] at h; obtain ⟨rfl, _⟩ := h; rfl)
      | (simp at h)

theorem exitOk_reserved (k : Kind) (g : G) : (exitOk k g).reserved = g.reserved := by
  cases k <;> simp only [exitOk] <;> (try split) <;> (first | rfl | simp [pop])

theorem exitExc_reserved (cfg : Cfg) (k : Kind) (g : G) : (exitExc cfg k g).reserved = g.reserved := by
  cases k <;> simp only [exitExc] <;> repeat' split
  all_goals first
    | rfl
    | exact exitOk_reserved _ _

theorem unwind_reserved (cfg : Cfg) (F : List Kind) (g : G) : (unwind cfg F g).reserved = g.reserved := by
  induction F generalizing g with
  | nil => rfl
  | cons k F ih => exact (ih (exitExc cfg k g)).trans (exitExc_reserved cfg k g)

theorem closeAll_reserved (F : List Kind) (g : G) : (closeAll F g).reserved = g.reserved := by
  induction F generalizing g with
  | nil => rfl
  | cons k F ih => exact (ih (exitOk k g)).trans (exitOk_reserved k g)

theorem act_reserved {cfg : Cfg} {perm : List Nat → List Nat} {a : Act} {g g1 : G} {t : List Tok}
    (h : act cfg perm a g = .ok (g1, t)) : g1.reserved = g.reserved := by
  cases a <;> simp only [act] at h
  case name n => split at h <;> (simp only [Except.ok.injEq, Prod.mk.injEq] at h; obtain ⟨rfl, _⟩ := h; rfl)
  case useCtx =>
    split at h
    · simp only [Except.ok.injEq, Prod.mk.injEq] at h; obtain ⟨rfl, _⟩ := h; rfl
    · simp at h
  case addPort p =>
    split at h
    · split at h
      · simp at h
      · simp only [Except.ok.injEq, Prod.mk.injEq] at h; obtain ⟨rfl, _⟩ := h; rfl
    · simp at h
  case declare n =>
    split at h
    · simp only [Except.ok.injEq, Prod.mk.injEq] at h; obtain ⟨rfl, _⟩ := h; rfl
    · simp at h
  all_goals (simp only [Except.ok.injEq, Prod.mk.injEq] at h; obtain ⟨rfl, _⟩ := h; rfl)

/-- a whole compilation (any design, any options, any crash point) leaves the class-level sets as they were -/
theorem reserved_run (cfg : Cfg) (perm : List Nat → List Nat) (evs : List Ev) :
    ∀ (F : List Kind) (n : Nat) (g : G) (out : List Tok), (run cfg perm evs F n g out).2.reserved = g.reserved := by
  induction evs with
  | nil => intro F n g out; exact closeAll_reserved F g
  | cons ev evs ih =>
    intro F n g out
    cases ev with
    | fail => exact unwind_reserved cfg F g
    | exit =>
      cases F with
      | nil => exact ih [] _ g out
      | cons k F => exact (ih F _ _ out).trans (exitOk_reserved k g)
    | enter k a =>
      simp only [run]
      cases he : enter k a n g with
      | error e => exact unwind_reserved cfg F g
      | ok r =>
        obtain ⟨g1, t, k1⟩ := r
        exact (ih _ _ _ _).trans (enter_reserved he)
    | act a =>
      simp only [run]
      cases he : act cfg perm a g with
      | error e => exact unwind_reserved cfg F g
      | ok r =>
        obtain ⟨g1, t⟩ := r
        exact (ih _ _ _ _).trans (act_reserved he)

end CohdlVerif.C11

namespace CohdlVerif.C11

/-- every cache entry holds the definition of the object it was made for AND that object still lives at the key
    address; no two live objects share an address -/
structure Heap.Ok (h : Heap) : Prop where
  sound : ∀ e ∈ h.cache, e.2.2 = defOf e.2.1 ∧ (e.1, e.2.1) ∈ h.live
  uniq : ∀ a f g, (a, f) ∈ h.live → (a, g) ∈ h.live → f = g

theorem Heap.ok_empty : Heap.Ok Heap.empty :=
  ⟨fun e he => by simp [Heap.empty] at he, fun a f g hf => by simp [Heap.empty] at hf⟩

theorem Heap.ok_alloc {h h1 : Heap} {a f : Nat} (ok : h.Ok) (e : h.alloc a f = some h1) : h1.Ok := by
  unfold Heap.alloc at e
  split at e
  · simp at e
  · rename_i hfree
    simp only [Option.some.injEq] at e
    subst e
    have hfree' : ∀ x, (a, x) ∉ h.live := by
      intro x hx
      apply hfree
      simp only [List.any_eq_true, beq_iff_eq]
      exact ⟨(a, x), hx, rfl⟩
    refine ⟨fun e he => ⟨(ok.sound e he).1, List.mem_cons_of_mem _ (ok.sound e he).2⟩, ?_⟩
    intro b x y hx hy
    simp only [List.mem_cons, Prod.mk.injEq] at hx hy
    rcases hx with ⟨rfl, rfl⟩ | hx <;> rcases hy with ⟨hb, rfl⟩ | hy
    · rfl
    · exact absurd hy (hfree' _)
    · subst hb; exact absurd hx (hfree' _)
    · exact ok.uniq b x y hx hy

/-- with the reference held by the cache entry (`keep = true`) freeing never invalidates an entry -/
theorem Heap.ok_free {h : Heap} (a : Nat) (ok : h.Ok) : (h.free true a).Ok := by
  unfold Heap.free
  by_cases hc : h.cache.any (fun e => e.1 == a) = true
  · simp only [hc, Bool.and_self, if_true]; exact ok
  · have hc' : ∀ e ∈ h.cache, e.1 ≠ a := by
      intro e he heq
      apply hc
      simp only [List.any_eq_true, beq_iff_eq]
      exact ⟨e, he, heq⟩
    simp only [hc, Bool.and_false, Bool.false_eq_true, if_false]
    refine ⟨fun e he => ⟨(ok.sound e he).1, ?_⟩, ?_⟩
    · simp only [List.mem_filter, bne_iff_ne, ne_eq]
      exact ⟨(ok.sound e he).2, hc' e he⟩
    · intro b x y hx hy
      simp only [List.mem_filter] at hx hy
      exact ok.uniq b x y hx.1 hy.1

/-- a lookup at the address of a live object answers with the definition of THAT object, hit or miss -/
theorem Heap.lookup_live {h : Heap} {a f : Nat} (ok : h.Ok) (hl : (a, f) ∈ h.live) :
    ∃ h1, h.lookup a = some (defOf f, h1) ∧ h1.Ok := by
  unfold Heap.lookup
  cases hf : h.live.find? (fun e => e.1 == a) with
  | none =>
    have := List.find?_eq_none.mp hf (a, f) hl
    simp at this
  | some obj =>
    have hm := List.mem_of_find?_eq_some hf
    have ha : obj.1 = a := by simpa using List.find?_some hf
    have hobj : obj.2 = f := ok.uniq a obj.2 f (by rw [← ha]; exact hm) hl
    cases hc : h.cache.find? (fun e => e.1 == a) with
    | some e =>
      have hem := List.mem_of_find?_eq_some hc
      have hea : e.1 = a := by simpa using List.find?_some hc
      have hs := ok.sound e hem
      have : e.2.1 = f := ok.uniq a e.2.1 f (by rw [← hea]; exact hs.2) hl
      exact ⟨h, by simp only [hs.1, this], ok⟩
    | none =>
      refine ⟨{ h with cache := (a, f, defOf f) :: h.cache }, by simp only [hobj], ?_, ok.uniq⟩
      intro e he
      rcases List.mem_cons.mp he with rfl | he
      · exact ⟨rfl, hl⟩
      · exact ok.sound e he

end CohdlVerif.C11
