import CohdlVerif.Lemmas.C01W8

/-! C01 - general grammar: `While`, collected semantic facts and the loop head -/
namespace CohdlVerif.C01

section
variable {σ : Type} (act : Nat → σ → σ) (cond : Nat → σ → Bool)
variable (prog : Stmt) (Hf : Nat → Blk) (E : Nat → σ → σ × Option Nat) (Rf : Nat → Nat) (Sf : List Nat)

/-- everything the conclusions about a loop need -/
theorem while_sem (hE : ∀ b s, E b s = execB act cond E (Hf b) s) (cc : Option Nat) (b k : Stmt) (l c : Bool)
    (hb : CSpec (compile b) true c) (hk : CSpec (compile k) l c) (fb : FwdG (compile b) true)
    (bk : BadMono (compile k))
    (ihb : SimG act cond prog Hf E Rf Sf b true) (ihk : SimG act cond prog Hf E Rf Sf k l)
    (st : List Frame) (O : List Nat) (s : CSt) (m : Nat) (R0 : List Nat) (P' : Nat → Prop)
    (hi : Inv s O) (hsi : SInv s)
    (hbad : (compile k (wOk cc b O s) (wSX cc b O s)).2.bad = false)
    (hF : Fut Hf Rf Sf (compile k (wOk cc b O s) (wSX cc b O s)).2 P')
    (hP' : ∀ y, P' y → y < (compile k (wOk cc b O s) (wSX cc b O s)).2.next → (y ∈ O ∨ s.next ≤ y) →
      y ∈ Outs s (compile k (wOk cc b O s) (wSX cc b O s)).1 (compile k (wOk cc b O s) (wSX cc b O s)).2)
    (hp : Prems act cond prog Hf E Rf Sf m R0 st s (compile k (wOk cc b O s) (wSX cc b O s)))
    (hhb : wHb O s ∈ O ∨ s.next ≤ wHb O s) :
    WCtx cc b O s ∧
    Hf (wHb O s) = { front := [], items := ((wS1 O s).heap (wHb O s)).items ++ [wItem cc b O s] } ∧
    (∀ y ∈ O, y ≠ wHb O s → Hf y = (wS1 O s).heap y) ∧
    (∀ j, (∀ x, lvl Rf [Rf (wBody O s)] j x ≤ lvl Rf R0 m x) →
      SimN act cond prog E Sf (j - 1) (.atHead cc b k st) (wIdx O s) →
      TailSim2 act cond prog Hf E Rf Sf j (wBody O s) [] b (.loop cc b k :: st) false) ∧
    (∀ o ∈ wOk cc b O s, TailSim2 act cond prog Hf E Rf Sf (lvl Rf R0 m o) o ((wSX cc b O s).heap o).items k st false) ∧
    (∀ y, y < (wS1 O s).next → Rf y = (wS1 O s).root y) ∧
    (wS1 O s).states <+: Sf ∧
    (∀ c', cc = some c' → Rf (wCl cc b O s).2.next = Rf (wHb O s) ∧ (wSX cc b O s).heap (wCl cc b O s).2.next = {}) := by
  have X := wctx cc b c hb fb O s hi hsi
  have Z := wend cc b k l c hk O s X hi Hf Rf Sf P' hF hP'
  have hlw := X.W.hlt hi.hlt
  obtain ⟨XF, LXF, _, n1, _, fr1, fr2, okc⟩ := wSX_facts cc b O s hlw X.A5
  have hbad5 : (wCl cc b O s).2.bad = false := by
    have h1 : (wSX cc b O s).bad = false := bk _ _ hbad
    cases cc <;> exact h1
  have Pc := wpieces cc b O s X hbad5
  have hn5 := Z.n5
  have hb4 : wBody O s < (wS4 b O s).next := by
    rw [X.next4]; have := X.B.next_le; have : (wS1c O s).next = wBody O s + 1 := X.next1; omega
  have hne : ∀ y ∈ wOk cc b O s, y ∉ dR s (wS4 b O s) ∧ s.next ≤ y := by
    intro y hy
    have hsb := X.sbl
    rcases wOk_cases cc b O s y hy with h | h | h
    · subst h
      refine ⟨fun hm => ?_, by omega⟩
      have := (Pc.rng _ (Or.inr (Or.inr (Or.inr hm)))).2; omega
    · have h1 := (Pc.cl_new y h).1
      refine ⟨fun hm => ?_, ?_⟩
      · have := (Pc.rng _ (Or.inr (Or.inr (Or.inr hm)))).2; omega
      · have : wBody O s < (wS4 b O s).next := by
          rw [X.next4]; have := X.B.next_le; have : (wS1c O s).next = wBody O s + 1 := X.next1; omega
        omega
    · exact ⟨(Pc.br_x y h).2.2, by have := (Pc.rng y (Or.inr (Or.inl h))).1; omega⟩
  have CKk := while_ck act cond prog Hf E Rf Sf cc b k l ihk st O s m R0 P' X Z hi hsi hne hbad hF hP' hp
  have hbody := while_body act cond prog Hf E Rf Sf hE cc b k ihb st O s m R0 P' X Z Pc hi hF hp CKk
  have hhbl : wHb O s < (wS4 b O s).next := by
    have := X.hbl
    have : wBody O s < (wS4 b O s).next := by
      rw [X.next4]; have := X.B.next_le; have : (wS1c O s).next = wBody O s + 1 := X.next1; omega
    omega
  have hnotin : ∀ y, y < wBody O s → y ∉ wOk cc b O s ∧ y ∉ dR s (wS4 b O s) ∧ y ∉ (wS3 b O s).cont ∧ y ∉ (wR b O s).1 := by
    intro y hy
    refine ⟨fun h => ?_, fun h => ?_, fun h => ?_, fun h => ?_⟩
    · have := (hne y h)
      rcases wOk_cases cc b O s y h with h' | h' | h'
      · omega
      · have := (Pc.cl_new y h').1; omega
      · have := (Pc.rng y (Or.inr (Or.inl h'))).1; omega
    · have := (Pc.rng y (Or.inr (Or.inr (Or.inr h)))).1; omega
    · have := (Pc.rng y (Or.inr (Or.inr (Or.inl h)))).1; omega
    · have := (Pc.rng y (Or.inl h)).1; omega
  have hchain : ∀ y, y < wBody O s → (wCl cc b O s).2.heap y = (wS1 O s).heap y := by
    intro y hy
    have hn := hnotin y hy
    have hy1 : y < (wS1c O s).next := by have : (wS1c O s).next = wBody O s + 1 := X.next1; omega
    have hy4 : y < (wS4 b O s).next := by rw [X.next4]; have := X.B.next_le; omega
    rw [Pc.frame5 y hy4 hn.2.2.1, X.h3' y hn.2.2.2, X.B.frame y hy1 (by simp; omega)]
    rfl
  have hs1R : (wS1 O s).next ≤ (wR b O s).2.next := X.B.next_le
  have hrootX : ∀ y, y < (wSX cc b O s).next → Rf y = (wSX cc b O s).root y := by
    intro y hy
    rw [hF.root y (by have := Z.Tk.next_le; omega), Z.Tk.root_stable y hy]
  have hroot1 : ∀ y, y < (wS1 O s).next → Rf y = (wS1 O s).root y := by
    intro y hy
    have hy4 : y < (wS4 b O s).next := by rw [X.next4]; omega
    rw [hrootX y (by omega), XF.root_stable y (by omega), X.CL.root_stable y hy4, X.root4, X.B.root_stable y hy]
    rfl
  refine ⟨X, ?_, ?_, hbody, CKk, hroot1, ?_, ?_⟩
  · have hn := hnotin (wHb O s) X.hbl
    rw [Z.closed (wHb O s) (by omega) hhb hn.1 hn.2.1, fr2, hchain _ X.hbl]
    simp only [X.hbf]
  · intro y hy hyne
    have hyl : y < s.next := hi.hlt.1 y hy
    have hyb : y < wBody O s := by have := X.sbl; omega
    have hn := hnotin y hyb
    rw [Z.closed y (by have := X.W.next_le; omega) (Or.inl hy) hn.1 hn.2.1, fr1 y hyne (by have := X.W.next_le; omega),
      hchain y hyb]
  · have h1 : (wR b O s).2.states = (wS4 b O s).states := (CSt.addfrontAll_states _ _ _).symm
    have h0 : (wS1 O s).states <+: (wR b O s).2.states := X.B.states_mono
    rw [h1] at h0
    exact (((h0.trans X.CL.states_mono).trans XF.states_mono).trans Z.Tk.states_mono).trans hF.states
  · intro c' hc'
    subst hc'
    have hx := okc (wCl (some c') b O s).2.next (by simp [wOk])
    rcases hx with h | ⟨_, h2, h3⟩
    · exfalso
      have := hlw.1 _ (List.mem_cons_of_mem _ h); omega
    · refine ⟨?_, h2⟩
      have hhb1 : wHb O s < (wS1 O s).next := by have := X.hbl; have := X.next1; omega
      rw [hrootX _ (by simp [wSX, CSt.append, CSt.newBlock]), h3, hroot1 _ hhb1]
      have hy4 : wHb O s < (wS4 b O s).next := hhbl
      rw [X.CL.root_stable _ hy4, X.root4, X.B.root_stable _ hhb1]
      rfl

end
end CohdlVerif.C01
