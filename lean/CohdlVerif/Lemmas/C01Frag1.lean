import CohdlVerif.Lemmas.C01Sim

/-! C01 - fragment 1 (skip / act / await / await false / if): plain (transition free) statements -/
namespace CohdlVerif.C01

/-- fragment 1 of the grammar: no break / continue / return, no calls -/
def frag1 : Stmt → Bool
  | .skip => true
  | .act _ k => frag1 k
  | .await _ k => frag1 k
  | .awaitF => true
  | .ite _ t e k => frag1 t && frag1 e && frag1 k
  | .while_ _ b k => frag1 b && frag1 k
  | _ => false

theorem frag1_wf : ∀ (t : Stmt), frag1 t = true → ∀ l, wf t l false = true := by
  intro t
  induction t with
  | skip => intro _ _; rfl
  | act a k ih => intro h l; simpa [wf] using ih (by simpa [frag1] using h) l
  | await c k ih => intro h l; simpa [wf] using ih (by simpa [frag1] using h) l
  | awaitF => intro _ _; rfl
  | ite c t e k iht ihe ihk =>
    intro h l
    simp only [frag1, Bool.and_eq_true] at h
    simp [wf, iht h.1.1 l, ihe h.1.2 l, ihk h.2 l]
  | while_ c b k ihb ihk =>
    intro h l
    simp only [frag1, Bool.and_eq_true] at h
    simp [wf, ihb h.1 true, ihk h.2 l]
  | brk => intro h; simp [frag1] at h
  | cont => intro h; simp [frag1] at h
  | ret => intro h; simp [frag1] at h
  | call b k _ _ => intro h; simp [frag1] at h

theorem frag1_retAlways : ∀ (t : Stmt), frag1 t = true → retAlways t = false := by
  intro t
  induction t with
  | skip => intro _; rfl
  | act a k ih => intro h; simpa [retAlways] using ih (by simpa [frag1] using h)
  | await c k ih => intro h; simpa [retAlways] using ih (by simpa [frag1] using h)
  | awaitF => intro _; rfl
  | ite c t e k iht ihe ihk =>
    intro h
    simp only [frag1, Bool.and_eq_true] at h
    simp [retAlways, iht h.1.1, ihk h.2]
  | while_ c b k _ ihk =>
    intro h
    simp only [frag1, Bool.and_eq_true] at h
    simpa [retAlways] using ihk h.2
  | brk => intro h; simp [frag1] at h
  | cont => intro h; simp [frag1] at h
  | ret => intro h; simp [frag1] at h
  | call b k _ _ => intro h; simp [frag1] at h

/-- forward invariant of the open blocks -/
structure Inv (s : CSt) (O : List Nat) : Prop where
  hlt : Hlt s O
  start : s.atStart = true → O = [0]
  nodup : O.Nodup
  front : ∀ o ∈ O, (s.heap o).front = []

/-- structural facts for fragment 1 -/
theorem frag1_step' (t : Stmt) (h : frag1 t = true) (O : List Nat) (s : CSt) (hl : Hlt s O)
    (hs : s.atStart = true → O = [0]) : Step s O (compile t O s).2 (compile t O s).1 :=
  (compile_spec t false false (frag1_wf t h false) O s hl hs (fun h => by cases h)).1

theorem frag1_step (t : Stmt) (h : frag1 t = true) (O : List Nat) (s : CSt) (hi : Inv s O) :
    Step s O (compile t O s).2 (compile t O s).1 := frag1_step' t h O s hi.hlt hi.start


/-- the break / continue / return lists are the same -/
def SameLists (a b : CSt) : Prop := b.brk = a.brk ∧ b.cont = a.cont ∧ b.ret = a.ret

theorem SameLists.refl (a : CSt) : SameLists a a := ⟨rfl, rfl, rfl⟩
theorem SameLists.trans {a b c : CSt} (h1 : SameLists a b) (h2 : SameLists b c) : SameLists a c :=
  ⟨h2.1.trans h1.1, h2.2.1.trans h1.2.1, h2.2.2.trans h1.2.2⟩

theorem HeapExt.sameLists {s s' : CSt} {O : List Nat} (h : HeapExt s s' O) : SameLists s s' :=
  ⟨h.brk_eq, h.cont_eq, h.ret_eq⟩

theorem itePre_sameLists (c b : Nat) (s : CSt) : SameLists s (itePre c b s) := ⟨rfl, rfl, rfl⟩

theorem enterState_sameLists (O : List Nat) (s : CSt) : SameLists s (enterState O s).2.2 :=
  ⟨(enterState_lists O s).2.1, (enterState_lists O s).2.2, (enterState_lists O s).1⟩

theorem iteLoop_sameLists (c : Nat) (ft fe : List Nat → CSt → List Nat × CSt)
    (hft : ∀ O s, SameLists s (ft O s).2) (hfe : ∀ O s, SameLists s (fe O s).2) :
    ∀ (bs : List Nat) (s : CSt) (acc : List Nat), SameLists s (iteLoop c ft fe bs s acc).2 := by
  intro bs
  induction bs with
  | nil => intro s acc; exact SameLists.refl s
  | cons b bs ih =>
    intro s acc
    rw [iteLoop_cons]
    exact (((itePre_sameLists c b s).trans (hft _ _)).trans (hfe _ _)).trans (ih _ _)

theorem CSt.addfrontAll_sameLists (t : Nat) : ∀ (bs : List Nat) (s : CSt), SameLists s (s.addfrontAll bs t) := by
  intro bs
  induction bs with
  | nil => intro s; exact SameLists.refl s
  | cons b bs ih =>
    intro s
    simp only [CSt.addfrontAll, List.foldl_cons] at ih ⊢
    exact (show SameLists s (s.addfront b t) from ⟨rfl, rfl, rfl⟩).trans (ih _)

theorem wS1_sameLists (O : List Nat) (s : CSt) : SameLists s (wS1 O s) := by
  have h0 : SameLists s (wS0 O s) := by
    unfold wS0
    split
    · exact (enterState_sameLists O s).trans ⟨rfl, rfl, rfl⟩
    · exact enterState_sameLists O s
  exact h0.trans ⟨rfl, rfl, rfl⟩

/-- a loop whose body does not touch the lists: no break / continue block, the lists of the enclosing loop are
    restored -/
theorem while_frag_lists (cc : Option Nat) (b : Stmt) (hb : ∀ O s, SameLists s (compile b O s).2) (O : List Nat)
    (s : CSt) : (wS3 b O s).cont = [] ∧ (wS3 b O s).brk = [] ∧ wCl cc b O s = ([], wS4 b O s) ∧
      SameLists s (wCl cc b O s).2 := by
  have h1 := hb [wBody O s] { wS1 O s with cont := [], brk := [] }
  have h3 := h1.trans (CSt.addfrontAll_sameLists (wIdx O s) (wR b O s).1 (wR b O s).2)
  have hc : (wS3 b O s).cont = [] := h3.2.1
  have hb' : (wS3 b O s).brk = [] := h3.1
  have hcl : wCl cc b O s = ([], wS4 b O s) := by simp [wCl, hc, contLoop]
  refine ⟨hc, hb', hcl, ?_⟩
  rw [hcl]
  have h0 := wS1_sameLists O s
  exact ⟨h0.1, h0.2.1, (show (wS4 b O s).ret = (wS3 b O s).ret from rfl).trans (h3.2.2.trans h0.2.2)⟩

/-- fragment 1 never touches the break / continue / return lists -/
theorem frag1_sameLists : ∀ (t : Stmt), frag1 t = true → ∀ O s, SameLists s (compile t O s).2 := by
  intro t
  induction t with
  | skip => intro _ O s; exact SameLists.refl s
  | act a k ih =>
    intro h O s
    exact (HeapExt.appendAll O (.act a) O s (fun _ h => h)).sameLists.trans (ih (by simpa [frag1] using h) O _)
  | await cc k ih =>
    intro h O s
    have hk : frag1 k = true := by simpa [frag1] using h
    cases cc with
    | none =>
      rw [compile_await_none]; split
      · exact ih hk _ _
      · exact (enterState_sameLists O s).trans (ih hk _ _)
    | some c' =>
      rw [compile_await_some]; split
      · exact ih hk _ _
      · exact ((enterState_sameLists O s).trans (itePre_sameLists _ _ _)).trans (ih hk _ _)
  | awaitF =>
    intro _ O s
    simp only [compile]; split
    · exact SameLists.refl s
    · exact enterState_sameLists O s
  | ite c t e k iht ihe ihk =>
    intro h O s
    simp only [frag1, Bool.and_eq_true] at h
    rw [compile_ite]; simp only [frag1_retAlways t h.1.1, Bool.false_and, Bool.false_eq_true, if_false]
    exact (iteLoop_sameLists c _ _ (iht h.1.1) (ihe h.1.2) O s []).trans (ihk h.2 _ _)
  | while_ cc b k ihb ihk =>
    intro h O s
    simp only [frag1, Bool.and_eq_true] at h
    obtain ⟨e1, e2, e3, e4⟩ := while_frag_lists cc b (ihb h.1) O s
    cases cc with
    | none =>
      rw [compile_while_none]
      exact (e4.trans (HeapExt.append _ [wHb O s] (wHb O s) (by simp) _).sameLists).trans (ihk h.2 _ _)
    | some c' =>
      rw [compile_while_some]
      refine ((e4.trans ?_).trans (HeapExt.append _ [wHb O s] (wHb O s) (by simp) _).sameLists).trans (ihk h.2 _ _)
      exact ⟨rfl, rfl, rfl⟩
  | brk => intro h; simp [frag1] at h
  | cont => intro h; simp [frag1] at h
  | ret => intro h; simp [frag1] at h
  | call b k _ _ => intro h; simp [frag1] at h

theorem compile_while_frag_none (b k : Stmt) (hb : frag1 b = true) (O : List Nat) (s : CSt) :
    compile (.while_ none b k) O s = compile k [] ((wS4 b O s).append (wHb O s) (.sub (wBody O s))) := by
  obtain ⟨_, e2, e3, _⟩ := while_frag_lists none b (frag1_sameLists b hb) O s
  rw [compile_while_none, wRb, e3, e2]; rfl

theorem compile_while_frag_some (c' : Nat) (b k : Stmt) (hb : frag1 b = true) (O : List Nat) (s : CSt) :
    compile (.while_ (some c') b k) O s =
      compile k [(wS4 b O s).next]
        (((wS4 b O s).newBlock (some (wHb O s))).2.append (wHb O s) (.ite c' (wBody O s) (wS4 b O s).next)) := by
  obtain ⟨_, e2, e3, _⟩ := while_frag_lists (some c') b (frag1_sameLists b hb) O s
  rw [compile_while_some, wRb, e3, e2]; rfl

/-- the state after the body of a loop of fragment 1 -/
theorem wS4_frag_step (cc : Option Nat) (b : Stmt) (hb : frag1 b = true) (O : List Nat) (s : CSt) (hl : Hlt s O)
    (hJ : s.atStart = true → O = [0]) : Step s O (wS4 b O s) [wHb O s] ∧ (wS4 b O s).atStart = false := by
  obtain ⟨_, e2, e3, _⟩ := while_frag_lists cc b (frag1_sameLists b hb) O s
  have := wCl_step cc b false (compile_spec b true false (frag1_wf b hb true)) O s hl hJ
  rw [wRb, e3, e2] at this
  exact this

/-- no transition: the open blocks after a branch are the branch block itself (`not any_transition`) -/
def NoTr (x : Nat) (O' : List Nat) : Prop := O' ≠ [] ∧ ∀ y ∈ O', y = x

theorem anyTrans_false_iff (x : Nat) (O' : List Nat) : anyTrans x O' = false ↔ NoTr x O' := by
  simp only [anyTrans, NoTr, Bool.or_eq_false_iff, List.isEmpty_eq_false_iff, List.any_eq_false, bne_iff_ne, ne_eq,
    Decidable.not_not]

theorem NoTr.mem {x : Nat} {O' : List Nat} (h : NoTr x O') : x ∈ O' := by
  obtain ⟨h1, h2⟩ := h
  cases O' with
  | nil => exact absurd rfl h1
  | cons y ys => have := h2 y (by simp); subst this; simp

section
variable {σ : Type} (act : Nat → σ → σ) (cond : Nat → σ → Bool)
variable (Hf : Nat → Blk) (E : Nat → σ → σ × Option Nat) (Rf : Nat → Nat) (Sf : List Nat)

/-- a statement translated without any transition: it only appended pure code to its block -/
structure PlainRes (t : Stmt) (x : Nat) (s s' : CSt) : Prop where
  front : (s'.heap x).front = (s.heap x).front
  sem : ∃ (added : List Item) (eff : σ → σ), (s'.heap x).items = (s.heap x).items ++ added ∧
    (∀ σ0, execI act cond E added σ0 = (eff σ0, none)) ∧
    ∀ st σ0, RunTo act cond t st s.atStart σ0 .skip st s'.atStart (eff σ0)

theorem plain_skip (x : Nat) (s : CSt) : PlainRes act cond E .skip x s s :=
  ⟨rfl, [], id, by simp, fun _ => rfl, fun st σ0 => RunTo.refl act cond _ _ _ _⟩

theorem append_items (s : CSt) (x : Nat) (it : Item) : ((s.append x it).heap x).items = (s.heap x).items ++ [it] := by
  simp [CSt.append]

theorem append_front (s : CSt) (x y : Nat) (it : Item) : ((s.append x it).heap y).front = (s.heap y).front := by
  by_cases h : y = x <;> simp [CSt.append, h]

theorem append_atStart (s : CSt) (x : Nat) (it : Item) (hs : s.atStart = true → x = 0) :
    (s.append x it).atStart = false := by
  cases hst : s.atStart with
  | true =>
    have := hs hst; subst this
    exact atStart_false_of_items (by rw [append_items]; simp)
  | false =>
    simp only [CSt.atStart, Bool.and_eq_false_iff, List.isEmpty_eq_false_iff] at hst ⊢
    rcases hst with h | h
    · left; rwa [append_front]
    · right
      by_cases h0 : 0 = x
      · subst h0; rw [append_items]; simp
      · simpa [CSt.append, h0] using h

theorem plain_act (a : Nat) (k : Stmt) (x : Nat) (s s' : CSt) (hs : s.atStart = true → x = 0)
    (hk : PlainRes act cond E k x (s.append x (.act a)) s') : PlainRes act cond E (.act a k) x s s' := by
  obtain ⟨hf, added, eff, h1, h2, h3⟩ := hk
  refine ⟨by rw [hf, append_front], .act a :: added, fun σ0 => eff (act a σ0), ?_, ?_, ?_⟩
  · rw [h1, append_items]; simp
  · intro σ0; simp only [execI]; exact h2 _
  · intro st σ0
    refine RunTo.trans act cond (RunTo.act_ act cond a k st _ σ0) ?_
    have := h3 st (act a σ0)
    rwa [append_atStart s x _ hs] at this

theorem NoTr.range {x : Nat} {s1 s' : CSt} {O1 O' : List Nat} (h : Step s1 O1 s' O') (hn : NoTr x O') :
    x ∈ O1 ∨ s1.next ≤ x := by
  rcases (h.open_r x hn.mem).1 with h1 | h1
  · exact Or.inl h1
  · exact Or.inr h1.1

theorem Inv.single_append {s : CSt} {x : Nat} (hi : Inv s [x]) (it : Item) : Inv (s.append x it) [x] := by
  refine ⟨hi.hlt, ?_, hi.nodup, ?_⟩
  · intro h
    rw [append_atStart s x it (fun h' => by simpa using hi.start h')] at h
    cases h
  · intro o ho
    rw [append_front]
    exact hi.front o ho

theorem Inv.single {s1 : CSt} {y : Nat} (hy : y < s1.next) (h0 : 0 < s1.next) (hA : s1.atStart = false)
    (hf : (s1.heap y).front = []) : Inv s1 [y] := by
  refine ⟨⟨?_, h0⟩, ?_, by simp, ?_⟩
  · intro o ho; simp at ho; subst ho; exact hy
  · intro h; rw [hA] at h; cases h
  · intro o ho; simp at ho; subst ho; exact hf

theorem itePre_child_front (c b : Nat) (s : CSt) : ((itePre c b s).heap s.next).front = [] := by
  by_cases h : s.next = b <;> simp [itePre, CSt.append, CSt.newBlock, h]

theorem itePre_child2_front (c b : Nat) (s : CSt) : ((itePre c b s).heap (s.next + 1)).front = [] := by
  by_cases h : s.next + 1 = b <;> simp [itePre, CSt.append, CSt.newBlock, h]

/-- `await` is never plain, except the fresh `await true` -/
theorem plain_await (cc : Option Nat) (k : Stmt) (hk : frag1 k = true) (x : Nat) (s : CSt) (hi : Inv s [x])
    (hn : NoTr x (compile (.await cc k) [x] s).1) :
    cc = none ∧ s.atStart = true ∧ x = 0 ∧ compile (.await cc k) [x] s = compile k [0] s := by
  have hx : x < s.next := hi.hlt.1 x (by simp)
  have T0 := enterState_step [x] s hi.hlt (fun h => by simp [hi.start h])
  have hl0 := T0.hlt hi.hlt
  cases hst : s.atStart with
  | true =>
    have hx0 : x = 0 := by simpa using hi.start hst
    subst hx0
    cases cc with
    | none =>
      refine ⟨rfl, rfl, rfl, ?_⟩
      rw [compile_await_none]; simp [enterState_start [0] s hst]
    | some c' =>
      exfalso
      rw [compile_await_some] at hn
      simp only [List.isEmpty_cons, Bool.false_eq_true, if_false, enterState_start [0] s hst] at hn
      have T1 := itePre_step c' 0 s hx
      have hl1 := T1.hlt ⟨by simpa using hx, hx⟩
      have hi1 : Inv (itePre c' 0 s) [s.next] :=
        Inv.single (hl1.1 _ (by simp)) hl1.2 (itePre_atStart c' 0 s hx hx (fun _ => rfl)) (itePre_child_front c' 0 s)
      rcases NoTr.range (frag1_step k hk _ _ hi1) hn with h | h
      · simp at h; omega
      · have := T1.next_le; omega
  | false =>
    exfalso
    have e : (enterState [x] s).2.1 = s.next := by rw [enterState_nostart [x] s hst]
    have hA0 := T0.atStart_false hi.hlt.2 hst
    have hnb : (enterState [x] s).2.1 < (enterState [x] s).2.2.next := hl0.1 _ (by simp)
    cases cc with
    | none =>
      rw [compile_await_none] at hn
      simp only [List.isEmpty_cons, Bool.false_eq_true, if_false] at hn
      have hf : ((enterState [x] s).2.2.heap (enterState [x] s).2.1).front = [] := by
        rw [enterState_nostart [x] s hst]
        have hne : s.next ≠ x := by omega
        simp [CSt.addfrontAll, CSt.addfront, CSt.newBlock, hne]
      rcases NoTr.range (frag1_step k hk _ _ (Inv.single hnb hl0.2 hA0 hf)) hn with h | h
      · simp [e] at h; omega
      · have := T0.next_le; omega
    | some c' =>
      rw [compile_await_some] at hn
      simp only [List.isEmpty_cons, Bool.false_eq_true, if_false] at hn
      have T1 := itePre_step c' _ _ hnb
      have hl1 := T1.hlt ⟨by simpa using hnb, hl0.2⟩
      have hi1 := Inv.single (hl1.1 _ (by simp)) hl1.2 (T1.atStart_false hl0.2 hA0)
        (itePre_child_front c' (enterState [x] s).2.1 (enterState [x] s).2.2)
      rcases NoTr.range (frag1_step k hk _ _ hi1) hn with h | h
      · simp at h; have := T0.next_le; omega
      · have := T0.next_le; have := T1.next_le; omega

theorem itePre_next (c b : Nat) (s : CSt) : (itePre c b s).next = s.next + 2 := rfl

theorem itePre_child_items (c b : Nat) (s : CSt) (hb : b < s.next) : ((itePre c b s).heap s.next).items = [] := by
  have h : s.next ≠ b := by omega
  simp [itePre, CSt.append, CSt.newBlock, h]

theorem itePre_child2_items (c b : Nat) (s : CSt) (hb : b < s.next) : ((itePre c b s).heap (s.next + 1)).items = [] := by
  have h : s.next + 1 ≠ b := by omega
  simp [itePre, CSt.append, CSt.newBlock, h]

theorem itePre_front_parent (c b : Nat) (s : CSt) (hb : b < s.next) :
    ((itePre c b s).heap b).front = (s.heap b).front := by
  have h1 : b ≠ s.next := by omega
  have h2 : b ≠ s.next + 1 := by omega
  simp [itePre, CSt.append, CSt.newBlock, h1, h2]

/-- the single iteration of the `If` loop on one open block (fragment 1: nothing returns always) -/
theorem compile_ite_single (c : Nat) (t1 e1 k : Stmt) (hr : retAlways t1 = false) (x : Nat) (s : CSt) :
    compile (.ite c t1 e1 k) [x] s =
      compile k (mergeAcc [] x s.next (s.next + 1) (compile t1 [s.next] (itePre c x s)).1
          (compile e1 [s.next + 1] (compile t1 [s.next] (itePre c x s)).2).1)
        (compile e1 [s.next + 1] (compile t1 [s.next] (itePre c x s)).2).2 := by
  rw [compile_ite, iteLoop_cons]
  simp [hr, iteLoop]

theorem mergeAcc_parent (x tb eb : Nat) (ot oe : List Nat) (hxt : x ≠ tb) (hxe : x ≠ eb) (hot : x ∉ ot)
    (hoe : x ∉ oe) (h : x ∈ mergeAcc [] x tb eb ot oe) :
    anyTrans tb ot = false ∧ anyTrans eb oe = false ∧ mergeAcc [] x tb eb ot oe = [x] := by
  unfold mergeAcc at h ⊢
  split at h
  · rename_i hc
    simp only [Bool.and_eq_true, Bool.not_eq_true'] at hc
    refine ⟨hc.1, hc.2, ?_⟩
    simp [hc.1, hc.2, insId]
  · exfalso
    split at h
    · rcases (mem_insIds _ _ _).mp h with h | h
      · simp at h
      · rcases List.mem_append.mp h with h | h
        · exact hot h
        · exact hoe h
    · split at h
      · rcases (mem_insIds _ _ _).mp h with h | h
        · rcases (mem_insId _ _ _).mp h with h | h
          · simp at h
          · exact hxt h
        · exact hoe h
      · split at h
        · rcases (mem_insIds _ _ _).mp h with h | h
          · rcases (mem_insId _ _ _).mp h with h | h
            · simp at h
            · exact hxe h
          · exact hot h
        · rcases (mem_insIds _ _ _).mp h with h | h
          · simp at h
          · rcases List.mem_append.mp h with h | h
            · exact hot h
            · exact hoe h

end
end CohdlVerif.C01
