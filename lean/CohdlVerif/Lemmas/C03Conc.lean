import CohdlVerif.Lemmas.C03Lemmas

/-! C03 - concurrent contexts: the settled state of an acyclic set of continuous assignments exists (evaluation in a
    topological order reaches it), is unique, and does not depend on the order of evaluation -/
namespace CohdlVerif.C03

/-- eval depends only on the signal objects the expression reads -/
theorem eval_agree (e : Expr) : ∀ (s s' : St), s.var = s'.var → s.tmp = s'.tmp →
    (∀ l : Loc, readsSig e l.1 = true → s.sig l = s'.sig l) → eval e s = eval e s' := by
  induction e with
  | const n => intros; rfl
  | rd sp obj idx lo w ih =>
    intro s s' hv ht h
    simp only [eval]
    have hi : eval idx s = eval idx s' := ih s s' hv ht (fun l hl => h l (by simp [readsSig, hl]))
    rw [hi]
    apply bitsToNat_congr
    intro b _
    cases sp with
    | sig => simp only [store]; exact h _ (by simp [readsSig])
    | var => simp [store, hv]
  | tmp k => intro s s' _ ht _; simp [eval, ht]
  | slice e lo w ih => intro s s' hv ht h; simp only [eval]; rw [ih s s' hv ht (fun l hl => h l (by simpa [readsSig] using hl))]
  | add w a b iha ihb =>
    intro s s' hv ht h; simp only [eval]
    rw [iha s s' hv ht (fun l hl => h l (by simp [readsSig, hl])), ihb s s' hv ht (fun l hl => h l (by simp [readsSig, hl]))]
  | eq a b iha ihb =>
    intro s s' hv ht h; simp only [eval]
    rw [iha s s' hv ht (fun l hl => h l (by simp [readsSig, hl])), ihb s s' hv ht (fun l hl => h l (by simp [readsSig, hl]))]
  | not a iha => intro s s' hv ht h; simp only [eval]; rw [iha s s' hv ht (fun l hl => h l (by simpa [readsSig] using hl))]
  | and a b iha ihb =>
    intro s s' hv ht h; simp only [eval]
    rw [iha s s' hv ht (fun l hl => h l (by simp [readsSig, hl])), ihb s s' hv ht (fun l hl => h l (by simp [readsSig, hl]))]
  | or a b iha ihb =>
    intro s s' hv ht h; simp only [eval]
    rw [iha s s' hv ht (fun l hl => h l (by simp [readsSig, hl])), ihb s s' hv ht (fun l hl => h l (by simp [readsSig, hl]))]
  | sel c a b ihc iha ihb =>
    intro s s' hv ht h; simp only [eval]
    rw [ihc s s' hv ht (fun l hl => h l (by simp [readsSig, hl])), iha s s' hv ht (fun l hl => h l (by simp [readsSig, hl])),
        ihb s s' hv ht (fun l hl => h l (by simp [readsSig, hl]))]
  | cat a w b iha ihb =>
    intro s s' hv ht h; simp only [eval]
    rw [iha s s' hv ht (fun l hl => h l (by simp [readsSig, hl])), ihb s s' hv ht (fun l hl => h l (by simp [readsSig, hl]))]


/-- `s1` is a settled state of the system `cs` over the base state `s0`: nothing but the driven locations differs from
    `s0`, and every driven location holds its expression evaluated ON `s1` (no further event) -/
structure Sol (cs : List CA) (s0 s1 : St) : Prop where
  var : s1.var = s0.var
  tmp : s1.tmp = s0.tmp
  pend : s1.pend = s0.pend
  frame : ∀ l, (∀ c ∈ cs, c.covers l = false) → s1.sig l = s0.sig l
  fix : ∀ c ∈ cs, ∀ l, c.covers l = true → s1.sig l = (eval c.e s1).testBit (l.2.2 - c.lo)

theorem covers_obj (c : CA) (l : Loc) (h : c.covers l = true) : l.1 = c.obj := by
  simp [CA.covers, inRange] at h
  exact h.1.1.1

theorem not_covers_of_obj (c : CA) (l : Loc) (h : l.1 ≠ c.obj) : c.covers l = false := by
  cases hc : c.covers l with
  | false => rfl
  | true => exact absurd (covers_obj c l hc) h

theorem mem_targets {cs : List CA} {c : CA} (h : c ∈ cs) : c.obj ∈ targets cs :=
  List.mem_map_of_mem h

theorem readsAny_false {e : Expr} {os : List Nat} (h : readsAny e os = false) {o : Nat} (ho : o ∈ os) :
    readsSig e o = false := by
  simp only [readsAny, List.any_eq_false] at h
  simpa using h o ho

theorem wellOrdered_cons {c : CA} {rest : List CA} (h : wellOrdered (c :: rest) = true) :
    readsAny c.e (c.obj :: targets rest) = false ∧ c.obj ∉ targets rest ∧ wellOrdered rest = true := by
  simp only [wellOrdered, Bool.and_eq_true, Bool.not_eq_true', List.contains_eq_mem, decide_eq_false_iff_not] at h
  exact ⟨h.1.1, h.1.2, h.2⟩

theorem drive_sig_other (c : CA) (s : St) (l : Loc) (h : c.covers l = false) : (drive c s).sig l = s.sig l := by
  simp only [drive, writeBits]
  simp only [CA.covers] at h
  simp [h]

theorem drive_sig_covered (c : CA) (s : St) (l : Loc) (h : c.covers l = true) :
    (drive c s).sig l = (eval c.e s).testBit (l.2.2 - c.lo) := by
  simp only [drive, writeBits]
  simp only [CA.covers] at h
  simp [h]

/-- evaluation in a topological order reaches a settled state -/
theorem settleOrder_sol (cs : List CA) : ∀ s : St, wellOrdered cs = true → Sol cs s (settleOrder cs s) := by
  induction cs with
  | nil => intro s _; exact ⟨rfl, rfl, rfl, fun _ _ => rfl, fun c hc => by cases hc⟩
  | cons c rest ih =>
    intro s h
    obtain ⟨hr, hd, hw⟩ := wellOrdered_cons h
    have IH := ih (drive c s) hw
    have hS : settleOrder (c :: rest) s = settleOrder rest (drive c s) := rfl
    rw [hS]
    -- locations of object c.obj are not covered by rest
    have hrest : ∀ l : Loc, l.1 = c.obj → ∀ c' ∈ rest, c'.covers l = false := by
      intro l hl c' hc'
      apply not_covers_of_obj
      intro heq
      have e : c'.obj = c.obj := by rw [← heq, hl]
      exact hd (e ▸ mem_targets hc')
    refine ⟨IH.var, IH.tmp, IH.pend, ?_, ?_⟩
    · intro l hl
      rw [IH.frame l (fun c' hc' => hl c' (List.mem_cons_of_mem _ hc'))]
      exact drive_sig_other c s l (hl c (List.mem_cons_self ..))
    · intro c' hc' l hl
      rcases List.mem_cons.mp hc' with rfl | hc'
      · rw [IH.frame l (hrest l (covers_obj _ l hl)), drive_sig_covered _ s l hl]
        congr 1
        apply eval_agree
        · exact IH.var.symm
        · exact IH.tmp.symm
        · intro l' hl'
          have hno : l'.1 ∉ c'.obj :: targets rest := by
            intro hm
            have := readsAny_false hr hm
            rw [this] at hl'; cases hl'
          have h1 : c'.covers l' = false := not_covers_of_obj _ _ (fun heq => hno (by simp [heq]))
          have h2 : ∀ c'' ∈ rest, c''.covers l' = false := fun c'' hc'' =>
            not_covers_of_obj _ _ (fun heq => hno (by rw [heq]; exact List.mem_cons_of_mem _ (mem_targets hc'')))
          rw [IH.frame l' h2, drive_sig_other _ s l' h1]
      · exact IH.fix c' hc' l hl


theorem wellOrdered_append (pre suf : List CA) (h : wellOrdered (pre ++ suf) = true) : wellOrdered suf = true := by
  induction pre with
  | nil => exact h
  | cons p pre ih => exact ih (wellOrdered_cons h).2.2

theorem targets_append (a b : List CA) : targets (a ++ b) = targets a ++ targets b := by
  simp [targets]

theorem wellOrdered_pre_ne (pre : List CA) (c : CA) (rest : List CA) (h : wellOrdered (pre ++ c :: rest) = true) :
    ∀ c' ∈ pre, c'.obj ≠ c.obj := by
  induction pre with
  | nil => intro c' hc'; cases hc'
  | cons p pre ih =>
    intro c' hc'
    obtain ⟨_, hd, hw⟩ := wellOrdered_cons h
    rcases List.mem_cons.mp hc' with rfl | hc'
    · intro heq
      apply hd
      show c'.obj ∈ targets (pre ++ c :: rest)
      rw [targets_append, heq]
      simp [targets]
    · exact ih hw c' hc'

def agreeObj (s1 s2 : St) (o : Nat) : Prop := ∀ l : Loc, l.1 = o → s1.sig l = s2.sig l

theorem sol_unique_aux : ∀ (suf pre : List CA) (s s1 s2 : St), wellOrdered (pre ++ suf) = true →
    Sol (pre ++ suf) s s1 → Sol (pre ++ suf) s s2 → (∀ c ∈ pre, agreeObj s1 s2 c.obj) →
    ∀ c ∈ suf, agreeObj s1 s2 c.obj := by
  intro suf
  induction suf with
  | nil => intro _ _ _ _ _ _ _ _ c hc; cases hc
  | cons c rest ih =>
    intro pre s s1 s2 hw S1 S2 hpre
    obtain ⟨hr, hd, _⟩ := wellOrdered_cons (wellOrdered_append pre _ hw)
    have hne := wellOrdered_pre_ne pre c rest hw
    have hcmem : c ∈ pre ++ c :: rest := List.mem_append_right _ (List.mem_cons_self ..)
    -- a location that no assignment covers is the same in both solutions
    have hfree : ∀ l : Loc, (∀ c'' ∈ pre ++ c :: rest, c''.covers l = false) → s1.sig l = s2.sig l :=
      fun l h => (S1.frame l h).trans (S2.frame l h).symm
    have Ac : agreeObj s1 s2 c.obj := by
      intro l hl
      cases hc : c.covers l with
      | true =>
        rw [S1.fix c hcmem l hc, S2.fix c hcmem l hc]
        congr 1
        apply eval_agree
        · exact S1.var.trans S2.var.symm
        · exact S1.tmp.trans S2.tmp.symm
        · intro l' hl'
          have hno : l'.1 ∉ c.obj :: targets rest := by
            intro hm
            have := readsAny_false hr hm
            rw [this] at hl'; cases hl'
          by_cases hex : ∃ c' ∈ pre, c'.obj = l'.1
          · obtain ⟨c', hc', he⟩ := hex
            exact hpre c' hc' l' he.symm
          · apply hfree
            intro c'' hc''
            apply not_covers_of_obj
            intro heq
            rcases List.mem_append.mp hc'' with hp | hs
            · exact hex ⟨c'', hp, heq.symm⟩
            · rcases List.mem_cons.mp hs with rfl | hr'
              · exact hno (by simp [heq])
              · exact hno (by rw [heq]; exact List.mem_cons_of_mem _ (mem_targets hr'))
      | false =>
        apply hfree
        intro c'' hc''
        rcases List.mem_append.mp hc'' with hp | hs
        · exact not_covers_of_obj _ _ (fun heq => hne c'' hp (by rw [← heq, hl]))
        · rcases List.mem_cons.mp hs with rfl | hr'
          · exact hc
          · exact not_covers_of_obj _ _ (fun heq => hd (by rw [← hl, heq]; exact mem_targets hr'))
    intro c' hc'
    rcases List.mem_cons.mp hc' with rfl | hc'
    · exact Ac
    · have e : pre ++ c :: rest = (pre ++ [c]) ++ rest := by simp
      rw [e] at hw S1 S2
      refine ih (pre ++ [c]) s s1 s2 hw S1 S2 ?_ c' hc'
      intro c'' hc''
      rcases List.mem_append.mp hc'' with hp | hs
      · exact hpre c'' hp
      · have : c'' = c := by simpa using hs
        rw [this]; exact Ac

/-- the settled state of an acyclic system is unique -/
theorem sol_unique (cs : List CA) (s s1 s2 : St) (hw : wellOrdered cs = true) (S1 : Sol cs s s1) (S2 : Sol cs s s2) :
    s1 = s2 := by
  have hA := sol_unique_aux cs [] s s1 s2 (by simpa using hw) (by simpa using S1) (by simpa using S2)
    (fun c hc => by cases hc)
  have hsig : s1.sig = s2.sig := by
    funext l
    by_cases hex : ∃ c ∈ cs, c.obj = l.1
    · obtain ⟨c, hc, he⟩ := hex
      exact hA c hc l he.symm
    · have hn : ∀ c ∈ cs, c.covers l = false := fun c hc =>
        not_covers_of_obj _ _ (fun heq => hex ⟨c, hc, heq.symm⟩)
      exact (S1.frame l hn).trans (S2.frame l hn).symm
  cases s1; cases s2
  simp only [St.mk.injEq]
  exact ⟨hsig, S1.var.trans S2.var.symm, S1.pend.trans S2.pend.symm, S1.tmp.trans S2.tmp.symm⟩

/-- a solution of one listing of the assignments is a solution of every other listing of the same assignments -/
theorem Sol_of_mem_iff {cs cs' : List CA} (h : ∀ c, c ∈ cs ↔ c ∈ cs') {s s1 : St} (S : Sol cs s s1) : Sol cs' s s1 :=
  ⟨S.var, S.tmp, S.pend, fun l hl => S.frame l (fun c hc => hl c ((h c).mp hc)),
   fun c hc l hl => S.fix c ((h c).mpr hc) l hl⟩


theorem pickReady_mem (all : List Nat) : ∀ (cs : List CA) (c : CA) (rest : List CA),
    pickReady all cs = some (c, rest) → ∀ x, x ∈ cs ↔ (x = c ∨ x ∈ rest) := by
  intro cs
  induction cs with
  | nil => intro c rest h; simp [pickReady] at h
  | cons d cs ih =>
    intro c rest h x
    simp only [pickReady] at h
    split at h
    · simp only [Option.some.injEq, Prod.mk.injEq] at h
      obtain ⟨rfl, rfl⟩ := h
      simp
    · simp only [Option.map_eq_some_iff] at h
      obtain ⟨r, hr, he⟩ := h
      simp only [Prod.mk.injEq] at he
      obtain ⟨rfl, rfl⟩ := he
      have := ih r.1 r.2 hr x
      simp only [List.mem_cons, this]
      constructor
      · rintro (h | h | h)
        · exact Or.inr (Or.inl h)
        · exact Or.inl h
        · exact Or.inr (Or.inr h)
      · rintro (h | h | h)
        · exact Or.inr (Or.inl h)
        · exact Or.inl h
        · exact Or.inr (Or.inr h)

theorem topoSort_mem : ∀ (n : Nat) (cs ord : List CA), topoSort n cs = some ord → ∀ x, x ∈ ord ↔ x ∈ cs := by
  intro n
  induction n with
  | zero =>
    intro cs ord h
    cases cs with
    | nil => simp [topoSort] at h; subst h; simp
    | cons c cs => simp [topoSort] at h
  | succ n ih =>
    intro cs ord h
    cases cs with
    | nil => simp [topoSort] at h; subst h; simp
    | cons c cs =>
      simp only [topoSort] at h
      split at h
      · cases h
      · rename_i r hr
        simp only [Option.map_eq_some_iff] at h
        obtain ⟨o, ho, rfl⟩ := h
        intro x
        have h1 := ih r.2 o ho x
        have h2 := pickReady_mem _ (c :: cs) r.1 r.2 hr x
        rw [h2, List.mem_cons, h1]

theorem settle_eq_some {cs : List CA} {s s1 : St} (h : settle cs s = some s1) :
    ∃ ord, (∀ x, x ∈ ord ↔ x ∈ cs) ∧ wellOrdered ord = true ∧ s1 = settleOrder ord s := by
  simp only [settle] at h
  split at h
  · rename_i ord ho
    split at h
    · rename_i hw
      exact ⟨ord, topoSort_mem _ _ _ ho, hw, by simpa using h.symm⟩
    · cases h
  · cases h


end CohdlVerif.C03
