import CohdlVerif.Lemmas.C19Signed

/-! C19: SFixed `_resize_overlapping`, branch by branch (part 1: no right cut) -/

namespace CohdlVerif.C19

theorem hminS (tw : Int) : inRangeS tw (-(p2 (tw - 1))) := by
  have := p2_pos (tw - 1); unfold inRangeS; omega

theorem hmaxS (tw : Int) : inRangeS tw (p2 (tw - 1) - 1) := by
  have := p2_pos (tw - 1); unfold inRangeS; omega

theorem clamp_le_lo (lo hi q : Int) (h : q ≤ lo) (hlh : lo ≤ hi) : clamp lo hi q = lo := by
  unfold clamp
  by_cases h1 : q < lo
  · rw [if_pos h1]
  · rw [if_neg h1, if_neg (by omega)]; omega

theorem clamp_ge_hi (lo hi q : Int) (h : hi ≤ q) (hlh : lo ≤ hi) : clamp lo hi q = hi := by
  unfold clamp
  rw [if_neg (by omega)]
  by_cases h1 : q > hi
  · rw [if_pos h1]
  · rw [if_neg h1]; omega

theorem roundInc_emod (v w c : Int) (hc : 1 ≤ c) (hcw : c < w) : roundInc (v % p2 w) c = roundInc v c := by
  unfold roundInc
  rw [emod_emod_p2 v w c (by omega) (by omega), emod_ediv_p2 v w c (by omega) (by omega)]
  have hp := p2_pred (w - c) (by omega)
  rw [hp, Int.emod_emod_of_dvd _ (Dvd.intro _ rfl)]

/-! ## SFixed core, branch by branch (formats overlap: `r' ≤ l`, `r ≤ l'`) -/

theorem coreS_ext (l r v l' r' : Int) (rs : Round) (os : Ovf) (hlr : r ≤ l)
    (hv : inRangeS (l - r + 1) v) (hl : l ≤ l') (hr : r' ≤ r) :
    resizeSCore l r v l' r' rs os = .ok (v * p2 (r - r')) := by
  have hz := inRangeS_mono _ (l' - r' + 1) _ (by omega) (by omega) (scaleS _ (r - r') v (by omega) (by omega) hv)
  have hmin := hminS (l' - r' + 1)
  have hmax := hmaxS (l' - r' + 1)
  unfold resizeSCore; dsimp only
  rw [mkS_ok _ v (by omega) hv.1 hv.2, mkS_ok _ _ (by omega) hmin.1 hmin.2, mkS_ok _ _ (by omega) hmax.1 hmax.2]
  simp only [bind, Except.bind, pure, Except.pure]
  rw [if_neg (by omega), if_pos (by omega), sResize_ok _ v _ _ (by omega) (by omega) (by omega) hv]
  simp only [resultRaw, ↓reduceIte]
  rw [sInt_mk _ _ (by omega) hz.1 hz.2]

theorem coreS_ovf_wrap (l r v l' r' : Int) (rs : Round) (hv : inRangeS (l - r + 1) v)
    (hl : l' < l) (hr : r' ≤ r) (hov : r ≤ l') :
    resizeSCore l r v l' r' rs .wrap = .ok (specResizeS r v l' r' rs .wrap) := by
  have hmin := hminS (l' - r' + 1)
  have hmax := hmaxS (l' - r' + 1)
  have hw := scaleS (l' - r + 1) (r - r') _ (by omega) (by omega) (wrapS_range (l' - r + 1) v (by omega))
  unfold resizeSCore; dsimp only
  rw [mkS_ok _ v (by omega) hv.1 hv.2, mkS_ok _ _ (by omega) hmin.1 hmin.2, mkS_ok _ _ (by omega) hmax.1 hmax.2]
  simp only [bind, Except.bind, pure, Except.pure]
  rw [if_pos (by omega), if_pos (by omega), if_neg (by omega)]
  rw [lsbRest_eq _ _ _ (l' - r + 1) (by omega) (by omega) (by omega)]
  try dsimp only
  rw [emod_emod_p2 v _ _ (by omega) (by omega)]
  rw [sResize_pat _ _ _ _ (by omega) (by omega) (le_refl _)]
  simp only [resultRaw]
  rw [if_pos (by omega)]
  try dsimp only
  rw [sInt_mk _ _ (by omega) hw.1 hw.2]
  unfold specResizeS quantize
  rw [if_pos (show r ≥ r' by omega), overflowS_wrap_eq, show l' - r' + 1 = (l' - r + 1) + (r - r') by omega,
    wrapS_scale _ _ _ (by omega) (by omega)]

/-- evaluation of the SATURATE prelude: sign bit and overflow bits -/
theorem sat_prelude (l r v l' : Int) (hv : inRangeS (l - r + 1) v) (hl : l' < l) (hov : r ≤ l') :
    BV.msbBit ⟨l - r + 1, v % p2 (l - r + 1)⟩ = decide (v < 0) ∧
    ((!decide (v < 0) && (v % p2 (l - r) / p2 (l' - r) != 0)) = decide (p2 (l' - r) ≤ v)) ∧
    ((decide (v < 0) && (p2 (l - l') - 1 - v % p2 (l - r) / p2 (l' - r) != 0)) = decide (v < -(p2 (l' - r)))) := by
  have hf := sat_flags (l - r + 1) v (l - l') hv (by omega) (by omega)
  rw [show l - r + 1 - 1 = l - r by omega, show l - r - (l - l') = l' - r by omega,
    show l - r + 1 - (l - l') - 1 = l' - r by omega] at hf
  exact ⟨msbBit_eq _ v (by omega) hv, hf.1, hf.2⟩

theorem coreS_ovf_sat (l r v l' r' : Int) (rs : Round) (hv : inRangeS (l - r + 1) v)
    (hl : l' < l) (hr : r' ≤ r) (hov : r ≤ l') :
    resizeSCore l r v l' r' rs .saturate = .ok (specResizeS r v l' r' rs .saturate) := by
  have hmin := hminS (l' - r' + 1)
  have hmax := hmaxS (l' - r' + 1)
  have hk := p2_pos (r - r')
  have hK := p2_pos (l' - r)
  have hP := p2_add (l' - r) (r - r') (by omega) (by omega)
  rw [show l' - r + (r - r') = l' - r' + 1 - 1 by omega] at hP
  have hT := p2_pos (l' - r' + 1 - 1)
  obtain ⟨hsign, hover, hunder⟩ := sat_prelude l r v l' hv hl hov
  unfold resizeSCore; dsimp only
  rw [mkS_ok _ v (by omega) hv.1 hv.2, mkS_ok _ _ (by omega) hmin.1 hmin.2, mkS_ok _ _ (by omega) hmax.1 hmax.2]
  simp only [bind, Except.bind, pure, Except.pure]
  rw [if_pos (by omega)]
  try dsimp only
  rw [lsbRest_eq _ _ 1 (l - r) (by omega) (by omega) (by omega)]
  try dsimp only
  rw [min_eq_left (show l - l' ≤ l - r + 1 - 1 by omega)]
  rw [left_eq _ _ _ (l' - r) (by omega) (by omega) (by omega)]
  try dsimp only
  rw [emod_emod_p2 v (l - r + 1) (l - r) (by omega) (by omega)]
  rw [if_pos (by omega), if_neg (by omega)]
  try simp only [bind, Except.bind]
  rw [lsbRest_eq _ _ _ (l' - r + 1) (by omega) (by omega) (by omega)]
  try dsimp only
  rw [emod_emod_p2 v _ _ (by omega) (by omega)]
  rw [sResize_pat _ _ _ _ (by omega) (by omega) (by omega)]
  try dsimp only
  simp only [choose2, BV.any, BV.inv, hsign, hover, hunder]
  unfold specResizeS quantize overflowS
  rw [if_pos (show r ≥ r' by omega)]
  try dsimp only
  by_cases hu : v < -(p2 (l' - r))
  · rw [if_pos (by simp [hu])]
    rw [sFromS_ok _ _ _ (by omega) (le_refl _) hmin]
    simp only [resultRaw, ↓reduceIte]
    rw [sInt_mk _ _ (by omega) hmin.1 hmin.2]
    rw [clamp_le_lo _ _ _ (by unfold loS; rw [hP]; nlinarith) (by unfold loS hiS; omega)]
    rfl
  · rw [if_neg (by simp [hu])]
    by_cases hge : p2 (l' - r) ≤ v
    · rw [if_pos (by simp [hge])]
      rw [sFromS_ok _ _ _ (by omega) (le_refl _) hmax]
      simp only [resultRaw, ↓reduceIte]
      rw [sInt_mk _ _ (by omega) hmax.1 hmax.2]
      rw [clamp_ge_hi _ _ _ (by unfold hiS; rw [hP]; nlinarith) (by unfold loS hiS; omega)]
      rfl
    · rw [if_neg (by simp [hge])]
      have hvn : inRangeS (l' - r + 1) v := by
        unfold inRangeS; rw [show l' - r + 1 - 1 = l' - r by omega]; omega
      have hsc := inRangeS_mono _ (l' - r' + 1) _ (by omega) (by omega) (scaleS _ (r - r') v (by omega) (by omega) hvn)
      rw [wrapS_id _ v (by omega) hvn]
      rw [sFromS_ok _ _ _ (by omega) (le_refl _) hsc]
      simp only [resultRaw, ↓reduceIte]
      rw [sInt_mk _ _ (by omega) hsc.1 hsc.2]
      rw [clamp_id _ _ _ (by unfold loS; exact hsc.1) (by unfold hiS; have := hsc.2; omega)]

end CohdlVerif.C19
