import CohdlVerif.Lemmas.C18Select
/-!
  C18 helper lemmas, part 4: rotations, fills, one_hot, repeat / stretch / pad, CRC as polynomial division.
-/
namespace CohdlVerif.C18

/-! ### rol / ror -/

theorem rolM_eq (bits : Bits) (n : Nat) (hn : n ≤ bits.length) : rolM bits n = some (rolSpec bits n) := by
  unfold rolM rolSpec
  simp only [show ¬ bits.length < n by omega, if_false]
  have hgetD : ∀ j, j < bits.length → bits.getD j false = bits[j]! := by
    intro j hj; simp [List.getD_eq_getElem?_getD, hj]
  by_cases h0 : n = 0 ∨ n = bits.length
  · simp only [h0, if_true, Option.some.injEq]
    apply List.ext_getElem
    · simp
    · intro i h1 h2
      simp only [List.getElem_map, List.getElem_range]
      have : (i + bits.length - n) % bits.length = i := by
        rcases h0 with h | h
        · subst h; simp only [Nat.sub_zero]; rw [Nat.add_mod_right]; exact Nat.mod_eq_of_lt h1
        · rw [h]; rw [Nat.add_sub_cancel]; exact Nat.mod_eq_of_lt h1
      rw [this, List.getD_eq_getElem?_getD]; simp [h1]
  · simp only [h0, if_false, Option.some.injEq, cat]
    have hn0 : 0 < n := by omega
    have hnl : n < bits.length := by omega
    apply List.ext_getElem
    · simp <;> omega
    · intro i h1 h2
      simp only [List.length_map, List.length_range] at h2
      simp only [List.getElem_map, List.getElem_range]
      by_cases hi : i < n
      · have : (i + bits.length - n) % bits.length = bits.length - n + i := by
          rw [Nat.mod_eq_of_lt (by omega)]; omega
        rw [this, List.getElem_append_left (by simp; omega), List.getElem_drop, List.getD_eq_getElem?_getD]
        simp [show bits.length - n + i < bits.length by omega]
      · have : (i + bits.length - n) % bits.length = i - n := by
          rw [show i + bits.length - n = (i - n) + bits.length by omega, Nat.add_mod_right]
          exact Nat.mod_eq_of_lt (by omega)
        rw [this, List.getElem_append_right (by simp; omega), List.getElem_take, List.getD_eq_getElem?_getD]
        simp [show i - n < bits.length by omega]; congr 1; omega

theorem rorM_eq (bits : Bits) (n : Nat) (hn : n ≤ bits.length) : rorM bits n = some (rorSpec bits n) := by
  unfold rorM rorSpec
  simp only [show ¬ bits.length < n by omega, if_false]
  by_cases h0 : n = 0 ∨ n = bits.length
  · simp only [h0, if_true, Option.some.injEq]
    apply List.ext_getElem
    · simp
    · intro i h1 h2
      simp only [List.getElem_map, List.getElem_range]
      have : (i + n) % bits.length = i := by
        rcases h0 with h | h
        · subst h; exact Nat.mod_eq_of_lt h1
        · rw [h, Nat.add_mod_right]; exact Nat.mod_eq_of_lt h1
      rw [this, List.getD_eq_getElem?_getD]; simp [h1]
  · simp only [h0, if_false, Option.some.injEq, cat]
    have hn0 : 0 < n := by omega
    have hnl : n < bits.length := by omega
    apply List.ext_getElem
    · simp; omega
    · intro i h1 h2
      simp only [List.length_map, List.length_range] at h2
      simp only [List.getElem_map, List.getElem_range]
      by_cases hi : i < bits.length - n
      · have : (i + n) % bits.length = n + i := by rw [Nat.mod_eq_of_lt (by omega)]; omega
        rw [this, List.getElem_append_left (by simp; omega), List.getElem_drop, List.getD_eq_getElem?_getD]
        simp [show n + i < bits.length by omega]
      · have : (i + n) % bits.length = i - (bits.length - n) := by
          rw [show i + n = (i - (bits.length - n)) + bits.length by omega, Nat.add_mod_right]
          exact Nat.mod_eq_of_lt (by omega)
        rw [this, List.getElem_append_right (by simp; omega), List.getElem_take, List.getD_eq_getElem?_getD]
        simp [show i - (bits.length - n) < bits.length by omega]

/-- rotating back restores the vector -/
theorem ror_rol (bits : Bits) (n : Nat) (hn : n ≤ bits.length) :
    (rolM bits n).bind (fun r => rorM r n) = some bits := by
  unfold rolM
  simp only [show ¬ bits.length < n by omega, if_false]
  by_cases h0 : n = 0 ∨ n = bits.length
  · simp only [h0, if_true, Option.bind_some, rorM, show ¬ bits.length < n by omega, if_false]
  · simp only [h0, if_false, Option.bind_some, rorM, cat, List.length_append, List.length_drop, List.length_take]
    have e1 : bits.length - (bits.length - n) + min (bits.length - n) bits.length = bits.length := by omega
    simp only [e1, show ¬ bits.length < n by omega, if_false, h0, Option.some.injEq]
    have hl : (bits.drop (bits.length - n)).length = n := by simp; omega
    rw [List.drop_left' hl, List.take_left' hl]
    exact List.take_append_drop _ _

/-! ### BitwiseCrc = bitwise polynomial division -/

theorem xorPre_xorPre (a b : List Bool) (h : a.length = b.length) :
    ∀ d : List Bool, xorPre a (xorPre b d) = xorPre (bxor a b) d := by
  induction a generalizing b with
  | nil => intro d; cases b <;> simp_all [xorPre, bxor]
  | cons x a ih =>
    intro d
    cases b with
    | nil => simp at h
    | cons y b =>
      cases d with
      | nil => simp [xorPre, bxor]
      | cons z d =>
        simp only [List.length_cons, Nat.add_right_cancel_iff] at h
        simp only [xorPre, bxor, List.zipWith_cons_cons, List.cons.injEq]
        refine ⟨by cases x <;> cases y <;> cases z <;> rfl, ?_⟩
        have := ih b h d
        simpa [bxor] using this

/-! ### one_hot / is_one_hot -/

theorem ofNat_zero (w : Nat) : ofNat w 0 = List.replicate w false := by
  induction w with
  | zero => rfl
  | succ w ih => simp [ofNat, ih, List.replicate_succ]

theorem ofNat_two_pow : ∀ (w p : Nat), p < w → ofNat w (2 ^ p) = (List.range w).map (· == p) := by
  intro w
  induction w with
  | zero => intro p hp; omega
  | succ w ih =>
    intro p hp
    rw [List.range_succ_eq_map]
    cases p with
    | zero =>
      simp only [ofNat, Nat.pow_zero, List.map_cons, List.map_map]
      rw [show (1 : Nat) / 2 = 0 by omega, ofNat_zero]
      simp only [show ((1 : Nat) % 2 == 1) = true by decide, List.cons.injEq]
      refine ⟨by simp, ?_⟩
      apply List.ext_getElem <;> simp
    | succ q =>
      have h1 : 2 ^ (q + 1) % 2 = 0 := by rw [Nat.pow_succ]; omega
      have h2 : 2 ^ (q + 1) / 2 = 2 ^ q := by rw [Nat.pow_succ]; omega
      simp only [ofNat, h1, h2, List.map_cons, List.map_map, ih q (by omega)]
      refine List.cons_eq_cons.mpr ⟨by simp, ?_⟩
      apply List.map_congr_left
      intro i _; simp

theorem oneHot_eq (w p : Nat) (hp : p < w) : oneHot w p = some (oneHotSpec w p) := by
  unfold oneHot oneHotSpec
  have : 2 ^ p < 2 ^ w := Nat.pow_lt_pow_right (by omega) hp
  simp only [hp, if_true, Nat.one_mul, Nat.mod_eq_of_lt this, ofNat_two_pow w p hp]

theorem count_true_zero (l : List Bool) (h : l.count true = 0) : l = List.replicate l.length false := by
  induction l with
  | nil => rfl
  | cons a r ih =>
    cases a
    · simp only [List.count_cons, Bool.false_eq_true, beq_iff_eq, if_false, Nat.add_zero] at h
      simp [List.replicate_succ, ← ih h]
    · simp [List.count_cons] at h

theorem one_hot_iff (bits : Bits) :
    bits.count true = 1 ↔ ∃ p, p < bits.length ∧ bits = (List.range bits.length).map (· == p) := by
  induction bits with
  | nil => simp
  | cons b r ih =>
    simp only [List.length_cons, List.range_succ_eq_map, List.map_cons, List.map_map]
    constructor
    · intro h
      cases b
      · have hr : r.count true = 1 := by simpa [List.count_cons] using h
        obtain ⟨p, hp, he⟩ := ih.mp hr
        refine ⟨p + 1, by omega, ?_⟩
        refine List.cons_eq_cons.mpr ⟨by simp, ?_⟩
        conv => lhs; rw [he]
        apply List.map_congr_left; intro i _; simp
      · have hr : r.count true = 0 := by simpa [List.count_cons] using h
        refine ⟨0, by omega, ?_⟩
        refine List.cons_eq_cons.mpr ⟨by simp, ?_⟩
        conv => lhs; rw [count_true_zero r hr]
        apply List.ext_getElem <;> simp
    · rintro ⟨p, hp, he⟩
      obtain ⟨hb, hr⟩ := List.cons_eq_cons.mp he
      cases p with
      | zero =>
        have : r = List.replicate r.length false := by
          conv => lhs; rw [hr]
          apply List.ext_getElem <;> simp
        simp only [BEq.rfl] at hb
        subst hb
        rw [List.count_cons, this]; simp [List.count_replicate]
      | succ q =>
        have hq : r = (List.range r.length).map (· == q) := by
          conv => lhs; rw [hr]
          apply List.map_congr_left; intro i _; simp
        have := ih.mpr ⟨q, by omega, hq⟩
        have hb' : b = false := by simpa using hb
        subst hb'
        simpa [List.count_cons] using this

theorem isOneHot_eq (bits : Bits) : isOneHot bits = isOneHotSpec bits := by
  unfold isOneHot isOneHotSpec
  rw [Bool.eq_iff_iff]
  simp only [List.any_eq_true, List.mem_range, beq_iff_eq]
  rw [one_hot_iff]
  constructor
  · rintro ⟨p, hp, he⟩
    rw [oneHot_eq _ _ hp] at he
    exact ⟨p, hp, by simpa [oneHotSpec] using he.symm⟩
  · rintro ⟨p, hp, he⟩
    refine ⟨p, hp, ?_⟩
    rw [oneHot_eq _ _ hp]; simp only [oneHotSpec, Option.some.injEq]; exact he.symm

/-! ### lshift_fill / rshift_fill, bit by bit -/

theorem lshiftFill_bits (val fill : Bits) (h : fill.length ≤ val.length) :
    ∃ r, lshiftFill val fill = some r ∧ r.length = val.length ∧
      ∀ i (hi : i < r.length), r[i] = if i < fill.length then fill.getD i false else val.getD (i - fill.length) false := by
  unfold lshiftFill
  by_cases he : fill.length = val.length
  · refine ⟨fill, by simp [he], he, ?_⟩
    intro i hi; simp [hi, List.getD_eq_getElem?_getD]
  · simp only [he, if_false, show ¬ val.length < fill.length by omega, cat]
    refine ⟨_, rfl, by simp; omega, ?_⟩
    intro i hi
    by_cases hif : i < fill.length
    · simp [hif, List.getElem_append_left, List.getD_eq_getElem?_getD]
    · simp only [hif, if_false]
      rw [List.getElem_append_right (by omega), List.getElem_take, List.getD_eq_getElem?_getD]
      simp only [List.length_append, List.length_take] at hi
      simp [show i - fill.length < val.length by omega]

theorem rshiftFill_bits (val fill : Bits) (h : fill.length ≤ val.length) :
    ∃ r, rshiftFill val fill = some r ∧ r.length = val.length ∧
      ∀ i (hi : i < r.length), r[i] = if i < val.length - fill.length then val.getD (i + fill.length) false
                                      else fill.getD (i - (val.length - fill.length)) false := by
  unfold rshiftFill
  by_cases he : fill.length = val.length
  · refine ⟨fill, by simp [he], he, ?_⟩
    intro i hi
    have hi' : i < fill.length := hi
    simp [he, List.getD_eq_getElem?_getD, List.getElem?_eq_getElem hi']
  · simp only [he, if_false, show ¬ val.length < fill.length by omega, cat]
    refine ⟨_, rfl, by simp; omega, ?_⟩
    intro i hi
    simp only [List.length_append, List.length_drop] at hi
    by_cases hif : i < val.length - fill.length
    · simp only [hif, if_true]
      rw [List.getElem_append_left (by simp; omega), List.getElem_drop, List.getD_eq_getElem?_getD]
      simp [List.getElem?_eq_getElem (show i + fill.length < val.length by omega), Nat.add_comm]
    · simp only [hif, if_false]
      rw [List.getElem_append_right (by simp; omega), List.getD_eq_getElem?_getD]
      simp only [List.length_drop]
      simp [show i - (val.length - fill.length) < fill.length by omega]

end CohdlVerif.C18
