import CohdlVerif.Lemmas.C01S5

/-! C01 - general grammar: exits through the frames of the reference stack -/
namespace CohdlVerif.C01

section
variable {σ : Type} (act : Nat → σ → σ) (cond : Nat → σ → Bool)
variable (prog : Stmt) (Hf : Nat → Blk) (E : Nat → σ → σ × Option Nat) (Rf : Nat → Nat) (Sf : List Nat)

theorem RunTo.brk_seq (k : Stmt) (st : List Frame) (fr : Bool) (s : σ) :
    RunTo act cond .brk (.seq k :: st) fr s .brk st fr s := fun f y h => ⟨f+1, by simpa [run] using h⟩
theorem RunTo.cont_seq (k : Stmt) (st : List Frame) (fr : Bool) (s : σ) :
    RunTo act cond .cont (.seq k :: st) fr s .cont st fr s := fun f y h => ⟨f+1, by simpa [run] using h⟩
theorem RunTo.ret_seq (k : Stmt) (st : List Frame) (fr : Bool) (s : σ) :
    RunTo act cond .ret (.seq k :: st) fr s .ret st fr s := fun f y h => ⟨f+1, by simpa [run] using h⟩
theorem RunTo.ret_loop (c : Option Nat) (b k : Stmt) (st : List Frame) (fr : Bool) (s : σ) :
    RunTo act cond .ret (.loop c b k :: st) fr s .ret st fr s := fun f y h => ⟨f+1, by simpa [run] using h⟩
theorem RunTo.brk_loop (c : Option Nat) (b k : Stmt) (st : List Frame) (fr : Bool) (s : σ) :
    RunTo act cond .brk (.loop c b k :: st) fr s k st false s := fun f y h => ⟨f+1, by simpa [run] using h⟩
theorem RunTo.ret_call (k : Stmt) (st : List Frame) (fr : Bool) (s : σ) :
    RunTo act cond .ret (.callF k :: st) fr s k st fr s := fun f y h => ⟨f+1, by simpa [run] using h⟩
theorem RunTo.skip_call (k : Stmt) (st : List Frame) (fr : Bool) (s : σ) :
    RunTo act cond .skip (.callF k :: st) fr s k st fr s := fun f y h => ⟨f+1, by simpa [run] using h⟩
theorem RunTo.call_ (b k : Stmt) (st : List Frame) (fr : Bool) (s : σ) :
    RunTo act cond (.call b k) st fr s b (.callF k :: st) fr s := fun f y h => ⟨f+1, by simpa [run] using h⟩
theorem RunTo.cont_loop_true (c : Option Nat) (b k : Stmt) (st : List Frame) (fr : Bool) (s : σ)
    (hc : evalC cond c s = true) : RunTo act cond .cont (.loop c b k :: st) fr s b (.loop c b k :: st) false s :=
  fun f y h => ⟨f+1, by simpa [run, hc] using h⟩
theorem RunTo.cont_loop_false (c : Option Nat) (b k : Stmt) (st : List Frame) (fr : Bool) (s : σ)
    (hc : evalC cond c s = false) : RunTo act cond .cont (.loop c b k :: st) fr s k st false s :=
  fun f y h => ⟨f+1, by simpa [run, hc] using h⟩

/-- a tail that simulates `q'` also simulates `q` when the reference runs from `q` to `q'` without changing the data -/
theorem TailSim2.pull {m x : Nat} {pre : List Item} {q q' : Stmt} {st st' : List Frame} {fr fr' : Bool}
    (hr : ∀ s : σ, RunTo act cond q st fr s q' st' fr' s) (hfr : fr = false → fr' = false)
    (h : TailSim2 act cond prog Hf E Rf Sf m x pre q' st' fr') : TailSim2 act cond prog Hf E Rf Sf m x pre q st fr :=
  fun suf hs s0 => SimPt2_pull act cond prog E Sf (hr s0) hfr (h suf hs s0)

/-- premises below a `seq` frame -/
theorem Prems.seq {m : Nat} {R0 : List Nat} {st : List Frame} {k : Stmt} {s : CSt} {r : List Nat × CSt}
    (hA : r.2.atStart = false)
    (op : ∀ o' ∈ r.1, TailSim2 act cond prog Hf E Rf Sf (lvl Rf R0 m o') o' (r.2.heap o').items k st false)
    (br : ∀ o' ∈ dB s r.2, TailSim2 act cond prog Hf E Rf Sf (lvl Rf R0 m o') o' (r.2.heap o').items .brk st false)
    (co : ∀ o' ∈ dC s r.2, TailSim2 act cond prog Hf E Rf Sf (lvl Rf R0 m o') o' (r.2.heap o').items .cont st false)
    (re : ∀ o' ∈ dR s r.2, TailSim2 act cond prog Hf E Rf Sf (lvl Rf R0 m o') o' (r.2.heap o').items .ret st false) :
    Prems act cond prog Hf E Rf Sf m R0 (.seq k :: st) s r := by
  refine ⟨?_, ?_, ?_, ?_⟩ <;> rw [hA]
  · exact fun o' ho' => (op o' ho').pull act cond prog Hf E Rf Sf (fun s0 => RunTo.skip_seq act cond k st false s0) (fun h => h)
  · exact fun o' ho' => (br o' ho').pull act cond prog Hf E Rf Sf (fun s0 => RunTo.brk_seq act cond k st false s0) (fun h => h)
  · exact fun o' ho' => (co o' ho').pull act cond prog Hf E Rf Sf (fun s0 => RunTo.cont_seq act cond k st false s0) (fun h => h)
  · exact fun o' ho' => (re o' ho').pull act cond prog Hf E Rf Sf (fun s0 => RunTo.ret_seq act cond k st false s0) (fun h => h)

end
end CohdlVerif.C01
