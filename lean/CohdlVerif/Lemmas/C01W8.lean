import CohdlVerif.Lemmas.C01W7

/-! C01 - general grammar: `While`, the body simulates one iteration -/
namespace CohdlVerif.C01

section
variable {σ : Type} (act : Nat → σ → σ) (cond : Nat → σ → Bool)
variable (prog : Stmt) (Hf : Nat → Blk) (E : Nat → σ → σ × Option Nat) (Rf : Nat → Nat) (Sf : List Nat)

/-- when a transition is certainly set the state in which the code runs does not matter -/
theorem SimPt2_cur {m i i' : Nat} {res : σ × Option Nat} {q : Stmt} {st : List Frame} {s : σ}
    (h : SimPt2 act cond prog E Sf m i res q st false s) : SimPt2 act cond prog E Sf m i' res q st false s := by
  rcases h with h | ⟨f, r, h1, h2, h3⟩
  · exact Or.inl h
  · obtain ⟨t, ht⟩ := Option.isSome_iff_exists.mp (h3 rfl)
    refine Or.inr ⟨f, r, h1, ?_, h3⟩
    rw [ht] at h2 ⊢; exact h2

theorem while_body (hE : ∀ b s, E b s = execB act cond E (Hf b) s) (cc : Option Nat) (b k : Stmt)
    (ihb : SimG act cond prog Hf E Rf Sf b true)
    (st : List Frame) (O : List Nat) (s : CSt) (m : Nat) (R0 : List Nat) (P' : Nat → Prop)
    (X : WCtx cc b O s) (Z : WEnd cc b k O s Hf P') (Pc : WPieces cc b O s) (hi : Inv s O)
    (hF : Fut Hf Rf Sf (compile k (wOk cc b O s) (wSX cc b O s)).2 P')
    (hp : Prems act cond prog Hf E Rf Sf m R0 st s (compile k (wOk cc b O s) (wSX cc b O s)))
    (CKk : ∀ o ∈ wOk cc b O s, TailSim2 act cond prog Hf E Rf Sf (lvl Rf R0 m o) o ((wSX cc b O s).heap o).items k st false) :
    ∀ j, (∀ x, lvl Rf [Rf (wBody O s)] j x ≤ lvl Rf R0 m x) →
      SimN act cond prog E Sf (j - 1) (.atHead cc b k st) (wIdx O s) →
      TailSim2 act cond prog Hf E Rf Sf j (wBody O s) [] b (.loop cc b k :: st) false := by
  obtain ⟨FutB, hroot, hfr⟩ := fut_body cc b k O s Hf Rf Sf P' X Z Pc hi hF
  have hAR : (wR b O s).2.atStart = false := X.B.atStart_false X.hi1.hlt.2 X.A1
  have hAR' : (compile b [wBody O s] (wS1c O s)).2.atStart = false := hAR
  have hAk : (compile k (wOk cc b O s) (wSX cc b O s)).2.atStart = false := Z.Tk.atStart_false Z.hix.hlt.2 Z.AX
  have hn5 := Z.n5
  have hnX := Z.nX
  intro j
  induction j using Nat.strongRecOn with
  | _ j ih =>
    intro hle hH
    have hbody := ihb (.loop cc b k :: st) [wBody O s] (wS1c O s) j [Rf (wBody O s)] _ X.hi1 X.hsi1 (fun _ => X.A1)
      Pc.bad4 FutB
      (by
        intro y hy hlt hr
        rcases hy with hy | hy
        · exact hy
        · exfalso
          rcases hr with h | h
          · simp at h; omega
          · have : (wS1c O s).next = wBody O s + 1 := X.next1
            omega)
      ⟨?_, ?_, ?_, ?_⟩ (wBody O s) (by simp)
    · have e0 : ((wS1c O s).heap (wBody O s)).items = [] := by
        show ((wS1 O s).heap (wBody O s)).items = []
        rw [X.body0]
      have eA : (wS1c O s).atStart = false := X.A1
      rwa [e0, eA, lvl_self] at hbody
    -- open blocks at the end of the body: the back edge
    · intro o' ho' suf hsuf s0
      have ho' : o' ∈ (wR b O s).1 := ho'
      have hsuf : (Hf o').items = ((wR b O s).2.heap o').items ++ suf := hsuf
      have hr := Pc.rng o' (Or.inl ho')
      have hx := Pc.ob_x o' ho'
      have hcl : Hf o' = { (wR b O s).2.heap o' with front := [wIdx O s] } := by
        rw [Z.closed o' (by omega) (Or.inr (by have := X.sbl; omega))
          (fun h => hx.1 (wOk_not cc b O s Pc hn5 o' h hr.2)) hx.2.2,
          hfr o' hr.2 (by have := X.hbl; omega) hx.2.1, X.h3 o' ho']
      rw [hcl] at hsuf
      have : suf = [] := by simpa using hsuf.symm
      subst this
      rw [hAR']
      by_cases hj : lvl Rf [Rf (wBody O s)] j o' = 0
      · exact Or.inl hj
      right
      refine ⟨1, .atHead cc b k st, ?_, ?_, fun _ => by simp [tailF, execI, hcl, lastT, por]⟩
      · rw [run_skip_loop]; simp [tailF, execI]
      · simp only [tailF, execI, hcl, lastT, por, Option.getD_some]
        exact SimN_mono_le act cond prog E Sf _ _ (by have := lvl_le Rf [Rf (wBody O s)] j o'; omega) _ _ hH
    -- break
    · intro o' ho'
      have ho'b : o' ∈ (wS3 b O s).brk := X.brk_eq ▸ ho'
      have hr := Pc.rng o' (Or.inr (Or.inl ho'b))
      have hx := Pc.br_x o' ho'b
      have hok : o' ∈ wOk cc b O s := by
        cases cc <;> simp [wOk, wRb, ho'b]
      have h1 := CKk o' hok
      rw [hfr o' hr.2 (by have := X.hbl; omega) hx.2.1, X.h3' o' hx.1] at h1
      rw [hAR']
      exact (TailSim2_mono_le act cond prog Hf E Rf Sf _ _ o' (hle o') _ _ _ _ h1).pull act cond prog Hf E Rf Sf
        (fun s0 => RunTo.brk_loop act cond cc b k st false s0) (fun h => h)
    -- continue
    · intro cb hcb
      have hcbc : cb ∈ (wS3 b O s).cont := X.cont_eq ▸ hcb
      have hr := Pc.rng cb (Or.inr (Or.inr (Or.inl hcbc)))
      have hx := Pc.co_x cb hcbc
      obtain ⟨hrne, it, hheap5, hit⟩ := Pc.eff cb hcbc
      have hlw := X.W.hlt hi.hlt
      obtain ⟨_, _, _, _, _, fr1, _, _⟩ := wSX_facts cc b O s hlw X.A5
      have hbl4 : wBody O s < (wS4 b O s).next := by
        rw [X.next4]; have := X.B.next_le; have : (wS1c O s).next = wBody O s + 1 := X.next1; omega
      have hRne : Rf cb ≠ Rf (wBody O s) := by rw [hroot cb hr.2, hroot _ hbl4]; exact hrne
      have hlv : lvl Rf [Rf (wBody O s)] j cb = j - 1 := by simp [lvl, hRne]
      have hfc : ((wR b O s).2.heap cb).front = [] :=
        X.FB.2 cb (mem_Outs.mpr (Or.inr (Or.inr (Or.inl hcb))))
      have hHc : Hf cb = { front := [], items := ((wR b O s).2.heap cb).items ++ [it] } := by
        rw [Z.closed cb (by omega) (Or.inr (by have := X.sbl; omega))
          (fun h => hx.2.1 (wOk_not cc b O s Pc hn5 cb h hr.2)) hx.2.2,
          fr1 cb (by have := X.hbl; omega) (by omega), hheap5, X.h3' cb hx.1]
        simp only [hfc]
      rw [hAR', hlv]
      intro suf hsuf s0
      have hsuf : (Hf cb).items = ((wR b O s).2.heap cb).items ++ suf := hsuf
      rw [hHc] at hsuf
      have : suf = [it] := by simpa using hsuf.symm
      subst this
      by_cases hj : j - 1 = 0
      · exact Or.inl hj
      have hBS := ih (j - 1) (by omega)
        (fun x => Nat.le_trans (lvl_mono Rf _ _ _ x (by omega)) (hle x))
        (SimN_mono_le act cond prog E Sf _ _ (by omega) _ _ hH)
      have hEb : SimPt2 act cond prog E Sf (j - 1) (cur Rf Sf cb) (E (wBody O s) s0) b (.loop cc b k :: st) false s0 := by
        have := hBS (Hf (wBody O s)).items (by simp) s0
        rw [← E_tailF act cond Hf E hE] at this
        exact SimPt2_cur act cond prog E Sf this
      cases cc with
      | none =>
        have hit' : it = .sub (wBody O s) := hit
        subst hit'
        have htl : tailF act cond Hf E cb [.sub (wBody O s)] s0 = E (wBody O s) s0 := by
          simp only [tailF, execI, hHc, lastT, por_none_right, por_none_left]
        rw [htl]
        exact SimPt2_pull act cond prog E Sf (RunTo.cont_loop_true act cond none b k st false s0 (by simp [evalC]))
          (fun h => h) hEb
      | some c' =>
        obtain ⟨bb, hbb1, _, rfl⟩ := hit
        have htl : tailF act cond Hf E cb [.ite c' (wBody O s) bb] s0 =
            if cond c' s0 then E (wBody O s) s0 else E bb s0 := by
          simp only [tailF, execI, hHc, lastT, por_none_right, por_none_left]
        rw [htl]
        cases hc : cond c' s0 with
        | true =>
          simp only [if_true]
          exact SimPt2_pull act cond prog E Sf (RunTo.cont_loop_true act cond (some c') b k st false s0 (by simp [evalC, hc]))
            (fun h => h) hEb
        | false =>
          simp only [Bool.false_eq_true, if_false]
          have hnew := Pc.cl_new bb hbb1
          have hok : bb ∈ wOk (some c') b O s := by simp [wOk, wRb, hbb1]
          have h1 := CKk bb hok
          have hXb : (wSX (some c') b O s).heap bb = {} := by
            rw [fr1 bb (by have := X.hbl; have := hr.1; omega) (by
              have := (X.CL.hlt ⟨fun o ho => (Pc.rng o (Or.inr (Or.inr (Or.inl ho)))).2, by omega⟩)
              have h5 : bb < (wCl (some c') b O s).2.next := by
                have hm := (contLoop_step (some c') (wBody O s) (wS3 b O s).cont (wS4 b O s) []
                  ⟨fun o ho => (Pc.rng o (Or.inr (Or.inr (Or.inl ho)))).2, by omega⟩).2 bb hbb1
                rcases hm with h | h
                · simp at h
                · rcases h.1 with h | h
                  · exact absurd ((Pc.rng bb (Or.inr (Or.inr (Or.inl h)))).2) (by omega)
                  · exact h.2
              exact h5), hnew.2]
          rw [hXb] at h1
          have h2 := h1 (Hf bb).items (by simp) s0
          rw [← E_tailF act cond Hf E hE] at h2
          have hlvb : j - 1 ≤ lvl Rf R0 m bb :=
            Nat.le_trans (lvl_ge Rf [Rf (wBody O s)] j bb) (hle bb)
          exact SimPt2_pull act cond prog E Sf (RunTo.cont_loop_false act cond (some c') b k st false s0 (by simp [evalC, hc]))
            (fun h => h) (SimPt2_cur act cond prog E Sf (SimPt2_mono_le act cond prog E Sf _ _ _ hlvb _ _ _ _ _ h2))
    -- return
    · intro o' ho'
      have ho'r : o' ∈ dR s (wS4 b O s) := X.ret_eq ▸ ho'
      have hr := Pc.rng o' (Or.inr (Or.inr (Or.inr ho'r)))
      have hx := Pc.re_x o' ho'r
      have h1 := hp.re o' (by rw [Z.dRk]; simp [ho'r])
      have hno : o' ∉ wOk cc b O s := fun h => hx.2.1 (wOk_not cc b O s Pc hn5 o' h hr.2)
      rw [hAk, Z.Tk.frame o' (by omega) hno, hfr o' hr.2 (by have := X.hbl; omega) hx.2.2, X.h3' o' hx.1] at h1
      rw [hAR']
      exact (TailSim2_mono_le act cond prog Hf E Rf Sf _ _ o' (hle o') _ _ _ _ h1).pull act cond prog Hf E Rf Sf
        (fun s0 => RunTo.ret_loop act cond cc b k st false s0) (fun h => h)

end
end CohdlVerif.C01
