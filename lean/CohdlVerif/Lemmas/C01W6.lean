import CohdlVerif.Lemmas.C01W5

/-! C01 - general grammar: `While`, where the blocks of the body live -/
namespace CohdlVerif.C01

/-- membership facts about the blocks produced by the body of a loop -/
structure WPieces (cc : Option Nat) (b : Stmt) (O : List Nat) (s : CSt) : Prop where
  cl_new : ∀ y ∈ (wCl cc b O s).1, (wS4 b O s).next ≤ y ∧ (wCl cc b O s).2.heap y = {}
  rng : ∀ y, (y ∈ (wR b O s).1 ∨ y ∈ (wS3 b O s).brk ∨ y ∈ (wS3 b O s).cont ∨ y ∈ dR s (wS4 b O s)) →
    wBody O s ≤ y ∧ y < (wS4 b O s).next
  ob_x : ∀ y ∈ (wR b O s).1, y ∉ (wS3 b O s).brk ∧ y ∉ (wS3 b O s).cont ∧ y ∉ dR s (wS4 b O s)
  br_x : ∀ y ∈ (wS3 b O s).brk, y ∉ (wR b O s).1 ∧ y ∉ (wS3 b O s).cont ∧ y ∉ dR s (wS4 b O s)
  co_x : ∀ y ∈ (wS3 b O s).cont, y ∉ (wR b O s).1 ∧ y ∉ (wS3 b O s).brk ∧ y ∉ dR s (wS4 b O s)
  re_x : ∀ y ∈ dR s (wS4 b O s), y ∉ (wR b O s).1 ∧ y ∉ (wS3 b O s).brk ∧ y ∉ (wS3 b O s).cont
  bad4 : (wR b O s).2.bad = false
  eff : ∀ cb ∈ (wS3 b O s).cont, (wS4 b O s).root cb ≠ (wS4 b O s).root (wBody O s) ∧
    ∃ it, (wCl cc b O s).2.heap cb = { (wS4 b O s).heap cb with items := ((wS4 b O s).heap cb).items ++ [it] } ∧
      ContItem cc (wBody O s) (wCl cc b O s).1 [] it
  frame5 : ∀ y, y < (wS4 b O s).next → y ∉ (wS3 b O s).cont → (wCl cc b O s).2.heap y = (wS4 b O s).heap y

theorem wpieces (cc : Option Nat) (b : Stmt) (O : List Nat) (s : CSt) (X : WCtx cc b O s)
    (hbad5 : (wCl cc b O s).2.bad = false) : WPieces cc b O s := by
  obtain ⟨nB, nC, nR, xB, xC, xR⟩ := X.FB.lists
  simp only [X.brk_eq, X.cont_eq, X.ret_eq] at nB nC nR xB xC xR
  have hrng : ∀ y, (y ∈ (wR b O s).1 ∨ y ∈ (wS3 b O s).brk ∨ y ∈ (wS3 b O s).cont ∨ y ∈ dR s (wS4 b O s)) →
      wBody O s ≤ y ∧ y < (wS4 b O s).next := by
    intro y hy
    have hin : InR (wS1c O s) [wBody O s] (wR b O s).2 y := by
      rcases hy with h | h | h | h
      · exact X.B.open_r y h
      · exact X.B.dB_spec.2 y (X.brk_eq ▸ h)
      · exact X.B.dC_spec.2 y (X.cont_eq ▸ h)
      · exact X.B.dR_spec.2 y (X.ret_eq ▸ h)
    rw [X.next4]
    refine ⟨?_, InR.lt X.hi1.hlt.1 X.B.next_le hin⟩
    rcases hin.1 with h | h
    · simp at h; omega
    · have : (wS1c O s).next = wBody O s + 1 := X.next1
      omega
  have hbl4 : wBody O s < (wS4 b O s).next := by
    rw [X.next4]; have := X.B.next_le; have : (wS1c O s).next = wBody O s + 1 := X.next1; omega
  obtain ⟨e1, e2, e3, e4⟩ := contLoop_effect cc (wBody O s) (wS3 b O s).cont (wS4 b O s) [] nC
    (fun cb hcb => (hrng cb (Or.inr (Or.inr (Or.inl hcb)))).2) (by simp) hbl4 hbad5
  refine ⟨fun y hy => (e2 y hy).resolve_left (by simp), hrng, ?_, ?_, ?_, ?_, ?_, e4, e3⟩
  · intro y hy
    exact ⟨fun h => (xB y h).1 hy, fun h => (xC y h).1 hy, fun h => (xR y h).1 hy⟩
  · intro y hy; exact ⟨(xB y hy).1, (xB y hy).2.1, (xB y hy).2.2⟩
  · intro y hy; exact ⟨(xC y hy).1, (xC y hy).2.1, (xC y hy).2.2⟩
  · intro y hy; exact ⟨(xR y hy).1, (xR y hy).2.1, (xR y hy).2.2⟩
  · have : (wS4 b O s).bad = (wR b O s).2.bad := CSt.addfrontAll_bad _ _ _
    rw [← this]; exact e1

end CohdlVerif.C01
