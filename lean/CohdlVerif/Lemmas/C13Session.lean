import CohdlVerif.Model.C13Session
import CohdlVerif.Lemmas.C13Views
/-! C13 part B - sessions: invariant of interleaved view construction and writes -/
namespace CohdlVerif.C13

theorem copySeqCells_length : ∀ (ts cs : List Nat) (s : List Bool), (copySeqCells s ts cs).length = s.length := by
  intro ts
  induction ts with
  | nil => intro cs s; simp [copySeqCells]
  | cons t ts ih =>
    intro cs s
    cases cs with
    | nil => simp [copySeqCells, ih]
    | cons c cs => simp [copySeqCells, ih]

/-- the storage keeps its width, every live view is a well-formed view of the one root -/
def SessOK (W : Nat) (σ : Sess) : Prop :=
  σ.store.length = W ∧ ∀ v, some v ∈ σ.views → RefOK W v ∧ v.root = 0 ∧ v.qual = .signal

theorem Sess.get_mem (σ : Sess) (i : Nat) (v : View) (h : σ.get i = some v) : some v ∈ σ.views := by
  unfold Sess.get at h
  split at h
  · next heq => simp at h; subst h; exact List.mem_of_getElem? heq
  · simp at h

theorem step_ok (W : Nat) (σ : Sess) (st : Step) (h : SessOK W σ) : SessOK W (σ.step st).1 := by
  obtain ⟨hl, hv⟩ := h
  cases st with
  | view p op =>
    simp only [Sess.step]
    split
    · exact ⟨hl, by intro v hm; simp at hm; exact hv v hm⟩
    · next v hg =>
      split
      · exact ⟨hl, by intro v hm; simp at hm; exact hv v hm⟩
      · next v' ha =>
        refine ⟨hl, ?_⟩
        intro u hm
        simp only [List.mem_append, List.mem_singleton, Option.some.injEq] at hm
        rcases hm with hm | rfl
        · exact hv u hm
        · have hp := hv v (Sess.get_mem σ p v hg)
          have hrq := applyOp_root_qual v u op ha
          exact ⟨applyOp_ok W v u op hp.1 ha, by rw [hrq.1, hp.2.1], by rw [hrq.2, hp.2.2]⟩
  | wr t bits =>
    simp only [Sess.step]
    split
    · exact ⟨hl, hv⟩
    · split
      · exact ⟨by simp [write_length, hl], hv⟩
      · exact ⟨hl, hv⟩
  | copySeq t s =>
    simp only [Sess.step]
    split
    · split
      · exact ⟨by simp [copySeqCells_length, hl], hv⟩
      · exact ⟨hl, hv⟩
    · exact ⟨hl, hv⟩
  | copySnap t s sx =>
    simp only [Sess.step]
    split
    · split
      · exact ⟨by simp [write_length, hl], hv⟩
      · exact ⟨hl, hv⟩
    · exact ⟨hl, hv⟩
  | rejected => exact ⟨hl, hv⟩

def runSess (σ : Sess) (steps : List Step) : Sess := steps.foldl (fun σ st => (σ.step st).1) σ

theorem runSess_ok (W : Nat) : ∀ (steps : List Step) (σ : Sess), SessOK W σ → SessOK W (runSess σ steps) := by
  intro steps
  induction steps with
  | nil => intro σ h; exact h
  | cons st steps ih => intro σ h; exact ih _ (step_ok W σ st h)

theorem init_ok (vt : VT) (bits : List Bool) (hvt : vt ≠ .bit) : SessOK bits.length (Sess.init vt bits) := by
  refine ⟨rfl, ?_⟩
  intro v hm
  simp [Sess.init] at hm
  subst hm
  exact ⟨rootView_ok 0 .signal vt bits.length hvt, rfl, rfl⟩

end CohdlVerif.C13
