import CohdlVerif.Lemmas.C02Lemmas

/-! C02 - helper lemmas for the induction cases of `C02.lower_correct` (Props/C02.lean) -/
namespace CohdlVerif.C02

/-- the statement of the property for one expression (all result types, all valuations of the domain) -/
def Good (env : Env) (e : Expr) : Prop :=
  ∀ t, typeOf e = .ok t → defined e env = true →
    InRange t (evalSpec e env) ∧ evalV (lower e) env = inj t (evalSpec e env)

/-- uniform view of an in-range vector value: the VHDL value is (kind, width, pattern) and the pattern, read as a
    number, is `pat t x` -/
theorem vecView {t : Ty} {v : Val} (hv : t.isVec = true) (hr : InRange t v) :
    ∃ (x : Int) (p : Nat), v = .n x ∧ inj t v = .vec (vkOf t) t.width p ∧ p < 2 ^ t.width ∧
      (p : Int) = pat t x ∧ 1 ≤ t.width ∧ p = enc t.width x := by
  cases t <;> simp [Ty.isVec] at hv <;> cases v <;> simp [InRange] at hr
  all_goals
    rename_i w x
    exact ⟨x, enc w x, rfl, by simp [inj, vkOf, Ty.width], enc_lt w x, by simp [pat, wrapU, enc_cast, Ty.width], hr.1, rfl⟩

theorem inR_bit {v : Val} (h : InRange .bit v) : ∃ b, v = .b b := by
  cases v <;> simp [InRange] at h; exact ⟨_, rfl⟩
theorem inR_bool {v : Val} (h : InRange .bool v) : ∃ b, v = .b b := by
  cases v <;> simp [InRange] at h; exact ⟨_, rfl⟩
theorem inR_int {v : Val} (h : InRange .int v) : ∃ x, v = .n x := by
  cases v <;> simp [InRange] at h; exact ⟨_, rfl⟩
theorem inR_uns {w : Nat} {v : Val} (h : InRange (.uns w) v) : ∃ x, v = .n x ∧ 1 ≤ w ∧ 0 ≤ x ∧ x < 2 ^ w := by
  cases v <;> simp [InRange] at h; exact ⟨_, rfl, h⟩
theorem inR_bv {w : Nat} {v : Val} (h : InRange (.bv w) v) : ∃ x, v = .n x ∧ 1 ≤ w ∧ 0 ≤ x ∧ x < 2 ^ w := by
  cases v <;> simp [InRange] at h; exact ⟨_, rfl, h⟩
theorem inR_sgn {w : Nat} {v : Val} (h : InRange (.sgn w) v) :
    ∃ x, v = .n x ∧ 1 ≤ w ∧ -(2 ^ (w - 1)) ≤ x ∧ x < 2 ^ (w - 1) := by
  cases v <;> simp [InRange] at h; exact ⟨_, rfl, h⟩

theorem lopN_lt (op : LOp) {w p q : Nat} (hp : p < 2 ^ w) (hq : q < 2 ^ w) : lopN op p q < 2 ^ w := by
  cases op
  · exact Nat.and_lt_two_pow _ hq
  · exact Nat.or_lt_two_pow hp hq
  · exact Nat.xor_lt_two_pow hp hq

theorem lopV_ofL (op : LOp) (p q : Nat) : lopV (.ofL op) p q = lopN op p q := by cases op <;> rfl
theorem lopVB_ofL (op : LOp) (p q : Bool) : lopVB (.ofL op) p q = lopB op p q := by cases op <;> rfl

/-! helper lemmas of the operator families (used by Props/C02.lean) -/

theorem enc_not_uns {w : Nat} {x : Int} (h0 : 0 ≤ x) (h1 : x < 2 ^ w) :
    2 ^ w - 1 - enc w x = enc w (2 ^ w - 1 - x) := by
  have e1 := enc_of_range h0 h1
  have l := enc_lt w x
  have : ((2 ^ w - 1 - enc w x : Nat) : Int) = ((enc w (2 ^ w - 1 - x) : Nat) : Int) := by
    rw [enc_of_range (by linarith) (by linarith)]
    have : enc w x ≤ 2 ^ w - 1 := by omega
    rw [Nat.cast_sub this, Nat.cast_sub (Nat.one_le_two_pow), e1]; push_cast; ring
  exact_mod_cast this

theorem enc_not_sgn (w : Nat) (x : Int) : 2 ^ w - 1 - enc w x = enc w (-x - 1) := by
  have l := enc_lt w x
  have hN := p2pos w
  have hc := enc_cast w x
  have hx : x = x % 2 ^ w + 2 ^ w * (x / 2 ^ w) := (Int.emod_add_mul_ediv x (2 ^ w)).symm
  have r0 := Int.emod_nonneg x (ne_of_gt hN)
  have r1 := Int.emod_lt_of_pos x hN
  have : ((2 ^ w - 1 - enc w x : Nat) : Int) = ((enc w (-x - 1) : Nat) : Int) := by
    have h2 : enc w x ≤ 2 ^ w - 1 := by omega
    rw [Nat.cast_sub h2, Nat.cast_sub (Nat.one_le_two_pow), hc, enc_cast]; push_cast
    symm
    exact emod_eq_of hN (q := -(x / 2 ^ w) - 1) (by linarith) (by linarith) (by linarith)
  exact_mod_cast this

theorem copI_swap (op : COp) (x y : Int) : copI op.swap y x = copI op x y := by
  cases op <;> simp [copI, COp.swap, eq_comm, bne_comm]

/-- SHIFT_RIGHT on a negative SIGNED value: the pattern with sign bits shifted in is the pattern of the floor
    division of the two's complement value -/
theorem shr_sgn_neg {w s p : Nat} (hw : 1 ≤ w) (hp : p < 2 ^ w) :
    p / 2 ^ s + (2 ^ w - 2 ^ (w - min s w)) = enc w (((p : Int) - 2 ^ w) / 2 ^ s) := by
  have hN := p2pos w
  have hS := p2pos s
  have hpI : (p : Int) < 2 ^ w := by exact_mod_cast hp
  have hp0 : (0 : Int) ≤ p := Int.natCast_nonneg p
  by_cases hs : s ≤ w
  · have hmin : min s w = s := Nat.min_eq_left hs
    have hsplitN : (2 : Nat) ^ w = 2 ^ (w - s) * 2 ^ s := by rw [← pow_add]; congr 1; omega
    have hsplit : (2 : Int) ^ w = 2 ^ (w - s) * 2 ^ s := by exact_mod_cast hsplitN
    have hq : ((p : Int) - 2 ^ w) / 2 ^ s = (p : Int) / 2 ^ s - 2 ^ (w - s) := by
      have := Int.add_mul_ediv_right (p : Int) (-(2 ^ (w - s))) (ne_of_gt hS)
      have e : (p : Int) - 2 ^ w = (p : Int) + -(2 ^ (w - s)) * 2 ^ s := by rw [hsplit]; ring
      rw [e, this]; ring
    have hdl : p / 2 ^ s < 2 ^ (w - s) := by
      rw [Nat.div_lt_iff_lt_mul (Nat.two_pow_pos s)]; omega
    have hdlI : ((p / 2 ^ s : Nat) : Int) < 2 ^ (w - s) := by exact_mod_cast hdl
    have hle : (2 : Nat) ^ (w - s) ≤ 2 ^ w := p2monoN (by omega)
    have hleI : (2 : Int) ^ (w - s) ≤ 2 ^ w := by exact_mod_cast hle
    have hd0 : (0 : Int) ≤ ((p / 2 ^ s : Nat) : Int) := Int.natCast_nonneg _
    have hcast : ((p / 2 ^ s : Nat) : Int) = (p : Int) / 2 ^ s := by push_cast; rfl
    have : ((p / 2 ^ s + (2 ^ w - 2 ^ (w - min s w)) : Nat) : Int)
        = ((enc w (((p : Int) - 2 ^ w) / 2 ^ s) : Nat) : Int) := by
      rw [hmin, enc_cast, hq, Nat.cast_add, Nat.cast_sub hle, hcast]
      push_cast
      symm
      rw [← hcast]
      exact emod_eq_of hN (q := -1) (by ring) (by linarith) (by linarith)
    exact_mod_cast this
  · have hs' : w < s := by omega
    have hmin : min s w = w := Nat.min_eq_right (by omega)
    have hNS : (2 : Int) ^ w ≤ 2 ^ s := p2mono (by omega)
    have hNSn : (2 : Nat) ^ w ≤ 2 ^ s := p2monoN (by omega)
    have hd : p / 2 ^ s = 0 := Nat.div_eq_of_lt (by omega)
    have hq : ((p : Int) - 2 ^ w) / 2 ^ s = -1 :=
      ediv_eq_of hS (r := (p : Int) - 2 ^ w + 2 ^ s) (by ring) (by linarith) (by linarith)
    have : ((p / 2 ^ s + (2 ^ w - 2 ^ (w - min s w)) : Nat) : Int)
        = ((enc w (((p : Int) - 2 ^ w) / 2 ^ s) : Nat) : Int) := by
      rw [hmin, hd, enc_cast, hq, Nat.sub_self, pow_zero, Nat.zero_add, Nat.cast_sub Nat.one_le_two_pow]
      push_cast
      symm
      exact emod_eq_of hN (q := -1) (by ring) (by linarith) (by linarith)
    exact_mod_cast this

/-- the shift amount as printed (`to_integer(n)` for an Unsigned amount, the literal for a Python int) evaluates
    to the amount's value -/
theorem shift_amt (env : Env) (a n : Expr) (ta tn t : Ty) (hn : Good env n) (htn : typeOf n = .ok tn)
    (hdn : defined n env = true) (hty : shiftTy ta tn (intVal n) = .ok t) :
    ∃ amt, lower (.shl a n) = .shiftL (lower a) amt ∧ lower (.shr a n) = .shiftR (lower a) amt ∧
      evalV amt env = .int ((evalSpec n env).num.toNat : Nat) ∧ (t = ta ∧ (∃ w, ta = .uns w ∨ ta = .sgn w)) := by
  obtain ⟨rn, en⟩ := hn tn htn hdn
  cases ta <;> cases tn <;> simp only [shiftTy] at hty
  all_goals try (simp at hty; done)
  · -- uns, uns amount
    simp only [Except.ok.injEq] at hty; subst hty
    obtain ⟨y, hy, _, y0, y1⟩ := inR_uns rn
    refine ⟨.toInteger (lower n), by simp [lower, htn, tyOr], by simp [lower, htn, tyOr], ?_, rfl, _, Or.inl rfl⟩
    simp only [evalV, en, hy, inj, vtoInteger, Val.num, enc_of_range y0 y1]
    congr 1; exact (Int.toNat_of_nonneg y0).symm
  · -- uns, int amount
    cases hib : intVal n with
    | none => simp [hib] at hty
    | some k =>
      simp only [hib, ite_ok_iff, Except.ok.injEq] at hty
      obtain ⟨hk, hty⟩ := hty; subst hty
      have hnk := intVal_some hib; subst hnk
      refine ⟨.int k, by simp [lower, typeOf, tyOr], by simp [lower, typeOf, tyOr], ?_, rfl, _, Or.inl rfl⟩
      simp only [evalV, evalSpec, Val.num]
      congr 1; exact (Int.toNat_of_nonneg hk).symm
  · -- sgn, uns amount
    simp only [Except.ok.injEq] at hty; subst hty
    obtain ⟨y, hy, _, y0, y1⟩ := inR_uns rn
    refine ⟨.toInteger (lower n), by simp [lower, htn, tyOr], by simp [lower, htn, tyOr], ?_, rfl, _, Or.inr rfl⟩
    simp only [evalV, en, hy, inj, vtoInteger, Val.num, enc_of_range y0 y1]
    congr 1; exact (Int.toNat_of_nonneg y0).symm
  · -- sgn, int amount
    cases hib : intVal n with
    | none => simp [hib] at hty
    | some k =>
      simp only [hib, ite_ok_iff, Except.ok.injEq] at hty
      obtain ⟨hk, hty⟩ := hty; subst hty
      have hnk := intVal_some hib; subst hnk
      refine ⟨.int k, by simp [lower, typeOf, tyOr], by simp [lower, typeOf, tyOr], ?_, rfl, _, Or.inr rfl⟩
      simp only [evalV, evalSpec, Val.num]
      congr 1; exact (Int.toNat_of_nonneg hk).symm

/-- an operand of `&` after the `.bitvector` coercion: a std_logic_vector of width `w` with pattern `p`, or a
    single std_logic (width 1) -/
def IsCat (vv : VVal) (w p : Nat) : Prop :=
  vv = .vec .slv w p ∨ (w = 1 ∧ ∃ b : Bool, vv = .sl b ∧ p = if b then 1 else 0)

theorem vbin_cat {va vb : VVal} {wa pa wb pb : Nat} (ha : IsCat va wa pa) (hb : IsCat vb wb pb) :
    vbin .cat va vb = .vec .slv (wa + wb) (pa * 2 ^ wb + pb) := by
  rcases ha with rfl | ⟨rfl, x, rfl, rfl⟩ <;> rcases hb with rfl | ⟨rfl, y, rfl, rfl⟩ <;> simp [vbin]

theorem lower_concat_eq (a b : Expr) :
    lower (.concat a b) = .bin .cat
      (if (tyOr (typeOf a)).isNum then .conv .slv (lower a) else lower a)
      (if (tyOr (typeOf b)).isNum then .conv .slv (lower b) else lower b) := by
  simp only [lower]
  generalize tyOr (typeOf a) = ta
  generalize tyOr (typeOf b) = tb
  cases ta <;> cases tb <;> simp [Ty.isNum]

/-- value of a coerced `&` operand -/
theorem cat_operand (env : Env) (a : Expr) (ta : Ty) (w : Nat) (hg : Good env a) (hta : typeOf a = .ok ta)
    (hd : defined a env = true) (hw : catW ta = some w) :
    ∃ p, IsCat (evalV (if (tyOr (typeOf a)).isNum then .conv .slv (lower a) else lower a) env) w p ∧
      p < 2 ^ w ∧ (p : Int) = pat ta (evalSpec a env).num ∧ w = ta.width ∧ 1 ≤ w := by
  obtain ⟨ra, ea⟩ := hg ta hta hd
  simp only [hta, tyOr]
  cases ta <;> simp [catW] at hw <;> subst hw
  · obtain ⟨b, hb⟩ := inR_bit ra
    refine ⟨if b then 1 else 0, Or.inr ⟨rfl, b, by simp [Ty.isNum, ea, hb, inj], rfl⟩, by cases b <;> simp, ?_, rfl, le_refl _⟩
    cases b <;> simp [hb, pat, Val.num]
  all_goals
    obtain ⟨x, p, hx, iv, pl, pc, hw1, _⟩ := vecView rfl ra
    refine ⟨p, Or.inl ?_, pl, by rw [hx]; exact pc, rfl, hw1⟩
    simp [Ty.isNum, evalV, ea, iv, vconv, vkOf, Ty.width]

theorem bit_test_cast (p i : Nat) : ((p / 2 ^ i) % 2 == 1) = (((p : Int) / 2 ^ i) % 2 == 1) := by
  have : (((p / 2 ^ i) % 2 : Nat) : Int) = ((p : Int) / 2 ^ i) % 2 := by push_cast; rfl
  rw [← this]
  cases h : (p / 2 ^ i) % 2 == 1 <;> simp_all

theorem vconv_vconv (k1 k2 : VK) (v : VVal) : vconv k2 (vconv k1 v) = vconv k2 v := by
  cases v <;> simp [vconv]

theorem vconv_same (k : VK) (w p : Nat) : vconv k (.vec k w p) = .vec k w p := by simp [vconv]

theorem inj_sameType {t : Ty} {v1 v2 : Val} (h1 : InRange t v1) (h2 : InRange t v2) :
    (inj t v1).sameType (inj t v2) = true := by
  cases t <;> cases v1 <;> cases v2 <;> simp_all [InRange, inj, VVal.sameType]

theorem inj_ne_err {t : Ty} {v : Val} (h : InRange t v) : inj t v ≠ .err := by
  cases t <;> cases v <;> simp_all [InRange, inj]

/-- the choice literal of a `with .. select` branch against the selector value -/
theorem sel_key (env : Env) (targ : Ty) (v : Val) (key : Int) (hk : (targ.isVec || targ == .bit) = true)
    (hr : InRange targ v) (hf : fits targ key = true) :
    (inj targ v).sameType (evalV (litV targ key) env) = true ∧
    ((inj targ v == evalV (litV targ key) env) = (v.num == key)) := by
  cases targ <;> simp [Ty.isVec] at hk
  · obtain ⟨b, rfl⟩ := inR_bit hr
    simp only [fits, Bool.or_eq_true, beq_iff_eq] at hf
    rcases hf with rfl | rfl <;> cases b <;> simp [litV, evalV, inj, VVal.sameType, Val.num]
  · rename_i w
    obtain ⟨x, rfl, _, h0, h1⟩ := inR_bv hr
    simp only [fits, Bool.and_eq_true, decide_eq_true_eq] at hf
    have e1 := enc_of_range h0 h1
    have e2 := enc_of_range hf.1 hf.2
    refine ⟨by simp [litV, evalV, inj, VVal.sameType, vkOf, Ty.width], ?_⟩
    simp only [litV, evalV, inj, vkOf, Ty.width, Val.num]
    by_cases h : x = key
    · subst h; simp
    · have : enc w x ≠ enc w key := by
        intro he; apply h; rw [← e1, ← e2, he]
      simp [h, this]
  · rename_i w
    obtain ⟨x, rfl, _, h0, h1⟩ := inR_uns hr
    simp only [fits, Bool.and_eq_true, decide_eq_true_eq] at hf
    have e1 := enc_of_range h0 h1
    have e2 := enc_of_range hf.1 hf.2
    refine ⟨by simp [litV, evalV, inj, VVal.sameType, vkOf, Ty.width], ?_⟩
    simp only [litV, evalV, inj, vkOf, Ty.width, Val.num]
    by_cases h : x = key
    · subst h; simp
    · have : enc w x ≠ enc w key := by
        intro he; apply h; rw [← e1, ← e2, he]
      simp [h, this]
  · rename_i w
    obtain ⟨x, rfl, hw, h0, h1⟩ := inR_sgn hr
    simp only [fits, Bool.and_eq_true, decide_eq_true_eq] at hf
    have e1 := sInt_enc_id hw h0 h1
    have e2 := sInt_enc_id hw hf.1 hf.2
    refine ⟨by simp [litV, evalV, inj, VVal.sameType, vkOf, Ty.width], ?_⟩
    simp only [litV, evalV, inj, vkOf, Ty.width, Val.num]
    by_cases h : x = key
    · subst h; simp
    · have : enc w x ≠ enc w key := by
        intro he; apply h; rw [← e1, ← e2, he]
      simp [h, this]

end CohdlVerif.C02
