import CohdlVerif.Lemmas.C01Fwd

/-! C01 - general grammar: the blocks added to the break / continue / return lists by one translation step,
    all pending outputs `Outs`, and the forward invariant (no duplicates, no front transition yet) -/
namespace CohdlVerif.C01

/-- blocks added to `_break_result` between `s` and `s'` -/
def dB (s s' : CSt) : List Nat := s'.brk.drop s.brk.length
/-- blocks added to `_continue_result` -/
def dC (s s' : CSt) : List Nat := s'.cont.drop s.cont.length
/-- blocks added to `returned_blocks` -/
def dR (s s' : CSt) : List Nat := s'.ret.drop s.ret.length

theorem Step.dB_spec {s s' : CSt} {O O' : List Nat} (h : Step s O s' O') :
    s'.brk = s.brk ++ dB s s' ∧ ∀ o ∈ dB s s', InR s O s' o := by
  obtain ⟨d, e, r⟩ := h.brk_r
  have : dB s s' = d := by simp [dB, e]
  rw [this]; exact ⟨e, r⟩

theorem Step.dC_spec {s s' : CSt} {O O' : List Nat} (h : Step s O s' O') :
    s'.cont = s.cont ++ dC s s' ∧ ∀ o ∈ dC s s', InR s O s' o := by
  obtain ⟨d, e, r⟩ := h.cont_r
  have : dC s s' = d := by simp [dC, e]
  rw [this]; exact ⟨e, r⟩

theorem Step.dR_spec {s s' : CSt} {O O' : List Nat} (h : Step s O s' O') :
    s'.ret = s.ret ++ dR s s' ∧ ∀ o ∈ dR s s', InR s O s' o := by
  obtain ⟨d, e, r⟩ := h.ret_r
  have : dR s s' = d := by simp [dR, e]
  rw [this]; exact ⟨e, r⟩

/-- everything that is pending after a step: open blocks and the blocks moved to the three lists -/
def Outs (s : CSt) (O' : List Nat) (s' : CSt) : List Nat := O' ++ dB s s' ++ dC s s' ++ dR s s'

theorem mem_Outs {s s' : CSt} {O' : List Nat} {y : Nat} :
    y ∈ Outs s O' s' ↔ y ∈ O' ∨ y ∈ dB s s' ∨ y ∈ dC s s' ∨ y ∈ dR s s' := by
  simp [Outs, or_assoc]

theorem Step.outs_r {s s' : CSt} {O O' : List Nat} (h : Step s O s' O') : ∀ y ∈ Outs s O' s', InR s O s' y := by
  intro y hy
  rcases mem_Outs.mp hy with h1 | h1 | h1 | h1
  · exact h.open_r y h1
  · exact h.dB_spec.2 y h1
  · exact h.dC_spec.2 y h1
  · exact h.dR_spec.2 y h1

/-- the lists of two consecutive steps -/
theorem dB_trans {s s1 s' : CSt} {O O1 O' : List Nat} (h1 : Step s O s1 O1) (h2 : Step s1 O1 s' O') :
    dB s s' = dB s s1 ++ dB s1 s' := by
  have a := h1.dB_spec.1
  have b := h2.dB_spec.1
  simp only [dB] at *
  rw [b, a]; simp

theorem dC_trans {s s1 s' : CSt} {O O1 O' : List Nat} (h1 : Step s O s1 O1) (h2 : Step s1 O1 s' O') :
    dC s s' = dC s s1 ++ dC s1 s' := by
  have a := h1.dC_spec.1
  have b := h2.dC_spec.1
  simp only [dC] at *
  rw [b, a]; simp

theorem dR_trans {s s1 s' : CSt} {O O1 O' : List Nat} (h1 : Step s O s1 O1) (h2 : Step s1 O1 s' O') :
    dR s s' = dR s s1 ++ dR s1 s' := by
  have a := h1.dR_spec.1
  have b := h2.dR_spec.1
  simp only [dR] at *
  rw [b, a]; simp


/-- forward invariant after a step: pending outputs are distinct and have no front transition yet -/
def FPost (s : CSt) (O' : List Nat) (s' : CSt) : Prop :=
  (Outs s O' s').Nodup ∧ ∀ y ∈ Outs s O' s', (s'.heap y).front = []

theorem FPost.comp {s s1 s' : CSt} {O O1 O' : List Nat} (hlt : ∀ o ∈ O, o < s.next) (h1 : Step s O s1 O1)
    (h2 : Step s1 O1 s' O') (f1 : FPost s O1 s1) (f2 : FPost s1 O' s') : FPost s O' s' := by
  have eB := dB_trans h1 h2
  have eC := dC_trans h1 h2
  have eR := dR_trans h1 h2
  -- elements listed by the first step: old (w.r.t. the second step) and not open
  have hold : ∀ a, a ∈ dB s s1 ∨ a ∈ dC s s1 ∨ a ∈ dR s s1 → a < s1.next ∧ a ∉ O1 := by
    intro a ha
    have hm : a ∈ Outs s O1 s1 := mem_Outs.mpr (Or.inr ha)
    refine ⟨InR.lt hlt h1.next_le (h1.outs_r a hm), fun hO1 => ?_⟩
    have hc := (List.nodup_iff_count.mp f1.1) a
    have h1' : 0 < List.count a O1 := List.count_pos_iff.mpr hO1
    simp only [Outs, List.count_append] at hc
    rcases ha with ha | ha | ha
    · have := List.count_pos_iff.mpr ha; omega
    · have := List.count_pos_iff.mpr ha; omega
    · have := List.count_pos_iff.mpr ha; omega
  have hnew : ∀ a, a ∈ Outs s1 O' s' → a ∈ O1 ∨ s1.next ≤ a := fun a ha =>
    (h2.outs_r a ha).1.imp id (fun h => h.1)
  constructor
  · rw [List.nodup_iff_count]
    intro a
    have c1 := (List.nodup_iff_count.mp f1.1) a
    have c2 := (List.nodup_iff_count.mp f2.1) a
    simp only [Outs, List.count_append, eB, eC, eR] at c1 c2 ⊢
    by_cases ha : a ∈ dB s s1 ∨ a ∈ dC s s1 ∨ a ∈ dR s s1
    · have ⟨hl, hn⟩ := hold a ha
      have hz : a ∉ Outs s1 O' s' := fun hm => by
        rcases hnew a hm with h | h
        · exact hn h
        · omega
      have hz' := List.count_eq_zero.mpr hz
      simp only [Outs, List.count_append] at hz'
      omega
    · simp only [not_or] at ha
      have z1 := List.count_eq_zero.mpr ha.1
      have z2 := List.count_eq_zero.mpr ha.2.1
      have z3 := List.count_eq_zero.mpr ha.2.2
      omega
  · intro y hy
    rw [mem_Outs, eB, eC, eR] at hy
    simp only [List.mem_append] at hy
    have hin2 : y ∈ Outs s1 O' s' → (s'.heap y).front = [] := f2.2 y
    have hin1 : (y ∈ dB s s1 ∨ y ∈ dC s s1 ∨ y ∈ dR s s1) → (s'.heap y).front = [] := by
      intro h
      have ⟨hl, hn⟩ := hold y h
      rw [h2.frame y hl hn]
      exact f1.2 y (mem_Outs.mpr (Or.inr h))
    rcases hy with h | (h | h) | (h | h) | (h | h)
    · exact hin2 (mem_Outs.mpr (Or.inl h))
    · exact hin1 (Or.inl h)
    · exact hin2 (mem_Outs.mpr (Or.inr (Or.inl h)))
    · exact hin1 (Or.inr (Or.inl h))
    · exact hin2 (mem_Outs.mpr (Or.inr (Or.inr (Or.inl h))))
    · exact hin1 (Or.inr (Or.inr h))
    · exact hin2 (mem_Outs.mpr (Or.inr (Or.inr (Or.inr h))))

end CohdlVerif.C01
