import CohdlVerif.Lemmas.C19ResizeS3
import CohdlVerif.Lemmas.C19ResizeU2

/-! C19: constructors from Unsigned and from python numbers, `__eq__` with python numbers -/

namespace CohdlVerif.C19

theorem ctorUnsignedU_ok (l r sw v : Int) (hsw : 1 ≤ sw) (hv : inRangeU sw v)
    (hr : r ≤ 0) (hfit : sw - r ≤ l - r + 1) : ctorUnsignedU l r sw v = .ok (v * p2 (-r)) := by
  have hz := inRangeU_mono _ (l - r + 1) _ (by omega) (by omega) (scaleU sw (-r) v (by omega) (by omega) hv)
  unfold ctorUnsignedU
  rw [mkU_ok _ v hsw hv.1 hv.2]
  simp only [bind, Except.bind, pure, Except.pure]
  rw [if_neg (by omega), uResize_ok _ v _ _ hsw (by omega) (by omega) hv]
  simp only
  rw [uFromU_ok _ _ _ (by omega) (le_refl _) hz]

theorem ctorUnsignedS_ok (l r sw v : Int) (hsw : 1 ≤ sw) (hv : inRangeU sw v)
    (hr : r ≤ 0) (hfit : sw - r ≤ l - r) : ctorUnsignedS l r sw v = .ok (v * p2 (-r)) := by
  have hz := inRangeU_mono _ (l - r + 1 - 1) _ (by omega) (by omega) (scaleU sw (-r) v (by omega) (by omega) hv)
  have hs : inRangeS (l - r + 1) (v * p2 (-r)) := by
    have h1 := hz.1; have h2 := hz.2; unfold inRangeS; have := p2_pos (l - r + 1 - 1); omega
  unfold ctorUnsignedS
  rw [mkU_ok _ v hsw hv.1 hv.2]
  simp only [bind, Except.bind, pure, Except.pure]
  rw [if_neg (by omega), uResize_ok _ v _ _ hsw (by omega) (by omega) hv]
  simp only [sFromU]
  rw [if_pos (by omega), mkS_ok _ _ (by omega) hs.1 hs.2]
  simp only
  rw [sInt_mk _ _ (by omega) hs.1 hs.2]

/-- `a * 2^ea = b * 2^eb`, compared as integers scaled by the common exponent -/
def dyEq (a ea b eb : Int) : Prop := a * p2 (ea - min ea eb) = b * p2 (eb - min ea eb)

theorem dyLe_antisymm (a ea b eb : Int) : (dyLe a ea b eb = true ∧ dyLe b eb a ea = true) ↔ dyEq a ea b eb := by
  unfold dyLe dyEq
  simp only [decide_eq_true_eq, min_comm eb ea]
  constructor
  · intro h; omega
  · intro h; omega

/-- a number that equals some `v * 2^r` is not changed by the truncation to granularity `2^r` -/
theorem truncScaled_of_dyEq (v r m e : Int) (h : dyEq v r m e) : truncScaled m e r = v := by
  unfold dyEq at h
  unfold truncScaled
  by_cases her : e ≥ r
  · rw [if_pos her]
    rw [min_eq_left (show r ≤ e by omega), sub_self, p2_zero, Int.mul_one] at h
    exact h.symm
  · rw [if_neg her]
    rw [min_eq_right (show e ≤ r by omega), sub_self, p2_zero, Int.mul_one] at h
    rw [← h]
    exact Int.mul_tdiv_cancel _ (ne_of_gt (p2_pos _))

theorem dyEq_left_cancel (t v r m e : Int) (h1 : dyEq t r m e) (h2 : dyEq v r m e) : t = v := by
  unfold dyEq at *
  exact Int.eq_of_mul_eq_mul_right (ne_of_gt (p2_pos (r - min r e))) (h1.trans h2.symm)

/-- `SFixed[l:r](raw=v) == (m * 2^e)`: whenever it returns, the answer is the comparison of the two numbers -/
theorem eqNumS_spec (l r v m e : Int) (b : Bool) (h : eqNumS l r v m e = .ok b) :
    b = true ↔ dyEq v r m e := by
  unfold eqNumS at h
  simp only [bind, Except.bind, pure, Except.pure] at h
  by_cases hc : dyLe (truncScaled m e r) r m e = true ∧ dyLe m e (truncScaled m e r) r = true
  · rw [if_neg (by simpa using hc)] at h
    have ht := (dyLe_antisymm _ _ _ _).mp hc
    unfold ctorNumS at h
    simp only [bind, Except.bind, pure, Except.pure] at h
    split at h
    · simp at h
    · rename_i x c hctor
      injection h with h
      split at hctor
      · simp at hctor
      · cases hm : mkS (l - r + 1) (truncScaled m e r) with
        | error err => rw [hm] at hctor; simp at hctor
        | ok y =>
          rw [hm] at hctor
          simp only at hctor
          unfold mkS at hm
          split at hm
          · simp at hm
          · split at hm
            · rename_i hw hrange
              injection hm with hm
              rw [← hm, sInt_mk _ _ (by omega) hrange.1 hrange.2] at hctor
              injection hctor with hctor
              rw [← h, ← hctor]
              constructor
              · intro hb
                have : truncScaled m e r = v := by simpa using hb
                rw [← this]; exact ht
              · intro hv
                have := dyEq_left_cancel _ _ _ _ _ ht hv
                simp [this]
            · simp at hm
  · rw [if_pos (by simpa using hc)] at h
    injection h with h
    rw [← h]
    constructor
    · intro hb; exact absurd hb (by simp)
    · intro hv
      exfalso
      apply hc
      have := truncScaled_of_dyEq v r m e hv
      rw [this]
      exact (dyLe_antisymm _ _ _ _).mpr hv


/-- `UFixed[l:r](raw=v) == (m * 2^e)` -/
theorem eqNumU_spec (l r v m e : Int) (b : Bool) (h : eqNumU l r v m e = .ok b) :
    b = true ↔ dyEq v r m e := by
  unfold eqNumU at h
  simp only [bind, Except.bind, pure, Except.pure] at h
  by_cases hc : dyLe (truncScaled m e r) r m e = true ∧ dyLe m e (truncScaled m e r) r = true
  · rw [if_neg (by simpa using hc)] at h
    have ht := (dyLe_antisymm _ _ _ _).mp hc
    unfold ctorNumU at h
    simp only [bind, Except.bind, pure, Except.pure] at h
    split at h
    · simp at h
    · rename_i x c hctor
      injection h with h
      split at hctor
      · simp at hctor
      · cases hm : mkU (l - r + 1) (truncScaled m e r) with
        | error err => rw [hm] at hctor; simp at hctor
        | ok y =>
          rw [hm] at hctor
          simp only at hctor
          unfold mkU at hm
          split at hm
          · simp at hm
          · split at hm
            · injection hm with hm
              rw [← hm] at hctor
              injection hctor with hctor
              rw [← h, ← hctor]
              constructor
              · intro hb
                have : truncScaled m e r = v := by simpa using hb
                rw [← this]; exact ht
              · intro hv
                have := dyEq_left_cancel _ _ _ _ _ ht hv
                simp [this]
            · simp at hm
  · rw [if_pos (by simpa using hc)] at h
    injection h with h
    rw [← h]
    constructor
    · intro hb; exact absurd hb (by simp)
    · intro hv
      exfalso
      apply hc
      have := truncScaled_of_dyEq v r m e hv
      rw [this]
      exact (dyLe_antisymm _ _ _ _).mpr hv

/-- constructor from a python number that the format can represent: the number is preserved -/
theorem ctorNumS_representable (l r v m e : Int) (hlr : r ≤ l) (hv : inRangeS (l - r + 1) v)
    (h : dyEq v r m e) : ctorNumS l r m e = .ok v := by
  have ht := truncScaled_of_dyEq v r m e h
  have hk := p2_pos (r - min r e)
  have h1 := hv.1
  have h2 := hv.2
  unfold dyEq at h
  have c1 : dyLe (-(p2 (l - r + 1 - 1))) r m e = true := by
    unfold dyLe; simp only [decide_eq_true_eq]; rw [← h]; nlinarith
  have c2 : dyLe m e (p2 (l - r + 1 - 1) - 1) r = true := by
    unfold dyLe; simp only [decide_eq_true_eq, min_comm e r]; rw [← h]; nlinarith
  unfold ctorNumS
  simp only [bind, Except.bind, pure, Except.pure]
  rw [if_neg (not_not.mpr ⟨c1, c2⟩), ht, mkS_ok _ v (by omega) hv.1 hv.2]
  simp only
  rw [sInt_mk _ v (by omega) hv.1 hv.2]

theorem ctorNumU_representable (l r v m e : Int) (hlr : r ≤ l) (hv : inRangeU (l - r + 1) v)
    (h : dyEq v r m e) : ctorNumU l r m e = .ok v := by
  have ht := truncScaled_of_dyEq v r m e h
  have hk := p2_pos (r - min r e)
  have h1 := hv.1
  have h2 := hv.2
  unfold dyEq at h
  have c1 : dyLe 0 0 m e = true := by
    unfold dyLe; simp only [decide_eq_true_eq, Int.zero_mul]
    have hm : 0 ≤ m * p2 (e - min r e) := by rw [← h]; exact mul_nonneg h1 (le_of_lt hk)
    have hp := p2_pos (e - min r e)
    have hm0 : 0 ≤ m := by
      by_contra hneg
      have : m * p2 (e - min r e) < 0 := by nlinarith
      omega
    exact mul_nonneg hm0 (le_of_lt (p2_pos _))
  have c2 : dyLe m e (p2 (l - r + 1) - 1) r = true := by
    unfold dyLe; simp only [decide_eq_true_eq, min_comm e r]; rw [← h]; nlinarith
  unfold ctorNumU
  simp only [bind, Except.bind, pure, Except.pure]
  rw [if_neg (not_not.mpr ⟨c1, c2⟩), ht, mkU_ok _ v (by omega) hv.1 hv.2]

end CohdlVerif.C19
