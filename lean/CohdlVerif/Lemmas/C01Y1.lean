import CohdlVerif.Lemmas.C01X7

/-! C01 - whole grammar: a statement that always returns leaves no open block -/
namespace CohdlVerif.C01

theorem mergeAcc_nil_nil (acc : List Nat) (b tb eb : Nat) : mergeAcc acc b tb eb [] [] = acc := by
  simp [mergeAcc, anyTrans, allTrans, insIds]

theorem iteLoop_open_nil (c : Nat) (ft fe : List Nat → CSt → List Nat × CSt) (ht : ∀ O s, (ft O s).1 = [])
    (he : ∀ O s, (fe O s).1 = []) : ∀ (bs : List Nat) (s : CSt) (acc : List Nat), (iteLoop c ft fe bs s acc).1 = acc := by
  intro bs
  induction bs with
  | nil => intro s acc; rfl
  | cons b bs ih =>
    intro s acc
    rw [iteLoop_cons, ht, he, mergeAcc_nil_nil]
    exact ih _ _

theorem retAlways_open_nil : ∀ (t : Stmt), retAlways t = true → ∀ O s, (compile t O s).1 = [] := by
  intro t
  induction t with
  | skip => intro h; simp [retAlways] at h
  | act a k ih => intro h O s; exact ih (by simpa [retAlways] using h) _ _
  | await cc k ih =>
    intro h O s
    have hk : retAlways k = true := by simpa [retAlways] using h
    cases cc with
    | none => rw [compile_await_none]; split <;> exact ih hk _ _
    | some c' => rw [compile_await_some]; split <;> exact ih hk _ _
  | awaitF => intro h; simp [retAlways] at h
  | ite c t e k iht ihe ihk =>
    intro h O s
    rw [compile_ite]
    split
    · rename_i hr
      simp only [Bool.and_eq_true] at hr
      exact iteLoop_open_nil c _ _ (iht hr.1) (ihe hr.2) O s []
    · rename_i hr
      have hk : retAlways k = true := by
        simp only [retAlways, Bool.or_eq_true] at h
        rcases h with h | h
        · exact absurd h hr
        · exact h
      exact ihk hk _ _
  | while_ cc b k _ ihk =>
    intro h O s
    rw [compile_while]
    exact ihk (by simpa [retAlways] using h) _ _
  | brk => intro h; simp [retAlways] at h
  | cont => intro h; simp [retAlways] at h
  | ret => intro _ O s; rfl
  | call b k _ ihk =>
    intro h O s
    rw [compile_call]
    split <;> exact ihk (by simpa [retAlways] using h) _ _

end CohdlVerif.C01
