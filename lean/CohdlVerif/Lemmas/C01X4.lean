import CohdlVerif.Lemmas.C01X3

/-! C01 - general grammar: loops, `break`, `continue` are never plain -/
namespace CohdlVerif.C01

/-- a loop never leaves its own block open -/
theorem notr_while (cc : Option Nat) (b k : Stmt) (l c : Bool) (hb : CSpec (compile b) true c)
    (hk : CSpec (compile k) l c) (fb : FwdG (compile b) true) (x : Nat) (s : CSt) (hi : Inv s [x]) (hsi : SInv s)
    (hn : NoTr x (compile (.while_ cc b k) [x] s).1) : False := by
  have hx : x < s.next := hi.hlt.1 x (by simp)
  have X := wctx cc b c hb fb [x] s hi hsi
  rw [compile_while] at hn
  have hlw := X.W.hlt hi.hlt
  obtain ⟨XF, _, AX, n1, _, _, _, _⟩ := wSX_facts cc b [x] s hlw X.A5
  have hlx := XF.hlt hlw
  have Tk := (hk _ _ hlx (fun h => by rw [AX] at h; cases h) (fun _ => AX)).1
  have hsb := X.sbl
  have hw := X.W.next_le
  have hbody : ∀ y, InR (wS1c [x] s) [wBody [x] s] (wR b [x] s).2 y → wBody [x] s ≤ y := by
    intro y hy
    rcases hy.1 with h | h
    · simp at h; omega
    · have : (wS1c [x] s).next = wBody [x] s + 1 := X.next1
      omega
  rcases NoTr.range Tk hn with h | h
  · rcases wOk_cases cc b [x] s x h with h | h | h
    · omega
    · have hl4 : Hlt (wS4 b [x] s) (wS3 b [x] s).cont := by
        refine ⟨fun o ho => ?_, by
          rw [X.next4]; have := X.B.next_le; have : (wS1c [x] s).next = wBody [x] s + 1 := X.next1; omega⟩
        rw [X.next4]
        exact InR.lt X.hi1.hlt.1 X.B.next_le (X.B.dC_spec.2 o (X.cont_eq ▸ ho))
      have hm := (contLoop_step cc (wBody [x] s) (wS3 b [x] s).cont (wS4 b [x] s) [] hl4).2 x h
      rcases hm with h | h
      · simp at h
      · rcases h.1 with h | h
        · have := hbody x (X.B.dC_spec.2 x (X.cont_eq ▸ h)); omega
        · have : (wS1 [x] s).next ≤ (wS4 b [x] s).next := by rw [X.next4]; exact X.B.next_le
          have := X.next1; omega
    · have := hbody x (X.B.dB_spec.2 x (X.brk_eq ▸ h)); omega
  · omega


theorem frag2_stepS (k : Stmt) (l : Bool) (hk : frag2 k l = true) :
    ∀ O s, Inv s O → s.atStart = false → Step s O (compile k O s).2 (compile k O s).1 :=
  fun O s hi hA => (frag2_spec k l hk).step hi (fun _ => hA)

/-- fragment 2: a statement that leaves just its own block open did not touch the lists -/
theorem notrL2 : ∀ (t : Stmt) (l : Bool), frag2 t l = true → NoTrLists t := by
  intro t
  induction t with
  | skip => intro l _ x s _ _ _ _; exact SameLists.refl s
  | act a k ih =>
    intro l h x s hi hsi hA hn
    have hk : frag2 k l = true := by simpa [frag2] using h
    rw [compile_act_single] at hn ⊢
    have hx := HeapExt.append s [x] x (by simp) (.act a)
    have hA1 := (hx.step hi.hlt.1).atStart_false hi.hlt.2 hA
    exact hx.sameLists.trans (ih l hk x _ (hi.single_append _) (hsi.step (hx.step hi.hlt.1) hi.hlt.2) hA1 hn)
  | await cc k ih =>
    intro l h x s hi _ hA hn
    have hk : frag2 k l = true := by simpa [frag2] using h
    obtain ⟨_, hst, _, _⟩ := plain_awaitG cc k (frag2_stepS k l hk) x s hi hn
    rw [hA] at hst; cases hst
  | awaitF =>
    intro l _ x s _ _ _ hn
    exfalso
    simp only [compile, List.isEmpty_cons, Bool.false_eq_true, if_false] at hn
    exact hn.1 rfl
  | ite c t e k iht ihe ihk =>
    intro l h x s hi hsi hA hn
    simp only [frag2, Bool.and_eq_true] at h
    obtain ⟨X, hat, hae, heq, _, hi5⟩ := ite_notr c t e k l false (frag2_spec t l h.1.1) (frag2_spec e l h.1.2)
      (frag2_spec k l h.2) (by simp [frag2_retAlways t l h.1.1]) x s hi hsi hn
    rw [heq] at hn ⊢
    have s1 := iht l h.1.1 s.next (itePre c x s) X.hi3 X.hsi3 X.hA3 ((anyTrans_false_iff _ _).mp hat)
    have s2 := ihe l h.1.2 (s.next + 1) (iR4 t c x s).2 X.hi4 X.hsi4 X.hA4 ((anyTrans_false_iff _ _).mp hae)
    have s3 := ihk l h.2 x (iR5 t e c x s).2 hi5 X.hsi5 X.hA5 hn
    exact (((itePre_sameLists c x s).trans s1).trans s2).trans s3
  | while_ cc b k _ _ =>
    intro l h x s hi hsi _ hn
    simp only [frag2, Bool.and_eq_true] at h
    exact (notr_while cc b k l false (frag2_spec b true h.1) (frag2_spec k l h.2) (fwd2 b true h.1) x s hi hsi hn).elim
  | brk => intro l _ x s _ _ _ hn; exact (hn.1 (by simp [compile])).elim
  | cont => intro l _ x s _ _ _ hn; exact (hn.1 (by simp [compile])).elim
  | ret => intro l h; simp [frag2] at h
  | call b k _ _ => intro l h; simp [frag2] at h


section
variable {σ : Type} (act : Nat → σ → σ) (cond : Nat → σ → Bool)
variable (Hf : Nat → Blk) (E : Nat → σ → σ × Option Nat) (Rf : Nat → Nat) (Sf : List Nat)

theorem plain_iteG (hE : ∀ b s, E b s = execB act cond E (Hf b) s) (c : Nat) (t1 e1 k : Stmt) (l cf : Bool)
    (ht : CSpec (compile t1) l cf) (he : CSpec (compile e1) l cf) (hk : CSpec (compile k) l cf)
    (hr : (retAlways t1 && retAlways e1) = false)
    (iht : PlainG act cond Hf E Rf Sf t1) (ihe : PlainG act cond Hf E Rf Sf e1)
    (ihk : PlainG act cond Hf E Rf Sf k) : PlainG act cond Hf E Rf Sf (.ite c t1 e1 k) := by
  intro x s P' hi hsi hA hn hF hP'
  obtain ⟨X, hat, hae, heq, Tk, hi5⟩ := ite_notr c t1 e1 k l cf ht he hk hr x s hi hsi hn
  rw [heq] at hn hF hP' ⊢
  have hx : x < s.next := hi.hlt.1 x (by simp)
  have n4 := X.n4
  have n5 := X.n5
  have hn6 := Tk.next_le
  have Tt := X.Tt
  have Te := X.Te
  have F5 : Fut Hf Rf Sf (iR5 t1 e1 c x s).2 (fun y => y = x ∨ P' y) :=
    Fut.back Tk (by simp) (fun y hy => Or.inl (Or.inr hy)) hF
  have F4 : Fut Hf Rf Sf (iR4 t1 c x s).2 (fun y => y = s.next + 1 ∨ (y = x ∨ P' y)) :=
    Fut.back Te (by simp) (fun y hy => Or.inl (Or.inr hy)) F5
  have Pt := iht s.next (itePre c x s) _ X.hi3 X.hsi3 X.hA3 ((anyTrans_false_iff _ _).mp hat) F4 (by
      intro y hy hlt hr'
      have hlt' : y < (iR4 t1 c x s).2.next := hlt
      rcases hy with hy | hy | hy
      · rcases hr' with h | h
        · omega
        · simp [itePre_next] at h; omega
      · rcases hr' with h | h
        · omega
        · simp [itePre_next] at h; omega
      · have hy3 : s.next ≤ y := by
          rcases hr' with h | h
          · omega
          · simp [itePre_next] at h; omega
        have := hP' y hy (by omega) (Or.inr hy3); omega)
  have Pe := ihe (s.next + 1) (iR4 t1 c x s).2 _ X.hi4 X.hsi4 X.hA4 ((anyTrans_false_iff _ _).mp hae) F5 (by
      intro y hy hlt hr'
      have hlt' : y < (iR5 t1 e1 c x s).2.next := hlt
      rcases hy with hy | hy
      · rcases hr' with h | h
        · omega
        · omega
      · have hy3 : s.next ≤ y := by
          rcases hr' with h | h
          · omega
          · omega
        have := hP' y hy (by omega) (Or.inr hy3); omega)
  have Pk := ihk x (iR5 t1 e1 c x s).2 P' hi5 X.hsi5 X.hA5 hn hF
    (fun y hy hlt hr' => hP' y hy hlt (hr'.imp id (fun h => by omega)))
  have hct : Hf s.next = (iR4 t1 c x s).2.heap s.next := F4.closed _ (by omega) (by
    intro h; rcases h with h | h | h
    · omega
    · omega
    · have := hP' _ h (by omega) (Or.inr (Nat.le_refl _)); omega)
  have hce : Hf (s.next + 1) = (iR5 t1 e1 c x s).2.heap (s.next + 1) := F5.closed _ (by omega) (by
    intro h; rcases h with h | h
    · omega
    · have := hP' _ h (by omega) (Or.inr (by omega)); omega)
  have hfe : ((iR4 t1 c x s).2.heap (s.next + 1)).front = [] := X.hi4.front _ (by simp)
  obtain ⟨efft, hEt, hRt⟩ := plain_closed act cond Hf E hE t1 s.next _ (iR4 t1 c x s).2 Pt (itePre_child_items c x s hx)
    (itePre_child_front c x s) hct
  obtain ⟨effe, hEe, hRe⟩ := plain_closed act cond Hf E hE e1 (s.next + 1) (iR4 t1 c x s).2 (iR5 t1 e1 c x s).2 Pe
    (by rw [Tt.frame (s.next + 1) (by simp [itePre_next]) (by simp)]; exact itePre_child2_items c x s hx) hfe hce
  obtain ⟨hfk, addk, effk, hk1, hk2, hk3⟩ := Pk
  have hfx5 : ((iR5 t1 e1 c x s).2.heap x).front = (s.heap x).front := by
    rw [Te.frame x (by omega) (by simp; omega), Tt.frame x (by simp [itePre_next]; omega) (by simp; omega),
      itePre_front_parent c x s hx]
  have hix5 : ((iR5 t1 e1 c x s).2.heap x).items = (s.heap x).items ++ [.ite c s.next (s.next + 1)] := by
    rw [Te.frame x (by omega) (by simp; omega), Tt.frame x (by simp [itePre_next]; omega) (by simp; omega),
      itePre_items c x s hx]
  refine ⟨by rw [hfk, hfx5], .ite c s.next (s.next + 1) :: addk,
    fun σ0 => effk (if cond c σ0 then efft σ0 else effe σ0), ?_, ?_, ?_⟩
  · rw [hk1, hix5]; simp
  · intro σ0
    simp only [execI]
    cases hc : cond c σ0 <;> simp [hEt, hEe, hk2]
  · intro st σ0
    rw [X.hA3] at hRt
    rw [X.hA4] at hRt hRe
    rw [X.hA5] at hRe hk3
    cases hc : cond c σ0
    · simp only [hc, Bool.false_eq_true, if_false]
      exact (RunTo.ite_false act cond c t1 e1 k st _ σ0 hc).trans act cond
        ((hRe (.seq k :: st) σ0).trans act cond
          ((RunTo.skip_seq act cond k st false _).trans act cond (hk3 st _)))
    · simp only [hc, if_true]
      exact (RunTo.ite_true act cond c t1 e1 k st _ σ0 hc).trans act cond
        ((hRt (.seq k :: st) σ0).trans act cond
          ((RunTo.skip_seq act cond k st false _).trans act cond (hk3 st _)))

/-- fragment 2: the plain-statement lemma -/
theorem plain2 (hE : ∀ b s, E b s = execB act cond E (Hf b) s) :
    ∀ (t : Stmt) (l : Bool), frag2 t l = true → PlainG act cond Hf E Rf Sf t := by
  intro t
  induction t with
  | skip => intro l _ x s P' _ _ _ _ _ _; exact plain_skip act cond E x s
  | act a k ih =>
    intro l h x s P' hi hsi hA hn hF hP'
    have hk : frag2 k l = true := by simpa [frag2] using h
    rw [compile_act_single] at hn hF hP' ⊢
    have hx := HeapExt.append s [x] x (by simp) (.act a)
    have hA1 := (hx.step hi.hlt.1).atStart_false hi.hlt.2 hA
    exact plain_act act cond E a k x s _ (fun h' => by rw [hA] at h'; cases h')
      (ih l hk x _ P' (hi.single_append _) (hsi.step (hx.step hi.hlt.1) hi.hlt.2) hA1 hn hF hP')
  | await cc k ih =>
    intro l h x s P' hi _ hA hn _ _
    have hk : frag2 k l = true := by simpa [frag2] using h
    obtain ⟨_, hst, _, _⟩ := plain_awaitG cc k (frag2_stepS k l hk) x s hi hn
    rw [hA] at hst; cases hst
  | awaitF =>
    intro l _ x s P' _ _ _ hn _ _
    exfalso
    simp only [compile, List.isEmpty_cons, Bool.false_eq_true, if_false] at hn
    exact hn.1 rfl
  | ite c t e k iht ihe ihk =>
    intro l h
    simp only [frag2, Bool.and_eq_true] at h
    exact plain_iteG act cond Hf E Rf Sf hE c t e k l false (frag2_spec t l h.1.1) (frag2_spec e l h.1.2)
      (frag2_spec k l h.2) (by simp [frag2_retAlways t l h.1.1]) (iht l h.1.1) (ihe l h.1.2) (ihk l h.2)
  | while_ cc b k _ _ =>
    intro l h x s P' hi hsi _ hn _ _
    simp only [frag2, Bool.and_eq_true] at h
    exact (notr_while cc b k l false (frag2_spec b true h.1) (frag2_spec k l h.2) (fwd2 b true h.1) x s hi hsi hn).elim
  | brk => intro l _ x s P' _ _ _ hn _ _; exact (hn.1 (by simp [compile])).elim
  | cont => intro l _ x s P' _ _ _ hn _ _; exact (hn.1 (by simp [compile])).elim
  | ret => intro l h; simp [frag2] at h
  | call b k _ _ => intro l h; simp [frag2] at h

end
end CohdlVerif.C01
