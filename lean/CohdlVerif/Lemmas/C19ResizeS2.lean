import CohdlVerif.Lemmas.C19ResizeS

/-! C19: SFixed `_resize_overlapping`, branch by branch (part 2: right cut, TRUNCATE; ROUND/WRAP) -/

namespace CohdlVerif.C19

theorem coreS_ovf_cut_trunc_wrap (l r v l' r' : Int) (hv : inRangeS (l - r + 1) v)
    (hl : l' < l) (hr : r < r') (ht : r' ≤ l') :
    resizeSCore l r v l' r' .truncate .wrap = .ok (specResizeS r v l' r' .truncate .wrap) := by
  have hmin := hminS (l' - r' + 1)
  have hmax := hmaxS (l' - r' + 1)
  unfold resizeSCore; dsimp only
  rw [mkS_ok _ v (by omega) hv.1 hv.2, mkS_ok _ _ (by omega) hmin.1 hmin.2, mkS_ok _ _ (by omega) hmax.1 hmax.2]
  simp only [bind, Except.bind, pure, Except.pure]
  rw [if_pos (by omega), if_neg (by omega)]
  try dsimp only
  rw [lsbRest_eq _ _ _ (l' - r + 1) (by omega) (by omega) (by omega)]
  try dsimp only
  rw [msbRest_eq _ _ _ (l' - r' + 1) (by omega) (by omega) (by omega)]
  try dsimp only
  rw [emod_emod_p2 v (l - r + 1) (l' - r + 1) (by omega) (by omega), emod_ediv_p2 v (l' - r + 1) (r' - r) (by omega) (by omega),
    show l' - r + 1 - (r' - r) = l' - r' + 1 by omega]
  rw [sFromS_pat _ _ (by omega)]
  simp only [resultRaw, ↓reduceIte]
  rw [sInt_wrapS_pat _ _ (by omega)]
  unfold specResizeS quantize
  rw [if_neg (show ¬ r ≥ r' by omega), overflowS_wrap_eq]

theorem coreS_ovf_cut_trunc_sat (l r v l' r' : Int) (hv : inRangeS (l - r + 1) v)
    (hl : l' < l) (hr : r < r') (ht : r' ≤ l') :
    resizeSCore l r v l' r' .truncate .saturate = .ok (specResizeS r v l' r' .truncate .saturate) := by
  have hmin := hminS (l' - r' + 1)
  have hmax := hmaxS (l' - r' + 1)
  have hk := p2_pos (r' - r)
  have hT := p2_pos (l' - r' + 1 - 1)
  have hP := p2_split (l' - r) (r' - r) (by omega) (by omega)
  rw [show l' - r - (r' - r) = l' - r' + 1 - 1 by omega] at hP
  obtain ⟨hsign, hover, hunder⟩ := sat_prelude l r v l' hv hl (by omega)
  unfold resizeSCore; dsimp only
  rw [mkS_ok _ v (by omega) hv.1 hv.2, mkS_ok _ _ (by omega) hmin.1 hmin.2, mkS_ok _ _ (by omega) hmax.1 hmax.2]
  simp only [bind, Except.bind, pure, Except.pure]
  rw [if_pos (by omega)]
  try dsimp only
  rw [lsbRest_eq _ _ 1 (l - r) (by omega) (by omega) (by omega)]
  try dsimp only
  rw [min_eq_left (show l - l' ≤ l - r + 1 - 1 by omega)]
  rw [left_eq _ _ _ (l' - r) (by omega) (by omega) (by omega)]
  try dsimp only
  rw [emod_emod_p2 v (l - r + 1) (l - r) (by omega) (by omega)]
  rw [if_neg (by omega)]
  try dsimp only
  rw [lsbRest_eq _ _ _ (l' - r + 1) (by omega) (by omega) (by omega)]
  try dsimp only
  rw [msbRest_eq _ _ _ (l' - r' + 1) (by omega) (by omega) (by omega)]
  try dsimp only
  rw [emod_emod_p2 v (l - r + 1) (l' - r + 1) (by omega) (by omega), emod_ediv_p2 v (l' - r + 1) (r' - r) (by omega) (by omega),
    show l' - r + 1 - (r' - r) = l' - r' + 1 by omega]
  simp only [choose2, BV.any, BV.inv, hsign, hover, hunder]
  unfold specResizeS quantize overflowS
  rw [if_neg (show ¬ r ≥ r' by omega)]
  try dsimp only
  by_cases hu : v < -(p2 (l' - r))
  · rw [if_pos (by simp [hu])]
    rw [sFromS_ok _ _ _ (by omega) (le_refl _) hmin]
    simp only [resultRaw, ↓reduceIte]
    rw [sInt_mk _ _ (by omega) hmin.1 hmin.2]
    have hq : v / p2 (r' - r) < -(p2 (l' - r' + 1 - 1)) := by
      rw [Int.ediv_lt_iff_lt_mul hk]; rw [hP] at hu; linarith
    rw [clamp_le_lo _ _ _ (by unfold loS; omega) (by unfold loS hiS; omega)]
    rfl
  · rw [if_neg (by simp [hu])]
    by_cases hge : p2 (l' - r) ≤ v
    · rw [if_pos (by simp [hge])]
      rw [sFromS_ok _ _ _ (by omega) (le_refl _) hmax]
      simp only [resultRaw, ↓reduceIte]
      rw [sInt_mk _ _ (by omega) hmax.1 hmax.2]
      have hq : p2 (l' - r' + 1 - 1) ≤ v / p2 (r' - r) := by
        rw [Int.le_ediv_iff_mul_le hk]; rw [hP] at hge; linarith
      rw [clamp_ge_hi _ _ _ (by unfold hiS; omega) (by unfold loS hiS; omega)]
      rfl
    · rw [if_neg (by simp [hge])]
      have hvn : inRangeS (l' - r + 1) v := by
        unfold inRangeS; rw [show l' - r + 1 - 1 = l' - r by omega]; omega
      have hq := ediv_rangeS v (l' - r + 1) (r' - r) (by omega) (by omega) hvn
      rw [show l' - r + 1 - (r' - r) = l' - r' + 1 by omega] at hq
      rw [sFromS_ok _ _ _ (by omega) (le_refl _) hq]
      simp only [resultRaw, ↓reduceIte]
      rw [sInt_mk _ _ (by omega) hq.1 hq.2]
      rw [clamp_id _ _ _ (by unfold loS; exact hq.1) (by unfold hiS; have := hq.2; omega)]

theorem coreS_cut_trunc (l r v l' r' : Int) (os : Ovf) (hv : inRangeS (l - r + 1) v)
    (hl : l ≤ l') (hr : r < r') (ht : r' ≤ l) :
    resizeSCore l r v l' r' .truncate os = .ok (specResizeS r v l' r' .truncate os) := by
  have hmin := hminS (l' - r' + 1)
  have hmax := hmaxS (l' - r' + 1)
  have hq := ediv_rangeS v (l - r + 1) (r' - r) (by omega) (by omega) hv
  rw [show l - r + 1 - (r' - r) = l - r' + 1 by omega] at hq
  have hq' := inRangeS_mono _ (l' - r' + 1) _ (by omega) (by omega) hq
  unfold resizeSCore; dsimp only
  rw [mkS_ok _ v (by omega) hv.1 hv.2, mkS_ok _ _ (by omega) hmin.1 hmin.2, mkS_ok _ _ (by omega) hmax.1 hmax.2]
  simp only [bind, Except.bind, pure, Except.pure]
  rw [if_neg (by omega), if_neg (by omega)]
  try dsimp only
  rw [msbRest_eq _ _ _ (l - r' + 1) (by omega) (by omega) (by omega)]
  try dsimp only
  rw [emod_ediv_p2 v _ _ (by omega) (by omega), show l - r + 1 - (r' - r) = l - r' + 1 by omega]
  rw [sResize_pat _ _ _ _ (by omega) (le_refl _) (by omega)]
  try dsimp only
  rw [wrapS_id _ _ (by omega) hq, p2_zero, Int.mul_one]
  rw [sFromS_ok _ _ _ (by omega) (le_refl _) hq']
  simp only [resultRaw, ↓reduceIte]
  rw [sInt_mk _ _ (by omega) hq'.1 hq'.2]
  unfold specResizeS quantize
  rw [if_neg (show ¬ r ≥ r' by omega)]
  try dsimp only
  rw [overflowS_id _ _ os (by omega) hq']

theorem coreS_ovf_cut_round_wrap (l r v l' r' : Int) (hv : inRangeS (l - r + 1) v)
    (hl : l' < l) (hr : r < r') (ht : r' ≤ l') :
    resizeSCore l r v l' r' .round .wrap = .ok (specResizeS r v l' r' .round .wrap) := by
  have hmin := hminS (l' - r' + 1)
  have hmax := hmaxS (l' - r' + 1)
  unfold resizeSCore; dsimp only
  rw [mkS_ok _ v (by omega) hv.1 hv.2, mkS_ok _ _ (by omega) hmin.1 hmin.2, mkS_ok _ _ (by omega) hmax.1 hmax.2]
  simp only [bind, Except.bind, pure, Except.pure]
  rw [if_pos (by omega), if_neg (by omega)]
  try dsimp only
  rw [doRound_eq _ _ _ (by omega) (by omega), roundInc_emod v _ _ (by omega) (by omega)]
  try dsimp only
  rw [lsbRest_eq _ _ _ (l' - r + 1) (by omega) (by omega) (by omega)]
  try dsimp only
  rw [msbRest_eq _ _ _ (l' - r' + 1) (by omega) (by omega) (by omega)]
  try dsimp only
  simp only [uAdd, max_eq_left (show (1:Int) ≤ l' - r' + 1 by omega)]
  rw [emod_emod_p2 v (l - r + 1) (l' - r + 1) (by omega) (by omega), emod_ediv_p2 v (l' - r + 1) (r' - r) (by omega) (by omega),
    show l' - r + 1 - (r' - r) = l' - r' + 1 by omega, Int.emod_add_emod]
  rw [sFromS_pat _ _ (by omega)]
  simp only [resultRaw, ↓reduceIte]
  rw [sInt_wrapS_pat _ _ (by omega)]
  unfold specResizeS quantize
  rw [if_neg (show ¬ r ≥ r' by omega), overflowS_wrap_eq]
  try dsimp only
  rw [roundEven_eq]

end CohdlVerif.C19
