import CohdlVerif.Lemmas.C01S7

/-! C01 - general grammar: one iteration of the `If` loop, the case with transitions in a branch -/
namespace CohdlVerif.C01

section
variable {σ : Type} (act : Nat → σ → σ) (cond : Nat → σ → Bool)
variable (prog : Stmt) (Hf : Nat → Blk) (E : Nat → σ → σ × Option Nat) (Rf : Nat → Nat) (Sf : List Nat)

theorem iteIter_simG_other (hE : ∀ b s, E b s = execB act cond E (Hf b) s) (c : Nat) (t1 e1 k : Stmt) (l : Bool)
    (iht : SimG act cond prog Hf E Rf Sf t1 l) (ihe : SimG act cond prog Hf E Rf Sf e1 l)
    (st : List Frame) (m : Nat) (R0 : List Nat) (b : Nat) (s : CSt) (hb : b < s.next) (hbf : (s.heap b).front = [])
    (X : IterCtx t1 e1 c b s) (hbad4 : (iR4 t1 c b s).2.bad = false) (hbad5 : (iR5 t1 e1 c b s).2.bad = false)
    (P5 : Nat → Prop) (hF5 : Fut Hf Rf Sf (iR5 t1 e1 c b s).2 P5)
    (hP5 : ∀ y, P5 y → y < (iR5 t1 e1 c b s).2.next → (y = b ∨ s.next ≤ y) →
      y ∈ Outs s (mergeAcc [] b s.next (s.next + 1) (iR4 t1 c b s).1 (iR5 t1 e1 c b s).1) (iR5 t1 e1 c b s).2)
    (CK : ∀ o ∈ mergeAcc [] b s.next (s.next + 1) (iR4 t1 c b s).1 (iR5 t1 e1 c b s).1,
      TailSim2 act cond prog Hf E Rf Sf (lvl Rf R0 m o) o ((iR5 t1 e1 c b s).2.heap o).items k st false)
    (LB : ∀ o ∈ dB s (iR5 t1 e1 c b s).2,
      TailSim2 act cond prog Hf E Rf Sf (lvl Rf R0 m o) o ((iR5 t1 e1 c b s).2.heap o).items .brk st false)
    (LC : ∀ o ∈ dC s (iR5 t1 e1 c b s).2,
      TailSim2 act cond prog Hf E Rf Sf (lvl Rf R0 m o) o ((iR5 t1 e1 c b s).2.heap o).items .cont st false)
    (LR : ∀ o ∈ dR s (iR5 t1 e1 c b s).2,
      TailSim2 act cond prog Hf E Rf Sf (lvl Rf R0 m o) o ((iR5 t1 e1 c b s).2.heap o).items .ret st false)
    (hno : ¬ (anyTrans s.next (iR4 t1 c b s).1 = false ∧ anyTrans (s.next + 1) (iR5 t1 e1 c b s).1 = false)) :
    TailSim2 act cond prog Hf E Rf Sf (lvl Rf R0 m b) b (s.heap b).items (.ite c t1 e1 k) st s.atStart := by
  have ot_o := X.outs_t
  have oe_o := X.outs_e
  obtain ⟨lB, lC, lR⟩ := X.lists
  obtain ⟨T1, hA3, hi3, hsi3, Tt, hA4, n4, hi4, hsi4, Te, hA5, n5, hsi5, ot_r, oe_r⟩ := X
  have hA := mergeAcc_other b s.next (s.next + 1) (iR4 t1 c b s).1 (iR5 t1 e1 c b s).1 hno
  -- where a pending block of this iteration lives
  have hsplit : ∀ y, y ∈ Outs s (mergeAcc [] b s.next (s.next + 1) (iR4 t1 c b s).1 (iR5 t1 e1 c b s).1) (iR5 t1 e1 c b s).2 →
      y ∈ Outs (itePre c b s) (iR4 t1 c b s).1 (iR4 t1 c b s).2 ∨ y ∈ Outs (iR4 t1 c b s).2 (iR5 t1 e1 c b s).1 (iR5 t1 e1 c b s).2 := by
    intro y hy
    rw [mem_Outs, lB, lC, lR] at hy
    simp only [List.mem_append] at hy
    rcases hy with h | (h | h) | (h | h) | (h | h)
    · rcases (hA y).mp h with h | h
      · exact Or.inl (mem_Outs.mpr (Or.inl h))
      · exact Or.inr (mem_Outs.mpr (Or.inl h))
    · exact Or.inl (mem_Outs.mpr (Or.inr (Or.inl h)))
    · exact Or.inr (mem_Outs.mpr (Or.inr (Or.inl h)))
    · exact Or.inl (mem_Outs.mpr (Or.inr (Or.inr (Or.inl h))))
    · exact Or.inr (mem_Outs.mpr (Or.inr (Or.inr (Or.inl h))))
    · exact Or.inl (mem_Outs.mpr (Or.inr (Or.inr (Or.inr h))))
    · exact Or.inr (mem_Outs.mpr (Or.inr (Or.inr (Or.inr h))))
  have hbA : ¬ P5 b := fun hp => by
    rcases hsplit b (hP5 b hp (by omega) (Or.inl rfl)) with h | h
    · have := ot_o b h; omega
    · have := oe_o b h; omega
  have hHb : Hf b = { s.heap b with items := (s.heap b).items ++ [.ite c s.next (s.next + 1)] } := by
    rw [hF5.closed b (by omega) hbA, Te.frame b (by omega) (by simp; omega), Tt.frame b (by simp [itePre_next]; omega)
      (by simp; omega), itePre_parent_heap c b s hb]
  have F4 : Fut Hf Rf Sf (iR4 t1 c b s).2 (fun y => y = s.next + 1 ∨ P5 y) :=
    Fut.back Te (by simp) (fun y hy => Or.inl (Or.inr hy)) hF5
  -- roots of the branch blocks
  have hRb : Rf b = s.root b := by
    rw [hF5.root b (by omega), Te.root_stable b (by omega), Tt.root_stable b (by simp [itePre_next]; omega), T1.root_stable b hb]
  have hRt : Rf s.next = Rf b := by
    rw [hRb, hF5.root s.next (by omega), Te.root_stable s.next (by omega),
      Tt.root_stable s.next (by simp [itePre_next]), itePre_child_root c b s hb]
  have hRe : Rf (s.next + 1) = Rf b := by
    have hr2 : (itePre c b s).root (s.next + 1) = s.root b := by
      have h : b ≠ s.next + 1 := by omega
      simp [itePre, CSt.append, CSt.newBlock]
    rw [hRb, hF5.root (s.next + 1) (by omega), Te.root_stable (s.next + 1) (by omega),
      Tt.root_stable (s.next + 1) (by simp [itePre_next]), hr2]
  have hle : ∀ x, lvl Rf [Rf b] (lvl Rf R0 m b) x ≤ lvl Rf R0 m x := lvl_rebase Rf R0 m b
  -- the body
  have Ct := iht (.seq k :: st) [s.next] (itePre c b s) (lvl Rf R0 m b) [Rf b] _ hi3 hsi3 (fun _ => hA3) hbad4 F4
    (by
      intro y hy hlt hr
      have hlt' : y < (iR4 t1 c b s).2.next := hlt
      have hy3 : s.next ≤ y := by
        rcases hr with h | h
        · simp at h; omega
        · simp [itePre_next] at h; omega
      rcases hy with hy | hy
      · rcases hr with h | h
        · simp at h; omega
        · simp [itePre_next] at h; omega
      · rcases hsplit y (hP5 y hy (by omega) (Or.inr hy3)) with h | h
        · exact h
        · have := oe_o y h
          rcases hr with h' | h'
          · simp at h'; omega
          · simp [itePre_next] at h'; omega)
    (Prems.seq act cond prog Hf E Rf Sf (r := iR4 t1 c b s) hA4
      (fun o' ho' => by
        have h1 := CK o' ((hA o').mpr (Or.inl ho'))
        have := ot_r o' ho'
        rw [Te.frame o' this.2 (by simp; omega)] at h1
        exact TailSim2_mono_le act cond prog Hf E Rf Sf _ _ o' (hle o') _ _ _ _ h1)
      (fun o' ho' => by
        have h1 := LB o' (by rw [lB]; simp [ho'])
        have := ot_o o' (mem_Outs.mpr (Or.inr (Or.inl ho')))
        rw [Te.frame o' this.2 (by simp; omega)] at h1
        exact TailSim2_mono_le act cond prog Hf E Rf Sf _ _ o' (hle o') _ _ _ _ h1)
      (fun o' ho' => by
        have h1 := LC o' (by rw [lC]; simp [ho'])
        have := ot_o o' (mem_Outs.mpr (Or.inr (Or.inr (Or.inl ho'))))
        rw [Te.frame o' this.2 (by simp; omega)] at h1
        exact TailSim2_mono_le act cond prog Hf E Rf Sf _ _ o' (hle o') _ _ _ _ h1)
      (fun o' ho' => by
        have h1 := LR o' (by rw [lR]; simp [ho'])
        have := ot_o o' (mem_Outs.mpr (Or.inr (Or.inr (Or.inr ho'))))
        rw [Te.frame o' this.2 (by simp; omega)] at h1
        exact TailSim2_mono_le act cond prog Hf E Rf Sf _ _ o' (hle o') _ _ _ _ h1))
    s.next (by simp)
  have Ce := ihe (.seq k :: st) [s.next + 1] (iR4 t1 c b s).2 (lvl Rf R0 m b) [Rf b] _ hi4 hsi4 (fun _ => hA4) hbad5 hF5
    (by
      intro y hy hlt hr
      have hlt' : y < (iR5 t1 e1 c b s).2.next := hlt
      have hy3 : s.next ≤ y := by
        rcases hr with h | h
        · simp at h; omega
        · omega
      rcases hsplit y (hP5 y hy hlt' (Or.inr hy3)) with h | h
      · have := ot_o y h
        rcases hr with h' | h'
        · simp at h'; omega
        · omega
      · exact h)
    (Prems.seq act cond prog Hf E Rf Sf (r := iR5 t1 e1 c b s) hA5
      (fun o' ho' => TailSim2_mono_le act cond prog Hf E Rf Sf _ _ o' (hle o') _ _ _ _ (CK o' ((hA o').mpr (Or.inr ho'))))
      (fun o' ho' => TailSim2_mono_le act cond prog Hf E Rf Sf _ _ o' (hle o') _ _ _ _ (LB o' (by rw [lB]; simp [ho'])))
      (fun o' ho' => TailSim2_mono_le act cond prog Hf E Rf Sf _ _ o' (hle o') _ _ _ _ (LC o' (by rw [lC]; simp [ho'])))
      (fun o' ho' => TailSim2_mono_le act cond prog Hf E Rf Sf _ _ o' (hle o') _ _ _ _ (LR o' (by rw [lR]; simp [ho']))))
    (s.next + 1) (by simp)
  rw [itePre_child_heap c b s hb, hA3, ← hRt, lvl_self] at Ct
  have hch : ((iR4 t1 c b s).2.heap (s.next + 1)) = {} := by
    rw [Tt.frame (s.next + 1) (by simp [itePre_next]) (by simp), itePre_child2_heap c b s hb]
  rw [hch, hA4, ← hRe, lvl_self] at Ce
  have hcur1 : cur Rf Sf s.next = cur Rf Sf b := by simp only [cur, hRt]
  have hcur2 : cur Rf Sf (s.next + 1) = cur Rf Sf b := by simp only [cur, hRe]
  intro suf hsuf s0
  rw [hHb] at hsuf
  have : suf = [.ite c s.next (s.next + 1)] := by simpa using hsuf.symm
  subst this
  have htl : tailF act cond Hf E b [.ite c s.next (s.next + 1)] s0 =
      if cond c s0 then E s.next s0 else E (s.next + 1) s0 := by
    simp only [tailF, execI, hHb, hbf, lastT, por_none_right, por_none_left]
  rw [htl]
  cases hc : cond c s0 with
  | true =>
    simp only [if_true]
    have h1 := Ct (Hf s.next).items (by simp) s0
    rw [← E_tailF act cond Hf E hE s.next, hcur1] at h1
    exact SimPt2_pull act cond prog E Sf (RunTo.ite_true act cond c t1 e1 k st _ s0 hc) (fun _ => rfl) h1
  | false =>
    simp only [Bool.false_eq_true, if_false]
    have h1 := Ce (Hf (s.next + 1)).items (by simp) s0
    rw [← E_tailF act cond Hf E hE (s.next + 1), hcur2] at h1
    exact SimPt2_pull act cond prog E Sf (RunTo.ite_false act cond c t1 e1 k st _ s0 hc) (fun _ => rfl) h1

end
end CohdlVerif.C01
