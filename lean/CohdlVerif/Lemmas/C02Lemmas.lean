import CohdlVerif.Model.C02
import Mathlib.Tactic.Ring
import Mathlib.Tactic.Linarith

/-!
  C02 - helper lemmas: modular / two's complement arithmetic behind numeric_std, and the agreement of
  the package's sign-magnitude division algorithms with truncating division, `rem` and `mod`.
-/
namespace CohdlVerif.C02

theorem emod_eq_of {a N r q : Int} (hN : 0 < N) (h : r + N * q = a) (h0 : 0 ≤ r) (h1 : r < N) : a % N = r :=
  ((Int.ediv_emod_unique hN).2 ⟨h, h0, h1⟩).2

theorem ediv_eq_of {a N r q : Int} (hN : 0 < N) (h : r + N * q = a) (h0 : 0 ≤ r) (h1 : r < N) : a / N = q :=
  ((Int.ediv_emod_unique hN).2 ⟨h, h0, h1⟩).1

theorem p2pos (w : Nat) : (0 : Int) < 2 ^ w := by positivity

theorem p2half {w : Nat} (h : 1 ≤ w) : (2 : Int) ^ w = 2 * 2 ^ (w - 1) := by
  obtain ⟨k, rfl⟩ : ∃ k, w = k + 1 := ⟨w - 1, by omega⟩
  simp [pow_succ]; ring

theorem p2halfN {w : Nat} (h : 1 ≤ w) : (2 : Nat) ^ w = 2 * 2 ^ (w - 1) := by
  obtain ⟨k, rfl⟩ : ∃ k, w = k + 1 := ⟨w - 1, by omega⟩
  simp [pow_succ]; ring

theorem p2mono {a b : Nat} (h : a ≤ b) : (2 : Int) ^ a ≤ 2 ^ b :=
  pow_le_pow_right₀ (by norm_num) h

theorem p2monoN {a b : Nat} (h : a ≤ b) : (2 : Nat) ^ a ≤ 2 ^ b :=
  Nat.pow_le_pow_right (by norm_num) h

/-- the encoded pattern as an integer -/
theorem enc_cast (w : Nat) (x : Int) : ((enc w x : Nat) : Int) = x % 2 ^ w := by
  unfold enc
  exact Int.toNat_of_nonneg (Int.emod_nonneg _ (ne_of_gt (p2pos w)))

theorem enc_lt (w : Nat) (x : Int) : enc w x < 2 ^ w := by
  have h := Int.emod_lt_of_pos x (p2pos w)
  rw [← enc_cast] at h
  exact_mod_cast h

theorem enc_congr {w : Nat} {x y : Int} (h : x % 2 ^ w = y % 2 ^ w) : enc w x = enc w y := by
  unfold enc; rw [h]

theorem enc_wrapU (w : Nat) (x : Int) : enc w (wrapU w x) = enc w x := by
  apply enc_congr; unfold wrapU
  exact Int.emod_emod_of_dvd _ (dvd_refl _)

theorem enc_wrapS (w : Nat) (x : Int) : enc w (wrapS w x) = enc w x := by
  apply enc_congr; unfold wrapS
  rw [Int.emod_sub_emod]; congr 1; ring

theorem enc_of_range {w : Nat} {x : Int} (h0 : 0 ≤ x) (h1 : x < 2 ^ w) : ((enc w x : Nat) : Int) = x := by
  rw [enc_cast]; exact Int.emod_eq_of_lt h0 h1

theorem enc_natCast {w p : Nat} (h : p < 2 ^ w) : enc w (p : Int) = p := by
  have : ((enc w (p : Int) : Nat) : Int) = (p : Int) :=
    enc_of_range (Int.natCast_nonneg p) (by exact_mod_cast h)
  exact_mod_cast this

theorem wrapU_range (w : Nat) (x : Int) : 0 ≤ wrapU w x ∧ wrapU w x < 2 ^ w :=
  ⟨Int.emod_nonneg _ (ne_of_gt (p2pos w)), Int.emod_lt_of_pos _ (p2pos w)⟩

theorem wrapS_range {w : Nat} (h : 1 ≤ w) (x : Int) : -(2 ^ (w - 1)) ≤ wrapS w x ∧ wrapS w x < 2 ^ (w - 1) := by
  unfold wrapS
  have h0 := Int.emod_nonneg (x + 2 ^ (w - 1)) (ne_of_gt (p2pos w))
  have h1 := Int.emod_lt_of_pos (x + 2 ^ (w - 1)) (p2pos w)
  have := p2half h
  constructor <;> linarith

theorem wrapU_id {w : Nat} {x : Int} (h0 : 0 ≤ x) (h1 : x < 2 ^ w) : wrapU w x = x :=
  Int.emod_eq_of_lt h0 h1

theorem wrapS_id {w : Nat} {x : Int} (h : 1 ≤ w) (h0 : -(2 ^ (w - 1)) ≤ x) (h1 : x < 2 ^ (w - 1)) : wrapS w x = x := by
  unfold wrapS
  have := p2half h
  rw [Int.emod_eq_of_lt (by linarith) (by linarith)]; ring

/-- TO_INTEGER of the pattern of `x` is `x` wrapped into the signed range -/
theorem sInt_enc {w : Nat} (h : 1 ≤ w) (x : Int) : sInt w (enc w x) = wrapS w x := by
  unfold sInt wrapS
  have hc := enc_cast w x
  have hN := p2pos w
  have hh := p2half h
  have hhp := p2pos (w - 1)
  have r0 := Int.emod_nonneg x (ne_of_gt hN)
  have r1 := Int.emod_lt_of_pos x hN
  have hx : x = x % 2 ^ w + 2 ^ w * (x / 2 ^ w) := (Int.emod_add_mul_ediv x (2 ^ w)).symm
  split
  · rename_i hlt
    have hlt' : ((enc w x : Nat) : Int) < 2 ^ (w - 1) := by exact_mod_cast hlt
    rw [hc] at hlt' ⊢
    have key : (x + 2 ^ (w - 1)) % 2 ^ w = x % 2 ^ w + 2 ^ (w - 1) :=
      emod_eq_of hN (q := x / 2 ^ w) (by linarith) (by linarith) (by linarith)
    rw [key]; ring
  · rename_i hge
    have hge' : ¬ ((enc w x : Nat) : Int) < 2 ^ (w - 1) := by
      intro hh2; apply hge; exact_mod_cast hh2
    rw [hc] at hge' ⊢
    have key : (x + 2 ^ (w - 1)) % 2 ^ w = x % 2 ^ w - 2 ^ (w - 1) :=
      emod_eq_of hN (q := x / 2 ^ w + 1) (by linarith) (by linarith) (by linarith)
    rw [key]; linarith

theorem sInt_enc_id {w : Nat} {x : Int} (h : 1 ≤ w) (h0 : -(2 ^ (w - 1)) ≤ x) (h1 : x < 2 ^ (w - 1)) :
    sInt w (enc w x) = x := by
  rw [sInt_enc h, wrapS_id h h0 h1]

theorem sInt_range {w p : Nat} (h : 1 ≤ w) (hp : p < 2 ^ w) : -(2 ^ (w - 1)) ≤ sInt w p ∧ sInt w p < 2 ^ (w - 1) := by
  unfold sInt
  have hh := p2half h
  have hp' : (p : Int) < 2 ^ w := by exact_mod_cast hp
  split
  · rename_i hlt
    have : (p : Int) < 2 ^ (w - 1) := by exact_mod_cast hlt
    constructor <;> linarith [Int.natCast_nonneg p, p2pos (w - 1)]
  · rename_i hge
    have : ¬ (p : Int) < 2 ^ (w - 1) := by intro h2; apply hge; exact_mod_cast h2
    constructor <;> linarith

/-- the pattern of the two's complement reading is the pattern -/
theorem enc_sInt {w p : Nat} (hp : p < 2 ^ w) : enc w (sInt w p) = p := by
  unfold sInt
  split
  · exact enc_natCast hp
  · have : enc w ((p : Int) - 2 ^ w) = enc w (p : Int) := by
      apply enc_congr
      have := Int.add_mul_emod_self_right (p : Int) (-1) (2 ^ w)
      rw [← this]; congr 1; ring
    rw [this]; exact enc_natCast hp

/-- RESIZE of a signed vector to a larger length preserves the value (sign extension) -/
theorem sInt_vresize {w w' p : Nat} (h : 1 ≤ w) (hw : w ≤ w') (hp : p < 2 ^ w) :
    sInt w' (vresize .sgn w p w') = sInt w p := by
  unfold vresize sInt
  simp only [hw, if_true]
  have hh := p2halfN h
  have hh' := p2halfN (le_trans h hw)
  have hm : (2 : Nat) ^ (w - 1) ≤ 2 ^ (w' - 1) := p2monoN (by omega)
  have hm2 : (2 : Nat) ^ w ≤ 2 ^ w' := p2monoN hw
  by_cases hlt : p < 2 ^ (w - 1)
  · have : p < 2 ^ (w' - 1) := by omega
    simp [hlt, this]
  · have : ¬ (p + (2 ^ w' - 2 ^ w) < 2 ^ (w' - 1)) := by omega
    simp only [hlt, if_false, this]
    have e : ((p + (2 ^ w' - 2 ^ w) : Nat) : Int) = (p : Int) + (2 ^ w' - 2 ^ w) := by
      rw [Nat.cast_add, Nat.cast_sub hm2]; push_cast; ring
    rw [e]; ring

theorem vresize_sgn_lt {w w' p : Nat} (h : 1 ≤ w) (hw : w ≤ w') (hp : p < 2 ^ w) : vresize .sgn w p w' < 2 ^ w' := by
  unfold vresize
  simp only [hw, if_true]
  have hm2 : (2 : Nat) ^ w ≤ 2 ^ w' := p2monoN hw
  split <;> omega

theorem vresize_uns {w w' p : Nat} (hw : w ≤ w') (hp : p < 2 ^ w) : vresize .uns w p w' = p := by
  unfold vresize
  exact Nat.mod_eq_of_lt (lt_of_lt_of_le hp (p2monoN hw))

/-! ### numeric_std division family = truncating division / rem / mod -/

theorem nsDiv_eq (x y : Int) : nsDiv x y = Int.tdiv x y := by
  unfold nsDiv
  rcases x with x | x <;> rcases y with y | y <;>
    simp [Int.tdiv, Int.natAbs, Int.negSucc_lt_zero, Int.natCast_div] <;> omega

theorem nsRem_eq (x y : Int) : nsRem x y = Int.tmod x y := by
  unfold nsRem
  rcases x with x | x <;> rcases y with y | y <;>
    simp [Int.tmod, Int.natAbs, Int.negSucc_lt_zero, Int.natCast_mod]

end CohdlVerif.C02

namespace CohdlVerif.C02

theorem nsMod_eq (x y : Int) : nsMod x y = Int.fmod x y := by
  rw [Int.fmod_eq_tmod, ← nsRem_eq]
  have hd : (y ∣ x) ↔ (x.natAbs % y.natAbs = 0) := by
    rw [← Int.natAbs_dvd_natAbs, Nat.dvd_iff_mod_eq_zero]
  unfold nsMod nsRem
  simp only [hd]
  generalize x.natAbs % y.natAbs = r
  have hyn : (y.natAbs : Int) = |y| := Int.natCast_natAbs y
  by_cases hx : x < 0 <;> by_cases hy : y < 0 <;> by_cases h0 : r = 0 <;>
    simp [hx, hy, h0, not_lt.mp, le_of_lt] <;> omega

end CohdlVerif.C02

namespace CohdlVerif.C02

/-- a specification value lies in the value range of its type (widths are at least 1) -/
def InRange : Ty → Val → Prop
  | .bit, .b _ => True
  | .bool, .b _ => True
  | .bv w, .n x => 1 ≤ w ∧ 0 ≤ x ∧ x < 2 ^ w
  | .uns w, .n x => 1 ≤ w ∧ 0 ≤ x ∧ x < 2 ^ w
  | .sgn w, .n x => 1 ≤ w ∧ -(2 ^ (w - 1)) ≤ x ∧ x < 2 ^ (w - 1)
  | .int, .n _ => True
  | _, _ => False

theorem enc_eq_zero_iff {w : Nat} {y : Int} (h0 : 0 ≤ y) (h1 : y < 2 ^ w) : enc w y = 0 ↔ y = 0 := by
  have := enc_of_range h0 h1
  constructor
  · intro h; rw [h] at this; simpa using this.symm
  · intro h; subst h; simp [enc]

theorem enc_eq_zero_iff_s {w : Nat} {y : Int} (h : 1 ≤ w) (h0 : -(2 ^ (w - 1)) ≤ y) (h1 : y < 2 ^ (w - 1)) :
    enc w y = 0 ↔ y = 0 := by
  have := sInt_enc_id h h0 h1
  constructor
  · intro e; rw [e] at this; rw [← this]; simp [sInt]
  · intro e; subst e; simp [enc]

end CohdlVerif.C02

namespace CohdlVerif.C02

theorem arithVV_pos (op : AOp) {wa wb : Nat} (ha : 1 ≤ wa) (hb : 1 ≤ wb) : 1 ≤ arithVV op wa wb := by
  cases op <;> simp [arithVV] <;> omega

theorem arithVI_pos (op : AOp) {w : Nat} (h : 1 ≤ w) : 1 ≤ arithVI op w := by
  cases op <;> simp [arithVI] <;> omega

theorem inRange_wrapU {w : Nat} (h : 1 ≤ w) (z : Int) : InRange (.uns w) (.n (wrapU w z)) :=
  ⟨h, (wrapU_range w z).1, (wrapU_range w z).2⟩

theorem inRange_wrapS {w : Nat} (h : 1 ≤ w) (z : Int) : InRange (.sgn w) (.n (wrapS w z)) :=
  ⟨h, (wrapS_range h z).1, (wrapS_range h z).2⟩

theorem ite_ok_iff {c : Prop} [Decidable c] {x : Except Err Ty} {e : Err} {t : Ty} :
    (if c then x else .error e) = .ok t ↔ c ∧ x = .ok t := by
  by_cases h : c <;> simp [h]

theorem intVal_some {a : Expr} {k : Int} (h : intVal a = some k) : a = .intc k := by
  cases a <;> simp [intVal] at h
  subst h; rfl


end CohdlVerif.C02

namespace CohdlVerif.C02

theorem enc_shr_nonneg {w n : Nat} {x : Int} (h0 : 0 ≤ x) (h1 : x < 2 ^ w) :
    enc w x / 2 ^ n = enc w (x / 2 ^ n) := by
  have hp : (0 : Int) < 2 ^ n := p2pos n
  have q0 : 0 ≤ x / 2 ^ n := Int.ediv_nonneg h0 (le_of_lt hp)
  have q1 : x / 2 ^ n < 2 ^ w := lt_of_le_of_lt (Int.ediv_le_self _ h0) h1
  have e1 := enc_of_range h0 h1
  have e2 := enc_of_range q0 q1
  have : ((enc w x / 2 ^ n : Nat) : Int) = ((enc w (x / 2 ^ n) : Nat) : Int) := by
    rw [e2, Int.natCast_div, e1]; norm_cast
  exact_mod_cast this


end CohdlVerif.C02
