import CohdlVerif.Lemmas.C13Hist
import CohdlVerif.Lemmas.C13C3Map
import Mathlib.Data.List.Induction
/-! C13 part A - closed form of the method resolution order (`mroK`), its C3 certificate on parameter tuples
    (`mroK_c3`, all shapes, symbolic widths / orders / directions / element types) and the table theorem
    `mroTable_spec`: in every well-formed class table the C3 merge of every class succeeds and yields `mroK`. -/
namespace CohdlVerif.C13

def tqTail : List Key := [.root .tq, .root .tqBase, .root .object]
def primTail : List Key := [.root .primType, .root .object]

def rootMro : Root → List Key
  | .object => [.root .object]
  | .primType => .root .primType :: [.root .object]
  | .bit => .root .bit :: primTail
  | .boolean => .root .boolean :: primTail
  | .integer => .root .integer :: primTail
  | .bitvector => .root .bitvector :: primTail
  | .unsigned => .root .unsigned :: .root .bitvector :: primTail
  | .signed => .root .signed :: .root .bitvector :: primTail
  | .array => .root .array :: primTail
  | .tqBase => [.root .tqBase, .root .object]
  | .tq => tqTail
  | .signal => .root .signal :: tqTail
  | .port => .root .port :: .root .signal :: tqTail
  | .variable => .root .variable :: tqTail
  | .temporary => .root .temporary :: tqTail

/-- classes of one qualifier family above the anonymous parent of `Q[K[o,w]]` -/
def chainA (qk : QKind) (d : Option Dir) (k : VKind) (w : Nat) : List Key :=
  [.q qk d (.root (kroot k)), .q qk d (.vec .bv .downto w), .q qk d (.root .bitvector)]

/-- classes of one qualifier family (kind, direction) in the MRO of `Q[t]`, the family root excluded -/
def qChain (qk : QKind) (d : Option Dir) : Key → List Key
  | .vec k o w => match k with
      | .bv => [.q qk d (.vec .bv o w), .q qk d (.root .bitvector)]
      | .uns => [.q qk d (.vec .uns o w), .anon qk d .uns o w] ++ chainA qk d .uns w
      | .sgn => [.q qk d (.vec .sgn o w), .anon qk d .sgn o w] ++ chainA qk d .sgn w
  | .root r => match r with
      | .unsigned => [.q qk d (.root .unsigned), .q qk d (.root .bitvector)]
      | .signed => [.q qk d (.root .signed), .q qk d (.root .bitvector)]
      | r => [.q qk d (.root r)]
  | t => [.q qk d t]

/-- closed form of the method resolution order -/
def mroK : Key → List Key
  | .root r => rootMro r
  | .vec k o w => match k with
      | .bv => .vec .bv o w :: .root .bitvector :: primTail
      | .uns => .vec .uns o w :: .root .unsigned :: .vec .bv .downto w :: .root .bitvector :: primTail
      | .sgn => .vec .sgn o w :: .root .signed :: .vec .bv .downto w :: .root .bitvector :: primTail
  | .arr e n => .arr e n :: .root .array :: primTail
  | .q qk d t => match qk with
      | .port => qChain .port d t ++ [.root .port] ++ qChain .signal none t ++ [.root .signal] ++ tqTail
      | qk => qChain qk d t ++ [.root (qroot qk)] ++ tqTail
  | .anon qk d k o w => match qk with
      | .port => .anon .port d k o w :: chainA .port d k w ++ [.root .port] ++ chainA .signal none k w ++ [.root .signal] ++ tqTail
      | qk => .anon qk d k o w :: chainA qk d k w ++ [.root (qroot qk)] ++ tqTail

def idxT (st : St) (k : Key) : Nat := (find st k).getD 0

def keyLists (k : Key) : List (List Key) := (baseKeys k).map mroK ++ [baseKeys k]
def fuelOf (k : Key) : Nat := ((keyLists k).map List.length).sum + 1


macro "c3simp" : tactic => `(tactic|
  simp [fuelOf, keyLists, baseKeys, rootBases, qParent, mroK, qChain, chainA, kroot, qroot, tqTail, primTail, rootMro,
    c3merge, pickHead, inTail, dropHead])

set_option linter.unusedSimpArgs false

set_option maxHeartbeats 4000000 in
theorem mroK_c3_q (qk : QKind) (d : Option Dir) (t : Key) :
    c3merge (fuelOf (.q qk d t)) (keyLists (.q qk d t)) = some (mroK (.q qk d t)).tail := by
  cases qk <;>
    (cases t with
      | root r => cases r <;> c3simp
      | vec k o w => cases k <;> c3simp
      | arr e n => c3simp
      | q a b c => c3simp
      | anon a b c d e => c3simp)

set_option maxHeartbeats 4000000 in
theorem mroK_c3 (k : Key) (hg : goodKey k = true) : c3merge (fuelOf k) (keyLists k) = some (mroK k).tail := by
  cases k with
  | root r => cases r <;> c3simp
  | vec k o w => cases k <;> c3simp
  | arr e n => c3simp
  | anon qk d k o w => cases qk <;> cases k <;> first | (simp [goodKey] at hg; done) | c3simp
  | q qk d t => exact mroK_c3_q qk d t

theorem mroK_head (k : Key) : (mroK k).head? = some k := by
  cases k with
  | root r => cases r <;> simp [mroK, rootMro, tqTail]
  | vec k o w => cases k <;> simp [mroK]
  | arr e n => simp [mroK]
  | anon qk d k o w => cases qk <;> simp [mroK]
  | q qk d t =>
    cases qk <;>
      (cases t with
        | root r => cases r <;> simp [mroK, qChain]
        | vec k o w => cases k <;> simp [mroK, qChain]
        | arr e n => simp [mroK, qChain]
        | q a b c => simp [mroK, qChain]
        | anon a b c d e => simp [mroK, qChain])

/-! ### the table -/

theorem mroTable_snoc (st : St) (c : Cls) : mroTable (st ++ [c]) = mroTable st ++ [mroEntry (mroTable st) c] := by
  simp [mroTable, List.foldl_append]

theorem mroTable_length : ∀ st : St, (mroTable st).length = st.length := by
  intro st
  induction st using List.reverseRecOn with
  | nil => rfl
  | append_singleton st c ih => simp [mroTable_snoc, ih]

theorem find_append_lt : ∀ (st e : St) (k : Key) (j : Nat), find (st ++ e) k = some j → j < st.length → find st k = some j := by
  intro st e k j h hj
  cases hf : find st k with
  | some j' => rw [find_append_some st e k j' hf] at h; exact h
  | none =>
    exfalso
    have hk := (find_none_iff st k).mp hf
    obtain ⟨c, hc, hck⟩ := find_key _ k j h
    rw [List.getElem?_append_left hj] at hc
    exact hk (List.mem_map.mpr ⟨c, List.mem_of_getElem? hc, hck⟩)

theorem inv_prefix (st : St) (c : Cls) (h : Inv (st ++ [c])) : Inv st := by
  refine ⟨?_, ?_, ?_, ?_⟩
  · have := h.nodup
    simp only [List.map_append, List.nodup_append] at this
    exact this.1
  · intro c' hc'
    obtain ⟨i, hi, hget⟩ := List.getElem_of_mem hc'
    have hget' : (st ++ [c])[i]? = some c' := by
      rw [List.getElem?_append_left hi]; exact List.getElem?_eq_some_iff.mpr ⟨hi, hget⟩
    have hb := h.bases c' (by simp [hc'])
    rw [← hb]
    apply List.map_congr_left
    intro b hbm
    have : find (st ++ [c]) b ∈ c'.bases.map some := hb ▸ List.mem_map.mpr ⟨b, hbm, rfl⟩
    obtain ⟨j, hj, hfj⟩ := List.mem_map.mp this
    have hlt := h.ordered i c' hget' j hj
    rw [← hfj]
    exact find_append_lt st [c] b j hfj.symm (by omega)
  · intro i c' hc' j hj
    have hi : i < st.length := (List.getElem?_eq_some_iff.mp hc').1
    exact h.ordered i c' (by rw [List.getElem?_append_left hi]; exact hc') j hj
  · intro c' hc'; exact h.good c' (by simp [hc'])

theorem map_some_eq (l : List Key) (m : List Nat) (st : St) (h : m.map some = l.map (find st)) : m = l.map (idxT st) := by
  induction l generalizing m with
  | nil => simpa using h
  | cons x xs ih =>
    cases m with
    | nil => simp at h
    | cons y ys =>
      simp only [List.map_cons, List.cons.injEq] at h ⊢
      exact ⟨by simp [idxT, ← h.1], ih ys h.2⟩

theorem idxT_injOn (st : St) : InjOn (idxT st) (fun k => (find st k).isSome = true) := by
  intro a b ha hb he
  cases hfa : find st a with
  | none => simp [hfa] at ha
  | some i =>
    cases hfb : find st b with
    | none => simp [hfb] at hb
    | some j =>
      simp only [idxT, hfa, hfb, Option.getD_some] at he
      subst he
      exact find_inj st a b i hfa hfb

/-- the MRO of every class of a well-formed table exists and is the closed form `mroK` of its parameter tuple -/
theorem mroTable_spec : ∀ (st : St), Inv st → ∀ (i : Nat) (c : Cls), st[i]? = some c →
    ∃ m, (mroTable st)[i]? = some (some m) ∧ m.map some = (mroK c.key).map (find st) := by
  intro st
  induction st using List.reverseRecOn with
  | nil => intro _ i c h; simp at h
  | append_singleton st c ih =>
    intro hI i c' hc'
    have hIp := inv_prefix st c hI
    have ih' := ih hIp
    by_cases hi : i < st.length
    · rw [List.getElem?_append_left hi] at hc'
      obtain ⟨m, hm, hmk⟩ := ih' i c' hc'
      refine ⟨m, ?_, ?_⟩
      · rw [mroTable_snoc, List.getElem?_append_left (by rw [mroTable_length]; exact hi)]; exact hm
      · exact (map_find_append st [c] _ m hmk.symm).symm
    · have hlen : i = st.length := by
        have := (List.getElem?_eq_some_iff.mp hc').1
        simp at this; omega
      subst hlen
      simp at hc'; subst hc'
      -- the bases, found in the prefix
      have hb := hI.bases c (by simp)
      have hbst : (baseKeys c.key).map (find st) = c.bases.map some := by
        rw [← hb]
        apply List.map_congr_left
        intro b hbm
        have : find (st ++ [c]) b ∈ c.bases.map some := hb ▸ List.mem_map.mpr ⟨b, hbm, rfl⟩
        obtain ⟨j, hj, hfj⟩ := List.mem_map.mp this
        have hlt := hI.ordered st.length c (by simp) j hj
        rw [← hfj]
        exact (find_append_lt st [c] b j hfj.symm hlt).symm ▸ rfl
      have hbases : c.bases = (baseKeys c.key).map (idxT st) := map_some_eq _ _ st hbst.symm
      -- MROs of the bases
      have hlook : ∀ b ∈ baseKeys c.key,
          lookupMro (mroTable st) (idxT st b) = some ((mroK b).map (idxT st)) ∧
          ∀ x ∈ mroK b, (find st x).isSome = true := by
        intro b hbm
        have : find st b ∈ c.bases.map some := hbst ▸ List.mem_map.mpr ⟨b, hbm, rfl⟩
        obtain ⟨j, _, hfj⟩ := List.mem_map.mp this
        obtain ⟨cb, hcb, hkb⟩ := find_key st b j hfj.symm
        obtain ⟨m, hm, hmk⟩ := ih' j cb hcb
        have hidx : idxT st b = j := by simp [idxT, ← hfj]
        rw [hkb] at hmk
        refine ⟨by simp only [lookupMro, hidx, hm]; rw [map_some_eq _ m st hmk], ?_⟩
        intro x hx
        have : find st x ∈ m.map some := hmk ▸ List.mem_map.mpr ⟨x, hx, rfl⟩
        obtain ⟨y, _, hy⟩ := List.mem_map.mp this
        simp [← hy]
      have hfound : ∀ b ∈ baseKeys c.key, (find st b).isSome = true := by
        intro b hbm
        have : find st b ∈ c.bases.map some := hbst ▸ List.mem_map.mpr ⟨b, hbm, rfl⟩
        obtain ⟨j, _, hfj⟩ := List.mem_map.mp this
        simp [← hfj]
      have hms : c.bases.map (lookupMro (mroTable st))
          = (baseKeys c.key).map (fun b => some ((mroK b).map (idxT st))) := by
        rw [hbases, List.map_map]
        apply List.map_congr_left
        intro b hbm
        exact (hlook b hbm).1
      have hlists : ((baseKeys c.key).map (fun b => some ((mroK b).map (idxT st)))).filterMap id ++ [c.bases]
          = (keyLists c.key).map (List.map (idxT st)) := by
        simp only [keyLists, List.map_append, List.map_map, List.map_cons, List.map_nil, hbases, List.filterMap_map]
        congr 1
        induction baseKeys c.key with
        | nil => rfl
        | cons x xs ihx => simp [List.filterMap_cons, ihx]
      have hfuel : (((keyLists c.key).map (List.map (idxT st))).map List.length).sum + 1 = fuelOf c.key := by
        simp [fuelOf, List.map_map, Function.comp_def]
      have hS : ∀ l ∈ keyLists c.key, ∀ y ∈ l, (find st y).isSome = true := by
        intro l hl y hy
        simp only [keyLists, List.mem_append, List.mem_map, List.mem_singleton] at hl
        rcases hl with ⟨b, hbm, rfl⟩ | rfl
        · exact (hlook b hbm).2 y hy
        · exact hfound y hy
      have hc3 := c3merge_map (idxT st) _ (idxT_injOn st) (fuelOf c.key) (keyLists c.key) hS
      rw [mroK_c3 c.key (hI.good c (by simp))] at hc3
      have hall : ((baseKeys c.key).map (fun b => some ((mroK b).map (idxT st)))).all Option.isSome = true := by
        simp [List.all_map]
      have hentry : mroEntry (mroTable st) c = some (st.length :: (mroK c.key).tail.map (idxT st)) := by
        simp only [mroEntry, hms, hall, if_true, hlists, hfuel, hc3, Option.map_some, mroTable_length]
      -- the new class itself
      have hnotin : c.key ∉ st.map (·.key) := by
        have := hI.nodup
        simp only [List.map_append, List.map_cons, List.map_nil, List.nodup_append] at this
        intro hm
        exact this.2.2 _ hm _ (by simp) rfl
      have hfk : find (st ++ [c]) c.key = some st.length := by
        rw [find_append_none st c c.key ((find_none_iff st c.key).mpr hnotin)]; simp
      obtain ⟨tl, htl⟩ : ∃ tl, mroK c.key = c.key :: tl := by
        have := mroK_head c.key
        cases hm : mroK c.key with
        | nil => simp [hm] at this
        | cons a tl => simp [hm] at this; subst this; exact ⟨tl, rfl⟩
      have htail : ∀ x ∈ tl, (find st x).isSome = true := by
        intro x hx
        have hmem : x ∈ (mroK c.key).tail := by simp [htl, hx]
        -- elements of the merge result come from the input lists
        have hres := mroK_c3 c.key (hI.good c (by simp))
        obtain ⟨l, hl, hy⟩ := c3merge_sub (fuelOf c.key) (keyLists c.key) _ hres x hmem
        exact hS l hl x hy
      refine ⟨st.length :: (mroK c.key).tail.map (idxT st), ?_, ?_⟩
      · rw [mroTable_snoc, List.getElem?_append_right (by rw [mroTable_length]; omega)]
        simp [mroTable_length, hentry]
      · simp only [htl, List.tail_cons, List.map_cons, hfk, List.cons.injEq, true_and, List.map_map]
        apply List.map_congr_left
        intro x hx
        cases hfx : find st x with
        | none => have := htail x hx; simp [hfx] at this
        | some j => simp [idxT, hfx, find_append_some st [c] x j hfx]

end CohdlVerif.C13
