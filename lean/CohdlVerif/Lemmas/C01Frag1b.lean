import CohdlVerif.Lemmas.C01Frag1

/-! C01 - fragment 1: the plain-statement lemma (a branch without transitions only appends pure code) -/
namespace CohdlVerif.C01

section
variable {σ : Type} (act : Nat → σ → σ) (cond : Nat → σ → Bool)
variable (Hf : Nat → Blk) (E : Nat → σ → σ × Option Nat) (Rf : Nat → Nat) (Sf : List Nat)

/-- induction hypothesis of the plain-statement lemma -/
def PlainIH (t : Stmt) : Prop :=
  ∀ (x : Nat) (s : CSt) (P' : Nat → Prop), Inv s [x] → NoTr x (compile t [x] s).1 →
    Fut Hf Rf Sf (compile t [x] s).2 P' →
    (∀ y, P' y → y < (compile t [x] s).2.next → (y = x ∨ s.next ≤ y) → y = x) →
    PlainRes act cond E t x s (compile t [x] s).2

/-- a closed plain block: its semantics is its pure effect -/
theorem plain_closed (hE : ∀ b s, E b s = execB act cond E (Hf b) s) (t : Stmt) (y : Nat) (s s' : CSt)
    (hp : PlainRes act cond E t y s s') (hi : (s.heap y).items = []) (hf : (s.heap y).front = [])
    (hc : Hf y = s'.heap y) :
    ∃ eff : σ → σ, (∀ σ0, E y σ0 = (eff σ0, none)) ∧
      ∀ st σ0, RunTo act cond t st s.atStart σ0 .skip st s'.atStart (eff σ0) := by
  obtain ⟨hfr, added, eff, h1, h2, h3⟩ := hp
  refine ⟨eff, ?_, h3⟩
  intro σ0
  rw [hE, hc, execB, h1, hi, List.nil_append, h2, hfr, hf]
  rfl

theorem plain_ite (hE : ∀ b s, E b s = execB act cond E (Hf b) s) (c : Nat) (t1 e1 k : Stmt)
    (h1 : frag1 t1 = true) (h2 : frag1 e1 = true) (h3 : frag1 k = true)
    (iht : PlainIH act cond Hf E Rf Sf t1) (ihe : PlainIH act cond Hf E Rf Sf e1)
    (ihk : PlainIH act cond Hf E Rf Sf k) : PlainIH act cond Hf E Rf Sf (.ite c t1 e1 k) := by
  intro x s P' hi hn hF hP'
  rw [compile_ite_single c t1 e1 k (frag1_retAlways t1 h1)] at hn hF hP' ⊢
  have hx : x < s.next := hi.hlt.1 x (by simp)
  have h0 : 0 < s.next := hi.hlt.2
  have hsx : s.atStart = true → x = 0 := fun h => by simpa using hi.start h
  -- the states
  have T1 := itePre_step c x s hx
  have hA3 := itePre_atStart c x s hx h0 hsx
  have hl3 := T1.hlt ⟨by simpa using hx, h0⟩
  have hi3 : Inv (itePre c x s) [s.next] := Inv.single (hl3.1 _ (by simp)) hl3.2 hA3 (itePre_child_front c x s)
  have Tt := frag1_step t1 h1 _ _ hi3
  generalize hs4 : (compile t1 [s.next] (itePre c x s)).2 = s4 at *
  generalize hot : (compile t1 [s.next] (itePre c x s)).1 = ot at *
  have hn3 : (itePre c x s).next = s.next + 2 := rfl
  have hl4 := Tt.hlt hi3.hlt
  have hA4 := Tt.atStart_false hl3.2 hA3
  have hn4 := Tt.next_le
  have hfe : (s4.heap (s.next + 1)).front = [] := by
    rw [Tt.frame (s.next + 1) (by omega) (by simp)]; exact itePre_child2_front c x s
  have hi4 : Inv s4 [s.next + 1] := Inv.single (by omega) hl4.2 hA4 hfe
  have Te := frag1_step e1 h2 _ _ hi4
  generalize hs5 : (compile e1 [s.next + 1] s4).2 = s5 at *
  generalize hoe : (compile e1 [s.next + 1] s4).1 = oe at *
  have hl5 := Te.hlt hi4.hlt
  have hA5 := Te.atStart_false hl4.2 hA4
  have hn5 := Te.next_le
  -- which branch of the merge
  have hxot : x ∉ ot := fun h => by
    rcases (Tt.open_r x h).1 with h | h
    · simp at h; omega
    · omega
  have hxoe : x ∉ oe := fun h => by
    rcases (Te.open_r x h).1 with h | h
    · simp at h; omega
    · omega
  have hlacc : Hlt s5 (mergeAcc [] x s.next (s.next + 1) ot oe) := by
    refine ⟨?_, hl5.2⟩
    intro o ho
    rcases mem_mergeAcc ho with h | h | h | h | h | h
    · simp at h
    · omega
    · omega
    · omega
    · have := (Tt.hlt hi3.hlt).1 o h; omega
    · exact hl5.1 o h
  have Tk := frag1_step' k h3 _ s5 hlacc (fun h => by rw [hA5] at h; cases h)
  have hxacc : x ∈ mergeAcc [] x s.next (s.next + 1) ot oe := by
    rcases NoTr.range Tk hn with h | h
    · exact h
    · omega
  obtain ⟨hat, hae, hacc⟩ := mergeAcc_parent x s.next (s.next + 1) ot oe (by omega) (by omega) hxot hxoe hxacc
  rw [hacc] at hn hF hP' Tk ⊢
  have hn6 := Tk.next_le
  -- futures of the intermediate states
  have F5 : Fut Hf Rf Sf s5 (fun y => y = x ∨ P' y) :=
    Fut.back Tk (by simp) (fun y hy => Or.inl (Or.inr hy)) hF
  have F4 : Fut Hf Rf Sf s4 (fun y => y = s.next + 1 ∨ (y = x ∨ P' y)) := by
    have := Fut.back Te (P := fun y => y = s.next + 1 ∨ (y = x ∨ P' y)) (by simp) (fun y hy => Or.inl (Or.inr hy)) F5
    exact this
  -- the three plain results
  have Pt := iht s.next (itePre c x s) _ hi3 (by rw [hot]; exact (anyTrans_false_iff _ _).mp hat)
    (by rw [hs4]; exact F4) (by
      rw [hs4]
      intro y hy hlt hr
      rcases hy with hy | hy | hy
      · omega
      · omega
      · have := hP' y hy (by omega) (Or.inr (by omega)); omega)
  rw [hs4] at Pt
  have Pe := ihe (s.next + 1) s4 _ hi4 (by rw [hoe]; exact (anyTrans_false_iff _ _).mp hae)
    (by rw [hs5]; exact F5) (by
      rw [hs5]
      intro y hy hlt hr
      rcases hy with hy | hy
      · omega
      · have := hP' y hy (by omega) (Or.inr (by omega)); omega)
  rw [hs5] at Pe
  have hfx5 : (s5.heap x).front = (s.heap x).front := by
    rw [Te.frame x (by omega) (by simp; omega), Tt.frame x (by omega) (by simp; omega), itePre_front_parent c x s hx]
  have hi5 : Inv s5 [x] := Inv.single (by omega) hl5.2 hA5 (by rw [hfx5]; exact hi.front x (by simp))
  have Pk := ihk x s5 P' hi5 hn hF (fun y hy hlt hr => hP' y hy hlt (hr.imp id (fun h => by omega)))
  -- closed branch blocks
  have hct : Hf s.next = s4.heap s.next := F4.closed _ (by omega) (by
    intro h; rcases h with h | h | h
    · omega
    · omega
    · have := hP' _ h (by omega) (Or.inr (Nat.le_refl _)); omega)
  have hce : Hf (s.next + 1) = s5.heap (s.next + 1) := F5.closed _ (by omega) (by
    intro h; rcases h with h | h
    · omega
    · have := hP' _ h (by omega) (Or.inr (by omega)); omega)
  obtain ⟨efft, hEt, hRt⟩ := plain_closed act cond Hf E hE t1 s.next _ s4 Pt (itePre_child_items c x s hx)
    (itePre_child_front c x s) hct
  obtain ⟨effe, hEe, hRe⟩ := plain_closed act cond Hf E hE e1 (s.next + 1) s4 s5 Pe
    (by rw [Tt.frame (s.next + 1) (by omega) (by simp)]; exact itePre_child2_items c x s hx) hfe hce
  obtain ⟨hfk, addk, effk, hk1, hk2, hk3⟩ := Pk
  have hix5 : (s5.heap x).items = (s.heap x).items ++ [.ite c s.next (s.next + 1)] := by
    rw [Te.frame x (by omega) (by simp; omega), Tt.frame x (by omega) (by simp; omega), itePre_items c x s hx]
  refine ⟨by rw [hfk, hfx5], .ite c s.next (s.next + 1) :: addk,
    fun σ0 => effk (if cond c σ0 then efft σ0 else effe σ0), ?_, ?_, ?_⟩
  · rw [hk1, hix5]; simp
  · intro σ0
    simp only [execI]
    cases hc : cond c σ0 <;> simp [hEt, hEe, hk2]
  · intro st σ0
    rw [hA3] at hRt
    rw [hA4] at hRt hRe
    rw [hA5] at hRe hk3
    cases hc : cond c σ0
    · simp only [hc, Bool.false_eq_true, if_false]
      exact (RunTo.ite_false act cond c t1 e1 k st _ σ0 hc).trans act cond
        ((hRe (.seq k :: st) σ0).trans act cond
          ((RunTo.skip_seq act cond k st false _).trans act cond (hk3 st _)))
    · simp only [hc, if_true]
      exact (RunTo.ite_true act cond c t1 e1 k st _ σ0 hc).trans act cond
        ((hRt (.seq k :: st) σ0).trans act cond
          ((RunTo.skip_seq act cond k st false _).trans act cond (hk3 st _)))

theorem compile_act_single (a : Nat) (k : Stmt) (x : Nat) (s : CSt) :
    compile (.act a k) [x] s = compile k [x] (s.append x (.act a)) := rfl

/-- a loop is never plain -/
theorem plain_while (cc : Option Nat) (b k : Stmt) (hb : frag1 b = true) (hk : frag1 k = true) (x : Nat) (s : CSt)
    (hi : Inv s [x]) (hn : NoTr x (compile (.while_ cc b k) [x] s).1) : False := by
  have hx : x < s.next := hi.hlt.1 x (by simp)
  obtain ⟨W, hA⟩ := wS4_frag_step cc b hb [x] s hi.hlt hi.start
  have hlw := W.hlt hi.hlt
  have hn4 := W.next_le
  cases cc with
  | none =>
    rw [compile_while_frag_none b k hb] at hn
    have X := (HeapExt.append (wS4 b [x] s) [wHb [x] s] (wHb [x] s) (by simp) (.sub (wBody [x] s))).step hlw.1
    have Tk := frag1_step' k hk [] _ ⟨by simp, (X.hlt hlw).2⟩
      (fun h' => by rw [X.atStart_false hlw.2 hA] at h'; cases h')
    rcases NoTr.range Tk hn with h | h
    · simp at h
    · have := X.next_le; omega
  | some c' =>
    rw [compile_while_frag_some c' b k hb] at hn
    have N := Step.newBlock (wS4 b [x] s) [wHb [x] s] hlw.1 (some (wHb [x] s)) (by simp)
    have hln := N.hlt hlw
    have X := (HeapExt.append ((wS4 b [x] s).newBlock (some (wHb [x] s))).2 [(wS4 b [x] s).next, wHb [x] s] (wHb [x] s)
      (by simp) (.ite c' (wBody [x] s) (wS4 b [x] s).next)).step hln.1
    have hlx := X.hlt hln
    have Tk := frag1_step' k hk [(wS4 b [x] s).next] _ ⟨fun o ho => hlx.1 o (by simp at ho; simp [ho]), hlx.2⟩
      (fun h' => by rw [X.atStart_false hln.2 (N.atStart_false hlw.2 hA)] at h'; cases h')
    rcases NoTr.range Tk hn with h | h
    · simp at h; omega
    · have := X.next_le; have := N.next_le; omega

/-- a statement of fragment 1 that is translated without transition only appends pure code to its block -/
theorem plain1 (hE : ∀ b s, E b s = execB act cond E (Hf b) s) :
    ∀ (t : Stmt), frag1 t = true → PlainIH act cond Hf E Rf Sf t := by
  intro t
  induction t with
  | skip => intro _ x s P' _ _ _ _; exact plain_skip act cond E x s
  | act a k ih =>
    intro h x s P' hi hn hF hP'
    rw [compile_act_single] at hn hF hP' ⊢
    exact plain_act act cond E a k x s _ (fun h' => by simpa using hi.start h')
      (ih (by simpa [frag1] using h) x _ P' (hi.single_append _) hn hF hP')
  | await cc k ih =>
    intro h x s P' hi hn hF hP'
    have hk : frag1 k = true := by simpa [frag1] using h
    obtain ⟨rfl, hst, rfl, e⟩ := plain_await cc k hk x s hi hn
    rw [e] at hn hF hP' ⊢
    obtain ⟨hf, added, eff, h1, h2, h3⟩ := ih hk 0 s P' hi hn hF hP'
    refine ⟨hf, added, eff, h1, h2, ?_⟩
    intro st σ0
    have := h3 st σ0
    rw [hst] at this ⊢
    exact (RunTo.await_fresh_none act cond k st σ0).trans act cond this
  | awaitF =>
    intro _ x s P' _ hn _ _
    exfalso
    simp only [compile, List.isEmpty_cons, Bool.false_eq_true, if_false] at hn
    exact hn.1 rfl
  | ite c t e k iht ihe ihk =>
    intro h
    simp only [frag1, Bool.and_eq_true] at h
    exact plain_ite act cond Hf E Rf Sf hE c t e k h.1.1 h.1.2 h.2 (iht h.1.1) (ihe h.1.2) (ihk h.2)
  | while_ cc b k _ _ =>
    intro h x s P' hi hn _ _
    simp only [frag1, Bool.and_eq_true] at h
    exact (plain_while cc b k h.1 h.2 x s hi hn).elim
  | brk => intro h; simp [frag1] at h
  | cont => intro h; simp [frag1] at h
  | ret => intro h; simp [frag1] at h
  | call b k _ _ => intro h; simp [frag1] at h

end
end CohdlVerif.C01
