import CohdlVerif.Lemmas.C01Top2

/-! C01 - `finish`: from the exported machine back to the block heap -/
namespace CohdlVerif.C01

theorem mapM_some {α β : Type} (f : α → Option β) : ∀ (l : List α) (r : List β), l.mapM f = some r →
    r.length = l.length ∧ ∀ i (h : i < l.length), f l[i] = r[i]? := by
  intro l
  induction l with
  | nil => intro r h; simp at h; subst h; simp
  | cons a as ih =>
    intro r h
    simp only [List.mapM_cons, Option.bind_eq_bind, Option.pure_def, Option.bind_eq_some_iff, Option.some.injEq] at h
    obtain ⟨b, hb, bs, hbs, rfl⟩ := h
    obtain ⟨h1, h2⟩ := ih bs hbs
    refine ⟨by simp [h1], ?_⟩
    intro i hi
    cases i with
    | zero => simpa using hb
    | succ j => simpa using h2 j (by simpa using hi)

theorem addfrontAll_items (t x : Nat) : ∀ (bs : List Nat) (s : CSt),
    ((s.addfrontAll bs t).heap x).items = (s.heap x).items := by
  intro bs
  induction bs with
  | nil => intro s; rfl
  | cons b bs ih =>
    intro s
    simp only [CSt.addfrontAll, List.foldl_cons] at ih ⊢
    rw [ih]
    by_cases h : x = b <;> simp [CSt.addfront, h]

theorem TOK.init : TOK CSt.init := ⟨by simp [CSt.init], by simp [CSt.init]⟩

/-- the facts about the final heap of a fragment-1 program -/
theorem final_ctx (p : Stmt) (hp : frag1 p = true) :
    (∀ x, (((compileSt p).2.addfrontAll (compileSt p).1 0).heap x).items = ((compileSt p).2.heap x).items) ∧
    (∀ x, x ∉ (compileSt p).1 → ((compileSt p).2.addfrontAll (compileSt p).1 0).heap x = (compileSt p).2.heap x) ∧
    (∀ o ∈ (compileSt p).1, lastT (((compileSt p).2.addfrontAll (compileSt p).1 0).heap o).front = some 0) ∧
    (∀ x, (compileSt p).2.next ≤ x → ((compileSt p).2.addfrontAll (compileSt p).1 0).heap x = {}) ∧
    TOK ((compileSt p).2.addfrontAll (compileSt p).1 0) ∧ SInv (compileSt p).2 ∧ 0 < (compileSt p).2.next := by
  have T : Step CSt.init [0] (compileSt p).2 (compileSt p).1 := frag1_step p hp [0] CSt.init Inv.init
  have hl := T.hlt Inv.init.hlt
  have hnf : (compileSt p).1.Nodup ∧ ∀ o' ∈ (compileSt p).1, ((compileSt p).2.heap o').front = [] :=
    fwd1 p hp [0] CSt.init Inv.init
  obtain ⟨hn, hf⟩ := hnf
  have hsi := SInv.init.step T (by simp [CSt.init])
  have hfresh := T.fresh (fun x _ => rfl)
  have htok := T.tgt TOK.init
  have hx := HeapExt.addfrontAll (compileSt p).1 0 (compileSt p).1 (compileSt p).2 (fun _ h => h) (fun h => h)
  refine ⟨fun x => addfrontAll_items 0 x _ _, fun x hx' => addfrontAll_heap_notin 0 x _ _ hx', ?_, ?_, hx.tgt htok, hsi, hl.2⟩
  · intro o ho
    rw [addfrontAll_heap_nodup 0 o _ _ hn ho]
    simp only [hf o ho]; rfl
  · intro x hx'
    rw [addfrontAll_heap_notin 0 x _ _ (fun hm => by have := hl.1 x hm; omega)]
    exact hfresh x hx'

end CohdlVerif.C01
