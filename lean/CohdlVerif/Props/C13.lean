import CohdlVerif.Lemmas.C13Hist
import CohdlVerif.Lemmas.C13Views
import CohdlVerif.Lemmas.C13Session
import CohdlVerif.Lemmas.C13Mro
import CohdlVerif.Lemmas.C13MroAgree
import Mathlib.Tactic.Tauto
/-!
  C13 - property theorems.  Part A: for EVERY history of requests (any order, repeated, interleaved, rejected
  ones in between) the lazily built class table is canonical and carries exactly the documented lattice.
  Part B: every view derived from a root by slices / indices / casts / iteration aliases exactly the cells
  its ref-spec denotes, keeps root and qualifier, and nested ref-specs compose to absolute positions.
  Helper lemmas: Lemmas/C13Types.lean, Lemmas/C13Hist.lean, Lemmas/C13Views.lean.
-/
open CohdlVerif.C13

/-! ## Part A -/

/-- CANONICAL.  In every history two requests (anywhere, in any order, with anything in between) return the same
    class object iff they have the same parameters. -/
theorem C13.canonical (h : List Key) (n m : Nat) (k1 k2 : Key) (i j : Nat)
    (hn : h[n]? = some k1) (hm : h[m]? = some k2)
    (rn : (runHist initSt h).2[n]? = some (some i)) (rm : (runHist initSt h).2[m]? = some (some j)) :
    i = j ↔ k1 = k2 := by
  obtain ⟨_, _, hf⟩ := hist_final h
  have h1 := hf n k1 i hn rn
  have h2 := hf m k2 j hm rm
  constructor
  · intro e; subst e; exact find_inj _ k1 k2 i h1 h2
  · intro e; subst e; rw [h1] at h2; simpa using h2

example : (runHist initSt [.q .port (some .input) (.vec .uns .downto 3), .vec .uns .upto 8,
    .q .port (some .input) (.vec .uns .downto 3)]).2 = [some 26, some 28, some 26] := by decide

/-- `issubclass` between any two requested classes of any history is decided by the parameter tuples alone:
    it is membership in the key level closure of `baseKeys`, whatever was created before, between or after. -/
theorem C13.issubclass_history_independent (h : List Key) (n m : Nat) (k1 k2 : Key) (i j : Nat)
    (hn : h[n]? = some k1) (hm : h[m]? = some k2)
    (rn : (runHist initSt h).2[n]? = some (some i)) (rm : (runHist initSt h).2[m]? = some (some j)) :
    issub (runHist initSt h).1 i j = true ↔ k2 ∈ anc (rank k1) k1 := by
  obtain ⟨hI, hlen, hf⟩ := hist_final h
  exact issub_iff _ hI hlen k1 k2 i j (hf n k1 i hn rn) (hf m k2 j hm rm)

/-- LATTICE.  `Q[K[o,w]]` is a subclass of `Q[BitVector[w]]`, `Q[K]` and `Q[BitVector]` (same qualifier kind and
    direction), for every vector kind, width, order, qualifier and every history. -/
theorem C13.lattice (h : List Key) (n m : Nat) (i j : Nat) (qk : QKind) (d : Option Dir) (k : VKind) (o : Order)
    (w : Nat) (tgt : Key)
    (htgt : tgt = .q qk d (.vec .bv .downto w) ∧ k ≠ .bv ∨ tgt = .q qk d (.root (kroot k)) ∨ tgt = .q qk d (.root .bitvector))
    (hn : h[n]? = some (.q qk d (.vec k o w))) (hm : h[m]? = some tgt)
    (rn : (runHist initSt h).2[n]? = some (some i)) (rm : (runHist initSt h).2[m]? = some (some j)) :
    issub (runHist initSt h).1 i j = true := by
  rw [C13.issubclass_history_independent h n m _ _ i j hn hm rn rm]
  rcases htgt with ⟨rfl, hk⟩ | rfl | rfl
  · cases qk <;> cases k <;> simp [rank, anc, baseKeys, qParent, kroot, qroot, rootBases] at hk ⊢
  · cases qk <;> cases k <;> simp [rank, anc, baseKeys, qParent, kroot, qroot, rootBases]
  · cases qk <;> cases k <;> simp [rank, anc, baseKeys, qParent, kroot, qroot, rootBases]

/-- every port type is a signal type of the same wrapped type (any wrapped type, any direction) -/
theorem C13.port_is_signal (h : List Key) (n m : Nat) (i j : Nat) (d : Option Dir) (t : Key)
    (hn : h[n]? = some (.q .port d t)) (hm : h[m]? = some (.q .signal none t))
    (rn : (runHist initSt h).2[n]? = some (some i)) (rm : (runHist initSt h).2[m]? = some (some j)) :
    issub (runHist initSt h).1 i j = true := by
  rw [C13.issubclass_history_independent h n m _ _ i j hn hm rn rm]
  exact base_mem_anc _ _ (by simp [baseKeys])

example : (let r := runHist initSt [.q .signal none (.vec .bv .downto 3), .q .port (some .output) (.vec .sgn .upto 3)]
    match r.2 with
    | [some a, some b] => issub r.1 b a && !issub r.1 a b
    | _ => false) = true := by decide

set_option maxHeartbeats 1000000 in
/-- NO SPURIOUS SUBCLASS.  Between two qualified vector types `issubclass` holds exactly in the documented
    cases (`qvecLe`): same qualifier (or port -> signal), same width, and same kind and order or the
    `BitVector[w]` of an Unsigned/Signed.  Different widths, kinds, qualifiers or directions are never related,
    in any history. -/
theorem C13.no_spurious_subclass (h : List Key) (n m : Nat) (i j : Nat)
    (q1 : QKind) (d1 : Option Dir) (k1 : VKind) (o1 : Order) (w1 : Nat)
    (q2 : QKind) (d2 : Option Dir) (k2 : VKind) (o2 : Order) (w2 : Nat)
    (hn : h[n]? = some (.q q1 d1 (.vec k1 o1 w1))) (hm : h[m]? = some (.q q2 d2 (.vec k2 o2 w2)))
    (rn : (runHist initSt h).2[n]? = some (some i)) (rm : (runHist initSt h).2[m]? = some (some j)) :
    issub (runHist initSt h).1 i j = true ↔ qvecLe q1 d1 k1 o1 w1 q2 d2 k2 o2 w2 := by
  rw [C13.issubclass_history_independent h n m _ _ i j hn hm rn rm]
  unfold qvecLe
  cases q1 <;> cases k1 <;> cases q2 <;> cases k2 <;>
    simp [rank, anc, baseKeys, qParent, kroot, qroot, rootBases] <;> try tauto

/-- the same for the unqualified vector types -/
theorem C13.no_spurious_subclass_prim (h : List Key) (n m : Nat) (i j : Nat)
    (k1 : VKind) (o1 : Order) (w1 : Nat) (k2 : VKind) (o2 : Order) (w2 : Nat)
    (hn : h[n]? = some (.vec k1 o1 w1)) (hm : h[m]? = some (.vec k2 o2 w2))
    (rn : (runHist initSt h).2[n]? = some (some i)) (rm : (runHist initSt h).2[m]? = some (some j)) :
    issub (runHist initSt h).1 i j = true ↔
      w2 = w1 ∧ ((k2 = k1 ∧ o2 = o1) ∨ (k1 ≠ .bv ∧ k2 = .bv ∧ o2 = .downto)) := by
  rw [C13.issubclass_history_independent h n m _ _ i j hn hm rn rm]
  cases k1 <;> simp [rank, anc, baseKeys, rootBases] <;> tauto

/-- observation (mirrors the code, not claimed by the property text): an UPTO `Unsigned[0:w-1]` derives from the
    DOWNTO `BitVector[w-1:0]`, not from `BitVector[0:w-1]` -/
theorem C13.upto_vector_base_is_downto (w : Nat) :
    Key.vec .bv .downto w ∈ anc (rank (.vec .uns .upto w)) (.vec .uns .upto w) ∧
    Key.vec .bv .upto w ∉ anc (rank (.vec .uns .upto w)) (.vec .uns .upto w) := by
  simp [rank, anc, baseKeys, rootBases]

/-- CREATION NEVER FAILS (lookup / recursion part).  Every legal request of every history returns a class: the
    recursion through the bases terminates within the bound and never hits an inconsistent table.
    (That `type(name, bases, {})` itself cannot fail on an inconsistent MRO is `C13.mro_exists` below.) -/
theorem C13.creation_never_fails (h : List Key) (n : Nat) (k : Key) (hn : h[n]? = some k) (hl : legal k = true) :
    ∃ i, (runHist initSt h).2[n]? = some (some i) :=
  runHist_legal h initSt inv_init init_roots n k hn hl

example : legal (.q .port (some .inout) (.arr (.arr (.vec .sgn .upto 65) 0) 3)) = true := by decide

/-- MRO EXISTS (general).  For EVERY history and EVERY class of the final table - requested classes of every kind, width,
    order, qualifier, direction, array element type / count / nesting, the classes created as their bases, the anonymous
    parents, the import-time roots - the C3 merge of the MROs of its bases never gets stuck (`type.__new__` cannot raise
    "Cannot create a consistent method resolution order"), and the resulting `__mro__` is the closed form `mroK` of the
    class's parameter tuple (each entry = the class of that tuple).  Proof: `mroK_c3` is the C3 certificate on parameter
    tuples for every shape with symbolic parameters, `c3merge_map` transports it along the injective map tuple -> class id,
    `mroTable_spec` is the induction over the table in creation order (bases are created before the class: `Inv.ordered`). -/
theorem C13.mro_exists (h : List Key) (i : Nat) (c : Cls) (hc : (runHist initSt h).1[i]? = some c) :
    ∃ m, (mroTable (runHist initSt h).1)[i]? = some (some m) ∧
      m.map some = (mroK c.key).map (find (runHist initSt h).1) :=
  mroTable_spec _ (hist_final h).1 i c hc

/-- corollary: no entry of the MRO table of any history is a failure -/
theorem C13.mro_never_fails (h : List Key) : (mroTable (runHist initSt h).1).all Option.isSome = true := by
  rw [List.all_eq_true]
  intro x hx
  obtain ⟨i, hi, hget⟩ := List.getElem_of_mem hx
  rw [mroTable_length] at hi
  obtain ⟨m, hm, _⟩ := C13.mro_exists h i _ (List.getElem?_eq_getElem hi)
  have : (mroTable (runHist initSt h).1)[i]? = some x := by
    rw [List.getElem?_eq_getElem (by rw [mroTable_length]; exact hi)]; simp [hget]
  rw [hm] at this
  simp at this; subst this; rfl

/-- Python's `issubclass(A, B)` is `B in A.__mro__`; the lattice theorems above speak about reachability along
    `__bases__` (`issub`).  For every history and any two requested classes the two coincide: membership of `B` in the C3
    linearisation of `A` <-> `issub`. -/
theorem C13.mro_is_issubclass (h : List Key) (n m : Nat) (k1 k2 : Key) (i j : Nat) (mro : List Nat)
    (hn : h[n]? = some k1) (hm : h[m]? = some k2)
    (rn : (runHist initSt h).2[n]? = some (some i)) (rm : (runHist initSt h).2[m]? = some (some j))
    (hmro : (mroTable (runHist initSt h).1)[i]? = some (some mro)) :
    j ∈ mro ↔ issub (runHist initSt h).1 i j = true := by
  obtain ⟨hI, hlen, hf⟩ := hist_final h
  have h1 := hf n k1 i hn rn
  have h2 := hf m k2 j hm rm
  obtain ⟨c, hc, hck⟩ := find_key _ k1 i h1
  obtain ⟨m', hm', hmk⟩ := C13.mro_exists h i c hc
  rw [hmro] at hm'
  simp only [Option.some.injEq] at hm'
  subst hm'
  rw [hck] at hmk
  exact mro_mem_iff_issub _ hI hlen k1 k2 i j mro h1 h2 hmk

example : ((mroTable (runHist initSt [.q .port (some .input) (.vec .uns .upto 3)]).1).getLast?).map (·.map List.length) = some (some 15) := by
  decide +kernel

/-! ## Part B -/

/-- VIEWS ALIAS THE ROOT.  For every view `v` obtained from a root object of width `W` by any chain of
    slices / indices / casts / iteration: its cells are distinct positions inside the root; a write of `vals` through
    the view changes exactly those cells (to `vals`, in order) and nothing else; a read through the view sees the
    root's cells. -/
theorem C13.view_aliases {α : Type} (id : Nat) (q : Qual) (vt : VT) (W : Nat) (hvt : vt ≠ .bit)
    (ops : List Op) (v : View) (hv : applyOps (rootView id q vt W) ops = some v)
    (s vals : List α) (hs : s.length = W) (hl : v.cells.length = vals.length) :
    v.cells.Nodup ∧ (∀ c ∈ v.cells, c < W) ∧
    (write s v.cells vals).length = W ∧
    (∀ i, i ∉ v.cells → (write s v.cells vals)[i]? = s[i]?) ∧
    CohdlVerif.C13.read (write s v.cells vals) v.cells = vals.map some ∧
    CohdlVerif.C13.read s v.cells = v.cells.map (s[·]?) := by
  have hok := applyOps_ok W ops _ v (rootView_ok id q vt W hvt) hv
  obtain ⟨hnd, hlt⟩ := cells_of_ok W v hok
  refine ⟨hnd, hlt, by rw [write_length, hs], fun i hi => write_get_not_mem _ _ _ i hi, ?_, rfl⟩
  apply List.ext_getElem?
  intro j
  simp only [CohdlVerif.C13.read, List.getElem?_map]
  by_cases hj : j < v.cells.length
  · have := write_get_mem v.cells s vals hnd hl (fun c hc => hs ▸ hlt c hc) j hj
    simp only [List.getElem?_eq_getElem hj, Option.map_some, this]
    rw [List.getElem?_eq_getElem (hl ▸ hj)]; rfl
  · have h1 : v.cells[j]? = none := List.getElem?_eq_none (by omega)
    have h2 : vals[j]? = none := List.getElem?_eq_none (by omega)
    simp [h1, h2]

/-- a second view of the same root sees the write exactly on the shared cells -/
theorem C13.view_aliases_other {α : Type} (cells1 cells2 : List Nat) (s vals : List α)
    (hd : ∀ c ∈ cells2, c ∉ cells1) :
    CohdlVerif.C13.read (write s cells1 vals) cells2 = CohdlVerif.C13.read s cells2 := by
  simp only [CohdlVerif.C13.read]
  apply List.map_congr_left
  intro c hc
  exact write_get_not_mem _ _ _ c (hd c hc)

example : (applyOps (rootView 0 .signal .bv 8) [.slice 7 2, .slice 3 1, .unsigned]).map (·.cells) = some [3, 4, 5] := by decide
example : write [0, 0, 0, 0, 0, 0, 0, 0] [3, 4, 5] [1, 2, 3] = [0, 0, 0, 1, 2, 3, 0, 0] := by decide

/-- ROOT AND QUALIFIER ARE KEPT by every chain of view operations. -/
theorem C13.root_and_qualifier_kept (r : View) (ops : List Op) (v : View) (hv : applyOps r ops = some v) :
    v.root = r.root ∧ v.qual = r.qual :=
  applyOps_root_qual ops r v hv

/-- REF-SPECS COMPOSE.  (1) The name the back end prints for a derived view (last ref-spec after
    `Offset/Slice.simplify`) denotes exactly the cells the view aliases, for every chain of operations.
    (2) Associativity: a slice of a slice (at any position of a chain) is the single slice with the offsets added:
    same cells, same printed name. -/
theorem C13.refspec_compose (id : Nat) (q : Qual) (vt : VT) (W : Nat) (hvt : vt ≠ .bit) :
    (∀ (ops : List Op) (v : View), applyOps (rootView id q vt W) ops = some v → resolve W v = v.cells) ∧
    (∀ (ops : List Op) (h1 l1 h2 l2 : Nat) (v : View),
      applyOps (rootView id q vt W) (ops ++ [.slice h1 l1, .slice h2 l2]) = some v →
      ∃ v', applyOps (rootView id q vt W) (ops ++ [.slice (h2 + l1) (l2 + l1)]) = some v' ∧
        v'.cells = v.cells ∧ resolve W v' = resolve W v ∧ v'.vt = v.vt ∧ v'.root = v.root ∧ v'.qual = v.qual) := by
  have hroot := rootView_ok id q vt W hvt
  refine ⟨fun ops v hv => resolve_of_ok W v (applyOps_ok W ops _ v hroot hv), ?_⟩
  intro ops h1 l1 h2 l2 v hv
  rw [applyOps_append] at hv
  cases hu : applyOps (rootView id q vt W) ops with
  | none => simp [hu] at hv
  | some u =>
    have huok := applyOps_ok W ops _ u hroot hu
    have hvorig := hv
    simp only [hu, Option.bind_some, applyOps] at hv
    obtain ⟨v', hr, hcells, hvt', hroot', hqual'⟩ := slice_slice u v h1 l1 h2 l2 hv
    have hok' : RefOK W v' := applyOp_ok W u v' _ huok hr
    have hok : RefOK W v := applyOps_ok W _ _ v hroot (by rw [applyOps_append]; exact hvorig)
    refine ⟨v', ?_, hcells, ?_, hvt', hroot', hqual'⟩
    · rw [applyOps_append, hu]; simp only [Option.bind_some, applyOps, hr]
    · rw [resolve_of_ok W v' hok', resolve_of_ok W v hok, hcells]

example : (applyOps (rootView 0 (.port 1) .uns 8) [.slice 7 2, .slice 3 1, .index 1]).map (resolve 8) = some [4] := by decide

/-- GENUINE DEFECT of the current tree (fixes/C13-iter-nested-slice.patch): `TypeQualifier.__iter__` as it is
    (`iterCurrent`) drops the base offset of a nested slice: the first element of `x[1:1][0:0]` is cell 1 of
    the root, but its ref-spec resolves to cell 0. -/
theorem C13.iter_refspec_fails_at :
    ∃ v e, applyOps (rootView 0 .signal .bv 2) [.slice 1 1, .slice 0 0] = some v ∧ iterCurrent v 0 = some e ∧
      e.cells = [1] ∧ resolve 2 e = [0] := by
  refine ⟨_, _, rfl, rfl, ?_, ?_⟩ <;> decide

/-- SESSIONS.  Views may be created at any time (from the root or from any live view) and writes of any kind
    (explicit bits, bit-serial or snapshot copies from another live view, rejected writes) may go through the root
    or any live view, in any interleaving: after every such history the storage still has the root's width and
    EVERY live view - created before or after any of the writes - is a well-formed view of the same root (same root
    id and qualifier, distinct cells inside the root, printed name = its cells), and what it shows is, cell by cell,
    the current content of the root (`Sess.shown` reads the one storage: there is no second copy that could go stale). -/
theorem C13.session_views_stay_aliases (vt : VT) (bits : List Bool) (hvt : vt ≠ .bit) (steps : List Step) (v : View)
    (hm : some v ∈ (runSess (Sess.init vt bits) steps).views) :
    (runSess (Sess.init vt bits) steps).store.length = bits.length ∧
    v.root = 0 ∧ v.qual = .signal ∧ v.cells.Nodup ∧ (∀ c ∈ v.cells, c < bits.length) ∧
    resolve bits.length v = v.cells ∧
    some (v.cells.map ((runSess (Sess.init vt bits) steps).store.getD · false)) ∈ (runSess (Sess.init vt bits) steps).shown := by
  obtain ⟨hl, hv⟩ := runSess_ok bits.length steps _ (init_ok vt bits hvt)
  obtain ⟨hok, hr, hq⟩ := hv v hm
  obtain ⟨hnd, hlt⟩ := cells_of_ok _ v hok
  refine ⟨hl, hr, hq, hnd, hlt, resolve_of_ok _ v hok, ?_⟩
  simp only [Sess.shown, List.mem_map]
  exact ⟨some v, hm, rfl⟩

example : (runSess (Sess.init .bv [true, true, true, true]) [.view 0 (.slice 2 1), .wr 0 [false, false, false, false],
    .view 0 (.index 2), .wr 1 [true, false], .copySeq 0 0]).shown =
    [some [false, true, false, false], some [true, false], some [false]] := by decide
