/-! C13 - property theorems (declared with their full name `C13.<name>`; helper lemmas go to Lemmas/) -/
