import CohdlVerif.Lemmas.C17Lemmas

/-!
  C17 - property theorems: `std.count_bits` / `std.to_bits` / `std.from_bits[T]` of every type
  composition (Bit, bool, BitVector/Unsigned/Signed, cohdl.Array, std.Array, std.Record incl. nesting,
  std.Enum, SFixed/UFixed, Serialized) are mutually inverse, have the documented layout (first field /
  element 0 in the least significant bits, every field at the sum of the widths declared before it), and
  `std.BitField` reads / writes touch exactly the declared absolute bit range.
  All statements are for EVERY type (any nesting depth) and every value / bit pattern; the proofs are
  structural inductions (Lemmas/C17Lemmas.lean).  Only property theorems live here (full names `C17.*`).
-/
open CohdlVerif.C17

namespace CohdlVerif.C17
/-- a nested example type used by the non-vacuity examples:
    record { Unsigned[3]; cohdl.Array[Signed[2], 2]; Enum[BitVector[2]]; record { Bit; SFixed[3] }; std.Array[bool, 2] } -/
def exTy : STy :=
  .rcd [.uns 3, .arr (.sgn 2) 2, .enum (.bv 2), .rcd [.bit, .sfix 3 (-1)], .sarr .bool 2]
def exVal : SVal :=
  .rcd [.uns 3 5, .arr [.sgn 2 (-2), .sgn 2 1], .enum (.bv [true, true]), .rcd [.bit true, .sfix 3 (-4)],
    .sarr [.bool false, .bool true]]
/-- 3 + 4 + 2 + 4 + 2 = 15 bits -/
def exBits : Bits :=
  [true, false, true, false, true, true, false, true, true, true, false, false, true, false, true]
end CohdlVerif.C17

/-! ## 4. the mirror (offset accumulation, reversed `concat`) is the documented layout -/

theorem C17.mirror_eq_spec_width (T : STy) : countBits T = specWidth T :=
  countBits_eq_specWidth T

/-- `_make_serializable`'s running `elem_start` after the fields `fs`, started at `off` -/
theorem C17.mirror_eq_spec_elem_start (fs : List STy) (off : Nat) :
    countFields fs off = off + specWidths fs :=
  countFields_eq fs off

theorem C17.mirror_eq_spec_toBits (x : SVal) : toBits x = specBits x :=
  toBits_eq_specBits x

/-- unconditional (no width hypothesis needed) -/
theorem C17.mirror_eq_spec_fromBits (T : STy) (b : Bits) : fromBits T b = specVal T b :=
  fromBits_eq_specVal T b

theorem C17.mirror_eq_spec (T : STy) :
    countBits T = specWidth T ∧ (∀ x : SVal, toBits x = specBits x) ∧
      (∀ b : Bits, b.length = countBits T → fromBits T b = specVal T b) :=
  ⟨countBits_eq_specWidth T, toBits_eq_specBits, fun b _ => fromBits_eq_specVal T b⟩

example : exBits.length = countBits exTy := by decide

/-! ## 1.-3. widths and round trips -/

theorem C17.length_toBits (T : STy) (x : SVal) (h : wt T x = true) : (toBits x).length = countBits T := by
  rw [toBits_eq_specBits, countBits_eq_specWidth]; exact length_specBits T x h

example : wt exTy exVal = true := by decide
example : (toBits exVal).length = 15 := C17.length_toBits exTy exVal (by decide)

theorem C17.from_to (T : STy) (x : SVal) (h : wt T x = true) : fromBits T (toBits x) = x := by
  rw [toBits_eq_specBits, fromBits_eq_specVal]; exact specVal_specBits T x h

example : fromBits exTy (toBits exVal) = exVal := C17.from_to exTy exVal (by decide)

theorem C17.to_from (T : STy) (b : Bits) (h : b.length = countBits T) : toBits (fromBits T b) = b := by
  rw [toBits_eq_specBits, fromBits_eq_specVal]
  exact specBits_specVal T b (by rw [h, countBits_eq_specWidth])

example : toBits (fromBits exTy exBits) = exBits := C17.to_from exTy exBits (by decide)

theorem C17.fromBits_wellTyped (T : STy) (b : Bits) (h : b.length = countBits T) :
    wt T (fromBits T b) = true := by
  rw [fromBits_eq_specVal]
  exact wt_specVal T b (by rw [h, countBits_eq_specWidth])

example : wt exTy (fromBits exTy exBits) = true := C17.fromBits_wellTyped exTy exBits (by decide)

/-- the checked form (`from_bits` asserts the width): total on exactly the right width, and a bijection
    between the bit vectors of width `count_bits(T)` and the well-typed values -/
theorem C17.fromBitsChecked_toBits (T : STy) (x : SVal) (h : wt T x = true) :
    fromBitsChecked T (toBits x) = some x := by
  simp [fromBitsChecked, C17.length_toBits T x h, C17.from_to T x h]

example : fromBitsChecked exTy (toBits exVal) = some exVal := C17.fromBitsChecked_toBits exTy exVal (by decide)

/-- serialisation is injective on well-typed values -/
theorem C17.toBits_injective (T : STy) (x y : SVal) (hx : wt T x = true) (hy : wt T y = true)
    (h : toBits x = toBits y) : x = y := by
  rw [← C17.from_to T x hx, ← C17.from_to T y hy, h]

/-! ## 5. layout -/

/-- a well-typed record value has as many fields as its type -/
theorem C17.wt_record_length (fs : List STy) (xs : List SVal) (h : wt (.rcd fs) (.rcd xs) = true) :
    xs.length = fs.length :=
  wtFields_length fs xs (by simpa [wt] using h)

/-- the first declared field occupies the least significant bits -/
theorem C17.layout_first_is_lsb (t : STy) (ts : List STy) (x : SVal) (xs : List SVal)
    (h : wt (.rcd (t :: ts)) (.rcd (x :: xs)) = true) :
    (toBits (.rcd (x :: xs))).take (countBits t) = toBits x := by
  simp only [wt, wtFields, Bool.and_eq_true] at h
  rw [toBits_eq_specBits, toBits_eq_specBits, countBits_eq_specWidth, specBits, specBitsL]
  exact List.take_left' (length_specBits t x h.1)

example : (toBits exVal).take 3 = toBits (.uns 3 5) :=
  C17.layout_first_is_lsb (.uns 3) [.arr (.sgn 2) 2, .enum (.bv 2), .rcd [.bit, .sfix 3 (-1)], .sarr .bool 2]
    (.uns 3 5) _ (by decide)

/-- element 0 of a `cohdl.Array` occupies the least significant bits -/
theorem C17.layout_first_is_lsb_arr (e : STy) (n : Nat) (x : SVal) (xs : List SVal)
    (h : wt (.arr e n) (.arr (x :: xs)) = true) :
    (toBits (.arr (x :: xs))).take (countBits e) = toBits x := by
  simp only [wt, wtAll, Bool.and_eq_true] at h
  rw [toBits_eq_specBits, toBits_eq_specBits, countBits_eq_specWidth, specBits, specBitsL]
  exact List.take_left' (length_specBits e x h.2.1)

example : (toBits (.arr [.sgn 2 (-2), .sgn 2 1])).take 2 = toBits (.sgn 2 (-2)) :=
  C17.layout_first_is_lsb_arr (.sgn 2) 2 _ _ (by decide)

/-- element 0 of a `std.Array` occupies the least significant bits -/
theorem C17.layout_first_is_lsb_sarr (e : STy) (n : Nat) (x : SVal) (xs : List SVal)
    (h : wt (.sarr e n) (.sarr (x :: xs)) = true) :
    (toBits (.sarr (x :: xs))).take (countBits e) = toBits x := by
  simp only [wt, wtAll, Bool.and_eq_true] at h
  rw [toBits_eq_specBits, toBits_eq_specBits, countBits_eq_specWidth, specBits, specBitsL]
  exact List.take_left' (length_specBits e x h.2.1)

example : (toBits (.sarr [.bool false, .bool true])).take 1 = toBits (.bool false) :=
  C17.layout_first_is_lsb_sarr .bool 2 _ _ (by decide)

/-- `fieldOffset` (sum of the widths declared before field `i`) is the `elem_start` the real code
    accumulates for field `i` -/
theorem C17.fieldOffset_eq_elem_start (fs : List STy) (i : Nat) :
    countFields (fs.take i) 0 = fieldOffset fs i := by
  rw [countFields_eq, fieldOffset]; omega

/-- the `lo:w` table the real code accumulates for a record (`offsets` request of the driver, compared
    with `_make_serializable`'s slices by the harness) is `(fieldOffset fs i, count_bits(field i))` -/
theorem C17.offsets_table_record (fs : List STy) (i : Nat) :
    (offsetsOf (.rcd fs)).map (·[i]?) = some (fs[i]?.map (fun t => (fieldOffset fs i, countBits t))) := by
  simp [offsetsOf, offsetsOf_go_getElem?]

/-- field `i` of a record is found exactly at `[fieldOffset fs i + width - 1 : fieldOffset fs i]`
    (`hx` is implied by `h` and `hi`: `C17.wt_record_length`) -/
theorem C17.layout_field_at_offset (fs : List STy) (xs : List SVal) (h : wt (.rcd fs) (.rcd xs) = true)
    (i : Nat) (hi : i < fs.length) (hx : i < xs.length) :
    slice (toBits (.rcd xs)) (fieldOffset fs i) (countBits fs[i]) = toBits xs[i] := by
  rw [toBits_eq_specBits, toBits_eq_specBits, countBits_eq_specWidth, specBits]
  exact slice_specBitsL_field fs xs (by simpa [wt] using h) i hi hx

example : slice (toBits exVal) 9 4 = toBits (.rcd [.bit true, .sfix 3 (-4)]) :=
  C17.layout_field_at_offset
    [.uns 3, .arr (.sgn 2) 2, .enum (.bv 2), .rcd [.bit, .sfix 3 (-1)], .sarr .bool 2] _
    (by decide) 3 (by decide) (by decide)

/-- element `i` of a `cohdl.Array` is found exactly at `[i*w + w - 1 : i*w]` -/
theorem C17.layout_elem_at_offset (e : STy) (n : Nat) (xs : List SVal) (h : wt (.arr e n) (.arr xs) = true)
    (i : Nat) (hx : i < xs.length) :
    slice (toBits (.arr xs)) (i * countBits e) (countBits e) = toBits xs[i] := by
  simp only [wt, Bool.and_eq_true] at h
  rw [toBits_eq_specBits, toBits_eq_specBits, countBits_eq_specWidth, specBits]
  exact slice_specBitsL_elem e xs h.2 i hx

example : slice (toBits (.arr [.sgn 2 (-2), .sgn 2 1])) (1 * 2) 2 = toBits (.sgn 2 1) :=
  C17.layout_elem_at_offset (.sgn 2) 2 [.sgn 2 (-2), .sgn 2 1] (by decide) 1 (by decide)

/-- element `i` of a `std.Array` is found exactly at `[i*w + w - 1 : i*w]` -/
theorem C17.layout_elem_at_offset_sarr (e : STy) (n : Nat) (xs : List SVal)
    (h : wt (.sarr e n) (.sarr xs) = true) (i : Nat) (hx : i < xs.length) :
    slice (toBits (.sarr xs)) (i * countBits e) (countBits e) = toBits xs[i] := by
  simp only [wt, Bool.and_eq_true] at h
  rw [toBits_eq_specBits, toBits_eq_specBits, countBits_eq_specWidth, specBits]
  exact slice_specBitsL_elem e xs h.2 i hx

example : slice (toBits (.sarr [.bool false, .bool true])) (1 * 1) 1 = toBits (.bool true) :=
  C17.layout_elem_at_offset_sarr .bool 2 [.bool false, .bool true] (by decide) 1 (by decide)

/-! ## 6. BitField: reads and writes touch exactly the declared absolute range -/

/-- the declared range lies inside the outermost vector -/
theorem C17.bitfield_range_inside (p : List (Nat × Nat)) (lo w W : Nat) (h : pathOk p lo w W = true) :
    absLo p lo + w ≤ W :=
  pathOk_absLo p lo w W h

/-- a read through any nesting of sub-bitfields returns exactly the declared absolute range -/
theorem C17.bitfield_read_range (p : List (Nat × Nat)) (lo w W : Nat) (b : Bits)
    (h : pathOk p lo w W = true) (hb : b.length = W) :
    readPath p lo w b = slice b (absLo p lo) w :=
  readPath_eq_slice p lo w W b h hb

example : readPath [(4, 8), (2, 4)] 1 2 (exBits ++ [false]) = slice (exBits ++ [false]) 7 2 :=
  C17.bitfield_read_range [(4, 8), (2, 4)] 1 2 16 _ (by decide) (by decide)

/-- closed form of a write: the bits below and above the declared range are kept, the range is `v` -/
theorem C17.bitfield_write_closed (p : List (Nat × Nat)) (lo W : Nat) (v b : Bits)
    (h : pathOk p lo v.length W = true) (hb : b.length = W) :
    writePath p lo v b = b.take (absLo p lo) ++ v ++ b.drop (absLo p lo + v.length) :=
  writePath_closed p lo W v b h hb

example : writePath [(4, 8), (2, 4)] 1 [true, false] (exBits ++ [false])
    = (exBits ++ [false]).take 7 ++ [true, false] ++ (exBits ++ [false]).drop 9 :=
  C17.bitfield_write_closed [(4, 8), (2, 4)] 1 16 [true, false] _ (by decide) (by decide)

theorem C17.bitfield_write_length (p : List (Nat × Nat)) (lo w W : Nat) (v b : Bits)
    (h : pathOk p lo w W = true) (hb : b.length = W) (hv : v.length = w) :
    (writePath p lo v b).length = W := by
  subst hv
  have := pathOk_absLo p lo _ W h
  rw [writePath_closed p lo W v b h hb]
  simp only [List.length_append, List.length_take, List.length_drop]; omega

/-- reading a field back after writing it returns the written value -/
theorem C17.bitfield_read_after_write (p : List (Nat × Nat)) (lo w W : Nat) (v b : Bits)
    (h : pathOk p lo w W = true) (hb : b.length = W) (hv : v.length = w) :
    readPath p lo w (writePath p lo v b) = v := by
  have hl := C17.bitfield_write_length p lo w W v b h hb hv
  subst hv
  have := pathOk_absLo p lo _ W h
  rw [readPath_eq_slice p lo _ W _ h hl, writePath_closed p lo W v b h hb, slice]
  have ht : (b.take (absLo p lo)).length = absLo p lo := by rw [List.length_take]; omega
  rw [List.append_assoc, List.drop_left' ht, List.take_left' rfl]

/-- every bit outside the declared absolute range is unchanged by a write -/
theorem C17.bitfield_write_outside (p : List (Nat × Nat)) (lo w W : Nat) (v b : Bits)
    (h : pathOk p lo w W = true) (hb : b.length = W) (hv : v.length = w)
    (i : Nat) (hi : i < absLo p lo ∨ absLo p lo + w ≤ i) :
    (writePath p lo v b)[i]? = b[i]? := by
  subst hv
  have := pathOk_absLo p lo _ W h
  rw [writePath_closed p lo W v b h hb]
  simp only [List.getElem?_append, List.length_append, List.length_take,
    List.getElem?_take, List.getElem?_drop]
  repeat' split
  all_goals first | omega | rfl | (congr 1; omega)

/-- a write to one field does not disturb a read of any field whose declared range is disjoint -/
theorem C17.bitfield_disjoint_fields (p q : List (Nat × Nat)) (lo lo' w w' W : Nat) (v b : Bits)
    (h : pathOk p lo w W = true) (h' : pathOk q lo' w' W = true) (hb : b.length = W) (hv : v.length = w)
    (hd : absLo q lo' + w' ≤ absLo p lo ∨ absLo p lo + w ≤ absLo q lo') :
    readPath q lo' w' (writePath p lo v b) = readPath q lo' w' b := by
  have hl := C17.bitfield_write_length p lo w W v b h hb hv
  have h1 := pathOk_absLo p lo w W h
  have h2 := pathOk_absLo q lo' w' W h'
  rw [readPath_eq_slice q lo' w' W _ h' hl, readPath_eq_slice q lo' w' W _ h' hb]
  apply List.ext_getElem?
  intro i
  simp only [slice, List.getElem?_take, List.getElem?_drop]
  split
  · exact C17.bitfield_write_outside p lo w W v b h hb hv _ (by omega)
  · rfl

theorem C17.bitfield_ranges (p : List (Nat × Nat)) (lo w W : Nat) (v b : Bits)
    (h : pathOk p lo w W = true) (hb : b.length = W) (hv : v.length = w) :
    readPath p lo w b = slice b (absLo p lo) w ∧
    (writePath p lo v b).length = W ∧
    readPath p lo w (writePath p lo v b) = v ∧
    (∀ i, (i < absLo p lo ∨ absLo p lo + w ≤ i) → (writePath p lo v b)[i]? = b[i]?) :=
  ⟨C17.bitfield_read_range p lo w W b h hb, C17.bitfield_write_length p lo w W v b h hb hv,
   C17.bitfield_read_after_write p lo w W v b h hb hv, C17.bitfield_write_outside p lo w W v b h hb hv⟩

example : pathOk [(4, 8), (2, 4)] 1 2 16 = true ∧ (exBits ++ [false]).length = 16 ∧
    ([true, false] : Bits).length = 2 := by decide

/-! ## 7. Serialized[T] -/

theorem C17.serialized_roundtrip (T : STy) (x : SVal) (h : wt T x = true) : serValue T (serOf x) = x := by
  simp only [serOf, serValue]; exact C17.from_to T x h

example : serValue exTy (serOf exVal) = exVal := C17.serialized_roundtrip exTy exVal (by decide)

/-- `Serialized` is a wrapper: its serialised form is the raw vector itself -/
theorem C17.serialized_bits (raw : Bits) : toBits (.ser raw) = raw := by
  simp [toBits]

/-- wrapping a well-typed value gives a well-typed `Serialized[T]` of the same width -/
theorem C17.serialized_wellTyped (T : STy) (x : SVal) (h : wt T x = true) :
    wt (.ser T) (serOf x) = true ∧ toBits (serOf x) = toBits x := by
  simp [serOf, wt, toBits, C17.length_toBits T x h]

/-! ## 8. enums: any pattern of the underlying type, member or not -/

/-- no membership restriction: every bit pattern of the underlying width survives
    `from_bits[Enum]` followed by `to_bits` -/
theorem C17.enum_any_pattern (u : STy) (b : Bits) (h : b.length = countBits u) :
    toBits (fromBits (.enum u) b) = b :=
  C17.to_from (.enum u) b (by simpa [countBits] using h)

/-- e.g. the pattern `11` of an enum over `BitVector[2]` whose members are, say, only `00` and `01` -/
example : toBits (fromBits (.enum (.bv 2)) [true, true]) = [true, true] :=
  C17.enum_any_pattern (.bv 2) [true, true] (by decide)

/-- and the decoded enum carries exactly that raw pattern -/
theorem C17.enum_raw (u : STy) (b : Bits) : fromBits (.enum u) b = .enum (fromBits u b) := by
  simp [fromBits]
