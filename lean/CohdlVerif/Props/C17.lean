/-! C17 - property theorems (declared with their full name `C17.<name>`; helper lemmas go to Lemmas/) -/
