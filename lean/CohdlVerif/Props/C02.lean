import CohdlVerif.Lemmas.C02Lemmas
import CohdlVerif.Lemmas.C02Cases

/-!
  C02 - property theorems.  Model: CohdlVerif/Model/C02.lean (`typeOf`, `evalSpec`, `lower`, `evalV`),
  helper lemmas: CohdlVerif/Lemmas/C02Lemmas.lean, CohdlVerif/Lemmas/C02Cases.lean.

  The property on the model, at full strength and for EVERY constructor of `Expr`:

      C02.lower_correct :  typeOf e = .ok t → defined e env = true →
                           InRange t (evalSpec e env) ∧ evalV (lower e) env = inj t (evalSpec e env)
                                                                        (all e, all widths, all env)

  i.e. the VHDL the back end prints for `e`, read with IEEE numeric_std / std_logic_1164, yields the documented
  value with the documented type and width (`inj t` fixes kind and length of the VHDL value); `defined` excludes
  only division by zero.  It is proved by induction over `Expr` from one value-level lemma per operator family
  (`C02.<family>_correct`, all widths and all values) and one induction case per constructor (`C02.case_<constructor>`).
-/
open CohdlVerif.C02

namespace CohdlVerif.C02

def isDivOp (op : AOp) : Prop := op = .div ∨ op = .mod ∨ op = .rem

end CohdlVerif.C02

/-! ### one lemma per operator family and operand-kind pair (all six arithmetic operators each) -/

/-- Unsigned op Unsigned: operands zero-extended, result wraps modulo 2^(documented width) -/
theorem C02.arith_uns_uns (op : AOp) (wa wb : Nat) (x y : Int)
    (hx : InRange (.uns wa) (.n x)) (hy : InRange (.uns wb) (.n y)) (hd : isDivOp op → y ≠ 0) :
    vbin (.ofA op) (inj (.uns wa) (.n x)) (inj (.uns wb) (.n y))
      = inj (.uns (arithVV op wa wb)) (.n (wrapU (arithVV op wa wb) (aop op x y))) := by
  obtain ⟨hwa, hx0, hx1⟩ := hx
  obtain ⟨hwb, hy0, hy1⟩ := hy
  have ex := enc_of_range hx0 hx1
  have ey := enc_of_range hy0 hy1
  have la := enc_lt wa x
  have lb := enc_lt wb y
  have ra : ∀ W, wa ≤ W → vresize .uns wa (enc wa x) W = enc wa x := fun W h => vresize_uns h la
  have rb : ∀ W, wb ≤ W → vresize .uns wb (enc wb y) W = enc wb y := fun W h => vresize_uns h lb
  unfold isDivOp at hd
  cases op <;>
    simp [inj, vbin, VBin.ofA, arithVecVec, VBin.isDiv, vvW, arithVV, dec, nsOp, aop, enc_wrapU,
      ra, rb, ex, ey, nsDiv_eq, nsRem_eq, nsMod_eq, enc_eq_zero_iff hy0 hy1] <;>
    simp_all

example : InRange (.uns 4) (.n 13) ∧ InRange (.uns 3) (.n 5) := by
  constructor <;> simp [InRange]

/-- Signed op Signed: operands sign-extended, result wraps into the two's complement range -/
theorem C02.arith_sgn_sgn (op : AOp) (wa wb : Nat) (x y : Int)
    (hx : InRange (.sgn wa) (.n x)) (hy : InRange (.sgn wb) (.n y)) (hd : isDivOp op → y ≠ 0) :
    vbin (.ofA op) (inj (.sgn wa) (.n x)) (inj (.sgn wb) (.n y))
      = inj (.sgn (arithVV op wa wb)) (.n (wrapS (arithVV op wa wb) (aop op x y))) := by
  obtain ⟨hwa, hx0, hx1⟩ := hx
  obtain ⟨hwb, hy0, hy1⟩ := hy
  have ex := sInt_enc_id hwa hx0 hx1
  have ey := sInt_enc_id hwb hy0 hy1
  have la := enc_lt wa x
  have lb := enc_lt wb y
  have ra : ∀ W, wa ≤ W → sInt W (vresize .sgn wa (enc wa x) W) = x := fun W h => by
    rw [sInt_vresize hwa h la, ex]
  have rb : ∀ W, wb ≤ W → sInt W (vresize .sgn wb (enc wb y) W) = y := fun W h => by
    rw [sInt_vresize hwb h lb, ey]
  unfold isDivOp at hd
  cases op <;>
    simp [inj, vbin, VBin.ofA, arithVecVec, VBin.isDiv, vvW, arithVV, dec, nsOp, aop, enc_wrapS,
      ra, rb, ex, ey, nsDiv_eq, nsRem_eq, nsMod_eq, enc_eq_zero_iff_s hwb hy0 hy1] <;>
    simp_all

example : InRange (.sgn 4) (.n (-8)) ∧ InRange (.sgn 3) (.n (-1)) := by
  constructor <;> simp [InRange]

/-- Unsigned op Python int (int representable in the vector's width) -/
theorem C02.arith_uns_int (op : AOp) (w : Nat) (x k : Int)
    (hx : InRange (.uns w) (.n x)) (hk : fits (.uns w) k = true) (hd : isDivOp op → k ≠ 0) :
    vbin (.ofA op) (inj (.uns w) (.n x)) (inj .int (.n k))
      = inj (.uns (arithVI op w)) (.n (wrapU (arithVI op w) (aop op x k))) := by
  obtain ⟨hw, hx0, hx1⟩ := hx
  simp only [fits, Bool.and_eq_true, decide_eq_true_eq] at hk
  obtain ⟨hk0, hk1⟩ := hk
  have ex := enc_of_range hx0 hx1
  have ek := enc_of_range hk0 hk1
  have hk' : ¬ k < 0 := by omega
  unfold isDivOp at hd
  cases op <;>
    simp [inj, vbin, VBin.ofA, arithVecInt, VBin.isDiv, arithVI, dec, nsOp, aop, enc_wrapU,
      ex, ek, hk', nsDiv_eq, nsRem_eq, nsMod_eq] <;>
    simp_all

/-- Python int op Unsigned -/
theorem C02.arith_int_uns (op : AOp) (w : Nat) (x k : Int)
    (hx : InRange (.uns w) (.n x)) (hk : fits (.uns w) k = true) (hd : isDivOp op → x ≠ 0) :
    vbin (.ofA op) (inj .int (.n k)) (inj (.uns w) (.n x))
      = inj (.uns (arithVI op w)) (.n (wrapU (arithVI op w) (aop op k x))) := by
  obtain ⟨hw, hx0, hx1⟩ := hx
  simp only [fits, Bool.and_eq_true, decide_eq_true_eq] at hk
  obtain ⟨hk0, hk1⟩ := hk
  have ex := enc_of_range hx0 hx1
  have ek := enc_of_range hk0 hk1
  have hk' : ¬ k < 0 := by omega
  unfold isDivOp at hd
  cases op <;>
    simp [inj, vbin, VBin.ofA, arithVecInt, VBin.isDiv, arithVI, dec, nsOp, aop, enc_wrapU,
      ex, ek, hk', nsDiv_eq, nsRem_eq, nsMod_eq] <;>
    simp_all

/-- Signed op Python int -/
theorem C02.arith_sgn_int (op : AOp) (w : Nat) (x k : Int)
    (hx : InRange (.sgn w) (.n x)) (hk : fits (.sgn w) k = true) (hd : isDivOp op → k ≠ 0) :
    vbin (.ofA op) (inj (.sgn w) (.n x)) (inj .int (.n k))
      = inj (.sgn (arithVI op w)) (.n (wrapS (arithVI op w) (aop op x k))) := by
  obtain ⟨hw, hx0, hx1⟩ := hx
  simp only [fits, Bool.and_eq_true, decide_eq_true_eq] at hk
  obtain ⟨hk0, hk1⟩ := hk
  have ex := sInt_enc_id hw hx0 hx1
  have ek := sInt_enc_id hw hk0 hk1
  unfold isDivOp at hd
  cases op <;>
    simp [inj, vbin, VBin.ofA, arithVecInt, VBin.isDiv, arithVI, dec, nsOp, aop, enc_wrapS,
      ex, ek, nsDiv_eq, nsRem_eq, nsMod_eq] <;>
    simp_all

/-- Python int op Signed -/
theorem C02.arith_int_sgn (op : AOp) (w : Nat) (x k : Int)
    (hx : InRange (.sgn w) (.n x)) (hk : fits (.sgn w) k = true) (hd : isDivOp op → x ≠ 0) :
    vbin (.ofA op) (inj .int (.n k)) (inj (.sgn w) (.n x))
      = inj (.sgn (arithVI op w)) (.n (wrapS (arithVI op w) (aop op k x))) := by
  obtain ⟨hw, hx0, hx1⟩ := hx
  simp only [fits, Bool.and_eq_true, decide_eq_true_eq] at hk
  obtain ⟨hk0, hk1⟩ := hk
  have ex := sInt_enc_id hw hx0 hx1
  have ek := sInt_enc_id hw hk0 hk1
  unfold isDivOp at hd
  cases op <;>
    simp [inj, vbin, VBin.ofA, arithVecInt, VBin.isDiv, arithVI, dec, nsOp, aop, enc_wrapS,
      ex, ek, nsDiv_eq, nsRem_eq, nsMod_eq] <;>
    simp_all

example : fits (.sgn 4) (-8) = true ∧ fits (.uns 4) 15 = true := by decide
/-- `+`/`-` wrap modulo 2^max(width): documented law -/
theorem C02.add_wraps_max_width (wa wb : Nat) (x y : Int)
    (hx : InRange (.uns wa) (.n x)) (hy : InRange (.uns wb) (.n y)) :
    vbin .add (inj (.uns wa) (.n x)) (inj (.uns wb) (.n y))
      = inj (.uns (max wa wb)) (.n ((x + y) % 2 ^ (max wa wb))) ∧
    vbin .sub (inj (.uns wa) (.n x)) (inj (.uns wb) (.n y))
      = inj (.uns (max wa wb)) (.n ((x - y) % 2 ^ (max wa wb))) := by
  have h1 := C02.arith_uns_uns .add wa wb x y hx hy (by simp [isDivOp])
  have h2 := C02.arith_uns_uns .sub wa wb x y hx hy (by simp [isDivOp])
  exact ⟨h1, h2⟩

/-- `*` has the sum of the widths and never overflows it -/
theorem C02.mul_width_sum (wa wb : Nat) (x y : Int)
    (hx : InRange (.uns wa) (.n x)) (hy : InRange (.uns wb) (.n y)) :
    vbin .mul (inj (.uns wa) (.n x)) (inj (.uns wb) (.n y)) = inj (.uns (wa + wb)) (.n (x * y)) := by
  have h := C02.arith_uns_uns .mul wa wb x y hx hy (by simp [isDivOp])
  obtain ⟨_, hx0, hx1⟩ := hx
  obtain ⟨_, hy0, hy1⟩ := hy
  have : x * y < 2 ^ (wa + wb) := by
    rw [pow_add]; exact mul_lt_mul'' hx1 hy1 hx0 hy0
  simp only [VBin.ofA, arithVV, aop] at h
  rw [h, wrapU_id (mul_nonneg hx0 hy0) this]

/-- truncating division has the dividend's width, Signed: rounds toward zero, wraps (only -min / -1) -/
theorem C02.truncdiv_dividend_width (wa wb : Nat) (x y : Int)
    (hx : InRange (.sgn wa) (.n x)) (hy : InRange (.sgn wb) (.n y)) (hy0 : y ≠ 0) :
    vbin .div (inj (.sgn wa) (.n x)) (inj (.sgn wb) (.n y)) = inj (.sgn wa) (.n (wrapS wa (Int.tdiv x y))) :=
  C02.arith_sgn_sgn .div wa wb x y hx hy (fun _ => hy0)

/-- `%` takes the sign of the divisor, `rem` of the dividend; both have the divisor's width -/
theorem C02.mod_rem_divisor_width (wa wb : Nat) (x y : Int)
    (hx : InRange (.sgn wa) (.n x)) (hy : InRange (.sgn wb) (.n y)) (hy0 : y ≠ 0) :
    vbin .mod (inj (.sgn wa) (.n x)) (inj (.sgn wb) (.n y)) = inj (.sgn wb) (.n (wrapS wb (Int.fmod x y))) ∧
    vbin .rem (inj (.sgn wa) (.n x)) (inj (.sgn wb) (.n y)) = inj (.sgn wb) (.n (wrapS wb (Int.tmod x y))) :=
  ⟨C02.arith_sgn_sgn .mod wa wb x y hx hy (fun _ => hy0), C02.arith_sgn_sgn .rem wa wb x y hx hy (fun _ => hy0)⟩

example : InRange (.sgn 4) (.n (-7)) ∧ InRange (.sgn 3) (.n 3) ∧ (3 : Int) ≠ 0 := by
  refine ⟨by simp [InRange], by simp [InRange], by decide⟩

/-- the left operand of `@` forms the most significant bits -/
theorem C02.concat_left_is_msb (ka kb : VK) (wa wb pa pb : Nat) (hb : pb < 2 ^ wb) :
    vbin .cat (vconv .slv (.vec ka wa pa)) (vconv .slv (.vec kb wb pb)) = .vec .slv (wa + wb) (pa * 2 ^ wb + pb) ∧
    (pa * 2 ^ wb + pb) / 2 ^ wb = pa ∧ (pa * 2 ^ wb + pb) % 2 ^ wb = pb := by
  refine ⟨by simp [vbin, vconv], ?_, ?_⟩
  · rw [Nat.add_comm, Nat.add_mul_div_right _ _ (Nat.two_pow_pos wb), Nat.div_eq_of_lt hb]; simp
  · rw [Nat.add_comm, Nat.add_mul_mod_self_right, Nat.mod_eq_of_lt hb]

/-- resize (zero extension for Unsigned, sign extension for Signed) preserves the value -/
theorem C02.resize_preserves_value (w w' : Nat) (x : Int) (hw : w ≤ w') :
    (InRange (.uns w) (.n x) → vresizeV (inj (.uns w) (.n x)) w' = inj (.uns w') (.n x)) ∧
    (InRange (.sgn w) (.n x) → vresizeV (inj (.sgn w) (.n x)) w' = inj (.sgn w') (.n x)) := by
  constructor
  · rintro ⟨h1, h0, hlt⟩
    have hlt' : x < 2 ^ w' := lt_of_lt_of_le hlt (p2mono hw)
    have e1 := enc_of_range h0 hlt
    have e2 := enc_of_range h0 hlt'
    have : enc w x = enc w' x := by exact_mod_cast e1.trans e2.symm
    have r := vresize_uns hw (enc_lt w x)
    simp only [inj, vresizeV, r]
    rw [this]
  · rintro ⟨h1, h0, hlt⟩
    have hm : (2 : Int) ^ (w - 1) ≤ 2 ^ (w' - 1) := p2mono (by omega)
    have key := sInt_vresize h1 hw (enc_lt w x)
    rw [sInt_enc_id h1 h0 hlt] at key
    have lt' := vresize_sgn_lt h1 hw (enc_lt w x)
    have := enc_sInt lt'
    rw [key] at this
    simp [inj, vresizeV, this]



/-! ### (1) bitwise and / or / xor / invert -/

/-- bitwise `& | ^` on two vectors of the same kind and width (BitVector, Unsigned, Signed): bit by bit on the
    patterns, result of the same type -/
theorem C02.bitop_correct (op : LOp) (t : Ty) (va vb : Val) (hv : t.isVec = true)
    (ha : InRange t va) (hb : InRange t vb) :
    InRange t (.n (wrap t (lopN op (pat t va.num).toNat (pat t vb.num).toNat))) ∧
    vbin (.ofL op) (inj t va) (inj t vb) = inj t (.n (wrap t (lopN op (pat t va.num).toNat (pat t vb.num).toNat))) := by
  obtain ⟨x, p, rfl, ia, pl, pc, hw, pe⟩ := vecView hv ha
  obtain ⟨y, q, rfl, ib, ql, qc, _, qe⟩ := vecView hv hb
  have hl := lopN_lt op pl ql
  have e1 : (pat t x).toNat = p := by rw [← pc]; simp
  have e2 : (pat t y).toNat = q := by rw [← qc]; simp
  simp only [Val.num, e1, e2]
  rw [ia, ib]
  cases t <;> simp [Ty.isVec] at hv <;> cases op <;>
    simp_all [vbin, VBin.ofL, inj, vkOf, Ty.width, wrap, lopV, lopN, enc_wrapU, enc_wrapS, enc_natCast, InRange,
      wrapU_range, wrapS_range]

/-- ... and on two Bit operands -/
theorem C02.bitop_bit_correct (op : LOp) (x y : Bool) :
    vbin (.ofL op) (inj .bit (.b x)) (inj .bit (.b y)) = inj .bit (.b (lopB op x y)) := by
  cases op <;> simp [vbin, VBin.ofL, inj, lopVB, lopB]

/-- `~` : every bit inverted (Bit, BitVector, Unsigned: 2^w-1-x; Signed: -x-1) -/
theorem C02.inv_correct :
    (∀ x : Bool, vnot (inj .bit (.b x)) = inj .bit (.b (!x))) ∧
    (∀ (w : Nat) (x : Int), InRange (.uns w) (.n x) →
        InRange (.uns w) (.n (2 ^ w - 1 - x)) ∧ vnot (inj (.uns w) (.n x)) = inj (.uns w) (.n (2 ^ w - 1 - x))) ∧
    (∀ (w : Nat) (x : Int), InRange (.bv w) (.n x) →
        InRange (.bv w) (.n (2 ^ w - 1 - x)) ∧ vnot (inj (.bv w) (.n x)) = inj (.bv w) (.n (2 ^ w - 1 - x))) ∧
    (∀ (w : Nat) (x : Int), InRange (.sgn w) (.n x) →
        InRange (.sgn w) (.n (-x - 1)) ∧ vnot (inj (.sgn w) (.n x)) = inj (.sgn w) (.n (-x - 1))) := by
  refine ⟨fun x => by simp [vnot, inj], ?_, ?_, ?_⟩
  · rintro w x ⟨hw, h0, h1⟩
    exact ⟨⟨hw, by linarith, by linarith⟩, by simp [vnot, inj, enc_not_uns h0 h1]⟩
  · rintro w x ⟨hw, h0, h1⟩
    exact ⟨⟨hw, by linarith, by linarith⟩, by simp [vnot, inj, enc_not_uns h0 h1]⟩
  · rintro w x ⟨hw, h0, h1⟩
    exact ⟨⟨hw, by linarith, by linarith⟩, by simp [vnot, inj, enc_not_sgn]⟩


theorem C02.case_bitop (env : Env) (op : LOp) (a b : Expr) (iha : Good env a) (ihb : Good env b) :
    Good env (.bitop op a b) := by
  intro t ht hd
  simp only [typeOf] at ht
  cases hta : typeOf a with
  | error er => simp [hta] at ht
  | ok ta =>
  cases htb : typeOf b with
  | error er => simp [hta, htb] at ht
  | ok tb =>
  simp only [hta, htb] at ht
  simp only [defined, Bool.and_eq_true] at hd
  obtain ⟨ra, ea⟩ := iha ta hta hd.1
  obtain ⟨rb, eb⟩ := ihb tb htb hd.2
  simp only [lower, evalV, ea, eb, evalSpec, hta, tyOr]
  cases ta <;> cases tb <;> simp only [bitopTy, ite_ok_iff] at ht
  all_goals try (simp at ht; done)
  · cases ht
    obtain ⟨x, hx⟩ := inR_bit ra
    obtain ⟨y, hy⟩ := inR_bit rb
    rw [hx, hy]
    exact ⟨trivial, C02.bitop_bit_correct op x y⟩
  all_goals
    obtain ⟨hww, ht⟩ := ht
    subst hww
    cases ht
    exact C02.bitop_correct op _ _ _ rfl ra rb

theorem C02.case_inv (env : Env) (a : Expr) (iha : Good env a) : Good env (.inv a) := by
  intro t ht hd
  simp only [typeOf] at ht
  cases hta : typeOf a with
  | error er => simp [hta] at ht
  | ok ta =>
  simp only [defined] at hd
  obtain ⟨ra, ea⟩ := iha ta hta hd
  simp only [lower, evalV, ea, evalSpec, hta, tyOr]
  cases ta <;> simp [hta] at ht <;> cases ht
  · obtain ⟨x, hx⟩ := inR_bit ra
    rw [hx]; exact ⟨trivial, C02.inv_correct.1 x⟩
  · obtain ⟨x, hx, _⟩ := inR_bv ra
    rw [hx] at ra ⊢; exact C02.inv_correct.2.2.1 _ x ra
  · obtain ⟨x, hx, _⟩ := inR_uns ra
    rw [hx] at ra ⊢; exact C02.inv_correct.2.1 _ x ra
  · obtain ⟨x, hx, _⟩ := inR_sgn ra
    rw [hx] at ra ⊢; exact C02.inv_correct.2.2.2 _ x ra


/-! ### (2) comparisons -/

/-- comparisons of two vectors of the same numeric kind (any widths): the mathematical order of the values;
    `==`/`!=` of BitVectors of equal width, of Bits and of booleans -/
theorem C02.cmp_correct (op : COp) :
    (∀ wa wb x y, InRange (.uns wa) (.n x) → InRange (.uns wb) (.n y) →
        vrel op (inj (.uns wa) (.n x)) (inj (.uns wb) (.n y)) = .bool (copI op x y)) ∧
    (∀ wa wb x y, InRange (.sgn wa) (.n x) → InRange (.sgn wb) (.n y) →
        vrel op (inj (.sgn wa) (.n x)) (inj (.sgn wb) (.n y)) = .bool (copI op x y)) ∧
    (∀ w x y, op.isEq = true → InRange (.bv w) (.n x) → InRange (.bv w) (.n y) →
        vrel op (inj (.bv w) (.n x)) (inj (.bv w) (.n y)) = .bool (copI op x y)) ∧
    (∀ x y : Bool, op.isEq = true →
        vrel op (.sl x) (.sl y) = .bool (copI op (Val.b x).num (Val.b y).num) ∧
        vrel op (.bool x) (.bool y) = .bool (copI op (Val.b x).num (Val.b y).num)) := by
  refine ⟨?_, ?_, ?_, ?_⟩
  · rintro wa wb x y ⟨_, a0, a1⟩ ⟨_, b0, b1⟩
    simp [vrel, inj, dec, enc_of_range a0 a1, enc_of_range b0 b1]
  · rintro wa wb x y ⟨ha, a0, a1⟩ ⟨hb, b0, b1⟩
    simp [vrel, inj, dec, sInt_enc_id ha a0 a1, sInt_enc_id hb b0 b1]
  · rintro w x y he ⟨_, a0, a1⟩ ⟨_, b0, b1⟩
    simp [vrel, inj, he, enc_of_range a0 a1, enc_of_range b0 b1]
  · intro x y he
    simp [vrel, he, Val.num]

/-- comparisons with a Python int on either side (the front end reflects `k < a` into `a > k`) -/
theorem C02.cmp_int_correct (op : COp) (k : Int) :
    (∀ w x, InRange (.uns w) (.n x) → 0 ≤ k →
        vrel op (inj (.uns w) (.n x)) (.int k) = .bool (copI op x k) ∧
        vrel op.swap (inj (.uns w) (.n x)) (.int k) = .bool (copI op k x)) ∧
    (∀ w x, InRange (.sgn w) (.n x) →
        vrel op (inj (.sgn w) (.n x)) (.int k) = .bool (copI op x k) ∧
        vrel op.swap (inj (.sgn w) (.n x)) (.int k) = .bool (copI op k x)) := by
  constructor
  · rintro w x ⟨_, a0, a1⟩ hk
    have : ¬ k < 0 := by omega
    simp [vrel, inj, enc_of_range a0 a1, this, copI_swap]
  · rintro w x ⟨ha, a0, a1⟩
    simp [vrel, inj, sInt_enc_id ha a0 a1, copI_swap]

example : InRange (.sgn 4) (.n (-3)) ∧ COp.isEq .ne = true := by simp [InRange, COp.isEq]


theorem C02.case_cmp (env : Env) (op : COp) (a b : Expr) (iha : Good env a) (ihb : Good env b) :
    Good env (.cmp op a b) := by
  intro t ht hd
  simp only [typeOf] at ht
  cases hta : typeOf a with
  | error er => simp [hta] at ht
  | ok ta =>
  cases htb : typeOf b with
  | error er => simp [hta, htb] at ht
  | ok tb =>
  simp only [hta, htb] at ht
  simp only [defined, Bool.and_eq_true] at hd
  obtain ⟨ra, ea⟩ := iha ta hta hd.1
  obtain ⟨rb, eb⟩ := ihb tb htb hd.2
  simp only [lower, evalSpec, hta, htb, tyOr]
  cases ta <;> cases tb <;> simp only [cmpTy, ite_ok_iff] at ht
  all_goals try (simp at ht; done)
  · -- bit bit
    obtain ⟨he, ht⟩ := ht; cases ht
    obtain ⟨x, hx⟩ := inR_bit ra
    obtain ⟨y, hy⟩ := inR_bit rb
    simp only [evalV, ea, eb, hx, hy, inj]
    exact ⟨trivial, ((C02.cmp_correct op).2.2.2 x y he).1⟩
  · -- bool bool
    obtain ⟨he, ht⟩ := ht; cases ht
    obtain ⟨x, hx⟩ := inR_bool ra
    obtain ⟨y, hy⟩ := inR_bool rb
    simp only [evalV, ea, eb, hx, hy, inj]
    exact ⟨trivial, ((C02.cmp_correct op).2.2.2 x y he).2⟩
  · -- bv bv
    obtain ⟨he, hw, ht⟩ := ht; cases ht; subst hw
    obtain ⟨x, hx, _⟩ := inR_bv ra
    obtain ⟨y, hy, _⟩ := inR_bv rb
    rw [hx] at ra; rw [hy] at rb
    simp only [evalV, ea, eb, hx, hy, Val.num]
    exact ⟨trivial, (C02.cmp_correct op).2.2.1 _ x y he ra rb⟩
  · -- uns uns
    cases ht
    obtain ⟨x, hx, _⟩ := inR_uns ra
    obtain ⟨y, hy, _⟩ := inR_uns rb
    rw [hx] at ra; rw [hy] at rb
    simp only [evalV, ea, eb, hx, hy, Val.num]
    exact ⟨trivial, (C02.cmp_correct op).1 _ _ x y ra rb⟩
  · -- uns int
    cases hib : intVal b with
    | none => simp [hib] at ht
    | some k =>
      simp only [hib, ite_ok_iff] at ht
      obtain ⟨hk, ht⟩ := ht; cases ht
      have hbk := intVal_some hib; subst hbk
      obtain ⟨x, hx, _⟩ := inR_uns ra
      rw [hx] at ra
      simp only [evalV, ea, lower, evalSpec, hx, Val.num]
      exact ⟨trivial, ((C02.cmp_int_correct op k).1 _ x ra hk).1⟩
  · -- sgn sgn
    cases ht
    obtain ⟨x, hx, _⟩ := inR_sgn ra
    obtain ⟨y, hy, _⟩ := inR_sgn rb
    rw [hx] at ra; rw [hy] at rb
    simp only [evalV, ea, eb, hx, hy, Val.num]
    exact ⟨trivial, (C02.cmp_correct op).2.1 _ _ x y ra rb⟩
  · -- sgn int
    cases hib : intVal b with
    | none => simp [hib] at ht
    | some k =>
      simp only [hib] at ht
      cases ht
      have hbk := intVal_some hib; subst hbk
      obtain ⟨x, hx, _⟩ := inR_sgn ra
      rw [hx] at ra
      simp only [evalV, ea, lower, evalSpec, hx, Val.num]
      exact ⟨trivial, ((C02.cmp_int_correct op k).2 _ x ra).1⟩
  · -- int uns
    cases hia : intVal a with
    | none => simp [hia] at ht
    | some k =>
      simp only [hia, ite_ok_iff] at ht
      obtain ⟨hk, ht⟩ := ht; cases ht
      have hak := intVal_some hia; subst hak
      obtain ⟨y, hy, _⟩ := inR_uns rb
      rw [hy] at rb
      simp only [evalV, eb, lower, evalSpec, hy, Val.num]
      exact ⟨trivial, ((C02.cmp_int_correct op k).1 _ y rb hk).2⟩
  · -- int sgn
    cases hia : intVal a with
    | none => simp [hia] at ht
    | some k =>
      simp only [hia] at ht
      cases ht
      have hak := intVal_some hia; subst hak
      obtain ⟨y, hy, _⟩ := inR_sgn rb
      rw [hy] at rb
      simp only [evalV, eb, lower, evalSpec, hy, Val.num]
      exact ⟨trivial, ((C02.cmp_int_correct op k).2 _ y rb).2⟩


/-! ### (3) shifts -/

/-- `>>` is a logical shift for Unsigned and an arithmetic shift for Signed - for ALL values, negative ones
    included: in both cases the floor division of the value by 2^n (`/` on `Int` is floor division for a positive
    divisor), with the operand's type and width -/
theorem C02.shr_logical_unsigned_arith_signed (w n : Nat) (x : Int) :
    (InRange (.uns w) (.n x) → InRange (.uns w) (.n (x / 2 ^ n)) ∧
        vshiftR (inj (.uns w) (.n x)) (.int n) = inj (.uns w) (.n (x / 2 ^ n))) ∧
    (InRange (.sgn w) (.n x) → InRange (.sgn w) (.n (x / 2 ^ n)) ∧
        vshiftR (inj (.sgn w) (.n x)) (.int n) = inj (.sgn w) (.n (x / 2 ^ n))) := by
  have hS := p2pos n
  have hS1 : (1 : Int) ≤ 2 ^ n := Int.add_one_le_iff.mpr hS |> fun h => by simpa using h
  constructor
  · rintro ⟨hw, h0, h1⟩
    refine ⟨⟨hw, Int.ediv_nonneg h0 (le_of_lt hS), lt_of_le_of_lt (Int.ediv_le_self _ h0) h1⟩, ?_⟩
    simp [inj, vshiftR, enc_shr_nonneg h0 h1]
  · rintro ⟨hw, hlo, hhi⟩
    have hh := p2half hw
    have hhp := p2pos (w - 1)
    have rng : -(2 ^ (w - 1)) ≤ x / 2 ^ n ∧ x / 2 ^ n < 2 ^ (w - 1) := by
      constructor
      · rw [Int.le_ediv_iff_mul_le hS]
        nlinarith
      · apply Int.ediv_lt_of_lt_mul hS
        nlinarith
    refine ⟨⟨hw, rng.1, rng.2⟩, ?_⟩
    by_cases h0 : 0 ≤ x
    · have h1' : x < 2 ^ w := by linarith
      have e1 := enc_of_range h0 h1'
      have hlt : enc w x < 2 ^ (w - 1) := by
        have : ((enc w x : Nat) : Int) < 2 ^ (w - 1) := by rw [e1]; exact hhi
        exact_mod_cast this
      simp [inj, vshiftR, hlt, enc_shr_nonneg h0 h1']
    · have hneg : x < 0 := by omega
      have hc := enc_cast w x
      have hmod : x % 2 ^ w = x + 2 ^ w :=
        emod_eq_of (p2pos w) (q := -1) (by ring) (by linarith) (by linarith)
      have hp : ((enc w x : Nat) : Int) = x + 2 ^ w := by rw [hc, hmod]
      have hge : ¬ enc w x < 2 ^ (w - 1) := by
        intro hl
        have : ((enc w x : Nat) : Int) < 2 ^ (w - 1) := by exact_mod_cast hl
        rw [hp] at this; linarith
      have key := shr_sgn_neg (s := n) hw (enc_lt w x)
      have hx : ((enc w x : Nat) : Int) - 2 ^ w = x := by rw [hp]; ring
      rw [hx] at key
      simp [inj, vshiftR, hge, key]

example : InRange (.sgn 4) (.n (-7)) := by simp [InRange]

/-- `<<` drops the bits shifted out: multiplication by 2^n wrapped into the operand's type (Unsigned and Signed) -/
theorem C02.shl_correct (w n : Nat) (x : Int) :
    (InRange (.uns w) (.n x) → vshiftL (inj (.uns w) (.n x)) (.int n) = inj (.uns w) (.n (wrapU w (x * 2 ^ n)))) ∧
    (InRange (.sgn w) (.n x) → vshiftL (inj (.sgn w) (.n x)) (.int n) = inj (.sgn w) (.n (wrapS w (x * 2 ^ n)))) := by
  have key : (enc w x * 2 ^ n) % 2 ^ w = enc w (x * 2 ^ n) := by
    have : (((enc w x * 2 ^ n) % 2 ^ w : Nat) : Int) = ((enc w (x * 2 ^ n) : Nat) : Int) := by
      rw [enc_cast]; push_cast; rw [enc_cast]
      rw [Int.mul_emod (x % 2 ^ w), Int.emod_emod_of_dvd _ (dvd_refl _), ← Int.mul_emod]
    exact_mod_cast this
  constructor
  · intro _; simp [inj, vshiftL, key, enc_wrapU]
  · intro _; simp [inj, vshiftL, key, enc_wrapS]


theorem C02.case_shl (env : Env) (a n : Expr) (iha : Good env a) (ihn : Good env n) : Good env (.shl a n) := by
  intro t ht hd
  simp only [typeOf] at ht
  cases hta : typeOf a with
  | error er => simp [hta] at ht
  | ok ta =>
  cases htn : typeOf n with
  | error er => simp [hta, htn] at ht
  | ok tn =>
  simp only [hta, htn] at ht
  simp only [defined, Bool.and_eq_true] at hd
  obtain ⟨ra, ea⟩ := iha ta hta hd.1
  obtain ⟨amt, hl, _, hamt, rfl, w, hw⟩ := shift_amt env a n ta tn t ihn htn hd.2 ht
  rw [hl]
  simp only [evalV, ea, hamt, evalSpec, hta, tyOr]
  rcases hw with rfl | rfl
  · obtain ⟨x, hx, hw1, _⟩ := inR_uns ra
    rw [hx] at ra ⊢
    exact ⟨inRange_wrapU hw1 _, (C02.shl_correct w _ x).1 ra⟩
  · obtain ⟨x, hx, hw1, _⟩ := inR_sgn ra
    rw [hx] at ra ⊢
    exact ⟨inRange_wrapS hw1 _, (C02.shl_correct w _ x).2 ra⟩

theorem C02.case_shr (env : Env) (a n : Expr) (iha : Good env a) (ihn : Good env n) : Good env (.shr a n) := by
  intro t ht hd
  simp only [typeOf] at ht
  cases hta : typeOf a with
  | error er => simp [hta] at ht
  | ok ta =>
  cases htn : typeOf n with
  | error er => simp [hta, htn] at ht
  | ok tn =>
  simp only [hta, htn] at ht
  simp only [defined, Bool.and_eq_true] at hd
  obtain ⟨ra, ea⟩ := iha ta hta hd.1
  obtain ⟨amt, _, hl, hamt, rfl, w, hw⟩ := shift_amt env a n ta tn t ihn htn hd.2 ht
  rw [hl]
  simp only [evalV, ea, hamt, evalSpec]
  rcases hw with rfl | rfl
  · obtain ⟨x, hx, _⟩ := inR_uns ra
    rw [hx] at ra ⊢
    exact (C02.shr_logical_unsigned_arith_signed w _ x).1 ra
  · obtain ⟨x, hx, _⟩ := inR_sgn ra
    rw [hx] at ra ⊢
    exact (C02.shr_logical_unsigned_arith_signed w _ x).2 ra


/-! ### (4) concatenation -/
/-- `a @ b` (operands Bit / BitVector / Unsigned / Signed, numeric operands coerced with `.bitvector` =
    `std_logic_vector(.)`): a BitVector of the summed width whose most significant bits are the pattern of `a` -/
theorem C02.concat_correct (va vb : VVal) (wa pa wb pb : Nat) (ha : IsCat va wa pa) (hb : IsCat vb wb pb)
    (la : pa < 2 ^ wa) (lb : pb < 2 ^ wb) :
    vbin .cat va vb = inj (.bv (wa + wb)) (.n ((pa : Int) * 2 ^ wb + pb)) ∧
    InRange (.bv (wa + wb)) (.n ((pa : Int) * 2 ^ wb + pb)) ∨ wa + wb = 0 := by
  by_cases h0 : wa + wb = 0
  · exact Or.inr h0
  left
  have hlt : pa * 2 ^ wb + pb < 2 ^ (wa + wb) := by
    rw [pow_add]
    calc pa * 2 ^ wb + pb < pa * 2 ^ wb + 2 ^ wb := by omega
      _ = (pa + 1) * 2 ^ wb := by ring
      _ ≤ 2 ^ wa * 2 ^ wb := Nat.mul_le_mul_right _ la
  have hc : ((pa : Int) * 2 ^ wb + pb) = ((pa * 2 ^ wb + pb : Nat) : Int) := by push_cast; ring
  constructor
  · rw [vbin_cat ha hb]; simp only [inj]; rw [hc, enc_natCast hlt]
  · refine ⟨by omega, ?_, ?_⟩
    · rw [hc]; exact Int.natCast_nonneg _
    · rw [hc]; exact_mod_cast hlt


theorem C02.case_concat (env : Env) (a b : Expr) (iha : Good env a) (ihb : Good env b) : Good env (.concat a b) := by
  intro t ht hd
  simp only [typeOf] at ht
  cases hta : typeOf a with
  | error er => simp [hta] at ht
  | ok ta =>
  cases htb : typeOf b with
  | error er => simp [hta, htb] at ht
  | ok tb =>
  simp only [hta, htb] at ht
  simp only [defined, Bool.and_eq_true] at hd
  cases hwa : catW ta with
  | none => simp [hwa] at ht
  | some wa =>
  cases hwb : catW tb with
  | none => simp [hwa, hwb] at ht
  | some wb =>
  simp only [hwa, hwb, Except.ok.injEq] at ht
  subst ht
  obtain ⟨pa, ca, la, pca, ewa, h1a⟩ := cat_operand env a ta wa iha hta hd.1 hwa
  obtain ⟨pb, cb, lb, pcb, ewb, h1b⟩ := cat_operand env b tb wb ihb htb hd.2 hwb
  rw [lower_concat_eq]
  rcases C02.concat_correct _ _ wa pa wb pb ca cb la lb with ⟨hv, hr⟩ | h0
  · simp only [evalV, evalSpec, hta, htb, tyOr] at hv ⊢
    rw [← pca, ← pcb, ← ewb]
    exact ⟨hr, hv⟩
  · omega


/-! ### (5) index / slice / views / abs / neg -/

/-- constant index, constant slice and run-time index of a vector of any kind: bit `i` of the pattern /
    bits `hi..lo` of the pattern as a BitVector -/
theorem C02.index_slice_correct (k : VK) (w p : Nat) (hp : p < 2 ^ w) :
    (∀ i : Nat, i < w → vindex (.vec k w p) (.int i) = inj .bit (.b (((p : Int) / 2 ^ i) % 2 == 1))) ∧
    (∀ hi lo : Nat, lo ≤ hi → hi < w →
        vconv .slv (vslice (.vec k w p) hi lo) = inj (.bv (hi - lo + 1)) (.n (((p : Int) / 2 ^ lo) % 2 ^ (hi - lo + 1))) ∧
        InRange (.bv (hi - lo + 1)) (.n (((p : Int) / 2 ^ lo) % 2 ^ (hi - lo + 1)))) := by
  constructor
  · intro i hi
    have : (i : Int) < w := by exact_mod_cast hi
    simp [vindex, inj, this, bit_test_cast]
  · intro hi lo h1 h2
    have hm : (p / 2 ^ lo) % 2 ^ (hi - lo + 1) < 2 ^ (hi - lo + 1) := Nat.mod_lt _ (Nat.two_pow_pos _)
    have hc : ((p : Int) / 2 ^ lo) % 2 ^ (hi - lo + 1) = (((p / 2 ^ lo) % 2 ^ (hi - lo + 1) : Nat) : Int) := by
      push_cast; rfl
    constructor
    · simp only [vslice, h1, h2, and_self, if_true, vconv, inj]
      rw [hc, enc_natCast hm]
    · refine ⟨by omega, ?_, ?_⟩
      · rw [hc]; exact Int.natCast_nonneg _
      · rw [hc]; exact_mod_cast hm

example : (5 : Nat) < 2 ^ 3 := by decide

/-- the views `.signed` `.unsigned` `.bitvector` keep the pattern and reinterpret it -/
theorem C02.view_correct (k : VK) (w p : Nat) (hw : 1 ≤ w) (hp : p < 2 ^ w) :
    (vconv .sgn (.vec k w p) = inj (.sgn w) (.n (wrapS w p)) ∧ InRange (.sgn w) (.n (wrapS w p))) ∧
    (vconv .uns (.vec k w p) = inj (.uns w) (.n p) ∧ InRange (.uns w) (.n (p : Int))) ∧
    (vconv .slv (.vec k w p) = inj (.bv w) (.n p) ∧ InRange (.bv w) (.n (p : Int))) := by
  have hpI : (p : Int) < 2 ^ w := by exact_mod_cast hp
  refine ⟨⟨?_, inRange_wrapS hw _⟩, ⟨?_, hw, Int.natCast_nonneg _, hpI⟩, ⟨?_, hw, Int.natCast_nonneg _, hpI⟩⟩
  · simp [vconv, inj, enc_wrapS, enc_natCast hp]
  · simp [vconv, inj, enc_natCast hp]
  · simp [vconv, inj, enc_natCast hp]

/-- `abs` / unary minus on Signed (wrap: only the minimum value), unary minus on Unsigned in the printed form
    `(0) - (x)` (two's complement negation modulo 2^w) -/
theorem C02.abs_neg_correct (w : Nat) (x : Int) :
    (InRange (.sgn w) (.n x) → vabs (inj (.sgn w) (.n x)) = inj (.sgn w) (.n (wrapS w (Int.natAbs x)))) ∧
    (InRange (.sgn w) (.n x) → vneg (inj (.sgn w) (.n x)) = inj (.sgn w) (.n (wrapS w (-x)))) ∧
    (InRange (.uns w) (.n x) → vbin .sub (.int 0) (inj (.uns w) (.n x)) = inj (.uns w) (.n (wrapU w (-x)))) := by
  refine ⟨?_, ?_, ?_⟩
  · rintro ⟨hw, h0, h1⟩
    simp [vabs, inj, sInt_enc_id hw h0 h1, enc_wrapS]
  · rintro ⟨hw, h0, h1⟩
    simp [vneg, inj, sInt_enc_id hw h0 h1, enc_wrapS]
  · rintro ⟨hw, h0, h1⟩
    have e0 : enc w 0 = 0 := by simp [enc]
    simp [vbin, inj, arithVecInt, VBin.isDiv, dec, nsOp, enc_of_range h0 h1, enc_wrapU, e0]


theorem C02.case_index (env : Env) (a : Expr) (i : Nat) (iha : Good env a) : Good env (.index a i) := by
  intro t ht hd
  simp only [typeOf] at ht
  cases hta : typeOf a with
  | error er => simp [hta] at ht
  | ok ta =>
  simp only [hta, ite_ok_iff, Except.ok.injEq] at ht
  obtain ⟨hv, hi, rfl⟩ := ht
  simp only [defined] at hd
  obtain ⟨ra, ea⟩ := iha ta hta hd
  obtain ⟨x, p, hx, iv, pl, pc, _, _⟩ := vecView hv ra
  simp only [lower, evalV, ea, iv, evalSpec, hta, tyOr]
  simp only [hx, Val.num, ← pc]
  exact ⟨trivial, (C02.index_slice_correct _ _ p pl).1 i hi⟩

theorem C02.case_slice (env : Env) (a : Expr) (hi lo : Nat) (iha : Good env a) : Good env (.slice a hi lo) := by
  intro t ht hd
  simp only [typeOf] at ht
  cases hta : typeOf a with
  | error er => simp [hta] at ht
  | ok ta =>
  simp only [hta, ite_ok_iff, Except.ok.injEq] at ht
  obtain ⟨hv, ⟨h1, h2⟩, rfl⟩ := ht
  simp only [defined] at hd
  obtain ⟨ra, ea⟩ := iha ta hta hd
  obtain ⟨x, p, hx, iv, pl, pc, _, _⟩ := vecView hv ra
  have key := (C02.index_slice_correct (vkOf ta) _ p pl).2 hi lo h1 h2
  have hl : evalV (lower (.slice a hi lo)) env = vconv .slv (vslice (.vec (vkOf ta) ta.width p) hi lo) := by
    cases ta <;> simp [Ty.isVec] at hv <;>
      simp [lower, hta, tyOr, evalV, ea, iv, vconv_vconv]
  rw [hl]
  simp only [evalSpec, hta, tyOr, hx, Val.num, ← pc]
  exact ⟨key.2, key.1⟩

theorem C02.case_indexRt (env : Env) (a n : Expr) (iha : Good env a) (ihn : Good env n) : Good env (.indexRt a n) := by
  intro t ht hd
  simp only [typeOf] at ht
  cases hta : typeOf a with
  | error er => simp [hta] at ht
  | ok ta =>
  cases htn : typeOf n with
  | error er => simp [hta, htn] at ht
  | ok tn =>
  simp only [hta, htn] at ht
  simp only [defined, Bool.and_eq_true] at hd
  cases tn <;> simp only [ite_ok_iff, Except.ok.injEq] at ht
  all_goals try (simp at ht; done)
  rename_i k
  obtain ⟨hv, hk, rfl⟩ := ht
  obtain ⟨ra, ea⟩ := iha ta hta hd.1
  obtain ⟨rn, en⟩ := ihn _ htn hd.2
  obtain ⟨x, p, hx, iv, pl, pc, _, _⟩ := vecView hv ra
  obtain ⟨y, hy, _, y0, y1⟩ := inR_uns rn
  have ey := enc_of_range y0 y1
  have hlt : enc k y < ta.width := lt_of_lt_of_le (enc_lt k y) hk
  have hty : y.toNat = enc k y := by
    have : ((y.toNat : Nat) : Int) = ((enc k y : Nat) : Int) := by rw [Int.toNat_of_nonneg y0, ey]
    exact_mod_cast this
  have hn : vtoInteger (inj (.uns k) (evalSpec n env)) = .int (enc k y) := by simp [hy, inj, vtoInteger]
  simp only [lower, evalV, ea, iv, en, hn, evalSpec, hta, tyOr]
  simp only [hx, hy, Val.num, ← pc, hty]
  exact ⟨trivial, (C02.index_slice_correct _ _ p pl).1 _ hlt⟩

theorem C02.case_asSgn (env : Env) (a : Expr) (iha : Good env a) : Good env (.asSgn a) := by
  intro t ht hd
  simp only [typeOf] at ht
  cases hta : typeOf a with
  | error er => simp [hta] at ht
  | ok ta =>
  simp only [hta, ite_ok_iff, Except.ok.injEq] at ht
  obtain ⟨hv, rfl⟩ := ht
  simp only [defined] at hd
  obtain ⟨ra, ea⟩ := iha ta hta hd
  obtain ⟨x, p, hx, iv, pl, pc, hw, _⟩ := vecView hv ra
  have key := (C02.view_correct (vkOf ta) _ p hw pl).1
  have hl : evalV (lower (.asSgn a)) env = vconv .sgn (.vec (vkOf ta) ta.width p) := by
    cases ta <;> simp [Ty.isVec] at hv <;>
      simp [lower, hta, tyOr, evalV, ea, iv, vconv_vconv, vconv, vkOf]
  rw [hl]
  simp only [evalSpec, hta, tyOr, hx, Val.num, ← pc]
  exact ⟨key.2, key.1⟩

theorem C02.case_asUns (env : Env) (a : Expr) (iha : Good env a) : Good env (.asUns a) := by
  intro t ht hd
  simp only [typeOf] at ht
  cases hta : typeOf a with
  | error er => simp [hta] at ht
  | ok ta =>
  simp only [hta, ite_ok_iff, Except.ok.injEq] at ht
  obtain ⟨hv, rfl⟩ := ht
  simp only [defined] at hd
  obtain ⟨ra, ea⟩ := iha ta hta hd
  obtain ⟨x, p, hx, iv, pl, pc, hw, _⟩ := vecView hv ra
  have key := (C02.view_correct (vkOf ta) _ p hw pl).2.1
  have hl : evalV (lower (.asUns a)) env = vconv .uns (.vec (vkOf ta) ta.width p) := by
    cases ta <;> simp [Ty.isVec] at hv <;>
      simp [lower, hta, tyOr, evalV, ea, iv, vconv_vconv, vconv, vkOf]
  rw [hl]
  simp only [evalSpec, hta, tyOr, hx, Val.num, ← pc]
  exact ⟨key.2, key.1⟩

theorem C02.case_asBv (env : Env) (a : Expr) (iha : Good env a) : Good env (.asBv a) := by
  intro t ht hd
  simp only [typeOf] at ht
  cases hta : typeOf a with
  | error er => simp [hta] at ht
  | ok ta =>
  simp only [hta, ite_ok_iff, Except.ok.injEq] at ht
  obtain ⟨hv, rfl⟩ := ht
  simp only [defined] at hd
  obtain ⟨ra, ea⟩ := iha ta hta hd
  obtain ⟨x, p, hx, iv, pl, pc, hw, _⟩ := vecView hv ra
  have key := (C02.view_correct (vkOf ta) _ p hw pl).2.2
  have hl : evalV (lower (.asBv a)) env = vconv .slv (.vec (vkOf ta) ta.width p) := by
    cases ta <;> simp [Ty.isVec] at hv <;>
      simp [lower, hta, tyOr, evalV, ea, iv, vconv_vconv, vconv, vkOf]
  rw [hl]
  simp only [evalSpec, hta, tyOr, hx, Val.num, ← pc]
  exact ⟨key.2, key.1⟩

theorem C02.case_abs (env : Env) (a : Expr) (iha : Good env a) : Good env (.abs a) := by
  intro t ht hd
  simp only [typeOf] at ht
  cases hta : typeOf a with
  | error er => simp [hta] at ht
  | ok ta =>
  simp only [defined] at hd
  obtain ⟨ra, ea⟩ := iha ta hta hd
  cases ta <;> simp [hta] at ht
  subst ht
  obtain ⟨x, hx, hw, _⟩ := inR_sgn ra
  rw [hx] at ra
  simp only [lower, evalV, ea, hx, evalSpec, hta, tyOr, wrap, Val.num]
  exact ⟨inRange_wrapS hw _, (C02.abs_neg_correct _ x).1 ra⟩

theorem C02.case_neg (env : Env) (a : Expr) (iha : Good env a) : Good env (.neg a) := by
  intro t ht hd
  simp only [typeOf] at ht
  cases hta : typeOf a with
  | error er => simp [hta] at ht
  | ok ta =>
  simp only [defined] at hd
  obtain ⟨ra, ea⟩ := iha ta hta hd
  cases ta <;> simp [hta] at ht <;> subst ht
  · obtain ⟨x, hx, hw, _⟩ := inR_uns ra
    rw [hx] at ra
    simp only [lower, hta, tyOr, evalV, ea, hx, evalSpec, wrap, Val.num]
    exact ⟨inRange_wrapU hw _, (C02.abs_neg_correct _ x).2.2 ra⟩
  · obtain ⟨x, hx, hw, _⟩ := inR_sgn ra
    rw [hx] at ra
    simp only [lower, hta, tyOr, evalV, ea, hx, evalSpec, wrap, Val.num]
    exact ⟨inRange_wrapS hw _, (C02.abs_neg_correct _ x).2.1 ra⟩


/-! ### (6) boolean operators -/

/-- the cast of an operand to `boolean` that the back end prints (`x = '1'`, `(x /= 0)`, `(x /= "00..0")`, nothing
    for a boolean) yields the truth value of the operand -/
theorem C02.truth_correct (env : Env) (A : VExpr) (t : Ty) (v : Val) (ht : truthy t = true)
    (hr : InRange t v) (he : evalV A env = inj t v) :
    evalV (toBool t A) env = .bool v.tru := by
  cases t <;> simp [truthy] at ht
  · obtain ⟨b, rfl⟩ := inR_bit hr
    simp [CohdlVerif.C02.toBool, evalV, he, inj, vrel, COp.isEq, copI, Val.tru]
    cases b <;> simp
  · obtain ⟨b, rfl⟩ := inR_bool hr
    simp [CohdlVerif.C02.toBool, he, inj, Val.tru]
  · obtain ⟨x, rfl, _, h0, h1⟩ := inR_bv hr
    have e := enc_of_range h0 h1
    simp [CohdlVerif.C02.toBool, evalV, he, inj, vrel, COp.isEq, copI, Val.tru, e]
  · obtain ⟨x, rfl, _, h0, h1⟩ := inR_uns hr
    have e := enc_of_range h0 h1
    simp [CohdlVerif.C02.toBool, evalV, he, inj, vrel, copI, Val.tru, e]
  · obtain ⟨x, rfl, hw, h0, h1⟩ := inR_sgn hr
    simp [CohdlVerif.C02.toBool, evalV, he, inj, vrel, copI, Val.tru, sInt_enc_id hw h0 h1]

/-- `not` / `and` / `or` on booleans (operands after the cast of `C02.truth_correct`; `any([..])` / `all([..])` and
    chained comparisons are folds of these) -/
theorem C02.boolop_correct (x y : Bool) :
    vnot (.bool x) = .bool (!x) ∧ vbin .and (.bool x) (.bool y) = .bool (x && y) ∧
    vbin .or (.bool x) (.bool y) = .bool (x || y) := by
  simp [vnot, vbin, lopVB]


theorem C02.case_truth (env : Env) (a : Expr) (iha : Good env a) : Good env (.truth a) := by
  intro t ht hd
  simp only [typeOf] at ht
  cases hta : typeOf a with
  | error er => simp [hta] at ht
  | ok ta =>
  simp only [hta, ite_ok_iff, Except.ok.injEq] at ht
  obtain ⟨hv, rfl⟩ := ht
  simp only [defined] at hd
  obtain ⟨ra, ea⟩ := iha ta hta hd
  simp only [lower, hta, tyOr, evalSpec, inj]
  exact ⟨trivial, C02.truth_correct env _ ta _ hv ra ea⟩

theorem C02.case_lnot (env : Env) (a : Expr) (iha : Good env a) : Good env (.lnot a) := by
  intro t ht hd
  simp only [typeOf] at ht
  cases hta : typeOf a with
  | error er => simp [hta] at ht
  | ok ta =>
  simp only [hta, ite_ok_iff, Except.ok.injEq] at ht
  obtain ⟨hv, rfl⟩ := ht
  simp only [defined] at hd
  obtain ⟨ra, ea⟩ := iha ta hta hd
  simp only [lower, hta, tyOr, evalSpec, inj, evalV, C02.truth_correct env _ ta _ hv ra ea]
  exact ⟨trivial, (C02.boolop_correct _ true).1⟩

theorem C02.case_land (env : Env) (a b : Expr) (iha : Good env a) (ihb : Good env b) : Good env (.land a b) := by
  intro t ht hd
  simp only [typeOf] at ht
  cases hta : typeOf a with
  | error er => simp [hta] at ht
  | ok ta =>
  cases htb : typeOf b with
  | error er => simp [hta, htb] at ht
  | ok tb =>
  simp only [hta, htb, ite_ok_iff, Except.ok.injEq, Bool.and_eq_true] at ht
  obtain ⟨⟨hva, hvb⟩, rfl⟩ := ht
  simp only [defined, Bool.and_eq_true] at hd
  obtain ⟨ra, ea⟩ := iha ta hta hd.1
  obtain ⟨rb, eb⟩ := ihb tb htb hd.2
  simp only [lower, hta, htb, tyOr, evalSpec, inj, evalV, C02.truth_correct env _ ta _ hva ra ea,
    C02.truth_correct env _ tb _ hvb rb eb]
  exact ⟨trivial, (C02.boolop_correct _ _).2.1⟩

theorem C02.case_lor (env : Env) (a b : Expr) (iha : Good env a) (ihb : Good env b) : Good env (.lor a b) := by
  intro t ht hd
  simp only [typeOf] at ht
  cases hta : typeOf a with
  | error er => simp [hta] at ht
  | ok ta =>
  cases htb : typeOf b with
  | error er => simp [hta, htb] at ht
  | ok tb =>
  simp only [hta, htb, ite_ok_iff, Except.ok.injEq, Bool.and_eq_true] at ht
  obtain ⟨⟨hva, hvb⟩, rfl⟩ := ht
  simp only [defined, Bool.and_eq_true] at hd
  obtain ⟨ra, ea⟩ := iha ta hta hd.1
  obtain ⟨rb, eb⟩ := ihb tb htb hd.2
  simp only [lower, hta, htb, tyOr, evalSpec, inj, evalV, C02.truth_correct env _ ta _ hva ra ea,
    C02.truth_correct env _ tb _ hvb rb eb]
  exact ⟨trivial, (C02.boolop_correct _ _).2.2⟩


/-! ### (6) if-expression and select_with -/
/-- if-expression (`with c select .. when true, .. when others`) and one `select_with` entry
    (`with arg select e when key, rest when others`): the selected branch, both branches of the same type -/
theorem C02.select_correct (env : Env) (t : Ty) (ve vr : Val) (he : InRange t ve) (hr : InRange t vr) :
    (∀ (C A B : VExpr) (c : Bool), evalV C env = .bool c → evalV A env = inj t ve → evalV B env = inj t vr →
        evalV (.ite C A B) env = inj t (if c then ve else vr)) ∧
    (∀ (targ : Ty) (va : Val) (key : Int) (ARG E R : VExpr), (targ.isVec || targ == .bit) = true →
        InRange targ va → fits targ key = true → evalV ARG env = inj targ va →
        evalV E env = inj t ve → evalV R env = inj t vr →
        evalV (.sel ARG (litV targ key) E R) env = inj t (if va.num == key then ve else vr)) := by
  constructor
  · intro C A B c hc ha hb
    simp only [evalV, hc, ha, hb, inj_sameType he hr, if_true]
    cases c <;> rfl
  · intro targ va key ARG E R hk hra hf harg hE hR
    obtain ⟨s1, s2⟩ := sel_key env targ va key hk hra hf
    have n1 := inj_ne_err hra
    have n2 := inj_ne_err he
    simp only [evalV, harg, hE, hR, s1, s2, inj_sameType he hr, Bool.true_and]
    have b1 : (inj targ va != VVal.err) = true := by simpa using n1
    have b2 : (inj t ve != VVal.err) = true := by simpa using n2
    rw [b1, b2]
    cases va.num == key <;> rfl


theorem C02.case_ite (env : Env) (c a b : Expr) (ihc : Good env c) (iha : Good env a) (ihb : Good env b) :
    Good env (.ite c a b) := by
  intro t ht hd
  simp only [typeOf] at ht
  cases htc : typeOf c with
  | error er => simp [htc] at ht
  | ok tc =>
  cases hta : typeOf a with
  | error er => simp [htc, hta] at ht
  | ok ta =>
  cases htb : typeOf b with
  | error er => simp [htc, hta, htb] at ht
  | ok tb =>
  simp only [htc, hta, htb, ite_ok_iff, Except.ok.injEq] at ht
  obtain ⟨hvc, ⟨rfl, _⟩, rfl⟩ := ht
  simp only [defined, Bool.and_eq_true] at hd
  obtain ⟨rc, ec⟩ := ihc tc htc hd.1.1
  obtain ⟨ra, ea⟩ := iha _ hta hd.1.2
  obtain ⟨rb, eb⟩ := ihb _ htb hd.2
  have hC := C02.truth_correct env _ tc _ hvc rc ec
  have key := (C02.select_correct env _ _ _ ra rb).1 _ _ _ _ hC ea eb
  simp only [lower, htc, tyOr, evalSpec]
  rw [key]
  refine ⟨?_, ?_⟩ <;> cases (evalSpec c env).tru <;> simp [ra, rb]

theorem C02.case_sel (env : Env) (arg : Expr) (key : Int) (e rest : Expr) (iharg : Good env arg) (ihe : Good env e)
    (ihr : Good env rest) : Good env (.sel arg key e rest) := by
  intro t ht hd
  simp only [typeOf] at ht
  cases htg : typeOf arg with
  | error er => simp [htg] at ht
  | ok targ =>
  cases hte : typeOf e with
  | error er => simp [htg, hte] at ht
  | ok te =>
  cases htr : typeOf rest with
  | error er => simp [htg, hte, htr] at ht
  | ok tr =>
  simp only [htg, hte, htr, ite_ok_iff, Except.ok.injEq] at ht
  obtain ⟨hk, hf, ⟨rfl, _⟩, rfl⟩ := ht
  simp only [defined, Bool.and_eq_true] at hd
  obtain ⟨rg, eg⟩ := iharg targ htg hd.1.1
  obtain ⟨re, ee⟩ := ihe _ hte hd.1.2
  obtain ⟨rr, er⟩ := ihr _ htr hd.2
  have hsel := (C02.select_correct env _ _ _ re rr).2 targ _ key _ _ _ hk rg hf eg ee er
  simp only [lower, htg, tyOr, evalSpec]
  rw [hsel]
  refine ⟨?_, ?_⟩ <;> cases ((evalSpec arg env).num == key) <;> simp [re, rr]


/-! ### induction cases: ports, typed constants, Python ints, arithmetic, resize -/

theorem C02.case_port (env : Env) (i : Nat) (t : Ty) : Good env (.port i t) := by
  intro t' ht _
  cases t <;> simp [typeOf, ite_ok_iff] at ht
  · subst ht; simp [evalSpec, readPort, InRange, lower, evalV]
  · obtain ⟨hw, rfl⟩ := ht
    refine ⟨?_, by simp [evalSpec, lower, evalV]⟩
    simp only [evalSpec, readPort, wrap]
    exact ⟨hw, (wrapU_range _ _).1, (wrapU_range _ _).2⟩
  · obtain ⟨hw, rfl⟩ := ht
    refine ⟨?_, by simp [evalSpec, lower, evalV]⟩
    simp only [evalSpec, readPort, wrap]
    exact inRange_wrapU hw _
  · obtain ⟨hw, rfl⟩ := ht
    refine ⟨?_, by simp [evalSpec, lower, evalV]⟩
    simp only [evalSpec, readPort, wrap]
    exact inRange_wrapS hw _

theorem C02.case_lit (env : Env) (t : Ty) (v : Int) : Good env (.lit t v) := by
  intro t' ht _
  cases t <;> simp [typeOf, ite_ok_iff] at ht
  · obtain ⟨_, rfl⟩ := ht
    simp [evalSpec, InRange, lower, litV, evalV, inj]
  · obtain ⟨hw, hf, rfl⟩ := ht
    simp only [fits, Bool.and_eq_true, decide_eq_true_eq] at hf
    exact ⟨⟨hw, hf.1, hf.2⟩, by simp [evalSpec, lower, litV, evalV, inj, vkOf, Ty.width]⟩
  · obtain ⟨hw, hf, rfl⟩ := ht
    simp only [fits, Bool.and_eq_true, decide_eq_true_eq] at hf
    exact ⟨⟨hw, hf.1, hf.2⟩, by simp [evalSpec, lower, litV, evalV, inj, vkOf, Ty.width]⟩
  · obtain ⟨hw, hf, rfl⟩ := ht
    simp only [fits, Bool.and_eq_true, decide_eq_true_eq] at hf
    exact ⟨⟨hw, hf.1, hf.2⟩, by simp [evalSpec, lower, litV, evalV, inj, vkOf, Ty.width]⟩

theorem C02.case_intc (env : Env) (k : Int) : Good env (.intc k) := by
  intro t' ht _
  simp [typeOf] at ht; subst ht
  simp [evalSpec, InRange, lower, evalV, inj]

theorem C02.case_arith (env : Env) (op : AOp) (a b : Expr) (iha : Good env a) (ihb : Good env b) :
    Good env (.arith op a b) := by
  intro t ht hd
  simp only [typeOf] at ht
  cases hta : typeOf a with
  | error er => simp [hta] at ht
  | ok ta =>
  cases htb : typeOf b with
  | error er => simp [hta, htb] at ht
  | ok tb =>
  simp only [hta, htb] at ht
  simp only [defined, Bool.and_eq_true] at hd
  obtain ⟨⟨hda, hdb⟩, hdz⟩ := hd
  obtain ⟨ra, ea⟩ := iha ta hta hda
  obtain ⟨rb, eb⟩ := ihb tb htb hdb
  have hty : typeOf (.arith op a b) = .ok t := by simp only [typeOf, hta, htb]; exact ht
  have hdiv : isDivOp op → (evalSpec b env).num ≠ 0 := by
    intro h; rcases h with rfl | rfl | rfl <;> simpa using hdz
  simp only [lower, evalV, ea, eb, evalSpec, hty, tyOr]
  cases hva : evalSpec a env with
  | b xa => cases ta <;> cases tb <;> simp_all [arithTy, InRange]
  | n xa =>
  cases hvb : evalSpec b env with
  | b xb => cases ta <;> cases tb <;> simp_all [arithTy, InRange]
  | n xb =>
  rw [hva] at ra; rw [hvb] at rb hdiv
  simp only [Val.num] at hdiv ⊢
  cases ta <;> cases tb <;> simp only [arithTy] at ht
  all_goals try (simp at ht; done)
  · -- uns uns
    rename_i wa wb
    cases ht
    exact ⟨inRange_wrapU (arithVV_pos op ra.1 rb.1) _, C02.arith_uns_uns op wa wb xa xb ra rb hdiv⟩
  · -- uns int
    rename_i w
    cases hib : intVal b with
    | none => simp [hib] at ht
    | some k =>
      simp only [hib, ite_ok_iff] at ht
      obtain ⟨hf, ht⟩ := ht
      cases ht
      have hbk := intVal_some hib
      subst hbk
      simp only [evalSpec] at hvb
      cases hvb
      exact ⟨inRange_wrapU (arithVI_pos op ra.1) _, C02.arith_uns_int op w xa _ ra hf hdiv⟩
  · -- sgn sgn
    rename_i wa wb
    cases ht
    exact ⟨inRange_wrapS (arithVV_pos op ra.1 rb.1) _, C02.arith_sgn_sgn op wa wb xa xb ra rb hdiv⟩
  · -- sgn int
    rename_i w
    cases hib : intVal b with
    | none => simp [hib] at ht
    | some k =>
      simp only [hib, ite_ok_iff] at ht
      obtain ⟨hf, ht⟩ := ht
      cases ht
      have hbk := intVal_some hib
      subst hbk
      simp only [evalSpec] at hvb
      cases hvb
      exact ⟨inRange_wrapS (arithVI_pos op ra.1) _, C02.arith_sgn_int op w xa _ ra hf hdiv⟩
  · -- int uns
    rename_i w
    cases hia : intVal a with
    | none => simp [hia] at ht
    | some k =>
      simp only [hia, ite_ok_iff] at ht
      obtain ⟨hf, ht⟩ := ht
      cases ht
      have hak := intVal_some hia
      subst hak
      simp only [evalSpec] at hva
      cases hva
      exact ⟨inRange_wrapU (arithVI_pos op rb.1) _, C02.arith_int_uns op w xb _ rb hf hdiv⟩
  · -- int sgn
    rename_i w
    cases hia : intVal a with
    | none => simp [hia] at ht
    | some k =>
      simp only [hia, ite_ok_iff] at ht
      obtain ⟨hf, ht⟩ := ht
      cases ht
      have hak := intVal_some hia
      subst hak
      simp only [evalSpec] at hva
      cases hva
      exact ⟨inRange_wrapS (arithVI_pos op rb.1) _, C02.arith_int_sgn op w xb _ rb hf hdiv⟩

theorem C02.case_resize (env : Env) (a : Expr) (w : Nat) (iha : Good env a) : Good env (.resize a w) := by
  intro t ht hd
  simp only [typeOf] at ht
  cases hta : typeOf a with
  | error er => simp [hta] at ht
  | ok ta =>
  simp only [hta] at ht
  simp only [defined] at hd
  obtain ⟨ra, ea⟩ := iha ta hta hd
  cases hva : evalSpec a env with
  | b xa => cases ta <;> simp_all [InRange]
  | n xa =>
  rw [hva] at ra
  cases ta <;> simp only [ite_ok_iff] at ht
  all_goals try (simp at ht; done)
  · rename_i wa
    obtain ⟨hle, ht⟩ := ht; cases ht
    have hr := (C02.resize_preserves_value wa w xa hle).1 ra
    have hs : evalSpec (.resize a w) env = .n xa := by simp [evalSpec, hva, Val.num]
    rw [hs]
    refine ⟨⟨le_trans ra.1 hle, ra.2.1, lt_of_lt_of_le ra.2.2 (p2mono hle)⟩, ?_⟩
    simp only [lower, hta, tyOr, Ty.width]
    split
    · rename_i heq; subst heq; rw [ea, hva]
    · simp only [evalV, ea, hva]; exact hr
  · rename_i wa
    obtain ⟨hle, ht⟩ := ht; cases ht
    have hr := (C02.resize_preserves_value wa w xa hle).2 ra
    have hm : (2 : Int) ^ (wa - 1) ≤ 2 ^ (w - 1) := p2mono (by omega)
    have hs : evalSpec (.resize a w) env = .n xa := by simp [evalSpec, hva, Val.num]
    rw [hs]
    refine ⟨⟨le_trans ra.1 hle, by linarith [ra.2.1], lt_of_lt_of_le ra.2.2 hm⟩, ?_⟩
    simp only [lower, hta, tyOr, Ty.width]
    split
    · rename_i heq; subst heq; rw [ea, hva]
    · simp only [evalV, ea, hva]; exact hr


/-! ### implicit conversion of a result that drives a target of another type -/

/-- `target <<= x` (also: the arms of an if-expression / select_with typed by their target): Unsigned into a wider
    Unsigned or a STRICTLY wider Signed is zero-extended (`resize` acts on the unsigned value, the reinterpretation
    as signed comes afterwards), Signed into a wider Signed is sign-extended - the numeric value is preserved,
    also when the most significant bit of the Unsigned operand is set -/
theorem C02.conv_correct (wa w : Nat) (x : Int) :
    (InRange (.uns wa) (.n x) → wa ≤ w →
        vresizeV (inj (.uns wa) (.n x)) w = inj (.uns w) (.n x) ∧ InRange (.uns w) (.n x)) ∧
    (InRange (.sgn wa) (.n x) → wa ≤ w →
        vresizeV (inj (.sgn wa) (.n x)) w = inj (.sgn w) (.n x) ∧ InRange (.sgn w) (.n x)) ∧
    (InRange (.uns wa) (.n x) → wa < w →
        vconv .sgn (vconv .slv (vresizeV (inj (.uns wa) (.n x)) w)) = inj (.sgn w) (.n x) ∧ InRange (.sgn w) (.n x)) := by
  refine ⟨?_, ?_, ?_⟩
  · intro hr hw
    obtain ⟨h1, h0, hlt⟩ := hr
    exact ⟨(C02.resize_preserves_value wa w x hw).1 ⟨h1, h0, hlt⟩, le_trans h1 hw, h0, lt_of_lt_of_le hlt (p2mono hw)⟩
  · intro hr hw
    obtain ⟨h1, h0, hlt⟩ := hr
    have hm : (2 : Int) ^ (wa - 1) ≤ 2 ^ (w - 1) := p2mono (by omega)
    exact ⟨(C02.resize_preserves_value wa w x hw).2 ⟨h1, h0, hlt⟩, le_trans h1 hw, by linarith, lt_of_lt_of_le hlt hm⟩
  · intro hr hw
    obtain ⟨h1, h0, hlt⟩ := hr
    have hm : (2 : Int) ^ wa ≤ 2 ^ (w - 1) := p2mono (by omega)
    have hlt' : x < 2 ^ w := lt_of_lt_of_le hlt (p2mono (by omega))
    have e1 := enc_of_range h0 hlt
    have e2 := enc_of_range h0 hlt'
    have ee : enc wa x = enc w x := by exact_mod_cast e1.trans e2.symm
    have r := vresize_uns (le_of_lt hw) (enc_lt wa x)
    refine ⟨?_, by omega, by linarith [p2pos (w - 1)], lt_of_lt_of_le hlt hm⟩
    simp only [inj, vresizeV, r, vconv]
    rw [ee]

example : InRange (.uns 3) (.n 5) ∧ 3 < 5 := by simp [InRange]

theorem C02.case_conv (env : Env) (a : Expr) (tt : Ty) (iha : Good env a) : Good env (.conv a tt) := by
  intro t ht hd
  simp only [typeOf] at ht
  cases hta : typeOf a with
  | error er => simp [hta] at ht
  | ok ta =>
  simp only [hta] at ht
  simp only [defined] at hd
  obtain ⟨ra, ea⟩ := iha ta hta hd
  cases ta <;> cases tt <;> simp only [convTy, ite_ok_iff, Except.ok.injEq] at ht
  all_goals try (simp at ht; done)
  · -- bit -> bit
    subst ht
    simp only [lower, hta, tyOr, evalSpec]
    exact ⟨ra, ea⟩
  · -- bv -> bv
    obtain ⟨rfl, rfl⟩ := ht
    obtain ⟨x, hx, _, h0, h1⟩ := inR_bv ra
    simp only [lower, hta, tyOr, evalSpec, hx, Val.num, pat, wrapU_id h0 h1]
    rw [hx] at ra ea; exact ⟨ra, ea⟩
  · -- bv -> uns
    obtain ⟨rfl, rfl⟩ := ht
    obtain ⟨x, p, hx, iv, pl, pc, hw, _⟩ := vecView rfl ra
    have ra' := ra
    rw [hx] at ra'
    obtain ⟨_, h0, h1⟩ := ra'
    have hp : (p : Int) = x := by rw [pc]; exact wrapU_id h0 h1
    have key := (C02.view_correct .slv _ p hw pl).2.1
    simp only [lower, hta, tyOr, evalSpec, evalV, ea, iv, vkOf, Ty.width] at key ⊢
    simp only [hx, Val.num] at *
    rw [← hp]; exact ⟨key.2, key.1⟩
  · -- bv -> sgn
    obtain ⟨rfl, rfl⟩ := ht
    obtain ⟨x, p, hx, iv, pl, pc, hw, _⟩ := vecView rfl ra
    have ra' := ra
    rw [hx] at ra'
    obtain ⟨_, h0, h1⟩ := ra'
    have hp : (p : Int) = x := by rw [pc]; exact wrapU_id h0 h1
    have key := (C02.view_correct .slv _ p hw pl).1
    simp only [lower, hta, tyOr, evalSpec, evalV, ea, iv, vkOf, Ty.width] at key ⊢
    simp only [hx, Val.num] at *
    rw [← hp]; exact ⟨key.2, key.1⟩
  · -- uns -> bv
    obtain ⟨rfl, rfl⟩ := ht
    obtain ⟨x, p, hx, iv, pl, pc, hw, _⟩ := vecView rfl ra
    have ra' := ra
    rw [hx] at ra'
    obtain ⟨_, h0, h1⟩ := ra'
    have hp : (p : Int) = x := by rw [pc]; exact wrapU_id h0 h1
    have key := (C02.view_correct .uns _ p hw pl).2.2
    simp only [lower, hta, tyOr, evalSpec, evalV, ea, iv, vkOf, Ty.width] at key ⊢
    simp only [hx, Val.num] at *
    rw [← hp]; exact ⟨key.2, key.1⟩
  · -- uns -> uns
    obtain ⟨hw, rfl⟩ := ht
    obtain ⟨x, hx, _⟩ := inR_uns ra
    rw [hx] at ra ea
    have key := (C02.conv_correct _ _ x).1 ra hw
    simp only [lower, hta, tyOr, evalSpec, hx, Val.num]
    split
    · rename_i heq; subst heq; exact ⟨ra, ea⟩
    · simp only [evalV, ea]; exact ⟨key.2, key.1⟩
  · -- uns -> sgn
    obtain ⟨hw, rfl⟩ := ht
    obtain ⟨x, hx, _⟩ := inR_uns ra
    rw [hx] at ra ea
    have key := (C02.conv_correct _ _ x).2.2 ra hw
    simp only [lower, hta, tyOr, evalSpec, hx, Val.num, evalV, ea]
    exact ⟨key.2, key.1⟩
  · -- sgn -> bv
    obtain ⟨rfl, rfl⟩ := ht
    obtain ⟨x, p, hx, iv, pl, pc, hw, _⟩ := vecView rfl ra
    have key := (C02.view_correct .sgn _ p hw pl).2.2
    simp only [lower, hta, tyOr, evalSpec, evalV, ea, iv, vkOf, Ty.width] at key ⊢
    simp only [hx, Val.num] at *
    rw [← pc]; exact ⟨key.2, key.1⟩
  · -- sgn -> sgn
    obtain ⟨hw, rfl⟩ := ht
    obtain ⟨x, hx, _⟩ := inR_sgn ra
    rw [hx] at ra ea
    have key := (C02.conv_correct _ _ x).2.1 ra hw
    simp only [lower, hta, tyOr, evalSpec, hx, Val.num]
    split
    · rename_i heq; subst heq; exact ⟨ra, ea⟩
    · simp only [evalV, ea]; exact ⟨key.2, key.1⟩

/-! ### the induction over `Expr` -/


theorem C02.case_all (env : Env) (e : Expr) : Good env e := by
  induction e with
  | port i t => exact C02.case_port env i t
  | lit t v => exact C02.case_lit env t v
  | intc k => exact C02.case_intc env k
  | arith op a b iha ihb => exact C02.case_arith env op a b iha ihb
  | bitop op a b iha ihb => exact C02.case_bitop env op a b iha ihb
  | inv a iha => exact C02.case_inv env a iha
  | neg a iha => exact C02.case_neg env a iha
  | abs a iha => exact C02.case_abs env a iha
  | cmp op a b iha ihb => exact C02.case_cmp env op a b iha ihb
  | shl a n iha ihn => exact C02.case_shl env a n iha ihn
  | shr a n iha ihn => exact C02.case_shr env a n iha ihn
  | concat a b iha ihb => exact C02.case_concat env a b iha ihb
  | index a i iha => exact C02.case_index env a i iha
  | slice a hi lo iha => exact C02.case_slice env a hi lo iha
  | indexRt a n iha ihn => exact C02.case_indexRt env a n iha ihn
  | asSgn a iha => exact C02.case_asSgn env a iha
  | asUns a iha => exact C02.case_asUns env a iha
  | asBv a iha => exact C02.case_asBv env a iha
  | resize a w iha => exact C02.case_resize env a w iha
  | truth a iha => exact C02.case_truth env a iha
  | lnot a iha => exact C02.case_lnot env a iha
  | land a b iha ihb => exact C02.case_land env a b iha ihb
  | lor a b iha ihb => exact C02.case_lor env a b iha ihb
  | ite c a b ihc iha ihb => exact C02.case_ite env c a b ihc iha ihb
  | sel arg key e rest iharg ihe ihr => exact C02.case_sel env arg key e rest iharg ihe ihr
  | conv a t iha => exact C02.case_conv env a t iha


/-- C02 on the model, FULL strength: for every expression tree (all 27 constructors: ports, typed constants,
    Python ints on either side, + - * truncdiv % rem, & | ^ ~, neg, abs, all six comparisons, << >>, @, constant
    index / slice, run-time index, .signed / .unsigned / .bitvector, resize, bool() / not / and / or (hence chained
    comparisons and any / all), if-expression, select_with, implicit conversion of a result driving a target of another type), every width and every operand valuation of the
    documented domain (`defined`: no division by zero), the VHDL expression the back end prints evaluates under
    numeric_std / std_logic_1164 to the documented value with the documented type and width, and that value lies
    in the range of the type. -/
theorem C02.lower_correct (env : Env) (e : Expr) (t : Ty) (ht : typeOf e = .ok t) (hd : defined e env = true) :
    InRange t (evalSpec e env) ∧ evalV (lower e) env = inj t (evalSpec e env) :=
  C02.case_all env e t ht hd

/-- result type and width of the emitted expression are the documented ones -/
theorem C02.lower_type (env : Env) (e : Expr) (t : Ty) (ht : typeOf e = .ok t) (hd : defined e env = true) :
    ∃ v, InRange t v ∧ evalV (lower e) env = inj t v :=
  ⟨evalSpec e env, C02.lower_correct env e t ht hd⟩

/-- non-vacuity: a well-typed, defined expression using operators of several families
    `((p0 - 3) * p1.resize(3))[6:2].signed >> p2  if  (p0 < p1 and not p3)  else  -p4` -/
example :
    let e : Expr := .ite (.land (.cmp .lt (.port 0 (.sgn 4)) (.port 1 (.sgn 2))) (.lnot (.port 3 .bit)))
      (.shr (.asSgn (.slice (.arith .mul (.arith .sub (.port 0 (.sgn 4)) (.intc 3)) (.resize (.port 1 (.sgn 2)) 3)) 6 2))
            (.port 2 (.uns 2)))
      (.neg (.port 4 (.sgn 5)))
    typeOf e = .ok (.sgn 5) ∧ defined e [-8, -2, 3, 0, -16] = true := by
  decide

/-- a chained comparison `1 < a <= 9` and `any([a, x])` are instances (conjunction / disjunction of the parts) -/
example : typeOf (.land (.cmp .lt (.intc 1) (.port 0 (.uns 4))) (.cmp .le (.port 0 (.uns 4)) (.intc 9))) = .ok .bool ∧
    typeOf (.lor (.port 0 (.uns 4)) (.port 1 .bit)) = .ok .bool := by decide
