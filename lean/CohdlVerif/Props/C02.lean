/-! C02 - property theorems (declared with their full name `C02.<name>`; helper lemmas go to Lemmas/) -/
