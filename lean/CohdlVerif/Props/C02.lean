import CohdlVerif.Lemmas.C02Lemmas

/-!
  C02 - property theorems.  Model: CohdlVerif/Model/C02.lean (`typeOf`, `evalSpec`, `lower`, `evalV`),
  helper lemmas: CohdlVerif/Lemmas/C02Lemmas.lean.

  Full-strength statement of the property on the model:

      C02.lower_correct :  typeOf e = .ok t → defined e env = true →
                           evalV (lower e) env = inj t (evalSpec e env)           (all e, all widths, all env)

  i.e. the VHDL the back end prints for `e`, read with IEEE numeric_std / std_logic_1164, yields the documented
  value with the documented type and width (`inj t` fixes kind and length of the VHDL value).
  Proved here: one lemma per operator and operand-kind pair for the arithmetic operators (all six operators x
  {Unsigned, Signed} x {vector, Python int on either side}), the documented laws as corollaries, shifts,
  concatenation, resize, and the induction over `Expr` for the fragment `Frag` (ports, typed constants, Python
  ints, all arithmetic operators, resize) = `C02.lower_correct_partial`.  Missing for the full statement: the
  induction cases of the remaining constructors (bitwise, comparison, views, index / slice, boolean operators,
  if-expression, select_with); for those `evalV (lower e) = inj t (evalSpec e)` is evaluated by the model driver on
  every explored valuation (answer MODEL-MISMATCH, never seen) instead of being proved.
-/
open CohdlVerif.C02

namespace CohdlVerif.C02

/-- the fragment covered by the induction -/
inductive Frag : Expr → Prop
  | port (i t) : Frag (.port i t)
  | lit (t v) : Frag (.lit t v)
  | intc (k) : Frag (.intc k)
  | arith (op a b) : Frag a → Frag b → Frag (.arith op a b)
  | resize (a w) : Frag a → Frag (.resize a w)

def isDivOp (op : AOp) : Prop := op = .div ∨ op = .mod ∨ op = .rem

end CohdlVerif.C02

/-! ### one lemma per operator family and operand-kind pair (all six arithmetic operators each) -/

/-- Unsigned op Unsigned: operands zero-extended, result wraps modulo 2^(documented width) -/
theorem C02.arith_uns_uns (op : AOp) (wa wb : Nat) (x y : Int)
    (hx : InRange (.uns wa) (.n x)) (hy : InRange (.uns wb) (.n y)) (hd : isDivOp op → y ≠ 0) :
    vbin (.ofA op) (inj (.uns wa) (.n x)) (inj (.uns wb) (.n y))
      = inj (.uns (arithVV op wa wb)) (.n (wrapU (arithVV op wa wb) (aop op x y))) := by
  obtain ⟨hwa, hx0, hx1⟩ := hx
  obtain ⟨hwb, hy0, hy1⟩ := hy
  have ex := enc_of_range hx0 hx1
  have ey := enc_of_range hy0 hy1
  have la := enc_lt wa x
  have lb := enc_lt wb y
  have ra : ∀ W, wa ≤ W → vresize .uns wa (enc wa x) W = enc wa x := fun W h => vresize_uns h la
  have rb : ∀ W, wb ≤ W → vresize .uns wb (enc wb y) W = enc wb y := fun W h => vresize_uns h lb
  unfold isDivOp at hd
  cases op <;>
    simp [inj, vbin, VBin.ofA, arithVecVec, VBin.isDiv, vvW, arithVV, dec, nsOp, aop, enc_wrapU,
      ra, rb, ex, ey, nsDiv_eq, nsRem_eq, nsMod_eq, enc_eq_zero_iff hy0 hy1] <;>
    simp_all

example : InRange (.uns 4) (.n 13) ∧ InRange (.uns 3) (.n 5) := by
  constructor <;> simp [InRange]

/-- Signed op Signed: operands sign-extended, result wraps into the two's complement range -/
theorem C02.arith_sgn_sgn (op : AOp) (wa wb : Nat) (x y : Int)
    (hx : InRange (.sgn wa) (.n x)) (hy : InRange (.sgn wb) (.n y)) (hd : isDivOp op → y ≠ 0) :
    vbin (.ofA op) (inj (.sgn wa) (.n x)) (inj (.sgn wb) (.n y))
      = inj (.sgn (arithVV op wa wb)) (.n (wrapS (arithVV op wa wb) (aop op x y))) := by
  obtain ⟨hwa, hx0, hx1⟩ := hx
  obtain ⟨hwb, hy0, hy1⟩ := hy
  have ex := sInt_enc_id hwa hx0 hx1
  have ey := sInt_enc_id hwb hy0 hy1
  have la := enc_lt wa x
  have lb := enc_lt wb y
  have ra : ∀ W, wa ≤ W → sInt W (vresize .sgn wa (enc wa x) W) = x := fun W h => by
    rw [sInt_vresize hwa h la, ex]
  have rb : ∀ W, wb ≤ W → sInt W (vresize .sgn wb (enc wb y) W) = y := fun W h => by
    rw [sInt_vresize hwb h lb, ey]
  unfold isDivOp at hd
  cases op <;>
    simp [inj, vbin, VBin.ofA, arithVecVec, VBin.isDiv, vvW, arithVV, dec, nsOp, aop, enc_wrapS,
      ra, rb, ex, ey, nsDiv_eq, nsRem_eq, nsMod_eq, enc_eq_zero_iff_s hwb hy0 hy1] <;>
    simp_all

example : InRange (.sgn 4) (.n (-8)) ∧ InRange (.sgn 3) (.n (-1)) := by
  constructor <;> simp [InRange]

/-- Unsigned op Python int (int representable in the vector's width) -/
theorem C02.arith_uns_int (op : AOp) (w : Nat) (x k : Int)
    (hx : InRange (.uns w) (.n x)) (hk : fits (.uns w) k = true) (hd : isDivOp op → k ≠ 0) :
    vbin (.ofA op) (inj (.uns w) (.n x)) (inj .int (.n k))
      = inj (.uns (arithVI op w)) (.n (wrapU (arithVI op w) (aop op x k))) := by
  obtain ⟨hw, hx0, hx1⟩ := hx
  simp only [fits, Bool.and_eq_true, decide_eq_true_eq] at hk
  obtain ⟨hk0, hk1⟩ := hk
  have ex := enc_of_range hx0 hx1
  have ek := enc_of_range hk0 hk1
  have hk' : ¬ k < 0 := by omega
  unfold isDivOp at hd
  cases op <;>
    simp [inj, vbin, VBin.ofA, arithVecInt, VBin.isDiv, arithVI, dec, nsOp, aop, enc_wrapU,
      ex, ek, hk', nsDiv_eq, nsRem_eq, nsMod_eq] <;>
    simp_all

/-- Python int op Unsigned -/
theorem C02.arith_int_uns (op : AOp) (w : Nat) (x k : Int)
    (hx : InRange (.uns w) (.n x)) (hk : fits (.uns w) k = true) (hd : isDivOp op → x ≠ 0) :
    vbin (.ofA op) (inj .int (.n k)) (inj (.uns w) (.n x))
      = inj (.uns (arithVI op w)) (.n (wrapU (arithVI op w) (aop op k x))) := by
  obtain ⟨hw, hx0, hx1⟩ := hx
  simp only [fits, Bool.and_eq_true, decide_eq_true_eq] at hk
  obtain ⟨hk0, hk1⟩ := hk
  have ex := enc_of_range hx0 hx1
  have ek := enc_of_range hk0 hk1
  have hk' : ¬ k < 0 := by omega
  unfold isDivOp at hd
  cases op <;>
    simp [inj, vbin, VBin.ofA, arithVecInt, VBin.isDiv, arithVI, dec, nsOp, aop, enc_wrapU,
      ex, ek, hk', nsDiv_eq, nsRem_eq, nsMod_eq] <;>
    simp_all

/-- Signed op Python int -/
theorem C02.arith_sgn_int (op : AOp) (w : Nat) (x k : Int)
    (hx : InRange (.sgn w) (.n x)) (hk : fits (.sgn w) k = true) (hd : isDivOp op → k ≠ 0) :
    vbin (.ofA op) (inj (.sgn w) (.n x)) (inj .int (.n k))
      = inj (.sgn (arithVI op w)) (.n (wrapS (arithVI op w) (aop op x k))) := by
  obtain ⟨hw, hx0, hx1⟩ := hx
  simp only [fits, Bool.and_eq_true, decide_eq_true_eq] at hk
  obtain ⟨hk0, hk1⟩ := hk
  have ex := sInt_enc_id hw hx0 hx1
  have ek := sInt_enc_id hw hk0 hk1
  unfold isDivOp at hd
  cases op <;>
    simp [inj, vbin, VBin.ofA, arithVecInt, VBin.isDiv, arithVI, dec, nsOp, aop, enc_wrapS,
      ex, ek, nsDiv_eq, nsRem_eq, nsMod_eq] <;>
    simp_all

/-- Python int op Signed -/
theorem C02.arith_int_sgn (op : AOp) (w : Nat) (x k : Int)
    (hx : InRange (.sgn w) (.n x)) (hk : fits (.sgn w) k = true) (hd : isDivOp op → x ≠ 0) :
    vbin (.ofA op) (inj .int (.n k)) (inj (.sgn w) (.n x))
      = inj (.sgn (arithVI op w)) (.n (wrapS (arithVI op w) (aop op k x))) := by
  obtain ⟨hw, hx0, hx1⟩ := hx
  simp only [fits, Bool.and_eq_true, decide_eq_true_eq] at hk
  obtain ⟨hk0, hk1⟩ := hk
  have ex := sInt_enc_id hw hx0 hx1
  have ek := sInt_enc_id hw hk0 hk1
  unfold isDivOp at hd
  cases op <;>
    simp [inj, vbin, VBin.ofA, arithVecInt, VBin.isDiv, arithVI, dec, nsOp, aop, enc_wrapS,
      ex, ek, nsDiv_eq, nsRem_eq, nsMod_eq] <;>
    simp_all

example : fits (.sgn 4) (-8) = true ∧ fits (.uns 4) 15 = true := by decide
/-- `+`/`-` wrap modulo 2^max(width): documented law -/
theorem C02.add_wraps_max_width (wa wb : Nat) (x y : Int)
    (hx : InRange (.uns wa) (.n x)) (hy : InRange (.uns wb) (.n y)) :
    vbin .add (inj (.uns wa) (.n x)) (inj (.uns wb) (.n y))
      = inj (.uns (max wa wb)) (.n ((x + y) % 2 ^ (max wa wb))) ∧
    vbin .sub (inj (.uns wa) (.n x)) (inj (.uns wb) (.n y))
      = inj (.uns (max wa wb)) (.n ((x - y) % 2 ^ (max wa wb))) := by
  have h1 := C02.arith_uns_uns .add wa wb x y hx hy (by simp [isDivOp])
  have h2 := C02.arith_uns_uns .sub wa wb x y hx hy (by simp [isDivOp])
  exact ⟨h1, h2⟩

/-- `*` has the sum of the widths and never overflows it -/
theorem C02.mul_width_sum (wa wb : Nat) (x y : Int)
    (hx : InRange (.uns wa) (.n x)) (hy : InRange (.uns wb) (.n y)) :
    vbin .mul (inj (.uns wa) (.n x)) (inj (.uns wb) (.n y)) = inj (.uns (wa + wb)) (.n (x * y)) := by
  have h := C02.arith_uns_uns .mul wa wb x y hx hy (by simp [isDivOp])
  obtain ⟨_, hx0, hx1⟩ := hx
  obtain ⟨_, hy0, hy1⟩ := hy
  have : x * y < 2 ^ (wa + wb) := by
    rw [pow_add]; exact mul_lt_mul'' hx1 hy1 hx0 hy0
  simp only [VBin.ofA, arithVV, aop] at h
  rw [h, wrapU_id (mul_nonneg hx0 hy0) this]

/-- truncating division has the dividend's width, Signed: rounds toward zero, wraps (only -min / -1) -/
theorem C02.truncdiv_dividend_width (wa wb : Nat) (x y : Int)
    (hx : InRange (.sgn wa) (.n x)) (hy : InRange (.sgn wb) (.n y)) (hy0 : y ≠ 0) :
    vbin .div (inj (.sgn wa) (.n x)) (inj (.sgn wb) (.n y)) = inj (.sgn wa) (.n (wrapS wa (Int.tdiv x y))) :=
  C02.arith_sgn_sgn .div wa wb x y hx hy (fun _ => hy0)

/-- `%` takes the sign of the divisor, `rem` of the dividend; both have the divisor's width -/
theorem C02.mod_rem_divisor_width (wa wb : Nat) (x y : Int)
    (hx : InRange (.sgn wa) (.n x)) (hy : InRange (.sgn wb) (.n y)) (hy0 : y ≠ 0) :
    vbin .mod (inj (.sgn wa) (.n x)) (inj (.sgn wb) (.n y)) = inj (.sgn wb) (.n (wrapS wb (Int.fmod x y))) ∧
    vbin .rem (inj (.sgn wa) (.n x)) (inj (.sgn wb) (.n y)) = inj (.sgn wb) (.n (wrapS wb (Int.tmod x y))) :=
  ⟨C02.arith_sgn_sgn .mod wa wb x y hx hy (fun _ => hy0), C02.arith_sgn_sgn .rem wa wb x y hx hy (fun _ => hy0)⟩

example : InRange (.sgn 4) (.n (-7)) ∧ InRange (.sgn 3) (.n 3) ∧ (3 : Int) ≠ 0 := by
  refine ⟨by simp [InRange], by simp [InRange], by decide⟩

/-- the left operand of `@` forms the most significant bits -/
theorem C02.concat_left_is_msb (ka kb : VK) (wa wb pa pb : Nat) (hb : pb < 2 ^ wb) :
    vbin .cat (vconv .slv (.vec ka wa pa)) (vconv .slv (.vec kb wb pb)) = .vec .slv (wa + wb) (pa * 2 ^ wb + pb) ∧
    (pa * 2 ^ wb + pb) / 2 ^ wb = pa ∧ (pa * 2 ^ wb + pb) % 2 ^ wb = pb := by
  refine ⟨by simp [vbin, vconv], ?_, ?_⟩
  · rw [Nat.add_comm, Nat.add_mul_div_right _ _ (Nat.two_pow_pos wb), Nat.div_eq_of_lt hb]; simp
  · rw [Nat.add_comm, Nat.add_mul_mod_self_right, Nat.mod_eq_of_lt hb]

/-- resize (zero extension for Unsigned, sign extension for Signed) preserves the value -/
theorem C02.resize_preserves_value (w w' : Nat) (x : Int) (hw : w ≤ w') :
    (InRange (.uns w) (.n x) → vresizeV (inj (.uns w) (.n x)) w' = inj (.uns w') (.n x)) ∧
    (InRange (.sgn w) (.n x) → vresizeV (inj (.sgn w) (.n x)) w' = inj (.sgn w') (.n x)) := by
  constructor
  · rintro ⟨h1, h0, hlt⟩
    have hlt' : x < 2 ^ w' := lt_of_lt_of_le hlt (p2mono hw)
    have e1 := enc_of_range h0 hlt
    have e2 := enc_of_range h0 hlt'
    have : enc w x = enc w' x := by exact_mod_cast e1.trans e2.symm
    have r := vresize_uns hw (enc_lt w x)
    simp only [inj, vresizeV, r]
    rw [this]
  · rintro ⟨h1, h0, hlt⟩
    have hm : (2 : Int) ^ (w - 1) ≤ 2 ^ (w' - 1) := p2mono (by omega)
    have key := sInt_vresize h1 hw (enc_lt w x)
    rw [sInt_enc_id h1 h0 hlt] at key
    have lt' := vresize_sgn_lt h1 hw (enc_lt w x)
    have := enc_sInt lt'
    rw [key] at this
    simp [inj, vresizeV, this]


/-! ### the induction over `Expr` (fragment `Frag`: ports, typed constants, Python ints, all arithmetic
    operators with every operand-kind pair, resize) -/

/-- C02 on the model, fragment `Frag`: for every expression of the fragment, every width, every operand
    valuation of the documented domain (no division by zero): the emitted VHDL expression evaluates under
    numeric_std to the documented value, with the documented type and width, and that value is in range.
    FULL statement (`C02.lower_correct`): the same without `Frag e`; missing: the induction cases of the other
    constructors (see the header of this file). -/
theorem C02.lower_correct_partial (env : Env) (e : Expr) (hF : Frag e) :
    ∀ t, typeOf e = .ok t → defined e env = true →
      InRange t (evalSpec e env) ∧ evalV (lower e) env = inj t (evalSpec e env) := by
  induction hF with
  | port i t =>
    intro t' ht _
    cases t <;> simp [typeOf, ite_ok_iff] at ht
    · subst ht; simp [evalSpec, readPort, InRange, lower, evalV]
    · obtain ⟨hw, rfl⟩ := ht
      refine ⟨?_, by simp [evalSpec, lower, evalV]⟩
      simp only [evalSpec, readPort, wrap]
      exact ⟨hw, (wrapU_range _ _).1, (wrapU_range _ _).2⟩
    · obtain ⟨hw, rfl⟩ := ht
      refine ⟨?_, by simp [evalSpec, lower, evalV]⟩
      simp only [evalSpec, readPort, wrap]
      exact inRange_wrapU hw _
    · obtain ⟨hw, rfl⟩ := ht
      refine ⟨?_, by simp [evalSpec, lower, evalV]⟩
      simp only [evalSpec, readPort, wrap]
      exact inRange_wrapS hw _
  | lit t v =>
    intro t' ht _
    cases t <;> simp [typeOf, ite_ok_iff] at ht
    · obtain ⟨_, rfl⟩ := ht
      simp [evalSpec, InRange, lower, litV, evalV, inj]
    · obtain ⟨hw, hf, rfl⟩ := ht
      simp only [fits, Bool.and_eq_true, decide_eq_true_eq] at hf
      exact ⟨⟨hw, hf.1, hf.2⟩, by simp [evalSpec, lower, litV, evalV, inj, vkOf, Ty.width]⟩
    · obtain ⟨hw, hf, rfl⟩ := ht
      simp only [fits, Bool.and_eq_true, decide_eq_true_eq] at hf
      exact ⟨⟨hw, hf.1, hf.2⟩, by simp [evalSpec, lower, litV, evalV, inj, vkOf, Ty.width]⟩
    · obtain ⟨hw, hf, rfl⟩ := ht
      simp only [fits, Bool.and_eq_true, decide_eq_true_eq] at hf
      exact ⟨⟨hw, hf.1, hf.2⟩, by simp [evalSpec, lower, litV, evalV, inj, vkOf, Ty.width]⟩
  | intc k =>
    intro t' ht _
    simp [typeOf] at ht; subst ht
    simp [evalSpec, InRange, lower, evalV, inj]
  | arith op a b _ _ iha ihb =>
    intro t ht hd
    simp only [typeOf] at ht
    cases hta : typeOf a with
    | error er => simp [hta] at ht
    | ok ta =>
    cases htb : typeOf b with
    | error er => simp [hta, htb] at ht
    | ok tb =>
    simp only [hta, htb] at ht
    simp only [defined, Bool.and_eq_true] at hd
    obtain ⟨⟨hda, hdb⟩, hdz⟩ := hd
    obtain ⟨ra, ea⟩ := iha ta hta hda
    obtain ⟨rb, eb⟩ := ihb tb htb hdb
    have hty : typeOf (.arith op a b) = .ok t := by simp only [typeOf, hta, htb]; exact ht
    have hdiv : isDivOp op → (evalSpec b env).num ≠ 0 := by
      intro h; rcases h with rfl | rfl | rfl <;> simpa using hdz
    simp only [lower, evalV, ea, eb, evalSpec, hty, tyOr]
    cases hva : evalSpec a env with
    | b xa => cases ta <;> cases tb <;> simp_all [arithTy, InRange]
    | n xa =>
    cases hvb : evalSpec b env with
    | b xb => cases ta <;> cases tb <;> simp_all [arithTy, InRange]
    | n xb =>
    rw [hva] at ra; rw [hvb] at rb hdiv
    simp only [Val.num] at hdiv ⊢
    cases ta <;> cases tb <;> simp only [arithTy] at ht
    all_goals try (simp at ht; done)
    · -- uns uns
      rename_i wa wb
      cases ht
      exact ⟨inRange_wrapU (arithVV_pos op ra.1 rb.1) _, C02.arith_uns_uns op wa wb xa xb ra rb hdiv⟩
    · -- uns int
      rename_i w
      cases hib : intVal b with
      | none => simp [hib] at ht
      | some k =>
        simp only [hib, ite_ok_iff] at ht
        obtain ⟨hf, ht⟩ := ht
        cases ht
        have hbk := intVal_some hib
        subst hbk
        simp only [evalSpec] at hvb
        cases hvb
        exact ⟨inRange_wrapU (arithVI_pos op ra.1) _, C02.arith_uns_int op w xa _ ra hf hdiv⟩
    · -- sgn sgn
      rename_i wa wb
      cases ht
      exact ⟨inRange_wrapS (arithVV_pos op ra.1 rb.1) _, C02.arith_sgn_sgn op wa wb xa xb ra rb hdiv⟩
    · -- sgn int
      rename_i w
      cases hib : intVal b with
      | none => simp [hib] at ht
      | some k =>
        simp only [hib, ite_ok_iff] at ht
        obtain ⟨hf, ht⟩ := ht
        cases ht
        have hbk := intVal_some hib
        subst hbk
        simp only [evalSpec] at hvb
        cases hvb
        exact ⟨inRange_wrapS (arithVI_pos op ra.1) _, C02.arith_sgn_int op w xa _ ra hf hdiv⟩
    · -- int uns
      rename_i w
      cases hia : intVal a with
      | none => simp [hia] at ht
      | some k =>
        simp only [hia, ite_ok_iff] at ht
        obtain ⟨hf, ht⟩ := ht
        cases ht
        have hak := intVal_some hia
        subst hak
        simp only [evalSpec] at hva
        cases hva
        exact ⟨inRange_wrapU (arithVI_pos op rb.1) _, C02.arith_int_uns op w xb _ rb hf hdiv⟩
    · -- int sgn
      rename_i w
      cases hia : intVal a with
      | none => simp [hia] at ht
      | some k =>
        simp only [hia, ite_ok_iff] at ht
        obtain ⟨hf, ht⟩ := ht
        cases ht
        have hak := intVal_some hia
        subst hak
        simp only [evalSpec] at hva
        cases hva
        exact ⟨inRange_wrapS (arithVI_pos op rb.1) _, C02.arith_int_sgn op w xb _ rb hf hdiv⟩
  | resize a w _ iha =>
    intro t ht hd
    simp only [typeOf] at ht
    cases hta : typeOf a with
    | error er => simp [hta] at ht
    | ok ta =>
    simp only [hta] at ht
    simp only [defined] at hd
    obtain ⟨ra, ea⟩ := iha ta hta hd
    cases hva : evalSpec a env with
    | b xa => cases ta <;> simp_all [InRange]
    | n xa =>
    rw [hva] at ra
    cases ta <;> simp only [ite_ok_iff] at ht
    all_goals try (simp at ht; done)
    · rename_i wa
      obtain ⟨hle, ht⟩ := ht; cases ht
      have hr := (C02.resize_preserves_value wa w xa hle).1 ra
      have hs : evalSpec (.resize a w) env = .n xa := by simp [evalSpec, hva, Val.num]
      rw [hs]
      refine ⟨⟨le_trans ra.1 hle, ra.2.1, lt_of_lt_of_le ra.2.2 (p2mono hle)⟩, ?_⟩
      simp only [lower, hta, tyOr, Ty.width]
      split
      · rename_i heq; subst heq; rw [ea, hva]
      · simp only [evalV, ea, hva]; exact hr
    · rename_i wa
      obtain ⟨hle, ht⟩ := ht; cases ht
      have hr := (C02.resize_preserves_value wa w xa hle).2 ra
      have hm : (2 : Int) ^ (wa - 1) ≤ 2 ^ (w - 1) := p2mono (by omega)
      have hs : evalSpec (.resize a w) env = .n xa := by simp [evalSpec, hva, Val.num]
      rw [hs]
      refine ⟨⟨le_trans ra.1 hle, by linarith [ra.2.1], lt_of_lt_of_le ra.2.2 hm⟩, ?_⟩
      simp only [lower, hta, tyOr, Ty.width]
      split
      · rename_i heq; subst heq; rw [ea, hva]
      · simp only [evalV, ea, hva]; exact hr


/-- result type and width of the emitted expression are the documented ones (fragment) -/
theorem C02.lower_type_partial (env : Env) (e : Expr) (hF : Frag e) (t : Ty)
    (ht : typeOf e = .ok t) (hd : defined e env = true) :
    ∃ v, InRange t v ∧ evalV (lower e) env = inj t v :=
  ⟨evalSpec e env, C02.lower_correct_partial env e hF t ht hd⟩

/-- non-vacuity: `(p0 - 3) * p1 rem ...` style instance - a well-typed, defined expression of the fragment -/
example : Frag (.arith .mul (.arith .sub (.port 0 (.sgn 4)) (.intc 3)) (.resize (.port 1 (.sgn 2)) 3)) ∧
    typeOf (.arith .mul (.arith .sub (.port 0 (.sgn 4)) (.intc 3)) (.resize (.port 1 (.sgn 2)) 3)) = .ok (.sgn 7) ∧
    defined (.arith .mul (.arith .sub (.port 0 (.sgn 4)) (.intc 3)) (.resize (.port 1 (.sgn 2)) 3)) [-8, -2] = true := by
  refine ⟨.arith _ _ _ (.arith _ _ _ (.port _ _) (.intc _)) (.resize _ _ (.port _ _)), by decide, by decide⟩

/-! ### shifts -/

/-- `>>` is a logical shift for Unsigned (zeros enter on the left: floor division by 2^n), and for Signed
    operands with the sign bit clear.  FULL statement (`C02.shr_logical_unsigned_arith_signed`): additionally,
    for negative Signed `x`, `vshiftR (inj (.sgn w) (.n x)) (.int n) = inj (.sgn w) (.n (x / 2 ^ n))` (sign bits
    enter on the left = floor division of the negative value); that case is not proved here - it is
    evaluated by the model driver on every explored valuation (matrix of the check: all values of widths <= 4,
    shift amounts 0 .. w+1). -/
theorem C02.shr_logical_unsigned_arith_signed_partial (w n : Nat) (x : Int) :
    (InRange (.uns w) (.n x) → vshiftR (inj (.uns w) (.n x)) (.int n) = inj (.uns w) (.n (x / 2 ^ n))) ∧
    (InRange (.sgn w) (.n x) → 0 ≤ x → vshiftR (inj (.sgn w) (.n x)) (.int n) = inj (.sgn w) (.n (x / 2 ^ n))) := by
  constructor
  · rintro ⟨_, h0, h1⟩
    simp [inj, vshiftR, enc_shr_nonneg h0 h1]
  · rintro ⟨hw, _, h1⟩ h0
    have hh := p2half hw
    have h1' : x < 2 ^ w := by linarith [p2pos (w - 1)]
    have e1 := enc_of_range h0 h1'
    have hlt : enc w x < 2 ^ (w - 1) := by
      have : ((enc w x : Nat) : Int) < 2 ^ (w - 1) := by rw [e1]; exact h1
      exact_mod_cast this
    simp [inj, vshiftR, hlt, enc_shr_nonneg h0 h1']

example : InRange (.sgn 4) (.n 5) ∧ (0 : Int) ≤ 5 := by simp [InRange]

/-- `<<` drops the bits shifted out on the left: multiplication by 2^n modulo 2^width (Unsigned) -/
theorem C02.shl_wraps (w n : Nat) (x : Int) (hx : InRange (.uns w) (.n x)) :
    vshiftL (inj (.uns w) (.n x)) (.int n) = inj (.uns w) (.n (wrapU w (x * 2 ^ n))) := by
  obtain ⟨_, h0, h1⟩ := hx
  have e1 := enc_of_range h0 h1
  have : (enc w x * 2 ^ n) % 2 ^ w = enc w (x * 2 ^ n) := by
    have : (((enc w x * 2 ^ n) % 2 ^ w : Nat) : Int) = ((enc w (x * 2 ^ n) : Nat) : Int) := by
      rw [enc_cast]; push_cast; rw [e1]
    exact_mod_cast this
  simp [inj, vshiftL, this, enc_wrapU]
