import CohdlVerif.Lemmas.C03Lemmas

/-! C03 - property theorems (declared with their full name `C03.<name>`; helper lemmas are in Lemmas/C03Lemmas.lean).

  The documented laws of a sequential context are theorems about the source-level semantics
  `Seq.activate` / `exec` (Model/C03.lean) for ALL bodies and states (structural induction over statements
  in the lemmas); `C03.lowerSeq_correct` relates it to the target-level reading of the emitted process. -/
open CohdlVerif.C03

/-- the state in which the body of an activation starts -/
abbrev CohdlVerif.C03.start (s : St) (i : Loc → Option Bool) : St := clearPend (setInputs i s)

/-! ## a signal assigned with `<<=` changes only after the activation: reads still see the old value -/

/-- Whatever ran before (`p`: any statements, any path), the signal store an expression reads is still the one
    the activation started with; an expression over signals evaluates to the same value at every point. -/
theorem C03.signal_read_sees_old (p : Stmt) (s : St) :
    (exec p s).1.sig = s.sig ∧ ∀ e : Expr, sigOnly e = true → eval e (exec p s).1 = eval e s :=
  ⟨exec_sig p s, fun e h => eval_sigOnly e _ _ h (exec_sig p s)⟩

/-- non-vacuity: `s0 <<= s0 + 1 ; o0 <<= s0` - o0 gets the OLD s0 (5), s0 becomes 6 -/
example :
    let s : St := ⟨fun l => (5 : Nat).testBit l.2.2 && l.1 == 11, fun _ => false, fun _ => none, fun _ => 0⟩
    let body := Stmt.seq (.assign .next ⟨11, .const 0, 0, 8⟩ (.add 8 (.rd .sig 11 (.const 0) 0 8) (.const 1)))
                         (.assign .next ⟨7, .const 0, 0, 8⟩ (.rd .sig 11 (.const 0) 0 8))
    let s' := Seq.activate (fun _ => none) body s (fun _ => none)
    (eval (.rd .sig 7 (.const 0) 0 8) s', eval (.rd .sig 11 (.const 0) 0 8) s') = (5, 6) := by decide

/-! ## the last assignment executed wins (per bit of a slice / array element) -/

/-- After any prefix `p` that does not return, an assignment `t <<= e` (or `t ^= e`) determines every bit it covers -
    whatever `p` assigned to them - and leaves all other locations as `p` left them. -/
theorem C03.last_assignment_wins (dflt : Loc → Option Bool) (p : Stmt) (m : Mode) (hm : m ≠ .value) (t : Target) (e : Expr)
    (s : St) (i : Loc → Option Bool) (hp : (exec p (start s i)).2 = false) (l : Loc) :
    (Seq.activate dflt (.seq p (.assign m t e)) s i).sig l =
      if inRange l t.obj (eval t.idx (exec p (start s i)).1) t.lo t.w
      then (eval e (exec p (start s i)).1).testBit (l.2.2 - t.lo)
      else (Seq.activate dflt p s i).sig l := by
  have hp' : (exec p (clearPend (setInputs i s))).2 = false := hp
  have hx : (exec (.seq p (.assign m t e)) (clearPend (setInputs i s))).1
      = doAssign m t (eval e (exec p (clearPend (setInputs i s))).1) (exec p (clearPend (setInputs i s))).1 := by
    simp [exec, hp']
  simp only [Seq.activate, start]
  rw [hx]
  cases m with
  | value => exact absurd rfl hm
  | next =>
    simp only [commit, doAssign, writeBits]
    by_cases hR : inRange l t.obj (eval t.idx (exec p (clearPend (setInputs i s))).1) t.lo t.w = true
    · simp [hR]
    · simp [hR]
  | push =>
    simp only [commit, doAssign, writeBits]
    by_cases hR : inRange l t.obj (eval t.idx (exec p (clearPend (setInputs i s))).1) t.lo t.w = true
    · simp [hR]
    · simp [hR]

example : (exec (Stmt.assign .next ⟨7, .const 0, 0, 8⟩ (.const 1)) (start ⟨fun _ => false, fun _ => false, fun _ => none, fun _ => 0⟩ (fun _ => none))).2 = false := rfl

/-! ## a signal not assigned on the executed path holds its value -/

/-- dynamic form (nothing pending for the location when the body ends) and static form (no assignment to the object
    anywhere in the body): the committed value is the old one.  `dflt l = none`: not a pushed signal. -/
theorem C03.unassigned_holds (dflt : Loc → Option Bool) (body : Stmt) (s : St) (i : Loc → Option Bool) (l : Loc)
    (hd : dflt l = none) :
    ((exec body (start s i)).1.pend l = none → (Seq.activate dflt body s i).sig l = (setInputs i s).sig l) ∧
    (writesObj body l.1 = false → (Seq.activate dflt body s i).sig l = (setInputs i s).sig l) := by
  have key : (exec body (start s i)).1.pend l = none → (Seq.activate dflt body s i).sig l = (setInputs i s).sig l := by
    intro h
    simp only [Seq.activate, commit, h, hd, exec_sig]
    rfl
  refine ⟨key, fun h => key ?_⟩
  rw [exec_pend_frame body l.1 _ h l rfl]
  rfl

example : writesObj (Stmt.ite (.const 1) (.assign .next ⟨7, .const 0, 0, 8⟩ (.const 1)) .skip) 8 = false := by decide

/-! ## a variable assigned with `@=` changes immediately -/

/-- The statements after `t @= e` run in the state in which the variable already has its new value, and a read of the
    same bits of the same element returns the assigned value (truncated to the target width). -/
theorem C03.variable_immediate (t : Target) (e : Expr) (q : Stmt) (s : St) :
    exec (.seq (.assign .value t e) q) s = exec q (doAssign .value t (eval e s) s) ∧
    eval (.rd .var t.obj (.const (eval t.idx s)) t.lo t.w) (doAssign .value t (eval e s) s) = eval e s % 2 ^ t.w := by
  constructor
  · simp [exec]
  · simp only [eval, doAssign, store]
    rw [← bitsToNat_testBit]
    apply bitsToNat_congr
    intro b hb
    simp [writeBits, inRange, hb]

/-- non-vacuity / contrast: `v @= v + v ; o <<= v` sees the doubled value, whereas a signal would not -/
example :
    let s : St := ⟨fun _ => false, fun l => (3 : Nat).testBit l.2.2 && l.1 == 14, fun _ => none, fun _ => 0⟩
    let v := Expr.rd .var 14 (.const 0) 0 8
    let body := Stmt.seq (.assign .value ⟨14, .const 0, 0, 8⟩ (.add 8 v v)) (.assign .next ⟨7, .const 0, 0, 8⟩ v)
    eval (.rd .sig 7 (.const 0) 0 8) (Seq.activate (fun _ => none) body s (fun _ => none)) = 6 := by decide

/-! ## a signal assigned with `^=` carries the pushed value for exactly one step, its default otherwise -/

/-- For every bit of a pushed signal (default `d`): after the activation it holds the value pushed last in THIS
    activation if any push was executed, and the default `d` otherwise - independent of what it held before;
    in particular the default in every activation whose body contains no push to the object. -/
theorem C03.push_exactly_one_step (dflt : Loc → Option Bool) (body : Stmt) (s : St) (i : Loc → Option Bool) (l : Loc)
    (d : Bool) (hd : dflt l = some d) :
    (Seq.activate dflt body s i).sig l = ((exec body (start s i)).1.pend l).getD d ∧
    (writesObj body l.1 = false → (Seq.activate dflt body s i).sig l = d) := by
  have key : (Seq.activate dflt body s i).sig l = ((exec body (start s i)).1.pend l).getD d := by
    simp only [Seq.activate, commit, hd]
    cases (exec body (clearPend (setInputs i s))).1.pend l <;> rfl
  refine ⟨key, fun h => ?_⟩
  rw [key, exec_pend_frame body l.1 _ h l rfl]
  rfl

/-- non-vacuity: p0 (object 12, default 6, old value 200) pushed with 9 when c0 (object 0) is set: 9 in that step, 6 in a step without push -/
example :
    let dflt : Loc → Option Bool := fun l => if l.1 == 12 then some ((6 : Nat).testBit l.2.2) else none
    let s : St := ⟨fun l => (200 : Nat).testBit l.2.2 && l.1 == 12, fun _ => false, fun _ => none, fun _ => 0⟩
    let body := Stmt.ite (.rd .sig 0 (.const 0) 0 1) (.assign .push ⟨12, .const 0, 0, 8⟩ (.const 9)) .skip
    let on : Loc → Option Bool := fun l => if l.1 == 0 then some true else none
    let off : Loc → Option Bool := fun l => if l.1 == 0 then some false else none
    let s1 := Seq.activate dflt body s on
    let s2 := Seq.activate dflt body s1 off
    (eval (.rd .sig 12 (.const 0) 0 8) s1, eval (.rd .sig 12 (.const 0) 0 8) s2) = (9, 6) := by decide

/-! ## conditional constructs execute exactly the first branch whose condition holds, or the default -/

/-- if / elif / else, for-break and for-return chains (`chain`), and `match` (`matchChain`): the whole construct
    behaves exactly like the body of the FIRST branch whose condition holds in the state in which the construct is
    entered (including whether it returned), and like the else / default part when none holds. -/
theorem C03.first_true_branch_only (s : St) (d : Stmt) :
    (∀ brs : List (Expr × Stmt), exec (chain brs d) s =
      match brs.find? (fun b => eval b.1 s != 0) with
      | some b => exec b.2 s
      | none => exec d s) ∧
    (∀ (subj : Expr) (cases : List (Nat × Stmt)), exec (matchChain subj cases d) s =
      match cases.find? (fun c => eval subj s == c.1) with
      | some c => exec c.2 s
      | none => exec d s) := by
  constructor
  · intro brs
    induction brs with
    | nil => rfl
    | cons b brs ih =>
      simp only [chain, List.foldr_cons, exec, List.find?_cons]
      by_cases h : (eval b.1 s != 0) = true
      · simp [h]
      · simp only [h]
        exact ih
  · intro subj cases
    induction cases with
    | nil => rfl
    | cons c cs ih =>
      simp only [matchChain, List.foldr_cons, exec, List.find?_cons]
      by_cases h : (eval subj s == c.1) = true
      · simp [h]
      · simp only [h]
        exact ih

/-- non-vacuity: two overlapping true conditions - only the first branch runs -/
example :
    let s : St := ⟨fun _ => false, fun _ => false, fun _ => none, fun _ => 0⟩
    let a (n : Nat) := Stmt.assign .next ⟨7, .const 0, 0, 8⟩ (.const n)
    let s' := (exec (chain [(.const 0, a 1), (.const 1, a 2), (.const 1, a 3)] (a 4)) s).1
    bitsToNat (fun b => (s'.pend (7, 0, b)).getD false) 8 = 2 := by decide

/-! ## a run-time index is captured when the element is accessed -/

/-- `r = arr[idx] ; q ; r <<= e` (or `@=`, `^=`): the element written is the one selected by the value `idx` had
    when the element was accessed, whatever `q` does to the operands of `idx` afterwards (`q` any statements that
    do not return and do not reuse the temporary). -/
theorem C03.index_captured_at_access (k : Nat) (idx : Expr) (q : Stmt) (m : Mode) (obj lo w : Nat) (e : Expr) (s : St)
    (hq : capturesTmp q k = false) (hr : (exec q (exec (.capture k idx) s).1).2 = false) :
    let s2 := (exec q (exec (.capture k idx) s).1).1
    (exec (.seq (.capture k idx) (.seq q (.assign m ⟨obj, .tmp k, lo, w⟩ e))) s).1
      = doAssign m ⟨obj, .const (eval idx s), lo, w⟩ (eval e s2) s2 := by
  intro s2
  have hr' : (exec q { s with tmp := setTmp s.tmp k (eval idx s) }).2 = false := hr
  have ht : (exec q { s with tmp := setTmp s.tmp k (eval idx s) }).1.tmp k = eval idx s := by
    rw [exec_tmp_frame q k _ hq]; simp [setTmp]
  show _ = doAssign m _ (eval e (exec q { s with tmp := setTmp s.tmp k (eval idx s) }).1)
    (exec q { s with tmp := setTmp s.tmp k (eval idx s) }).1
  simp only [exec, hr', Bool.false_eq_true, if_false]
  cases m <;> simp only [doAssign, eval, ht]

/-- non-vacuity: `r = arr[vi] ; vi @= vi + 1 ; r <<= 5` writes element 0 (the old vi), not element 1 -/
example :
    let s : St := ⟨fun _ => false, fun _ => false, fun _ => none, fun _ => 0⟩
    let vi := Expr.rd .var 16 (.const 0) 0 2
    let body := Stmt.seq (.capture 1 vi) (.seq (.assign .value ⟨16, .const 0, 0, 2⟩ (.add 2 vi (.const 1)))
                  (.assign .next ⟨17, .tmp 1, 0, 8⟩ (.const 5)))
    let s' := Seq.activate (fun _ => none) body s (fun _ => none)
    (eval (.rd .sig 17 (.const 0) 0 8) s', eval (.rd .sig 17 (.const 1) 0 8) s') = (5, 0) := by decide

/-! ## the emitted process computes the source-level activation -/

/-- Target-level execution of the lowered body (`lowerSeq`: returns = result temporary + closing of the block with the
    continuation appended to every open block, match = case / if chain, push = signal assignment after the prelude
    of defaults, local signals = alias temporary, captured indices = temporaries) equals `Seq.activate`, for all bodies,
    push declarations, states and inputs. -/
theorem C03.lowerSeq_correct (ps : List PushDecl) (body : Stmt) (s : St) (i : Loc → Option Bool) :
    procStep ps (lowerSeq body) s i = Seq.activate (pushDflt ps) body s i := by
  have h0 : ({ (start s i) with pend := preludePend ps (start s i).pend } : St) = overlay (pushDflt ps) (start s i) := by
    simp [overlay, pushDflt, start, clearPend, ov]
  simp only [procStep, lowerSeq, Seq.activate]
  rw [h0, lowerK_correct, exec_overlay]
  simp only [run, ite_self]
  simp only [commit, overlay]
  congr 1
  funext l
  cases h1 : (exec body (clearPend (setInputs i s))).1.pend l with
  | some v => simp [ov]
  | none =>
    cases h2 : pushDflt ps l with
    | some d => simp [ov]
    | none => simp [ov]

/-- non-vacuity: a helper returning from a nested branch followed by more statements; both levels agree -/
example :
    let s : St := ⟨fun l => l.1 == 0, fun _ => false, fun _ => none, fun _ => 0⟩
    let c0 := Expr.rd .sig 0 (.const 0) 0 1
    let body := Stmt.seq (.call (.seq (.ite c0 (.ret 1 (.const 11)) .skip) (.ret 1 (.const 22))))
                         (.assign .next ⟨7, .const 0, 0, 8⟩ (.tmp 1))
    eval (.rd .sig 7 (.const 0) 0 8) (procStep [] (lowerSeq body) s (fun _ => none)) = 11 := by decide
