/-! C03 - property theorems (declared with their full name `C03.<name>`; helper lemmas go to Lemmas/) -/
