import CohdlVerif.Lemmas.C03Lemmas
import CohdlVerif.Lemmas.C03Conc

/-! C03 - property theorems (declared with their full name `C03.<name>`; helper lemmas are in Lemmas/C03Lemmas.lean).

  The documented laws of a sequential context are theorems about the source-level semantics
  `Seq.activate` / `exec` (Model/C03.lean) for ALL bodies and states (structural induction over statements
  in the lemmas); `C03.lowerSeq_correct` relates it to the target-level reading of the emitted process. -/
open CohdlVerif.C03

/-- the state in which the body of an activation starts -/
abbrev CohdlVerif.C03.start (s : St) (i : Loc → Option Bool) : St := clearPend (setInputs i s)

/-! ## a signal assigned with `<<=` changes only after the activation: reads still see the old value -/

/-- Whatever ran before (`p`: any statements, any path), the signal store an expression reads is still the one
    the activation started with; an expression over signals evaluates to the same value at every point. -/
theorem C03.signal_read_sees_old (p : Stmt) (s : St) :
    (exec p s).1.sig = s.sig ∧ ∀ e : Expr, sigOnly e = true → eval e (exec p s).1 = eval e s :=
  ⟨exec_sig p s, fun e h => eval_sigOnly e _ _ h (exec_sig p s)⟩

/-- non-vacuity: `s0 <<= s0 + 1 ; o0 <<= s0` - o0 gets the OLD s0 (5), s0 becomes 6 -/
example :
    let s : St := ⟨fun l => (5 : Nat).testBit l.2.2 && l.1 == 11, fun _ => false, fun _ => none, fun _ => 0⟩
    let body := Stmt.seq (.assign .next ⟨11, .const 0, 0, 8⟩ (.add 8 (.rd .sig 11 (.const 0) 0 8) (.const 1)))
                         (.assign .next ⟨7, .const 0, 0, 8⟩ (.rd .sig 11 (.const 0) 0 8))
    let s' := Seq.activate (fun _ => none) body s (fun _ => none)
    (eval (.rd .sig 7 (.const 0) 0 8) s', eval (.rd .sig 11 (.const 0) 0 8) s') = (5, 6) := by decide

/-! ## the last assignment executed wins (per bit of a slice / array element) -/

/-- After any prefix `p` that does not return, an assignment `t <<= e` (or `t ^= e`) determines every bit it covers -
    whatever `p` assigned to them - and leaves all other locations as `p` left them. -/
theorem C03.last_assignment_wins (dflt : Loc → Option Bool) (p : Stmt) (m : Mode) (hm : m ≠ .value) (t : Target) (e : Expr)
    (s : St) (i : Loc → Option Bool) (hp : (exec p (start s i)).2 = false) (l : Loc) :
    (Seq.activate dflt (.seq p (.assign m t e)) s i).sig l =
      if inRange l t.obj (eval t.idx (exec p (start s i)).1) t.lo t.w
      then (eval e (exec p (start s i)).1).testBit (l.2.2 - t.lo)
      else (Seq.activate dflt p s i).sig l := by
  have hp' : (exec p (clearPend (setInputs i s))).2 = false := hp
  have hx : (exec (.seq p (.assign m t e)) (clearPend (setInputs i s))).1
      = doAssign m t (eval e (exec p (clearPend (setInputs i s))).1) (exec p (clearPend (setInputs i s))).1 := by
    simp [exec, hp']
  simp only [Seq.activate, start]
  rw [hx]
  cases m with
  | value => exact absurd rfl hm
  | next =>
    simp only [commit, doAssign, writeBits]
    by_cases hR : inRange l t.obj (eval t.idx (exec p (clearPend (setInputs i s))).1) t.lo t.w = true
    · simp [hR]
    · simp [hR]
  | push =>
    simp only [commit, doAssign, writeBits]
    by_cases hR : inRange l t.obj (eval t.idx (exec p (clearPend (setInputs i s))).1) t.lo t.w = true
    · simp [hR]
    · simp [hR]

example : (exec (Stmt.assign .next ⟨7, .const 0, 0, 8⟩ (.const 1)) (start ⟨fun _ => false, fun _ => false, fun _ => none, fun _ => 0⟩ (fun _ => none))).2 = false := rfl

/-! ## a signal not assigned on the executed path holds its value -/

/-- dynamic form (nothing pending for the location when the body ends) and static form (no assignment to the object
    anywhere in the body): the committed value is the old one.  `dflt l = none`: not a pushed signal. -/
theorem C03.unassigned_holds (dflt : Loc → Option Bool) (body : Stmt) (s : St) (i : Loc → Option Bool) (l : Loc)
    (hd : dflt l = none) :
    ((exec body (start s i)).1.pend l = none → (Seq.activate dflt body s i).sig l = (setInputs i s).sig l) ∧
    (writesObj body l.1 = false → (Seq.activate dflt body s i).sig l = (setInputs i s).sig l) := by
  have key : (exec body (start s i)).1.pend l = none → (Seq.activate dflt body s i).sig l = (setInputs i s).sig l := by
    intro h
    simp only [Seq.activate, commit, h, hd, exec_sig]
    rfl
  refine ⟨key, fun h => key ?_⟩
  rw [exec_pend_frame body l.1 _ h l rfl]
  rfl

example : writesObj (Stmt.ite (.const 1) (.assign .next ⟨7, .const 0, 0, 8⟩ (.const 1)) .skip) 8 = false := by decide

/-! ## a variable assigned with `@=` changes immediately -/

/-- The statements after `t @= e` run in the state in which the variable already has its new value, and a read of the
    same bits of the same element returns the assigned value (truncated to the target width). -/
theorem C03.variable_immediate (t : Target) (e : Expr) (q : Stmt) (s : St) :
    exec (.seq (.assign .value t e) q) s = exec q (doAssign .value t (eval e s) s) ∧
    eval (.rd .var t.obj (.const (eval t.idx s)) t.lo t.w) (doAssign .value t (eval e s) s) = eval e s % 2 ^ t.w := by
  constructor
  · simp [exec]
  · simp only [eval, doAssign, store]
    rw [← bitsToNat_testBit]
    apply bitsToNat_congr
    intro b hb
    simp [writeBits, inRange, hb]

/-- non-vacuity / contrast: `v @= v + v ; o <<= v` sees the doubled value, whereas a signal would not -/
example :
    let s : St := ⟨fun _ => false, fun l => (3 : Nat).testBit l.2.2 && l.1 == 14, fun _ => none, fun _ => 0⟩
    let v := Expr.rd .var 14 (.const 0) 0 8
    let body := Stmt.seq (.assign .value ⟨14, .const 0, 0, 8⟩ (.add 8 v v)) (.assign .next ⟨7, .const 0, 0, 8⟩ v)
    eval (.rd .sig 7 (.const 0) 0 8) (Seq.activate (fun _ => none) body s (fun _ => none)) = 6 := by decide

/-! ## a signal assigned with `^=` carries the pushed value for exactly one step, its default otherwise -/

/-- For every bit of a pushed signal (default `d`): after the activation it holds the value pushed last in THIS
    activation if any push was executed, and the default `d` otherwise - independent of what it held before;
    in particular the default in every activation whose body contains no push to the object. -/
theorem C03.push_exactly_one_step (dflt : Loc → Option Bool) (body : Stmt) (s : St) (i : Loc → Option Bool) (l : Loc)
    (d : Bool) (hd : dflt l = some d) :
    (Seq.activate dflt body s i).sig l = ((exec body (start s i)).1.pend l).getD d ∧
    (writesObj body l.1 = false → (Seq.activate dflt body s i).sig l = d) := by
  have key : (Seq.activate dflt body s i).sig l = ((exec body (start s i)).1.pend l).getD d := by
    simp only [Seq.activate, commit, hd]
    cases (exec body (clearPend (setInputs i s))).1.pend l <;> rfl
  refine ⟨key, fun h => ?_⟩
  rw [key, exec_pend_frame body l.1 _ h l rfl]
  rfl

/-- non-vacuity: p0 (object 12, default 6, old value 200) pushed with 9 when c0 (object 0) is set: 9 in that step, 6 in a step without push -/
example :
    let dflt : Loc → Option Bool := fun l => if l.1 == 12 then some ((6 : Nat).testBit l.2.2) else none
    let s : St := ⟨fun l => (200 : Nat).testBit l.2.2 && l.1 == 12, fun _ => false, fun _ => none, fun _ => 0⟩
    let body := Stmt.ite (.rd .sig 0 (.const 0) 0 1) (.assign .push ⟨12, .const 0, 0, 8⟩ (.const 9)) .skip
    let on : Loc → Option Bool := fun l => if l.1 == 0 then some true else none
    let off : Loc → Option Bool := fun l => if l.1 == 0 then some false else none
    let s1 := Seq.activate dflt body s on
    let s2 := Seq.activate dflt body s1 off
    (eval (.rd .sig 12 (.const 0) 0 8) s1, eval (.rd .sig 12 (.const 0) 0 8) s2) = (9, 6) := by decide

/-! ## conditional constructs execute exactly the first branch whose condition holds, or the default -/

/-- if / elif / else, for-break and for-return chains (`chain`), and `match` (`matchChain`): the whole construct
    behaves exactly like the body of the FIRST branch whose condition holds in the state in which the construct is
    entered (including whether it returned), and like the else / default part when none holds. -/
theorem C03.first_true_branch_only (s : St) (d : Stmt) :
    (∀ brs : List (Expr × Stmt), exec (chain brs d) s =
      match brs.find? (fun b => eval b.1 s != 0) with
      | some b => exec b.2 s
      | none => exec d s) ∧
    (∀ (subj : Expr) (cases : List (Nat × Stmt)), exec (matchChain subj cases d) s =
      match cases.find? (fun c => eval subj s == c.1) with
      | some c => exec c.2 s
      | none => exec d s) := by
  constructor
  · intro brs
    induction brs with
    | nil => rfl
    | cons b brs ih =>
      simp only [chain, List.foldr_cons, exec, List.find?_cons]
      by_cases h : (eval b.1 s != 0) = true
      · simp [h]
      · simp only [h]
        exact ih
  · intro subj cases
    induction cases with
    | nil => rfl
    | cons c cs ih =>
      simp only [matchChain, List.foldr_cons, exec, List.find?_cons]
      by_cases h : (eval subj s == c.1) = true
      · simp [h]
      · simp only [h]
        exact ih

/-- non-vacuity: two overlapping true conditions - only the first branch runs -/
example :
    let s : St := ⟨fun _ => false, fun _ => false, fun _ => none, fun _ => 0⟩
    let a (n : Nat) := Stmt.assign .next ⟨7, .const 0, 0, 8⟩ (.const n)
    let s' := (exec (chain [(.const 0, a 1), (.const 1, a 2), (.const 1, a 3)] (a 4)) s).1
    bitsToNat (fun b => (s'.pend (7, 0, b)).getD false) 8 = 2 := by decide

/-! ## a run-time index is captured when the element is accessed -/

/-- `r = arr[idx] ; q ; r <<= e` (or `@=`, `^=`): the element written is the one selected by the value `idx` had
    when the element was accessed, whatever `q` does to the operands of `idx` afterwards (`q` any statements that
    do not return and do not reuse the temporary). -/
theorem C03.index_captured_at_access (k : Nat) (idx : Expr) (q : Stmt) (m : Mode) (obj lo w : Nat) (e : Expr) (s : St)
    (hq : capturesTmp q k = false) (hr : (exec q (exec (.capture k idx) s).1).2 = false) :
    let s2 := (exec q (exec (.capture k idx) s).1).1
    (exec (.seq (.capture k idx) (.seq q (.assign m ⟨obj, .tmp k, lo, w⟩ e))) s).1
      = doAssign m ⟨obj, .const (eval idx s), lo, w⟩ (eval e s2) s2 := by
  intro s2
  have hr' : (exec q { s with tmp := setTmp s.tmp k (eval idx s) }).2 = false := hr
  have ht : (exec q { s with tmp := setTmp s.tmp k (eval idx s) }).1.tmp k = eval idx s := by
    rw [exec_tmp_frame q k _ hq]; simp [setTmp]
  show _ = doAssign m _ (eval e (exec q { s with tmp := setTmp s.tmp k (eval idx s) }).1)
    (exec q { s with tmp := setTmp s.tmp k (eval idx s) }).1
  simp only [exec, hr', Bool.false_eq_true, if_false]
  cases m <;> simp only [doAssign, eval, ht]

/-- non-vacuity: `r = arr[vi] ; vi @= vi + 1 ; r <<= 5` writes element 0 (the old vi), not element 1 -/
example :
    let s : St := ⟨fun _ => false, fun _ => false, fun _ => none, fun _ => 0⟩
    let vi := Expr.rd .var 16 (.const 0) 0 2
    let body := Stmt.seq (.capture 1 vi) (.seq (.assign .value ⟨16, .const 0, 0, 2⟩ (.add 2 vi (.const 1)))
                  (.assign .next ⟨17, .tmp 1, 0, 8⟩ (.const 5)))
    let s' := Seq.activate (fun _ => none) body s (fun _ => none)
    (eval (.rd .sig 17 (.const 0) 0 8) s', eval (.rd .sig 17 (.const 1) 0 8) s') = (5, 0) := by decide

/-! ## the emitted process computes the source-level activation -/

/-- Target-level execution of the lowered body (`lowerSeq`: returns = result temporary + closing of the block with the
    continuation appended to every open block, match = case / if chain, push = signal assignment after the prelude
    of defaults, local signals = alias temporary, captured indices = temporaries) equals `Seq.activate`, for all bodies,
    push declarations, states and inputs. -/
theorem C03.lowerSeq_correct (ps : List PushDecl) (body : Stmt) (s : St) (i : Loc → Option Bool) :
    procStep ps (lowerSeq body) s i = Seq.activate (pushDflt ps) body s i := by
  have h0 : ({ (start s i) with pend := preludePend ps (start s i).pend } : St) = overlay (pushDflt ps) (start s i) := by
    simp [overlay, pushDflt, start, clearPend, ov]
  simp only [procStep, lowerSeq, Seq.activate]
  rw [h0, lowerK_correct, exec_overlay]
  simp only [run, ite_self]
  simp only [commit, overlay]
  congr 1
  funext l
  cases h1 : (exec body (clearPend (setInputs i s))).1.pend l with
  | some v => simp [ov]
  | none =>
    cases h2 : pushDflt ps l with
    | some d => simp [ov]
    | none => simp [ov]

/-- non-vacuity: a helper returning from a nested branch followed by more statements; both levels agree -/
example :
    let s : St := ⟨fun l => l.1 == 0, fun _ => false, fun _ => none, fun _ => 0⟩
    let c0 := Expr.rd .sig 0 (.const 0) 0 1
    let body := Stmt.seq (.call (.seq (.ite c0 (.ret 1 (.const 11)) .skip) (.ret 1 (.const 22))))
                         (.assign .next ⟨7, .const 0, 0, 8⟩ (.tmp 1))
    eval (.rd .sig 7 (.const 0) 0 8) (procStep [] (lowerSeq body) s (fun _ => none)) = 11 := by decide

/-! ## a concurrent context, and everything hoisted with `cohdl.always`, continuously drives its targets with the current
    value of its operands -/

/-- After `settle` (accepted = acyclic dependencies, one driver per object) every concurrently driven location holds its
    expression evaluated ON THE SETTLED STATE - for all values of the operands -, nothing else changed, and no assignment has
    anything left to do (`drive c s1 = s1`: no further event). -/
theorem C03.concurrent_drives_current (cs : List CA) (s s1 : St) (h : settle cs s = some s1) :
    (∀ c ∈ cs, ∀ l : Loc, c.covers l = true → s1.sig l = (eval c.e s1).testBit (l.2.2 - c.lo)) ∧
    (∀ l : Loc, (∀ c ∈ cs, c.covers l = false) → s1.sig l = s.sig l) ∧
    s1.var = s.var ∧
    (∀ c ∈ cs, drive c s1 = s1) := by
  obtain ⟨ord, hmem, hw, rfl⟩ := settle_eq_some h
  have S := Sol_of_mem_iff hmem (settleOrder_sol ord s hw)
  refine ⟨S.fix, S.frame, S.var, fun c hc => ?_⟩
  have hsig : (drive c (settleOrder ord s)).sig = (settleOrder ord s).sig := by
    funext l
    cases hcov : c.covers l with
    | true => rw [drive_sig_covered c _ l hcov, S.fix c hc l hcov]
    | false => exact drive_sig_other c _ l hcov
  show ({ (settleOrder ord s) with sig := _ } : St) = _
  cases hS : settleOrder ord s
  simp only [St.mk.injEq, and_true]
  rw [hS] at hsig
  exact hsig

/-- non-vacuity: `q1 <= q0 + 1`, `q0 <= x + 2` listed against their dependency order settle to q0 = 7, q1 = 8 for x = 5;
    a combinational loop is rejected -/
example :
    let s : St := ⟨fun l => (5 : Nat).testBit l.2.2 && l.1 == 4, fun _ => false, fun _ => none, fun _ => 0⟩
    let rd (o : Nat) := Expr.rd .sig o (.const 0) 0 8
    let cs : List CA := [⟨20, 0, 0, 8, .add 8 (rd 19) (.const 1)⟩, ⟨19, 0, 0, 8, .add 8 (rd 4) (.const 2)⟩]
    ((settle cs s).map (fun t => (eval (rd 19) t, eval (rd 20) t)) = some (7, 8)) ∧
    ((settle [⟨19, 0, 0, 8, .add 8 (rd 19) (.const 1)⟩] s).isNone = true) := by decide

/-- The settled state does not depend on the order in which the assignments are listed or evaluated: two listings of the same
    assignments settle to the same state, and ANY two topological evaluation orders reach the same state. -/
theorem C03.settle_order_independent (cs cs' : List CA) (s : St) (hsame : ∀ c, c ∈ cs ↔ c ∈ cs') :
    (∀ s1 s2, settle cs s = some s1 → settle cs' s = some s2 → s1 = s2) ∧
    (wellOrdered cs = true → wellOrdered cs' = true → settleOrder cs s = settleOrder cs' s) := by
  constructor
  · intro s1 s2 h1 h2
    obtain ⟨o1, m1, w1, rfl⟩ := settle_eq_some h1
    obtain ⟨o2, m2, w2, rfl⟩ := settle_eq_some h2
    have hm : ∀ c, c ∈ o2 ↔ c ∈ o1 := fun c => ((m2 c).trans (hsame c).symm).trans (m1 c).symm
    exact sol_unique o1 s _ _ w1 (settleOrder_sol o1 s w1) (Sol_of_mem_iff hm (settleOrder_sol o2 s w2))
  · intro w1 w2
    exact sol_unique cs s _ _ w1 (settleOrder_sol cs s w1)
      (Sol_of_mem_iff (fun c => (hsame c).symm) (settleOrder_sol cs' s w2))

example :
    let rd (o : Nat) := Expr.rd .sig o (.const 0) 0 8
    wellOrdered [⟨19, 0, 0, 8, .add 8 (rd 4) (.const 2)⟩, ⟨20, 0, 0, 8, .add 8 (rd 19) (.const 1)⟩] = true := by decide

/-- An expression hoisted out of a sequential context (`with cohdl.always: t = e`, emitted as `sig_t <= e` in a concurrent
    block) has, wherever the sequential body reads it during an activation that starts from the settled state, exactly the
    value the expression itself has at that point (truncated to the width of the hoisted signal). -/
theorem C03.always_equals_inline (cs : List CA) (s st : St) (h : settle cs s = some st) (c : CA) (hc : c ∈ cs)
    (hs : sigOnly c.e = true) (p : Stmt) :
    eval (.rd .sig c.obj (.const c.elem) c.lo c.w) (exec p st).1 = eval c.e (exec p st).1 % 2 ^ c.w := by
  have hold := C03.signal_read_sees_old p st
  rw [hold.2 c.e hs, hold.2 (.rd .sig c.obj (.const c.elem) c.lo c.w) (by simp [sigOnly])]
  have hfix := (C03.concurrent_drives_current cs s st h).1 c hc
  simp only [eval, store]
  rw [← bitsToNat_testBit]
  apply bitsToNat_congr
  intro b hb
  rw [hfix (c.obj, c.elem, c.lo + b) (by simp [CA.covers, inRange, hb])]
  simp

example : sigOnly (Expr.add 8 (.rd .sig 4 (.const 0) 0 8) (.rd .sig 11 (.const 0) 0 8)) = true := by decide
