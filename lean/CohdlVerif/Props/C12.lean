import CohdlVerif.Lemmas.C12Example

/-!
  C12 - property theorems: instantiating an entity is equivalent to inlining it.

  For EVERY hierarchy `d` (any depth, fan-out, repeated templates, slice actuals; induction over the mutual
  inductive `Tmpl`/`Insts`) and EVERY input sequence:

  * `C12.elab_eq_flatten`            elaborating the emitted library `emitHier d` by renaming (design units analysed
                                     in library order, formals = aliases of their actuals) behaves like the flat
                                     design `flatten d` (actuals substituted for formals, logic placed inline);
  * `C12.interface_exact`            the emitted interfaces are exactly the declared ports (names, directions,
                                     types, order), one for every template;
  * `C12.template_emitted_once`      no two emitted entities share a name and every template is there;
  * `C12.subentities_first`          every entity is preceded by the entities it instantiates;
  * `C12.formal_wired_to_its_actual` every emitted port map associates each declared port, in declaration order,
                                     with exactly the object given for it.

  Hypotheses: `Consistent d` (an entity class is ONE object: equal names = equal templates; the compiler
  identifies templates by object identity) and `WfT d` (every keyword argument of an instantiation names a
  declared port - enforced by `Entity.__init__`).  Helper lemmas: Lemmas/C12Lemmas.lean, Lemmas/C12Subst.lean.
-/
open CohdlVerif.C12

-- the example design `top0` (a clocked leaf instantiated twice, once on slices) and the proofs that it satisfies the
-- hypotheses (`top0_consistent`, `top0_wf`) are in Lemmas/C12Example.lean

/-- THE PROPERTY on the model, for all hierarchies and all input sequences: the emitted hierarchical library,
    elaborated by renaming, behaves exactly like the design with every sub-entity's logic placed inline. -/
theorem C12.elab_eq_flatten (d : Tmpl) (hc : Consistent d) (hw : WfT d)
    (inputs : List (List (String × Nat))) :
    simHier (emitHier d) inputs = simFlatP d.ports (flatten d) inputs := by
  cases d with
  | mk n p l lg is =>
    have hfresh : ∀ s ∈ subIs is, s.name ≠ n := fun s hs => top_fresh (Tmpl.mk n p l lg is) hc s hs
    have hnot : hasName (collectIs [] is) n = false := by
      cases hh : hasName (collectIs [] is) n with
      | false => rfl
      | true =>
          exfalso
          obtain ⟨e, he, hen⟩ := (hasName_iff _ _).mp hh
          rcases collectIs_mem is [] e he with h | ⟨s, hs, hes⟩
          · simp at h
          · subst hes
            exact hfresh s hs (by simpa using hen)
    have hlib : (emitHier (Tmpl.mk n p l lg is)).reverse
        = emitEntity (Tmpl.mk n p l lg is) :: collectIs [] is := by
      simp [emitHier, collectT, hnot]
    have hw' : WfIs is := by simpa [WfT] using hw
    have hok : TblOk (Tmpl.mk n p l lg is) (collectIs [] is) :=
      collectIs_tblOk _ hc is [] (fun s hs => by simp [subT, hs]) hw'
        (fun s _ h => by simp [hasName] at h)
    have hcor : Correct (elabEntity (elabTbl (collectIs [] is)) (emitEntity (Tmpl.mk n p l lg is)))
        (Tmpl.mk n p l lg is) := by
      apply elabEntity_correct _ _ hw
      intro ca hca
      have hcs : ca.1 ∈ subIs is := instList_sub is ca hca ca.1 (self_mem_subT _)
      exact hok ca.1 (by simp [subT, hcs]) (collectIs_complete is [] ca.1 hcs)
    have hitems := hcor "" (idBinding p)
    simp only [simHier, hlib, simFlatP, flatten, Tmpl.ports, emitEntity_ports]
    rw [← hitems, sigs_subst, procs_subst]

example : simHier (emitHier top0) [[("x", 0x21)], [("x", 0x35)]]
    = simFlatP top0.ports (flatten top0) [[("x", 0x21)], [("x", 0x35)]] :=
  C12.elab_eq_flatten top0 top0_consistent top0_wf _

/-- the emitted interface of every entity consists of exactly the declared ports of a template of the design
    (names, directions, types, order), and every template of the design has its entity -/
theorem C12.interface_exact (d : Tmpl) :
    (∀ e ∈ emitHier d, ∃ s ∈ subT d, e.name = s.name ∧ e.ports = s.ports) ∧
    (Consistent d → ∀ s ∈ subT d, ∃ e ∈ emitHier d, e.name = s.name ∧ e.ports = s.ports) := by
  constructor
  · intro e he
    rw [emitHier, List.mem_reverse] at he
    rcases collectT_mem d [] e he with h | ⟨s, hs, rfl⟩
    · simp at h
    · exact ⟨s, hs, by simp, by simp⟩
  · intro hc s hs
    have hname := collectT_complete d [] s hs
    obtain ⟨e, he, hen⟩ := (hasName_iff _ _).mp hname
    refine ⟨e, by rw [emitHier, List.mem_reverse]; exact he, hen, ?_⟩
    rcases collectT_mem d [] e he with h | ⟨s', hs', rfl⟩
    · simp at h
    · have : s' = s := hc s' hs' s hs (by simpa using hen)
      subst this; simp

/-- each entity template is emitted once (no two emitted entities share a name) and none is missing -/
theorem C12.template_emitted_once (d : Tmpl) :
    ((emitHier d).map (·.name)).Nodup ∧ ∀ s ∈ subT d, s.name ∈ (emitHier d).map (·.name) := by
  constructor
  · have h := collectT_nodup d [] (by simp [NamesNodup])
    simp only [NamesNodup] at h
    simp only [emitHier, List.map_reverse]
    exact nodup_reverse_of_nodup h
  · intro s hs
    obtain ⟨e, he, hen⟩ := (hasName_iff _ _).mp (collectT_complete d [] s hs)
    simp only [List.mem_map]
    exact ⟨e, by rw [emitHier, List.mem_reverse]; exact he, hen⟩

/-- sub-entities are emitted before the entities that use them -/
theorem C12.subentities_first (d : Tmpl) (pre post : List Entity) (e : Entity)
    (h : emitHier d = pre ++ e :: post) : ∀ i ∈ e.insts, ∃ s ∈ pre, s.name = i.entity := by
  intro i hi
  have hcl := collectT_closed d [] Closed.nil
  have hrev : collectT [] d = post.reverse ++ e :: pre.reverse := by
    have := congrArg List.reverse h
    simpa [emitHier] using this
  rw [hrev] at hcl
  obtain ⟨s, hs, hn⟩ := (hasName_iff _ _).mp (Closed_split _ _ _ hcl i hi)
  exact ⟨s, by simpa using hs, hn⟩

/-- what `EntityInst._port_map` prints for an instance whose every declared port has an actual: one association per
    declared port, in declaration order, each formal with exactly the object given for it by keyword -/
theorem C12.port_map_exact (ports : List Port) (acts : List (String × Actual))
    (hall : ∀ p ∈ ports, (acts.lookup p.name).isSome = true) :
    (pmapOf ports acts).map (·.1) = ports.map (·.name) ∧
    ∀ p ∈ ports, (pmapOf ports acts).lookup p.name = (acts.lookup p.name).map (·.ref) := by
  constructor
  · induction ports with
    | nil => rfl
    | cons p ps ih =>
        have hp := hall p (by simp)
        have ih' := ih (fun q hq => hall q (by simp [hq]))
        simp only [pmapOf, List.filterMap_cons] at ih' ⊢
        cases ha : acts.lookup p.name with
        | none => simp [ha] at hp
        | some a => simp [ih']
  · intro p hp
    rw [lookup_pmapOf]
    have : ports.any (fun q => q.name == p.name) = true := by
      simp only [List.any_eq_true]; exact ⟨p, hp, by simp⟩
    simp [this]

example : (pmapOf leaf0.ports [("q", ⟨⟨"u", 4, 4⟩, false⟩), ("a", ⟨⟨"x", 4, 4⟩, false⟩)]).map (·.1) = ["a", "q"] := by
  decide

/-- every formal port is wired to exactly the actual given for it: every instance statement of every emitted
    entity is the port map (`pmapOf`, see `C12.port_map_exact`) of an instantiation in the design -/
theorem C12.formal_wired_to_its_actual (d : Tmpl) :
    ∀ e ∈ emitHier d, ∃ s ∈ subT d, e = emitEntity s ∧
      ∀ i ∈ e.insts, ∃ ca ∈ instList s.insts, i.entity = ca.1.name ∧ i.pmap = pmapOf ca.1.ports ca.2 ∧
        ∀ f, i.pmap.lookup f =
          if ca.1.ports.any (fun p => p.name == f) then (ca.2.lookup f).map (·.ref) else none := by
  intro e he
  rw [emitHier, List.mem_reverse] at he
  rcases collectT_mem d [] e he with h | ⟨s, hs, rfl⟩
  · simp at h
  · refine ⟨s, hs, rfl, ?_⟩
    intro i hi
    rw [emitEntity_insts] at hi
    obtain ⟨ca, hca, h1, h2⟩ := emitInsts_mem s.insts 0 i hi
    exact ⟨ca, hca, h1, h2, fun f => by rw [h2, lookup_pmapOf]⟩

/-! non-vacuity: the example design `top0` (Lemmas/C12Example.lean) satisfies the hypotheses used above -/

example : emitHier top0 = [emitEntity leaf0] ++ emitEntity top0 :: [] := by rfl

example : ∃ e ∈ emitHier top0, e.name = "L" ∧ e.ports = leaf0.ports :=
  (C12.interface_exact top0).2 top0_consistent leaf0
    (by simp only [top0, subT, subIs, List.mem_cons, List.mem_append]; exact Or.inr (Or.inl (self_mem_subT leaf0)))

example : ∀ i ∈ (emitEntity top0).insts, ∃ s ∈ [emitEntity leaf0], s.name = i.entity :=
  C12.subentities_first top0 [emitEntity leaf0] [] (emitEntity top0) (by rfl)

example : ∀ p ∈ leaf0.ports, (([("q", ⟨⟨"u", 4, 4⟩, false⟩), ("a", ⟨⟨"x", 4, 4⟩, false⟩)] :
    List (String × Actual)).lookup p.name).isSome = true := by decide
