/-! C12 - property theorems (declared with their full name `C12.<name>`; helper lemmas go to Lemmas/) -/
