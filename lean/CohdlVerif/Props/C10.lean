/-! C10 - property theorems (declared with their full name `C10.<name>`; helper lemmas go to Lemmas/) -/
