import CohdlVerif.Lemmas.C10Lemmas

/-!
  C10 - property theorems about the hand-re-implemented pieces of Python semantics in cohdl's tracer
  (models and specifications: Model/C10.lean, helper lemmas: Lemmas/C10Lemmas.lean).
  Everything else the property talks about (closures, classes, super(), comprehensions ...) is covered only
  by the differential run of harness/c10.py - no model of CPython as a whole is attempted.
-/
open CohdlVerif.C10

/-! ## argument binding -/

/-- C10 (binding), full strength: for EVERY signature (any mix of positional-only, positional-or-keyword,
    `*args`, keyword-only, `**kwargs` parameters and defaults) and EVERY call shape, `bind_args` binds exactly
    what CPython binds and rejects exactly what CPython rejects.  The only hypothesis is what Python's grammar
    guarantees (a duplicate parameter name is a SyntaxError). -/
theorem C10.bind_equiv (s : Sig) (c : Call) (h : s.wf) : bindModel s c = cpyBind s c :=
  bind_equiv_aux s c h

/-- non-vacuity: `def f(a, /, b, c=30, *args, k, d=50, **kw)` called as `f(1, 2, 3, 4, k=7, z=9)` -/
example : bindModel ⟨[1], [2, 3], some 4, [5, 6], some 7, [(3, 30)], [(6, 50)]⟩ ⟨[10, 20, 31, 41], [(5, 70), (9, 90)]⟩
    = some [(1, .val 10), (2, .val 20), (3, .val 31), (4, .tup [41]), (5, .val 70), (6, .val 50), (7, .dict [(9, 90)])] := by
  decide
example : Sig.wf ⟨[1], [2, 3], some 4, [5, 6], some 7, [(3, 30)], [(6, 50)]⟩ := by unfold Sig.wf; decide
/-- a rejected call: `def f(a, /, b)` called as `f(1, a=2)` (positional-only name as keyword, no `**kw`) -/
example : cpyBind ⟨[1], [2], none, [], none, [], []⟩ ⟨[10], [(1, 20)]⟩ = none := by decide

/-! ## starred assignment -/

/-- C10 (starred targets), full strength: `_split_target` accepts a source for `n` targets with the starred
    one at position `i` exactly when the source splits as `pre ++ mid ++ post` with `i` elements before and
    `n-i-1` elements after the star, and then yields exactly Python's assignment (7.2): the plain targets
    get `pre` / `post` element-wise, the starred target gets `mid`. -/
theorem C10.splitTarget_spec {α : Type} (n i : Nat) (hi : i < n) (src : List α) (items : List (Item α)) :
    splitTarget n (some i) src = some items ↔
      ∃ pre mid post, src = pre ++ mid ++ post ∧ pre.length = i ∧ post.length = n - i - 1 ∧
        items = pre.map .one ++ [.many mid] ++ post.map .one := by
  constructor
  · intro h
    unfold splitTarget at h
    simp only at h
    split at h
    · exact absurd h (by simp)
    · rename_i hlen
      have hlen : n - 1 ≤ src.length := by omega
      split at h
      · rename_i ha
        refine ⟨src.take i, src.drop i, [], by simp, ?_, by simp; omega, ?_⟩
        · simp only [List.length_take]; omega
        · simp only [Option.some.injEq] at h; simp [← h]
      · rename_i ha
        refine ⟨src.take i, (src.drop i).take (src.length - (n - i - 1) - i), src.drop (src.length - (n - i - 1)), ?_, ?_, ?_, ?_⟩
        · have h1 : src.drop (src.length - (n - i - 1)) = (src.drop i).drop (src.length - (n - i - 1) - i) := by
            rw [List.drop_drop]; congr 1; omega
          rw [h1, List.append_assoc, List.take_append_drop, List.take_append_drop]
        · simp only [List.length_take]; omega
        · simp only [List.length_drop]; omega
        · simp only [Option.some.injEq] at h; simp [← h]
  · rintro ⟨pre, mid, post, hsrc, hpre, hpost, hitems⟩
    subst hsrc hitems
    unfold splitTarget
    simp only [List.length_append]
    have h1 : ¬ (pre.length + mid.length + post.length < n - 1) := by omega
    simp only [h1, if_false]
    by_cases ha : n - i - 1 = 0
    · have hp : post = [] := List.eq_nil_of_length_eq_zero (by omega)
      subst hp
      simp only [ha, if_true, List.append_nil, List.map_nil]
      rw [← hpre]
      simp
    · simp only [ha, if_false]
      have e1 : pre.length + mid.length + post.length - (n - i - 1) - i = mid.length := by omega
      have e2 : pre.length + mid.length + post.length - (n - i - 1) = (pre ++ mid).length := by
        simp only [List.length_append]; omega
      rw [e1, e2, ← hpre]
      simp [List.append_assoc]

/-- without a starred target the source must have exactly `n` elements and is assigned element-wise -/
theorem C10.splitTarget_plain {α : Type} (n : Nat) (src : List α) (items : List (Item α)) :
    splitTarget n none src = some items ↔ src.length = n ∧ items = src.map .one := by
  unfold splitTarget
  by_cases h : src.length = n <;> simp [h, eq_comm]

/-- non-vacuity: `a, *b, c = [1,2,3,4,5]` and the shortest accepted source `a, *b, c = [1,2]` -/
example : splitTarget 3 (some 1) [1, 2, 3, 4, 5] = some [.one 1, .many [2, 3, 4], .one 5] := by decide
example : splitTarget 3 (some 1) [1, 2] = some [.one 1, .many [], .one 2] := by decide
example : splitTarget 3 (some 1) [1] = none := by decide

/-! ## and / or -/

/-- C10 (and/or yield the truth value), full strength: for every operand list and every notion of truthiness
    the folded constant is the truth value of the operand Python's `and` / `or` returns. -/
theorem C10.boolop_truth {α : Type} (truthy : α → Bool) (op : BOp) (x : α) (r : List α) :
    foldBoolOp op ((x :: r).map truthy) = truthy (pyBoolOp truthy op x r).1 := by
  induction r generalizing x with
  | nil => cases op <;> simp [foldBoolOp, pyBoolOp]
  | cons y r ih =>
    have ihy := ih y
    simp [foldBoolOp] at ihy
    unfold pyBoolOp
    cases op <;> cases hx : truthy x <;> simp [foldBoolOp, hx, ihy]

/-- Python never evaluates more operands than the tracer (which evaluates all of them) ... -/
theorem C10.boolop_evaluated_le {α : Type} (truthy : α → Bool) (op : BOp) (x : α) (r : List α) :
    (pyBoolOp truthy op x r).2 ≤ foldBoolOpEvaluated op ((x :: r).map truthy) := by
  induction r generalizing x with
  | nil => simp [pyBoolOp, foldBoolOpEvaluated]
  | cons y r ih =>
    have ihy := ih y
    simp only [foldBoolOpEvaluated, List.length_map, List.length_cons] at ihy ⊢
    unfold pyBoolOp
    cases op <;> cases hx : truthy x <;> simp [hx] <;> omega

/- ... but the unrestricted statement "the tracer evaluates exactly the operands Python evaluates"
       ∀ truthy op x r, (pyBoolOp truthy op x r).2 = foldBoolOpEvaluated op ((x :: r).map truthy)
   is FALSE of the current code: there is no short-circuit (finding C10 `boolop-no-short-circuit`). -/
theorem C10.boolop_short_circuit_fails_at :
    ¬ ∀ (op : BOp) (x : Nat) (r : List Nat),
      (pyBoolOp (fun n => n != 0) op x r).2 = foldBoolOpEvaluated op ((x :: r).map fun n => n != 0) := by
  intro h
  exact absurd (h .and 0 [1]) (by decide)

/-- the two agree exactly when no operand before the last one decides the result -/
theorem C10.boolop_evaluated_partial {α : Type} (truthy : α → Bool) (op : BOp) (x : α) (r : List α)
    (h : ∀ y ∈ (x :: r).dropLast, truthy y = (match op with | .and => true | .or => false)) :
    (pyBoolOp truthy op x r).2 = foldBoolOpEvaluated op ((x :: r).map truthy) := by
  induction r generalizing x with
  | nil => simp [pyBoolOp, foldBoolOpEvaluated]
  | cons y r ih =>
    have hx := h x (by simp [List.dropLast])
    have ihy := ih y (fun z hz => h z (by simp [List.dropLast] at hz ⊢; exact Or.inr hz))
    simp only [foldBoolOpEvaluated, List.length_map, List.length_cons] at ihy ⊢
    unfold pyBoolOp
    cases op <;> simp_all

example : ∀ y ∈ ([3, 5, 0] : List Nat).dropLast, (fun n : Nat => n != 0) y = true := by decide

/-! ## comparison chains -/

/-- C10 (chained comparison), value: `x0 op0 x1 op1 x2 ...` folds to `(x0 op0 x1) and (x1 op1 x2) and ...`
    for every number of links and every outcome of the links -/
theorem C10.compare_chain (link : Nat → Bool) (n : Nat) :
    (foldCompareChain link n).1 = (pyChain link n).1 ∧ (foldCompareChain link n).1 = allLinks link n := by
  have h := cmpLoop_val link 0 n
  simp only [foldCompareChain, pyChain, allLinks, List.range_eq_range']
  exact ⟨h.1, h.2.1⟩

/-- the comparisons performed (and their order) are exactly CPython's: no link is dropped, repeated or
    evaluated after a false one -/
theorem C10.compare_chain_links (link : Nat → Bool) (n : Nat) :
    (foldCompareChain link n).2.filter Ev.isCmp = (pyChain link n).2.filter Ev.isCmp := by
  have h := (cmpLoop_val link 0 n).2.2
  simp only [foldCompareChain, pyChain, List.filter_append, List.filter_cons, isCmp_operand]
  have : ((List.range (n + 1)).map Ev.operand).filter Ev.isCmp = [] := by
    apply List.filter_eq_nil_iff.mpr
    intro e he
    obtain ⟨i, _, rfl⟩ := List.mem_map.mp he
    simp
  rw [this, h]
  simp

/-- single evaluation: the operand evaluations of the tracer are operand 0, 1, ..., n - each exactly once,
    in source order, whatever the links evaluate to -/
theorem C10.compare_chain_single_eval (link : Nat → Bool) (n : Nat) :
    (foldCompareChain link n).2.filter (fun e => !e.isCmp) = (List.range (n + 1)).map Ev.operand := by
  simp only [foldCompareChain, List.filter_append, operands_filter, cmpLoop_filter, List.append_nil]

/- the unrestricted statement "same evaluation trace"  ∀ link n, (foldCompareChain link n).2 = (pyChain link n).2
   is FALSE of the current code: all operands are evaluated up front, so an operand behind a false link is
   evaluated although CPython skips it (finding C10 `chain-no-short-circuit`). -/
theorem C10.compare_chain_trace_fails_at :
    ¬ ∀ (link : Nat → Bool) (n : Nat),
      (foldCompareChain link n).2.filter (fun e => !e.isCmp) = (pyChain link n).2.filter (fun e => !e.isCmp) := by
  intro h
  exact absurd (h (fun _ => false) 2) (by decide)

/-- ... it holds whenever no link before the last one is false (then nothing is skipped by CPython) -/
theorem C10.compare_chain_trace_partial (link : Nat → Bool) (n : Nat) (h : ∀ j, j + 1 < n → link j = true) :
    (foldCompareChain link n).2.filter (fun e => !e.isCmp) = (pyChain link n).2.filter (fun e => !e.isCmp) := by
  have hp := pyChainFrom_operands link 0 n (fun j _ h2 => h j (by omega))
  simp only [foldCompareChain, pyChain, List.filter_append, operands_filter, cmpLoop_filter, List.append_nil,
    List.filter_cons, isCmp_operand, Bool.not_false, if_true, hp]
  simp [List.range_eq_range', List.range'_succ]

example : ∀ j, j + 1 < 3 → (fun i => decide (i < 2)) j = true := by intro j hj; simp; omega

/-! ## operator dispatch -/

/- C10 (operator dispatch), unrestricted statement - every value CPython computes for `lhs op rhs` is
   computed by the tracer through the same special-method calls:
       ∀ c, c.wf → ∀ calls v, cpyBinOp c = (calls, some v) → dispatchBinOp c = (calls, some v)
   It is FALSE of the current code: the subclass-priority rule for reflected operators is missing
   (`class B(A)` overriding `__radd__`: `A(1) + B(2)` is `B.__radd__` in CPython, `A.__add__` in the tracer). -/
theorem C10.dispatch_equiv_fails_at :
    ¬ ∀ c : BinCfg, c.wf = true → ∀ calls v, cpyBinOp c = (calls, some v) → dispatchBinOp c = (calls, some v) := by
  intro h
  have := h ⟨false, true, true, some (.val 1), some (.val 2)⟩ (by decide) [.r] 2 (by decide)
  exact absurd this (by decide)

/-- the restricted statement: whenever CPython's priority rule does not apply (rhs type is not a proper
    subclass of the lhs type that overrides the reflected method) the tracer computes every value CPython
    computes, calling the same special methods in the same order -/
theorem C10.dispatch_equiv_partial (c : BinCfg) (hp : c.priority = false) (calls : List MCall) (v : Val)
    (h : cpyBinOp c = (calls, some v)) : dispatchBinOp c = (calls, some v) := by
  obtain ⟨same, rsub, rdiff, lop, rrop⟩ := c
  simp only [cpyBinOp, hp] at h
  simp only [dispatchBinOp, tryReflected]
  rcases lop with _ | _ | lv <;> rcases rrop with _ | _ | rv <;> cases same <;> simp_all

/-- for operands of different types (and no priority case) the tracer and CPython agree completely: same
    calls, same value, same reject decision -/
theorem C10.dispatch_equiv_difftype (c : BinCfg) (hp : c.priority = false) (hs : c.same = false) :
    dispatchBinOp c = cpyBinOp c := by
  obtain ⟨same, rsub, rdiff, lop, rrop⟩ := c
  simp only at hs
  subst hs
  simp only [cpyBinOp, hp, dispatchBinOp, tryReflected]
  rcases lop with _ | _ | lv <;> rcases rrop with _ | _ | rv <;> simp

/-- with the priority test added (fixes/C10-reflected-priority.patch) the unrestricted statement holds -/
theorem C10.dispatch_fixed_equiv (c : BinCfg) (calls : List MCall) (v : Val)
    (h : cpyBinOp c = (calls, some v)) : dispatchBinOpFixed c = (calls, some v) := by
  obtain ⟨same, rsub, rdiff, lop, rrop⟩ := c
  simp only [cpyBinOp] at h
  simp only [dispatchBinOpFixed, dispatchBinOp, tryReflected]
  rcases lop with _ | _ | lv <;> rcases rrop with _ | _ | rv <;> cases same <;> cases rsub <;> cases rdiff <;>
    simp_all [BinCfg.priority]

/-- non-vacuity: `5 + Num(2)` (int.__add__ returns NotImplemented, Num.__radd__ answers) -/
example : BinCfg.priority ⟨false, false, true, some .notImpl, some (.val 7)⟩ = false ∧
    cpyBinOp ⟨false, false, true, some .notImpl, some (.val 7)⟩ = ([.l, .r], some 7) := by decide


/-- C10 (operator dispatch on class hierarchies), unrestricted: wherever in the MROs the special methods are
    defined (own body, parent, grandparent, mixin, alias of an inherited function), the dispatch that decides
    "provides a different reflected method" by MRO lookup + identity computes every value CPython computes,
    with the same calls in the same order -/
theorem C10.dispatch_hier_equiv (h : HierCfg) (calls : List MCall) (v : Val)
    (hc : cpyHier h = (calls, some v)) : dispatchHier h = (calls, some v) :=
  C10.dispatch_fixed_equiv h.toBin calls v hc

/-- deciding the priority by "the reflected method is written in the right operand's own class body" is NOT
    CPython's rule: `A <- B (defines __rsub__) <- C`, `A() - C()` (seeded/C10-reflected-binop-inherited) -/
theorem C10.dispatch_own_dict_fails_at :
    ¬ ∀ h : HierCfg, ∀ calls v, cpyHier h = (calls, some v) → dispatchBinOpFixed h.toBinOwnDict = (calls, some v) := by
  intro hall
  have := hall ⟨false, true, 1, 2, [⟨[(1, 10)]⟩], [⟨[]⟩, ⟨[(2, 20)]⟩, ⟨[(1, 10)]⟩], [(10, .val 1), (20, .val 2)]⟩ [.r] 2 (by decide)
  exact absurd this (by decide)

/-- non-vacuity: the mixin shape `class C(Mixin, A)` with `Mixin.__rsub__` -/
example : cpyHier ⟨false, true, 1, 2, [⟨[(1, 10)]⟩], [⟨[]⟩, ⟨[(2, 20)]⟩, ⟨[(1, 10)]⟩], [(10, .val 1), (20, .val 2)]⟩ = ([.r], some 2) := by
  decide

/- rich comparisons, unrestricted statement
       ∀ c, c.wf → ∀ calls b, cpyCmp c = (calls, some b) → dispatchCmp c = (calls, some b) ∨ (dispatchCmp c).2 = none
   FALSE of the current code (`class B(A)`: `A() < B()` calls `B.__gt__` first in CPython). -/
theorem C10.cmp_dispatch_fails_at :
    ¬ ∀ c : CmpCfg, c.wf = true → ∀ calls b, cpyCmp c = (calls, some b) →
        dispatchCmp c = (calls, some b) ∨ (dispatchCmp c).2 = none := by
  intro h
  have := h ⟨.ord, false, true, false, .val true, .val false⟩ (by decide) [.r] false (by decide)
  exact absurd this (by decide)

/-- without the priority case: every value CPython computes is computed by the tracer with the same calls, or
    the tracer rejects (it has no identity fallback for `==` / `!=`) -/
theorem C10.cmp_dispatch_partial (c : CmpCfg) (hp : c.priority = false) (calls : List MCall) (b : Bool)
    (h : cpyCmp c = (calls, some b)) : dispatchCmp c = (calls, some b) ∨ dispatchCmp c = (calls, none) := by
  obtain ⟨kind, same, rsub, ident, lop, rrop⟩ := c
  simp only [cpyCmp, hp] at h
  simp only [dispatchCmp]
  rcases lop with _ | lv <;> rcases rrop with _ | rv <;> cases kind <;> simp_all

/-- and every value the tracer computes is CPython's -/
theorem C10.cmp_dispatch_sound_partial (c : CmpCfg) (hp : c.priority = false) (calls : List MCall) (b : Bool)
    (h : dispatchCmp c = (calls, some b)) : cpyCmp c = (calls, some b) := by
  obtain ⟨kind, same, rsub, ident, lop, rrop⟩ := c
  simp only [dispatchCmp] at h
  simp only [cpyCmp, hp]
  rcases lop with _ | lv <;> rcases rrop with _ | rv <;> simp_all

theorem C10.cmp_dispatch_fixed (c : CmpCfg) (calls : List MCall) (b : Bool)
    (h : cpyCmp c = (calls, some b)) : dispatchCmpFixed c = (calls, some b) ∨ dispatchCmpFixed c = (calls, none) := by
  obtain ⟨kind, same, rsub, ident, lop, rrop⟩ := c
  simp only [cpyCmp] at h
  simp only [dispatchCmpFixed, dispatchCmp]
  rcases lop with _ | lv <;> rcases rrop with _ | rv <;> cases kind <;> cases same <;> cases rsub <;>
    simp_all [CmpCfg.priority]

example : CmpCfg.priority ⟨.ord, false, false, false, .notImpl, .val true⟩ = false ∧
    cpyCmp ⟨.ord, false, false, false, .notImpl, .val true⟩ = ([.l, .r], some true) := by decide
