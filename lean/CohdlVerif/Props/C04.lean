/-! C04 - property theorems (declared with their full name `C04.<name>`; helper lemmas go to Lemmas/) -/
