import CohdlVerif.Lemmas.C04Lemmas

/-!
  C04 - property theorems: reset returns every sequential context to its power-up behaviour from any state.

  The model (Model/C04.lean) mirrors `std._context._sequential_impl` (three wrappers, either polarity,
  `step_cond`, `on_reset`) and `Sequential._pushed_resettable_signals` (which objects `reset_context()` assigns).
  The body of the context and the on_reset actions are arbitrary functions (state before the activation, inputs)
  -> list of writes; every theorem below holds for EVERY body (an embedded coroutine is the body `smBody`),
  EVERY on_reset action and EVERY state - not only the reachable ones.
  Only property theorems live here (full name `C04.*`); helper lemmas are in Lemmas/C04Lemmas.lean.
-/
open CohdlVerif.C04

namespace CohdlVerif.C04

variable {ι : Type}

/-- Hypothesis of `C04.after_reset_eq_powerup`: `F` is a set of objects that carries the whole state of the
    context - every object in it is assigned its default by reset and not re-assigned by an on_reset action, and
    the body reads nothing outside `F` (besides its inputs). -/
structure AllStateResettable (p : Ctx ι) (F : Nat → Bool) : Prop where
  reset : ∀ r, F r = true → r ∈ resettable p
  onReset_off : ∀ s d, ∀ w ∈ p.onReset s d, F w.1 = false
  body_reads : ∀ s s' d, (∀ r, F r = true → s r = s' r) → p.body s d = p.body s' d

/-- a 2-bit counter `c` (signal, default 0) and a variable `v` (default 1) that follows it; both resettable -/
def exCounterObjs : List Obj := [⟨false, some 0, false, true, false⟩, ⟨true, some 1, false, true, false⟩]

def exCounter (kind : RKind) (low : Bool) : Ctx Unit :=
  { objs := exCounterObjs,
    cfg := ⟨kind, low⟩,
    body := fun s _ => [(0, (s 0).map (fun x => (x + 1) % 4)), (1, s 0)],
    onReset := fun _ _ => [] }

/-- the same counter marked `noreset` (and a default-less variant behaves the same way) -/
def exNoreset : Ctx Unit :=
  { objs := [⟨false, some 0, true, true, false⟩],
    cfg := ⟨.sync, false⟩,
    body := fun s _ => [(0, (s 0).map (fun x => (x + 1) % 4))],
    onReset := fun _ _ => [] }

/-- a context with an on_reset action (`extra <= 1`), a noreset object and an object without default -/
def exMixed : Ctx Unit :=
  { objs := [⟨false, some 3, false, true, false⟩,      -- 0: resettable
             ⟨false, some 1, true, true, false⟩,       -- 1: noreset
             ⟨true, none, false, true, false⟩,         -- 2: variable without default
             ⟨false, some 0, false, true, false⟩,      -- 3: `extra`, assigned by the on_reset action
             ⟨false, some 2, false, false, false⟩],    -- 4: only read by this context
    cfg := ⟨.async, true⟩,
    body := fun s _ => [(0, s 1), (1, s 4), (2, s 0), (3, some 0)],
    onReset := fun _ _ => [(3, some 1)] }

end CohdlVerif.C04

/-- Whenever the wrapper takes the reset branch (`resetTaken`: at the active clock edge for synchronous resets,
    at ANY activation for asynchronous ones, reset level compared with the configured polarity), every object the
    code treats as resettable - written or pushed in the context, has a default, not `noreset` - holds its
    default afterwards, unless a registered on_reset action assigns it (then see `C04.reset_runs_on_reset`).
    For every body, every state. -/
theorem C04.reset_sets_defaults {ι : Type} (p : Ctx ι) (s : State) (e : Ev ι)
    (hact : resetTaken p.cfg e = true) (r : Nat) (hr : r ∈ resettable p)
    (hon : ∀ w ∈ p.onReset s e.data, w.1 ≠ r) :
    stepR p s e r = defaultOf p r := by
  rw [stepR_reset p s e hact]
  exact resetBranch_default p s e.data r hr hon

/-- Objects without a default, marked `noreset`, or not driven by the context keep their value while reset is
    active (unless a registered on_reset action assigns them). -/
theorem C04.reset_keeps_others {ι : Type} (p : Ctx ι) (s : State) (e : Ev ι)
    (hact : resetTaken p.cfg e = true) (r : Nat) (hr : r ∉ resettable p)
    (hon : ∀ w ∈ p.onReset s e.data, w.1 ≠ r) :
    stepR p s e r = s r := by
  rw [stepR_reset p s e hact]
  exact resetBranch_keep p s e.data r hr hon

/-- characterisation of the mirrored `resettable` set in the words of the property statement -/
theorem C04.resettable_iff {ι : Type} (p : Ctx ι) (r : Nat) :
    r ∈ resettable p ↔ ∃ o, p.objs[r]? = some o ∧ (o.written = true ∨ o.pushed = true) ∧
      o.default.isSome = true ∧ o.noreset = false := by
  unfold resettable
  rw [mem_resettableL]
  unfold isResettable objAt
  cases h : p.objs[r]? with
  | none => simp
  | some o => simp [Obj.resettable, Bool.and_eq_true, Bool.or_eq_true, and_assoc]

/-- Registered on_reset actions run: the value an on_reset action assigns (last assignment wins) is what the
    object holds after the reset activation, whatever the state was. -/
theorem C04.reset_runs_on_reset {ι : Type} (p : Ctx ι) (s : State) (e : Ev ι)
    (hact : resetTaken p.cfg e = true) (r : Nat) (v : Val)
    (h1 : ∀ w ∈ p.onReset s e.data, w.1 = r → w.2 = v) (h2 : ∃ w ∈ p.onReset s e.data, w.1 = r) :
    stepR p s e r = v := by
  rw [stepR_reset p s e hact]
  exact resetBranch_onReset p s e.data r v h1 h2

/-- Nothing else in the context executes while reset is active: the result of the activation is the reset code
    (default assignments, then the on_reset actions) and does not depend on the body at all. -/
theorem C04.reset_runs_nothing_else {ι : Type} (p : Ctx ι) (b : State → ι → Writes) (s : State) (e : Ev ι)
    (hact : resetTaken p.cfg e = true) :
    stepR p s e = applyWrites s (defaultWrites p ++ p.onReset s e.data) ∧
    stepR { p with body := b } s e = stepR p s e := by
  constructor
  · rw [stepR_reset p s e hact]; rfl
  · rw [stepR_reset p s e hact, stepR_reset { p with body := b } s e hact]
    rfl

/-- An embedded coroutine returns to its first state: for every per-state code, every state (any value of the
    state register, defined or not) the register holds the first state after a reset activation, and the next
    activation of the body executes the code of the first state.  (The state register is not accessible to user
    code, so no on_reset action can assign it.) -/
theorem C04.reset_to_first_state {ι : Type} (p : Ctx ι) (codes : List (State → ι → Writes)) (s : State) (e : Ev ι)
    (hact : resetTaken (withSM p codes).cfg e = true)
    (hon : ∀ w ∈ (withSM p codes).onReset s e.data, w.1 ≠ p.objs.length) :
    stepR (withSM p codes) s e p.objs.length = some 0 ∧
    ∀ d, (withSM p codes).body (stepR (withSM p codes) s e) d
        = (codes.getD 0 (fun _ _ => [])) (stepR (withSM p codes) s e) d := by
  have h := C04.reset_sets_defaults (withSM p codes) s e hact p.objs.length (stateReg_resettable p codes) hon
  rw [stateReg_default] at h
  refine ⟨h, fun d => ?_⟩
  show smBody p.objs.length codes _ d = _
  simp [smBody, h]

/-- Asynchronous reset acts at any instant: whenever the reset level is the active one the activation is the
    reset code - whether or not a clock edge occurs, whatever the step condition says. -/
theorem C04.async_reset_any_instant {ι : Type} (p : Ctx ι) (s : State) (e : Ev ι)
    (hk : p.cfg.kind = .async) (hlevel : e.rst = !p.cfg.activeLow) :
    resetTaken p.cfg e = true ∧
    ∀ edge en, stepR p s { e with edge := edge, en := en } = applyWrites s (defaultWrites p ++ p.onReset s e.data) := by
  have hact : ∀ edge en, resetTaken p.cfg { e with edge := edge, en := en } = true := by
    intro edge en
    simp [resetTaken, hk, active, hlevel]
  refine ⟨by simpa using hact e.edge e.en, fun edge en => ?_⟩
  rw [stepR_reset p s _ (hact edge en)]
  rfl

/-- Synchronous reset acts only at the active clock edge: without the edge nothing changes, at the edge with the
    reset level active the activation is the reset code, whatever the step condition says. -/
theorem C04.sync_reset_at_edge_only {ι : Type} (p : Ctx ι) (s : State) (e : Ev ι) (hk : p.cfg.kind = .sync) :
    (e.edge = false → stepR p s e = s) ∧
    (e.edge = true → e.rst = !p.cfg.activeLow →
      stepR p s e = applyWrites s (defaultWrites p ++ p.onReset s e.data)) := by
  constructor
  · intro h; simp [stepR, hk, h]
  · intro h1 h2
    have hact : resetTaken p.cfg e = true := by simp [resetTaken, hk, active, h1, h2]
    rw [stepR_reset p s e hact]; rfl

/-- Polarity: with the reset level inactive the reset code does not run - the activation is the (gated) body at a
    clock edge and nothing otherwise. -/
theorem C04.inactive_reset_runs_body {ι : Type} (p : Ctx ι) (s : State) (e : Ev ι)
    (hlevel : e.rst = p.cfg.activeLow) :
    resetTaken p.cfg e = false ∧ stepR p s e = if e.edge then stepBranch p s e else s := by
  cases hk : p.cfg.kind <;> simp [resetTaken, stepR, hk, active, hlevel]

/-- two states that agree on the objects of `F` stay in agreement under every activation -/
theorem C04.agreement_preserved {ι : Type} (p : Ctx ι) (F : Nat → Bool) (h : AllStateResettable p F)
    (s s' : State) (e : Ev ι) (hs : ∀ r, F r = true → s r = s' r) :
    ∀ r, F r = true → stepR p s e r = stepR p s' e r := by
  have hreset : ∀ r, F r = true → resetBranch p s e.data r = resetBranch p s' e.data r := by
    intro r hr
    have hoff : ∀ t, ∀ w ∈ p.onReset t e.data, w.1 ≠ r := by
      intro t w hw e'
      have := h.onReset_off t e.data w hw
      rw [e', hr] at this; cases this
    rw [resetBranch_default p s e.data r (h.reset r hr) (hoff s),
        resetBranch_default p s' e.data r (h.reset r hr) (hoff s')]
  have hstep : ∀ r, F r = true → stepBranch p s e r = stepBranch p s' e r := by
    intro r hr
    unfold stepBranch
    by_cases hen : e.en = true
    · simp only [hen, if_true]
      rw [h.body_reads s s' e.data hs]
      exact applyWrites_agree F s s' _ hs r hr
    · simp [hen, hs r hr]
  intro r hr
  unfold stepR
  cases p.cfg.kind with
  | none => by_cases he : e.edge = true <;> simp [he, hstep r hr, hs r hr]
  | sync =>
    by_cases he : e.edge = true <;> by_cases ha : active p.cfg e.rst = true <;>
      simp [he, ha, hstep r hr, hreset r hr, hs r hr]
  | async =>
    by_cases he : e.edge = true <;> by_cases ha : active p.cfg e.rst = true <;>
      simp [he, ha, hstep r hr, hreset r hr, hs r hr]

/-- THE PROPERTY.  After a reset activation from ANY state (reachable or not), for ALL later activations (clock
    edges, further resets, any inputs) the context behaves exactly as it does after power-up: the trace of the
    objects in `F` equals the power-up trace on the same later inputs - provided `F` carries the whole state of
    the context (`AllStateResettable`).  Without that hypothesis the statement is false BY DESIGN of `noreset`
    / default-less objects: see `C04.after_reset_eq_powerup_needs_hypothesis`. -/
theorem C04.after_reset_eq_powerup {ι : Type} (p : Ctx ι) (F : Nat → Bool) (h : AllStateResettable p F)
    (s : State) (e : Ev ι) (hact : resetTaken p.cfg e = true) (es : List (Ev ι)) :
    traceF F p (stepR p s e) es = traceF F p (init p) es := by
  have h0 : ∀ r, F r = true → stepR p s e r = init p r := by
    intro r hr
    have hoff : ∀ w ∈ p.onReset s e.data, w.1 ≠ r := by
      intro w hw e'
      have := h.onReset_off s e.data w hw
      rw [e', hr] at this; cases this
    rw [C04.reset_sets_defaults p s e hact r (h.reset r hr) hoff]; rfl
  have gen : ∀ (es : List (Ev ι)) (t t' : State), (∀ r, F r = true → t r = t' r) →
      traceF F p t es = traceF F p t' es := by
    intro es
    induction es with
    | nil => intro _ _ _; rfl
    | cons e' es ih =>
      intro t t' ht
      have hn := C04.agreement_preserved p F h t t' e' ht
      simp only [traceF, runR, List.map_cons]
      rw [restrict_eq_of_agree F _ _ hn]
      have := ih _ _ hn
      simp only [traceF] at this
      rw [this]
  exact gen es _ _ h0

/-- non-vacuity: the counter context (signal + variable, any wrapper kind and polarity) satisfies the hypothesis
    with `F` = all of its objects -/
example (kind : RKind) (low : Bool) : AllStateResettable (exCounter kind low) (fun r => decide (r < 2)) where
  reset := by
    intro r hr
    have hr2 : r < 2 := of_decide_eq_true hr
    match r, hr2 with
    | 0, _ => exact (by decide : 0 ∈ resettableL exCounterObjs)
    | 1, _ => exact (by decide : 1 ∈ resettableL exCounterObjs)
    | n + 2, h2 => exact absurd h2 (by omega)
  onReset_off := by intro s d w hw; cases hw
  body_reads := by
    intro s s' d hs
    have h0 := hs 0 (by decide)
    simp [exCounter, h0]

/-- ... so from the arbitrary (even unreachable: `v` undefined) state `c = 3, v = U` one asynchronous active-low reset
    activation without any clock edge makes the later trace equal to the power-up trace -/
example (es : List (Ev Unit)) :
    traceF (fun r => decide (r < 2)) (exCounter .async true) (stepR (exCounter .async true) (fun r => if r = 0 then some 3 else none) ⟨false, false, false, ()⟩) es
      = traceF (fun r => decide (r < 2)) (exCounter .async true) (init (exCounter .async true)) es :=
  C04.after_reset_eq_powerup _ _
    { reset := by
        intro r hr
        have hr2 : r < 2 := of_decide_eq_true hr
        match r, hr2 with
        | 0, _ => exact (by decide : 0 ∈ resettableL exCounterObjs)
        | 1, _ => exact (by decide : 1 ∈ resettableL exCounterObjs)
        | n + 2, h2 => exact absurd h2 (by omega)
      onReset_off := by intro s d w hw; cases hw
      body_reads := by
        intro s s' d hs
        have h0 := hs 0 (by decide)
        simp [exCounter, h0] } _ _ (by decide) es

/-- Without the hypothesis the conclusion FAILS, by design of `noreset` (the same happens for a register without
    default): the `noreset` counter keeps its value 2 through the reset activation (that is what
    `C04.reset_keeps_others` demands), so the later trace (3, ...) differs from the power-up trace (1, ...).
    Every part of `AllStateResettable` except `reset` holds for this context. -/
theorem C04.after_reset_eq_powerup_needs_hypothesis :
    ∃ (p : Ctx Unit) (F : Nat → Bool) (s : State) (e : Ev Unit) (es : List (Ev Unit)),
      resetTaken p.cfg e = true ∧
      (∀ s d, ∀ w ∈ p.onReset s d, F w.1 = false) ∧
      (∀ s s' d, (∀ r, F r = true → s r = s' r) → p.body s d = p.body s' d) ∧
      stepR p s e 0 = s 0 ∧
      traceF F p (stepR p s e) es ≠ traceF F p (init p) es := by
  refine ⟨exNoreset, fun r => r == 0, fun _ => some 2, ⟨true, true, true, ()⟩, [⟨true, false, true, ()⟩],
    by decide, ?_, ?_, by decide, ?_⟩
  · intro s d w hw; cases hw
  · intro s s' d hs
    have h0 := hs 0 (by decide)
    simp [exNoreset, h0]
  · intro hEq
    have := congrArg (fun l => l.map (fun st => st 0)) hEq
    revert this
    decide

/-- concrete instance of the per-object theorems on a context with every kind of object, in the unreachable
    state (5,6,7,8,9): asynchronous active-low reset, no clock edge.  Object 0 takes its default 3, the noreset
    object 1, the default-less variable 2 and the only-read object 4 keep their values, `extra` (3) holds the value
    the on_reset action assigns. -/
example :
    let s : State := fun r => some (r + 5)
    let e : Ev Unit := ⟨false, false, true, ()⟩
    resetTaken exMixed.cfg e = true ∧
    (List.range 5).map (stepR exMixed s e) = [some 3, some 6, some 7, some 1, some 9] := by
  decide
