/-! C09 - property theorems (declared with their full name `C09.<name>`; helper lemmas go to Lemmas/) -/
