import CohdlVerif.Lemmas.C09Lemmas

/-!
  C09 - property theorems: the compile-time evaluation `pyBin / pyUn / pyPar` (mirror of the Python methods the
  tracer executes on constant operands) yields exactly the documented value, type and width `specBin / specUn /
  specPar` (= what numeric_std computes for the emitted expression) wherever the specification is defined -
  for ALL widths and values - and never raises there.  The statements have the form
  `spec = some v -> pyFold = ok v` (totality and agreement at once; the specification is undefined for division
  by zero, for integers outside the representable range of the vector operand and for unsupported type pairs).
  The model mirrors the tree with fixes/C09-*.patch applied; the `_old_fails_at` theorems are the witnesses
  against the unpatched code.
-/
open CohdlVerif.C09

/-- Unsigned x Unsigned, every binary operator, all widths and values -/
theorem C09.uu_fold_eq_spec (op : BinOp) (wa na wb nb : Nat) (hwa : 1 ≤ wa) (hwb : 1 ≤ wb)
    (ha : na < 2 ^ wa) (hb : nb < 2 ^ wb) (v : Val)
    (hs : specBin op (.vec .uns wa na) (.vec .uns wb nb) = some v) :
    pyBin op (.vec .uns wa na) (.vec .uns wb nb) = .ok v := by
  have hM := Nat.two_pow_pos wa
  have hMb := Nat.two_pow_pos wb
  cases op
  case add =>
    simp only [specBin, specArith, isNumeric, valOf, if_true, Option.some.injEq] at hs
    subst hs
    simp only [pyBin, lhsMethod, uAdd, wrap, ripple_pat]
  case sub =>
    simp only [specBin, specArith, isNumeric, valOf, if_true, Option.some.injEq] at hs
    subst hs
    simp only [pyBin, lhsMethod, uSub_uu wa na wb nb hwa hb, wrap]
  case mul =>
    simp only [specBin, specArith, isNumeric, valOf, if_true, Option.some.injEq] at hs
    subst hs
    simp only [pyBin, lhsMethod, uMul]
    have h : (na : Int) * nb < ((2 ^ (wa + wb) : Nat) : Int) := by
      rw [Nat.pow_add]; push_cast
      have h1 : (na : Int) < 2 ^ wa := by exact_mod_cast ha
      have h2 : (nb : Int) < 2 ^ wb := by exact_mod_cast hb
      nlinarith [Int.natCast_nonneg na, Int.natCast_nonneg nb]
    rw [mkU_ok _ _ (by positivity) h]
  case tdiv =>
    simp only [specBin, specArith, isNumeric, valOf, if_true] at hs
    by_cases hz : (nb : Int) = 0
    · simp [hz] at hs
    · simp only [hz, ↓reduceIte, Option.some.injEq] at hs
      subst hs
      have hz' : nb ≠ 0 := by omega
      have hlt : na / nb < 2 ^ wa := Nat.lt_of_le_of_lt (Nat.div_le_self _ _) ha
      simp only [pyBin, opTruncdiv, uTruncdiv, hz', if_false, resToExcept, nat_fdiv, nat_tdiv,
        mkU_nat _ _ hlt, wrap_uns_nat _ _ hlt]
  case fdiv =>
    simp only [specBin] at hs
    by_cases hz : nb = 0
    · simp [hz] at hs
    · simp only [hz, ↓reduceIte, Option.some.injEq] at hs
      subst hs
      have hlt : na / nb < 2 ^ wa := Nat.lt_of_le_of_lt (Nat.div_le_self _ _) ha
      simp only [pyBin, lhsMethod, uFloordiv, uTruncdiv, hz, if_false, nat_fdiv, nat_tdiv,
        mkU_nat _ _ hlt, wrap_uns_nat _ _ hlt]
  case mod =>
    simp only [specBin, specArith, isNumeric, valOf, if_true] at hs
    by_cases hz : (nb : Int) = 0
    · simp [hz] at hs
    · simp only [hz, ↓reduceIte, Option.some.injEq] at hs
      subst hs
      have hz' : nb ≠ 0 := by omega
      have hlt : na % nb < 2 ^ wb := Nat.lt_trans (Nat.mod_lt _ (by omega)) hb
      simp only [pyBin, lhsMethod, uMod, hz', if_false, nat_fmod, mkU_nat _ _ hlt, wrap_uns_nat _ _ hlt]
  case rem =>
    simp only [specBin, specArith, isNumeric, valOf, if_true] at hs
    by_cases hz : (nb : Int) = 0
    · simp [hz] at hs
    · simp only [hz, ↓reduceIte, Option.some.injEq] at hs
      subst hs
      have hz' : nb ≠ 0 := by omega
      have hlt : na % nb < 2 ^ wb := Nat.lt_trans (Nat.mod_lt _ (by omega)) hb
      simp only [pyBin, opRem, uRem, hz', if_false, resToExcept, truncRem_eq, nat_tmod,
        mkU_nat _ _ hlt, wrap_uns_nat _ _ hlt]
  case shl =>
    simp only [specBin, shiftAmount, isNumeric, valOf, Bool.true_and] at hs
    simp only [Int.natCast_nonneg, decide_true, if_true, Option.some.injEq, Int.toNat_natCast] at hs
    subst hs
    have hneg : ¬ ((nb : Int) < 0) := by omega
    have hlt := Nat.mod_lt (na * 2 ^ nb) hM
    simp only [pyBin, lhsMethod, uShl, shiftAmount, Int.toNat_natCast, hneg, if_false, mkU_nat _ _ hlt, wrap]
    congr 2
  case shr =>
    simp only [specBin, shiftAmount, isNumeric, valOf, Bool.true_and] at hs
    simp only [Int.natCast_nonneg, decide_true, if_true, Option.some.injEq, Int.toNat_natCast] at hs
    subst hs
    have hneg : ¬ ((nb : Int) < 0) := by omega
    have hlt : na / 2 ^ nb < 2 ^ wa := Nat.lt_of_le_of_lt (Nat.div_le_self _ _) ha
    simp only [pyBin, lhsMethod, uShr, shiftAmount, Int.toNat_natCast, hneg, if_false, mkU_nat _ _ hlt,
      reduceCtorEq, nat_fdiv, wrap_uns_nat _ _ hlt]
  case and =>
    simp only [specBin, true_and] at hs
    by_cases h : wa = wb
    · simp only [h, ↓reduceIte, Option.some.injEq] at hs; subst hs
      simp only [pyBin, lhsMethod, vBitwise, h, and_self, if_true]
    · simp [h] at hs
  case or =>
    simp only [specBin, true_and] at hs
    by_cases h : wa = wb
    · simp only [h, ↓reduceIte, Option.some.injEq] at hs; subst hs
      simp only [pyBin, lhsMethod, vBitwise, h, and_self, if_true]
    · simp [h] at hs
  case xor =>
    simp only [specBin, true_and] at hs
    by_cases h : wa = wb
    · simp only [h, ↓reduceIte, Option.some.injEq] at hs; subst hs
      simp only [pyBin, lhsMethod, vBitwise, h, and_self, if_true]
    · simp [h] at hs
  case cat =>
    simp only [specBin, Option.some.injEq] at hs; subst hs
    simp only [pyBin, lhsMethod, vMatmul]
  all_goals
    simp only [specBin, specArith, isNumeric, valOf, if_true, Option.some.injEq] at hs
    subst hs
    simp only [pyBin, lhsMethod, uCmp, uCmpOperand]

example : specBin .sub (.vec .uns 4 5) (.vec .uns 2 1) = some (.vec .uns 4 4) := by decide

/-- Signed x Signed: `+ - truncdiv`, comparisons, bitwise operators and `@`, all widths and values
    (`*`, `%`, `rem`, shifts: see `C09.ss_mul_fold_eq_spec` and notes - the range side conditions of the
    constructor for mod/rem are not proved here) -/
theorem C09.ss_fold_eq_spec_partial (op : BinOp) (wa na wb nb : Nat) (hwa : 1 ≤ wa) (hwb : 1 ≤ wb)
    (ha : na < 2 ^ wa) (hb : nb < 2 ^ wb) (v : Val)
    (hop : op ≠ .mul ∧ op ≠ .mod ∧ op ≠ .rem ∧ op ≠ .shl ∧ op ≠ .shr)
    (hs : specBin op (.vec .sgn wa na) (.vec .sgn wb nb) = some v) :
    pyBin op (.vec .sgn wa na) (.vec .sgn wb nb) = .ok v := by
  obtain ⟨h1, h2, h3, h4, h5⟩ := hop
  cases op
  case add =>
    simp only [specBin, specArith, isNumeric, valOf, if_true, Option.some.injEq] at hs
    subst hs
    simp only [pyBin, lhsMethod, sAdd_ss]
  case sub =>
    simp only [specBin, specArith, isNumeric, valOf, if_true, Option.some.injEq] at hs
    subst hs
    simp only [pyBin, lhsMethod, sSub_ss wa na wb nb hwa hwb hb]
  case tdiv =>
    simp only [specBin, specArith, isNumeric, valOf, if_true] at hs
    by_cases hz : toInt wb nb = 0
    · simp [hz] at hs
    · simp only [hz, ↓reduceIte, Option.some.injEq] at hs
      subst hs
      have hz' : nb ≠ 0 := by
        intro h0; subst h0; apply hz; unfold toInt; have := Nat.two_pow_pos (wb - 1); simp [this]
      simp only [pyBin, opTruncdiv, sTruncdiv, hz', if_false, resToExcept, truncDiv_eq, wrap]
  case mul => exact absurd rfl h1
  case mod => exact absurd rfl h2
  case rem => exact absurd rfl h3
  case shl => exact absurd rfl h4
  case shr => exact absurd rfl h5
  case fdiv => simp [specBin] at hs
  case and =>
    simp only [specBin, true_and] at hs
    by_cases h : wa = wb
    · simp only [h, ↓reduceIte, Option.some.injEq] at hs; subst hs
      simp only [pyBin, lhsMethod, vBitwise, h, and_self, if_true]
    · simp [h] at hs
  case or =>
    simp only [specBin, true_and] at hs
    by_cases h : wa = wb
    · simp only [h, ↓reduceIte, Option.some.injEq] at hs; subst hs
      simp only [pyBin, lhsMethod, vBitwise, h, and_self, if_true]
    · simp [h] at hs
  case xor =>
    simp only [specBin, true_and] at hs
    by_cases h : wa = wb
    · simp only [h, ↓reduceIte, Option.some.injEq] at hs; subst hs
      simp only [pyBin, lhsMethod, vBitwise, h, and_self, if_true]
    · simp [h] at hs
  case cat =>
    simp only [specBin, Option.some.injEq] at hs; subst hs
    simp only [pyBin, lhsMethod, vMatmul]
  all_goals
    simp only [specBin, specArith, isNumeric, valOf, if_true, Option.some.injEq] at hs
    subst hs
    simp only [pyBin, lhsMethod, sCmp, sCmpOperand]

/-- Signed x Signed multiplication: the product always fits the sum of the widths -/
theorem C09.ss_mul_fold_eq_spec (wa na wb nb : Nat) (hwa : 1 ≤ wa) (hwb : 1 ≤ wb)
    (ha : na < 2 ^ wa) (hb : nb < 2 ^ wb) :
    pyBin .mul (.vec .sgn wa na) (.vec .sgn wb nb) = .ok (wrap .sgn (wa + wb) (toInt wa na * toInt wb nb)) := by
  have b1 := toInt_bounds wa na hwa ha
  have b2 := toInt_bounds wb nb hwb hb
  have hp : 2 ^ (wa + wb - 1) = 2 * (2 ^ (wa - 1) * 2 ^ (wb - 1)) := by
    obtain ⟨a, rfl⟩ : ∃ a, wa = a + 1 := ⟨wa - 1, by omega⟩
    obtain ⟨b, rfl⟩ : ∃ b, wb = b + 1 := ⟨wb - 1, by omega⟩
    simp only [Nat.add_sub_cancel]
    rw [show a + 1 + (b + 1) - 1 = (a + b) + 1 by omega, Nat.pow_succ, Nat.pow_add]; ring
  have hr : inRange .sgn (wa + wb) (toInt wa na * toInt wb nb) = true := by
    simp only [inRange, Bool.and_eq_true, decide_eq_true_eq]
    rw [hp]
    generalize 2 ^ (wa - 1) = P at *
    generalize 2 ^ (wb - 1) = Q at *
    generalize toInt wa na = x at *
    generalize toInt wb nb = y at *
    push_cast
    constructor <;> nlinarith [b1.1, b1.2, b2.1, b2.2]
  simp only [pyBin, lhsMethod, sMul, mkS_ok _ _ hr]


/-- unary operators and views on vectors (Unsigned / Signed / BitVector), all widths and values -/
theorem C09.un_vec_fold_eq_spec (op : UnOp) (k : Kind) (w n : Nat) (hw : 1 ≤ w) (hn : n < 2 ^ w) (v : Val)
    (hs : specUn op (.vec k w n) = some v) : pyUn op (.vec k w n) = .ok v := by
  cases op
  case neg =>
    cases k <;> simp only [specUn, Option.some.injEq, reduceCtorEq] at hs <;> subst hs
    · simp only [pyUn, uNeg_eq w n hw hn, resToExcept]; rfl
    · simp only [pyUn, sNeg_eq w n hw hn, resToExcept]
  case abs =>
    cases k <;> simp only [specUn, Option.some.injEq, reduceCtorEq] at hs <;> subst hs
    simp only [pyUn, sAbs]
    by_cases h0 : toInt w n ≥ 0
    · simp only [h0, if_true, mkS_ok _ _ (inRange_toInt w n hw hn), resToExcept, wrap]
      congr 3; omega
    · simp only [h0, if_false, sNeg_eq w n hw hn, resToExcept, wrap]
      congr 3; omega
  case msb =>
    simp only [specUn, Option.some.injEq] at hs; subst hs
    simp only [pyUn, msb_bit w n hw hn]
  all_goals
    simp only [specUn, Option.some.injEq] at hs; subst hs
    simp only [pyUn]

/-- unary operators on Bit and Integer -/
theorem C09.un_scalar_fold_eq_spec (op : UnOp) (a v : Val) (hk : ∀ k w n, a ≠ .vec k w n)
    (hs : specUn op a = some v) : pyUn op a = .ok v := by
  cases a
  case vec k w n => exact absurd rfl (hk k w n)
  all_goals
    cases op <;> simp only [specUn, Option.some.injEq, reduceCtorEq] at hs <;> subst hs <;> simp only [pyUn]

/-- Unsigned with a Python int on either side, `+` and `-`: wraps at the vector's width (for every int: the
    Python code reduces the int modulo 2^w first, so the in-range hypothesis of the spec is not even needed) -/
theorem C09.ui_addsub_fold_eq_spec (w n : Nat) (r : Int) (hw : 1 ≤ w) (hn : n < 2 ^ w) :
    pyBin .add (.vec .uns w n) (.int r) = .ok (wrap .uns w ((n : Int) + r)) ∧
    pyBin .sub (.vec .uns w n) (.int r) = .ok (wrap .uns w ((n : Int) - r)) ∧
    pyBin .add (.int r) (.vec .uns w n) = .ok (wrap .uns w (r + (n : Int))) ∧
    pyBin .sub (.int r) (.vec .uns w n) = .ok (wrap .uns w (r - (n : Int))) := by
  refine ⟨?_, ?_, ?_, ?_⟩
  · simp only [pyBin, lhsMethod, uAdd_int w n r hw, wrap]
  · simp only [pyBin, lhsMethod, uSub_int w n r hw, wrap]
  · simp only [pyBin, lhsMethod, rhsMethod, uAdd_int w n r hw, wrap, Int.add_comm]
  · simp only [pyBin, lhsMethod, rhsMethod, uNeg_eq w n hw hn, uAdd_int _ _ r hw, wrap]
    congr 2
    rw [pat_absorb_l]; congr 1; omega

/-- patched `__rmul__`: `int * Unsigned` is the product at twice the width (in-range int) -/
theorem C09.rmul_iu_fold_eq_spec (w n : Nat) (l : Int) (hn : n < 2 ^ w) (hl : inRange .uns w l = true) (v : Val)
    (hs : specBin .mul (.int l) (.vec .uns w n) = some v) :
    pyBin .mul (.int l) (.vec .uns w n) = .ok v := by
  simp only [specBin, isNumeric, hl, Bool.and_self, if_true, specArith, valOf, Option.some.injEq] at hs
  subst hs
  simp only [inRange, Bool.and_eq_true, decide_eq_true_eq] at hl
  have h : l * (n : Int) < ((2 ^ (w + w) : Nat) : Int) := by
    rw [Nat.pow_add]; push_cast
    have h1 : (n : Int) < 2 ^ w := by exact_mod_cast hn
    have h2 : l < 2 ^ w := by exact_mod_cast hl.2
    nlinarith [Int.natCast_nonneg n, hl.1]
  have h0 : 0 ≤ l * (n : Int) := Int.mul_nonneg hl.1 (Int.natCast_nonneg n)
  simp only [pyBin, lhsMethod, rhsMethod, uRmul, mkU_ok _ _ h0 h, wrap, Nat.two_mul]

example : inRange .uns 4 3 = true ∧ specBin .mul (.int 3) (.vec .uns 4 5) = some (.vec .uns 8 15) := by decide

/-- `[i]`, `[hi:lo]`, `msb(k)`, `lsb(k)`: all widths, values and parameters.
    FULL statement (not closed in time): the same for `op = .resize` (needs `n * 2^zeros < 2^target` from
    `w + zeros ≤ target`); resize is covered by the exhaustive correspondence run only. -/
theorem C09.par_fold_eq_spec_partial (op : ParOp) (a v : Val) (p1 p2 : Int) (hop : op ≠ .resize)
    (hs : specPar op a p1 p2 = some v) : pyPar op a p1 p2 = .ok v := by
  cases a
  case vec k w n =>
    cases op
    case resize => exact absurd rfl hop
    all_goals
      simp only [specPar] at hs
      split at hs
      · rename_i hc
        simp only [Option.some.injEq] at hs; subst hs
        simp only [pyPar, hc, and_self, if_true]
      · simp at hs
  all_goals
    cases op <;> simp [specPar] at hs

example : specPar .slice (.vec .uns 4 5) 2 1 = some (.vec .bv 2 2) := by decide

/-- the bit-level loop of `Unsigned.add` / `Signed.add` is addition modulo 2^t, for every width -/
theorem C09.ripple_add_exact (t a b : Nat) : ripple t a b = (a + b) % 2 ^ t := ripple_eq t a b

/-! ## witnesses against the unpatched code (`pyBinOld` = behaviour of /repo before fixes/C09-*.patch) -/

/-- `Unsigned[4](5) - Unsigned[2](1)` folded to 8 (run time: 4): rhs was negated at its own width -/
theorem C09.sub_uu_old_fails_at :
    pyBinOld .sub (.vec .uns 4 5) (.vec .uns 2 1) = .ok (.vec .uns 4 8) ∧
    specBin .sub (.vec .uns 4 5) (.vec .uns 2 1) = some (.vec .uns 4 4) := by decide

/-- `Signed[4](0) - Signed[2](-2)` folded to -2 (run time: 2) -/
theorem C09.sub_ss_old_fails_at :
    pyBinOld .sub (.vec .sgn 4 0) (.vec .sgn 2 2) = .ok (.vec .sgn 4 14) ∧
    specBin .sub (.vec .sgn 4 0) (.vec .sgn 2 2) = some (.vec .sgn 4 2) := by decide

/-- `3 * Unsigned[4](5)` folded to 25 (run time: 15): `__rmul__` used `lhs = int(rhs)` -/
theorem C09.rmul_iu_old_fails_at :
    pyBinOld .mul (.int 3) (.vec .uns 4 5) = .ok (.vec .uns 8 25) ∧
    specBin .mul (.int 3) (.vec .uns 4 5) = some (.vec .uns 8 15) := by decide

/-- `op.truncdiv(Signed[4](-8), Signed[4](-1))` raised at compile time (run time: wraps to -8) -/
theorem C09.truncdiv_ss_old_fails_at :
    pyBinOld .tdiv (.vec .sgn 4 8) (.vec .sgn 4 15) = .error .assertErr ∧
    specBin .tdiv (.vec .sgn 4 8) (.vec .sgn 4 15) = some (.vec .sgn 4 8) := by decide

/-- the unpatched subtraction is right exactly when the subtrahend is not narrower than the minuend -/
theorem C09.sub_uu_old_partial (wa na wb nb : Nat) (hwa : 1 ≤ wa) (hb : nb < 2 ^ wb) (hw : wa ≤ wb) :
    pyBinOld .sub (.vec .uns wa na) (.vec .uns wb nb) = pyBin .sub (.vec .uns wa na) (.vec .uns wb nb) := by
  simp only [pyBinOld, pyBin, lhsMethod, uSubOld, uSub, Nat.max_eq_right hw, resToExcept]
  rw [uNeg_eq wb nb (by omega) hb]
  simp only [uAdd]

example : (5 : Nat) < 2 ^ 4 ∧ (1 : Nat) < 2 ^ 2 := by decide
