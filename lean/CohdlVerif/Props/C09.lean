import CohdlVerif.Lemmas.C09Lemmas3

/-!
  C09 - property theorems: the compile-time evaluation `pyBin / pyUn / pyPar` (mirror of the Python methods the
  tracer executes on constant operands) yields exactly the documented value, type and width `specBin / specUn /
  specPar` (= what numeric_std computes for the emitted expression) wherever the specification is defined -
  for ALL widths and values - and never raises there.  The statements have the form
  `spec = some v -> pyFold = ok v` (totality and agreement at once; the specification is undefined for division
  by zero, for integers outside the representable range of the vector operand and for unsupported type pairs).
  One theorem per operand-kind pair (uu, ss, ui, iu, si, is, ii, shifts, Null/Full, `@`, BitVector/Bit, unary,
  resize / index / slice), each for every operator.  The model mirrors the tree with fixes/C09-*.patch applied; the `_old_fails_at` theorems are the witnesses
  against the unpatched code.
-/
open CohdlVerif.C09

/-- Unsigned x Unsigned, every binary operator, all widths and values -/
theorem C09.uu_fold_eq_spec (op : BinOp) (wa na wb nb : Nat) (hwa : 1 ≤ wa) (hwb : 1 ≤ wb)
    (ha : na < 2 ^ wa) (hb : nb < 2 ^ wb) (v : Val)
    (hs : specBin op (.vec .uns wa na) (.vec .uns wb nb) = some v) :
    pyBin op (.vec .uns wa na) (.vec .uns wb nb) = .ok v := by
  have hM := Nat.two_pow_pos wa
  have hMb := Nat.two_pow_pos wb
  cases op
  case add =>
    simp only [specBin, specArith, isNumeric, valOf, if_true, Option.some.injEq] at hs
    subst hs
    simp only [pyBin, lhsMethod, uAdd, wrap, ripple_pat]
  case sub =>
    simp only [specBin, specArith, isNumeric, valOf, if_true, Option.some.injEq] at hs
    subst hs
    simp only [pyBin, lhsMethod, uSub_uu wa na wb nb hwa hb, wrap]
  case mul =>
    simp only [specBin, specArith, isNumeric, valOf, if_true, Option.some.injEq] at hs
    subst hs
    simp only [pyBin, lhsMethod, uMul]
    have h : (na : Int) * nb < ((2 ^ (wa + wb) : Nat) : Int) := by
      rw [Nat.pow_add]; push_cast
      have h1 : (na : Int) < 2 ^ wa := by exact_mod_cast ha
      have h2 : (nb : Int) < 2 ^ wb := by exact_mod_cast hb
      nlinarith [Int.natCast_nonneg na, Int.natCast_nonneg nb]
    rw [mkU_ok _ _ (by positivity) h]
  case tdiv =>
    simp only [specBin, specArith, isNumeric, valOf, if_true] at hs
    by_cases hz : (nb : Int) = 0
    · simp [hz] at hs
    · simp only [hz, ↓reduceIte, Option.some.injEq] at hs
      subst hs
      have hz' : nb ≠ 0 := by omega
      have hlt : na / nb < 2 ^ wa := Nat.lt_of_le_of_lt (Nat.div_le_self _ _) ha
      simp only [pyBin, opTruncdiv, uTruncdiv, hz', if_false, resToExcept, nat_fdiv, nat_tdiv,
        mkU_nat _ _ hlt, wrap_uns_nat _ _ hlt]
  case fdiv =>
    simp only [specBin] at hs
    by_cases hz : nb = 0
    · simp [hz] at hs
    · simp only [hz, ↓reduceIte, Option.some.injEq] at hs
      subst hs
      have hlt : na / nb < 2 ^ wa := Nat.lt_of_le_of_lt (Nat.div_le_self _ _) ha
      simp only [pyBin, lhsMethod, uFloordiv, uTruncdiv, hz, if_false, nat_fdiv, nat_tdiv,
        mkU_nat _ _ hlt, wrap_uns_nat _ _ hlt]
  case mod =>
    simp only [specBin, specArith, isNumeric, valOf, if_true] at hs
    by_cases hz : (nb : Int) = 0
    · simp [hz] at hs
    · simp only [hz, ↓reduceIte, Option.some.injEq] at hs
      subst hs
      have hz' : nb ≠ 0 := by omega
      have hlt : na % nb < 2 ^ wb := Nat.lt_trans (Nat.mod_lt _ (by omega)) hb
      simp only [pyBin, lhsMethod, uMod, hz', if_false, nat_fmod, mkU_nat _ _ hlt, wrap_uns_nat _ _ hlt]
  case rem =>
    simp only [specBin, specArith, isNumeric, valOf, if_true] at hs
    by_cases hz : (nb : Int) = 0
    · simp [hz] at hs
    · simp only [hz, ↓reduceIte, Option.some.injEq] at hs
      subst hs
      have hz' : nb ≠ 0 := by omega
      have hlt : na % nb < 2 ^ wb := Nat.lt_trans (Nat.mod_lt _ (by omega)) hb
      simp only [pyBin, opRem, uRem, hz', if_false, resToExcept, truncRem_eq, nat_tmod,
        mkU_nat _ _ hlt, wrap_uns_nat _ _ hlt]
  case shl =>
    simp only [specBin, shiftAmount, isNumeric, valOf, Bool.true_and] at hs
    simp only [Int.natCast_nonneg, decide_true, if_true, Option.some.injEq, Int.toNat_natCast] at hs
    subst hs
    have hneg : ¬ ((nb : Int) < 0) := by omega
    have hlt := Nat.mod_lt (na * 2 ^ nb) hM
    simp only [pyBin, lhsMethod, uShl, shiftAmount, Int.toNat_natCast, hneg, if_false, mkU_nat _ _ hlt, wrap]
    congr 2
  case shr =>
    simp only [specBin, shiftAmount, isNumeric, valOf, Bool.true_and] at hs
    simp only [Int.natCast_nonneg, decide_true, if_true, Option.some.injEq, Int.toNat_natCast] at hs
    subst hs
    have hneg : ¬ ((nb : Int) < 0) := by omega
    have hlt : na / 2 ^ nb < 2 ^ wa := Nat.lt_of_le_of_lt (Nat.div_le_self _ _) ha
    simp only [pyBin, lhsMethod, uShr, shiftAmount, Int.toNat_natCast, hneg, if_false, mkU_nat _ _ hlt,
      reduceCtorEq, nat_fdiv, wrap_uns_nat _ _ hlt]
  case and =>
    simp only [specBin, true_and] at hs
    by_cases h : wa = wb
    · simp only [h, ↓reduceIte, Option.some.injEq] at hs; subst hs
      simp only [pyBin, lhsMethod, vBitwise, h, and_self, if_true]
    · simp [h] at hs
  case or =>
    simp only [specBin, true_and] at hs
    by_cases h : wa = wb
    · simp only [h, ↓reduceIte, Option.some.injEq] at hs; subst hs
      simp only [pyBin, lhsMethod, vBitwise, h, and_self, if_true]
    · simp [h] at hs
  case xor =>
    simp only [specBin, true_and] at hs
    by_cases h : wa = wb
    · simp only [h, ↓reduceIte, Option.some.injEq] at hs; subst hs
      simp only [pyBin, lhsMethod, vBitwise, h, and_self, if_true]
    · simp [h] at hs
  case cat =>
    simp only [specBin, Option.some.injEq] at hs; subst hs
    simp only [pyBin, lhsMethod, vMatmul]
  all_goals
    simp only [specBin, specArith, isNumeric, valOf, if_true, Option.some.injEq] at hs
    subst hs
    simp only [pyBin, lhsMethod, uCmp, uCmpOperand]

example : specBin .sub (.vec .uns 4 5) (.vec .uns 2 1) = some (.vec .uns 4 4) := by decide

/-- Signed x Signed, every binary operator, all widths and values -/
theorem C09.ss_fold_eq_spec (op : BinOp) (wa na wb nb : Nat) (hwa : 1 ≤ wa) (hwb : 1 ≤ wb)
    (ha : na < 2 ^ wa) (hb : nb < 2 ^ wb) (v : Val)
    (hs : specBin op (.vec .sgn wa na) (.vec .sgn wb nb) = some v) :
    pyBin op (.vec .sgn wa na) (.vec .sgn wb nb) = .ok v := by
  have ra := inRange_toInt wa na hwa ha
  have rb := inRange_toInt wb nb hwb hb
  have hz0 := toInt_eq_zero wb nb hwb hb
  cases op
  case add =>
    simp only [specBin, specArith, isNumeric, valOf, if_true, Option.some.injEq] at hs
    subst hs
    simp only [pyBin, lhsMethod, sAdd_ss]
  case sub =>
    simp only [specBin, specArith, isNumeric, valOf, if_true, Option.some.injEq] at hs
    subst hs
    simp only [pyBin, lhsMethod, sSub_ss wa na wb nb hwa hwb hb]
  case mul =>
    simp only [specBin, specArith, isNumeric, valOf, if_true, Option.some.injEq] at hs
    subst hs
    simp only [pyBin, lhsMethod, sMul, mkS_ok _ _ (inRange_mul wa wb _ _ hwa hwb ra rb)]
  case tdiv =>
    simp only [specBin, specArith, isNumeric, valOf, if_true] at hs
    by_cases hz : toInt wb nb = 0
    · simp [hz] at hs
    · simp only [hz, ↓reduceIte, Option.some.injEq] at hs
      subst hs
      have hz' : nb ≠ 0 := fun h => hz (hz0.mpr h)
      simp only [pyBin, opTruncdiv, sTruncdiv, hz', if_false, resToExcept, truncDiv_eq, wrap]
  case mod =>
    simp only [specBin, specArith, isNumeric, valOf, if_true] at hs
    by_cases hz : toInt wb nb = 0
    · simp [hz] at hs
    · simp only [hz, ↓reduceIte, Option.some.injEq] at hs
      subst hs
      have hz' : nb ≠ 0 := fun h => hz (hz0.mpr h)
      simp only [pyBin, lhsMethod, sMod, hz', if_false, mkS_ok _ _ (inRange_fmod wb _ _ rb hz)]
  case rem =>
    simp only [specBin, specArith, isNumeric, valOf, if_true] at hs
    by_cases hz : toInt wb nb = 0
    · simp [hz] at hs
    · simp only [hz, ↓reduceIte, Option.some.injEq] at hs
      subst hs
      have hz' : nb ≠ 0 := fun h => hz (hz0.mpr h)
      simp only [pyBin, opRem, sRem, hz', if_false, resToExcept, truncRem_eq,
        mkS_ok _ _ (inRange_tmod wb _ _ rb hz)]
  case shl => simp [specBin, shiftAmount] at hs
  case shr => simp [specBin, shiftAmount] at hs
  case fdiv => simp [specBin] at hs
  case and =>
    simp only [specBin, true_and] at hs
    by_cases h : wa = wb
    · simp only [h, ↓reduceIte, Option.some.injEq] at hs; subst hs
      simp only [pyBin, lhsMethod, vBitwise, h, and_self, if_true]
    · simp [h] at hs
  case or =>
    simp only [specBin, true_and] at hs
    by_cases h : wa = wb
    · simp only [h, ↓reduceIte, Option.some.injEq] at hs; subst hs
      simp only [pyBin, lhsMethod, vBitwise, h, and_self, if_true]
    · simp [h] at hs
  case xor =>
    simp only [specBin, true_and] at hs
    by_cases h : wa = wb
    · simp only [h, ↓reduceIte, Option.some.injEq] at hs; subst hs
      simp only [pyBin, lhsMethod, vBitwise, h, and_self, if_true]
    · simp [h] at hs
  case cat =>
    simp only [specBin, Option.some.injEq] at hs; subst hs
    simp only [pyBin, lhsMethod, vMatmul]
  all_goals
    simp only [specBin, specArith, isNumeric, valOf, if_true, Option.some.injEq] at hs
    subst hs
    simp only [pyBin, lhsMethod, sCmp, sCmpOperand]

/-- shifts: Unsigned or Signed value shifted by an Unsigned amount or a non-negative int: `<<` wraps at the
    operand's width, `>>` is the floor of value / 2^r (logical for Unsigned, arithmetic for Signed) -/
theorem C09.shift_fold_eq_spec (op : BinOp) (hop : op = .shl ∨ op = .shr) (k : Kind) (w n : Nat) (b : Val)
    (hw : 1 ≤ w) (hn : n < 2 ^ w) (v : Val)
    (hs : specBin op (.vec k w n) b = some v) : pyBin op (.vec k w n) b = .ok v := by
  have hM := Nat.two_pow_pos w
  rcases hop with rfl | rfl
  · simp only [specBin] at hs
    cases hsa : shiftAmount b with
    | none => simp [hsa] at hs
    | some r =>
      simp only [hsa] at hs
      cases k
      · simp [isNumeric] at hs
      · simp only [isNumeric, Bool.true_and, decide_eq_true_eq, valOf, if_true] at hs
        by_cases hr : 0 ≤ r
        · simp only [hr, ↓reduceIte, Option.some.injEq] at hs; subst hs
          have hneg : ¬ (r < 0) := by omega
          have hlt := Nat.mod_lt (n * 2 ^ r.toNat) hM
          simp only [pyBin, lhsMethod, uShl, hsa, hneg, if_false, mkU_nat _ _ hlt, wrap]
          congr 2
        · simp [hr] at hs
      · simp only [isNumeric, Bool.true_and, decide_eq_true_eq, valOf, if_true] at hs
        by_cases hr : 0 ≤ r
        · simp only [hr, ↓reduceIte, Option.some.injEq] at hs; subst hs
          have hneg : ¬ (r < 0) := by omega
          simp only [pyBin, lhsMethod, sShl, hsa, hneg, if_false, wrap]
        · simp [hr] at hs
  · simp only [specBin] at hs
    cases hsa : shiftAmount b with
    | none => simp [hsa] at hs
    | some r =>
      simp only [hsa] at hs
      cases k
      · simp [isNumeric] at hs
      · simp only [isNumeric, Bool.true_and, decide_eq_true_eq, valOf, reduceCtorEq, if_false] at hs
        by_cases hr : 0 ≤ r
        · simp only [hr, ↓reduceIte, Option.some.injEq] at hs; subst hs
          have hneg : ¬ (r < 0) := by omega
          have hlt : n / 2 ^ r.toNat < 2 ^ w := Nat.lt_of_le_of_lt (Nat.div_le_self _ _) hn
          simp only [pyBin, lhsMethod, uShr, hsa, hneg, if_false, mkU_nat _ _ hlt, nat_fdiv, wrap_uns_nat _ _ hlt]
        · simp [hr] at hs
      · simp only [isNumeric, Bool.true_and, decide_eq_true_eq, valOf, reduceCtorEq, if_false] at hs
        by_cases hr : 0 ≤ r
        · simp only [hr, ↓reduceIte, Option.some.injEq] at hs; subst hs
          have hneg : ¬ (r < 0) := by omega
          have hd : (0 : Int) < ((2 ^ r.toNat : Nat) : Int) := by have := Nat.two_pow_pos r.toNat; omega
          simp only [pyBin, lhsMethod, sShr, hsa, hneg, if_false,
            mkS_ok _ _ (inRange_fdiv_pos w _ _ (inRange_toInt w n hw hn) hd)]
        · simp [hr] at hs

/-- Signed x Python int / cohdl.Integer (int in the representable range of the vector), every binary operator -/
theorem C09.si_fold_eq_spec (op : BinOp) (w n : Nat) (r : Int) (b : Val) (hb : b = .int r ∨ b = .integer r)
    (hw : 1 ≤ w) (hn : n < 2 ^ w) (v : Val)
    (hs : specBin op (.vec .sgn w n) b = some v) : pyBin op (.vec .sgn w n) b = .ok v := by
  by_cases hop : op = .shl ∨ op = .shr
  · exact C09.shift_fold_eq_spec op hop .sgn w n b hw hn v hs
  · rcases hb with rfl | rfl
    · exact si_aux_int op w n r hw hn v hop hs
    · exact si_aux_integer op w n r hw hn v hop hs

/-- Python int / cohdl.Integer x Signed (int in the representable range of the vector), every binary operator -/
theorem C09.is_fold_eq_spec (op : BinOp) (w n : Nat) (l : Int) (a : Val) (ha : a = .int l ∨ a = .integer l)
    (hw : 1 ≤ w) (hn : n < 2 ^ w) (v : Val)
    (hs : specBin op a (.vec .sgn w n) = some v) : pyBin op a (.vec .sgn w n) = .ok v := by
  rcases ha with rfl | rfl
  · exact is_aux_int op w n l hw hn v hs
  · exact is_aux_integer op w n l hw hn v hs

/-- Unsigned x Python int / cohdl.Integer (int in the representable range of the vector), every binary operator -/
theorem C09.ui_fold_eq_spec (op : BinOp) (w n : Nat) (r : Int) (b : Val) (hb : b = .int r ∨ b = .integer r)
    (hw : 1 ≤ w) (hn : n < 2 ^ w) (v : Val)
    (hs : specBin op (.vec .uns w n) b = some v) : pyBin op (.vec .uns w n) b = .ok v := by
  by_cases hop : op = .shl ∨ op = .shr
  · exact C09.shift_fold_eq_spec op hop .uns w n b hw hn v hs
  · rcases hb with rfl | rfl
    · exact ui_aux_int op w n r hw hn v hop hs
    · exact ui_aux_integer op w n r hw hn v hop hs

/-- Python int / cohdl.Integer x Unsigned (int in the representable range of the vector), every binary operator -/
theorem C09.iu_fold_eq_spec (op : BinOp) (w n : Nat) (l : Int) (a : Val) (ha : a = .int l ∨ a = .integer l)
    (hw : 1 ≤ w) (hn : n < 2 ^ w) (v : Val)
    (hs : specBin op a (.vec .uns w n) = some v) : pyBin op a (.vec .uns w n) = .ok v := by
  rcases ha with rfl | rfl
  · exact iu_aux_int op w n l hw hn v hs
  · exact iu_aux_integer op w n l hw hn v hs

/-- Unsigned with a Python int on either side, `+` and `-`: wraps at the vector's width (for every int: the
    Python code reduces the int modulo 2^w first, so the in-range hypothesis of the spec is not even needed) -/
theorem C09.ui_addsub_fold_eq_spec (w n : Nat) (r : Int) (hw : 1 ≤ w) (hn : n < 2 ^ w) :
    pyBin .add (.vec .uns w n) (.int r) = .ok (wrap .uns w ((n : Int) + r)) ∧
    pyBin .sub (.vec .uns w n) (.int r) = .ok (wrap .uns w ((n : Int) - r)) ∧
    pyBin .add (.int r) (.vec .uns w n) = .ok (wrap .uns w (r + (n : Int))) ∧
    pyBin .sub (.int r) (.vec .uns w n) = .ok (wrap .uns w (r - (n : Int))) := by
  refine ⟨?_, ?_, ?_, ?_⟩
  · simp only [pyBin, lhsMethod, uAdd_int w n r hw, wrap]
  · simp only [pyBin, lhsMethod, uSub_int w n r hw, wrap]
  · simp only [pyBin, lhsMethod, rhsMethod, uAdd_int w n r hw, wrap, Int.add_comm]
  · simp only [pyBin, lhsMethod, rhsMethod, uNeg_eq w n hw hn, uAdd_int _ _ r hw, wrap]
    congr 2
    rw [pat_absorb_l]; congr 1; omega

/-- cohdl.Integer / Python int among themselves (at least one Integer, or `op.truncdiv` / `op.rem` on two ints),
    every binary operator -/
theorem C09.ii_fold_eq_spec (op : BinOp) (a b : Val) (x y : Int)
    (ha : a = .int x ∨ a = .integer x) (hb : b = .int y ∨ b = .integer y) (v : Val)
    (hs : specBin op a b = some v) : pyBin op a b = .ok v := by
  rcases ha with rfl | rfl <;> rcases hb with rfl | rfl <;> cases op <;>
    simp only [specBin, shiftAmount, reduceCtorEq] at hs <;>
    (try (by_cases hz : y = 0 <;> simp only [hz, ↓reduceIte, reduceCtorEq] at hs)) <;>
    (try simp only [Option.some.injEq] at hs) <;>
    (try subst hs) <;>
    (try simp only [pyBin, opTruncdiv, opRem, lhsMethod, rhsMethod, iArith, iRarith, isIntLike, resToExcept,
      truncDiv_eq, truncRem_eq, cmpInt_swap, if_false, ↓reduceIte]) <;>
    (try simp only [swapCmp]) <;>
    (try simp_all)

example : specBin .tdiv (.integer (-7)) (.int 2) = some (.integer (-3)) := by decide

/-- `resize(target, zeros=z)` of Unsigned and Signed: value * 2^z, zero / sign extended, for every width, value,
    target and zeros (the specification requires `0 ≤ zeros` and `width + zeros ≤ target`) -/
theorem C09.resize_fold_eq_spec (k : Kind) (w n : Nat) (p1 p2 : Int) (hw : 1 ≤ w) (hn : n < 2 ^ w) (v : Val)
    (hs : specPar .resize (.vec k w n) p1 p2 = some v) : pyPar .resize (.vec k w n) p1 p2 = .ok v := by
  cases k
  · simp [specPar, isNumeric] at hs
  · simp only [specPar, isNumeric, Bool.true_and, Bool.and_eq_true, decide_eq_true_eq] at hs
    by_cases hc : 0 ≤ p2 ∧ (w : Int) + p2 ≤ p1
    · simp only [hc, and_self, ↓reduceIte, Option.some.injEq, valOf] at hs; subst hs
      have hneg : ¬ (p2 < 0) := by omega
      have ht : w + p2.toNat ≤ p1.toNat := by omega
      have hlt : n * 2 ^ p2.toNat < 2 ^ p1.toNat := by
        calc n * 2 ^ p2.toNat < 2 ^ w * 2 ^ p2.toNat := Nat.mul_lt_mul_of_pos_right hn (Nat.two_pow_pos _)
          _ = 2 ^ (w + p2.toNat) := (Nat.pow_add 2 w p2.toNat).symm
          _ ≤ 2 ^ p1.toNat := Nat.pow_le_pow_right (by decide) ht
      have e : (n : Int) * ((2 ^ p2.toNat : Nat) : Int) = ((n * 2 ^ p2.toNat : Nat) : Int) := by push_cast; rfl
      simp only [pyPar, uResize, hneg, if_false, hc.2, if_true, e, mkU_nat _ _ hlt, wrap_uns_nat _ _ hlt, resToExcept]
    · simp [hc] at hs
  · simp only [specPar, isNumeric, Bool.true_and, Bool.and_eq_true, decide_eq_true_eq] at hs
    by_cases hc : 0 ≤ p2 ∧ (w : Int) + p2 ≤ p1
    · simp only [hc, and_self, ↓reduceIte, Option.some.injEq, valOf] at hs; subst hs
      have hneg : ¬ (p2 < 0) := by omega
      have ht : w + p2.toNat ≤ p1.toNat := by omega
      simp only [pyPar, sResize, hneg, if_false, hc.2, if_true, resToExcept,
        mkS_ok _ _ (inRange_mul_pow w p2.toNat p1.toNat _ hw ht (inRange_toInt w n hw hn))]
    · simp [hc] at hs

example : specPar .resize (.vec .sgn 3 5) 6 2 = some (.vec .sgn 6 52) := by decide

/-- `[i]`, `[hi:lo]`, `msb(k)`, `lsb(k)`, `resize`: every operand, every parameter value -/
theorem C09.par_fold_eq_spec (op : ParOp) (a v : Val) (p1 p2 : Int)
    (hwf : ∀ k w n, a = .vec k w n → 1 ≤ w ∧ n < 2 ^ w)
    (hs : specPar op a p1 p2 = some v) : pyPar op a p1 p2 = .ok v := by
  cases a
  case vec k w n =>
    obtain ⟨hw, hn⟩ := hwf k w n rfl
    cases op
    case resize => exact C09.resize_fold_eq_spec k w n p1 p2 hw hn v hs
    all_goals
      simp only [specPar] at hs
      split at hs
      · rename_i hc
        simp only [Option.some.injEq] at hs; subst hs
        simp only [pyPar, hc, and_self, if_true]
      · simp at hs
  all_goals
    cases op <;> simp [specPar] at hs


/-- comparisons with Null / Full (all-zeros / all-ones of the vector's type): on the right every comparison of
    Unsigned / Signed and `==` / `!=` of BitVector; on the left `==` / `!=` -/
theorem C09.cmp_nullfull_fold_eq_spec (op : BinOp) (k : Kind) (w n : Nat) (c : Val) (hc : c = .null ∨ c = .full)
    (v : Val) :
    (specBin op (.vec k w n) c = some v → pyBin op (.vec k w n) c = .ok v) ∧
    (specBin op c (.vec k w n) = some v → pyBin op c (.vec k w n) = .ok v) := by
  constructor
  · intro hs
    rcases hc with rfl | rfl <;> cases op <;> cases k <;>
      simp only [specBin, shiftAmount, isCmp, isNumeric, reduceCtorEq, Bool.false_and, Bool.true_and, Bool.or_false,
        Bool.or_true, Bool.false_or, Bool.true_or, decide_false, decide_true, if_false, if_true, Bool.false_eq_true,
        BEq.rfl, beq_self_eq_true, Option.some.injEq] at hs <;>
      (try (exact absurd hs (by simp))) <;>
      (try subst hs) <;>
      simp_all [pyBin, lhsMethod, uCmp, uCmpOperand, sCmp, sCmpOperand, vEq, notRes, valOf, cmpInt] <;>
      first
      | rfl
      | exact decide_eq_decide.mpr Iff.rfl
      | exact bne_comm ..
      | omega
      | (rw [Bool.eq_iff_iff]; simp [bne] <;> omega)
      | exact ⟨fun h => h.symm, fun h => h.symm⟩
  · intro hs
    rcases hc with rfl | rfl <;> cases op <;> cases k <;>
      simp only [specBin, shiftAmount, isCmp, isNumeric, reduceCtorEq, Bool.false_and, Bool.true_and, Bool.or_false,
        Bool.or_true, Bool.false_or, Bool.true_or, decide_false, decide_true, if_false, if_true, Bool.false_eq_true,
        BEq.rfl, beq_self_eq_true, Option.some.injEq] at hs <;>
      (try (exact absurd hs (by simp))) <;>
      (try subst hs) <;>
      simp_all [pyBin, lhsMethod, rhsMethod, uCmp, uCmpOperand, sCmp, sCmpOperand, vEq, notRes, valOf, cmpInt, swapCmp] <;>
      first
      | rfl
      | exact decide_eq_decide.mpr Iff.rfl
      | exact bne_comm ..
      | omega
      | (rw [Bool.eq_iff_iff]; simp [bne] <;> omega)
      | exact ⟨fun h => h.symm, fun h => h.symm⟩

example : specBin .lt (.vec .sgn 4 13) .full = some (.bool true) := by decide

/-- concatenation `@` of any two of Unsigned / Signed / BitVector / Bit: the left operand forms the most significant
    bits, the result is a plain BitVector of the summed width -/
theorem C09.cat_fold_eq_spec (a b v : Val) (hs : specBin .cat a b = some v) : pyBin .cat a b = .ok v := by
  cases a <;> cases b <;> simp only [specBin, reduceCtorEq, Option.some.injEq] at hs <;> (try subst hs)
  · simp only [pyBin, lhsMethod, bitMatmul, Nat.mul_comm]
  · simp only [pyBin, lhsMethod, bitMatmul, vRmatmul, Nat.add_comm 1]
  · rename_i k w n y
    cases k <;> simp only [pyBin, lhsMethod, vMatmul, Nat.mul_comm]
  · rename_i k w n k2 w2 n2
    cases k <;> simp only [pyBin, lhsMethod, vMatmul]

example : specBin .cat (.bit true) (.vec .sgn 2 1) = some (.vec .bv 3 5) := by decide

/-- BitVector x BitVector (`& | ^` need identical widths, `== !=` equal widths) and Bit x Bit, every operator -/
theorem C09.vv_bb_fold_eq_spec (op : BinOp) (a b v : Val)
    (hab : (∃ w n w2 n2, a = .vec .bv w n ∧ b = .vec .bv w2 n2) ∨ (∃ x y, a = .bit x ∧ b = .bit y))
    (hs : specBin op a b = some v) : pyBin op a b = .ok v := by
  rcases hab with ⟨w, n, w2, n2, rfl, rfl⟩ | ⟨x, y, rfl, rfl⟩
  · by_cases hop : op = .cat
    · subst hop; exact C09.cat_fold_eq_spec _ _ v hs
    cases op <;> simp only [specBin, shiftAmount, isNumeric, reduceCtorEq, Bool.false_and, if_false, true_and,
        Bool.false_eq_true] at hs <;> (try (simp at hs; done)) <;> (try (exact absurd rfl hop))
    all_goals
      by_cases h : w = w2
      · subst h
        simp only [true_and, true_or, or_true, and_self, ↓reduceIte, Option.some.injEq] at hs
        subst hs
        simp [pyBin, lhsMethod, vBitwise, vEq, notRes, cmpInt] <;>
          (rw [Bool.eq_iff_iff]; simp [bne] <;> omega)
      · simp [h] at hs
  · by_cases hop : op = .cat
    · subst hop; exact C09.cat_fold_eq_spec _ _ v hs
    cases op <;> simp only [specBin, shiftAmount, reduceCtorEq, true_or, or_true, if_true, if_false, Option.some.injEq] at hs <;>
      (try (simp at hs; done)) <;> (try (exact absurd rfl hop)) <;> (try subst hs) <;>
      cases x <;> cases y <;> simp [pyBin, lhsMethod, bitBitwise, bitEq, cmpInt]

example : specBin .xor (.vec .bv 3 5) (.vec .bv 3 6) = some (.vec .bv 3 3) := by decide

/-- unary operators and views on vectors (Unsigned / Signed / BitVector), all widths and values -/
theorem C09.un_vec_fold_eq_spec (op : UnOp) (k : Kind) (w n : Nat) (hw : 1 ≤ w) (hn : n < 2 ^ w) (v : Val)
    (hs : specUn op (.vec k w n) = some v) : pyUn op (.vec k w n) = .ok v := by
  cases op
  case neg =>
    cases k <;> simp only [specUn, Option.some.injEq, reduceCtorEq] at hs <;> subst hs
    · simp only [pyUn, uNeg_eq w n hw hn, resToExcept]; rfl
    · simp only [pyUn, sNeg_eq w n hw hn, resToExcept]
  case abs =>
    cases k <;> simp only [specUn, Option.some.injEq, reduceCtorEq] at hs <;> subst hs
    simp only [pyUn, sAbs]
    by_cases h0 : toInt w n ≥ 0
    · simp only [h0, if_true, mkS_ok _ _ (inRange_toInt w n hw hn), resToExcept, wrap]
      congr 3; omega
    · simp only [h0, if_false, sNeg_eq w n hw hn, resToExcept, wrap]
      congr 3; omega
  case msb =>
    simp only [specUn, Option.some.injEq] at hs; subst hs
    simp only [pyUn, msb_bit w n hw hn]
  all_goals
    simp only [specUn, Option.some.injEq] at hs; subst hs
    simp only [pyUn]

/-- unary operators on Bit and Integer -/
theorem C09.un_scalar_fold_eq_spec (op : UnOp) (a v : Val) (hk : ∀ k w n, a ≠ .vec k w n)
    (hs : specUn op a = some v) : pyUn op a = .ok v := by
  cases a
  case vec k w n => exact absurd rfl (hk k w n)
  all_goals
    cases op <;> simp only [specUn, Option.some.injEq, reduceCtorEq] at hs <;> subst hs <;> simp only [pyUn]


example : specBin .mod (.vec .sgn 4 9) (.vec .sgn 3 3) = some (.vec .sgn 3 2) := by decide
example : specBin .shr (.vec .sgn 4 13) (.vec .uns 2 1) = some (.vec .sgn 4 14) := by decide
example : specBin .rem (.int (-7)) (.vec .sgn 4 3) = some (.vec .sgn 4 15) := by decide
example : specBin .sub (.vec .sgn 4 8) (.integer 7) = some (.vec .sgn 4 1) := by decide
example : specBin .tdiv (.int 13) (.vec .uns 4 5) = some (.vec .uns 4 2) := by decide

/-- the bit-level loop of `Unsigned.add` / `Signed.add` is addition modulo 2^t, for every width -/
theorem C09.ripple_add_exact (t a b : Nat) : ripple t a b = (a + b) % 2 ^ t := ripple_eq t a b

/-! ## witnesses against the unpatched code (`pyBinOld` = behaviour of /repo before fixes/C09-*.patch) -/

/-- `Unsigned[4](5) - Unsigned[2](1)` folded to 8 (run time: 4): rhs was negated at its own width -/
theorem C09.sub_uu_old_fails_at :
    pyBinOld .sub (.vec .uns 4 5) (.vec .uns 2 1) = .ok (.vec .uns 4 8) ∧
    specBin .sub (.vec .uns 4 5) (.vec .uns 2 1) = some (.vec .uns 4 4) := by decide

/-- `Signed[4](0) - Signed[2](-2)` folded to -2 (run time: 2) -/
theorem C09.sub_ss_old_fails_at :
    pyBinOld .sub (.vec .sgn 4 0) (.vec .sgn 2 2) = .ok (.vec .sgn 4 14) ∧
    specBin .sub (.vec .sgn 4 0) (.vec .sgn 2 2) = some (.vec .sgn 4 2) := by decide

/-- `3 * Unsigned[4](5)` folded to 25 (run time: 15): `__rmul__` used `lhs = int(rhs)` -/
theorem C09.rmul_iu_old_fails_at :
    pyBinOld .mul (.int 3) (.vec .uns 4 5) = .ok (.vec .uns 8 25) ∧
    specBin .mul (.int 3) (.vec .uns 4 5) = some (.vec .uns 8 15) := by decide

/-- `op.truncdiv(Signed[4](-8), Signed[4](-1))` raised at compile time (run time: wraps to -8) -/
theorem C09.truncdiv_ss_old_fails_at :
    pyBinOld .tdiv (.vec .sgn 4 8) (.vec .sgn 4 15) = .error .assertErr ∧
    specBin .tdiv (.vec .sgn 4 8) (.vec .sgn 4 15) = some (.vec .sgn 4 8) := by decide

/-- the unpatched subtraction is right exactly when the subtrahend is not narrower than the minuend -/
theorem C09.sub_uu_old_partial (wa na wb nb : Nat) (hwa : 1 ≤ wa) (hb : nb < 2 ^ wb) (hw : wa ≤ wb) :
    pyBinOld .sub (.vec .uns wa na) (.vec .uns wb nb) = pyBin .sub (.vec .uns wa na) (.vec .uns wb nb) := by
  simp only [pyBinOld, pyBin, lhsMethod, uSubOld, uSub, Nat.max_eq_right hw, resToExcept]
  rw [uNeg_eq wb nb (by omega) hb]
  simp only [uAdd]

example : (5 : Nat) < 2 ^ 4 ∧ (1 : Nat) < 2 ^ 2 := by decide
