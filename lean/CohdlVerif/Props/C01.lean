import CohdlVerif.Model.Coro
import CohdlVerif.Lemmas.C01Top5
import CohdlVerif.Lemmas.C01Y11

/-! C01 - theorems (moved from the design sketches; names prefixed C01.) -/
open CohdlVerif.C01

variable {σ : Type} (act : Nat → σ → σ) (cond : Nat → σ → Bool)

theorem C01.norm_sound (c : Code) : ∀ (p : Option Nat) (k : Option Nat → Tree) (s : σ),
    runTree act cond (norm c p k) s =
      runTree act cond (k (exec act cond c s p).2) (exec act cond c s p).1 := by
  induction c with
  | nil => intro p k s; simp [norm, exec]
  | act a c ih => intro p k s; simp [norm, exec, runTree, ih]
  | trans t c ih => intro p k s; simp [norm, exec, ih]
  | ite c t e r iht ihe ihr =>
    intro p k s
    simp only [norm, exec, runTree]
    split
    · rw [iht, ihr]
    · rw [ihe, ihr]

theorem C01.unf_sound : ∀ (f : Nat) (p : Stmt) (st : List Frame) (fr : Bool) (t : STree),
    unf f p st fr = some t → ∀ s : σ, run act cond f p st fr s = some (runS act cond t s) := by
  intro f
  induction f with
  | zero => intro p st fr t h; simp [unf] at h
  | succ f ih =>
    intro p st fr t h s
    cases p with
    | skip =>
      cases st with
      | nil => simp [unf] at h; subst h; simp [run, runS]
      | cons fr0 st =>
        cases fr0 with
        | seq k => simp only [unf] at h; simp only [run]; exact ih _ _ _ _ h s
        | loop c b k => simp [unf] at h; subst h; simp [run, runS]
        | callF k => simp only [unf] at h; simp only [run]; exact ih _ _ _ _ h s
    | act a k =>
      simp only [unf, Option.map_eq_some_iff] at h
      obtain ⟨t', h', rfl⟩ := h
      simp only [run, runS]; exact ih _ _ _ _ h' _
    | await c k =>
      simp only [unf] at h
      cases fr with
      | false => simp at h; subst h; simp [run, runS]
      | true =>
        simp only [if_true, Option.map_eq_some_iff] at h
        obtain ⟨t', h', rfl⟩ := h
        simp only [run, if_true]
        cases c with
        | none => simp only [evalC, iteC, if_true]; exact ih _ _ _ _ h' _
        | some c =>
          simp only [evalC, iteC, runS]
          by_cases hc : cond c s = true
          · simp only [hc, if_true]; exact ih _ _ _ _ h' _
          · simp only [hc]; rfl
    | awaitF => simp [unf] at h; subst h; simp [run, runS]
    | ite c t1 e1 k =>
      simp only [unf, Option.bind_eq_bind, Option.bind_eq_some_iff, Option.pure_def, Option.some.injEq] at h
      obtain ⟨a, ha, b, hb, rfl⟩ := h
      simp only [run, runS]
      by_cases hc : cond c s = true
      · simp only [hc, if_true]; exact ih _ _ _ _ ha _
      · simp only [hc]; exact ih _ _ _ _ hb _
    | while_ c b k =>
      cases fr with
      | false => simp [unf] at h; subst h; simp [run, runS]
      | true =>
        cases c with
        | none =>
          simp only [unf, if_true, Option.bind_eq_bind, Option.bind_eq_some_iff, Option.pure_def, Option.some.injEq] at h
          obtain ⟨x, hx, rfl⟩ := h
          simp only [run, evalC, if_true]; exact ih _ _ _ _ hx _
        | some c =>
          simp only [unf, if_true, Option.bind_eq_bind, Option.bind_eq_some_iff, Option.pure_def, Option.some.injEq] at h
          obtain ⟨x, hx, y, hy, rfl⟩ := h
          simp only [run, evalC, if_true, runS]
          by_cases hc : cond c s = true
          · simp only [hc, if_true]; exact ih _ _ _ _ hx _
          · simp only [hc]; exact ih _ _ _ _ hy _
    | brk =>
      cases st with
      | nil => simp [unf] at h
      | cons fr0 st =>
        cases fr0 with
        | seq k => simp only [unf] at h; simp only [run]; exact ih _ _ _ _ h s
        | loop c b k => simp only [unf] at h; simp only [run]; exact ih _ _ _ _ h s
        | callF k => simp only [unf] at h; simp only [run]; exact ih _ _ _ _ h s
    | cont =>
      cases st with
      | nil => simp [unf] at h
      | cons fr0 st =>
        cases fr0 with
        | seq k => simp only [unf] at h; simp only [run]; exact ih _ _ _ _ h s
        | callF k => simp only [unf] at h; simp only [run]; exact ih _ _ _ _ h s
        | loop c b k =>
          cases c with
          | none =>
            simp only [unf, Option.bind_eq_bind, Option.bind_eq_some_iff, Option.pure_def, Option.some.injEq] at h
            obtain ⟨x, hx, rfl⟩ := h
            simp only [run, evalC, if_true]; exact ih _ _ _ _ hx _
          | some c =>
            simp only [unf, Option.bind_eq_bind, Option.bind_eq_some_iff, Option.pure_def, Option.some.injEq] at h
            obtain ⟨x, hx, y, hy, rfl⟩ := h
            simp only [run, evalC, runS]
            by_cases hc : cond c s = true
            · simp only [hc, if_true]; exact ih _ _ _ _ hx _
            · simp only [hc]; exact ih _ _ _ _ hy _
    | ret =>
      cases st with
      | nil => simp [unf] at h
      | cons fr0 st =>
        cases fr0 with
        | seq k => simp only [unf] at h; simp only [run]; exact ih _ _ _ _ h s
        | loop c b k => simp only [unf] at h; simp only [run]; exact ih _ _ _ _ h s
        | callF k => simp only [unf] at h; simp only [run]; exact ih _ _ _ _ h s
    | call b k => simp only [unf] at h; simp only [run]; exact ih _ _ _ _ h s

theorem C01.unfSusp_sound (f : Nat) (prog : Stmt) (r : Susp) (t : STree)
    (h : unfSusp f prog r = some t) (s : σ) :
    refStep act cond f prog r s = some (runS act cond t s) := by
  cases r with
  | start => simp only [unfSusp] at h; simp only [refStep]; exact C01.unf_sound act cond _ _ _ _ _ h s
  | atAwait c k st =>
    simp only [unfSusp, Option.map_eq_some_iff] at h
    obtain ⟨t', h', rfl⟩ := h
    simp only [refStep]
    cases c with
    | none => simp only [evalC, iteC, if_true]; exact C01.unf_sound act cond _ _ _ _ _ h' s
    | some c =>
      simp only [evalC, iteC, runS]
      by_cases hc : cond c s = true
      · simp only [hc, if_true]; exact C01.unf_sound act cond _ _ _ _ _ h' s
      · simp only [hc]; rfl
  | atHead c b k st =>
    cases c with
    | none =>
      simp only [unfSusp, Option.bind_eq_bind, Option.bind_eq_some_iff, Option.pure_def, Option.some.injEq] at h
      obtain ⟨x, hx, rfl⟩ := h
      simp only [refStep, evalC, if_true]; exact C01.unf_sound act cond _ _ _ _ _ hx s
    | some c =>
      simp only [unfSusp, Option.bind_eq_bind, Option.bind_eq_some_iff, Option.pure_def, Option.some.injEq] at h
      obtain ⟨x, hx, y, hy, rfl⟩ := h
      simp only [refStep, evalC, runS]
      by_cases hc : cond c s = true
      · simp only [hc, if_true]; exact C01.unf_sound act cond _ _ _ _ _ hx s
      · simp only [hc]; exact C01.unf_sound act cond _ _ _ _ _ hy s
  | stopped => simp [unfSusp] at h; subst h; simp [refStep, runS]

theorem C01.matchT_sound : ∀ (st : STree) (t : Tree) (i : Nat) (ps : List (Susp × Nat)),
    matchT st t i = some ps → ∀ s : σ,
      (runS act cond st s).2 = (runTree act cond t s).1 ∧
      ((runS act cond st s).1, ((runTree act cond t s).2).getD i) ∈ ps := by
  intro st
  induction st with
  | leaf r =>
    intro t i ps h s
    cases t with
    | leaf n => simp [matchT] at h; subst h; simp [runS, runTree]
    | act _ _ => simp [matchT] at h
    | ite _ _ _ => simp [matchT] at h
  | act a k ih =>
    intro t i ps h s
    cases t with
    | leaf n => simp [matchT] at h
    | act b k' =>
      simp only [matchT] at h
      split at h
      · rename_i hab; subst hab; simp only [runS, runTree]; exact ih _ _ _ h _
      · simp at h
    | ite _ _ _ => simp [matchT] at h
  | ite c t1 e1 iht ihe =>
    intro t i ps h s
    cases t with
    | leaf n => simp [matchT] at h
    | act _ _ => simp [matchT] at h
    | ite c' t' e' =>
      simp only [matchT] at h
      split at h
      · rename_i hcc; subst hcc
        simp only [Option.bind_eq_bind, Option.bind_eq_some_iff, Option.pure_def, Option.some.injEq] at h
        obtain ⟨x, hx, y, hy, rfl⟩ := h
        simp only [runS, runTree]
        by_cases hc : cond c s = true
        · simp only [hc, if_true]
          have := iht _ _ _ hx s
          exact ⟨this.1, List.mem_append_left _ this.2⟩
        · simp only [hc]
          have := ihe _ _ _ hy s
          exact ⟨this.1, List.mem_append_right _ this.2⟩
      · simp at h

theorem C01.step_sim (f : Nat) (prog : Stmt) (sm : SM) (R : List (Susp × Nat))
    (hR : R.all (closedAt f prog sm R) = true) (r : Susp) (i : Nat) (hri : (r, i) ∈ R) (s : σ) :
    ∃ r' , refStep act cond f prog r s = some (r', (smStep act cond sm i s).2) ∧
           (r', (smStep act cond sm i s).1) ∈ R := by
  have h1 := List.all_eq_true.mp hR _ hri
  simp only [closedAt] at h1
  split at h1
  · simp at h1
  · rename_i st hst
    split at h1
    · simp at h1
    · rename_i ps hps
      have hm := C01.matchT_sound act cond _ _ _ _ hps s
      have hn := C01.norm_sound act cond (sm.codes.getD i .nil) none .leaf s
      simp only [runTree] at hn
      refine ⟨(runS act cond st s).1, ?_, ?_⟩
      · rw [C01.unfSusp_sound act cond f prog r st hst s]
        simp only [smStep]
        rw [hn] at hm
        simp only at hm
        rw [← hm.1]
      · have := List.all_eq_true.mp h1 _ hm.2
        simp only [smStep]
        rw [hn] at this
        simpa using this

theorem C01.validate_sound (f : Nat) (prog : Stmt) (sm : SM) (R : List (Susp × Nat))
    (h : closed f prog sm R = true) (inp : Nat → σ → σ) (s0 : σ) :
    ∀ n, ∃ r, refTrace act cond f prog inp n (some (.start, s0)) = some (r, (smTrace act cond sm inp n (0, s0)).2)
            ∧ (r, (smTrace act cond sm inp n (0, s0)).1) ∈ R := by
  simp only [closed, Bool.and_eq_true] at h
  obtain ⟨h0, hR⟩ := h
  intro n
  induction n with
  | zero => exact ⟨.start, rfl, by simpa [smTrace] using h0⟩
  | succ n ih =>
    obtain ⟨r, hr, hmem⟩ := ih
    obtain ⟨r', hstep, hmem'⟩ := C01.step_sim act cond f prog sm R hR r _ hmem (inp n (smTrace act cond sm inp n (0, s0)).2)
    refine ⟨r', ?_, ?_⟩
    · simp only [refTrace, hr, smTrace]; exact hstep
    · simp only [smTrace]; exact hmem'

/-- C01 in the words of the property: if the certificate checker accepts (source body, emitted state
    machine), then after EVERY number of clocks, for EVERY way the environment changes the inputs between
    clocks (`inp`), every initial data state and EVERY interpretation of actions and conditions, the
    reference execution of the coroutine body is defined and the complete data state (outputs, registers,
    variables) of the state machine equals it: no clock is gained or lost on any path and no statement is
    skipped or executed twice. -/
theorem C01.no_clock_gained_or_lost (f : Nat) (prog : Stmt) (sm : SM) (R : List (Susp × Nat))
    (h : closed f prog sm R = true) (inp : Nat → σ → σ) (s0 : σ) (n : Nat) :
    (refTrace act cond f prog inp n (some (.start, s0))).map (·.2) =
      some (smTrace act cond sm inp n (0, s0)).2 := by
  obtain ⟨r, hr, _⟩ := C01.validate_sound act cond f prog sm R h inp s0 n
  rw [hr]; rfl

namespace CohdlVerif.C01.Example
/-- upstream design tests/reference_builds/coroutines/test_while_break_continue_01 as a `Stmt` ... -/
def prog : Stmt :=
  .act 1 (.while_ none (.act 2 (.act 3 (.await (some 10) (.ite 11 .cont .brk .skip)))) .skip)
def body : Code := .trans 2 (.act 2 (.act 3 .nil))
/-- ... and its real emitted state machine -/
def sm : SM := ⟨[ .trans 1 (.act 1 .nil), body, .ite 10 (.ite 11 body (.trans 0 .nil) .nil) .nil .nil ]⟩
def rel : List (Susp × Nat) :=
  [(.start, 0), (.atHead none (.act 2 (.act 3 (.await (some 10) (.ite 11 .cont .brk .skip)))) .skip [], 1),
   (.atAwait (some 10) (.ite 11 .cont .brk .skip)
      [.loop none (.act 2 (.act 3 (.await (some 10) (.ite 11 .cont .brk .skip)))) .skip], 2)]
/-- a wrong machine: after `break` it restarts at the loop head instead of the first statement -/
def smBad : SM := ⟨[ .trans 1 (.act 1 .nil), body,
  .ite 10 (.ite 11 body (.trans 1 .nil) .nil) .nil .nil ]⟩
end CohdlVerif.C01.Example

open CohdlVerif.C01.Example in
/-- non-vacuity: the hypothesis of `C01.validate_sound` holds for a real design (checked by the kernel) -/
example : closed 100 prog sm rel = true := by decide

open CohdlVerif.C01.Example in
/-- and the checker does reject a wrong machine -/
example : closed 100 prog smBad rel = false := by decide

/-!
  ## The compiler mirror (Model/CoroCompile.lean `compileSM`) is correct - for ALL programs of a fragment

  FULL statement (the goal; `wf` = break/continue only inside a loop of the same coroutine, return only inside an
  awaited sub-coroutine, `await false` not inside a sub-coroutine; `compileSM p = some sm` = the mirror accepts,
  i.e. no `continue` in the first state of its loop):

      theorem C01.compile_correct (p : Stmt) (sm : SM) (hwf : wf p false false = true) (h : compileSM p = some sm)
          (inp : Nat → σ → σ) (s0 : σ) (n : Nat) :
          ∃ f, ∀ f', f ≤ f' → (refTrace act cond f' p inp n (some (.start, s0))).map (·.2) =
            some (smTrace act cond sm inp n (0, s0)).2

  PROVED below, in three stages: `C01.compile_correct_frag1` (`frag1` = skip | act | await c | await true | await false |
  if/else | while c | while True), `C01.compile_correct_partial` (`frag2` = `frag1` + `break` + `continue`) and finally
  the FULL statement `C01.compile_correct` for every well-formed program (`wf p false false`: the whole grammar incl.
  `return` and awaited sub-coroutines).  `C01.fragments`: frag1 ⊆ frag2 ⊆ wf.  Nothing of the statement is missing;
  the remaining caveats are: the fuel bound is per trace (`∃ f, ∀ f' ≥ f`), `wf` excludes `await false` inside an awaited
  sub-coroutine, and `compileSM p = some sm` is a hypothesis (the mirror accepts; the tie checks on every run that it
  does so exactly when the real compiler does).
-/

/-- for every program of fragment 1, every interpretation of actions and conditions, every environment behaviour
    `inp`, every initial data state and every number of clocks: if the mirror of the real open-blocks algorithm
    produces the machine `sm`, the complete data state of `sm` after `n` clocks equals the data state of the
    reference execution of the coroutine body (for every sufficiently large fuel of the reference interpreter, which
    is in particular defined) -/
theorem C01.compile_correct_frag1 (p : Stmt) (hp : frag1 p = true) (sm : SM) (h : compileSM p = some sm)
    (inp : Nat → σ → σ) (s0 : σ) (n : Nat) :
    ∃ f, ∀ f', f ≤ f' → (refTrace act cond f' p inp n (some (.start, s0))).map (·.2) =
      some (smTrace act cond sm inp n (0, s0)).2 :=
  CohdlVerif.C01.compile_correct_frag1 act cond p hp sm h inp s0 n

/-- STAGE 1 of the generalisation: the same statement for fragment 2 = fragment 1 + `break` + `continue`
    (`frag2 p false`: break / continue only inside loops; loops left through `break`, `continue` re-checking a
    run-time condition or re-entering a `while True` body).  `compileSM p = some sm` excludes the designs the real
    compiler rejects (`continue` in the first state of its loop). -/
theorem C01.compile_correct_partial (p : Stmt) (hp : frag2 p false = true) (sm : SM) (h : compileSM p = some sm)
    (inp : Nat → σ → σ) (s0 : σ) (n : Nat) :
    ∃ f, ∀ f', f ≤ f' → (refTrace act cond f' p inp n (some (.start, s0))).map (·.2) =
      some (smTrace act cond sm inp n (0, s0)).2 :=
  CohdlVerif.C01.compile_correct_frag2 act cond p hp sm h inp s0 n

/-- THE FULL THEOREM: for every well-formed coroutine body of the whole grammar (act | await c | await true |
    await false | if/else | while c | while True | break | continue | return | awaited sub-coroutines, arbitrarily
    nested), every interpretation of actions and conditions, every environment behaviour `inp`, every initial data
    state and every number of clocks: if the mirror of the real open-blocks algorithm produces the machine `sm`, the
    complete data state of `sm` after `n` clocks equals that of the reference execution of the coroutine body (for
    every sufficiently large fuel of the reference interpreter, which is in particular defined). -/
theorem C01.compile_correct (p : Stmt) (hwf : wf p false false = true) (sm : SM) (h : compileSM p = some sm)
    (inp : Nat → σ → σ) (s0 : σ) (n : Nat) :
    ∃ f, ∀ f', f ≤ f' → (refTrace act cond f' p inp n (some (.start, s0))).map (·.2) =
      some (smTrace act cond sm inp n (0, s0)).2 :=
  CohdlVerif.C01.compile_correct_wf act cond p hwf sm h inp s0 n

/-- fragment 1 is contained in fragment 2, and fragment 2 in the well-formed programs -/
theorem C01.fragments (p : Stmt) : (frag1 p = true → frag2 p false = true) ∧ (frag2 p false = true → wf p false false = true) :=
  ⟨fun h => frag1_frag2 p h false, frag2_wf p false⟩

/-- the structural theorem behind it holds for the WHOLE grammar: a translation step only touches its open blocks
    and the blocks it creates, open blocks / break / continue / return lists only receive such blocks, roots and
    states are stable, every transition targets an existing state -/
theorem C01.compile_step (p : Stmt) (l c : Bool) (hwf : wf p l c = true) (O : List Nat) (s : CSt)
    (hl : Hlt s O) (hs : s.atStart = true → O = [0]) (hL : l = true → s.atStart = false) :
    Step s O (compile p O s).2 (compile p O s).1 :=
  (compile_spec p l c hwf O s hl hs hL).1

namespace CohdlVerif.C01.Example
/-- a program of fragment 1: await in both branches of an if, await true, await false -/
def prog1 : Stmt :=
  .act 1 (.ite 7 (.await (some 3) (.act 2 .skip)) (.act 4 (.await none .skip)) (.act 5 (.ite 8 .awaitF .skip (.act 6 .skip))))
end CohdlVerif.C01.Example

open CohdlVerif.C01.Example in
/-- non-vacuity of `C01.compile_correct_partial`: the hypotheses hold for a concrete program with awaits inside
    branches (the machine is computed by the kernel) -/
example : frag1 prog1 = true ∧ wf prog1 false false = true ∧
    (compileSM prog1).map (·.codes) = some
      [ .act 1 (.ite 7 (.trans 1 .nil) (.trans 2 (.act 4 .nil)) .nil),
        .ite 3 (.act 2 (.act 5 (.ite 8 (.trans 3 .nil) (.trans 0 (.act 6 .nil)) .nil))) .nil .nil,
        .act 5 (.ite 8 (.trans 4 .nil) (.trans 0 (.act 6 .nil)) .nil),
        .nil, .nil ] := by decide

open CohdlVerif.C01.Example in
/-- the mirror on the upstream loop design (loop + await + break + continue): it is well-formed, accepted, and the
    mirror's machine IS the real emitted state machine `Example.sm` -/
example : wf prog false false = true ∧ (compileSM prog).map (·.codes) = some sm.codes := by decide

namespace CohdlVerif.C01.Example
/-- a program of fragment 1 with loops: a loop as first statement (the first state is its head), an await and a nested
    `while True` with an await inside a branch -/
def prog2 : Stmt :=
  .while_ (some 3) (.act 2 (.await (some 0) (.act 3 .skip)))
    (.act 5 (.while_ none (.ite 4 (.await none (.act 6 .skip)) (.act 7 .skip) (.act 8 .skip)) .skip))
end CohdlVerif.C01.Example

open CohdlVerif.C01.Example in
/-- non-vacuity with loops: `prog2` is in the fragment and the mirror produces a machine for it -/
example : frag1 prog2 = true ∧ (compileSM prog2).isSome = true := by decide

open CohdlVerif.C01.Example in
/-- non-vacuity of `C01.compile_correct_partial` (stage 1): the upstream loop + await + break + continue design
    `Example.prog` is in fragment 2 and the mirror produces (exactly the real) machine for it -/
example : frag2 prog false = true ∧ (compileSM prog).map (·.codes) = some sm.codes := by decide

namespace CohdlVerif.C01.Example
/-- a program with an awaited sub-coroutine that returns from inside a branch and from inside a loop, called inside
    a loop with break -/
def prog3 : Stmt :=
  .act 1 (.while_ none
    (.call (.ite 2 .ret (.act 2 .skip) (.while_ (some 3) (.await (some 0) (.ite 4 .ret .skip .skip)) (.act 3 .ret)))
      (.await none (.ite 1 .brk .skip .skip)))
    (.act 4 .skip))
end CohdlVerif.C01.Example

open CohdlVerif.C01.Example in
/-- non-vacuity of the full theorem `C01.compile_correct`: `prog3` (sub-coroutine, returns, loops, break) is
    well-formed and accepted by the mirror -/
example : wf prog3 false false = true ∧ (compileSM prog3).isSome = true := by decide

/-- the mirror rejects `continue` in the first state of its loop, as the real compiler does -/
example : compileSM (.while_ (some 1) (.act 1 .cont) .skip) = none := by decide
