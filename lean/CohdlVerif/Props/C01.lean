/-! C01 - property theorems (declared with their full name `C01.<name>`; helper lemmas go to Lemmas/) -/
