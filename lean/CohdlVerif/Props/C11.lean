import CohdlVerif.Lemmas.C11History

/-!
  C11 - property theorems (declared with their full name `C11.<name>`; helper lemmas are in Lemmas/C11Lemmas.lean).

  `Cfg.orig`  = the pinned tree (no repair), `Cfg.fixed` = the tree with the six fixes/C11-*.patch applied.
  A design is the event list its compilation goes through, crash point (`Ev.fail`) included, so a statement
  "for every design" is also a statement for every crash point.
-/
open CohdlVerif.C11

namespace CohdlVerif.C11

/-- witnesses: a rejected design per leaked piece of state (crash point = last event) -/
def crashInSM : Design :=
  [.enter .conv [], .enter .arch [1], .exit, .enter .blk [], .exit, .exit,
   .enter .irapply [], .enter .ircall [], .enter .sm [], .enter .loop [], .fail]
def crashInTrace : Design := [.enter .conv [], .enter .arch [1], .exit, .enter .blk [], .fail]
def crashInPrefix : Design := [.enter .conv [], .enter .arch [1], .exit, .enter .blk [], .enter .pfx [5], .fail]
def crashInCtx : Design := [.enter .conv [], .enter .arch [1], .exit, .enter .blk [], .enter .ctx [7], .fail]
def crashInArch : Design := [.enter .conv [], .enter .arch [1], .fail]
/-- accepted designs used as the second element of the two-design histories -/
def coroDesign : Design :=
  [.enter .conv [], .enter .arch [2], .exit, .enter .blk [], .exit, .exit, .enter .sm [], .act (.emit 1), .exit]
def prefixDesign : Design :=
  [.enter .conv [], .enter .arch [2], .exit, .enter .blk [], .enter .pfx [6], .act (.name 9), .exit, .exit, .exit]
def needsCtxDesign : Design :=
  [.enter .conv [], .enter .arch [2], .exit, .enter .blk [], .act .useCtx, .exit, .exit]
def libsDesign : Design := [.enter .conv [], .enter .arch [2], .exit, .exit, .act (.libs [3, 1, 2])]

end CohdlVerif.C11

/-- THE INVARIANT (repaired tree): whatever the design does and wherever it crashes, a compilation started in a
    clean state leaves a clean state. -/
theorem C11.compile_preserves_clean (perm : List Nat → List Nat) (d : Design) (g : G) (h : Clean g) :
    Clean (compile Cfg.fixed perm d g).2 :=
  clean_run perm d [] 0 g [] (inv_of_clean h)

example : Clean G.init := ⟨fun _ _ => rfl, rfl, rfl⟩
example : Clean (compile Cfg.fixed id crashInSM G.init).2 := C11.compile_preserves_clean _ _ _ ⟨fun _ _ => rfl, rfl, rfl⟩

/-- clean states are closed under whole histories of accepted and rejected designs -/
theorem C11.history_preserves_clean (perm : List Nat → List Nat) (ds : List Design) (g : G) (h : Clean g) :
    Clean (ds.foldl (fun g d => (compile Cfg.fixed perm d g).2) g) := by
  induction ds generalizing g with
  | nil => exact h
  | cons d ds ih => exact ih _ (C11.compile_preserves_clean perm d g h)

/-! The invariant is FALSE on the pinned tree: one crash point per leaked piece of state. -/

/-- `StatemachineContext._singleton` stays set when IR generation fails inside a coroutine ... -/
theorem C11.compile_preserves_clean_fails_at_sm :
    ¬ Clean (compile Cfg.orig id crashInSM G.init).2 := by
  intro h; have := h.1 .sm rfl; revert this; decide

/-- ... and every later coroutine design is rejected with "nested StatemachineContext" -/
theorem C11.history_dependence_sm :
    (compile Cfg.orig id coroDesign G.init).1 = .ok [[8, 1]] ∧
    (compile Cfg.orig id coroDesign (compile Cfg.orig id crashInSM G.init).2).1 = .reject .nestedSM := by
  decide

/-- the dummy block stays on `_block_stack` when tracing fails -/
theorem C11.compile_preserves_clean_fails_at_blk :
    ¬ Clean (compile Cfg.orig id crashInTrace G.init).2 := by
  intro h; have := h.1 .blk rfl; revert this; decide

/-- ... `current_entity()` then is the dead block for ever, `_Prefix` no longer resets its counters and the SECOND
    later compilation of a design with a traced prefix gets different names -/
theorem C11.history_dependence_blk :
    let g1 := (compile Cfg.orig id crashInTrace G.init).2
    let g2 := (compile Cfg.orig id prefixDesign g1).2
    (compile Cfg.orig id prefixDesign G.init).1 = .ok [[1, 6, 9]] ∧
    (compile Cfg.orig id prefixDesign g2).1 = .ok [[1, 6, 1001, 9]] := by
  decide

/-- `_Prefix._prefix_scope` keeps the prefix of a traced `with std.prefix` whose body fails -/
theorem C11.compile_preserves_clean_fails_at_pfx :
    ¬ Clean (compile Cfg.orig id crashInPrefix G.init).2 := by
  intro h; have := h.1 .pfx rfl; revert this; decide

theorem C11.history_dependence_pfx :
    (compile Cfg.orig id prefixDesign (compile Cfg.orig id crashInPrefix G.init).2).1 = .ok [[1, 5, 6, 9]] := by
  decide

/-- `std._context._current_context` keeps the context of a rejected design: a design that must be rejected
    ("no clock known") is accepted afterwards with the dead design's clock -/
theorem C11.compile_preserves_clean_fails_at_ctx :
    ¬ Clean (compile Cfg.orig id crashInCtx G.init).2 := by
  intro h; have := h.1 .ctx rfl; revert this; decide

theorem C11.history_dependence_ctx :
    (compile Cfg.orig id needsCtxDesign G.init).1 = .reject .noCtx ∧
    (compile Cfg.orig id needsCtxDesign (compile Cfg.orig id crashInCtx G.init).2).1 = .ok [[2, 7]] := by
  decide

/-- `EntityInfo.instantiated` stays set when the architecture raises: the same design is ACCEPTED the second time
    (the architecture is not run again, the partial instance is used) -/
theorem C11.compile_preserves_clean_fails_at_inst :
    ¬ Clean (compile Cfg.orig id crashInArch G.init).2 := by
  intro h; have := h.2.1; revert this; decide

theorem C11.history_dependence_inst :
    (compile Cfg.orig id crashInArch G.init).1 = .reject .crash ∧
    (compile Cfg.orig id (crashInArch.dropLast ++ [.exit, .exit]) (compile Cfg.orig id crashInArch G.init).2).1
      = .ok [[3, 1]] := by
  decide

/-- with the repairs none of the five witnesses leaves anything behind (instances of the invariant theorem) -/
theorem C11.witnesses_clean_when_fixed :
    ∀ d ∈ [crashInSM, crashInTrace, crashInPrefix, crashInCtx, crashInArch],
      Clean (compile Cfg.fixed id d G.init).2 :=
  fun d _ => C11.compile_preserves_clean _ d _ ⟨fun _ _ => rfl, rfl, rfl⟩

/-! ## caches -/

/-- a sound cache answers every lookup with the value computed from the key alone, and stays sound -/
theorem C11.cache_transparent (c : List (Nat × Nat)) (k : Nat) (h : CacheSound c) :
    (cacheGet c k).1 = defOf k ∧ CacheSound (cacheGet c k).2 :=
  cacheGet_sound k h

example : CacheSound (cacheGet (cacheGet [] 3).2 4).2 :=
  (cacheGet_sound 4 (cacheGet_sound 3 (fun _ h => by simp at h)).2).2

/-! ## iteration order of Python sets -/

/-- every action yields the same result under any two iteration orders of the audited sets, once the library
    set is emitted sorted (fixes/C11-library-order.patch) -/
theorem C11.act_independent_of_perm (cfg : Cfg) (hfix : cfg.fixLib = true) (p q : List Nat → List Nat)
    (hp : ∀ xs, (p xs).Perm xs) (hq : ∀ xs, (q xs).Perm xs) (a : Act) (g : G) :
    act cfg p a g = act cfg q a g := by
  cases a <;> simp only [act]
  case libs xs =>
    simp only [hfix, if_true]
    rw [isort_eq_of_perm ((hp xs).trans (hq xs).symm)]
  case mem x xs =>
    have : (p xs).contains x = (q xs).contains x := by
      have := ((hp xs).trans (hq xs).symm).mem_iff (a := x)
      simp only [List.contains_eq_mem]
      exact decide_eq_decide.mpr this
    rw [this]

/-- the compilation result and the state left behind do not depend on the iteration order of the sets -/
theorem C11.output_independent_of_perm (cfg : Cfg) (hfix : cfg.fixLib = true) (p q : List Nat → List Nat)
    (hp : ∀ xs, (p xs).Perm xs) (hq : ∀ xs, (q xs).Perm xs) (d : Design) (g : G) :
    compile cfg p d g = compile cfg q d g := by
  unfold compile
  generalize ([] : List Kind) = F
  generalize (0 : Nat) = n
  generalize ([] : List Tok) = out
  induction d generalizing F n g out with
  | nil => rfl
  | cons ev evs ih =>
    cases ev with
    | fail => rfl
    | exit => cases F <;> simp only [run] <;> exact ih _ _ _ _
    | enter k a =>
      simp only [run]
      cases enter k a n g with
      | error e => rfl
      | ok r => exact ih _ _ _ _
    | act a =>
      simp only [run]
      rw [C11.act_independent_of_perm cfg hfix p q hp hq a g]
      cases act cfg q a g with
      | error e => rfl
      | ok r => exact ih _ _ _ _

example : (∀ xs : List Nat, (List.reverse xs).Perm xs) := fun xs => List.reverse_perm xs

/-- on the pinned tree the emitted library clauses follow the set iteration order (PYTHONHASHSEED) -/
theorem C11.output_independent_of_perm_fails_at_libs :
    (compile Cfg.orig id libsDesign G.init).1 ≠ (compile Cfg.orig List.reverse libsDesign G.init).1 := by
  decide

/-! ## independence of the history -/

/-- THE PROPERTY on the model: started in a clean state whose caches are sound and whose prefix counters belong to
    an earlier compilation (both hold after every compilation, `C11.owner_old_after_compile`, `C11.cache_transparent`),
    the result of compiling a design - verdict, error class and every emitted token - is the one of a pristine
    interpreter.  Holds for every configuration of repairs: what the repairs add is that the state stays clean
    (`C11.compile_preserves_clean`).  The masked pieces (`returned_blocks`, `_current_frame`), the caches, the counter
    and the stale prefix counters may differ arbitrarily. -/
theorem C11.output_independent_of_history (cfg : Cfg) (perm : List Nat → List Nat) (d : Design) (g : G)
    (h : Clean g) (ho : Old g.owner) (hf : CacheSound g.fnCache) (ht : CacheSound g.tyCache)
    (hr : g.reserved = G.init.reserved) :
    (compile cfg perm d g).1 = (compile cfg perm d G.init).1 := by
  obtain ⟨hs, hn⟩ := sim_init h ho hf ht hr
  exact run_result_eq cfg perm d [] 0 g G.init [] hs hn

/-- the class-level containers of the back end (`ModuleScope._vhdl_reserved`, `_additional_reserved`) have the
    same content after every compilation, whatever options (`additional_reserved_names`) it was given and wherever
    it crashed: the names of one compilation never stay reserved for the next -/
theorem C11.reserved_names_unchanged (cfg : Cfg) (perm : List Nat → List Nat) (d : Design) (g : G) :
    (compile cfg perm d g).2.reserved = g.reserved :=
  reserved_run cfg perm d [] 0 g []

/-- the hypothesis on the prefix owner holds after every compilation, whatever happened in it -/
theorem C11.owner_old_after_compile (cfg : Cfg) (perm : List Nat → List Nat) (d : Design) (g : G) :
    Old (compile cfg perm d g).2.owner :=
  old_run cfg perm d [] 0 g []

/-- non-vacuity: the state left by a rejected design on the repaired tree satisfies the hypotheses, although its
    masked pieces are dirty and its prefix counters are not empty -/
example : let g := (compile Cfg.fixed id crashInSM G.init).2
    Clean g ∧ Old g.owner ∧ g.s .ircall ≠ [] :=
  ⟨C11.compile_preserves_clean _ _ _ ⟨fun _ _ => rfl, rfl, rfl⟩, C11.owner_old_after_compile _ _ _ _, by decide⟩

/-- two-step corollary on the repaired tree: a rejected design never changes the result of the next compilation
    (caches untouched by the first design for simplicity of the statement) -/
theorem C11.rejected_design_is_harmless (perm : List Nat → List Nat) (r d : Design)
    (hf : CacheSound (compile Cfg.fixed perm r G.init).2.fnCache)
    (ht : CacheSound (compile Cfg.fixed perm r G.init).2.tyCache) :
    (compile Cfg.fixed perm d (compile Cfg.fixed perm r G.init).2).1 = (compile Cfg.fixed perm d G.init).1 :=
  C11.output_independent_of_history _ _ _ _
    (C11.compile_preserves_clean perm r G.init ⟨fun _ _ => rfl, rfl, rfl⟩)
    (C11.owner_old_after_compile _ _ _ _) hf ht (C11.reserved_names_unchanged _ _ _ _)

/-- caches stay sound through every compilation (accepted, rejected, any crash point) -/
theorem C11.caches_sound_after_compile (cfg : Cfg) (perm : List Nat → List Nat) (d : Design) (g : G)
    (h : CachesSound g) : CachesSound (compile cfg perm d g).2 :=
  sound_run cfg perm d [] 0 g [] h

/-- THE PROPERTY, closed form (repaired tree): after ANY history of accepted and rejected designs started in a
    pristine interpreter, compiling `d` gives exactly the result of compiling `d` in a pristine interpreter. -/
theorem C11.output_independent_of_any_history (perm : List Nat → List Nat) (hist : List Design) (d : Design) :
    (compile Cfg.fixed perm d (hist.foldl (fun g r => (compile Cfg.fixed perm r g).2) G.init)).1
      = (compile Cfg.fixed perm d G.init).1 := by
  have key : ∀ (hist : List Design) (g : G), Clean g → Old g.owner → CachesSound g →
      let g' := hist.foldl (fun g r => (compile Cfg.fixed perm r g).2) g
      Clean g' ∧ Old g'.owner ∧ CachesSound g' ∧ g'.reserved = g.reserved := by
    intro hist
    induction hist with
    | nil => intro g h1 h2 h3; exact ⟨h1, h2, h3, rfl⟩
    | cons r rs ih =>
      intro g h1 _ h3
      obtain ⟨a, b, c, d⟩ := ih _ (C11.compile_preserves_clean perm r g h1) (C11.owner_old_after_compile _ _ _ _)
        (C11.caches_sound_after_compile _ _ _ _ h3)
      exact ⟨a, b, c, d.trans (C11.reserved_names_unchanged _ _ _ _)⟩
  obtain ⟨h1, h2, h3, h4⟩ := key hist G.init ⟨fun _ _ => rfl, rfl, rfl⟩ (fun p hp => by simp [G.init] at hp)
    ⟨fun e he => by simp [G.init] at he, fun e he => by simp [G.init] at he⟩
  exact C11.output_independent_of_history _ _ _ _ h1 h2 h3.1 h3.2 h4

/-- non-vacuity / contrast: on the pinned tree the same statement fails for a two-element history -/
theorem C11.output_independent_of_any_history_fails_on_pinned_tree :
    (compile Cfg.orig id coroDesign ([crashInSM].foldl (fun g r => (compile Cfg.orig id r g).2) G.init)).1
      ≠ (compile Cfg.orig id coroDesign G.init).1 := by
  decide

/-! ## per-class state: dynamic ports (`std.add_entity_port`) -/

namespace CohdlVerif.C11
/-- a design whose architecture adds two ports to its entity class -/
def dynDesign : Design :=
  [.enter .conv [], .enter .arch [7], .act (.addPort 1), .act (.addPort 2), .exit, .enter .blk [], .exit, .exit]
end CohdlVerif.C11

/-- the ports added by one elaboration stay on the class (they can be inspected after the build) ... -/
theorem C11.dynamic_ports_kept_after_compile :
    (compile Cfg.fixed id dynDesign G.init).2.dyn = [(7, 2), (7, 1)] := by decide

/-- ... and are discarded when the class is elaborated again: compiling the same class a second (third, ..) time
    gives the result of a pristine interpreter (instance of `C11.output_independent_of_any_history`), in particular
    it is not rejected with "port already exists" -/
theorem C11.dynamic_ports_recompile (perm : List Nat → List Nat) (k : Nat) :
    (compile Cfg.fixed perm dynDesign ((List.replicate k dynDesign).foldl (fun g r => (compile Cfg.fixed perm r g).2) G.init)).1
      = .ok [[9, 7, 1], [9, 7, 2]] := by
  rw [C11.output_independent_of_any_history]
  rfl

/-! ## compiler options: `additional_reserved_names` -/

namespace CohdlVerif.C11
/-- a compilation given the option `additional_reserved_names = {5}` whose design declares the names 5 and 6 -/
def reservingDesign : Design :=
  [.enter .conv [], .enter .arch [8], .exit, .exit, .enter .scope [5], .act (.declare 5), .act (.declare 6), .exit]
/-- a later design that uses the name 5 WITHOUT the option -/
def plainDesign : Design :=
  [.enter .conv [], .enter .arch [9], .exit, .exit, .enter .scope [], .act (.declare 5), .exit]
end CohdlVerif.C11

/-- the option acts on the compilation it is given to (5 is renamed, 6 is not) and on no later one -/
theorem C11.reserved_option_is_local :
    (compile Cfg.fixed id reservingDesign G.init).1 = .ok [[10, 5, 1], [10, 6, 0]] ∧
    (compile Cfg.fixed id plainDesign (compile Cfg.fixed id reservingDesign G.init).2).1 = .ok [[10, 5, 0]] := by
  decide

/-! ## `id()`-keyed cache: key liveness is part of the state -/

/-- cache transparency at the level of ADDRESSES: in a heap whose cache entries keep their key objects alive, a
    lookup at the address of a live object returns the definition of that object (whatever was cached before, whatever
    was allocated and freed before), and the heap stays well-formed -/
theorem C11.cache_transparent_live (h : Heap) (a f : Nat) (ok : h.Ok) (hl : (a, f) ∈ h.live) :
    ∃ h1, h.lookup a = some (defOf f, h1) ∧ h1.Ok :=
  Heap.lookup_live ok hl

/-- the invariant survives every allocation, every lookup and every attempt to free an object - as long as the cache
    entry holds a reference to its key object (`keep = true`, i.e. `_known_definitions[id(c)] = [result, c]`) -/
theorem C11.cache_key_kept_alive (h : Heap) (a f : Nat) (ok : h.Ok) :
    (h.free true a).Ok ∧ (∀ h1, h.alloc a f = some h1 → h1.Ok) :=
  ⟨Heap.ok_free a ok, fun _ e => Heap.ok_alloc ok e⟩

example : Heap.empty.Ok := Heap.ok_empty

/-- WITHOUT that reference (`keep = false`, the entry stores something else than the key object) the address of a
    freed key is handed out again and the stale entry answers for the new object: object 10 cached at address 1,
    freed, object 20 allocated at address 1 -> the lookup returns the definition of 10 -/
theorem C11.cache_stale_when_key_not_kept :
    (do let h1 ← Heap.empty.alloc 1 10
        let (_, h2) ← h1.lookup 1
        let h3 ← (h2.free false 1).alloc 1 20
        let (d, _) ← h3.lookup 1
        pure d) = some (defOf 10) ∧ defOf 10 ≠ defOf 20 ∧
    (do let h1 ← Heap.empty.alloc 1 10
        let (_, h2) ← h1.lookup 1
        (h2.free true 1).alloc 1 20) = none := by
  decide
