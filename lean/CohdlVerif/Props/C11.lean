/-! C11 - property theorems (declared with their full name `C11.<name>`; helper lemmas go to Lemmas/) -/
