import CohdlVerif.Lemmas.C19Arith

/-!
  C19 - property theorems about the mirror `Model/C19.lean` of `cohdl/std/_fixed.py` (with fixes/C19-*.patch
  applied).  Numbers are compared as integers scaled by a common power of two: a fixed-point value of format
  `[l:r]` with raw value `v` is the number `v * 2^r`.

  FULL STATEMENT of the resize part (not closed in Lean; tied exhaustively on the grid by harness/c19.py):
    theorem C19.resize_spec (l r v l' r' rs os) : r ≤ l → r' ≤ l' → inRangeS (l - r + 1) v →
        resizeS l r v l' r' rs os = .ok (specResizeS r v l' r' rs os)            (and the same for U)
  Proved below: `C19.resize_spec_partial` - the branch `l ≤ l' ∧ r' ≤ r` (no bit dropped), all styles.
  Missing: the branches that drop bits on the left (`l > l'`, WRAP / SATURATE) and on the right (`r < r'`,
  TRUNCATE / ROUND incl. the carry of the rounding increment), and the reduction of disjoint formats to them.
-/
open CohdlVerif.C19

/-- SFixed `*`: result format `[l1+l2+1 : r1+r2]`, raw value the exact product - no error, for all formats and values -/
theorem C19.mul_exact (l1 r1 v1 l2 r2 v2 : Int) (h1 : r1 ≤ l1) (h2 : r2 ≤ l2)
    (hv1 : inRangeS (l1 - r1 + 1) v1) (hv2 : inRangeS (l2 - r2 + 1) v2) :
    arithS .mul l1 r1 v1 l2 r2 v2 = .ok ⟨l1 + l2 + 1, (specArith .mul r1 v1 r2 v2).2, (specArith .mul r1 v1 r2 v2).1⟩ :=
  mul_exactS l1 r1 v1 l2 r2 v2 h1 h2 hv1 hv2

example : arithS .mul 1 (-1) (-4) 0 (-2) 3 = .ok ⟨2, -3, -12⟩ := by decide

/-- UFixed `*` -/
theorem C19.mul_exact_unsigned (l1 r1 v1 l2 r2 v2 : Int) (h1 : r1 ≤ l1) (h2 : r2 ≤ l2)
    (hv1 : inRangeU (l1 - r1 + 1) v1) (hv2 : inRangeU (l2 - r2 + 1) v2) :
    arithU .mul l1 r1 v1 l2 r2 v2 = .ok ⟨l1 + l2 + 1, (specArith .mul r1 v1 r2 v2).2, (specArith .mul r1 v1 r2 v2).1⟩ :=
  mul_exactU l1 r1 v1 l2 r2 v2 h1 h2 hv1 hv2

/-- SFixed `+`: result format `[max l + 1 : min r]`, raw value = exact sum in units of `2^(min r)` -/
theorem C19.add_exact (l1 r1 v1 l2 r2 v2 : Int) (h1 : r1 ≤ l1) (h2 : r2 ≤ l2)
    (hv1 : inRangeS (l1 - r1 + 1) v1) (hv2 : inRangeS (l2 - r2 + 1) v2) :
    arithS .add l1 r1 v1 l2 r2 v2 = .ok ⟨max l1 l2 + 1, (specArith .add r1 v1 r2 v2).2, (specArith .add r1 v1 r2 v2).1⟩ :=
  add_exactS l1 r1 v1 l2 r2 v2 h1 h2 hv1 hv2

example : arithS .add 1 (-1) (-4) 0 (-2) 3 = .ok ⟨2, -2, -5⟩ := by decide

/-- UFixed `+` -/
theorem C19.add_exact_unsigned (l1 r1 v1 l2 r2 v2 : Int) (h1 : r1 ≤ l1) (h2 : r2 ≤ l2)
    (hv1 : inRangeU (l1 - r1 + 1) v1) (hv2 : inRangeU (l2 - r2 + 1) v2) :
    arithU .add l1 r1 v1 l2 r2 v2 = .ok ⟨max l1 l2 + 1, (specArith .add r1 v1 r2 v2).2, (specArith .add r1 v1 r2 v2).1⟩ :=
  add_exactU l1 r1 v1 l2 r2 v2 h1 h2 hv1 hv2

/-- SFixed `-`: exact difference -/
theorem C19.sub_exact (l1 r1 v1 l2 r2 v2 : Int) (h1 : r1 ≤ l1) (h2 : r2 ≤ l2)
    (hv1 : inRangeS (l1 - r1 + 1) v1) (hv2 : inRangeS (l2 - r2 + 1) v2) :
    arithS .sub l1 r1 v1 l2 r2 v2 = .ok ⟨max l1 l2 + 1, (specArith .sub r1 v1 r2 v2).2, (specArith .sub r1 v1 r2 v2).1⟩ :=
  sub_exactS l1 r1 v1 l2 r2 v2 h1 h2 hv1 hv2

example : arithS .sub 0 0 (-1) 0 0 0 = .ok ⟨1, 0, -1⟩ := by decide

/-- UFixed `-`: the exact difference modulo the range `2^width` of the result format -/
theorem C19.sub_exact_unsigned (l1 r1 v1 l2 r2 v2 : Int) (h1 : r1 ≤ l1) (h2 : r2 ≤ l2)
    (hv1 : inRangeU (l1 - r1 + 1) v1) (hv2 : inRangeU (l2 - r2 + 1) v2) :
    arithU .sub l1 r1 v1 l2 r2 v2 =
      .ok ⟨max l1 l2 + 1, (specArith .sub r1 v1 r2 v2).2,
           (specArith .sub r1 v1 r2 v2).1 % p2 (max l1 l2 + 1 - (specArith .sub r1 v1 r2 v2).2 + 1)⟩ :=
  sub_exactU l1 r1 v1 l2 r2 v2 h1 h2 hv1 hv2

example : arithU .sub 0 0 0 0 (-1) 1 = .ok ⟨1, -1, 7⟩ := by decide

/-- resize, branch `l ≤ l'`, `r' ≤ r` (the target covers the source), every round / overflow style:
    the mirror returns the value of the spec, which is the source number itself -/
theorem C19.resize_spec_partial (l r v l' r' : Int) (rs : Round) (os : Ovf) (hlr : r ≤ l)
    (hv : inRangeS (l - r + 1) v) (hl : l ≤ l') (hr : r' ≤ r) :
    resizeS l r v l' r' rs os = .ok (specResizeS r v l' r' rs os) := by
  rw [resizeS_extend l r v l' r' rs os hlr hv hl hr, specS_extend l r v l' r' rs os hlr hv hl hr]

example : resizeS 0 (-1) (-2) 2 (-2) .round .saturate = .ok (-4) := by decide

/-- constructor from another format: accepted exactly when the target covers the source (a type-level
    decision), and then the represented number is preserved (`raw' * 2^tr = v * 2^sr`) -/
theorem C19.ctor_preserves (tl tr sl sr v : Int) (hs : sr ≤ sl) (hv : inRangeS (sl - sr + 1) v) :
    (sl ≤ tl ∧ tr ≤ sr → ctorFixedS tl tr sl sr v = .ok (v * p2 (sr - tr))) ∧
    (¬ (sl ≤ tl ∧ tr ≤ sr) → ∃ e, ctorFixedS tl tr sl sr v = .error e) :=
  ⟨fun h => ctorFixedS_covers tl tr sl sr v hs hv h.1 h.2, ctorFixedS_rejects tl tr sl sr v⟩

example : ctorFixedS 1 (-2) 1 (-1) (-3) = .ok (-6) := by decide

theorem C19.ctor_preserves_unsigned (tl tr sl sr v : Int) (hs : sr ≤ sl) (hv : inRangeU (sl - sr + 1) v)
    (hl : sl ≤ tl) (hr : tr ≤ sr) : ctorFixedU tl tr sl sr v = .ok (v * p2 (sr - tr)) :=
  ctorFixedU_covers tl tr sl sr v hs hv hl hr

/-- constructor from `Signed[sw]`: accepted when `sw` bits plus `-r` zeros fit, value preserved (`raw * 2^r = v`) -/
theorem C19.ctor_preserves_signed (l r sw v : Int) (hlr : r ≤ l) (hsw : 1 ≤ sw) (hv : inRangeS sw v)
    (hr : r ≤ 0) (hfit : sw - r ≤ l - r + 1) : ctorSignedS l r sw v = .ok (v * p2 (-r)) :=
  ctorSignedS_ok l r sw v hlr hsw hv hr hfit

example : ctorSignedS 2 (-1) 2 (-2) = .ok (-4) := by decide

/-- `__eq__` of two values of the same format compares the raw values, i.e. the represented numbers
    (scaled by the common exponent `2^k`) -/
theorem C19.eq_compares_numbers_partial (v1 v2 k : Int) : (v1 == v2) = true ↔ v1 * p2 k = v2 * p2 k := by
  have hk := p2_pos k
  constructor
  · intro h; rw [eq_of_beq h]
  · intro h
    have : v1 = v2 := Int.eq_of_mul_eq_mul_right (ne_of_gt hk) h
    simp [this]
