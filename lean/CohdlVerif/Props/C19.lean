import CohdlVerif.Lemmas.C19Eq

/-!
  C19 - property theorems about the mirror `Model/C19.lean` of `cohdl/std/_fixed.py` (the five fixes of
  fixes/C19-*.patch are committed in /repo; the mirror is of that code).  A fixed-point value of format `[l:r]`
  with raw value `v` is the number `v * 2^r`; numbers are compared as integers scaled by a common power of two.

  `resizeS / resizeU` mirror `resize_fn`, `resizeS1 / resizeU1` mirror `_resize_overlapping`, `resizeSCore /
  resizeUCore` its case analysis below the same-format shortcut.  `specResizeS / specResizeU` is the
  specification: exact `v * 2^(r-r')`, truncated toward minus infinity or rounded to nearest-even, then
  wrapped modulo the target range or clamped to its bounds.

  `C19.resize_spec` / `C19.resize_spec_unsigned` are the FULL statements (all formats, styles, raw values);
  the theorems `C19.resize_<branch>_spec` are the branches of the code they are assembled from.
-/
open CohdlVerif.C19

/-! ## `+ - *` -/

/-- SFixed `*`: result format `[l1+l2+1 : r1+r2]`, raw value the exact product - no error, for all formats and values -/
theorem C19.mul_exact (l1 r1 v1 l2 r2 v2 : Int) (h1 : r1 ≤ l1) (h2 : r2 ≤ l2)
    (hv1 : inRangeS (l1 - r1 + 1) v1) (hv2 : inRangeS (l2 - r2 + 1) v2) :
    arithS .mul l1 r1 v1 l2 r2 v2 = .ok ⟨l1 + l2 + 1, (specArith .mul r1 v1 r2 v2).2, (specArith .mul r1 v1 r2 v2).1⟩ :=
  mul_exactS l1 r1 v1 l2 r2 v2 h1 h2 hv1 hv2

example : arithS .mul 1 (-1) (-4) 0 (-2) 3 = .ok ⟨2, -3, -12⟩ := by decide

/-- UFixed `*` -/
theorem C19.mul_exact_unsigned (l1 r1 v1 l2 r2 v2 : Int) (h1 : r1 ≤ l1) (h2 : r2 ≤ l2)
    (hv1 : inRangeU (l1 - r1 + 1) v1) (hv2 : inRangeU (l2 - r2 + 1) v2) :
    arithU .mul l1 r1 v1 l2 r2 v2 = .ok ⟨l1 + l2 + 1, (specArith .mul r1 v1 r2 v2).2, (specArith .mul r1 v1 r2 v2).1⟩ :=
  mul_exactU l1 r1 v1 l2 r2 v2 h1 h2 hv1 hv2

/-- SFixed `+`: result format `[max l + 1 : min r]`, raw value = exact sum in units of `2^(min r)` -/
theorem C19.add_exact (l1 r1 v1 l2 r2 v2 : Int) (h1 : r1 ≤ l1) (h2 : r2 ≤ l2)
    (hv1 : inRangeS (l1 - r1 + 1) v1) (hv2 : inRangeS (l2 - r2 + 1) v2) :
    arithS .add l1 r1 v1 l2 r2 v2 = .ok ⟨max l1 l2 + 1, (specArith .add r1 v1 r2 v2).2, (specArith .add r1 v1 r2 v2).1⟩ :=
  add_exactS l1 r1 v1 l2 r2 v2 h1 h2 hv1 hv2

example : arithS .add 1 (-1) (-4) 0 (-2) 3 = .ok ⟨2, -2, -5⟩ := by decide

/-- UFixed `+` -/
theorem C19.add_exact_unsigned (l1 r1 v1 l2 r2 v2 : Int) (h1 : r1 ≤ l1) (h2 : r2 ≤ l2)
    (hv1 : inRangeU (l1 - r1 + 1) v1) (hv2 : inRangeU (l2 - r2 + 1) v2) :
    arithU .add l1 r1 v1 l2 r2 v2 = .ok ⟨max l1 l2 + 1, (specArith .add r1 v1 r2 v2).2, (specArith .add r1 v1 r2 v2).1⟩ :=
  add_exactU l1 r1 v1 l2 r2 v2 h1 h2 hv1 hv2

/-- SFixed `-`: exact difference -/
theorem C19.sub_exact (l1 r1 v1 l2 r2 v2 : Int) (h1 : r1 ≤ l1) (h2 : r2 ≤ l2)
    (hv1 : inRangeS (l1 - r1 + 1) v1) (hv2 : inRangeS (l2 - r2 + 1) v2) :
    arithS .sub l1 r1 v1 l2 r2 v2 = .ok ⟨max l1 l2 + 1, (specArith .sub r1 v1 r2 v2).2, (specArith .sub r1 v1 r2 v2).1⟩ :=
  sub_exactS l1 r1 v1 l2 r2 v2 h1 h2 hv1 hv2

example : arithS .sub 0 0 (-1) 0 0 0 = .ok ⟨1, 0, -1⟩ := by decide

/-- UFixed `-`: the exact difference modulo the range `2^width` of the result format -/
theorem C19.sub_exact_unsigned (l1 r1 v1 l2 r2 v2 : Int) (h1 : r1 ≤ l1) (h2 : r2 ≤ l2)
    (hv1 : inRangeU (l1 - r1 + 1) v1) (hv2 : inRangeU (l2 - r2 + 1) v2) :
    arithU .sub l1 r1 v1 l2 r2 v2 =
      .ok ⟨max l1 l2 + 1, (specArith .sub r1 v1 r2 v2).2,
           (specArith .sub r1 v1 r2 v2).1 % p2 (max l1 l2 + 1 - (specArith .sub r1 v1 r2 v2).2 + 1)⟩ :=
  sub_exactU l1 r1 v1 l2 r2 v2 h1 h2 hv1 hv2

example : arithU .sub 0 0 0 0 (-1) 1 = .ok ⟨1, -1, 7⟩ := by decide

/-! ## resize, SFixed: the branches of `_resize_overlapping` (formats overlap: `r' ≤ l`, `r ≤ l'`) -/

/-- `l ≤ l'`, `r' ≤ r` (the target covers the source): no bit is dropped, every style -/
theorem C19.resize_extend_spec (l r v l' r' : Int) (rs : Round) (os : Ovf) (hlr : r ≤ l)
    (hv : inRangeS (l - r + 1) v) (hl : l ≤ l') (hr : r' ≤ r) :
    resizeSCore l r v l' r' rs os = .ok (specResizeS r v l' r' rs os) := by
  rw [coreS_ext l r v l' r' rs os hlr hv hl hr, specS_extend l r v l' r' rs os hlr hv hl hr]

example : resizeSCore 0 (-1) (-2) 2 (-2) .round .saturate = .ok (-4) := by decide

/-- left overflow, no right cut, WRAP: the value modulo the target range -/
theorem C19.resize_overflow_wrap_spec (l r v l' r' : Int) (rs : Round) (hv : inRangeS (l - r + 1) v)
    (hl : l' < l) (hr : r' ≤ r) (hov : r ≤ l') :
    resizeSCore l r v l' r' rs .wrap = .ok (specResizeS r v l' r' rs .wrap) :=
  coreS_ovf_wrap l r v l' r' rs hv hl hr hov

example : resizeSCore 2 0 3 1 (-1) .truncate .wrap = .ok (-2) := by decide

/-- left overflow, no right cut, SATURATE: clamped to the bounds of the target -/
theorem C19.resize_overflow_saturate_spec (l r v l' r' : Int) (rs : Round) (hv : inRangeS (l - r + 1) v)
    (hl : l' < l) (hr : r' ≤ r) (hov : r ≤ l') :
    resizeSCore l r v l' r' rs .saturate = .ok (specResizeS r v l' r' rs .saturate) :=
  coreS_ovf_sat l r v l' r' rs hv hl hr hov

example : resizeSCore 2 0 3 1 (-1) .truncate .saturate = .ok 3 := by decide

/-- right cut without left overflow, TRUNCATE: floor division by `2^(r'-r)`, every overflow style -/
theorem C19.resize_truncate_spec (l r v l' r' : Int) (os : Ovf) (hv : inRangeS (l - r + 1) v)
    (hl : l ≤ l') (hr : r < r') (ht : r' ≤ l) :
    resizeSCore l r v l' r' .truncate os = .ok (specResizeS r v l' r' .truncate os) :=
  coreS_cut_trunc l r v l' r' os hv hl hr ht

example : resizeSCore 1 (-2) (-3) 1 (-1) .truncate .wrap = .ok (-2) := by decide

/-- right cut and left overflow, TRUNCATE / WRAP -/
theorem C19.resize_overflow_truncate_wrap_spec (l r v l' r' : Int) (hv : inRangeS (l - r + 1) v)
    (hl : l' < l) (hr : r < r') (ht : r' ≤ l') :
    resizeSCore l r v l' r' .truncate .wrap = .ok (specResizeS r v l' r' .truncate .wrap) :=
  coreS_ovf_cut_trunc_wrap l r v l' r' hv hl hr ht

/-- right cut and left overflow, TRUNCATE / SATURATE -/
theorem C19.resize_overflow_truncate_saturate_spec (l r v l' r' : Int) (hv : inRangeS (l - r + 1) v)
    (hl : l' < l) (hr : r < r') (ht : r' ≤ l') :
    resizeSCore l r v l' r' .truncate .saturate = .ok (specResizeS r v l' r' .truncate .saturate) :=
  coreS_ovf_cut_trunc_sat l r v l' r' hv hl hr ht

example : resizeSCore 2 (-2) (-13) 0 (-1) .truncate .saturate = .ok (-2) := by decide

/-- right cut without left overflow, ROUND (nearest, ties to even), every overflow style - including the
    carry of the rounding increment out of the target when `l = l'` (wraps / saturates as selected) -/
theorem C19.resize_round_spec (l r v l' r' : Int) (os : Ovf) (hv : inRangeS (l - r + 1) v)
    (hl : l ≤ l') (hr : r < r') (ht : r' ≤ l) :
    resizeSCore l r v l' r' .round os = .ok (specResizeS r v l' r' .round os) :=
  coreS_cut_round l r v l' r' os hv hl hr ht

example : resizeSCore 0 (-2) 3 0 (-1) .round .saturate = .ok 1 := by decide
example : resizeSCore 0 (-2) 3 0 (-1) .round .wrap = .ok (-2) := by decide

/-- right cut and left overflow, ROUND / WRAP -/
theorem C19.resize_overflow_round_wrap_spec (l r v l' r' : Int) (hv : inRangeS (l - r + 1) v)
    (hl : l' < l) (hr : r < r') (ht : r' ≤ l') :
    resizeSCore l r v l' r' .round .wrap = .ok (specResizeS r v l' r' .round .wrap) :=
  coreS_ovf_cut_round_wrap l r v l' r' hv hl hr ht

/-- right cut and left overflow, ROUND / SATURATE -/
theorem C19.resize_overflow_round_saturate_spec (l r v l' r' : Int) (hv : inRangeS (l - r + 1) v)
    (hl : l' < l) (hr : r < r') (ht : r' ≤ l') :
    resizeSCore l r v l' r' .round .saturate = .ok (specResizeS r v l' r' .round .saturate) :=
  coreS_ovf_cut_round_sat l r v l' r' hv hl hr ht

example : resizeSCore 1 (-2) (-1) 0 (-1) .round .saturate = .ok 0 := by decide

/-- `_resize_overlapping`: every pair of overlapping formats, every style, every raw value -/
theorem C19.resize_overlapping_spec (l r v l' r' : Int) (rs : Round) (os : Ovf) (hlr : r ≤ l) (hlr' : r' ≤ l')
    (hv : inRangeS (l - r + 1) v) (ho1 : r' ≤ l) (ho2 : r ≤ l') :
    resizeS1 l r v l' r' rs os = .ok (specResizeS r v l' r' rs os) :=
  resizeS1_spec l r v l' r' rs os hlr hlr' hv ho1 ho2

/-- formats without a common bit position: the source is extended exactly (constructor from another format),
    then `_resize_overlapping` applies - the result is the spec's -/
theorem C19.resize_disjoint_spec (l r v l' r' : Int) (rs : Round) (os : Ovf) (hlr : r ≤ l) (hlr' : r' ≤ l')
    (hv : inRangeS (l - r + 1) v) (_hd : l < r' ∨ l' < r) :
    resizeS l r v l' r' rs os = .ok (specResizeS r v l' r' rs os) :=
  resizeS_spec l r v l' r' rs os hlr hlr' hv

example : resizeS 1 0 (-1) (-1) (-1) .round .saturate = .ok (-1) := by decide
example : resizeS (-1) (-1) (-1) 0 0 .round .wrap = .ok 0 := by decide

/-- C19, resize, FULL STATEMENT (SFixed): for all source and target formats, both round styles, both overflow
    styles and every raw value of the source format, `resize_fn` returns without error the raw value of the
    specification -/
theorem C19.resize_spec (l r v l' r' : Int) (rs : Round) (os : Ovf) (hlr : r ≤ l) (hlr' : r' ≤ l')
    (hv : inRangeS (l - r + 1) v) :
    resizeS l r v l' r' rs os = .ok (specResizeS r v l' r' rs os) :=
  resizeS_spec l r v l' r' rs os hlr hlr' hv

example : resizeS (-1) (-3) 3 (-1) (-2) .round .saturate = .ok 1 := by decide

/-! ## resize, UFixed -/

theorem C19.resize_extend_spec_unsigned (l r v l' r' : Int) (rs : Round) (os : Ovf) (hlr : r ≤ l)
    (hv : inRangeU (l - r + 1) v) (hl : l ≤ l') (hr : r' ≤ r) :
    resizeUCore l r v l' r' rs os = .ok (specResizeU r v l' r' rs os) := by
  rw [coreU_ext l r v l' r' rs os hlr hv hl hr, specU_ext l r v l' r' rs os hlr hv hl hr]

theorem C19.resize_overflow_wrap_spec_unsigned (l r v l' r' : Int) (rs : Round) (hv : inRangeU (l - r + 1) v)
    (hl : l' < l) (hr : r' ≤ r) (hov : r ≤ l') :
    resizeUCore l r v l' r' rs .wrap = .ok (specResizeU r v l' r' rs .wrap) :=
  coreU_ovf_wrap l r v l' r' rs hv hl hr hov

theorem C19.resize_overflow_saturate_spec_unsigned (l r v l' r' : Int) (rs : Round) (hv : inRangeU (l - r + 1) v)
    (hl : l' < l) (hr : r' ≤ r) (hov : r ≤ l') :
    resizeUCore l r v l' r' rs .saturate = .ok (specResizeU r v l' r' rs .saturate) :=
  coreU_ovf_sat l r v l' r' rs hv hl hr hov

example : resizeUCore 2 0 5 1 (-1) .truncate .saturate = .ok 7 := by decide

theorem C19.resize_truncate_spec_unsigned (l r v l' r' : Int) (os : Ovf) (hv : inRangeU (l - r + 1) v)
    (hl : l ≤ l') (hr : r < r') (ht : r' ≤ l) :
    resizeUCore l r v l' r' .truncate os = .ok (specResizeU r v l' r' .truncate os) :=
  coreU_cut_trunc l r v l' r' os hv hl hr ht

theorem C19.resize_overflow_truncate_wrap_spec_unsigned (l r v l' r' : Int) (hv : inRangeU (l - r + 1) v)
    (hl : l' < l) (hr : r < r') (ht : r' ≤ l') :
    resizeUCore l r v l' r' .truncate .wrap = .ok (specResizeU r v l' r' .truncate .wrap) :=
  coreU_ovf_cut_trunc_wrap l r v l' r' hv hl hr ht

theorem C19.resize_overflow_truncate_saturate_spec_unsigned (l r v l' r' : Int) (hv : inRangeU (l - r + 1) v)
    (hl : l' < l) (hr : r < r') (ht : r' ≤ l') :
    resizeUCore l r v l' r' .truncate .saturate = .ok (specResizeU r v l' r' .truncate .saturate) :=
  coreU_ovf_cut_trunc_sat l r v l' r' hv hl hr ht

theorem C19.resize_round_spec_unsigned (l r v l' r' : Int) (os : Ovf) (hv : inRangeU (l - r + 1) v)
    (hl : l ≤ l') (hr : r < r') (ht : r' ≤ l) :
    resizeUCore l r v l' r' .round os = .ok (specResizeU r v l' r' .round os) :=
  coreU_cut_round l r v l' r' os hv hl hr ht

example : resizeUCore 0 (-2) 7 0 (-1) .round .saturate = .ok 3 := by decide

theorem C19.resize_overflow_round_wrap_spec_unsigned (l r v l' r' : Int) (hv : inRangeU (l - r + 1) v)
    (hl : l' < l) (hr : r < r') (ht : r' ≤ l') :
    resizeUCore l r v l' r' .round .wrap = .ok (specResizeU r v l' r' .round .wrap) :=
  coreU_ovf_cut_round_wrap l r v l' r' hv hl hr ht

theorem C19.resize_overflow_round_saturate_spec_unsigned (l r v l' r' : Int) (hv : inRangeU (l - r + 1) v)
    (hl : l' < l) (hr : r < r') (ht : r' ≤ l') :
    resizeUCore l r v l' r' .round .saturate = .ok (specResizeU r v l' r' .round .saturate) :=
  coreU_ovf_cut_round_sat l r v l' r' hv hl hr ht

example : resizeUCore 1 (-2) 3 0 (-1) .round .saturate = .ok 2 := by decide

theorem C19.resize_overlapping_spec_unsigned (l r v l' r' : Int) (rs : Round) (os : Ovf) (hlr : r ≤ l)
    (hlr' : r' ≤ l') (hv : inRangeU (l - r + 1) v) (ho1 : r' ≤ l) (ho2 : r ≤ l') :
    resizeU1 l r v l' r' rs os = .ok (specResizeU r v l' r' rs os) :=
  resizeU1_spec l r v l' r' rs os hlr hlr' hv ho1 ho2

/-- C19, resize, FULL STATEMENT (UFixed) -/
theorem C19.resize_spec_unsigned (l r v l' r' : Int) (rs : Round) (os : Ovf) (hlr : r ≤ l) (hlr' : r' ≤ l')
    (hv : inRangeU (l - r + 1) v) :
    resizeU l r v l' r' rs os = .ok (specResizeU r v l' r' rs os) :=
  resizeU_spec l r v l' r' rs os hlr hlr' hv

example : resizeU (-2) (-3) 3 (-2) (-2) .round .saturate = .ok 1 := by decide
example : resizeU 0 0 1 (-2) (-2) .truncate .saturate = .ok 1 := by decide

/-! ## constructors -/

/-- constructor from another format: accepted exactly when the target covers the source (a type-level
    decision), and then the represented number is preserved (`raw' * 2^tr = v * 2^sr`) -/
theorem C19.ctor_preserves (tl tr sl sr v : Int) (hs : sr ≤ sl) (hv : inRangeS (sl - sr + 1) v) :
    (sl ≤ tl ∧ tr ≤ sr → ctorFixedS tl tr sl sr v = .ok (v * p2 (sr - tr))) ∧
    (¬ (sl ≤ tl ∧ tr ≤ sr) → ∃ e, ctorFixedS tl tr sl sr v = .error e) :=
  ⟨fun h => ctorFixedS_covers tl tr sl sr v hs hv h.1 h.2, ctorFixedS_rejects tl tr sl sr v⟩

example : ctorFixedS 1 (-2) 1 (-1) (-3) = .ok (-6) := by decide

theorem C19.ctor_preserves_unsigned (tl tr sl sr v : Int) (hs : sr ≤ sl) (hv : inRangeU (sl - sr + 1) v)
    (hl : sl ≤ tl) (hr : tr ≤ sr) : ctorFixedU tl tr sl sr v = .ok (v * p2 (sr - tr)) :=
  ctorFixedU_covers tl tr sl sr v hs hv hl hr

/-- constructor from `Signed[sw]`: accepted when `sw` bits plus `-r` zeros fit, value preserved (`raw * 2^r = v`) -/
theorem C19.ctor_preserves_signed (l r sw v : Int) (hlr : r ≤ l) (hsw : 1 ≤ sw) (hv : inRangeS sw v)
    (hr : r ≤ 0) (hfit : sw - r ≤ l - r + 1) : ctorSignedS l r sw v = .ok (v * p2 (-r)) :=
  ctorSignedS_ok l r sw v hlr hsw hv hr hfit

example : ctorSignedS 2 (-1) 2 (-2) = .ok (-4) := by decide

/-- SFixed from `Unsigned[sw]` (needs one more bit for the sign) and UFixed from `Unsigned[sw]` -/
theorem C19.ctor_preserves_from_unsigned (l r sw v : Int) (hsw : 1 ≤ sw) (hv : inRangeU sw v) (hr : r ≤ 0) :
    (sw - r ≤ l - r → ctorUnsignedS l r sw v = .ok (v * p2 (-r))) ∧
    (sw - r ≤ l - r + 1 → ctorUnsignedU l r sw v = .ok (v * p2 (-r))) :=
  ⟨ctorUnsignedS_ok l r sw v hsw hv hr, ctorUnsignedU_ok l r sw v hsw hv hr⟩

example : ctorUnsignedS 2 (-1) 2 3 = .ok 6 := by decide

/-- constructor from a python number `m * 2^e` (int or float) that the format can represent (it equals
    `v * 2^r` for a raw value `v` of the format): accepted, and the raw value is `v` -/
theorem C19.ctor_preserves_number (l r v m e : Int) (hlr : r ≤ l) (h : dyEq v r m e) :
    (inRangeS (l - r + 1) v → ctorNumS l r m e = .ok v) ∧ (inRangeU (l - r + 1) v → ctorNumU l r m e = .ok v) :=
  ⟨fun hv => ctorNumS_representable l r v m e hlr hv h, fun hv => ctorNumU_representable l r v m e hlr hv h⟩

example : dyEq (-3) (-1) (-3) (-1) ∧ ctorNumS 1 (-1) (-3) (-1) = .ok (-3) :=
  ⟨by unfold dyEq; decide, by decide⟩

/-! ## `__eq__` -/

/-- `x == number` (python int / float `m * 2^e`): whenever it returns (numbers outside the range of the format
    are rejected by `static_assert`), the answer is the comparison of the two represented numbers -/
theorem C19.eq_compares_numbers (l r v m e : Int) (b : Bool) :
    (eqNumS l r v m e = .ok b → (b = true ↔ dyEq v r m e)) ∧
    (eqNumU l r v m e = .ok b → (b = true ↔ dyEq v r m e)) :=
  ⟨eqNumS_spec l r v m e b, eqNumU_spec l r v m e b⟩

example : eqNumS (-2) (-2) 0 (-1) (-3) = .ok false := by decide
example : eqNumS 1 (-1) 3 3 (-1) = .ok true := by decide

/-- `__eq__` of two values of the same format (other formats are rejected by `assert type(other) is type(self)`)
    compares the raw values, i.e. the represented numbers scaled by the common exponent `2^k` -/
theorem C19.eq_compares_numbers_same_format (v1 v2 k : Int) : (v1 == v2) = true ↔ v1 * p2 k = v2 * p2 k := by
  have hk := p2_pos k
  constructor
  · intro h; rw [eq_of_beq h]
  · intro h
    have : v1 = v2 := Int.eq_of_mul_eq_mul_right (ne_of_gt hk) h
    simp [this]
