/-! C19 - property theorems (declared with their full name `C19.<name>`; helper lemmas go to Lemmas/) -/
