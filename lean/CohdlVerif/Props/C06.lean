import CohdlVerif.Lemmas.C06Lemmas
import CohdlVerif.Gen.C06Tables

/-! C06 - property theorems (declared with their full name `C06.<name>`; helper lemmas go to Lemmas/) -/

/-!
  What is proved here is the NAMING part of C06, for every input of the mechanism (all used sets, all raw
  names, all scope contents), plus two finite obligations on the reserved-word tables REGENERATED from
  /repo's source on every run (Gen/C06Tables.lean).  The universal claim "every accepted design yields legal
  VHDL" needs a model of the whole back end and is NOT proved: the rest of the property is established per
  design by harness/vhdl_check.py on the real emitted text (see notes/C06.md).
-/

namespace CohdlVerif.C06

/-- IEEE 1076-2008, 15.10 reserved words (spec list, independent of the compiler's table) -/
def vhdl2008Words : List String := [
  "abs", "access", "after", "alias", "all", "and", "architecture", "array", "assert", "assume",
  "assume_guarantee", "attribute", "begin", "block", "body", "buffer", "bus", "case", "component",
  "configuration", "constant", "context", "cover", "default", "disconnect", "downto", "else", "elsif", "end",
  "entity", "exit", "fairness", "file", "for", "force", "function", "generate", "generic", "group", "guarded",
  "if", "impure", "in", "inertial", "inout", "is", "label", "library", "linkage", "literal", "loop", "map",
  "mod", "nand", "new", "next", "nor", "not", "null", "of", "on", "open", "or", "others", "out", "package",
  "parameter", "port", "postponed", "procedure", "process", "property", "protected", "pure", "range",
  "record", "register", "reject", "release", "rem", "report", "restrict", "restrict_guarantee", "return",
  "rol", "ror", "select", "sequence", "severity", "shared", "signal", "sla", "sll", "sra", "srl", "strong",
  "subtype", "then", "to", "transport", "type", "unaffected", "units", "until", "use", "variable", "vmode",
  "vprop", "vunit", "wait", "when", "while", "with", "xnor", "xor"]

/-- predefined names (types, numeric_std / std_logic_1164 functions, the helper function, literals, the
    library of instantiated entities) that the text printed by `_vhdl_repr.py` itself relies on.  The harness
    checks on every emitted text that each identifier that is neither declared by the text nor a reserved
    word is in this list (completeness of the list for the generated corpus). -/
def predefinedUsed : List String := [
  "std_logic", "std_logic_vector", "unsigned", "signed", "boolean", "integer", "string",
  "to_unsigned", "to_signed", "to_integer", "resize", "shift_left", "shift_right",
  "rising_edge", "falling_edge", "cohdl_bool_to_std_logic", "true", "false", "work"]

def nm (s : String) : Name := s.toList

/-- names assigned in the scopes that are visible from process `p` -/
def visible (a : Assigned) (p : List Name) : List Name :=
  a.moduleNames ++ a.entityNames ++ a.archNames ++ p

/-- the used set a `ModuleScope` starts from -/
def moduleUsed (d : Design) : List Name := d.reserved ++ d.additional.map lower

end CohdlVerif.C06

open CohdlVerif.C06

/-- The collision search returns a name whose lower-case form is not taken - for EVERY used set and base
    name.  (The doubling phase ends by a pigeonhole argument on the finite used set; the bisection keeps
    "the current candidate is free" as invariant although freeness is not monotone in the suffix.) -/
theorem C06.suffix_search_fresh (used : List Name) (base : Name) : lower (pick used base) ∉ used :=
  pick_fresh used base

example : pick ["a".toList, "a1".toList, "a2".toList, "a4".toList] "A".toList = "A5".toList := by decide +kernel

/-- freeness is not monotone in the suffix (4 is free, 5..7 are not, 8 is): the bisection is not a binary
    search for the least free suffix, it only ever moves to candidates it has just tested -/
example : pick (["a", "a1", "a2", "a3", "a5", "a6", "a7"].map String.toList) "a".toList = "a4".toList := by decide +kernel
example : pick (["a", "a1", "a2", "a4", "a5", "a6", "a7"].map String.toList) "a".toList = "a8".toList := by decide +kernel

/-- every assigned name is a VHDL basic identifier `letter { [_] letter_or_digit }` - whatever the raw names are
    (holds for the repaired `complete_setup`; the two substituted spellings `cfg.empty` / `cfg.pre` are inputs
    read from the compiler, they only have to be identifiers themselves: `goodCfg`) -/
theorem C06.assignNames_basic_identifier (d : Design) (hcfg : goodCfg d.cfg = true) :
    (∀ n ∈ (assignDesign d).moduleNames, basicId n = true) ∧
    (∀ n ∈ (assignDesign d).entityNames, basicId n = true) ∧
    (∀ n ∈ (assignDesign d).archNames, basicId n = true) ∧
    (∀ p ∈ (assignDesign d).procNames, ∀ n ∈ p, basicId n = true) := by
  refine ⟨?_, ?_, ?_, ?_⟩
  · exact assignScope_basicId d.cfg hcfg _ _
  · exact assignScope_basicId d.cfg hcfg _ _
  · exact assignScope_basicId d.cfg hcfg _ _
  · intro p hp n hn
    simp only [assignDesign, List.mem_map] at hp
    rcases hp with ⟨raws, _, rfl⟩
    exact assignScope_basicId d.cfg hcfg _ _ n hn

example : sanitize "a__b".toList = "a_b".toList ∧ sanitize "_".toList = "unnamed".toList ∧
    sanitize "1x".toList = "n1x".toList ∧ sanitize "x_".toList = "x".toList ∧ sanitize "a b".toList = "a_b".toList := by decide +kernel

/-- Names visible together (module, entity, architecture and one process scope) are pairwise distinct
    case-insensitively. -/
theorem C06.assignNames_injective (d : Design) :
    ∀ p ∈ (assignDesign d).procNames, ((visible (assignDesign d) p).map lower).Nodup := by
  intro p hp
  simp only [assignDesign, List.mem_map] at hp
  rcases hp with ⟨raws, _, rfl⟩
  have hm := assignScope_ok d.cfg d.moduleDecls (moduleUsed d)
  have he := assignScope_ok d.cfg d.entityDecls (assignScope d.cfg (moduleUsed d) d.moduleDecls).2
  have ha := assignScope_ok d.cfg d.archDecls
    ((assignScope d.cfg (assignScope d.cfg (moduleUsed d) d.moduleDecls).2 d.entityDecls).2 ++ d.archReserved.map lower)
  have hpr := assignScope_ok d.cfg raws (archUsed d)
  simp only [visible, assignDesign, List.map_append]
  have hmE : ∀ x ∈ (assignScope d.cfg (moduleUsed d) d.moduleDecls).1.map lower,
      x ∈ (assignScope d.cfg (moduleUsed d) d.moduleDecls).2 := by
    intro x hx
    rcases List.mem_map.mp hx with ⟨n, hn, rfl⟩
    exact hm.inUsed n hn
  have heA : ∀ x ∈ (assignScope d.cfg (assignScope d.cfg (moduleUsed d) d.moduleDecls).2 d.entityDecls).1.map lower,
      x ∈ (assignScope d.cfg (assignScope d.cfg (moduleUsed d) d.moduleDecls).2 d.entityDecls).2 := by
    intro x hx
    rcases List.mem_map.mp hx with ⟨n, hn, rfl⟩
    exact he.inUsed n hn
  have haP : ∀ x ∈ (assignScope d.cfg ((assignScope d.cfg (assignScope d.cfg (moduleUsed d) d.moduleDecls).2 d.entityDecls).2
        ++ d.archReserved.map lower) d.archDecls).1.map lower, x ∈ archUsed d := by
    intro x hx
    rcases List.mem_map.mp hx with ⟨n, hn, rfl⟩
    exact ha.inUsed n hn
  have hfresh : ∀ {used raws : List Name} (ok : ScopeOk used raws (assignScope d.cfg used raws)),
      ∀ x ∈ (assignScope d.cfg used raws).1.map lower, x ∉ used := by
    intro used raws ok x hx
    rcases List.mem_map.mp hx with ⟨n, hn, rfl⟩
    exact ok.fresh n hn
  refine List.nodup_append.mpr ⟨List.nodup_append.mpr ⟨List.nodup_append.mpr ⟨hm.nodup, he.nodup, ?_⟩, ha.nodup, ?_⟩,
    hpr.nodup, ?_⟩
  · intro a ha1 b hb heq
    subst heq
    exact hfresh he a hb (hmE a ha1)
  · intro a ha1 b hb heq
    subst heq
    apply hfresh ha a hb
    apply List.mem_append_left
    rcases List.mem_append.mp ha1 with h | h
    · exact he.mono a (hmE a h)
    · exact heA a h
  · intro a ha1 b hb heq
    subst heq
    apply hfresh hpr a hb
    rcases List.mem_append.mp ha1 with h | h
    · apply ha.mono
      apply List.mem_append_left
      rcases List.mem_append.mp h with h | h
      · exact he.mono a (hmE a h)
      · exact heA a h
    · exact haP a h

example : goodCfg defaultCfg = true := by decide +kernel

example : assignDesign ⟨defaultCfg, [nm "signal"], [], [nm "E"], [nm "clk", nm "Signal", nm "e"], [], [nm "CLK", nm "e1"], [[nm "clk1"]]⟩ =
    ⟨[nm "E"], [nm "clk", nm "Signal1", nm "e1"], [nm "CLK1", nm "e11"], [[nm "clk11"]]⟩ := by decide +kernel

/-- No assigned name is (case-insensitively) in the reserved set the module scope starts from, nor - inside
    the architecture - in the entity's `reserved_names`. -/
theorem C06.assignNames_avoid_reserved (d : Design) :
    (∀ p ∈ (assignDesign d).procNames, ∀ n ∈ visible (assignDesign d) p, lower n ∉ moduleUsed d) ∧
    (∀ p ∈ (assignDesign d).procNames, ∀ n ∈ (assignDesign d).archNames ++ p, lower n ∉ d.archReserved.map lower) := by
  have hm := assignScope_ok d.cfg d.moduleDecls (moduleUsed d)
  have he := assignScope_ok d.cfg d.entityDecls (assignScope d.cfg (moduleUsed d) d.moduleDecls).2
  have ha := assignScope_ok d.cfg d.archDecls
    ((assignScope d.cfg (assignScope d.cfg (moduleUsed d) d.moduleDecls).2 d.entityDecls).2 ++ d.archReserved.map lower)
  constructor
  · intro p hp n hn
    simp only [assignDesign, List.mem_map] at hp
    rcases hp with ⟨raws, _, rfl⟩
    have hpr := assignScope_ok d.cfg raws (archUsed d)
    simp only [visible, assignDesign, List.mem_append] at hn
    intro hin
    rcases hn with ((h | h) | h) | h
    · exact hm.fresh n h hin
    · exact he.fresh n h (hm.mono _ hin)
    · exact ha.fresh n h (List.mem_append_left _ (he.mono _ (hm.mono _ hin)))
    · exact hpr.fresh n h (ha.mono _ (List.mem_append_left _ (he.mono _ (hm.mono _ hin))))
  · intro p hp n hn
    simp only [assignDesign, List.mem_map] at hp
    rcases hp with ⟨raws, _, rfl⟩
    have hpr := assignScope_ok d.cfg raws (archUsed d)
    simp only [assignDesign, List.mem_append] at hn
    intro hin
    rcases hn with h | h
    · exact ha.fresh n h (List.mem_append_right _ hin)
    · exact hpr.fresh n h (ha.mono _ (List.mem_append_right _ hin))

/-- The compiler's reserved table (regenerated from the current source) contains every VHDL-2008 reserved word. -/
theorem C06.reserved_covers_vhdl2008 : ∀ w ∈ vhdl2008Words, w ∈ Gen.reserved := by decide +kernel

/-- ... and every predefined name the back end prints. -/
theorem C06.reserved_covers_predefined_used : ∀ w ∈ predefinedUsed, w ∈ Gen.reserved := by decide +kernel

/-- Consequence for a module scope that starts from the regenerated table: no assigned name is a VHDL-2008
    reserved word or a predefined name the text relies on, in any letter case. -/
theorem C06.names_never_reserved_or_predefined (d : Design)
    (hres : ∀ w ∈ Gen.reserved, w.toList ∈ d.reserved) :
    ∀ p ∈ (assignDesign d).procNames, ∀ n ∈ visible (assignDesign d) p,
      ∀ w ∈ vhdl2008Words ++ predefinedUsed, lower n ≠ w.toList := by
  intro p hp n hn w hw heq
  have hin : w ∈ Gen.reserved := by
    rcases List.mem_append.mp hw with h | h
    · exact C06.reserved_covers_vhdl2008 w h
    · exact C06.reserved_covers_predefined_used w h
  exact (C06.assignNames_avoid_reserved d).1 p hp n hn (by
    rw [heq]; exact List.mem_append_left _ (hres w hin))

example : ∃ d : Design, (∀ w ∈ Gen.reserved, w.toList ∈ d.reserved) ∧ (assignDesign d).procNames ≠ [] :=
  ⟨⟨defaultCfg, Gen.reserved.map String.toList, [], [], [], [], [], [[]]⟩,
   fun w h => List.mem_map.mpr ⟨w, h, rfl⟩, by simp [assignDesign]⟩
