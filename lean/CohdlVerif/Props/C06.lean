/-! C06 - property theorems (declared with their full name `C06.<name>`; helper lemmas go to Lemmas/) -/
