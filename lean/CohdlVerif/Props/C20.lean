import CohdlVerif.Lemmas.C20Lemmas

/-!
  C20 - property theorems: AXI4-Lite register maps decode, mask and hand-shake correctly.

  The model (`Model/C20.lean`) is the clock-accurate state machine of the slave built by
  `Axi4Light.connect_addr_map` (tied per clock to the compiled designs by harness/c20.py).  The theorems
  quantify over ALL input sequences - every master behaviour (conforming or not), every per-channel timing,
  every hardware-side input, resets at any time - and over all layouts.

  Only property theorems live here (full name `C20.*`); helper lemmas are in Lemmas/C20Lemmas.lean.
-/
open CohdlVerif.C20

namespace CohdlVerif.C20

/-- the slave together with the handshake counters (handshakes since the last reset) -/
def stepCnt (cfg : Cfg) (p : State × Cnt) (i : In) : State × Cnt := (step cfg p.1 i, cntStep p.1.core i p.2)

/-- every schedule: an arbitrary list of per-clock inputs from power-up -/
def runCnt (cfg : Cfg) (ins : List In) : State × Cnt := ins.foldl (stepCnt cfg) (init cfg, {})

/-- registers of a layout do not overlap (what `RegisterObject._flatten_` asserts) -/
def nonOverlapping (regs : List Reg) : Prop :=
  regs.Pairwise fun a b => a.offset + a.count ≤ b.offset ∨ b.offset + b.count ≤ a.offset

end CohdlVerif.C20

/-! ## address decode -/

/-- the power-of-two fast path of `_contains_addr_` (`addr.msb(rest=log2 count) == offset // count`) is the range
    test -/
theorem C20.contains_addr_fastpath (count offset addr : Nat) (hp : isPow2 count = true) (ha : offset % count = 0) :
    (addr / count = offset / count) ↔ (offset ≤ addr ∧ addr < offset + count) :=
  div_eq_iff_range count offset addr (isPow2_pos hp) ha

example : isPow2 8 = true ∧ 24 % 8 = 0 ∧ (29 / 8 = 24 / 8) := by decide

/-- the mirror of `_contains_addr_` (fast path with the shift, slow path with the two comparisons) decides
    exactly `offset ≤ addr < offset + count`, for every register size -/
theorem C20.contains_addr_exact (offset count addr : Nat) (hc : 0 < count) :
    containsAddr offset count addr = true ↔ (offset ≤ addr ∧ addr < offset + count) :=
  containsAddr_iff offset count addr hc

example : containsAddr 52 12 63 = true ∧ containsAddr 52 12 64 = false ∧ containsAddr 48 16 63 = true := by decide

/-- in a non-overlapping layout at most one register contains an address -/
theorem C20.decode_unique (regs : List Reg) (hno : nonOverlapping regs) (hpos : ∀ r ∈ regs, 0 < r.count) (addr : Nat)
    (i j : Nat) (hi : i < regs.length) (hj : j < regs.length)
    (ci : containsAddr regs[i].offset regs[i].count addr = true)
    (cj : containsAddr regs[j].offset regs[j].count addr = true) : i = j := by
  have ri := (containsAddr_iff _ _ addr (hpos _ (List.getElem_mem hi))).mp ci
  have rj := (containsAddr_iff _ _ addr (hpos _ (List.getElem_mem hj))).mp cj
  unfold inRange at ri rj
  have hp := List.pairwise_iff_getElem.mp hno
  rcases Nat.lt_trichotomy i j with h | h | h
  · have := hp i j hi hj h; omega
  · exact h
  · have := hp j i hj hi h; omega

example : nonOverlapping [⟨.memWord, 0, 4, true, true, 0, 0, 0, 0, false, false, false, false, 0⟩,
                          ⟨.range, 4, 12, true, true, 0, 0, 0, 0, false, false, false, false, 0⟩] := by
  simp [nonOverlapping]

/-- hence the `for reg in regs: if reg._contains_addr_(addr): ...; break` dispatch selects THE register that
    contains the address (independent of the order of the list), and nothing for an unmapped address -/
theorem C20.dispatch_selects_the_addressed_register (p : Reg → Bool) (regs : List Reg) (hno : nonOverlapping regs)
    (hpos : ∀ r ∈ regs, 0 < r.count) (addr : Nat) :
    (∀ j (hj : j < regs.length), p regs[j] = true → (regs[j].offset ≤ addr ∧ addr < regs[j].offset + regs[j].count) →
        selectIdx p regs addr = some j) ∧
    ((∀ r ∈ regs, p r = true → ¬ (r.offset ≤ addr ∧ addr < r.offset + r.count)) → selectIdx p regs addr = none) := by
  constructor
  · intro j hj hpj hin
    have cj : containsAddr regs[j].offset regs[j].count addr = true :=
      (containsAddr_iff _ _ addr (hpos _ (List.getElem_mem hj))).mpr hin
    unfold selectIdx
    rw [List.findIdx?_eq_some_iff_getElem]
    refine ⟨hj, by simp [hpj, cj], ?_⟩
    intro k hk hpk
    simp only [Bool.and_eq_true] at hpk
    have := C20.decode_unique regs hno hpos addr k j (by omega) hj hpk.2 cj
    omega
  · intro h
    unfold selectIdx
    rw [List.findIdx?_eq_none_iff]
    intro r hr
    cases hp : p r
    · simp
    · have := h r hr hp
      cases hc : containsAddr r.offset r.count addr
      · simp
      · exact absurd ((containsAddr_iff _ _ addr (hpos r hr)).mp hc) this

/-! ## handshakes, for all schedules -/

/-- the invariant that links the channel registers to the handshake counters holds after every input sequence
    (induction over the clocks; a reset clock re-establishes the initial state) -/
theorem C20.handshake_invariant (cfg : Cfg) (ins : List In) :
    WInv (runCnt cfg ins).1.core.wr (runCnt cfg ins).2 ∧ RInv (runCnt cfg ins).1.core.rd (runCnt cfg ins).2 := by
  unfold runCnt
  suffices h : ∀ (p : State × Cnt), (WInv p.1.core.wr p.2 ∧ RInv p.1.core.rd p.2) →
      WInv (ins.foldl (stepCnt cfg) p).1.core.wr (ins.foldl (stepCnt cfg) p).2 ∧
      RInv (ins.foldl (stepCnt cfg) p).1.core.rd (ins.foldl (stepCnt cfg) p).2 from
    h _ ⟨by simpa [init] using WInv_init, by simpa [init] using RInv_init⟩
  induction ins with
  | nil => intro p h; exact h
  | cons i ins ih =>
    intro p h
    apply ih
    cases hr : i.rst
    · simp only [stepCnt, step, hr, Bool.false_eq_true, if_false, coreStep]
      exact ⟨WInv_step p.1.core i p.2 hr h.1, RInv_step p.1.core i p.2 _ hr h.2⟩
    · simp only [stepCnt, step, hr, if_true, cntStep, init]
      exact ⟨WInv_init, RInv_init⟩

/-- BVALID / RVALID (and the read data) are never withdrawn before BREADY / RREADY: after ANY input sequence, a
    clock without reset in which the response is pending and the master is not ready leaves it pending -/
theorem C20.valid_held_until_ready (cfg : Cfg) (ins : List In) (i : In) (hr : i.rst = false) :
    let s := (runCnt cfg ins).1
    (s.core.wr.bvalid = true → i.bready = false → (step cfg s i).core.wr.bvalid = true) ∧
    (s.core.rd.rvalid = true → i.rready = false →
       (step cfg s i).core.rd.rvalid = true ∧ (step cfg s i).core.rd.rdata = s.core.rd.rdata) := by
  intro s
  have hinv := C20.handshake_invariant cfg ins
  constructor
  · intro hb hnr
    rcases hinv.1 with ⟨_, _, _, h3, _⟩ | ⟨_, _, _, h3, _⟩ | ⟨hs, _⟩
    · simp [s, h3] at hb
    · simp [s, h3] at hb
    · simp [step, hr, coreStep, wrStep, hs, hnr, hb, s]
  · intro hv hnr
    rcases hinv.2 with ⟨_, _, h2, _⟩ | ⟨_, _, h2, _⟩ | ⟨hs, _, h2, _⟩
    · simp [s, h2] at hv
    · simp [s, h2] at hv
    · simp [step, hr, coreStep, rdStep, hs, hnr, s, h2]

/-- every request is answered at most once and every answer belongs to a request: after ANY input sequence the
    number of B handshakes lies between (completed write requests - 1) and (completed write requests), a write
    response is pending exactly when one request is unanswered; the same for reads -/
theorem C20.one_response_per_request (cfg : Cfg) (ins : List In) (s : State) (n : Cnt) (hrun : runCnt cfg ins = (s, n)) :
    n.b ≤ min n.aw n.w ∧ min n.aw n.w ≤ n.b + 1 ∧ (s.core.wr.bvalid = true ↔ min n.aw n.w = n.b + 1) ∧
    n.r ≤ n.ar ∧ n.ar ≤ n.r + 1 ∧ (s.core.rd.rvalid = true ↔ n.ar = n.r + 1) := by
  have hinv := C20.handshake_invariant cfg ins
  rw [hrun] at hinv
  simp only at hinv
  have hw : n.b ≤ min n.aw n.w ∧ min n.aw n.w ≤ n.b + 1 ∧ (s.core.wr.bvalid = true ↔ min n.aw n.w = n.b + 1) := by
    rcases hinv.1 with ⟨_, _, _, h3, h4, h5⟩ | ⟨_, _, _, h3, h4, h5, h6⟩ | ⟨_, _, _, h3, h4, h5⟩
    · simp [h3]; omega
    · cases haL : s.core.wr.aL <;> cases hdL : s.core.wr.dL <;> simp [haL, hdL] at h6 <;>
        simp [haL, hdL, b2n] at h4 h5 <;> simp [h3] <;> omega
    · simp [h3]; omega
  have hr : n.r ≤ n.ar ∧ n.ar ≤ n.r + 1 ∧ (s.core.rd.rvalid = true ↔ n.ar = n.r + 1) := by
    rcases hinv.2 with ⟨_, _, h2, h3⟩ | ⟨_, _, h2, h3⟩ | ⟨_, _, h2, h3⟩ <;> simp [h2] <;> omega
  exact ⟨hw.1, hw.2.1, hw.2.2, hr.1, hr.2.1, hr.2.2⟩

/-- no response without a request: a pending B (R) response implies an unanswered completed write (read) request -/
theorem C20.no_response_without_request (cfg : Cfg) (ins : List In) (s : State) (n : Cnt) (hrun : runCnt cfg ins = (s, n)) :
    (s.core.wr.bvalid = true → n.b < n.aw ∧ n.b < n.w) ∧ (s.core.rd.rvalid = true → n.r < n.ar) := by
  have h := C20.one_response_per_request cfg ins s n hrun
  constructor
  · intro hb
    have := h.2.2.1.mp hb
    omega
  · intro hv
    have := h.2.2.2.2.2.mp hv
    omega

/-- ... and the response does come: the clock in which the second of AW / W arrives raises BVALID, the clock that
    accepts AR raises RVALID, and a pending response is retired by the first clock with READY -/
theorem C20.response_follows_request (cfg : Cfg) (ins : List In) (i : In) (hr : i.rst = false) :
    let s := (runCnt cfg ins).1
    (wrDone s.core i = true → (step cfg s i).core.wr.bvalid = true) ∧
    (rdDone s.core i = true → (step cfg s i).core.rd.rvalid = true) ∧
    (s.core.wr.bvalid = true → i.bready = true → (step cfg s i).core.wr.bvalid = false ∧ (step cfg s i).core.wr.awready = true) ∧
    (s.core.rd.rvalid = true → i.rready = true → (step cfg s i).core.rd.rvalid = false ∧ (step cfg s i).core.rd.arready = true) := by
  intro s
  have hinv := C20.handshake_invariant cfg ins
  refine ⟨?_, ?_, ?_, ?_⟩
  · intro hd
    simp only [wrDone, Bool.and_eq_true, beq_iff_eq, Bool.or_eq_true] at hd
    obtain ⟨⟨hs, ha⟩, hdd⟩ := hd
    have ha' : (s.core.wr.aL || i.awvalid) = true := by simpa using ha
    have hd' : (s.core.wr.dL || i.wvalid) = true := by simpa using hdd
    simp [step, hr, coreStep, wrStep, hs, ha', hd']
  · intro hd
    simp only [rdDone, Bool.and_eq_true, beq_iff_eq] at hd
    simp [step, hr, coreStep, rdStep, hd.1, hd.2]
  · intro hb hrdy
    rcases hinv.1 with ⟨_, _, _, h3, _⟩ | ⟨_, _, _, h3, _⟩ | ⟨hs, _⟩
    · simp [s, h3] at hb
    · simp [s, h3] at hb
    · simp [step, hr, coreStep, wrStep, hs, hrdy, s]
  · intro hv hrdy
    rcases hinv.2 with ⟨_, _, h2, _⟩ | ⟨_, _, h2, _⟩ | ⟨hs, _⟩
    · simp [s, h2] at hv
    · simp [s, h2] at hv
    · simp [step, hr, coreStep, rdStep, hs, hrdy, s]

/-- non-vacuity: a schedule with W before AW, a stalled B channel and an overlapping read -/
example :
    let cfg : Cfg := { aw := 6, regs := [⟨.memWord, 0, 4, true, true, 0, 0, 0, 0, false, false, false, false, 0⟩] }
    let ins : List In := [{}, { wvalid := true, wdata := 7, wstrb := 1 }, { arvalid := true }, { awvalid := true }, {}]
    (runCnt cfg ins).1.core.wr.bvalid = true ∧ (runCnt cfg ins).2 = ⟨1, 1, 0, 1, 0⟩ ∧
    (runCnt cfg ins).1.bank = [{ mem := 7 }] := by decide

/-! ## data path -/

/-- a write to a `MemWord` updates exactly the strobed bytes: after the clock in which write request completes and
    the dispatch selects register j, bit b of the word is the written bit if byte b/8 is strobed and the old bit
    otherwise (for every state, every timing of AW / W, every strobe pattern) -/
theorem C20.write_updates_exactly_strobed_bytes (cfg : Cfg) (st : State) (i : In) (hr : i.rst = false) (j : Nat) (s : RegSt)
    (hsel : wrSel cfg st.core i = some j) (hs : st.bank[j]? = some s)
    (hk : (cfg.regs.getD j dfltReg).kind = .memWord) :
    ∃ s', (step cfg st i).bank[j]? = some s' ∧
      ∀ b, b < 32 → s'.mem.testBit b =
        (if strobed (wrStrb st.core.wr i) b then (wrData st.core.wr i).testBit b else s.mem.testBit b) := by
  refine ⟨_, bank_step_get cfg st i hr j s hs, ?_⟩
  intro b hb
  simp only [hsel, beq_self_eq_true]
  exact regStep_memWord _ _ _ _ _ _ _ _ _ hk b hb

example :
    let cfg : Cfg := { aw := 6, regs := [⟨.memWord, 8, 4, true, true, 0, 0, 0, 0, false, false, false, false, 0⟩] }
    let st : State := { core := { wr := { ws := 1, awready := true, wready := true } }, bank := [{ mem := 0x11223344 }] }
    let i : In := { awvalid := true, awaddr := 9, wvalid := true, wdata := 0xAABBCCDD, wstrb := 0b0101 }
    wrSel cfg st.core i = some 0 ∧ (step cfg st i).bank = [{ mem := 0x11BB33DD }] := by decide

/-- a write to a field `Register` (behaviour after fixes/C20-register-write-mask.patch): every `MemField` bit in a
    strobed byte takes the written bit, every `MemField` bit in a byte that is not strobed keeps its value -/
theorem C20.register_write_updates_exactly_strobed_bytes (cfg : Cfg) (st : State) (i : In) (hr : i.rst = false) (j : Nat)
    (s : RegSt) (hfix : cfg.fixed = true)
    (hsel : wrSel cfg st.core i = some j) (hs : st.bank[j]? = some s)
    (hk : (cfg.regs.getD j dfltReg).kind = .register) (hdis : disjointMasks (cfg.regs.getD j dfltReg)) :
    ∃ s', (step cfg st i).bank[j]? = some s' ∧
      ∀ b, b < 32 → (cfg.regs.getD j dfltReg).memMask.testBit b = true → s'.mem.testBit b =
        (if strobed (wrStrb st.core.wr i) b then (wrData st.core.wr i).testBit b else s.mem.testBit b) := by
  refine ⟨_, bank_step_get cfg st i hr j s hs, ?_⟩
  intro b hb hm
  simp only [hsel, beq_self_eq_true, hfix]
  exact regStep_register_mem _ _ _ _ _ _ _ _ hk hdis b hb hm

/-- ... and a `FlagField` is set exactly by a strobed 1 (a flag that is not being cleared by the hardware in the
    same clock): is_set' = is_set ∨ (strobed ∧ written bit) -/
theorem C20.register_write_sets_exactly_strobed_flags (cfg : Cfg) (st : State) (i : In) (hr : i.rst = false) (j : Nat)
    (s : RegSt) (hfix : cfg.fixed = true)
    (hsel : wrSel cfg st.core i = some j) (hs : st.bank[j]? = some s)
    (hk : (cfg.regs.getD j dfltReg).kind = .register) (hdis : disjointMasks (cfg.regs.getD j dfltReg)) :
    ∃ s', (step cfg st i).bank[j]? = some s' ∧
      ∀ b, b < 32 → (cfg.regs.getD j dfltReg).flagMask.testBit b = true → (i.hw.getD j {}).clr.testBit b = false →
        (s'.tx ^^^ s'.rx).testBit b =
          ((s.tx ^^^ s.rx).testBit b || (strobed (wrStrb st.core.wr i) b && (wrData st.core.wr i).testBit b)) := by
  refine ⟨_, bank_step_get cfg st i hr j s hs, ?_⟩
  intro b hb hm hc
  simp only [hsel, beq_self_eq_true, hfix]
  exact regStep_register_flag _ _ _ _ _ _ _ _ hk hdis b hb hm hc

/-- a write to a `reg32.Output` (a hardware signal occupying the bits `memMask` of the word, any width / offset /
    padding): every signal bit in a strobed byte takes the written bit, every signal bit in a byte that is not
    strobed keeps its value - in particular an empty strobe leaves the output port unchanged -/
theorem C20.output_write_updates_exactly_strobed_bytes (cfg : Cfg) (st : State) (i : In) (hr : i.rst = false) (j : Nat)
    (s : RegSt) (hsel : wrSel cfg st.core i = some j) (hs : st.bank[j]? = some s)
    (hk : (cfg.regs.getD j dfltReg).kind = .output) :
    ∃ s', (step cfg st i).bank[j]? = some s' ∧
      ∀ b, b < 32 → (cfg.regs.getD j dfltReg).memMask.testBit b = true → s'.mem.testBit b =
        (if strobed (wrStrb st.core.wr i) b then (wrData st.core.wr i).testBit b else s.mem.testBit b) := by
  refine ⟨_, bank_step_get cfg st i hr j s hs, ?_⟩
  intro b hb hm
  simp only [hsel, beq_self_eq_true]
  exact regStep_output _ _ _ _ _ _ _ _ _ hk b hb hm

example :
    let cfg : Cfg := { aw := 6, regs := [⟨.output, 0, 4, false, true, 0, 0xFF, 0, 0, false, false, false, false, 0⟩] }
    let st : State := { core := { wr := { ws := 1, awready := true, wready := true } }, bank := [{ mem := 0xA5 }] }
    let i : In := { awvalid := true, awaddr := 0, wvalid := true, wdata := 0xFFFFFFFF, wstrb := 0b0010 }
    wrSel cfg st.core i = some 0 ∧ (step cfg st i).bank = [{ mem := 0xA5 }] := by decide

/-- a write to an inline `reg32.Memory`: in the addressed word exactly the strobed bytes take the written bits, every
    other word keeps its content -/
theorem C20.memory_write_updates_exactly_strobed_bytes (cfg : Cfg) (st : State) (i : In) (hr : i.rst = false) (j : Nat)
    (s : RegSt) (hsel : wrSel cfg st.core i = some j) (hs : st.bank[j]? = some s)
    (hk : (cfg.regs.getD j dfltReg).kind = .memory) :
    ∃ s', (step cfg st i).bank[j]? = some s' ∧
      ∀ w b, w < s.words.length → b < 32 → (s'.words.getD w 0).testBit b =
        (if w = relAddr cfg.aw (cfg.regs.getD j dfltReg) (wrAddr st.core.wr i) / 4 then
           (if strobed (wrStrb st.core.wr i) b then (wrData st.core.wr i).testBit b else (s.words.getD w 0).testBit b)
         else (s.words.getD w 0).testBit b) := by
  refine ⟨_, bank_step_get cfg st i hr j s hs, ?_⟩
  intro w b hw hb
  simp only [hsel, beq_self_eq_true]
  exact regStep_memory _ _ _ _ _ _ _ _ _ hk w b hb hw

/-- THE DEFECT of the unpatched code (`Register._basic_write_` never uses `mask`): with `fixed = false` a write
    with strobe 0001 also overwrites the MemField bits of byte 1 -/
theorem C20.register_write_respects_strobes_fails_at :
    let cfg : Cfg := { aw := 6, fixed := false,
                       regs := [⟨.register, 0, 4, true, true, 0, 0xFFFF, 0, 0, false, false, false, false, 0⟩] }
    let st : State := { core := { wr := { ws := 1, awready := true, wready := true } }, bank := [{ mem := 0x1234 }] }
    let i : In := { awvalid := true, awaddr := 0, wvalid := true, wdata := 0xABCD, wstrb := 0b0001 }
    wrSel cfg st.core i = some 0 ∧ strobed i.wstrb 8 = false ∧
    ((step cfg st i).bank.getD 0 {}).mem = 0xABCD ∧
    ((step { cfg with fixed := true } st i).bank.getD 0 {}).mem = 0x12CD := by decide

/-- an access that does not select register j leaves its software-written content untouched: in particular an
    access to an unmapped address (`wrSel = none`) changes no register, and a write to register k ≠ j does not
    change register j; reads never change storage -/
theorem C20.unmapped_access_changes_nothing (cfg : Cfg) (st : State) (i : In) (hr : i.rst = false) (j : Nat) (s : RegSt)
    (hsel : wrSel cfg st.core i ≠ some j) (hs : st.bank[j]? = some s) :
    ∃ s', (step cfg st i).bank[j]? = some s' ∧ s'.mem = s.mem ∧ s'.tx = s.tx ∧ s'.aux = s.aux ∧ s'.words = s.words := by
  refine ⟨_, bank_step_get cfg st i hr j s hs, ?_⟩
  have : (wrSel cfg st.core i == some j) = false := by simpa using hsel
  rw [this]
  exact regStep_not_selected _ _ _ _ _ _ _ _ _

/-- ... where an address outside every writable register selects nothing, whatever the timing -/
theorem C20.unmapped_selects_nothing (cfg : Cfg) (c : Core) (i : In) (hpos : ∀ r ∈ cfg.regs, 0 < r.count)
    (hun : ∀ r ∈ cfg.regs, r.writable = true → ¬ (r.offset ≤ wrAddr c.wr i ∧ wrAddr c.wr i < r.offset + r.count)) :
    wrSel cfg c i = none := by
  unfold wrSel
  split
  · unfold selectIdx
    rw [List.findIdx?_eq_none_iff]
    intro r hrm
    cases hp : r.writable
    · simp [hp]
    · have := hun r hrm hp
      cases hc : containsAddr r.offset r.count (wrAddr c.wr i)
      · simp
      · exact absurd ((containsAddr_iff _ _ _ (hpos r hrm)).mp hc) this
  · rfl

/-- a read returns the addressed register's current value: the clock that accepts AR latches into RDATA the value
    `_basic_read_` yields in that very clock (current storage, current hardware-driven fields, current flags) for
    the register the dispatch selects, and `Null` when no readable register is addressed -/
theorem C20.read_returns_current (cfg : Cfg) (st : State) (i : In) (hr : i.rst = false) (hd : rdDone st.core i = true) :
    (step cfg st i).core.rd.rvalid = true ∧
    (step cfg st i).core.rd.rdata =
      (match selectIdx (·.readable) cfg.regs i.araddr with
       | none => 0
       | some j => readResult cfg.aw (cfg.regs.getD j dfltReg) (st.bank.getD j {}) (i.hw.getD j {}) i.araddr) := by
  have hd' := hd
  simp only [rdDone, Bool.and_eq_true, beq_iff_eq] at hd'
  refine ⟨by simp [step, hr, coreStep, rdStep, hd'.1, hd'.2], ?_⟩
  simp only [step, hr, coreStep, rdStep, hd'.1, hd'.2, rdValue, rdSel, hd, Bool.false_eq_true, if_false, if_true,
    beq_self_eq_true, Nat.one_ne_zero, beq_iff_eq]
  split <;> simp_all

/-- notifications occur exactly when the corresponding access completes: the `PushOnNotify.Write` (`.Read`) bit of
    register j is high after a clock iff that clock completed a write (accepted a read) that selects j, and a
    `FlagOnNotify` that is not being cleared is set by such a clock -/
theorem C20.notification_when_access_completes (cfg : Cfg) (st : State) (i : In) (hr : i.rst = false) (j : Nat) (s : RegSt)
    (hs : st.bank[j]? = some s) (hk : (cfg.regs.getD j dfltReg).kind = .register) :
    ∃ s', (step cfg st i).bank[j]? = some s' ∧
      (s'.pW = (decide (wrSel cfg st.core i = some j) && (cfg.regs.getD j dfltReg).pushW)) ∧
      (s'.pR = (decide (rdSel cfg st.core i = some j) && (cfg.regs.getD j dfltReg).pushR)) ∧
      (wrSel cfg st.core i = some j → (cfg.regs.getD j dfltReg).flagW = true → (i.hw.getD j {}).nclrW = false →
         s'.fWtx ≠ s'.fWrx) ∧
      (rdSel cfg st.core i = some j → (cfg.regs.getD j dfltReg).flagR = true → (i.hw.getD j {}).nclrR = false →
         s'.fRtx ≠ s'.fRrx) ∧
      (wrSel cfg st.core i ≠ some j → s'.fWtx = s.fWtx) ∧ (rdSel cfg st.core i ≠ some j → s'.fRtx = s.fRtx) := by
  refine ⟨_, bank_step_get cfg st i hr j s hs, ?_⟩
  have h := regStep_notify cfg.fixed cfg.aw (cfg.regs.getD j dfltReg) s (i.hw.getD j {})
    (rdSel cfg st.core i == some j) (wrSel cfg st.core i == some j)
    (wrAddr st.core.wr i) (wrData st.core.wr i) (wrStrb st.core.wr i) hk
  simp only [beq_iff_eq, beq_eq_false_iff_ne, ne_eq] at h
  obtain ⟨h1, h2, h3, h4, h5, h6⟩ := h
  refine ⟨?_, ?_, h3, h4, h5, h6⟩
  · rw [h1]; cases hw : (wrSel cfg st.core i == some j) <;> simp_all
  · rw [h2]; cases hw : (rdSel cfg st.core i == some j) <;> simp_all

example :
    let cfg : Cfg := { aw := 6, regs := [⟨.register, 4, 4, true, true, 0, 0xFF, 0, 0, true, true, false, true, 0⟩] }
    let st : State := { core := { wr := { ws := 1, awready := false, wready := true, aL := true, addr := 4 } }, bank := [{}] }
    let i : In := { wvalid := true, wdata := 0x55, wstrb := 0 }
    wrSel cfg st.core i = some 0 ∧ (step cfg st i).bank = [{ pW := true, fWtx := true }] := by decide
