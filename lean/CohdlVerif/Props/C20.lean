/-! C20 - property theorems (declared with their full name `C20.<name>`; helper lemmas go to Lemmas/) -/
