import CohdlVerif.Lemmas.C15Lemmas

/-!
  C15 - property theorems: `std.SyncFlag` / `std.Mailbox` hand over every event exactly once.

  Model: `CohdlVerif.C15` (Model/C15.lean): the toggle registers `_set_tx .. _tx` (tx_delay + 1 of them, shifted
  by the CONSUMER context) and `_set_rx .. _rx` (rx_delay + 1, shifted by the PRODUCER context), `set`, `clear`,
  the three context-dependent views of `is_set`, `Mailbox.send` / `receive`, a nondeterministic producer and
  consumer, and ASYNCHRONOUS INTERLEAVING: every step ticks the producer context, the consumer context, both
  or none (`In.tp`, `In.tc`) - two clock domains with an arbitrary, varying rate ratio.  Analog metastability
  is not modelled.  Specification = the log `sent` of accepted sends (issued while the producer observed the
  flag clear) and the log `rcvd` of payloads taken by the consumer.

  All theorems hold for ALL delays (`txd`, `rxd` arbitrary), ALL schedules (`ins : List In` arbitrary: any
  interleaving, any attempts - also attempts while the flag is set -, any willingness) and both producer
  styles (`g`: attempt guarded by `if is_clear()` or not).  The invariant (`Reach`, Lemmas/C15Lemmas.lean):
  the two delay lines together contain at most one toggle edge, and its position determines who sees the
  flag set and how the two logs differ.
-/
open CohdlVerif.C15

/-- the invariant holds initially and is preserved by every step: every state reachable under any schedule
    has one of the four shapes of `Reach` -/
theorem C15.reachable_shape (g : Bool) (txd rxd : Nat) (ins : List In) :
    Reach txd rxd (run g (St.init txd rxd) ins) :=
  reach_run txd rxd g ins _ (reach_init txd rxd)

/-- C15, safety part, full strength: after ANY schedule, for ANY delays, the payloads taken by the consumer
    are exactly the first `rcvd.length` accepted sends - same order, same values, nothing twice, nothing
    skipped - and at most one accepted send is still under way. -/
theorem C15.exactly_once (g : Bool) (txd rxd : Nat) (ins : List In) :
    (run g (St.init txd rxd) ins).rcvd =
      ((run g (St.init txd rxd) ins).sent.take (run g (St.init txd rxd) ins).rcvd.length).map some ∧
    (run g (St.init txd rxd) ins).rcvd.length ≤ (run g (St.init txd rxd) ins).sent.length ∧
    (run g (St.init txd rxd) ins).sent.length ≤ (run g (St.init txd rxd) ins).rcvd.length + 1 :=
  exactly_once_of_reach txd rxd _ (C15.reachable_shape g txd rxd ins)

/-- a `set()` / `send(v)` issued while the producer observes the flag set has no effect at all: the next
    state (flag registers, payload register, logs) is the one reached without the attempt -/
theorem C15.set_while_set_noop (g : Bool) (txd rxd : Nat) (ins : List In) (tp tc w : Bool) (v : Nat)
    (hp : (run g (St.init txd rxd) ins).f.pSet = true) :
    step g (run g (St.init txd rxd) ins) ⟨tp, some v, tc, w⟩ =
      step g (run g (St.init txd rxd) ins) ⟨tp, none, tc, w⟩ :=
  set_noop_of_reach txd rxd g _ (C15.reachable_shape g txd rxd ins) tp tc w v hp

/-- the same on the registers of the flag alone, in ANY state (reachable or not) -/
theorem C15.flag_set_while_set_noop (f : Flag) (hne : f.txc ≠ []) (tp tc dc : Bool) (hp : f.pSet = true) :
    f.step tp true tc dc = f.step tp false tc dc := by
  have hv : (!f.rx) = hd f.txc := by
    simp only [Flag.pSet, Flag.setTx] at hp
    cases h1 : hd f.txc <;> cases h2 : f.rx <;> simp_all
  have e1 : setHead (!f.rx) f.txc = f.txc := by rw [hv]; exact setHead_same _ hne
  have e2 : setHead (!f.rx) (shiftTail f.txc) = shiftTail f.txc := by
    rw [hv, ← hd_shiftTail]; exact setHead_same _ (shiftTail_ne_nil _ hne)
  cases tp <;> cases tc <;> simp [Flag.step, e1, e2]

/-- while an accepted event has not been taken and acknowledged the producer keeps observing the flag set:
    whenever the producer observes clear, everything it ever sent has been received -/
theorem C15.producer_sees_clear_only_after_consumer_cleared (g : Bool) (txd rxd : Nat) (ins : List In)
    (hp : (run g (St.init txd rxd) ins).f.pSet = false) :
    (run g (St.init txd rxd) ins).rcvd = (run g (St.init txd rxd) ins).sent.map some :=
  clear_of_reach txd rxd _ (C15.reachable_shape g txd rxd ins) hp

/-- the consumer observes the flag set only while an accepted event is still unconsumed, and the mailbox then
    holds the payload of exactly that event -/
theorem C15.no_re_observation (g : Bool) (txd rxd : Nat) (ins : List In)
    (hc : (run g (St.init txd rxd) ins).f.cSet = true) :
    ∃ d, (run g (St.init txd rxd) ins).data = some d ∧
      (run g (St.init txd rxd) ins).sent = ((run g (St.init txd rxd) ins).rcvd.filterMap id) ++ [d] :=
  no_reobs_of_reach txd rxd _ (C15.reachable_shape g txd rxd ins) hc

/-- ... and once the consumer has taken the event it does not observe it again: directly after the take the
    consumer's view is clear, every accepted send is consumed, and the latched payload is the mailbox content -/
theorem C15.no_re_observation_after_take (g : Bool) (txd rxd : Nat) (ins : List In) (i : In)
    (ht : takes (run g (St.init txd rxd) ins) i = true) :
    (step g (run g (St.init txd rxd) ins) i).f.cSet = false ∧
    (step g (run g (St.init txd rxd) ins) i).rcvd = (step g (run g (St.init txd rxd) ins) i).sent.map some ∧
    (step g (run g (St.init txd rxd) ins) i).rxData = (run g (St.init txd rxd) ins).data :=
  after_take_of_reach txd rxd g _ (C15.reachable_shape g txd rxd ins) i ht

/-- C15, liveness part (stated separately): from any reachable state, if the consumer context is activated at
    least tx_delay + 1 more times and is willing in each of its activations, then every send accepted so far
    has been received - whatever the producer does and however the activations of the two contexts interleave -/
theorem C15.exactly_once_liveness (g : Bool) (txd rxd : Nat) (pre ins : List In)
    (hw : allWilling ins) (ht : txd + 1 ≤ ticksC ins) :
    (run g (St.init txd rxd) pre).sent.length ≤ (run g (run g (St.init txd rxd) pre) ins).rcvd.length :=
  live_of_reach txd rxd g _ (C15.reachable_shape g txd rxd pre) ins hw ht

/-- non-vacuity of the liveness hypotheses: tx_delay 1, an accepted send, then two willing consumer activations
    interleaved with producer-only steps -/
example : allWilling [⟨true, none, false, false⟩, ⟨false, none, true, true⟩, ⟨true, some 3, true, true⟩] ∧
    1 + 1 ≤ ticksC [⟨true, none, false, false⟩, ⟨false, none, true, true⟩, ⟨true, some 3, true, true⟩] := by
  constructor
  · intro i hi; simp at hi; rcases hi with rfl | rfl | rfl <;> simp
  · decide

/-- non-vacuity: tx_delay 2, rx_delay 1, consumer three times slower than the producer, an attempt while the
    flag is set in between: payloads 7 and 9 are accepted, 8 is not, 7 has been received -/
example :
    let s := run false (St.init 2 1)
      [⟨true, some 7, false, true⟩, ⟨true, some 8, false, true⟩, ⟨true, none, true, true⟩,
       ⟨true, none, true, true⟩, ⟨false, none, true, true⟩, ⟨true, none, true, true⟩,
       ⟨true, none, false, true⟩, ⟨true, some 9, false, true⟩]
    s.sent = [7, 9] ∧ s.rcvd = [some 7] ∧ s.f.pSet = true ∧ s.f.cSet = false := by decide
