/-! C15 - property theorems (declared with their full name `C15.<name>`; helper lemmas go to Lemmas/) -/
