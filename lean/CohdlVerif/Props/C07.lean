/-! C07 - property theorems (declared with their full name `C07.<name>`; helper lemmas go to Lemmas/) -/
