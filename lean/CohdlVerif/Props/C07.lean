import CohdlVerif.Lemmas.C07Lemmas

/-! C07 - property theorems (declared with their full name `C07.<name>`; helper lemmas are in Lemmas/C07Lemmas).

  Model (Model/C07.lean): `checkUsage fixed d` mirrors the usage check of `EntityTemplate.__init__`
  (`fixed = true`: the tree with fixes/C07-*.patch, `fixed = false`: the tree before), `accept` adds the front-end
  rules, `emit d` lists the driver units the back end prints (process per sequential context, concurrent block
  per concurrent context, the always block of a sequential context as a separate concurrent block, one port map
  per instance), `drivers e r` / `users e r` count the units that drive / reference root `r`.

  * `C07.checkUsage_ok_iff`          accepted <-> no input port written / driven, no two distinct write occurrences of
                                     one root by different writers (or involving an instance output), no variable /
                                     temporary used by two different contexts - for ALL designs (both mirrors).
  * `C07.accepted_unique_driver`     (fixed tree) accepted -> every root has <= 1 driver unit in the emitted architecture.
  * `C07.accepted_unique_driver_fails_at`  the same statement is FALSE for the mirror of the unpatched tree (witness:
                                     a signal assigned in `with cohdl.always:` and in the body of the same context).
  * `C07.variables_stay_in_process`  (fixed tree) accepted -> a variable is referenced by <= 1 unit, and that unit is the
                                     process of a sequential context (never a concurrent block, always block, port map).
-/
open CohdlVerif.C07

namespace CohdlVerif.C07

/-- every write occurrence `(root, writer)`: accesses of the contexts, then instance outputs -/
def writeEvents (fixed : Bool) (d : Design) : List (Nat × Owner) :=
  wEv (ctxsEvents fixed 0 d.ctxs) ++ (instOuts 0 d.insts).map (fun e => (e.2, e.1))

/-- every occurrence `(root, user)` of a variable / temporary in a context -/
def useEvents (fixed : Bool) (d : Design) : List (Nat × Owner) :=
  uEv d.kinds (ctxsEvents fixed 0 d.ctxs)

/-- two distinct write occurrences are compatible: different roots, or the same writer which is not an instance
    output (every instance output counts as a driver of its own) -/
def Compatible (a b : Nat × Owner) : Prop :=
  a.1 = b.1 → a.2 = b.2 ∧ a.2.isInst = false ∧ b.2.isInst = false

/-- SPEC (the first sentence of the property on the abstract design) -/
structure UsageOk (fixed : Bool) (d : Design) : Prop where
  /-- no input port is written by a context -/
  noInputWritten : ∀ e ∈ ctxsEvents fixed 0 d.ctxs, e.2.write = true → kindOf d.kinds e.2.root ≠ .portIn
  /-- no input port is the actual of an instance output (checked by the patched tree only) -/
  noInputDriven : fixed = true → ∀ e ∈ instOuts 0 d.insts, kindOf d.kinds e.2 ≠ .portIn
  /-- no root (whatever slice / element) is written from two contexts / instance outputs -/
  singleWriter : (writeEvents fixed d).Pairwise Compatible
  /-- no variable / temporary is used by two contexts -/
  singleUser : (useEvents fixed d).Pairwise (fun a b => a.1 = b.1 → a.2 = b.2)

end CohdlVerif.C07

theorem CohdlVerif.C07.noConf_iff_compatible (a b : Nat × Owner) : NoConf a b ↔ Compatible a b := by
  unfold NoConf Compatible
  constructor
  · intro h hk
    obtain ⟨h1, h2⟩ := h hk
    exact ⟨h1, h1 ▸ h2, h2⟩
  · intro h hk
    obtain ⟨h1, _, h3⟩ := h hk
    exact ⟨h1, h3⟩

theorem CohdlVerif.C07.mem_uEv_owner (kinds : List Kind) (evs : List (Owner × Access)) (h : ∀ e ∈ evs, e.1.isInst = false) :
    ∀ x ∈ uEv kinds evs, x.2.isInst = false := by
  intro x hx
  simp only [uEv, List.mem_filterMap] at hx
  obtain ⟨e, he, hx⟩ := hx
  split at hx
  · cases hx; exact h e he
  · cases hx

theorem C07.checkUsage_ok_iff_gen (fixed : Bool) (d : Design) : checkUsage fixed d = true ↔ UsageOk fixed d := by
  have hown := ctxsEvents_owner fixed d.ctxs 0
  have hinst := instOuts_owner d.insts 0
  unfold checkUsage
  constructor
  · intro h
    cases hc : checkEvents d.kinds ⟨[], []⟩ (ctxsEvents fixed 0 d.ctxs) with
    | none => simp [hc] at h
    | some st =>
      simp only [hc] at h
      obtain ⟨hb, hw, hu⟩ := (checkEvents_some d.kinds _ ⟨[], []⟩ st hown).1 hc
      rw [checkInstOuts_eq fixed d.kinds _ _ hinst] at h
      by_cases hib : (fixed && instInputBad d.kinds (instOuts 0 d.insts)) = true
      · simp [hib] at h
      · simp only [hib] at h
        refine ⟨?_, ?_, ?_, ?_⟩
        · intro e he hwr hk
          simp only [inputBad, List.any_eq_false] at hb
          exact hb e he (by simp [hwr, hk])
        · intro hf e he hk
          apply hib
          simp only [hf, instInputBad, Bool.true_and, List.any_eq_true]
          exact ⟨e, he, by simp [hk]⟩
        · have : (ownFold [] (writeEvents fixed d)).isSome = true := by
            simp only [writeEvents, ownFold_append]
            simp only at hw
            rw [hw]
            exact h
          exact ((ownFold_isSome _ _).1 this).2.imp (fun hab => (noConf_iff_compatible _ _).1 hab)
        · have : (ownFold [] (useEvents fixed d)).isSome = true := by
            simp only [useEvents]; simp only at hu; rw [hu]; rfl
          exact ((ownFold_isSome _ _).1 this).2.imp (fun hab hk => (hab hk).1)
  · rintro ⟨h1, h2, h3, h4⟩
    have hW : (ownFold [] (writeEvents fixed d)).isSome = true :=
      (ownFold_isSome _ _).2 ⟨by intro e _ o ho; simp at ho,
        h3.imp (fun hab => (noConf_iff_compatible _ _).2 hab)⟩
    have hU : (ownFold [] (useEvents fixed d)).isSome = true := by
      refine (ownFold_isSome _ _).2 ⟨by intro e _ o ho; simp at ho, ?_⟩
      refine List.Pairwise.imp_of_mem ?_ h4
      intro a b _ hb hab hk
      exact ⟨hab hk, mem_uEv_owner d.kinds _ hown b hb⟩
    simp only [writeEvents, ownFold_append] at hW
    cases hw : ownFold [] (wEv (ctxsEvents fixed 0 d.ctxs)) with
    | none => simp [hw] at hW
    | some w =>
      simp only [hw, Option.bind_some] at hW
      cases hu : ownFold [] (uEv d.kinds (ctxsEvents fixed 0 d.ctxs)) with
      | none => simp [useEvents, hu] at hU
      | some u =>
        have hb : inputBad d.kinds (ctxsEvents fixed 0 d.ctxs) = false := by
          simp only [inputBad, List.any_eq_false]
          intro e he hbad
          simp only [Bool.and_eq_true, beq_iff_eq] at hbad
          exact h1 e he hbad.1 hbad.2
        have hc := (checkEvents_some d.kinds _ ⟨[], []⟩ ⟨w, u⟩ hown).2 ⟨hb, hw, hu⟩
        simp only [hc]
        rw [checkInstOuts_eq fixed d.kinds _ _ hinst]
        have hib : (fixed && instInputBad d.kinds (instOuts 0 d.insts)) = false := by
          cases fixed
          · rfl
          · simp only [Bool.true_and, instInputBad, List.any_eq_false]
            intro e he hk
            exact h2 rfl e he (by simpa using hk)
        simp only [hib, Bool.false_eq_true, if_false]
        exact hW

/-- the usage check of the patched tree accepts a design exactly when the property's first sentence allows it -/
theorem C07.checkUsage_ok_iff (d : Design) : checkUsage true d = true ↔ UsageOk true d :=
  C07.checkUsage_ok_iff_gen true d

-- non-vacuity: a design with two contexts, an instance and a variable is accepted ...
example : checkUsage true ⟨[.signal, .portIn, .portOut, .variable],
    [⟨.seq, [⟨1, .read, false⟩, ⟨0, .write, false⟩, ⟨3, .write, false⟩, ⟨3, .read, false⟩]⟩, ⟨.conc, [⟨0, .read, false⟩]⟩],
    [⟨[0], [2]⟩]⟩ = true := by decide
-- ... and each clause rejects: two contexts writing slices of root 0; an input port written; a variable in two
-- contexts; an instance output onto a signal written by a context
example : checkUsage true ⟨[.signal], [⟨.seq, [⟨0, .write, false⟩]⟩, ⟨.conc, [⟨0, .write, false⟩]⟩], []⟩ = false := by decide
example : checkUsage true ⟨[.portIn], [⟨.seq, [⟨0, .write, false⟩]⟩], []⟩ = false := by decide
example : checkUsage true ⟨[.variable], [⟨.seq, [⟨0, .write, false⟩]⟩, ⟨.seq, [⟨0, .read, false⟩]⟩], []⟩ = false := by decide
example : checkUsage true ⟨[.signal], [⟨.seq, [⟨0, .write, false⟩]⟩], [⟨[], [0]⟩]⟩ = false := by decide

/-! ### consequence: unique drivers in the emitted architecture -/

theorem C07.usageOk_unique_driver (d : Design) (h : UsageOk true d) (r : Nat) : drivers (emit d) r ≤ 1 := by
  unfold drivers
  apply countP_le_one
  refine List.Pairwise.imp_of_mem ?_ (emit_pairwise d)
  intro u v hu hv hne hboth
  apply hne
  simp only [List.contains_eq_mem, decide_eq_true_eq] at hboth
  have hW : ∀ w ∈ emit d, r ∈ w.targets → (r, w.owner) ∈ writeEvents true d := by
    intro w hw hr
    simp only [emit, List.mem_append] at hw
    simp only [writeEvents, List.mem_append, List.mem_map]
    rcases hw with hw | hw
    · exact Or.inl (emitCtxs_target _ _ w hw r hr)
    · exact Or.inr ⟨(w.owner, r), emitInsts_target _ _ w hw r hr, rfl⟩
  have hsame := pairwise_same_owner (h.singleWriter.imp (fun hab hk => (hab hk).1))
  exact hsame _ (hW u hu hboth.1) _ (hW v hv hboth.2) rfl

/-- FULL STATEMENT (patched tree): an accepted design has at most one driver unit (process / concurrent block /
    always block / instance port map) per root in the emitted architecture -/
theorem C07.accepted_unique_driver (d : Design) (h : checkUsage true d = true) :
    ∀ r, drivers (emit d) r ≤ 1 :=
  fun r => C07.usageOk_unique_driver d ((C07.checkUsage_ok_iff d).1 h) r

-- non-vacuity: an accepted design in which always block, body, a concurrent context and an instance each drive a root
example : checkUsage true ⟨[.signal, .signal, .signal, .signal, .portIn],
    [⟨.seq, [⟨0, .write, true⟩, ⟨1, .write, false⟩, ⟨0, .read, false⟩]⟩, ⟨.conc, [⟨2, .write, false⟩]⟩], [⟨[4], [3]⟩]⟩ = true := by decide

/-- the witness of the defect: root 0 is assigned in `with cohdl.always:` and in the body of the same
    sequential context (design_sketches/probes/c07_always_double_driver.py) -/
def CohdlVerif.C07.alwaysWitness : Design :=
  ⟨[.signal], [⟨.seq, [⟨0, .write, true⟩, ⟨0, .write, false⟩]⟩], []⟩

/-- the statement `accepted -> unique driver` is FALSE for the mirror of the tree before
    fixes/C07-always-block-separate-driver.patch: the witness is accepted (front-end rules and usage check) and
    root 0 has two driver units -/
theorem C07.accepted_unique_driver_fails_at :
    accept false alwaysWitness = true ∧ drivers (emit alwaysWitness) 0 = 2 ∧ accept true alwaysWitness = false := by
  decide

/-- what does hold on the unpatched tree: the design is accepted by the patched check as well (i.e. no root is
    written both in the always block and in the body of one context, no variable used in both, no input port
    driven by an instance) -> unique drivers -/
theorem C07.accepted_unique_driver_partial (d : Design) (_h : checkUsage false d = true)
    (hsep : checkUsage true d = true) : ∀ r, drivers (emit d) r ≤ 1 :=
  C07.accepted_unique_driver d hsep

example : checkUsage false ⟨[.signal, .signal], [⟨.seq, [⟨0, .write, true⟩, ⟨1, .write, false⟩]⟩], []⟩ = true
    ∧ checkUsage true ⟨[.signal, .signal], [⟨.seq, [⟨0, .write, true⟩, ⟨1, .write, false⟩]⟩], []⟩ = true := by decide

/-! ### variables never leave their process -/

theorem C07.variables_stay_in_process (d : Design) (h : accept true d = true) (r : Nat)
    (hr : kindOf d.kinds r = .variable) :
    users (emit d) r ≤ 1
    ∧ (∀ u ∈ emit d, r ∈ u.refs → ∃ i, u.owner = .ctx i)
    ∧ (∀ c ∈ d.ctxs, c.kind = .conc → ∀ a ∈ c.accs, a.root ≠ r) := by
  simp only [accept, Bool.and_eq_true] at h
  obtain ⟨hf, hc⟩ := h
  have hok := (C07.checkUsage_ok_iff d).1 hc
  simp only [frontend, Bool.and_eq_true, List.all_eq_true] at hf
  obtain ⟨⟨hfc, hfi⟩, _⟩ := hf
  have hproc : ∀ u ∈ emit d, r ∈ u.refs → ∃ i, u.owner = .ctx i := by
    intro u hu hru
    simp only [emit, List.mem_append] at hu
    rcases hu with hu | hu
    · obtain ⟨c, hcm, k, hk | hk⟩ := emitCtxs_cases _ _ u hu
      · exfalso
        have := hfc c hcm
        simp only [ctxFrontend, Bool.and_eq_true, List.all_eq_true] at this
        obtain ⟨⟨⟨⟨⟨⟨_, hal⟩, _⟩, _⟩, _⟩, _⟩, _⟩ := this
        rw [hk.2, List.mem_map] at hru
        obtain ⟨a, ha, hroot⟩ := hru
        have := hal a ha
        simp [hroot, hr] at this
      · exact ⟨k, hk.1⟩
    · exfalso
      obtain ⟨b, hb, href⟩ := emitInsts_cases _ _ u hu
      have := hfi b hb r (href ▸ hru)
      simp [hr] at this
  refine ⟨?_, hproc, ?_⟩
  · unfold users
    apply countP_le_one
    refine List.Pairwise.imp_of_mem ?_ (emit_pairwise d)
    intro u v hu hv hne hboth
    apply hne
    simp only [List.contains_eq_mem, decide_eq_true_eq] at hboth
    have hU : ∀ w ∈ emit d, r ∈ w.refs → (r, w.owner) ∈ useEvents true d := by
      intro w hw hrw
      obtain ⟨i, hi⟩ := hproc w hw hrw
      simp only [emit, List.mem_append] at hw
      rcases hw with hw | hw
      · obtain ⟨a, ha, hroot⟩ := emitCtxs_ref _ _ w hw r hrw
        simp only [useEvents, uEv, List.mem_filterMap]
        exact ⟨(w.owner, a), ha, by simp [hroot, hr, Kind.isVarLike]⟩
      · have := (emitInsts_idx _ _ w hw).1
        rw [hi] at this
        cases this
    exact pairwise_same_owner hok.singleUser _ (hU u hu hboth.1) _ (hU v hv hboth.2) rfl
  · intro c hcm hkind a ha hroot
    have := hfc c hcm
    simp only [ctxFrontend, Bool.and_eq_true, List.all_eq_true, Bool.or_eq_true] at this
    obtain ⟨⟨⟨⟨⟨⟨hvc, _⟩, _⟩, _⟩, _⟩, _⟩, _⟩ := this
    rcases hvc with hvc | hvc
    · simp [hkind] at hvc
    · have := hvc a ha
      simp [hroot, hr] at this

-- non-vacuity: an accepted design with a variable written and read in one sequential context
example : accept true ⟨[.variable, .portIn, .portOut],
    [⟨.seq, [⟨1, .read, false⟩, ⟨0, .write, false⟩, ⟨0, .read, false⟩, ⟨2, .write, false⟩]⟩], []⟩ = true := by decide
-- and the rejected placements: variable read in an always block, in a concurrent context, in two contexts, as actual
example : accept true ⟨[.variable, .portOut], [⟨.seq, [⟨0, .read, true⟩, ⟨1, .write, true⟩]⟩], []⟩ = false := by decide
example : accept false ⟨[.variable, .portOut], [⟨.seq, [⟨0, .read, true⟩, ⟨1, .write, true⟩]⟩], []⟩ = true := by decide
example : accept true ⟨[.variable, .portOut], [⟨.conc, [⟨0, .read, false⟩, ⟨1, .write, false⟩]⟩], []⟩ = false := by decide
example : accept true ⟨[.variable, .portOut], [⟨.seq, [⟨0, .write, false⟩]⟩], [⟨[0], [1]⟩]⟩ = false := by decide

/-! ### push assignments are writes -/

/-- `^=` / `.push` (AccessFlags.PUSH) count as drivers: in an accepted design a root pushed by one context (or always
    block) is written or pushed by no other one -/
theorem C07.push_counts_as_write (d : Design) (h : checkUsage true d = true)
    (o₁ o₂ : Owner) (a₁ a₂ : Access)
    (h₁ : (o₁, a₁) ∈ ctxsEvents true 0 d.ctxs) (h₂ : (o₂, a₂) ∈ ctxsEvents true 0 d.ctxs)
    (hp : a₁.acc = .push) (hw : a₂.write = true) (hr : a₁.root = a₂.root) : o₁ = o₂ := by
  have hok := (C07.checkUsage_ok_iff d).1 h
  have hsame := pairwise_same_owner (hok.singleWriter.imp (fun hab hk => (hab hk).1))
  have hw₁ : a₁.write = true := by simp [Access.write, hp]
  have m₁ : (a₁.root, o₁) ∈ writeEvents true d := by
    simp only [writeEvents, wEv, List.mem_append, List.mem_filterMap]
    exact Or.inl ⟨(o₁, a₁), h₁, by simp [hw₁]⟩
  have m₂ : (a₂.root, o₂) ∈ writeEvents true d := by
    simp only [writeEvents, wEv, List.mem_append, List.mem_filterMap]
    exact Or.inl ⟨(o₂, a₂), h₂, by simp [hw]⟩
  exact hsame _ m₁ _ m₂ hr

-- a root pushed in one sequential context and assigned / pushed in another context, or driven by an instance, is rejected;
-- a push inside one context together with the WRITE of `reset_pushed()` of the same context is accepted
example : checkUsage true ⟨[.signal], [⟨.seq, [⟨0, .push, false⟩]⟩, ⟨.seq, [⟨0, .write, false⟩]⟩], []⟩ = false := by decide
example : checkUsage true ⟨[.signal], [⟨.seq, [⟨0, .push, false⟩]⟩, ⟨.seq, [⟨0, .push, false⟩]⟩], []⟩ = false := by decide
example : checkUsage true ⟨[.signal], [⟨.seq, [⟨0, .push, false⟩]⟩, ⟨.conc, [⟨0, .write, false⟩]⟩], []⟩ = false := by decide
example : checkUsage true ⟨[.signal], [⟨.seq, [⟨0, .push, false⟩]⟩], [⟨[], [0]⟩]⟩ = false := by decide
example : checkUsage true ⟨[.portIn], [⟨.seq, [⟨0, .push, false⟩]⟩], []⟩ = false := by decide
example : accept true ⟨[.signal], [⟨.seq, [⟨0, .write, false⟩, ⟨0, .push, false⟩]⟩], []⟩ = true := by decide
example : accept true ⟨[.signal], [⟨.conc, [⟨0, .push, false⟩]⟩], []⟩ = false := by decide

-- several outputs of ONE instance on one root: the instance loop is strict (`if sig_root in written_in: raise`), so the
-- second output is rejected whatever parts are connected (overlapping parts MUST be rejected; disjoint parts are
-- over-rejected) - also after a context wrote the root, and for two instances
example : checkUsage true ⟨[.signal, .portIn], [], [⟨[1], [0, 0]⟩]⟩ = false := by decide
example : checkUsage true ⟨[.signal, .portIn], [], [⟨[1], [0]⟩, ⟨[1], [0]⟩]⟩ = false := by decide
example : checkUsage true ⟨[.signal, .signal, .portIn], [], [⟨[2], [0, 1]⟩]⟩ = true := by decide

-- inline VHDL: a write-formatted object of an inline statement or expression is a WRITE access (second driver rejected,
-- input port rejected, variable confined to its context); in an inline EXPRESSION the result also feeds a sink (root 1)
example : checkUsage true ⟨[.signal, .portOut], [⟨.seq, [⟨0, .write, false⟩]⟩, ⟨.seq, [⟨0, .write, false⟩, ⟨1, .write, false⟩]⟩], []⟩ = false := by decide
example : checkUsage true ⟨[.portIn, .portOut], [⟨.conc, [⟨0, .write, false⟩, ⟨1, .write, false⟩]⟩], []⟩ = false := by decide
example : accept true ⟨[.variable, .portOut], [⟨.seq, [⟨0, .write, true⟩, ⟨1, .write, true⟩]⟩], []⟩ = false := by decide

-- explicit Temporary defined by inline code: in the always block it is rejected by the patched tree (it would be declared
-- as a process variable but assigned outside the process); as port actual it cannot also be used in a process body
example : accept true ⟨[.temporary, .portIn], [⟨.seq, [⟨1, .read, true⟩, ⟨0, .write, true⟩]⟩], []⟩ = false := by decide
example : accept false ⟨[.temporary, .portIn], [⟨.seq, [⟨1, .read, true⟩, ⟨0, .write, true⟩]⟩], []⟩ = true := by decide
example : accept true ⟨[.temporary, .portIn, .portOut], [⟨.seq, [⟨1, .read, false⟩, ⟨0, .write, false⟩]⟩], [⟨[0], [2]⟩]⟩ = false := by decide
example : accept true ⟨[.temporary, .portIn, .portOut], [⟨.seq, [⟨1, .read, false⟩, ⟨0, .write, false⟩, ⟨0, .read, false⟩, ⟨2, .write, false⟩]⟩], []⟩ = true := by decide
