/-! C08 - property theorems (declared with their full name `C08.<name>`; helper lemmas go to Lemmas/) -/
