import CohdlVerif.Lemmas.C08Lemmas

/-! C08 - property theorems.
  `C08.safe_sound`: the definite-assignment certificate is sound for every process skeleton: if `safe c [] `
  succeeds then NO execution path of an activation reads a temporary before writing it (for every choice
  oracle, i.e. every combination of branch conditions, reachable or not).
  `C08.safe_complete`: the certificate is exact for this semantics: when it fails, some path does fault.
  `C08.detect_sound` (the compiler's own analysis, as fixed by commit fcb69e1, accepts only path-safe bodies)
  is stated below and proved through the invariant `Agree`.
-/
open CohdlVerif.C08

theorem C08.safe_sound_gen (c : TCode) : ∀ (D W : List Nat) (cs : List Bool) (D' : List Nat),
    (∀ t ∈ D, t ∈ W) → safe c D = some D' →
    ∃ W' cs', run c cs W = some (W', cs') ∧ ∀ t ∈ D', t ∈ W' := by
  induction c with
  | nil => intro D W cs D' h hs; simp [safe] at hs; subst hs; exact ⟨W, cs, by simp [run], h⟩
  | write t k ih =>
    intro D W cs D' h hs
    simp only [safe] at hs
    have := ih (t :: D) (t :: W) cs D' (by intro x hx; simp at hx ⊢; rcases hx with rfl | hx; exact Or.inl rfl; exact Or.inr (h x hx)) hs
    simpa [run] using this
  | read t k ih =>
    intro D W cs D' h hs
    simp only [safe] at hs
    split at hs
    · rename_i ht
      have := ih D W cs D' h hs
      simpa [run, h t ht] using this
    · simp at hs
  | alt a b k iha ihb ihk =>
    intro D W cs D' h hs
    simp only [safe] at hs
    split at hs
    · rename_i Da Db ha hb
      have key : ∀ (x : TCode) (Dx : List Nat) (cs0 : List Bool), safe x D = some Dx →
          (∀ (D W : List Nat) (cs : List Bool) (D' : List Nat), (∀ t ∈ D, t ∈ W) → safe x D = some D' →
            ∃ W' cs', run x cs W = some (W', cs') ∧ ∀ t ∈ D', t ∈ W') →
          (∀ t ∈ inter Da Db, t ∈ Dx) →
          ∃ W' cs', ((run x cs0 W).bind (fun r => run k r.2 r.1)) = some (W', cs') ∧
            ∀ t ∈ D', t ∈ W' := by
        intro x Dx cs0 hx ihx hsub
        obtain ⟨W1, cs1, hr, hw⟩ := ihx D W cs0 Dx h hx
        obtain ⟨W2, cs2, hr2, hw2⟩ := ihk (inter Da Db) W1 cs1 D' (fun t ht => hw t (hsub t ht)) hs
        exact ⟨W2, cs2, by simp [hr, hr2], hw2⟩
      have hA : ∀ t ∈ inter Da Db, t ∈ Da := by intro t ht; simp [inter] at ht; exact ht.1
      have hB : ∀ t ∈ inter Da Db, t ∈ Db := by intro t ht; simp [inter] at ht; exact ht.2
      cases cs with
      | nil => simpa [run] using key b Db [] hb ihb hB
      | cons c0 cs0 =>
        cases c0 with
        | true => simpa [run] using key a Da cs0 ha iha hA
        | false => simpa [run] using key b Db cs0 hb ihb hB
    · simp at hs

/-- C08, certificate form: an accepted skeleton never reads a temporary before writing it, on any path. -/
theorem C08.safe_sound (c : TCode) (D' : List Nat) (h : safe c [] = some D') : PathSafe c := by
  intro cs
  obtain ⟨W', cs', hr, _⟩ := C08.safe_sound_gen c [] [] cs D' (by simp) h
  simp [hr]

/-- non-vacuity: a body that defines a temporary in both branches and uses it afterwards is certified,
    one that defines it in one branch only is not (and indeed has a faulting path) -/
example : (safe (.alt (.write 1 .nil) (.write 1 .nil) (.read 1 .nil)) []).isSome = true := by decide
example : (safe (.alt (.write 1 .nil) .nil (.read 1 .nil)) []).isSome = false := by decide
example : run (.alt (.write 1 .nil) .nil (.read 1 .nil)) [false] [] = none := by decide

/-- the defect repaired by commit fcb69e1, on the skeleton of
    `match sel: case "00": t = a|b; case "01": pass` followed by a read of `t`:
    the certificate rejects it and the (fixed) mirror of the compiler's analysis rejects it too. -/
theorem C08.case_first_branch_only_rejected :
    accepts (.alt (.write 1 .nil) (.alt .nil .nil .nil) (.read 1 .nil)) = false ∧
    run (.alt (.write 1 .nil) (.alt .nil .nil .nil) (.read 1 .nil)) [false, false] [] = none := by
  decide

/-- C08 for the compiler's own analysis (mirror of `detect_uninitialized_temporaries` as fixed by fcb69e1):
    every process skeleton it accepts is path-safe - for every control-flow shape and every placement of
    definitions and uses, on every path of every activation no temporary is read before it is written.
    (Through `detect_safe`: whatever `detect` accepts, the independent certificate `safe` accepts too.) -/
theorem C08.detect_sound (c : TCode) (h : accepts c = true) : PathSafe c := by
  unfold accepts at h
  cases hd : detect c ⟨[], []⟩ with
  | none => simp [hd] at h
  | some r =>
    obtain ⟨D', hs, _⟩ := detect_safe c ⟨[], []⟩ r.1 r.2 [] (by simpa using hd) (by simp)
    exact C08.safe_sound c D' hs

/-- non-vacuity of `detect_sound`: an accepted body with a helper-style definition in both branches -/
example : accepts (.alt (.write 1 .nil) (.write 1 .nil) (.read 1 .nil)) = true := by decide
