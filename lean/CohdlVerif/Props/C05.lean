import CohdlVerif.Lemmas.C05Lemmas

/-!
  C05 - property theorems: type conversions on assignment preserve the value or are rejected.

  Model (Model/C05.lean): `assignOk` mirrors the accept/reject decision of the compiler per assignment form
  (front-end trial `_assign` / `T(value)` + the back end's `format_cast`), in the behaviour AFTER the two proposed
  repairs fixes/C05-declaration-trial-init.patch and fixes/C05-port-connection-type.patch; `castModel`/`evalV`
  mirror the printed VHDL cast and its numeric_std meaning; `allowed`, `mustReject`, `convert` are the sentence of
  the property.  All statements are for ALL widths and values.
-/
open CohdlVerif.C05

/-- SOUNDNESS OF THE DECISION, every form: whatever is accepted is not one of the conversions the property names as
    compile-time errors (narrowing, Signed<->Unsigned of equal width, width-mismatched BitVector, Bit<->vector,
    non-representable integer literal, mismatching bit string). -/
theorem C05.accepted_never_must_reject (f : Form) (t : Ty) (s : Src) (h : assignOk f t s = true) :
    mustReject t s = false := by
  cases f with
  | assign | sub _ | view _ =>
    simp only [assignOk, Bool.and_eq_true] at h
    exact front_not_reject t s h.1
  | init =>
    cases s with
    | rt st =>
      simp only [assignOk, Bool.and_eq_true] at h
      cases t with
      | bv n | uns n | sgn n =>
        all_goals
          refine front_not_reject _ _ ?_
          have h1 := h.1
          simp [Ty.isVec, initFront] at h1
          exact h1
      | bit => cases st <;> simp_all [backOk, castModel, vhdlTarget, mustReject]
      | bool => simp [mustReject]
      | int => simp [mustReject]
    | lit k | blit b | null | full | str bs =>
      all_goals
        simp only [assignOk, Bool.and_eq_true] at h
        cases t <;> first
          | (simp [mustReject]; done)
          | exact front_not_reject _ _ (by simpa [initFront] using h.1)
  | portIn | portOut =>
    cases s <;> simp only [assignOk, Bool.and_eq_true] at h <;> first
      | exact front_not_reject _ _ h.2
      | exact absurd h (by simp)

example : assignOk .init (.sgn 4) (.rt (.uns 4)) = false ∧ assignOk .portOut (.uns 2) (.rt (.uns 3)) = false ∧
    assignOk .assign (.sgn 4) (.rt (.uns 3)) = true := by decide

/-- ... and it is FALSE of the tree without the two repairs: a declaration `Signal[Unsigned[2]](signed2)` and an
    output port `Unsigned[3]` connected to an `Unsigned[2]` signal are accepted (both reproduced on the real
    compiler by harness/c05.py, the first reinterprets -1 as 3, the second drops a bit / is ill-typed VHDL). -/
theorem C05.accepted_never_must_reject_fails_at_unpatched :
    (assignOkUnpatched .init (.uns 2) (.rt (.sgn 2)) = true ∧ mustReject (.uns 2) (.rt (.sgn 2)) = true) ∧
    (assignOkUnpatched .portOut (.uns 2) (.rt (.uns 3)) = true ∧ mustReject (.uns 2) (.rt (.uns 3)) = true) := by
  decide

namespace CohdlVerif.C05
/-- EXACTLY the pairs the assignment operators accept although the sentence of the property does not list them
    (all of them are `grey`: neither listed as value preserving nor as an error):
    Python truthiness into bool (a vector or run-time Integer becomes `x /= 0`, Null is False, Full is True, "0"/"1"),
    and a run-time Integer into Unsigned / Signed (the known finding: `to_unsigned / to_signed` wrap). -/
def acceptedGrey : Ty → Src → Bool
  | .bool, .rt (.bv _) | .bool, .rt (.uns _) | .bool, .rt (.sgn _) | .bool, .rt .int => true
  | .bool, .null | .bool, .full => true
  | .bool, .str bs => bs.length == 1
  | .uns _, .rt .int | .sgn _, .rt .int => true
  | _, _ => false
end CohdlVerif.C05

/-- EXACT CHARACTERISATION for the assignment operators (`<<=` `.next` `^=` `.push` `@=` `.value`), no restriction:
    the compiler accepts exactly the conversions the property lists as value preserving plus the explicitly named
    `acceptedGrey` pairs (truthiness into bool, run-time Integer into Unsigned/Signed). -/
theorem C05.assignOk_iff_allowed (t : Ty) (s : Src) :
    assignOk .assign t s = (allowed t s || acceptedGrey t s) := by
  cases t <;> cases s <;> (try rename_i st; cases st) <;>
    simp [acceptedGrey, assignOk, assignFront, backOk, castModel, vhdlTarget, literalBackOk, allowed, inRange,
      sgnMin, sgnMax, unsMax] <;>
    (try omega) <;>
    (try (rename_i n; have := two_pow_pos (n - 1); omega)) <;>
    (try (intro h; split <;> (try simp) <;> (try split) <;> (try simp) <;> omega))

/-- the named pairs are outside the sentence: neither `allowed` nor `mustReject` -/
theorem C05.acceptedGrey_is_grey (t : Ty) (s : Src) (h : acceptedGrey t s = true) : grey t s = true := by
  cases t <;> cases s <;> (try rename_i st; cases st) <;> simp_all [acceptedGrey, grey, allowed, mustReject]

/-- corollary: on every pair the sentence speaks about, accepted <=> allowed -/
theorem C05.assignOk_iff_allowed_nongrey (t : Ty) (s : Src) (hg : grey t s = false) :
    assignOk .assign t s = allowed t s := by
  rw [C05.assignOk_iff_allowed]
  cases hgr : acceptedGrey t s with
  | false => simp
  | true => rw [C05.acceptedGrey_is_grey t s hgr] at hg; exact absurd hg (by simp)

example : acceptedGrey .bool (.rt (.uns 3)) = true ∧ acceptedGrey (.sgn 3) (.rt .int) = true ∧
    acceptedGrey (.uns 3) (.rt (.sgn 3)) = false := by decide

example : grey (.sgn 5) (.rt (.uns 5)) = false ∧ grey (.uns 3) (.lit 8) = false ∧ grey (.bool) (.rt (.uns 3)) = true := by
  decide

/-- VALUE PRESERVATION of the printed cast, EVERY form (assignment operators, declarations, ports, slice / element
    targets, `.unsigned/.signed/.bitvector` view targets). -/
theorem C05.cast_preserves (f : Form) (t s : Ty) (x : Int) (h : assignOk f t (.rt s) = true) (hs : s ≠ .int)
    (hwt : t.wf = true) (hws : s.wf = true) (hx : inRange s x = true) :
    ∃ e, castModel (vhdlTarget f t) t s = some e ∧
      vhdlWellTyped (vhdlTarget f t) (evalV e (encode s x)) = true ∧
      decodeAs t (evalV e (encode s x)) = some (convert t s x) := by
  have hnr := C05.accepted_never_must_reject f t (.rt s) h
  by_cases hvt : vhdlTarget f t = t
  · rw [hvt]
    have hback : (castModel t t s).isSome = true := by
      cases f with
      | assign | sub _ | view _ | init =>
        all_goals (simp only [assignOk, Bool.and_eq_true, backOk, hvt] at h; exact h.2)
      | portIn | portOut =>
        all_goals
          simp only [assignOk, Bool.and_eq_true, beq_iff_eq] at h
          obtain ⟨rfl, h2⟩ := h
          cases s <;> simp_all [castModel, assignFront]
    exact castGood_plain t s x hnr hback hs hwt hws hx
  · -- the VHDL object is a root vector of another kind: slice / view target
    obtain ⟨k, hk, htv, hfront, hbk⟩ : ∃ k, vhdlTarget f t = mkVec k t.width ∧ t.isVec = true ∧
        assignFront t (.rt s) = true ∧ (castModel (mkVec k t.width) t s).isSome = true := by
      cases f with
      | assign | init | portIn | portOut => all_goals exact absurd (by cases t <;> rfl) hvt
      | sub k | view k =>
        all_goals
          simp only [assignOk, Bool.and_eq_true, backOk] at h
          cases t <;> first
            | exact absurd rfl hvt
            | exact ⟨k, rfl, rfl, h.1, h.2⟩
    have hsv : s.isVec = true := by
      cases t <;> simp [Ty.isVec] at htv <;> cases s <;> simp_all [assignFront, Ty.isVec]
    rw [hk]
    obtain ⟨e, he⟩ := Option.isSome_iff_exists.mp hbk
    obtain ⟨e0, he0, _, hdec0⟩ := castGood_plain t s x hnr (front_plain_cast t s htv hsv hfront) hs hwt hws hx
    obtain ⟨hcore, hshape, hkind⟩ := castModel_shape k t s e e0 htv hsv hfront he he0
    obtain ⟨k0, p, hv0⟩ := decodeAs_vec t htv _ _ hdec0
    obtain ⟨kc, hvc⟩ := evalV_core_of_vec e0 _ k0 _ p hv0
    have hkc : kc = srcKind s := core_kind s hsv x (core e0) t.width hshape kc _ p hvc
    have hve := evalV_of_core e (encode s x) kc _ p (by rw [hcore]; exact hvc)
    refine ⟨e, he, ?_, ?_⟩
    · rw [hve, hkc, hkind]; exact wellTyped_mkVec k _ p
    · rw [hve, decodeAs_kind t _ k0, ← hv0]; exact hdec0

example : assignOk (.view .uns) (.sgn 8) (.rt (.sgn 4)) = true ∧ assignOk (.sub .sgn) (.bv 3) (.rt (.uns 3)) = true ∧
    castModel (.uns 8) (.sgn 8) (.sgn 4) = some (.asUns (.asSlv (.resize .x 8))) := by decide

example : assignOk .assign (.sgn 5) (.rt (.uns 3)) = true ∧ inRange (.uns 3) 7 = true := by decide

/-- The run-time Integer is the exception (a genuine defect, findings.d/C05.json): `to_signed(x, n)` /
    `to_unsigned(x, n)` wrap, the front end cannot see the value (its placeholder is 0). -/
theorem C05.cast_preserves_fails_at_runtime_integer :
    assignOk .assign (.sgn 3) (.rt .int) = true ∧
    (castModel (.sgn 3) (.sgn 3) .int).map (fun e => decodeAs (.sgn 3) (evalV e (encode .int 5))) = some (some (-3)) ∧
    convert (.sgn 3) .int 5 = 5 := by decide


/-- NOTHING IS TRUNCATED OR REINTERPRETED: when a number-typed run-time source (Unsigned / Signed) is accepted for
    a number-typed target in ANY form, every source value lies in the target's range and arrives as the same number. -/
theorem C05.never_truncates (f : Form) (t s : Ty) (x : Int)
    (h : assignOk f t (.rt s) = true) (ht : t.isNum = true) (hs : s.isNum = true) (hsi : s ≠ .int)
    (hws : s.wf = true) (hx : inRange s x = true) :
    inRange t x = true ∧ convert t s x = x := by
  have hnr := C05.accepted_never_must_reject f t (.rt s) h
  cases t <;> cases s <;> simp_all [Ty.isNum, mustReject, convert, Ty.wf]
  all_goals first
    | (simp [inRange]; done)
    | (rename_i n m
       simp only [inRange_uns, inRange_sgn] at *
       have h2 := two_pow_pos n
       first
        | (have h1 := two_pow_mono (show m ≤ n by omega); omega)
        | (have h1 := two_pow_mono (show m - 1 ≤ n - 1 by omega); omega)
        | (have h1 := two_pow_mono (show m ≤ n - 1 by omega); have h3 := two_pow_pos (n - 1); omega))

example : assignOk (.view .bv) (.sgn 4) (.rt (.uns 3)) = true ∧ inRange (.uns 3) 7 = true := by decide

/-- INTEGER LITERALS MUST BE REPRESENTABLE: an accepted int literal lies in the target's range and keeps its value
    (the only exception is Python truthiness `Signal[bool](5)` in a declaration, outside the property sentence). -/
theorem C05.literal_representable (f : Form) (t : Ty) (k : Int) (h : assignOk f t (.lit k) = true)
    (hb : ¬ (t = .bool ∧ f = .init)) :
    inRange t k = true ∧ convertLit t (.lit k) = some k := by
  have hfront : assignFront t (.lit k) = true := by
    cases f <;> simp_all [assignOk] <;> (cases t <;> simp_all [initFront])
  cases t <;> simp_all [assignFront, inRange, convertLit]
  omega

example : assignOk .assign (.sgn 4) (.lit (-8)) = true ∧ assignOk .assign (.sgn 4) (.lit 8) = false ∧
    assignOk (.sub .uns) (.bit) (.lit 1) = true := by decide

/-- `_try_join` IS SOUND: when it returns a type r, constructing r from every option is none of the conversions the
    property names as errors (so every branch is redirected into the temporary by a permitted conversion). -/
theorem C05.join_sound (opts : List Src) (r : Ty) (h : tryJoin opts = some r) :
    ∀ o ∈ opts, initFront r o = true ∧ mustReject r o = false := by
  unfold tryJoin at h
  split at h
  · exact absurd h (by simp)
  · split at h
    · split at h
      · rename_i r' _ hall
        injection h with h; subst h
        intro o ho
        have := List.all_eq_true.mp hall o ho
        exact ⟨this, init_not_reject _ _ this⟩
      · exact absurd h (by simp)
    · exact absurd h (by simp)

example : tryJoin [.rt (.bv 4), .rt (.sgn 4)] = some (.bv 4) ∧ tryJoin [.rt (.uns 4), .rt (.sgn 4)] = none ∧
    tryJoin [.rt (.uns 4), .rt (.uns 3)] = none := by decide

/-- MERGES (if-expression, function return, select_with): an accepted merge either goes through a join type r with
    permitted conversions option -> r and r -> target, or every option is converted into the target directly by a
    permitted conversion; equal literal branches are a plain assignment. -/
theorem C05.merge_sound (t : Ty) (a b : Src) (h : mergeOk t [a, b] = true) :
    (∃ r, tryJoin [a, b] = some r ∧ mustReject r a = false ∧ mustReject r b = false ∧ mustReject t (.rt r) = false) ∨
    (mustReject t a = false ∧ mustReject t b = false) := by
  unfold mergeOk at h
  cases hsl : sameLiteral [a, b] with
  | some c =>
    rw [hsl] at h
    simp only [sameLiteral, List.all_cons, List.all_nil, Bool.and_true] at hsl
    split at hsl
    · rename_i hc
      simp only [Bool.and_eq_true, beq_iff_eq] at hc
      injection hsl with hsl; subst hsl
      have := C05.accepted_never_must_reject .assign t a h
      exact Or.inr ⟨this, by rw [hc.2]; exact this⟩
    · exact absurd hsl (by simp)
  | none =>
    rw [hsl] at h
    unfold mergeJoin at h
    cases hj : tryJoin [a, b] with
    | some r =>
      rw [hj] at h
      simp only [List.all_cons, List.all_nil, Bool.and_true, Bool.and_eq_true] at h
      have hs := C05.join_sound [a, b] r hj
      exact Or.inl ⟨r, rfl, (hs a (by simp)).2, (hs b (by simp)).2, C05.accepted_never_must_reject .assign t (.rt r) h.2⟩
    | none =>
      rw [hj] at h
      simp only [List.all_cons, List.all_nil, Bool.and_true, Bool.and_eq_true] at h
      exact Or.inr ⟨init_not_reject _ _ h.1.1, init_not_reject _ _ h.2.1⟩

example : mergeOk (.uns 2) [.rt (.bv 2), .rt (.sgn 2)] = true ∧ mergeOk (.uns 4) [.rt (.uns 2), .rt (.uns 3)] = true ∧
    mergeOk (.uns 4) [.rt (.sgn 4), .rt (.uns 4)] = false := by decide

/-- THE VALUE OF AN ACCEPTED MERGE (any number of alternatives; if-expression, return paths, select_with):
    whichever alternative `o` is taken, the target receives that alternative converted to the TARGET -
    Null / Full fill the target's own width, an int / bool literal arrives as its number, a run-time alternative as
    `convert target source` - also when the merge goes through a temporary of the join type of `_try_join`.
    Hypotheses: the direct conversion alternative -> target is one the property permits (`allowed`); the taken
    alternative is not a bit string; no alternative is a run-time Integer (known finding); vector widths are positive. -/
theorem C05.merge_preserves (t : Ty) (opts : List Src) (o : Src) (x : Int)
    (hok : mergeOk t opts = true) (ho : o ∈ opts) (hal : allowed t o = true)
    (hstr : ∀ bs, o ≠ .str bs) (hopts : ∀ s, .rt s ∈ opts → s ≠ .int ∧ s.wf = true)
    (hwt : t.wf = true) (hx' : ∀ s, o = .rt s → inRange s x = true) :
    mergeValue t opts o x = (match o with | .rt s => some (convert t s x) | l => convertLit t l) := by
  have hint : o ≠ .rt .int := fun h => (hopts .int (h ▸ ho)).1 rfl
  have hx : ∀ s, o = .rt s → s.wf = true ∧ inRange s x = true :=
    fun s hs => ⟨(hopts s (hs ▸ ho)).2, hx' s hs⟩
  have hjoin : ∀ r, tryJoin opts = some r → r ≠ .int ∧ r.wf = true := by
    intro r hr
    rcases tryJoin_type opts r hr with h | h
    · exact hopts r h
    · subst h; exact ⟨by simp, rfl⟩
  unfold mergeOk at hok
  unfold mergeValue
  cases hsl : sameLiteral opts with
  | some a =>
    obtain ⟨hlit, hall⟩ := sameLiteral_mem opts a hsl
    have hoa := hall o ho
    subst hoa
    simp only []
    cases o with
    | rt s => exact absurd hlit (by simp [Src.isLit])
    | lit _ | blit _ | null | full | str _ => all_goals rfl
  | none =>
    rw [hsl] at hok
    simp only []
    unfold mergeJoin at hok
    cases hj : tryJoin opts with
    | none =>
      rw [hj] at hok
      simp only []
      have hoo := List.all_eq_true.mp hok o ho
      simp only [Bool.and_eq_true] at hoo
      cases o with
      | rt s =>
        obtain ⟨hws, hxs⟩ := hx s rfl
        have hs : s ≠ .int := fun h => hint (by rw [h])
        rw [backOk_assign_rt] at hoo
        exact assignValue_rt t s x (initFront_rt t s hoo.1) hoo.2 hs hwt hws hxs
      | lit _ | blit _ | null | full | str _ => all_goals rfl
    | some r =>
      rw [hj] at hok
      simp only []
      simp only [Bool.and_eq_true] at hok
      obtain ⟨hrn, hwr⟩ := hjoin r hj
      have hoo := List.all_eq_true.mp hok.1 o ho
      simp only [Bool.and_eq_true] at hoo
      have htr : assignFront t (.rt r) = true ∧ (castModel t t r).isSome = true := by
        have := hok.2
        simp only [assignOk, Bool.and_eq_true, backOk_assign_rt] at this
        exact this
      cases o with
      | rt s =>
        obtain ⟨hws, hxs⟩ := hx s rfl
        have hs : s ≠ .int := fun h => hint (by rw [h])
        rw [backOk_assign_rt] at hoo
        have hrs := initFront_rt r s hoo.1
        rw [assignValue_rt r s x hrs hoo.2 hs hwr hws hxs]
        simp only [Option.bind_some]
        rw [assignValue_rt t r _ htr.1 htr.2 hrn hwt hwr (convert_inRange r s x hrs hs hwr hws hxs)]
        rw [convert_comp t r s x hrs htr.1 hal hs hrn hws hwr hxs]
      | lit k =>
        obtain ⟨y, hy, hyr, hc⟩ := literal_comp t r (.lit k) (Or.inl ⟨k, rfl⟩) hoo.1 htr.1 hal hrn
        simp only [assignValue, hy, Option.bind_some]
        have := assignValue_rt t r y htr.1 htr.2 hrn hwt hwr hyr
        simp only [assignValue] at this
        rw [this, hc]
      | blit b =>
        obtain ⟨y, hy, hyr, hc⟩ := literal_comp t r (.blit b) (Or.inr ⟨b, rfl⟩) hoo.1 htr.1 hal hrn
        simp only [assignValue, hy, Option.bind_some]
        have := assignValue_rt t r y htr.1 htr.2 hrn hwt hwr hyr
        simp only [assignValue] at this
        rw [this, hc]
      | null => exact absurd rfl (tryJoin_no_nullfull opts r hj _ ho).1
      | full => exact absurd rfl (tryJoin_no_nullfull opts r hj _ ho).2
      | str bs => exact absurd rfl (hstr bs)

example : mergeOk (.uns 8) [.rt (.uns 4), .full] = true ∧ mergeValue (.uns 8) [.rt (.uns 4), .full] .full 0 = some 255 ∧
    mergeValue (.sgn 8) [.rt (.uns 4), .lit 3, .rt (.uns 4)] (.rt (.uns 4)) 9 = some 9 ∧ tryJoin [.rt (.uns 4), .lit 3, .rt (.uns 4)] = some (.uns 4) := by
  decide
