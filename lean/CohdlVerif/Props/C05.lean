import CohdlVerif.Lemmas.C05Lemmas

/-!
  C05 - property theorems: type conversions on assignment preserve the value or are rejected.

  Model (Model/C05.lean): `assignOk` mirrors the accept/reject decision of the compiler per assignment form
  (front-end trial `_assign` / `T(value)` + the back end's `format_cast`), in the behaviour AFTER the two proposed
  repairs fixes/C05-declaration-trial-init.patch and fixes/C05-port-connection-type.patch; `castModel`/`evalV`
  mirror the printed VHDL cast and its numeric_std meaning; `allowed`, `mustReject`, `convert` are the sentence of
  the property.  All statements are for ALL widths and values.
-/
open CohdlVerif.C05

/-- SOUNDNESS OF THE DECISION, every form: whatever is accepted is not one of the conversions the property names as
    compile-time errors (narrowing, Signed<->Unsigned of equal width, width-mismatched BitVector, Bit<->vector,
    non-representable integer literal, mismatching bit string). -/
theorem C05.accepted_never_must_reject (f : Form) (t : Ty) (s : Src) (h : assignOk f t s = true) :
    mustReject t s = false := by
  cases f with
  | assign | sub _ | view _ =>
    simp only [assignOk, Bool.and_eq_true] at h
    exact front_not_reject t s h.1
  | init =>
    cases s with
    | rt st =>
      simp only [assignOk, Bool.and_eq_true] at h
      cases t with
      | bv n | uns n | sgn n =>
        all_goals
          refine front_not_reject _ _ ?_
          have h1 := h.1
          simp [Ty.isVec, initFront] at h1
          exact h1
      | bit => cases st <;> simp_all [backOk, castModel, vhdlTarget, mustReject]
      | bool => simp [mustReject]
      | int => simp [mustReject]
    | lit k | blit b | null | full | str bs =>
      all_goals
        simp only [assignOk, Bool.and_eq_true] at h
        cases t <;> first
          | (simp [mustReject]; done)
          | exact front_not_reject _ _ (by simpa [initFront] using h.1)
  | portIn | portOut =>
    cases s <;> simp only [assignOk, Bool.and_eq_true] at h <;> first
      | exact front_not_reject _ _ h.2
      | exact absurd h (by simp)

example : assignOk .init (.sgn 4) (.rt (.uns 4)) = false ∧ assignOk .portOut (.uns 2) (.rt (.uns 3)) = false ∧
    assignOk .assign (.sgn 4) (.rt (.uns 3)) = true := by decide

/-- ... and it is FALSE of the tree without the two repairs: a declaration `Signal[Unsigned[2]](signed2)` and an
    output port `Unsigned[3]` connected to an `Unsigned[2]` signal are accepted (both reproduced on the real
    compiler by harness/c05.py, the first reinterprets -1 as 3, the second drops a bit / is ill-typed VHDL). -/
theorem C05.accepted_never_must_reject_fails_at_unpatched :
    (assignOkUnpatched .init (.uns 2) (.rt (.sgn 2)) = true ∧ mustReject (.uns 2) (.rt (.sgn 2)) = true) ∧
    (assignOkUnpatched .portOut (.uns 2) (.rt (.uns 3)) = true ∧ mustReject (.uns 2) (.rt (.uns 3)) = true) := by
  decide

/-- EXACT CHARACTERISATION for the assignment operators (`<<=` `.next` `^=` `.push` `@=` `.value`): outside the
    pairs the sentence is silent about (`grey`: truthiness into bool, run-time Integer sources, ...), the compiler
    accepts exactly the conversions the property lists as value preserving. -/
theorem C05.assignOk_iff_allowed (t : Ty) (s : Src) (hg : grey t s = false) :
    assignOk .assign t s = allowed t s := by
  cases t <;> cases s <;> (try rename_i st; cases st) <;>
    simp_all [grey, assignOk, assignFront, backOk, castModel, vhdlTarget, literalBackOk, allowed, mustReject, inRange,
      sgnMin, sgnMax, unsMax] <;>
    (try omega) <;>
    (try (rename_i n; have := two_pow_pos (n - 1); omega)) <;>
    (try (intro h; split <;> (try simp) <;> (try split) <;> (try simp) <;> omega))

example : grey (.sgn 5) (.rt (.uns 5)) = false ∧ grey (.uns 3) (.lit 8) = false ∧ grey (.bool) (.rt (.uns 3)) = true := by
  decide

/-- VALUE PRESERVATION of the printed cast.  Full statement: for EVERY form f,
      assignOk f t (rt s) -> s != Integer -> inRange s x ->
      exists e, castModel (vhdlTarget f t) t s = some e  /\  the value of e is well typed for the declared VHDL object
                /\  decodeAs t (evalV e (encode s x)) = convert t s x.
    Proved here for the forms whose VHDL object has the target's own type (operators `<<= .next ^= .push @= .value`,
    declarations, port connections) - all widths, all values.  Missing: slice / element / view targets
    (`vhdlTarget f t != t`, 9 more (root kind, view kind) combinations of the same lemmas); those are covered by the
    exhaustive simulation tie of harness/c05.py only. -/
theorem C05.cast_preserves_partial (f : Form) (hf : f = .assign ∨ f = .init ∨ f = .portIn ∨ f = .portOut)
    (t s : Ty) (x : Int) (h : assignOk f t (.rt s) = true) (hs : s ≠ .int)
    (hwt : t.wf = true) (hws : s.wf = true) (hx : inRange s x = true) :
    ∃ e, castModel (vhdlTarget f t) t s = some e ∧
      vhdlWellTyped (vhdlTarget f t) (evalV e (encode s x)) = true ∧
      decodeAs t (evalV e (encode s x)) = some (convert t s x) := by
  have hvt : vhdlTarget f t = t := by
    rcases hf with rfl | rfl | rfl | rfl <;> cases t <;> rfl
  rw [hvt]
  -- in all four forms acceptance implies that the back end finds a cast and that the pair is not a named error
  have hnr := C05.accepted_never_must_reject f t (.rt s) h
  have hback : (castModel t t s).isSome = true := by
    rcases hf with rfl | rfl | rfl | rfl
    · simp only [assignOk, Bool.and_eq_true, backOk, hvt] at h; exact h.2
    · simp only [assignOk, Bool.and_eq_true, backOk, hvt] at h; exact h.2
    · simp only [assignOk, Bool.and_eq_true, beq_iff_eq] at h
      obtain ⟨rfl, h2⟩ := h
      cases s <;> simp_all [castModel, assignFront]
    · simp only [assignOk, Bool.and_eq_true, beq_iff_eq] at h
      obtain ⟨rfl, h2⟩ := h
      cases s <;> simp_all [castModel, assignFront]
  change CastGood t t s x
  cases t <;> cases s <;> simp_all [castModel, mustReject, Ty.wf]
  all_goals first
    | exact cast_bit_bit x hx
    | exact cast_bit_bool x hx
    | exact cast_bool_bit x hx
    | exact cast_bool_bool x hx
    | exact cast_bool_bv _ x hx
    | exact cast_bool_uns _ x hx
    | exact cast_bool_sgn _ hws x hx
    | exact cast_same_bv _ x hx
    | exact cast_bv_uns _ x hx
    | exact cast_bv_sgn _ x
    | exact cast_uns_bv _ x hx
    | exact cast_sgn_bv _ x hx
    | exact cast_sgn_uns _ _ x hnr hx
    | exact cast_int_uns _ x hx
    | exact cast_int_sgn _ hws x hx
    | (rename_i n m
       by_cases e : n = m
       · subst e; first | exact cast_same_uns _ x hx | exact cast_same_sgn _ hws x hx
       · first | exact cast_uns_uns n m x (by omega) hx | exact cast_sgn_sgn n m hws x (by omega) hx)


example : assignOk .assign (.sgn 5) (.rt (.uns 3)) = true ∧ inRange (.uns 3) 7 = true := by decide

/-- The run-time Integer is the exception (a genuine defect, findings.d/C05.json): `to_signed(x, n)` /
    `to_unsigned(x, n)` wrap, the front end cannot see the value (its placeholder is 0). -/
theorem C05.cast_preserves_fails_at_runtime_integer :
    assignOk .assign (.sgn 3) (.rt .int) = true ∧
    (castModel (.sgn 3) (.sgn 3) .int).map (fun e => decodeAs (.sgn 3) (evalV e (encode .int 5))) = some (some (-3)) ∧
    convert (.sgn 3) .int 5 = 5 := by decide


/-- NOTHING IS TRUNCATED OR REINTERPRETED: when a number-typed run-time source (Unsigned / Signed) is accepted for
    a number-typed target in ANY form, every source value lies in the target's range and arrives as the same number. -/
theorem C05.never_truncates (f : Form) (t s : Ty) (x : Int)
    (h : assignOk f t (.rt s) = true) (ht : t.isNum = true) (hs : s.isNum = true) (hsi : s ≠ .int)
    (hws : s.wf = true) (hx : inRange s x = true) :
    inRange t x = true ∧ convert t s x = x := by
  have hnr := C05.accepted_never_must_reject f t (.rt s) h
  cases t <;> cases s <;> simp_all [Ty.isNum, mustReject, convert, Ty.wf]
  all_goals first
    | (simp [inRange]; done)
    | (rename_i n m
       simp only [inRange_uns, inRange_sgn] at *
       have h2 := two_pow_pos n
       first
        | (have h1 := two_pow_mono (show m ≤ n by omega); omega)
        | (have h1 := two_pow_mono (show m - 1 ≤ n - 1 by omega); omega)
        | (have h1 := two_pow_mono (show m ≤ n - 1 by omega); have h3 := two_pow_pos (n - 1); omega))

example : assignOk (.view .bv) (.sgn 4) (.rt (.uns 3)) = true ∧ inRange (.uns 3) 7 = true := by decide

/-- INTEGER LITERALS MUST BE REPRESENTABLE: an accepted int literal lies in the target's range and keeps its value
    (the only exception is Python truthiness `Signal[bool](5)` in a declaration, outside the property sentence). -/
theorem C05.literal_representable (f : Form) (t : Ty) (k : Int) (h : assignOk f t (.lit k) = true)
    (hb : ¬ (t = .bool ∧ f = .init)) :
    inRange t k = true ∧ convertLit t (.lit k) = some k := by
  have hfront : assignFront t (.lit k) = true := by
    cases f <;> simp_all [assignOk] <;> (cases t <;> simp_all [initFront])
  cases t <;> simp_all [assignFront, inRange, convertLit]
  omega

example : assignOk .assign (.sgn 4) (.lit (-8)) = true ∧ assignOk .assign (.sgn 4) (.lit 8) = false ∧
    assignOk (.sub .uns) (.bit) (.lit 1) = true := by decide

/-- `_try_join` IS SOUND: when it returns a type r, constructing r from every option is none of the conversions the
    property names as errors (so every branch is redirected into the temporary by a permitted conversion). -/
theorem C05.join_sound (opts : List Src) (r : Ty) (h : tryJoin opts = some r) :
    ∀ o ∈ opts, initFront r o = true ∧ mustReject r o = false := by
  unfold tryJoin at h
  split at h
  · exact absurd h (by simp)
  · split at h
    · split at h
      · rename_i r' _ hall
        injection h with h; subst h
        intro o ho
        have := List.all_eq_true.mp hall o ho
        exact ⟨this, init_not_reject _ _ this⟩
      · exact absurd h (by simp)
    · exact absurd h (by simp)

example : tryJoin [.rt (.bv 4), .rt (.sgn 4)] = some (.bv 4) ∧ tryJoin [.rt (.uns 4), .rt (.sgn 4)] = none ∧
    tryJoin [.rt (.uns 4), .rt (.uns 3)] = none := by decide

/-- MERGES (if-expression, function return, select_with): an accepted merge either goes through a join type r with
    permitted conversions option -> r and r -> target, or every option is converted into the target directly by a
    permitted conversion; equal literal branches are a plain assignment. -/
theorem C05.merge_sound (t : Ty) (a b : Src) (h : mergeOk t [a, b] = true) :
    (∃ r, tryJoin [a, b] = some r ∧ mustReject r a = false ∧ mustReject r b = false ∧ mustReject t (.rt r) = false) ∨
    (mustReject t a = false ∧ mustReject t b = false) := by
  unfold mergeOk at h
  cases hsl : sameLiteral [a, b] with
  | some c =>
    rw [hsl] at h
    simp only [sameLiteral, List.all_cons, List.all_nil, Bool.and_true] at hsl
    split at hsl
    · rename_i hc
      simp only [Bool.and_eq_true, beq_iff_eq] at hc
      injection hsl with hsl; subst hsl
      have := C05.accepted_never_must_reject .assign t a h
      exact Or.inr ⟨this, by rw [hc.2]; exact this⟩
    · exact absurd hsl (by simp)
  | none =>
    rw [hsl] at h
    unfold mergeJoin at h
    cases hj : tryJoin [a, b] with
    | some r =>
      rw [hj] at h
      simp only [List.all_cons, List.all_nil, Bool.and_true, Bool.and_eq_true] at h
      have hs := C05.join_sound [a, b] r hj
      exact Or.inl ⟨r, rfl, (hs a (by simp)).2, (hs b (by simp)).2, C05.accepted_never_must_reject .assign t (.rt r) h.2⟩
    | none =>
      rw [hj] at h
      simp only [List.all_cons, List.all_nil, Bool.and_true, Bool.and_eq_true] at h
      exact Or.inr ⟨init_not_reject _ _ h.1.1, init_not_reject _ _ h.2.1⟩

example : mergeOk (.uns 2) [.rt (.bv 2), .rt (.sgn 2)] = true ∧ mergeOk (.uns 4) [.rt (.uns 2), .rt (.uns 3)] = true ∧
    mergeOk (.uns 4) [.rt (.sgn 4), .rt (.uns 4)] = false := by decide
