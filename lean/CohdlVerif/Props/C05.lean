/-! C05 - property theorems (declared with their full name `C05.<name>`; helper lemmas go to Lemmas/) -/
