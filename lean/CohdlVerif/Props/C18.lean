import CohdlVerif.Lemmas.C18Batch
/-!
  C18 - property theorems: the mirrors of the std combinational helpers (Model/C18.lean, same recursion
  structure as cohdl/std/_core_utility.py and _crc.py) equal their mathematical definitions, for ALL
  widths / lengths / batch sizes.  Bit vectors are `List Bool`, least significant bit first.
  Hypotheses are exactly the guards under which the real helpers return a value (non-empty vector,
  batch size ≥ 1, shift ≤ width, ...); outside them the mirrors answer `none` like the Python code raises
  (tied by the harness, family "excluded-arguments").
  Helper lemmas: Lemmas/C18Fold.lean, C18Count.lean, C18Select.lean, C18More.lean.
-/
open CohdlVerif.C18

/-! ## folds -/

/-- `binary_fold` (left and `right_fold=True`) = sequential left fold, for associative operators -/
theorem C18.binary_fold_eq_foldl {α : Type} (f : α → α → α) (hf : ∀ a b c, f (f a b) c = f a (f b c))
    (l : List α) (hl : l ≠ []) : binaryFold f l = foldl1 f l ∧ binaryFoldR f l = foldl1 f l := by
  obtain ⟨r, hr, ht⟩ := binaryFold_tree f l hl
  obtain ⟨r', hr', ht'⟩ := binaryFoldR_tree f l hl
  have h1 := ht.eq_foldl1 hf
  have h2 := ht'.eq_foldl1 hf
  rw [hr, hr', h1]; exact ⟨rfl, h2.symm.trans h1⟩

example : binaryFold (· ++ ·) [[1], [2], [3, 4]] = some [1, 2, 3, 4] := by
  rw [(C18.binary_fold_eq_foldl _ (fun a b c => List.append_assoc a b c) _ (by simp)).1]; rfl

/-- `batched_fold` with ANY batch size ≥ 1 (first level with `batch_size`, all further levels with the default 2,
    last batch possibly shorter) = sequential left fold, for associative operators -/
theorem C18.batched_fold_eq_foldl {α : Type} (f : α → α → α) (hf : ∀ a b c, f (f a b) c = f a (f b c))
    (bs : Nat) (hbs : 1 ≤ bs) (l : List α) (hl : l ≠ []) : batchedFold f bs l = foldl1 f l := by
  obtain ⟨r, hr, ht⟩ := batchedFold_tree f bs l hbs hl
  rw [hr, ht.eq_foldl1 hf]

/-- without associativity: the result is still the value of a bracketing that keeps every operand exactly once and
    in order (no batch boundary is dropped or duplicated) -/
theorem C18.batched_fold_is_bracketing {α : Type} (f : α → α → α) (bs : Nat) (hbs : 1 ≤ bs) (l : List α) (hl : l ≠ []) :
    ∃ r, batchedFold f bs l = some r ∧ FoldTree f l r := batchedFold_tree f bs l hbs hl

example : batchedFold (· ++ ·) 3 [[1], [2], [3], [4], [5], [6], [7]] = some [1, 2, 3, 4, 5, 6, 7] := by
  rw [C18.batched_fold_eq_foldl _ (fun a b c => List.append_assoc a b c) 3 (by omega) _ (by simp)]; rfl

/-! ## population counts -/

/-- `count_set_bits` / `count_clear_bits`: per-batch lookup + widening adders + final truncation = population count,
    at width `bit_length(width)`, for every width ≥ 1 and every batch size ≥ 1 -/
theorem C18.popcount_batched (bs : Nat) (hbs : 1 ≤ bs) (bits : Bits) (hb : bits ≠ []) :
    countSetBits bs bits = some ⟨bitLen bits.length, popcount bits⟩ ∧
    countClearBits bs bits = some ⟨bitLen bits.length, bits.length - popcount bits⟩ :=
  ⟨countSetBits_eq bs bits hbs hb, countClearBits_eq bs bits hbs hb⟩

example : countSetBits 3 [true, false, true, true, false, true, true] = some ⟨3, 5⟩ := by
  rw [(C18.popcount_batched 3 (by omega) _ (by simp)).1]; rfl

/-! ## leading / trailing counts -/

theorem C18.ctz_spec (bits : Bits) :
    ctz bits = ⟨uptoW bits.length, trailingRun false bits⟩ ∧ cto bits = ⟨uptoW bits.length, trailingRun true bits⟩ := by
  unfold ctz cto
  rw [countWhile_eq, countWhile_eq, countWhileSpec_bool, countWhileSpec_bool]; exact ⟨rfl, rfl⟩

/-- count_leading_zeros / ones = length of the run at the most significant end (the all-zero / all-one vector gives
    the full width) -/
theorem C18.clz_spec (bits : Bits) (hb : bits ≠ []) :
    clz bits = some ⟨uptoW bits.length, leadingRun false bits⟩ ∧ clo bits = some ⟨uptoW bits.length, leadingRun true bits⟩ := by
  unfold clz clo
  rw [reverseBits_eq bits hb]
  simp only [Option.map_some, countWhile_eq, countWhileSpec_bool, List.length_reverse]
  exact ⟨rfl, rfl⟩

example : clz [true, false, false] = some ⟨2, 2⟩ := by rw [(C18.clz_spec _ (by simp)).1]; rfl
example : leadingRun false [false, false, false] = 3 := by decide

/-! ## concat / reverse_bits -/

theorem C18.concat_spec (parts : List Bits) (h : parts ≠ []) : concatM parts = some (concatSpec parts) :=
  concatM_eq parts h

theorem C18.reverse_bits_spec (bits : Bits) (hb : bits ≠ []) : reverseBits bits = some bits.reverse :=
  reverseBits_eq bits hb

/-! ## minimum / maximum / min_element / max_element / min_index / max_index -/

/-- the reversed batched fold with "strictly smaller keeps left" returns the FIRST extremum: with
    `keys = pre ++ v :: post` and index `pre.length`, every earlier key is strictly worse and no key is better -/
theorem C18.min_max_first_wins (keys : List Int) (h : keys ≠ []) :
    (∃ i v pre post, extElement ltI keys = some (i, v) ∧ keys = pre ++ v :: post ∧ i = pre.length ∧
        (∀ x ∈ pre, v < x) ∧ (∀ x ∈ keys, v ≤ x)) ∧
    (∃ i v pre post, extElement gtI keys = some (i, v) ∧ keys = pre ++ v :: post ∧ i = pre.length ∧
        (∀ x ∈ pre, x < v) ∧ (∀ x ∈ keys, x ≤ v)) := by
  constructor
  · obtain ⟨i, v, pre, post, h1, h2, h3, h4, h5⟩ := extElement_spec ltI_sw keys h
    refine ⟨i, v, pre, post, h1, h2, h3, ?_, ?_⟩
    · intro x hx; have := h4 x hx; simpa [ltI] using this
    · intro x hx; have := h5 x hx; simp only [ltI, decide_eq_false_iff_not] at this; omega
  · obtain ⟨i, v, pre, post, h1, h2, h3, h4, h5⟩ := extElement_spec gtI_sw keys h
    refine ⟨i, v, pre, post, h1, h2, h3, ?_, ?_⟩
    · intro x hx; have := h4 x hx; simpa [gtI] using this
    · intro x hx; have := h5 x hx; simp only [gtI, decide_eq_false_iff_not] at this; omega

example : minSpec [5, 2, 7, 2] = some 2 ∧ firstIdxOf 2 [5, 2, 7, 2] = 1 := by decide
example : maxSpec [5, 7, 7, 2] = some 7 ∧ firstIdxOf 7 [5, 7, 7, 2] = 1 := by decide

/-! ## count / clamp -/

theorem C18.count_clamp_spec :
    (∀ (l : List Nat) (v : Nat), countM l v = some (countSpec l v)) ∧
    (∀ v lo hi : Int, lo ≤ hi → clampM v lo hi = clampSpec v lo hi) :=
  ⟨fun l v => countM_eq l v, clampM_eq⟩

example : countM [3, 1, 3, 3, 0] 3 = some ⟨3, 3⟩ := by rw [C18.count_clamp_spec.1]; rfl

/-! ## count_elements_while / until, choose_first / select / cond -/

theorem C18.count_elements_spec (seq : List Nat) (val : Nat) :
    countWhile seq val = ⟨uptoW seq.length, countWhileSpec seq val⟩ ∧
    countUntil seq val = ⟨uptoW seq.length, countUntilSpec seq val⟩ :=
  ⟨countWhile_eq seq val, countUntil_eq seq val⟩

/-- `_first_impl` = value of the first pair whose condition holds, else the default; `select` = lookup; `cond` = if -/
theorem C18.choose_first_spec {α : Type} (l : List (Bool × α)) (d : α) :
    firstImpl l d = chooseFirstSpec l d ∧
    (∀ (arg : Nat) (br : List (Nat × α)), selectM arg br d = ((br.find? (·.1 == arg)).map (·.2)).getD d) ∧
    (∀ (c : Bool) (a b : α), condM c a b = if c then a else b) := by
  refine ⟨firstImpl_eq l d, ?_, fun c a b => rfl⟩
  intro arg br
  unfold selectM
  induction br with
  | nil => rfl
  | cons x r ih =>
    obtain ⟨k, v⟩ := x
    simp only [List.lookup_cons, List.find?_cons]
    by_cases h : arg = k
    · subst h; simp
    · have h1 : (arg == k) = false := by simpa using h
      have h2 : (k == arg) = false := by simpa using fun e => h e.symm
      simp only [h1, h2]; exact ih

/-! ## apply_mask -/

theorem C18.apply_mask_spec (old new mask : Bits) (h1 : old.length = new.length) (h2 : old.length = mask.length) :
    applyMask old new mask = some (applyMaskSpec old new mask) := applyMask_eq old new mask h1 h2

example : applyMask [true, true, false] [true, false, true] [false, true, true] = some [true, false, true] := by decide

/-! ## BitwiseCrc -/

/-- `update_multiple(*data)` (`_calc_steps`) = `update` iterated over the bits, the first one first -/
theorem C18.crc_multi_eq_iterated_single (poly reg : Bits) (data : List Bool) (h : data ≠ []) :
    calcSteps poly reg data = some (crcIter poly reg data) := calcSteps_eq_iter poly data reg h

/-! ## rol / ror -/

/-- `rol(inp, n)` moves bit i to position (i + n) mod w, `ror` the other way, for every width and every 0 ≤ n ≤ w;
    rotating back restores the vector -/
theorem C18.rol_ror_spec (bits : Bits) (n : Nat) (hn : n ≤ bits.length) :
    rolM bits n = some (rolSpec bits n) ∧ rorM bits n = some (rorSpec bits n) ∧
    (rolM bits n).bind (fun r => rorM r n) = some bits :=
  ⟨rolM_eq bits n hn, rorM_eq bits n hn, ror_rol bits n hn⟩

example : rolM [true, false, false, true, false] 2 = some [true, false, true, false, false] := by decide

/-! ## one_hot / is_one_hot -/

/-- `one_hot(width, pos)` has exactly bit `pos` set; `is_one_hot` (lookup in the table of all one-hot patterns) holds
    iff exactly one bit is set -/
theorem C18.one_hot_spec :
    (∀ w p, p < w → oneHot w p = some (oneHotSpec w p)) ∧ (∀ bits : Bits, isOneHot bits = isOneHotSpec bits) :=
  ⟨oneHot_eq, isOneHot_eq⟩

example : oneHotSpec 4 2 = [false, false, true, false] := by decide

/-! ## lshift_fill / rshift_fill -/

/-- `lshift_fill(val, fill)`: the fill occupies the low `width(fill)` bits, the old bits move up (the top ones drop out);
    `rshift_fill`: the old bits move down, the fill occupies the top.  Stated per bit, for every pair of widths with
    width(fill) ≤ width(val).  (The value form `(v * 2^wf + f) mod 2^wv` used by the harness oracle is tied by the
    correspondence run only.) -/
theorem C18.shift_fill_spec (val fill : Bits) (h : fill.length ≤ val.length) :
    (∃ r, lshiftFill val fill = some r ∧ r.length = val.length ∧
      ∀ i (hi : i < r.length), r[i] = if i < fill.length then fill.getD i false else val.getD (i - fill.length) false) ∧
    (∃ r, rshiftFill val fill = some r ∧ r.length = val.length ∧
      ∀ i (hi : i < r.length), r[i] = if i < val.length - fill.length then val.getD (i + fill.length) false
                                      else fill.getD (i - (val.length - fill.length)) false) :=
  ⟨lshiftFill_bits val fill h, rshiftFill_bits val fill h⟩

example : lshiftFill [true, true, false, false] [false, true] = some [false, true, true, true] := by decide

/-! ## batched -/

/-- `batched(input, n, allow_partial)` = consecutive groups of n bits from bit 0 (concatenating them gives the input back,
    every group has at most n bits and is non-empty); `select_batch(input, sel, bs)` (mask with the stretched selector,
    OR-fold of the batches): result bit i = OR over the batches j whose selector bit is set of input bit j*bs+i - for a
    one-hot selector the selected batch -/
theorem C18.batched_select_spec (bits : Bits) (n : Nat) (allow : Bool) (hn : 1 ≤ n)
    (hok : allow = true ∨ bits.length % n = 0) :
    batched bits n allow = some (chunks n bits) ∧ (chunks n bits).flatten = bits ∧
    (∀ c ∈ chunks n bits, c ≠ [] ∧ c.length ≤ n) ∧
    (∀ sel : Bits, sel ≠ [] → bits.length = sel.length * n → selectBatch bits sel n = some (selectBatchSpec bits sel n)) :=
  ⟨batched_eq_chunks bits n allow hn hok, chunks_flatten n hn bits,
   fun c hc => batchArgsF_mem n hn bits.length bits c hc,
   fun sel hs hl => selectBatch_eq bits sel n hn hs hl⟩

example : selectBatchSpec [true, false, false, true, true, true] [false, true, false] 2 = [false, true] := by decide
example : batched [true, false, true, true, false] 2 true = some [[true, false], [true, true], [false]] := by decide

/-! ## repeat / stretch / leftpad / rightpad / pad -/

/-- `repeat(val, times)` (powers of two of `val` selected by the binary digits of `times`, concatenated) = `times` copies,
    for every `times ≥ 1` -/
theorem C18.repeat_spec (val : Bits) (times : Nat) (ht : 1 ≤ times) : repeatM val times = some (repeatSpec val times) :=
  repeatM_eq val times ht

example : repeatM [true, false] 5 = some (repeatSpec [true, false] 5) := C18.repeat_spec _ 5 (by omega)
example : repeatSpec [true, false] 3 = [true, false, true, false, true, false] := by decide

/-- `stretch` repeats every bit `factor` times in place; `leftpad` / `rightpad` / `pad` add the fill bit at the most /
    least significant end (any widths, any fill) -/
theorem C18.stretch_pad_spec (bits : Bits) (hb : bits ≠ []) (fill : Bool) :
    (∀ f, 1 ≤ f → stretchM bits f = some (stretchSpec bits f)) ∧
    (∀ f b, 1 ≤ f → stretchBit b f = some (List.replicate f b)) ∧
    (∀ rw, bits.length ≤ rw → leftpadM bits rw fill = some (padSpec bits (rw - bits.length) 0 fill)) ∧
    (∀ rw, bits.length ≤ rw → rightpadM bits rw fill = some (padSpec bits 0 (rw - bits.length) fill)) ∧
    (∀ l r, padM bits l r fill = some (padSpec bits l r fill)) :=
  ⟨fun f hf => stretchM_eq bits f hf hb, fun f b hf => stretchBit_eq b f hf,
   fun rw h => leftpadM_eq bits rw fill h, fun rw h => rightpadM_eq bits rw fill h, fun l r => padM_eq bits l r fill⟩

example : stretchSpec [true, false] 3 = [true, true, true, false, false, false] := by decide
example : padSpec [true, false] 2 1 true = [true, true, false, true, true] := by decide

/-- the bitwise-polynomial-division definition: whatever the grouping of the bits into `update` / `update_multiple`
    calls, the register started at `init` holds, after the bits `msg`, the remainder of (init·x^n + msg(x))·x^w divided by
    x^w + poly(x) over GF(2) (`polyRem` = schoolbook long division, most significant coefficient first) -/
theorem C18.crc_eq_polynomial_division (poly init : Bits) (msg : List Bool) (hw : 1 ≤ poly.length)
    (h : init.length = poly.length) :
    crcIter poly init msg = crcSpec poly init msg ∧
    (msg ≠ [] → calcSteps poly init msg = some (crcSpec poly init msg)) ∧
    (∀ m₁ m₂, msg = m₁ ++ m₂ → crcIter poly (crcIter poly init m₁) m₂ = crcSpec poly init msg) := by
  have h1 := crcIter_eq_spec poly init msg hw h
  refine ⟨h1, fun hne => by rw [calcSteps_eq_iter poly msg init hne, h1], ?_⟩
  intro m₁ m₂ hm
  rw [← h1, hm]; simp [crcIter, List.foldl_append]

example : crcSpec [true, true, false] [false, true, true] [true, false] = [true, true, false] := by decide
