/-! C18 - property theorems (declared with their full name `C18.<name>`; helper lemmas go to Lemmas/) -/
