/-! C16 - property theorems (declared with their full name `C16.<name>`; helper lemmas go to Lemmas/) -/
