import CohdlVerif.Lemmas.C16Lemmas

/-!
  C16 - std timing utilities are exact to the clock.  Property theorems about the step functions of
  Model/C16Timing.lean (which mirror cohdl/std/utility.py and are tied to the emitted designs clock by clock
  by harness/c16.py).  All statements hold for EVERY duration / period / width / input sequence - there is
  no bound.  Helper lemmas: Lemmas/C16Lemmas.lean.

  Time convention: "after T clocks" = the registered values visible after T active clock edges; the
  clock in which a wait is reached is clock 0 of that wait, `resumesAt p k` speaks about clock k after it.
-/
open CohdlVerif.C16

/-! ## wait_for / Waiter.wait_for -/

/-- C16 (wait_for, constant duration, also a `Duration` converted at compile time): for every n ≥ 1 - with or
    without allow_zero, free function or Waiter - wait_for(n) is left pending when it is reached, and the
    statement after it runs in clock k after that clock IF AND ONLY IF k = n.  (n = 1 is the `await true`
    path, n ≥ 2 the counter loop loaded with n-1.) -/
theorem C16.wait_for_exact (n : Nat) (hn : 1 ≤ n) (az : Bool) (wtr : Option Nat) (v : Nat) :
    ∃ p, reach ⟨.const n, az, wtr⟩ v = .pend p ∧ ∀ k, resumesAt p k = true ↔ k = n := by
  by_cases h1 : n = 1
  · subst h1
    refine ⟨.tick, ?_, resumesAt_tick⟩
    cases az <;> simp [reach]
  · refine ⟨.loop (n - 1), ?_, ?_⟩
    · have h0 : (n == 0) = false := by simp; omega
      have h1' : (n == 1) = false := by simp; omega
      simp [reach, h0, h1']
    · intro k
      rw [resumesAt_loop]
      omega

example : ∃ p, reach ⟨.const 5, false, none⟩ 0 = .pend p ∧ resumesAt p 5 = true ∧ resumesAt p 4 = false :=
  ⟨.loop 4, rfl, rfl, rfl⟩

/-- C16 (wait_for, run-time duration `Unsigned[w]`): for every width and every value 1 ≤ v < 2^w sampled in
    the clock in which wait_for is reached, the statement after it runs in clock k IFF k = v.  (Same loop,
    counter loaded with `v - 1`; in particular v = 1 costs exactly one clock although the `await true`
    path is not taken.) -/
theorem C16.wait_for_exact_runtime (w v : Nat) (h1 : 1 ≤ v) (h2 : v < 2 ^ w) (az : Bool) (wtr : Option Nat) :
    ∃ p, reach ⟨.rt w, az, wtr⟩ v = .pend p ∧ ∀ k, resumesAt p k = true ↔ k = v := by
  refine ⟨.loop (v - 1), ?_, ?_⟩
  · have h0 : (v == 0) = false := by simp; omega
    simp [reach, h0, dec_wrap v w h1 h2]
  · intro k
    rw [resumesAt_loop]
    omega

example : ∃ p, reach ⟨.rt 3, true, some 7⟩ 1 = .pend p ∧ resumesAt p 1 = true ∧ resumesAt p 2 = false :=
  ⟨.loop 0, rfl, rfl, rfl⟩

/-- C16 (n = 0): with allow_zero a zero duration (constant, or run-time value 0) resumes in the same step:
    the wrapper process executes the statements after the wait in the very clock in which the wait is
    reached (`cont` falls through); without allow_zero a constant 0 is rejected at compile time; and
    allow_zero changes nothing for durations ≥ 1. -/
theorem C16.allow_zero (wtr : Option Nat) (w v i : Nat) (rest : List Wait) :
    reach ⟨.const 0, true, wtr⟩ v = .now ∧ reach ⟨.rt w, true, wtr⟩ 0 = .now ∧
    cont v i (⟨.const 0, true, wtr⟩ :: rest) = cont v (i + 1) rest ∧
    cont 0 i (⟨.rt w, true, wtr⟩ :: rest) = cont 0 (i + 1) rest ∧
    Wait.wf ⟨.const 0, false, wtr⟩ = false ∧
    (∀ n, 1 ≤ n → reach ⟨.const n, true, wtr⟩ v = reach ⟨.const n, false, wtr⟩ v) ∧
    (1 ≤ v → reach ⟨.rt w, true, wtr⟩ v = reach ⟨.rt w, false, wtr⟩ v) := by
  refine ⟨by simp [reach], by simp [reach], by simp [cont, reach], by simp [cont, reach], by simp [Wait.wf], ?_, ?_⟩
  · intro n hn
    have h0 : (n == 0) = false := by simp; omega
    simp [reach, h0]
  · intro hv
    have h0 : (v == 0) = false := by simp; omega
    simp [reach, h0]

/-- C16 (the wrapper process of the tie, any program of waits): if wait number `pc` is pending as `p` and
    `resumesAt p (k+1)`, then during the next k clocks - whatever `start` and the run-time port do - the
    process stays in that wait with an unchanged `stage` output, and in clock k+1 it executes the code
    after the wait (`cont`).  Together with `wait_for_exact` / `wait_for_exact_runtime`: stage i+1 is
    shown for exactly n clocks. -/
theorem C16.wait_for_process_exact (prog : List Wait) (k : Nat) (p : Pend) (s : PState)
    (ins : List (Bool × Nat)) (st : Bool) (v : Nat)
    (hp : s.pend = some p) (hr : resumesAt p (k + 1) = true) (hl : ins.length = k) :
    (prun prog s ins).stage = s.stage ∧ (prun prog s ins).pend ≠ none ∧
    pstep prog (prun prog s ins) st v = cont v (s.pc + 1) (prog.drop (s.pc + 1)) := by
  obtain ⟨hpc, hst, p', hp', hstep⟩ := prun_pending prog k p s ins hp hr hl
  refine ⟨hst, by simp [hp'], ?_⟩
  simp [pstep, hp', hstep, hpc]

/-- non-vacuity: `await start; stage<=1; wait_for(3); stage<=2; wait_for(nrt = 2); stage<=0` -/
example : (prun [⟨.const 3, false, none⟩, ⟨.rt 4, false, none⟩] PState.idle
    [(true, 0), (false, 0), (true, 9), (false, 2), (false, 0), (false, 0), (false, 0)]).stage = 0 ∧
    (prun [⟨.const 3, false, none⟩, ⟨.rt 4, false, none⟩] PState.idle
    [(true, 0), (false, 0), (true, 9), (false, 2), (false, 0)]).stage = 2 := by decide

/-! ## DelayLine / delayed -/

/-- C16 (DelayLine, every length n, every initial value, every input stream): after T clocks stage i+1
    holds the input of clock T-1-i, or the initial value while T ≤ i; the line always has n stages. -/
theorem C16.delay_line_stages (n : Nat) (init : Cell) (inp : Nat → Nat) (T i : Nat) (hi : i < n) :
    (dlAt n init inp T).length = n ∧
    (dlAt n init inp T)[i]? = some (if i < T then some (inp (T - 1 - i)) else init) :=
  ⟨dlAt_length n init inp T, dlAt_stage n init inp T i hi⟩

/-- C16 (`std.delayed(x, n)` / `DelayLine.last()`): `out (t+n) = in t` for all n ≥ 1, t and streams, and the
    output shows the initial value for all t < n.  (`x` is the current input, only used for n = 0.) -/
theorem C16.delay_line (n : Nat) (hn : 1 ≤ n) (init : Cell) (inp : Nat → Nat) (t x : Nat) :
    dlOut (dlAt n init inp (t + n)) x = some (inp t) ∧
    (t < n → dlOut (dlAt n init inp t) x = init) := by
  have hlast : ∀ T, (dlAt n init inp T).getLast? = some (if n - 1 < T then some (inp (T - 1 - (n - 1))) else init) := by
    intro T
    rw [List.getLast?_eq_getElem?, dlAt_length]
    exact dlAt_stage n init inp T (n - 1) (by omega)
  constructor
  · have h1 : n - 1 < t + n := by omega
    have h2 : t + n - 1 - (n - 1) = t := by omega
    simp [dlOut, hlast, h1, h2]
  · intro ht
    have h1 : ¬ (n - 1 < t) := by omega
    simp [dlOut, hlast, h1]

/-- delay 0 is the input itself -/
theorem C16.delay_line_zero (init : Cell) (inp : Nat → Nat) (T x : Nat) : dlOut (dlAt 0 init inp T) x = some x := by
  have h : dlAt 0 init inp T = [] := List.length_eq_zero_iff.mp (dlAt_length 0 init inp T)
  simp [dlOut, h]

/-- a delay line evaluated under `if en:` is the plain delay line over the enabled clocks -/
theorem C16.delay_line_enable (s : List Cell) (ins : List (Bool × Nat)) :
    ins.foldl (fun s i => dlStepEn s i.1 i.2) s = ((ins.filter (·.1)).map (·.2)).foldl dlStep s :=
  dlRunEn_filter s ins

example : dlOut (dlAt 3 (some 9) (fun t => t + 10) 5) 0 = some 12 ∧ dlOut (dlAt 3 (some 9) (fun t => t + 10) 2) 0 = some 9 := by
  decide

/-! ## continuous_counter -/

/-- C16 (continuous_counter, constant or run-time-but-held limit L, counter width w with L < 2^w): from any
    counter value c ≤ L, k clocks without reset give (c + k) mod (L+1): the period is exactly L+1;
    a reset clock reloads the initial value (0, or L with start_at_limit) from any state. -/
theorem C16.counter_period (rt : Bool) (w L c : Nat) (hc : c ≤ L) (hL : L < 2 ^ w) (k : Nat) (sal : Bool) (c' : Nat) :
    ccIter rt w L c k = (c + k) % (L + 1) ∧
    ccStep rt w sal c' true L = (if sal then L else 0) ∧
    ccStep rt w sal c false L = ccNext rt w c L :=
  ⟨ccIter_eq rt w L c hc hL k, by simp [ccStep, ccInit], by simp [ccStep]⟩

example : ccIter false 3 5 0 14 = 2 ∧ ccIter true 3 5 5 1 = 0 := by decide

/-! ## ClockDivider -/

/-- C16 (ClockDivider, constant duration D ≥ 2 or run-time duration held at 1 ≤ D ≤ 2^w, expressed through the
    counter end E = D - 1 < 2^w): k ≥ 1 clocks after the initial state / after the last reset clock

      * the counter is (c0 + k) mod D with c0 = 0, or D-1 with tick_at_start,
      * `state` differs from default_state exactly when that is 0 - i.e. when k mod D = 0, resp. k mod D = 1 with
        tick_at_start: period D, phase fixed by the release of the reset,
      * `rising` / `falling` are exactly the 0→1 / 1→0 changes of `state` (state before the first clock =
        default_state),

    and a reset clock restores the initial state from ANY state (so the above holds after every
    enable / disable sequence, counted from the last reset clock). -/
theorem C16.divider_period_phase (cfg : DivCfg) (d : Nat) (hE : divEnd cfg d < 2 ^ cfg.w) (k : Nat) (s : Pulse) :
    let D := divEnd cfg d + 1
    let c0 := if cfg.tickAtStart then divEnd cfg d else 0
    let tick : Nat → Bool := fun j => decide (j ≠ 0 ∧ (c0 + j) % D = 0)
    let st : Nat → Bool := fun j => if tick j then !cfg.default else cfg.default
    divStep cfg s true d = divInit cfg d ∧
    divIter cfg d (divInit cfg d) (k + 1) =
      ⟨(c0 + (k + 1)) % D, st (k + 1), !st k && st (k + 1), st k && !st (k + 1)⟩ ∧
    (cfg.tickAtStart = false → (tick (k + 1) = true ↔ (k + 1) % D = 0)) ∧
    (cfg.tickAtStart = true → 2 ≤ D → (tick (k + 1) = true ↔ (k + 1) % D = 1)) := by
  intro D c0 tick st
  have hcnt : ∀ j, (divIter cfg d (divInit cfg d) j).cnt = (c0 + j) % D := by
    intro j
    have := divIter_cnt cfg d (divInit cfg d) (by simp [divInit, ccInit]; split <;> omega) hE j
    simpa [divInit, ccInit, c0, D] using this
  have hst : ∀ j, (divIter cfg d (divInit cfg d) j).st = st j := by
    intro j
    cases j with
    | zero => simp [divIter, divInit, st, tick]
    | succ j =>
      have hc := hcnt (j + 1)
      simp only [divIter, divStep, Bool.false_eq_true, if_false, pulseUpdate] at hc ⊢
      simp only [hc, st, tick]
      by_cases h0 : (c0 + (j + 1)) % D = 0 <;> simp [h0]
  refine ⟨by simp [divStep], ?_, ?_, ?_⟩
  · have hc := hcnt (k + 1)
    have hs1 := hst (k + 1)
    have hs0 := hst k
    simp only [divIter, divStep, Bool.false_eq_true, if_false, pulseUpdate] at hc hs1 ⊢
    simp only [Pulse.mk.injEq]
    refine ⟨hc, hs1, ?_, ?_⟩
    · rw [hs0, hs1]
    · rw [hs0, hs1]
  · intro h
    simp [tick, c0, h]
  · intro h hD
    have := tas_phase (k + 1) D hD
    simp only [D, Nat.add_sub_cancel] at this
    simp [tick, c0, h]
    exact this

/-- the counter end of the two flavours: `D - 1`, for run-time durations in `Unsigned[w]` arithmetic -/
theorem C16.divider_counter_end (w d : Nat) (default tas : Bool) (h1 : 1 ≤ d) (h2 : d < 2 ^ w) :
    divEnd ⟨false, w, default, tas⟩ d = d - 1 ∧ divEnd ⟨true, w, default, tas⟩ d = d - 1 :=
  ⟨rfl, by simp [divEnd, dec_wrap d w h1 h2]⟩

/-- non-vacuity: period 5, tick_at_start: ticks after clocks 1, 6, 11 -/
example : (divIter ⟨false, 3, false, true⟩ 5 (divInit ⟨false, 3, false, true⟩ 5) 6).st = true ∧
    (divIter ⟨false, 3, false, true⟩ 5 (divInit ⟨false, 3, false, true⟩ 5) 5).st = false := by decide

/-! ## ToggleSignal -/

/-- C16 (ToggleSignal, constant durations or run-time durations held constant, counter end E = first+second-1
    < 2^wc): k ≥ 1 clocks after the initial state / last reset clock the counter is k mod (first+second),
    the state is first_state exactly while that is < first, rising / falling are exactly the changes of
    the state (state before the first clock = default_state); a reset clock restores the initial state. -/
theorem C16.toggle_period (cfg : TogCfg) (f g : Nat) (hE : togEnd cfg f g < 2 ^ cfg.wc) (k : Nat) (s : Pulse) :
    let P := togEnd cfg f g + 1
    let st : Nat → Bool := fun j =>
      if j = 0 then cfg.default else (if cfg.first then decide (j % P < f) else !decide (j % P < f))
    togStep cfg s true f g = togInit cfg ∧
    togIter cfg f g (togInit cfg) (k + 1) =
      ⟨(k + 1) % P, st (k + 1), !st k && st (k + 1), st k && !st (k + 1)⟩ := by
  intro P st
  have hcnt : ∀ j, (togIter cfg f g (togInit cfg) j).cnt = j % P := by
    intro j
    have := togIter_cnt cfg f g (togInit cfg) (by simp [togInit]) hE j
    simpa [togInit, P] using this
  have hst : ∀ j, (togIter cfg f g (togInit cfg) j).st = st j := by
    intro j
    cases j with
    | zero => simp [togIter, togInit, st]
    | succ j =>
      have hc := hcnt (j + 1)
      simp only [togIter, togStep, Bool.false_eq_true, if_false, pulseUpdate] at hc ⊢
      simp only [hc, st]
      simp
  refine ⟨by simp [togStep], ?_⟩
  have hc := hcnt (k + 1)
  have hs1 := hst (k + 1)
  have hs0 := hst k
  simp only [togIter, togStep, Bool.false_eq_true, if_false, pulseUpdate] at hc hs1 ⊢
  simp only [Pulse.mk.injEq]
  exact ⟨hc, hs1, by rw [hs0, hs1], by rw [hs0, hs1]⟩

/-- the counter end for constant durations and for run-time durations (both cast to the counter type) -/
theorem C16.toggle_counter_end (wc f g : Nat) (default first : Bool) (h1 : 1 ≤ f + g) (h2 : f + g < 2 ^ wc) :
    togEnd ⟨false, wc, default, first⟩ f g = f + g - 1 ∧ togEnd ⟨true, wc, default, first⟩ f g = f + g - 1 := by
  refine ⟨rfl, ?_⟩
  simp only [togEnd, if_true]
  rw [Nat.mod_eq_of_lt h2]
  exact dec_wrap (f + g) wc h1 h2

/-- C16 (one-step pulses, ClockDivider and ToggleSignal, ANY configuration, state, run-time periods - also
    changing from clock to clock - and reset / enable sequence): `rising` and `falling` are never high in
    two consecutive clocks and never together; `rising` marks exactly a 0→1 change of `state`, `falling` a
    1→0 change. -/
theorem C16.toggle_pulses_one_step (tc : TogCfg) (dc : DivCfg) (s : Pulse) (r r' : Bool) (f g f' g' d d' : Nat) :
    let t1 := togStep tc s r f g
    let t2 := togStep tc t1 r' f' g'
    let d1 := divStep dc s r d
    let d2 := divStep dc d1 r' d'
    (t1.rising = true → t2.rising = false) ∧ (t1.falling = true → t2.falling = false) ∧
    (t1.rising && t1.falling) = false ∧
    (r = false → t1.rising = (!s.st && t1.st) ∧ t1.falling = (s.st && !t1.st)) ∧
    (d1.rising = true → d2.rising = false) ∧ (d1.falling = true → d2.falling = false) ∧
    (d1.rising && d1.falling) = false ∧
    (r = false → d1.rising = (!s.st && d1.st) ∧ d1.falling = (s.st && !d1.st)) := by
  intro t1 t2 d1 d2
  have ht := two_step_pulses s t1 t2 (togStep_cases tc s r f g) (togStep_cases tc t1 r' f' g')
  have hd := two_step_pulses s d1 d2 (divStep_cases dc s r d) (divStep_cases dc d1 r' d')
  refine ⟨ht.1, ht.2.1, ht.2.2, ?_, hd.1, hd.2.1, hd.2.2, ?_⟩
  · intro hr; subst hr
    simp [t1, togStep, pulseUpdate]
  · intro hr; subst hr
    simp [d1, divStep, pulseUpdate]

/-- non-vacuity: first = 2, second = 3, first_state = True: states 1 0 0 0 1 1 0 0 0 1 ... after clocks 1.. -/
example : (togIter ⟨false, 3, false, true⟩ 2 3 (togInit ⟨false, 3, false, true⟩) 5).st = true ∧
    (togIter ⟨false, 3, false, true⟩ 2 3 (togInit ⟨false, 3, false, true⟩) 5).rising = true ∧
    (togIter ⟨false, 3, false, true⟩ 2 3 (togInit ⟨false, 3, false, true⟩) 6).rising = false := by decide

/-! ## debounce -/

/-- C16 (debounce, every period, initial value and input sequence): the counter starts at period/2, never
    leaves 0..period, and after any input sequence equals the saturating up/down counter `sat`
    (+1 up to period for a '1', -1 down to 0 for a '0'); the output becomes '1' exactly in a clock with
    input '1' in which the counter has reached the period, '0' exactly in a clock with input '0' in which
    the counter has reached zero, and keeps its value in every other clock. -/
theorem C16.debounce_is_saturating_counter (period : Nat) (initial : Bool) (bits : List Bool) (b : Bool) :
    let s := debRun period (debInit period initial) bits
    (debInit period initial).cnt = period / 2 ∧ (debInit period initial).res = initial ∧
    s.cnt ≤ period ∧
    s.cnt = bits.foldl (sat period) (period / 2) ∧
    (debStep period s b).res =
      (if b ∧ s.cnt = period then true else if ¬ b ∧ s.cnt = 0 then false else s.res) := by
  intro s
  have h0 : (debInit period initial).cnt ≤ period := by simp [debInit]; exact Nat.div_le_self _ _
  refine ⟨rfl, rfl, debRun_le period bits _ h0, ?_, ?_⟩
  · show (debRun period (debInit period initial) bits).cnt = _
    rw [debRun_cnt period bits _ h0]
    rfl
  · unfold debStep
    cases b <;> simp <;> split <;> simp_all

/-- C16 (debounce, closed form on runs): from a state with counter c ≤ period, j consecutive '1's give counter
    min(c+j, period) and the output is set iff j > period - c; j consecutive '0's give counter c - j and the
    output is cleared iff j > c.  In particular a burst of at most `period` samples against a saturated
    counter never changes the output, and period+1 equal samples always force it. -/
theorem C16.debounce_runs (period j : Nat) (s : Deb) (h : s.cnt ≤ period) :
    debRun period s (List.replicate j true) = ⟨min (s.cnt + j) period, s.res || decide (period - s.cnt < j)⟩ ∧
    debRun period s (List.replicate j false) = ⟨s.cnt - j, s.res && decide (j ≤ s.cnt)⟩ :=
  ⟨debRun_ones period j s h, debRun_zeros period j s⟩

example : (debRun 10 (debInit 10 false) (List.replicate 5 true)).res = false ∧
    (debRun 10 (debInit 10 false) (List.replicate 6 true)).res = true := by decide

/-! ## Duration.count_periods -/

/-- C16 (count_periods over the rationals; `_partial`: the binary64 evaluation of the real code - `1/val`,
    `1e12/freq`, the division and `round` on floats - and hence the behaviour within a few ulp of a tie or
    of the `allowed_delta` threshold are NOT modelled).  With real_result = a/b (a, b > 0):
      * an exact multiple a = k·b is converted to exactly k, for every allowed_delta,
      * every accepted result k is nearest (2·|k·b - a| ≤ b) and within the relative tolerance
        (|k·b - a|·dd ≤ dn·a, i.e. |k - a/b| / (a/b) ≤ dn/dd),
      * with allowed_delta = 0 exactly the multiples are accepted. -/
theorem C16.count_periods_exact_partial (a b dn dd k : Nat) (ha : 0 < a) (hb : 0 < b) :
    (a = k * b → countPeriods a b dn dd = some k) ∧
    (countPeriods a b dn dd = some k →
      2 * absDiff (k * b) a ≤ b ∧ absDiff (k * b) a * dd ≤ dn * a) ∧
    (0 < dd → countPeriods a b 0 dd = some k → a = k * b) := by
  have hne : ¬ (a = 0 ∨ b = 0) := by omega
  refine ⟨?_, ?_, ?_⟩
  · intro h
    subst h
    simp [countPeriods, hne, roundHalfEven_mul k b hb, absDiff]
  · intro h
    simp only [countPeriods, hne, if_false] at h
    split at h
    · next hle =>
      have hk : roundHalfEven a b = k := by simpa using h
      subst hk
      exact ⟨roundHalfEven_nearest a b hb, hle⟩
    · simp at h
  · intro hdd h
    simp only [countPeriods, hne, if_false] at h
    split at h
    · next hle =>
      have hk : roundHalfEven a b = k := by simpa using h
      subst hk
      simp only [Nat.zero_mul, Nat.le_zero_eq, Nat.mul_eq_zero] at hle
      have : absDiff (roundHalfEven a b * b) a = 0 := by omega
      unfold absDiff at this
      split at this <;> omega
    · simp at h

/-- non-vacuity: 20 ns at 1 GHz = 20 ticks; 2.5 rounds to even 2 (accepted with delta 1/4); 2.3 is no multiple -/
example : countPeriods 20000 1000 1 1000000000 = some 20 ∧ countPeriods 5 2 1 4 = some 2 ∧
    countPeriods 23 10 1 1000000000 = none := by decide
