import CohdlVerif.Lemmas.FifoLemmas
import CohdlVerif.Lemmas.C14ExtStack
import CohdlVerif.Lemmas.C14ExtFifo

/-!
  C14 - property theorems: `std.Fifo[T,N]` refines a queue of capacity N-1 and `std.Stack[T,N]`
  (NO_OVERFLOW) refines a list, for every capacity and every legal operation sequence.
  Only property theorems live here (declared with their full name `C14.*`), helper lemmas are in
  Lemmas/FifoLemmas.lean.
-/
open CohdlVerif.C14

namespace CohdlVerif.C14

/-- position of the i-th queued element in the ring buffer -/
def pos (N rd i : Nat) : Nat := if rd + i < N then rd + i else rd + i - N

/-- refinement relation between the concrete Fifo registers and the abstract queue -/
structure Rel (N : Nat) (s : Fifo) (a : Queue) : Prop where
  wr_lt : s.wr < N
  rd_lt : s.rd < N
  len : s.mem.length = N
  cap : a.q.length < N
  wr_eq : s.wr = pos N s.rd a.q.length
  elems : ∀ i, i < a.q.length → s.mem[pos N s.rd i]? = some a.q[i]?
  out_eq : s.dout = a.out

def runF (N : Nat) : Fifo → List FOp → Fifo := List.foldl (Fifo.step N)
def runQ : Queue → List FOp → Queue := List.foldl Queue.step

/-- every prefix of the operation sequence respects the documented preconditions -/
def legalSeq (N : Nat) : Queue → List FOp → Prop
  | _, [] => True
  | a, op :: ops => a.legal N op = true ∧ legalSeq N (a.step op) ops

end CohdlVerif.C14

/-- initial states are related -/
theorem C14.fifo_init_rel (N : Nat) (hN : 2 ≤ N) : Rel N (Fifo.init N) ⟨[], none⟩ := by
  refine ⟨by simp [Fifo.init]; omega, by simp [Fifo.init]; omega, by simp [Fifo.init], by simp; omega, ?_, ?_, rfl⟩
  · simp [Fifo.init, pos]
  · intro i hi; simp at hi

/-- one legal operation preserves the refinement relation (all four operations, any capacity) -/
theorem C14.fifo_step_refines (N : Nat) (hN : 2 ≤ N) (s : Fifo) (a : Queue) (op : FOp)
    (hR : Rel N s a) (hl : a.legal N op = true) : Rel N (s.step N op) (a.step op) := by
  obtain ⟨hwr, hrd, hlen, hcap, hweq, hel, hout⟩ := hR
  have nwr := fifoNext_eq N s.wr hN hwr
  have nrd := fifoNext_eq N s.rd hN hrd
  cases op with
  | idle => exact ⟨hwr, hrd, hlen, hcap, hweq, hel, hout⟩
  | push v =>
    simp only [Queue.legal, decide_eq_true_eq] at hl
    refine ⟨?_, hrd, by simp [Fifo.step, hlen], by simp [Queue.step]; omega, ?_, ?_, hout⟩
    · simp only [Fifo.step]; exact fifoNext_lt N s.wr hN hwr
    · simp only [Fifo.step, Queue.step, List.length_append, List.length_singleton, nwr]
      unfold pos at *; split <;> split <;> split at hweq <;> omega
    · intro i hi
      simp only [Queue.step, List.length_append, List.length_singleton] at hi
      simp only [Fifo.step, Queue.step, List.getElem?_set, List.getElem?_append]
      by_cases hlt : i < a.q.length
      · have hne : s.wr ≠ pos N s.rd i := by unfold pos at *; split <;> split at hweq <;> omega
        simp [hne, hlt, hel i hlt]
      · have hi2 : i = a.q.length := by omega
        subst hi2
        simp [← hweq, hlen, hwr]
  | pop =>
    simp only [Queue.legal, decide_eq_true_eq] at hl
    have hpos : 0 < a.q.length := List.length_pos_iff.mpr hl
    refine ⟨hwr, ?_, hlen, by simp [Queue.step]; omega, ?_, ?_, ?_⟩
    · simp only [Fifo.step]; exact fifoNext_lt N s.rd hN hrd
    · simp only [Fifo.step, Queue.step, List.length_tail, nrd]
      unfold pos at *; split <;> split <;> split at hweq <;> omega
    · intro i hi
      simp only [Queue.step, List.length_tail] at hi
      have h1 := hel (i + 1) (by omega)
      simp only [Fifo.step, Queue.step, List.getElem?_tail, nrd]
      have hp : pos N (if s.rd + 1 < N then s.rd + 1 else 0) i = pos N s.rd (i + 1) := by
        unfold pos; split <;> split <;> split <;> omega
      rw [hp, h1]
    · have h0 := hel 0 hpos
      simp only [pos, Nat.add_zero, hrd, if_true] at h0
      simp [Fifo.step, Queue.step, List.getD_eq_getElem?_getD, h0, List.head?_eq_getElem?]
  | both v =>
    simp only [Queue.legal, Bool.and_eq_true, decide_eq_true_eq] at hl
    obtain ⟨hne, hroom⟩ := hl
    have hpos : 0 < a.q.length := List.length_pos_iff.mpr hne
    refine ⟨?_, ?_, by simp [Fifo.step, hlen], by simp [Queue.step]; omega, ?_, ?_, ?_⟩
    · simp only [Fifo.step]; exact fifoNext_lt N s.wr hN hwr
    · simp only [Fifo.step]; exact fifoNext_lt N s.rd hN hrd
    · simp only [Fifo.step, Queue.step, List.length_append, List.length_tail, List.length_singleton, nwr, nrd]
      unfold pos at *; split <;> split <;> split <;> split at hweq <;> omega
    · intro i hi
      simp only [Queue.step, List.length_append, List.length_tail, List.length_singleton] at hi
      simp only [Fifo.step, Queue.step, List.getElem?_set, List.getElem?_append, List.length_tail,
        List.getElem?_tail, nrd]
      have hp : pos N (if s.rd + 1 < N then s.rd + 1 else 0) i = pos N s.rd (i + 1) := by
        unfold pos; split <;> split <;> split <;> omega
      rw [hp]
      by_cases hlt : i < a.q.length - 1
      · have hne2 : s.wr ≠ pos N s.rd (i + 1) := by unfold pos at *; split <;> split at hweq <;> omega
        simp [hne2, hlt, hel (i + 1) (by omega)]
      · have hi3 : i + 1 = a.q.length := by omega
        have hi4 : i - (a.q.length - 1) = 0 := by omega
        rw [hi3, ← hweq]
        simp [hlen, hwr, hlt, hi4]
    · have h0 := hel 0 hpos
      simp only [pos, Nat.add_zero, hrd, if_true] at h0
      simp [Fifo.step, Queue.step, List.getD_eq_getElem?_getD, h0, List.head?_eq_getElem?]

/-- observable indications are exact in related states: `empty` iff the queue is empty, `full` iff it
    holds N-1 elements, `front` is the oldest element -/
theorem C14.fifo_flags_exact (N : Nat) (hN : 2 ≤ N) (s : Fifo) (a : Queue) (hR : Rel N s a) :
    s.empty = (a.q.length == 0) ∧ s.full N = (a.q.length + 1 == N) ∧
    (a.q ≠ [] → s.front = a.q.head?) ∧ s.dout = a.out := by
  obtain ⟨hwr, hrd, hlen, hcap, hweq, hel, hout⟩ := hR
  have nwr := fifoNext_eq N s.wr hN hwr
  refine ⟨?_, ?_, ?_, hout⟩
  · unfold Fifo.empty; unfold pos at hweq
    by_cases h : a.q.length = 0
    · have : s.wr = s.rd := by split at hweq <;> omega
      simp [h, this]
    · have : s.wr ≠ s.rd := by split at hweq <;> omega
      rw [beq_eq_false_iff_ne.mpr this, beq_eq_false_iff_ne.mpr h]
  · unfold Fifo.full; rw [nwr]; unfold pos at hweq
    by_cases h : a.q.length + 1 = N
    · have : (if s.wr + 1 < N then s.wr + 1 else 0) = s.rd := by split <;> split at hweq <;> omega
      simp [h, this]
    · have : (if s.wr + 1 < N then s.wr + 1 else 0) ≠ s.rd := by split <;> split at hweq <;> omega
      rw [beq_eq_false_iff_ne.mpr this, beq_eq_false_iff_ne.mpr h]
  · intro hne
    have hpos : 0 < a.q.length := List.length_pos_iff.mpr hne
    have h0 := hel 0 hpos
    simp only [pos, Nat.add_zero, hrd, if_true] at h0
    simp [Fifo.front, List.getD_eq_getElem?_getD, h0, List.head?_eq_getElem?]

/-- C14 (Fifo part), full strength: for every capacity N ≥ 2 and every operation sequence that respects the
    documented preconditions, the Fifo registers stay related to the abstract queue - hence elements
    come out in push order without loss or duplication, occupancy never exceeds N-1 and the
    indications are exact (by `C14.fifo_flags_exact`) after every clock. -/
theorem C14.fifo_refines_queue (N : Nat) (hN : 2 ≤ N) (ops : List FOp) :
    ∀ (s : Fifo) (a : Queue), Rel N s a → legalSeq N a ops → Rel N (runF N s ops) (runQ a ops) := by
  induction ops with
  | nil => intro s a h _; exact h
  | cons op ops ih =>
    intro s a hR hl
    exact ih _ _ (C14.fifo_step_refines N hN s a op hR hl.1) hl.2

/-- pushed elements come out in order: a corollary in the words of the property -/
theorem C14.fifo_pop_returns_oldest (N : Nat) (hN : 2 ≤ N) (s : Fifo) (a : Queue) (hR : Rel N s a)
    (x : Nat) (rest : List Nat) (hq : a.q = x :: rest) :
    (s.step N .pop).dout = some x ∧ Rel N (s.step N .pop) ⟨rest, some x⟩ := by
  have hl : a.legal N .pop = true := by simp [Queue.legal, hq]
  have h := C14.fifo_step_refines N hN s a .pop hR hl
  have h2 : a.step .pop = ⟨rest, some x⟩ := by simp [Queue.step, hq]
  rw [h2] at h
  exact ⟨by rw [h.out_eq], h⟩

/-- non-vacuity: a concrete non-power-of-two Fifo with a wrapped-around write index is related to its queue -/
example : Rel 3 (runF 3 (Fifo.init 3) [.push 7, .push 8, .pop, .both 9]) ⟨[9], some 8⟩ := by
  have h := C14.fifo_refines_queue 3 (by omega) [.push 7, .push 8, .pop, .both 9] _ _
    (C14.fifo_init_rel 3 (by omega)) (by simp [legalSeq, Queue.legal, Queue.step])
  simpa [runQ, Queue.step] using h

/-! ## C14 extension: `std.Stack[T,N]` (NO_OVERFLOW and DROP_OLD) refines the abstract `Lifo`
  (helper lemmas and the refinement relations `SRelN` / `SRelD` / `SRel`: Lemmas/C14ExtStack.lean) -/

/-- initial states are related (DROP_OLD keeps a write position `idx < N`, hence N ≥ 1) -/
theorem C14.stack_init_rel (m : Mode) (N : Nat) (hN : 1 ≤ N) : SRel m N (Stack.init N) ⟨[], none⟩ := by
  cases m with
  | noOverflow => exact srelN_init N
  | dropOld => exact srelD_init N hN

/-- one legal operation (idle / push / pop / reset) preserves the refinement relation, in both modes and for
    every capacity.  DROP_OLD: `push` is always legal and the abstract stack keeps the N newest elements
    (`(v :: st).take N`): a push to a full stack drops exactly the oldest element. -/
theorem C14.stack_step_refines (m : Mode) (N : Nat) (s : Stack) (a : Lifo) (op : SOp)
    (hR : SRel m N s a) (hl : a.legal m N op = true) : SRel m N (s.step m N op) (a.step m N op) :=
  srel_step m N s a op hR hl

/-- in related states the observables are exact: `size` is the number of stacked elements, `empty` / `full`
    hold exactly at 0 / N elements, `front` is the newest element, the output register is the last popped one -/
theorem C14.stack_flags_exact (m : Mode) (N : Nat) (s : Stack) (a : Lifo) (hR : SRel m N s a) :
    s.count m = a.st.length ∧ s.empty m = (a.st.length == 0) ∧ s.full m N = (a.st.length == N) ∧
    (a.st ≠ [] → s.front m N = a.st.head?) ∧ s.dout = a.out ∧ a.st.length ≤ N := by
  cases m with
  | noOverflow => have h := srelN_flags N s a hR; exact ⟨h.1, h.2.1, h.2.2.1, h.2.2.2.1, h.2.2.2.2, hR.cap⟩
  | dropOld => have h := srelD_flags N s a hR; exact ⟨h.1, h.2.1, h.2.2.1, h.2.2.2.1, h.2.2.2.2, hR.cap⟩

/-- C14 (Stack part), full strength: for both modes, every capacity N ≥ 1 and every operation sequence that
    respects the documented preconditions (incl. reset at any point), the Stack registers stay related to the
    abstract LIFO - elements come out newest-first without loss or duplication, DROP_OLD loses exactly the
    oldest element on a push to a full stack, and size / empty / full / front are exact after every clock
    (by `C14.stack_flags_exact`). -/
theorem C14.stack_refines_list (m : Mode) (N : Nat) (ops : List SOp) :
    ∀ (s : Stack) (a : Lifo), SRel m N s a → legalSeqS m N a ops →
      SRel m N (runS m N s ops) (runL m N a ops) := by
  induction ops with
  | nil => intro s a h _; exact h
  | cons op ops ih =>
    intro s a hR hl
    exact ih _ _ (C14.stack_step_refines m N s a op hR hl.1) hl.2

/-- non-vacuity: a DROP_OLD stack of capacity 2 after three pushes has dropped the oldest element (7) and
    stays related to its list; the pop returns the newest (9) -/
example : SRel .dropOld 2 (runS .dropOld 2 (Stack.init 2) [.push 7, .push 8, .push 9, .pop]) ⟨[8], some 9⟩ := by
  have h := C14.stack_refines_list .dropOld 2 [.push 7, .push 8, .push 9, .pop] _ _
    (C14.stack_init_rel .dropOld 2 (by omega)) (by simp [legalSeqS, Lifo.legal, Lifo.step])
  simpa [runL, Lifo.step] using h

/-- non-vacuity (NO_OVERFLOW with a reset in the middle) -/
example : SRel .noOverflow 3 (runS .noOverflow 3 (Stack.init 3) [.push 1, .push 2, .reset, .push 5])
    ⟨[5], none⟩ := by
  have h := C14.stack_refines_list .noOverflow 3 [.push 1, .push 2, .reset, .push 5] _ _
    (C14.stack_init_rel .noOverflow 3 (by omega)) (by simp [legalSeqS, Lifo.legal, Lifo.step])
  simpa [runL, Lifo.step] using h

/-! ## C14 extension: the DELAYED Fifo (`tx_delay` / `rx_delay` != 0, producer and consumer in different contexts)
  Model: Model/C14ExtFifo.lean (`DFifo`: set / buf / remote indices, SyncFlag ping-pong with the C15 flag model,
  asynchronous interleaving of the pushing and the popping context; no analog metastability).  The wrapper
  guards `push` with the SENDER's view of `full()` and `pop` with the RECEIVER's view of `empty()`.
  Relation `DRel` (Lemmas/C14ExtFifo.lean): ghost unwrapped counters with
  `RD ≤ BR ≤ SR ≤ W ≤ BW ≤ SW ≤ RD + N - 1`, every index register = its counter mod N, the queue content is
  `mem[SR .. SW)`.  All delays, all capacities N ≥ 2, all schedules. -/

/-- one step of the delayed Fifo - ANY interleaving (`i.tp`, `i.tc`), any attempt - performs on the abstract queue
    exactly the operation the guards let through (`opOf`) and preserves the refinement relation -/
theorem C14.fifo_delayed_step_refines (N : Nat) (hN : 2 ≤ N) (s : DFifo) (a : Queue) (g : Ghost)
    (h : DRel N s a g) (i : DIn) :
    DRel N (s.step N i) (a.step (s.opOf N i))
      (g.step (s.effPush N i).isSome (s.effPop i) (i.tp && !s.flag.pSet) (i.tc && s.flag.cSet)) ∧
    a.legal N (s.opOf N i) = true :=
  ⟨drel_step N hN s a g h i, drel_legal N hN s a g h i⟩

/-- occupancy as seen by each side is conservative: when the sender sees not-full there really is room, when the
    receiver sees not-empty there really is an element; `front` is the oldest element, the output register
    the last popped one, the occupancy never exceeds N-1 -/
theorem C14.fifo_delayed_conservative (N : Nat) (hN : 2 ≤ N) (s : DFifo) (a : Queue) (g : Ghost)
    (h : DRel N s a g) :
    a.q.length < N ∧ s.dout = a.out ∧ (a.q ≠ [] → s.front = a.q.head?) ∧
    (s.fullS N = false → a.q.length + 1 < N) ∧ (s.emptyR = false → a.q ≠ []) :=
  drel_flags N hN s a g h

/-- C14 (delayed Fifo), full strength: for every capacity N ≥ 2, every tx/rx delay and every schedule of the two
    contexts, the state stays related to the abstract queue driven by the executed operations (order and content
    exact: what is popped is what was pushed, in order, nothing lost or duplicated), and no executed operation
    ever overflows or underflows the queue. -/
theorem C14.fifo_delayed_refines_queue (N : Nat) (hN : 2 ≤ N) (txd rxd : Nat) (ins : List DIn) :
    (∃ g, DRel N (DFifo.run N (DFifo.init N txd rxd) ins)
            (DFifo.runQ N (DFifo.init N txd rxd) ⟨[], none⟩ ins) g) ∧
    DFifo.legalRun N (DFifo.init N txd rxd) ⟨[], none⟩ ins :=
  drel_run N hN ins _ _ _ (drel_init N txd rxd hN)

/-- non-vacuity: N = 3, tx_delay 1, rx_delay 2; two pushes, a third attempt that the sender's view refuses,
    later two pops: the abstract queue saw push 5, push 6, pop, pop -/
example :
    let ins : List DIn := [⟨true, some 5, false, false⟩, ⟨true, some 6, true, true⟩, ⟨true, some 7, true, true⟩,
      ⟨true, none, true, true⟩, ⟨true, none, true, true⟩, ⟨true, none, true, true⟩, ⟨true, none, true, true⟩,
      ⟨true, none, true, true⟩, ⟨true, none, true, true⟩, ⟨false, none, true, true⟩]
    DFifo.runQ 3 (DFifo.init 3 1 2) ⟨[], none⟩ ins = ⟨[], some 6⟩ ∧
    (DFifo.run 3 (DFifo.init 3 1 2) ins).dout = some 6 := by decide
