#!/usr/bin/env python3
"""regenerate seeded/README.md from seeded/*/meta.json"""
import json, glob, os
rows = []
for f in sorted(glob.glob(os.path.join(os.path.dirname(__file__), "..", "seeded", "*", "meta.json"))):
    m = json.load(open(f))
    d = os.path.basename(os.path.dirname(f))
    chk = m.get("checks", {})
    rows.append((d, m.get("confirmed"), ", ".join(m.get("detected_by", [])) or "-", "; ".join(f"{k}: exit {v['exit']}" for k, v in chk.items()), m.get("repo_head", "")))
out = ["# Seeded property-breaking changes", "",
       "Each directory holds a change written by an independent sub-agent that saw only the property text and a scratch worktree",
       "(patch.diff, its demonstration demo.py, README.md) and meta.json = what `tools/eval_seed.py` ran: the patch applied to a fresh",
       "worktree of /repo HEAD, the 66-test baseline with the patch, the demo on the unmodified and the patched tree, and the registered",
       "quick check(s) run against the patched tree (COHDL_REPO).  None of these changes is ever committed to /repo.", "",
       "| seeded change | confirmed (tests pass, demo 0/1) | detected by | checks run | /repo HEAD |", "|---|---|---|---|---|"]
for r in rows:
    out.append("| " + " | ".join(str(x) for x in r) + " |")
open(os.path.join(os.path.dirname(__file__), "..", "seeded", "README.md"), "w").write("\n".join(out) + "\n")
print("\n".join(out[-len(rows):]))
