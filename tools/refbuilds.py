#!/venv/bin/python
"""Regression aid for fix: commits: compile every entity of <repo>/tests/reference_builds with <repo>'s cohdl
(cocotb is stubbed) and print one line per entity:  <module>.<Entity> <ok sha256-of-vhdl | ERR type>.
usage: refbuilds.py <repo-dir> > out.txt   (diff the outputs of two trees)"""
import sys, os, types, importlib.util, hashlib, pathlib, inspect, multiprocessing as mp

repo = pathlib.Path(sys.argv[1]).resolve()

def stub():
    class Any:
        def __init__(self, *a, **k): pass
        def __call__(self, *a, **k):
            if len(a) == 1 and callable(a[0]) and not k: return a[0]
            return Any()
        def __getattr__(self, n):
            if n.startswith("__"):
                raise AttributeError(n)
            return Any()
    for name in ["cocotb", "cocotb.clock", "cocotb.triggers", "cocotb.binary", "cocotb_test", "cocotb_test.simulator", "cocotb.types", "cocotb.handle", "cocotb.utils", "cocotb.result"]:
        m = types.ModuleType(name)
        def _ga(n):
            if n.startswith("__"):
                raise AttributeError(n)
            return Any()
        m.__getattr__ = _ga
        sys.modules[name] = m

def work(path):
    stub()
    sys.path.insert(0, str(repo)); sys.path.insert(0, str(repo / "tests"))
    import cohdl
    from cohdl import std
    out = []
    name = "rb_" + hashlib.md5(str(path).encode()).hexdigest()[:8]
    try:
        spec = importlib.util.spec_from_file_location(name, path)
        mod = importlib.util.module_from_spec(spec); sys.modules[name] = mod
        spec.loader.exec_module(mod)
    except BaseException as e:
        return [f"{path.relative_to(repo)} IMPORT-ERR {type(e).__name__}"]
    for n, obj in sorted(vars(mod).items()):
        if inspect.isclass(obj) and issubclass(obj, cohdl.Entity) and obj.__module__ == name:
            try:
                t = std.VhdlCompiler.to_string(obj)
                out.append(f"{path.relative_to(repo)}::{n} ok {hashlib.sha256(t.encode()).hexdigest()[:16]}")
            except BaseException as e:
                out.append(f"{path.relative_to(repo)}::{n} ERR {type(e).__name__}")
    return out

if __name__ == "__main__":
    files = sorted((repo / "tests" / "reference_builds").rglob("test_*.py"))
    with mp.get_context("fork").Pool(8, maxtasksperchild=4) as p:
        for lines in p.map(work, files):
            for l in lines: print(l)
