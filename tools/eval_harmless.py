#!/usr/bin/env python3
"""Evaluate one behaviour-preserving refactoring for false alarms.
usage: eval_harmless.py <Cxx> <dir with patch.diff, README.md> <name> [other checks...]
 1. fresh scratch worktree of /repo HEAD, apply patch.diff
 2. 66-test baseline must still pass with the patch
 3. run the registered quick check of the property (and of the extra ones) with COHDL_REPO=<patched worktree>:
    the expected exit code is 0 - anything else is a false alarm of the machinery
 4. copy to /verif/harmless/<Cxx>-<name>/ with meta.json; remove the worktree"""
import json, os, shutil, subprocess, sys, time
pid, src, name = sys.argv[1], sys.argv[2], sys.argv[3]
extra_checks = sys.argv[4:]
wt = f"/tmp/evalh_wt_{pid}_{name}"
def sh(cmd, **kw):
    return subprocess.run(cmd, shell=True, capture_output=True, text=True, **kw)
sh(f"git -C /repo worktree remove --force {wt}")
r = sh(f"git -C /repo worktree add --detach {wt} HEAD")
assert r.returncode == 0, r.stderr
meta = {"property": pid, "name": name, "repo_head": sh("git -C /repo rev-parse --short HEAD").stdout.strip()}
try:
    r = sh(f"git -C {wt} apply {src}/patch.diff")
    meta["patch_applies"] = r.returncode == 0
    if r.returncode != 0:
        meta["apply_error"] = r.stderr[-500:]
    else:
        r = sh(f"cd {wt} && /venv/bin/python -m pytest -q -p no:cacheprovider --timeout=900 --continue-on-collection-errors 2>&1 | tail -1")
        meta["baseline_with_patch"] = r.stdout.strip()
        meta["checks"] = {}
        for chk in [pid] + extra_checks:
            t = time.time()
            c = sh(f"cd /verif && COHDL_VERIF_ONLY=1 COHDL_REPO={wt} /venv/bin/python run.py quick {chk}", timeout=3000)
            lines = [l for l in c.stdout.splitlines() if l.startswith("VIOLATION") or l.startswith("  ")]
            meta["checks"][chk] = {"exit": c.returncode, "wall_s": round(time.time() - t), "first_lines": [l[:400] for l in lines[:4]],
                                   "summary": c.stdout.strip().splitlines()[-1][:300] if c.stdout.strip() else c.stderr[-300:]}
        meta["alarms"] = [k for k, v in meta["checks"].items() if v["exit"] != 0]
finally:
    sh(f"git -C /repo worktree remove --force {wt}")
dst = f"/verif/harmless/{pid}-{name}"
same = os.path.realpath(src) == os.path.realpath(dst)
os.makedirs(dst, exist_ok=True)
if not same:
    for f in os.listdir(src):
        p = os.path.join(src, f)
        if os.path.isfile(p) and f in ("patch.diff", "README.md"):
            shutil.copy(p, dst)
json.dump(meta, open(os.path.join(dst, "meta.json"), "w"), indent=1)
print(pid, name, "applies" if meta.get("patch_applies") else "PATCH-FAILS", meta.get("baseline_with_patch"), "alarms:", meta.get("alarms"))
for k, v in meta.get("checks", {}).items():
    print(" ", k, v["exit"], v["summary"][:200])
    for l in v["first_lines"][:2]:
        print("    ", l[:250])
