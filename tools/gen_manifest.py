#!/usr/bin/env python3
"""Regenerate MANIFEST.json from the table below (run from /verif)."""
import json, os, sys
HERE = os.path.dirname(os.path.dirname(os.path.abspath(__file__)))

NOTE = ("Trusted: Lean 4.33 kernel (axioms of every property theorem audited to be within propext / Classical.choice / Quot.sound, "
        "no sorry / native_decide / bv_decide), Lean compiler for the driver, the hand-written VHDL-subset interpreter "
        "harness/vhdl_sim.py (no VHDL simulator installed), the correspondence harness; the Lean model mirrors the Python code "
        "by hand and is tied to /repo only on the inputs the correspondence explores.")

# per-property metadata of the claimed checks lives in manifest.d/Cxx.json {"technique","text","design_ref"}
CHECKS = {}
for fn in sorted(os.listdir(os.path.join(HERE, "manifest.d"))):
    if fn.endswith(".json"):
        d = json.load(open(os.path.join(HERE, "manifest.d", fn)))
        CHECKS[fn[:-5]] = (True, d["technique"], d["text"], d["design_ref"])
ALL = [f"C{i:02d}" for i in range(1, 21)]

def main():
    checks = []
    na = []
    for pid in ALL:
        if pid in CHECKS and CHECKS[pid][0]:
            _, tech, text, ref = CHECKS[pid]
            checks.append({
                "property_id": pid,
                "quick_cmd": f"/venv/bin/python run.py quick {pid}",
                "thorough_cmd": f"/venv/bin/python run.py thorough {pid}",
                "evidence_file": f"evidence/{pid}.json",
                "replay_cmd_template": f"/venv/bin/python run.py replay {pid} --replay {{path}}",
                "engine": "lean4-model+correspondence",
                "level_claimed": {"category": "proof", "text": text, "design_ref": ref},
                "level_note": NOTE,
                "technique": tech,
            })
        else:
            na.append({"property_id": pid, "reason": "check not yet built in this commit (planned, see DESIGN.md §5/§10); not claimed until it runs"})
    m = {
        "version": 1,
        "setup_cmd": "cd lean && lake build CohdlVerif " + " ".join(f"model_c{i:02d}" for i in range(1, 21)),
        "hooks": {
            "guard": "COHDL_VERIF",
            "enable": "no hook is needed so far: IR (std.VhdlCompiler.to_ir), module globals and emitted text are reachable from outside; checks export COHDL_VERIF=1 anyway",
            "baseline_off_cmd": "cd /repo && env -u COHDL_VERIF /venv/bin/python -m pytest -ra -q -p no:cacheprovider --timeout=900 --continue-on-collection-errors",
            "source_commits": [],
            "add_only": True,
        },
        "engines": [
            {"name": "lean4-model+correspondence", "path": "lean/ + harness/ + run.py",
             "serves_properties": [c["property_id"] for c in checks],
             "kind_free_text": "Lean 4 models and theorems (lake project lean/, property theorems in CohdlVerif/Props), compiled model driver cohdl_model, Python correspondence harness driving /repo's real compiler and a VHDL-subset interpreter"},
        ],
        "checks": checks,
        "notes": "exit 2 of a check = infrastructure error (never a verdict). known_findings.json lists recorded / fixed genuine defects.",
        "not_applicable": na,
    }
    json.dump(m, open(os.path.join(HERE, "MANIFEST.json"), "w"), indent=1)
    print(f"{len(checks)} checks, {len(na)} not claimed")

main()
