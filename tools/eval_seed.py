#!/usr/bin/env python3
"""Confirm and evaluate one seeded change.
usage: eval_seed.py <Cxx> <seed-dir with patch.diff, demo.py, README.md> <name>
 1. fresh scratch worktree of /repo HEAD, apply patch.diff
 2. 66-test baseline must still pass with the patch
 3. demo.py must exit 0 on /repo (unmodified) and 1 on the patched worktree
 4. run the registered quick check of the property with COHDL_REPO=<patched worktree>; record exit code
 5. copy to /verif/seeded/<Cxx>-<name>/ with meta.json; remove the worktree"""
import json, os, shutil, subprocess, sys, time
pid, src, name = sys.argv[1], sys.argv[2], sys.argv[3]
extra_checks = sys.argv[4:]  # other properties whose checks should also be run
wt = f"/tmp/eval_wt_{pid}_{name}"
def sh(cmd, **kw):
    return subprocess.run(cmd, shell=True, capture_output=True, text=True, **kw)
sh(f"git -C /repo worktree remove --force {wt}")
r = sh(f"git -C /repo worktree add --detach {wt} HEAD")
assert r.returncode == 0, r.stderr
meta = {"property": pid, "name": name, "repo_head": sh("git -C /repo rev-parse --short HEAD").stdout.strip()}
try:
    r = sh(f"git -C {wt} apply {src}/patch.diff")
    meta["patch_applies"] = r.returncode == 0
    if r.returncode != 0:
        meta["apply_error"] = r.stderr[-500:]
    else:
        r = sh(f"cd {wt} && /venv/bin/python -m pytest -q -p no:cacheprovider --timeout=900 --continue-on-collection-errors 2>&1 | tail -1")
        meta["baseline_with_patch"] = r.stdout.strip()
        d0 = sh(f"cd {src} && /venv/bin/python demo.py /repo", timeout=900)
        d1 = sh(f"cd {src} && /venv/bin/python demo.py {wt}", timeout=900)
        meta["demo_unmodified_exit"] = d0.returncode
        meta["demo_patched_exit"] = d1.returncode
        meta["demo_patched_output"] = (d1.stdout + d1.stderr)[-600:]
        meta["confirmed"] = ("66 passed" in meta["baseline_with_patch"]) and d0.returncode == 0 and d1.returncode == 1
        meta["checks"] = {}
        for chk in [pid] + extra_checks:
            t = time.time()
            c = sh(f"cd /verif && COHDL_VERIF_ONLY=1 COHDL_REPO={wt} /venv/bin/python run.py quick {chk}", timeout=3000)
            lines = [l for l in c.stdout.splitlines() if l.startswith("VIOLATION") or l.startswith("  ")]
            meta["checks"][chk] = {"exit": c.returncode, "wall_s": round(time.time() - t), "first_lines": [l[:400] for l in lines[:4]],
                                   "summary": c.stdout.strip().splitlines()[-1][:300] if c.stdout.strip() else c.stderr[-300:]}
        meta["detected_by"] = [k for k, v in meta["checks"].items() if v["exit"] == 1]
finally:
    sh(f"git -C /repo worktree remove --force {wt}")
dst = f"/verif/seeded/{pid}-{name}"
if os.path.realpath(src) != os.path.realpath(dst):
    shutil.rmtree(dst, ignore_errors=True)
os.makedirs(dst, exist_ok=True)
for f in ([] if os.path.realpath(src) == os.path.realpath(dst) else os.listdir(src)):
    if f in ("PROPERTY.txt", "PROMPT.txt", "__pycache__"):
        continue
    p = os.path.join(src, f)
    if os.path.isfile(p):
        shutil.copy(p, dst)
json.dump(meta, open(os.path.join(dst, "meta.json"), "w"), indent=1)
print(json.dumps({k: meta.get(k) for k in ("property", "name", "confirmed", "detected_by", "baseline_with_patch", "demo_unmodified_exit", "demo_patched_exit")}, indent=0))
for k, v in meta.get("checks", {}).items():
    print(k, v["exit"], v["summary"][:200])
