#!/bin/bash
# usage: apply_fix.sh <patch-file> "<commit message starting with fix:>"
# applies one proposed repair to /repo, runs the 66-test baseline + the reference-build regression, commits.
set -e
P=$(readlink -f "$1"); MSG="$2"
cd /repo
git diff --quiet || { echo "/repo has uncommitted changes"; exit 1; }
T0=$(date +%s); /venv/bin/python /verif/tools/refbuilds.py /repo > /tmp/rb_before.txt 2>/dev/null; T1=$(date +%s)
git apply --check "$P" && git apply "$P"
R=$(/venv/bin/python -m pytest -q -p no:cacheprovider --timeout=900 --continue-on-collection-errors 2>&1 | tail -1)
echo "pytest: $R"
case "$R" in *"66 passed"*) ;; *) echo "baseline broken, reverting"; git checkout -- .; exit 1;; esac
T2=$(date +%s); /venv/bin/python /verif/tools/refbuilds.py /repo > /tmp/rb_after.txt 2>/dev/null; T3=$(date +%s)
echo "reference builds compile time: before $((T1-T0))s after $((T3-T2))s"
echo "reference builds changed: $(diff /tmp/rb_before.txt /tmp/rb_after.txt | grep -c '^>')"
diff /tmp/rb_before.txt /tmp/rb_after.txt | grep '^>' | head -5 || true
git add -A && git commit -qm "$MSG" && git log --oneline | head -1
