import cohdl
from cohdl import Bit, Port, Unsigned, Signed, BitVector, Signal, Null
from cohdl import std

class Leaf(cohdl.Entity):
    clk = Port.input(Bit)
    a = Port.input(Unsigned[4])
    b = Port.input(BitVector[2])
    y = Port.output(Unsigned[4], default=Null)
    z = Port.output(Bit, default=Null)
    def architecture(self):
        @std.sequential(std.Clock(self.clk))
        def proc():
            self.y <<= self.a + self.b.unsigned
            self.z <<= self.b[0]

class Mid(cohdl.Entity):
    clk = Port.input(Bit)
    x = Port.input(BitVector[8])
    r = Port.output(BitVector[8], default=Null)
    q = Port.output(Bit)
    q2 = Port.output(Bit)
    def architecture(self):
        t = Signal[Unsigned[4]]()
        Leaf(clk=self.clk, a=self.x[3:0].unsigned, b=self.x[5:4], y=t, z=self.q)
        u = Signal[BitVector[8]]()
        Leaf(clk=self.clk, a=t, b=self.x[7:6], y=u[7:4].unsigned, z=self.q2)
        @std.concurrent
        def logic():
            self.r <<= u

class Top(cohdl.Entity):
    clk = Port.input(Bit)
    x = Port.input(BitVector[8])
    r = Port.output(BitVector[8])
    q = Port.output(Bit)
    q2 = Port.output(Bit)
    def architecture(self):
        Mid(clk=self.clk, x=self.x, r=self.r, q=self.q, q2=self.q2)
