import c12_hierarchy_design as d6
from cohdl import std
try:
    print(std.VhdlCompiler.to_string(d6.Top))
except BaseException as e:
    import traceback; traceback.print_exc()
