import c10_dispatch_design as d4
from cohdl import std
std.VhdlCompiler.to_string(d4.Probe)
print("cohdl :", d4.RESULT)
A,B=d4.A,d4.B
x,*y,z=[1,2,3,4,5]
print("python:", [A(1)+B(2), 1<2<3, (0 and 5, 3 and 5, 0 or 7, 0 or 0), (x,y,z)])
