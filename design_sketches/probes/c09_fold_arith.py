import cohdl
from cohdl import Bit, Port, Unsigned, Signed, Variable, Null, true, false, BitVector
from cohdl import std

# C09 suspicions
a = Unsigned[4](5); b = Unsigned[2](1)
print("5u4 - 1u2 =", a - b)
print("3 * u4(5) =", 3 * Unsigned[4](5))
try:
    print("u4(5)*3 =", Unsigned[4](5)*3)
except Exception as e: print("ERR", e)
print("1u2 - 5u4 =", b - a)
try:
    print(Signed[4](-8) // Signed[4](-1))
except Exception as e: print("ERR floordiv", e)
from cohdl import op
try:
    print("truncdiv", op.truncdiv(Signed[4](-8), Signed[4](-1)))
except Exception as e: print("ERR truncdiv", repr(e))
print("neg min", -Signed[4](-8), abs(Signed[4](-8)))
print("mod", Signed[4](-7) % Signed[4](3), op.rem(Signed[4](-7), Signed[4](3)))
print("5 - u4(7)", 5 - Unsigned[4](7))
print("u4(7) - 9", Unsigned[4](7) - 9)
try: print("u4(7) + 17", Unsigned[4](7) + 17)
except Exception as e: print("ERR", repr(e))
try: print("s4(7) + (-9)", Signed[4](7) + (-9))
except Exception as e: print("ERR", repr(e))
try: print("s4(7) - (-8)", Signed[4](7) - (-8))
except Exception as e: print("ERR", repr(e))
print("shift", Unsigned[4](9) << 5, Unsigned[4](9) >> 5, Signed[4](-7) >> 1, Signed[4](-7) >> 9, Signed[4](-7)<<2)
