import cohdl
from cohdl import Bit, Port, Unsigned, Variable, Signal, Null, true, false, BitVector
from cohdl import std

class R1(cohdl.Entity):
    clk = Port.input(Bit); rst = Port.input(Bit); en = Port.input(Bit)
    a = Port.input(Unsigned[4])
    o = Port.output(Unsigned[4], default=3)
    p = Port.output(Bit, default=False)
    q = Port.output(Unsigned[4])            # no default
    def architecture(self):
        keep = std.NoresetSignal[Unsigned[4]](5, name="keep")
        v = Variable[Unsigned[4]](7, name="v")
        extra = Signal[Bit](False, name="extra")
        def on_rst():
            extra.next = True
        ctx = std.SequentialContext(std.Clock(self.clk), std.Reset(self.rst, active_low=True, is_async=True), step_cond=lambda: self.en)
        @ctx(on_reset=on_rst)
        async def proc():
            nonlocal v
            self.p ^= True
            v @= v + 1
            keep.next = self.a
            await self.a[0]
            self.o <<= v
            self.q <<= keep
            extra.next = False
