# C18 quick python-level probes
import itertools, collections, random
from cohdl import std, BitVector, Unsigned, Signed, Bit, Null, Full
def bv(w, n): return BitVector[w](Unsigned[w](n).bitvector) if False else Unsigned[w](n).bitvector
bad = collections.Counter()
def chk(name, cond, info):
    if not cond:
        bad[name]+=1
        if bad[name]==1: print("FAIL", name, info)
for w in range(1,9):
    for n in range(1<<w):
        v = Unsigned[w](n).bitvector
        s = format(n, f"0{w}b")
        try:
            #chk("popcnt", std.count_set_bits(v).to_int()==s.count("1"), (w,n))
            #chk("popcnt_b2", std.count_set_bits(v, batch_size=2).to_int()==s.count("1"), (w,n))
            #chk("popcnt_b3", std.count_set_bits(v, batch_size=3).to_int()==s.count("1"), (w,n))
            #chk("clrcnt", std.count_clear_bits(v).to_int()==s.count("0"), (w,n))
            chk("clz", std.count_leading_zeros(v).to_int()==len(s)-len(s.lstrip("0")), (w,n))
            chk("ctz", std.count_trailing_zeros(v).to_int()==len(s)-len(s.rstrip("0")), (w,n))
            chk("clo", std.count_leading_ones(v).to_int()==len(s)-len(s.lstrip("1")), (w,n))
            chk("cto", std.count_trailing_ones(v).to_int()==len(s)-len(s.rstrip("1")), (w,n))
            chk("rev", str(std.reverse_bits(v))==s[::-1], (w,n))
            chk("is_one_hot", bool(std.is_one_hot(v))==(s.count("1")==1), (w,n))
            for k in range(0,w+1):
                chk("rol", str(std.rol(v,k))==(s[k:]+s[:k]), (w,n,k))
                chk("ror", str(std.ror(v,k))==(s[w-k:]+s[:w-k]), (w,n,k))
            for t in range(1,6):
                chk("repeat", str(std.repeat(v,t))==s*t, (w,n,t))
                chk("stretch", str(std.stretch(v,t))=="".join(c*t for c in s), (w,n,t))
            for l,r in [(0,0),(1,0),(0,2),(3,2)]:
                chk("pad", str(std.pad(v,l,r))=="0"*l+s+"0"*r, (w,n,l,r))
                chk("padF", str(std.pad(v,l,r,Full))=="1"*l+s+"1"*r, (w,n,l,r))
            chk("leftpad", str(std.leftpad(v,w+2))=="00"+s, (w,n))
            chk("rightpad", str(std.rightpad(v,w+3,Full))==s+"111", (w,n))
        except BaseException as e:
            bad["EXC:"+type(e).__name__+":"+str(e)[:60]]+=1
for w in range(1,7):
    for p in range(w):
        try:
            chk("one_hot", str(std.one_hot(w,p))==format(1<<p, f"0{w}b"), (w,p))
        except BaseException as e:
            bad["EXC one_hot:"+str(e)[:60]]+=1
# min/max first wins
random.seed(1)
for n in range(1,8):
    for _ in range(200):
        xs=[random.randrange(4) for _ in range(n)]
        us=[Unsigned[2](x) for x in xs]
        try:
            chk("minimum", std.minimum(us).to_int()==min(xs), xs)
            chk("maximum", std.maximum(us).to_int()==max(xs), xs)
            chk("min_index", std.min_index(us).to_int()==xs.index(min(xs)), xs)
            chk("max_index", std.max_index(us).to_int()==xs.index(max(xs)), xs)
            chk("count", std.count(us, Unsigned[2](1)).to_int()==xs.count(1), xs)
        except BaseException as e:
            bad["EXC minmax:"+type(e).__name__+str(e)[:60]]+=1
print(dict(bad))
