import c04_reset_design as d8
from cohdl import std
s = std.VhdlCompiler.to_string(d8.R1)
print(s[s.index("architecture"):])
