import cohdl, traceback
from cohdl import Bit, Port, Unsigned, Signed, Variable, Signal, Null, true, false, BitVector
from cohdl import std

def tryc(name, ent):
    try:
        s = std.VhdlCompiler.to_string(ent)
        print("=====", name, "ACCEPTED")
        return s
    except BaseException as e:
        print("=====", name, "REJECTED:", type(e).__name__, str(e).splitlines()[0][:150])
        return None

# E1: match temp in first case only
class E1(cohdl.Entity):
    clk = Port.input(Bit)
    sel = Port.input(BitVector[2])
    a = Port.input(Bit); b = Port.input(Bit)
    o = Port.output(Bit, default=Null)
    def architecture(self):
        @std.sequential(std.Clock(self.clk))
        def proc():
            match self.sel:
                case "00":
                    t = self.a | self.b
                case "01":
                    pass
            self.o <<= t
s = tryc("E1 match-temp-first-branch", E1)
if s: print(s[s.find("proc:"):])

class E1b(cohdl.Entity):
    clk = Port.input(Bit)
    sel = Port.input(BitVector[2])
    a = Port.input(Bit); b = Port.input(Bit)
    o = Port.output(Bit, default=Null)
    def architecture(self):
        @std.sequential(std.Clock(self.clk))
        def proc():
            match self.sel:
                case "00":
                    pass
                case "01":
                    t = self.a | self.b
            self.o <<= t
s = tryc("E1b match-temp-second-branch", E1b)

class E1c(cohdl.Entity):
    clk = Port.input(Bit)
    sel = Port.input(Bit)
    a = Port.input(Bit); b = Port.input(Bit)
    o = Port.output(Bit, default=Null)
    def architecture(self):
        @std.sequential(std.Clock(self.clk))
        def proc():
            if self.sel:
                t = self.a | self.b
            self.o <<= t
s = tryc("E1c if-temp", E1c)
