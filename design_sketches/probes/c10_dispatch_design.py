import cohdl
from cohdl import Bit, Port, Unsigned, Signal
from cohdl import std

class A:
    def __init__(self, v): self.v = v
    def __add__(self, o): return ("A.add", self.v, o.v)
    def __radd__(self, o): return ("A.radd", self.v, o.v)
class B(A):
    def __radd__(self, o): return ("B.radd", self.v, o.v)

RESULT = []
@cohdl.pyeval
def record(x):
    RESULT.append(x)

class Probe(cohdl.Entity):
    a = Port.input(Bit)
    o = Port.output(Bit)
    def architecture(self):
        @std.concurrent
        def logic():
            record(A(1) + B(2))
            record(1 < 2 < 3)
            record((0 and 5, 3 and 5, 0 or 7, 0 or 0))
            x, *y, z = [1,2,3,4,5]
            record((x,y,z))
            self.o <<= self.a
