import cohdl, traceback
from cohdl import Bit, Port, Unsigned, Signed, Variable, Signal, Null, true, false, BitVector
from cohdl import std

def tryc(name, ent, show=None, full=False):
    try:
        s = std.VhdlCompiler.to_string(ent)
        print("=====", name, "ACCEPTED")
        if full: print(s)
        return s
    except BaseException as e:
        print("=====", name, "REJECTED:", type(e).__name__, str(e).splitlines()[0][:150])
        return None

class E4(cohdl.Entity):
    clk = Port.input(Bit)
    a = Port.input(Bit)
    o = Port.output(Bit, default=Null)
    def architecture(self):
        @std.sequential(std.Clock(self.clk))
        def proc():
            with cohdl.always:
                self.o <<= self.a
            if self.a:
                self.o <<= False
s = tryc("E4 always+seq same signal", E4, full=True)

class Sub(cohdl.Entity):
    x = Port.input(Bit)
    y = Port.output(Bit)
    def architecture(self):
        @std.concurrent
        def logic():
            self.y <<= ~self.x

class E5(cohdl.Entity):
    a = Port.input(Bit)
    o = Port.output(Bit)
    def architecture(self):
        @std.block
        def blk():
            Sub(x=self.a, y=self.o)
s = tryc("E5 entity in block", E5, full=True)
