import cohdl, traceback
from cohdl import Bit, Port, Unsigned, Signed, Variable, Signal, Null, true, false, BitVector
from cohdl import std

def tryc(name, ent, show=None):
    try:
        s = std.VhdlCompiler.to_string(ent)
        print("=====", name, "ACCEPTED")
        if show:
            for l in s.splitlines():
                if any(k in l for k in show): print("   |", l)
        return s
    except BaseException as e:
        print("=====", name, "REJECTED:", type(e).__name__, str(e).splitlines()[0][:150])
        return None

# E3 names
class E3(cohdl.Entity):
    clk = Port.input(Bit)
    a = Port.input(Unsigned[4])
    o = Port.output(Unsigned[4], default=Null)
    def architecture(self):
        s1 = Signal[Unsigned[4]](0, name="to_unsigned")
        s2 = Signal[Unsigned[4]](0, name="a__b")
        s3 = Signal[Unsigned[4]](0, name="_")
        s4 = Signal[Unsigned[4]](0, name="1x")
        s5 = Signal[Unsigned[4]](0, name="Signal")
        s6 = Signal[Unsigned[4]](0, name="A")
        s7 = Signal[Unsigned[4]](0, name="rising_edge")
        s8 = Signal[Unsigned[4]](0, name="cohdl_bool_to_std_logic")
        s9 = Signal[Unsigned[4]](0, name="E3")
        s10 = Signal[Unsigned[4]](0, name="arch_E3")
        s11 = Signal[Unsigned[4]](0, name="boolean")
        @std.sequential(std.Clock(self.clk))
        def proc():
            s1.next = self.a + 1
            s2.next = s1; s3.next = s2; s4.next = s3; s5.next = s4; s6.next = s5; s7.next=s6; s8.next=s7; s9.next=s8; s10.next=s9; s11.next=s10
            self.o <<= s11
s = tryc("E3 names", E3, show=["signal ", "architecture", "entity"])

# reserved port name
class E3b(cohdl.Entity):
    clk = Port.input(Bit)
    signal = Port.input(Bit, name="signal")
    o = Port.output(Bit, default=Null)
    def architecture(self):
        @std.concurrent
        def logic():
            self.o <<= self.signal
s = tryc("E3b reserved port", E3b, show=["signal", " o "])
if s: print(s)
