import cohdl
from cohdl import Bit, Port, Unsigned, Variable, Signal, Null, true, false
from cohdl import std

class W1(cohdl.Entity):
    clk = Port.input(Bit); c = Port.input(Bit); d = Port.input(Bit)
    o = Port.output(Unsigned[4], default=Null)
    def architecture(self):
        @std.sequential(std.Clock(self.clk))
        async def proc():
            while self.c:
                self.o <<= 1
                if self.d:
                    await self.d
                    self.o <<= 2
                    continue
                self.o <<= 3
            self.o <<= 4

async def sub(e, o):
    await e.c
    if e.d:
        o <<= 5
        return
    await true
    o <<= 6

class W2(cohdl.Entity):
    clk = Port.input(Bit); c = Port.input(Bit); d = Port.input(Bit)
    o = Port.output(Unsigned[4], default=Null)
    def architecture(self):
        @std.sequential(std.Clock(self.clk))
        async def proc():
            await sub(self, self.o)
            self.o <<= 7
            await false
            self.o <<= 8
