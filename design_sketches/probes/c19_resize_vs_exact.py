# C19 brute force: SFixed/UFixed resize vs exact arithmetic (Python-level constants)
import itertools, fractions, traceback, collections
from cohdl import std, Signed, Unsigned
from cohdl.std import SFixed, UFixed, FixedRoundStyle as R, FixedOverflowStyle as O
F = fractions.Fraction

def val_s(raw, w): return raw - (1<<w) if raw >= (1<<(w-1)) else raw

def spec(x, left, right, signed, rnd, ovf):
    # x Fraction; target [left:right]
    w = left-right+1
    scaled = x / F(2)**right
    if rnd is R.TRUNCATE:
        q = scaled.numerator // scaled.denominator
    else:
        fl = scaled.numerator // scaled.denominator
        rem = scaled - fl
        if rem > F(1,2) or (rem == F(1,2) and fl % 2 == 1): q = fl+1
        else: q = fl
    lo, hi = (-(1<<(w-1)), (1<<(w-1))-1) if signed else (0,(1<<w)-1)
    if ovf is O.SATURATE:
        q = max(lo, min(hi, q))
    else:
        q = (q - lo) % (1<<w) + lo
    return q

stats = collections.Counter(); fails = {}
rng = range(-3,4)
for signed in (True, False):
  T = SFixed if signed else UFixed
  for sl in rng:
    for sr in rng:
      if sr > sl: continue
      sw = sl-sr+1
      if sw > 4: continue
      for tl in rng:
        for tr in rng:
          if tr > tl: continue
          if tl-tr+1 > 4: continue
          for rnd in R:
            for ovf in O:
              for raw in range(1<<sw):
                iv = val_s(raw, sw) if signed else raw
                x = F(iv) * F(2)**sr
                try:
                    rawt = (Signed if signed else Unsigned)[sw](iv)
                    src = T[sl:sr](raw=rawt)
                    res = src.resize(tl, tr, round_style=rnd, overflow_style=ovf)
                    got = res._val.to_int()
                    exp = spec(x, tl, tr, signed, rnd, ovf)
                    key = ("S" if signed else "U", rnd.name, ovf.name,
                           "ovf" if sl>tl else "noovf", "cut" if tr>sr else "nocut")
                    stats[key+("ok" if got==exp else "WRONG",)] += 1
                    if got != exp and key not in fails:
                        fails[key] = (sl,sr,tl,tr,iv,got,exp)
                except BaseException as e:
                    key = ("S" if signed else "U", rnd.name, ovf.name,
                           "ovf" if sl>tl else "noovf", "cut" if tr>sr else "nocut")
                    stats[key+("EXC",)] += 1
                    if key+("EXC",) not in fails:
                        fails[key+("EXC",)] = (sl,sr,tl,tr,iv,type(e).__name__, str(e)[:80])
for k in sorted(stats): print(k, stats[k])
print("---- first failures")
for k,v in fails.items(): print(k, v)
