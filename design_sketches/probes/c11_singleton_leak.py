import cohdl, traceback
from cohdl import Bit, Port, Unsigned, Signed, Variable, Signal, Null, true, false, BitVector
from cohdl import std
from cohdl._core._ir._repr import StatemachineContext
from cohdl._core import _context
from cohdl.std._prefix import _Prefix

def tryc(name, ent):
    try:
        s = std.VhdlCompiler.to_string(ent)
        print("=====", name, "ACCEPTED")
        return s
    except BaseException as e:
        print("=====", name, "REJECTED:", type(e).__name__, str(e).splitlines()[0][:150])
        return None

def mk_good():
    class Good(cohdl.Entity):
        clk = Port.input(Bit)
        a = Port.input(Bit)
        o = Port.output(Bit, default=Null)
        def architecture(self):
            @std.sequential(std.Clock(self.clk))
            async def proc():
                await self.a
                self.o <<= True
                await true
                self.o <<= False
    return Good

class Bad(cohdl.Entity):
    clk = Port.input(Bit)
    a = Port.input(Bit)
    o = Port.output(Bit, default=Null)
    def architecture(self):
        @std.sequential(std.Clock(self.clk))
        async def proc():
            self.o <<= True
            while True:
                if self.a:
                    continue
                await true

g1 = tryc("good#1", mk_good())
print("singleton:", StatemachineContext._singleton, "blockstack", len(_context._block_stack), "prefix", len(_Prefix._prefix_scope))
tryc("bad", Bad)
print("singleton:", StatemachineContext._singleton, "blockstack", len(_context._block_stack), "prefix", len(_Prefix._prefix_scope))
g2 = tryc("good#2", mk_good())
print("same output:", g1 == g2)
