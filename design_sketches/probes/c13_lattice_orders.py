
import random, sys
seed=int(sys.argv[1]); random.seed(seed)
from cohdl import Signal, Variable, Temporary, Port, BitVector, Unsigned, Signed, Bit, Array
D=Port.Direction
Qs=[("Signal",Signal,None),("Variable",Variable,None),("Temporary",Temporary,None),("PortI",Port,D.INPUT),("PortO",Port,D.OUTPUT)]
Ts=[("BV",BitVector),("U",Unsigned),("S",Signed)]
reqs=[]
for qn,q,d in Qs:
    for tn,t in Ts:
        reqs.append((qn,tn,None))
        for w in (1,2,3,8): reqs.append((qn,tn,w))
random.shuffle(reqs)
made={}
def get(qn,tn,w):
    q,d=[(q,d) for n,q,d in Qs if n==qn][0]
    t=[t for n,t in Ts if n==tn][0]
    T = t if w is None else t[w]
    return q[T] if d is None else q[T,d]
err=[]
for r in reqs:
    try: made[r]=get(*r)
    except BaseException as e: err.append((r,type(e).__name__,str(e)[:80]))
# canonical
bad=[]
for r in made:
    if get(*r) is not made[r]: bad.append(("noncanon",r))
# lattice
for (qn,tn,w),c in made.items():
    for (qn2,tn2,w2),c2 in made.items():
        exp = False
        same_q = qn==qn2 or (qn.startswith("Port") and qn2=="Signal")
        if same_q:
            if (tn2==tn and (w2==w or w2 is None)) or (tn2=="BV" and (w2==w or w2 is None)): exp=True
        if qn.startswith("Port") and qn2.startswith("Port") and qn!=qn2: exp=False
        got = issubclass(c,c2)
        if got!=exp: bad.append(((qn,tn,w),(qn2,tn2,w2),got,exp))
print(len(err), err[:3], len(bad), bad[:6])
