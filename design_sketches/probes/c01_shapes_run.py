import c01_shapes_design as d5
from cohdl import std
for E in (d5.W1, d5.W2):
    s = std.VhdlCompiler.to_string(E)
    print(s[s.index("  proc: process"):])
