-- (design sketch) originally: import Probe (Tree, Coro, Validate)
open P

def prog : Stmt :=
  .act 1 (.while_ none (.act 2 (.act 3 (.await (some 10) (.ite 11 .cont .brk .skip)))) .skip)

def body : Code := .trans 2 (.act 2 (.act 3 .nil))
def sm : SM := ⟨[ .trans 1 (.act 1 .nil),
                  body,
                  .ite 10 (.ite 11 body (.trans 0 .nil) .nil) .nil .nil ]⟩

/-- untrusted BFS that proposes the relation -/
partial def explore (f : Nat) (prog : Stmt) (sm : SM) (todo : List (Susp × Nat)) (R : List (Susp × Nat)) : List (Susp × Nat) :=
  match todo with
  | [] => R
  | p :: rest =>
    if R.contains p then explore f prog sm rest R else
    match unfSusp f prog p.1 with
    | none => explore f prog sm rest (p :: R)
    | some st =>
      match matchT st (norm (sm.codes.getD p.2 .nil) none .leaf) p.2 with
      | none => explore f prog sm rest (p :: R)
      | some ps => explore f prog sm (ps ++ rest) (p :: R)

def R := explore 100 prog sm [(.start, 0)] []
#eval R.length
#eval closed 100 prog sm R
-- a wrong machine: back edge missing
def smBad : SM := ⟨[ .trans 1 (.act 1 .nil), body, .ite 10 (.ite 11 (.act 2 (.act 3 .nil)) (.trans 0 .nil) .nil) .nil .nil ]⟩
#eval closed 100 prog smBad (explore 100 prog smBad [(.start, 0)] [])
example : closed 100 prog sm [(.start,0), (.atHead none (.act 2 (.act 3 (.await (some 10) (.ite 11 .cont .brk .skip)))) .skip [], 1),
   (.atAwait (some 10) (.ite 11 .cont .brk .skip) [.loop none (.act 2 (.act 3 (.await (some 10) (.ite 11 .cont .brk .skip)))) .skip], 2)] = true := by decide
def smBad2 : SM := ⟨[ .trans 1 (.act 1 .nil), body, .ite 10 (.ite 11 (.trans 1 (.act 2 (.act 3 .nil))) (.trans 0 .nil) .nil) .nil .nil ]⟩
#eval closed 100 prog smBad2 (explore 100 prog smBad2 [(.start, 0)] [])
def smBad3 : SM := ⟨[ .act 1 (.trans 1 .nil), .act 2 (.trans 2 (.act 3 .nil)), .ite 10 (.ite 11 body .nil (.trans 0 .nil)) .nil .nil ]⟩
#eval closed 100 prog smBad3 (explore 100 prog smBad3 [(.start, 0)] [])
