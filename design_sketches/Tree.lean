namespace P

/-- VHDL-like sequential code in cons style. -/
inductive Code where
  | nil
  | act (a : Nat) (k : Code)
  | trans (s : Nat) (k : Code)
  | ite (c : Nat) (t e : Code) (k : Code)
  deriving Repr, DecidableEq

inductive Tree where
  | leaf (next : Option Nat)
  | act (a : Nat) (k : Tree)
  | ite (c : Nat) (t e : Tree)
  deriving Repr, DecidableEq

variable {σ : Type} (act : Nat → σ → σ) (cond : Nat → σ → Bool)

def exec : Code → σ → Option Nat → σ × Option Nat
  | .nil, s, p => (s, p)
  | .act a k, s, p => exec k (act a s) p
  | .trans t k, s, _ => exec k s (some t)
  | .ite c t e k, s, p =>
      let r := if cond c s then exec t s p else exec e s p
      exec k r.1 r.2

def runTree : Tree → σ → σ × Option Nat
  | .leaf n, s => (s, n)
  | .act a k, s => runTree k (act a s)
  | .ite c t e, s => if cond c s then runTree t s else runTree e s

def norm : Code → Option Nat → (Option Nat → Tree) → Tree
  | .nil, p, k => k p
  | .act a c, p, k => .act a (norm c p k)
  | .trans t c, _, k => norm c (some t) k
  | .ite c t e r, p, k =>
      .ite c (norm t p (fun p' => norm r p' k)) (norm e p (fun p' => norm r p' k))

theorem norm_sound (c : Code) : ∀ (p : Option Nat) (k : Option Nat → Tree) (s : σ),
    runTree act cond (norm c p k) s =
      runTree act cond (k (exec act cond c s p).2) (exec act cond c s p).1 := by
  induction c with
  | nil => intro p k s; simp [norm, exec]
  | act a c ih => intro p k s; simp [norm, exec, runTree, ih]
  | trans t c ih => intro p k s; simp [norm, exec, ih]
  | ite c t e r iht ihe ihr =>
    intro p k s
    simp only [norm, exec, runTree]
    split
    · rw [iht, ihr]
    · rw [ihe, ihr]

end P
