-- (design sketch) originally: import Probe.Basic  -> Tree.lean
namespace P

/-- source coroutine bodies (post-inlining), cons style -/
inductive Stmt where
  | skip
  | act (a : Nat) (k : Stmt)
  | await (c : Option Nat) (k : Stmt)        -- none = `await true`
  | awaitF
  | ite (c : Nat) (t e : Stmt) (k : Stmt)
  | while_ (c : Option Nat) (body : Stmt) (k : Stmt)   -- none = `while True`
  | brk | cont | ret
  | call (body : Stmt) (k : Stmt)
  deriving Repr, DecidableEq

inductive Frame where
  | seq (k : Stmt)
  | loop (c : Option Nat) (body : Stmt) (k : Stmt)
  | callF (k : Stmt)
  deriving Repr, DecidableEq

/-- where a coroutine is parked between clocks -/
inductive Susp where
  | start                                        -- (re)start of the coroutine
  | atAwait (c : Option Nat) (k : Stmt) (st : List Frame)
  | atHead (c : Option Nat) (body : Stmt) (k : Stmt) (st : List Frame)
  | stopped
  deriving Repr, DecidableEq

variable {σ : Type} (act : Nat → σ → σ) (cond : Nat → σ → Bool)

def evalC (c : Option Nat) (s : σ) : Bool := match c with | none => true | some c => cond c s

/-- reference interpreter: run from statement `p` with stack `st` until the next suspension.
    `fresh` = nothing has been executed yet since (re)start. -/
def run : Nat → Stmt → List Frame → Bool → σ → Option (Susp × σ)
  | 0, _, _, _, _ => none
  | f+1, .skip, [], _, s => some (.start, s)
  | f+1, .skip, .seq k :: st, fr, s => run f k st fr s
  | f+1, .skip, .loop c b k :: st, _, s => some (.atHead c b k st, s)     -- back edge costs a clock
  | f+1, .skip, .callF k :: st, fr, s => run f k st fr s
  | f+1, .act a k, st, _, s => run f k st false (act a s)
  | f+1, .await c k, st, fr, s =>
      if fr then (if evalC cond c s then run f k st false s else some (.atAwait c k st, s))
      else some (.atAwait c k st, s)
  | _+1, .awaitF, _, _, s => some (.stopped, s)
  | f+1, .ite c t e k, st, _, s =>
      if cond c s then run f t (.seq k :: st) false s else run f e (.seq k :: st) false s
  | f+1, .while_ c b k, st, fr, s =>
      if fr then (if evalC cond c s then run f b (.loop c b k :: st) false s else run f k st false s)
      else some (.atHead c b k st, s)
  | f+1, .brk, .loop _ _ k :: st, _, s => run f k st false s
  | f+1, .brk, _ :: st, fr, s => run f .brk st fr s
  | _+1, .brk, [], _, _ => none
  | f+1, .cont, .loop c b k :: st, _, s =>
      if evalC cond c s then run f b (.loop c b k :: st) false s else run f k st false s
  | f+1, .cont, _ :: st, fr, s => run f .cont st fr s
  | _+1, .cont, [], _, _ => none
  | f+1, .ret, .callF k :: st, _, s => run f k st false s
  | f+1, .ret, _ :: st, fr, s => run f .ret st fr s
  | _+1, .ret, [], _, _ => none
  | f+1, .call b k, st, fr, s => run f b (.callF k :: st) fr s

/-- one clock of the reference semantics -/
def refStep (f : Nat) (prog : Stmt) : Susp → σ → Option (Susp × σ)
  | .start, s => run act cond f prog [] true s
  | .atAwait c k st, s => if evalC cond c s then run act cond f k st false s else some (.atAwait c k st, s)
  | .atHead c b k st, s =>
      if evalC cond c s then run act cond f b (.loop c b k :: st) false s else run act cond f k st false s
  | .stopped, s => some (.stopped, s)

/-- symbolic trees whose leaves are suspensions -/
inductive STree where
  | leaf (r : Susp)
  | act (a : Nat) (k : STree)
  | ite (c : Nat) (t e : STree)
  deriving Repr, DecidableEq

def runS : STree → σ → Susp × σ
  | .leaf r, s => (r, s)
  | .act a k, s => runS k (act a s)
  | .ite c t e, s => if cond c s then runS t s else runS e s

def iteC (c : Option Nat) (t e : STree) : STree := match c with | none => t | some c => .ite c t e

/-- the unfolding = symbolic execution of `run` -/
def unf : Nat → Stmt → List Frame → Bool → Option STree
  | 0, _, _, _ => none
  | _+1, .skip, [], _ => some (.leaf .start)
  | f+1, .skip, .seq k :: st, fr => unf f k st fr
  | _+1, .skip, .loop c b k :: st, _ => some (.leaf (.atHead c b k st))
  | f+1, .skip, .callF k :: st, fr => unf f k st fr
  | f+1, .act a k, st, _ => (unf f k st false).map (.act a)
  | f+1, .await c k, st, fr =>
      if fr then (unf f k st false).map (fun t => iteC c t (.leaf (.atAwait c k st)))
      else some (.leaf (.atAwait c k st))
  | _+1, .awaitF, _, _ => some (.leaf .stopped)
  | f+1, .ite c t e k, st, _ => do
      let a ← unf f t (.seq k :: st) false
      let b ← unf f e (.seq k :: st) false
      pure (.ite c a b)
  | f+1, .while_ c b k, st, fr =>
      if fr then do
        let x ← unf f b (.loop c b k :: st) false
        match c with
        | none => pure x
        | some c' => do let y ← unf f k st false; pure (.ite c' x y)
      else some (.leaf (.atHead c b k st))
  | f+1, .brk, .loop _ _ k :: st, _ => unf f k st false
  | f+1, .brk, _ :: st, fr => unf f .brk st fr
  | _+1, .brk, [], _ => none
  | f+1, .cont, .loop c b k :: st, _ => do
        let x ← unf f b (.loop c b k :: st) false
        match c with
        | none => pure x
        | some c' => do let y ← unf f k st false; pure (.ite c' x y)
  | f+1, .cont, _ :: st, fr => unf f .cont st fr
  | _+1, .cont, [], _ => none
  | f+1, .ret, .callF k :: st, _ => unf f k st false
  | f+1, .ret, _ :: st, fr => unf f .ret st fr
  | _+1, .ret, [], _ => none
  | f+1, .call b k, st, fr => unf f b (.callF k :: st) fr

theorem unf_sound : ∀ (f : Nat) (p : Stmt) (st : List Frame) (fr : Bool) (t : STree),
    unf f p st fr = some t → ∀ s : σ, run act cond f p st fr s = some (runS act cond t s) := by
  intro f
  induction f with
  | zero => intro p st fr t h; simp [unf] at h
  | succ f ih =>
    intro p st fr t h s
    cases p with
    | skip =>
      cases st with
      | nil => simp [unf] at h; subst h; simp [run, runS]
      | cons fr0 st =>
        cases fr0 with
        | seq k => simp only [unf] at h; simp only [run]; exact ih _ _ _ _ h s
        | loop c b k => simp [unf] at h; subst h; simp [run, runS]
        | callF k => simp only [unf] at h; simp only [run]; exact ih _ _ _ _ h s
    | act a k =>
      simp only [unf, Option.map_eq_some_iff] at h
      obtain ⟨t', h', rfl⟩ := h
      simp only [run, runS]; exact ih _ _ _ _ h' _
    | await c k =>
      simp only [unf] at h
      cases fr with
      | false => simp at h; subst h; simp [run, runS]
      | true =>
        simp only [if_true, Option.map_eq_some_iff] at h
        obtain ⟨t', h', rfl⟩ := h
        simp only [run, if_true]
        cases c with
        | none => simp only [evalC, iteC, if_true]; exact ih _ _ _ _ h' _
        | some c =>
          simp only [evalC, iteC, runS]
          by_cases hc : cond c s = true
          · simp only [hc, if_true]; exact ih _ _ _ _ h' _
          · simp only [hc]; rfl
    | awaitF => simp [unf] at h; subst h; simp [run, runS]
    | ite c t1 e1 k =>
      simp only [unf, Option.bind_eq_bind, Option.bind_eq_some_iff, Option.pure_def, Option.some.injEq] at h
      obtain ⟨a, ha, b, hb, rfl⟩ := h
      simp only [run, runS]
      by_cases hc : cond c s = true
      · simp only [hc, if_true]; exact ih _ _ _ _ ha _
      · simp only [hc]; exact ih _ _ _ _ hb _
    | while_ c b k =>
      cases fr with
      | false => simp [unf] at h; subst h; simp [run, runS]
      | true =>
        cases c with
        | none =>
          simp only [unf, if_true, Option.bind_eq_bind, Option.bind_eq_some_iff, Option.pure_def, Option.some.injEq] at h
          obtain ⟨x, hx, rfl⟩ := h
          simp only [run, evalC, if_true]; exact ih _ _ _ _ hx _
        | some c =>
          simp only [unf, if_true, Option.bind_eq_bind, Option.bind_eq_some_iff, Option.pure_def, Option.some.injEq] at h
          obtain ⟨x, hx, y, hy, rfl⟩ := h
          simp only [run, evalC, if_true, runS]
          by_cases hc : cond c s = true
          · simp only [hc, if_true]; exact ih _ _ _ _ hx _
          · simp only [hc]; exact ih _ _ _ _ hy _
    | brk =>
      cases st with
      | nil => simp [unf] at h
      | cons fr0 st =>
        cases fr0 with
        | seq k => simp only [unf] at h; simp only [run]; exact ih _ _ _ _ h s
        | loop c b k => simp only [unf] at h; simp only [run]; exact ih _ _ _ _ h s
        | callF k => simp only [unf] at h; simp only [run]; exact ih _ _ _ _ h s
    | cont =>
      cases st with
      | nil => simp [unf] at h
      | cons fr0 st =>
        cases fr0 with
        | seq k => simp only [unf] at h; simp only [run]; exact ih _ _ _ _ h s
        | callF k => simp only [unf] at h; simp only [run]; exact ih _ _ _ _ h s
        | loop c b k =>
          cases c with
          | none =>
            simp only [unf, Option.bind_eq_bind, Option.bind_eq_some_iff, Option.pure_def, Option.some.injEq] at h
            obtain ⟨x, hx, rfl⟩ := h
            simp only [run, evalC, if_true]; exact ih _ _ _ _ hx _
          | some c =>
            simp only [unf, Option.bind_eq_bind, Option.bind_eq_some_iff, Option.pure_def, Option.some.injEq] at h
            obtain ⟨x, hx, y, hy, rfl⟩ := h
            simp only [run, evalC, runS]
            by_cases hc : cond c s = true
            · simp only [hc, if_true]; exact ih _ _ _ _ hx _
            · simp only [hc]; exact ih _ _ _ _ hy _
    | ret =>
      cases st with
      | nil => simp [unf] at h
      | cons fr0 st =>
        cases fr0 with
        | seq k => simp only [unf] at h; simp only [run]; exact ih _ _ _ _ h s
        | loop c b k => simp only [unf] at h; simp only [run]; exact ih _ _ _ _ h s
        | callF k => simp only [unf] at h; simp only [run]; exact ih _ _ _ _ h s
    | call b k => simp only [unf] at h; simp only [run]; exact ih _ _ _ _ h s

end P
