-- (design sketch) originally: import Probe.Coro  -> Coro.lean
namespace P

variable {σ : Type} (act : Nat → σ → σ) (cond : Nat → σ → Bool)

/-- unfolding of one clock from a suspension -/
def unfSusp (f : Nat) (prog : Stmt) : Susp → Option STree
  | .start => unf f prog [] true
  | .atAwait c k st => (unf f k st false).map (fun t => iteC c t (.leaf (.atAwait c k st)))
  | .atHead c b k st => do
      let x ← unf f b (.loop c b k :: st) false
      match c with
      | none => pure x
      | some c' => do let y ← unf f k st false; pure (.ite c' x y)
  | .stopped => some (.leaf .stopped)

theorem unfSusp_sound (f : Nat) (prog : Stmt) (r : Susp) (t : STree)
    (h : unfSusp f prog r = some t) (s : σ) :
    refStep act cond f prog r s = some (runS act cond t s) := by
  cases r with
  | start => simp only [unfSusp] at h; simp only [refStep]; exact unf_sound act cond _ _ _ _ _ h s
  | atAwait c k st =>
    simp only [unfSusp, Option.map_eq_some_iff] at h
    obtain ⟨t', h', rfl⟩ := h
    simp only [refStep]
    cases c with
    | none => simp only [evalC, iteC, if_true]; exact unf_sound act cond _ _ _ _ _ h' s
    | some c =>
      simp only [evalC, iteC, runS]
      by_cases hc : cond c s = true
      · simp only [hc, if_true]; exact unf_sound act cond _ _ _ _ _ h' s
      · simp only [hc]; rfl
  | atHead c b k st =>
    cases c with
    | none =>
      simp only [unfSusp, Option.bind_eq_bind, Option.bind_eq_some_iff, Option.pure_def, Option.some.injEq] at h
      obtain ⟨x, hx, rfl⟩ := h
      simp only [refStep, evalC, if_true]; exact unf_sound act cond _ _ _ _ _ hx s
    | some c =>
      simp only [unfSusp, Option.bind_eq_bind, Option.bind_eq_some_iff, Option.pure_def, Option.some.injEq] at h
      obtain ⟨x, hx, y, hy, rfl⟩ := h
      simp only [refStep, evalC, runS]
      by_cases hc : cond c s = true
      · simp only [hc, if_true]; exact unf_sound act cond _ _ _ _ _ hx s
      · simp only [hc]; exact unf_sound act cond _ _ _ _ _ hy s
  | stopped => simp [unfSusp] at h; subst h; simp [refStep, runS]

/-- the emitted state machine: one code block per state; no executed transition = stay -/
structure SM where
  codes : List Code

def smStep (sm : SM) (i : Nat) (s : σ) : Nat × σ :=
  let r := exec act cond (sm.codes.getD i .nil) s none
  (r.2.getD i, r.1)

def matchT : STree → Tree → Nat → Option (List (Susp × Nat))
  | .leaf r, .leaf n, i => some [(r, n.getD i)]
  | .act a k, .act b k', i => if a = b then matchT k k' i else none
  | .ite c t e, .ite c' t' e', i =>
      if c = c' then do
        let x ← matchT t t' i
        let y ← matchT e e' i
        pure (x ++ y)
      else none
  | _, _, _ => none

theorem matchT_sound : ∀ (st : STree) (t : Tree) (i : Nat) (ps : List (Susp × Nat)),
    matchT st t i = some ps → ∀ s : σ,
      (runS act cond st s).2 = (runTree act cond t s).1 ∧
      ((runS act cond st s).1, ((runTree act cond t s).2).getD i) ∈ ps := by
  intro st
  induction st with
  | leaf r =>
    intro t i ps h s
    cases t with
    | leaf n => simp [matchT] at h; subst h; simp [runS, runTree]
    | act _ _ => simp [matchT] at h
    | ite _ _ _ => simp [matchT] at h
  | act a k ih =>
    intro t i ps h s
    cases t with
    | leaf n => simp [matchT] at h
    | act b k' =>
      simp only [matchT] at h
      split at h
      · rename_i hab; subst hab; simp only [runS, runTree]; exact ih _ _ _ h _
      · simp at h
    | ite _ _ _ => simp [matchT] at h
  | ite c t1 e1 iht ihe =>
    intro t i ps h s
    cases t with
    | leaf n => simp [matchT] at h
    | act _ _ => simp [matchT] at h
    | ite c' t' e' =>
      simp only [matchT] at h
      split at h
      · rename_i hcc; subst hcc
        simp only [Option.bind_eq_bind, Option.bind_eq_some_iff, Option.pure_def, Option.some.injEq] at h
        obtain ⟨x, hx, y, hy, rfl⟩ := h
        simp only [runS, runTree]
        by_cases hc : cond c s = true
        · simp only [hc, if_true]
          have := iht _ _ _ hx s
          exact ⟨this.1, List.mem_append_left _ this.2⟩
        · simp only [hc]
          have := ihe _ _ _ hy s
          exact ⟨this.1, List.mem_append_right _ this.2⟩
      · simp at h

/-- certificate check: `R` is closed under one clock -/
def closedAt (f : Nat) (prog : Stmt) (sm : SM) (R : List (Susp × Nat)) (p : Susp × Nat) : Bool :=
  match unfSusp f prog p.1 with
  | none => false
  | some st =>
    match matchT st (norm (sm.codes.getD p.2 .nil) none .leaf) p.2 with
    | none => false
    | some ps => ps.all (fun q => R.contains q)

def closed (f : Nat) (prog : Stmt) (sm : SM) (R : List (Susp × Nat)) : Bool :=
  R.contains (.start, 0) && R.all (closedAt f prog sm R)

theorem step_sim (f : Nat) (prog : Stmt) (sm : SM) (R : List (Susp × Nat))
    (hR : R.all (closedAt f prog sm R) = true) (r : Susp) (i : Nat) (hri : (r, i) ∈ R) (s : σ) :
    ∃ r' , refStep act cond f prog r s = some (r', (smStep act cond sm i s).2) ∧
           (r', (smStep act cond sm i s).1) ∈ R := by
  have h1 := List.all_eq_true.mp hR _ hri
  simp only [closedAt] at h1
  split at h1
  · simp at h1
  · rename_i st hst
    split at h1
    · simp at h1
    · rename_i ps hps
      have hm := matchT_sound act cond _ _ _ _ hps s
      have hn := norm_sound act cond (sm.codes.getD i .nil) none .leaf s
      simp only [runTree] at hn
      refine ⟨(runS act cond st s).1, ?_, ?_⟩
      · rw [unfSusp_sound act cond f prog r st hst s]
        simp only [smStep]
        rw [hn] at hm
        simp only at hm
        rw [← hm.1]
      · have := List.all_eq_true.mp h1 _ hm.2
        simp only [smStep]
        rw [hn] at this
        simpa using this

/-- traces -/
def refTrace (f : Nat) (prog : Stmt) (inp : Nat → σ → σ) : Nat → Option (Susp × σ) → Option (Susp × σ)
  | 0, x => x
  | n+1, x => match refTrace f prog inp n x with
      | none => none
      | some (r, s) => refStep act cond f prog r (inp n s)

def smTrace (sm : SM) (inp : Nat → σ → σ) : Nat → Nat × σ → Nat × σ
  | 0, x => x
  | n+1, x => let y := smTrace sm inp n x; smStep act cond sm y.1 (inp n y.2)

theorem validate_sound (f : Nat) (prog : Stmt) (sm : SM) (R : List (Susp × Nat))
    (h : closed f prog sm R = true) (inp : Nat → σ → σ) (s0 : σ) :
    ∀ n, ∃ r, refTrace act cond f prog inp n (some (.start, s0)) = some (r, (smTrace act cond sm inp n (0, s0)).2)
            ∧ (r, (smTrace act cond sm inp n (0, s0)).1) ∈ R := by
  simp only [closed, Bool.and_eq_true] at h
  obtain ⟨h0, hR⟩ := h
  intro n
  induction n with
  | zero => exact ⟨.start, rfl, by simpa [smTrace] using h0⟩
  | succ n ih =>
    obtain ⟨r, hr, hmem⟩ := ih
    obtain ⟨r', hstep, hmem'⟩ := step_sim act cond f prog sm R hR r _ hmem (inp n (smTrace act cond sm inp n (0, s0)).2)
    refine ⟨r', ?_, ?_⟩
    · simp only [refTrace, hr, smTrace]; exact hstep
    · simp only [smTrace]; exact hmem'

end P
